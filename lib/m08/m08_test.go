package m08

import (
	"strconv"
	"testing"
)

func arr(m *Machine, vals ...interface{}) *Object {
	a := m.NewArray(0)
	m.Put(a, "length", NumV(float64(len(vals))), false)
	for i, v := range vals {
		switch x := v.(type) {
		case nil: // hole
		case int:
			m.Put(a, strconv.Itoa(i), NumV(float64(x)), false)
		case string:
			m.Put(a, strconv.Itoa(i), StrV(x), false)
		}
	}
	return a
}

func TestIndexSpellings(t *testing.T) {
	for name, want := range map[string]bool{"0": true, "7": true, "4294967294": true, "4294967295": false, "4294967296": false,
		"01": false, "+1": false, "-0": false, "1.0": false, "1e0": false, " 1": false, "": false, "x": false} {
		if _, ok := IsArrayIndex(name); ok != want {
			t.Errorf("IsArrayIndex(%q) = %v", name, ok)
		}
	}
}

func TestLengthSemantics(t *testing.T) {
	m := NewMachine()
	a := arr(m, 1, 2, 3)
	m.Put(a, "01", NumV(9), false)
	if got := Dump(a); got != "0=wecn1;01=wecn9;1=wecn2;2=wecn3;length=w--n3;ext;proto:AP" {
		t.Errorf("non-canonical key: %s", got)
	}
	// shrinking stops at a non-configurable element
	one := NumV(2)
	m.DefineOwnProperty(a, "1", Desc{V: &one, W: tr(), E: tr(), C: fa()}, true)
	m.Put(a, "length", NumV(0), false)
	if got := a.Get("length").N; got != 2 {
		t.Errorf("length after blocked shrink = %v, want 2", got)
	}
	if th := Try(func() { m.Put(a, "length", NumV(1.5), false) }); th == nil || th.Class != "RangeError" {
		t.Errorf("fractional length: %v", th)
	}
	if th := Try(func() { m.Put(a, "length", NumV(-1), false) }); th == nil || th.Class != "RangeError" {
		t.Errorf("negative length: %v", th)
	}
	m.Put(a, "4294967294", NumV(1), false)
	if got := a.Get("length").N; got != 4294967295 {
		t.Errorf("length after max index = %v", got)
	}
	if th := Try(func() { m.Push(ObjV(a), []Value{NumV(1)}) }); th == nil || th.Class != "RangeError" {
		t.Errorf("push at 2^32-1: %v", th)
	}
	if a.GetOwnProperty("4294967295") == nil {
		t.Errorf("push at 2^32-1 must leave the property 4294967295 behind")
	}
}

func TestMethodsSmoke(t *testing.T) {
	m := NewMachine()
	a := arr(m, 1, nil, 3)
	if got := Ser(m.Concat(ObjV(a), nil)); got != "A{0=wecn1;2=wecn3;length=w--n3;ext;proto:AP}" {
		t.Errorf("concat keeps holes: %s", got)
	}
	if got := Ser(m.Join(ObjV(a), nil)); got != "s<1,,3>" {
		t.Errorf("join: %s", got)
	}
	if got := Ser(m.Splice(ObjV(a), []Value{NumV(1), NumV(1), StrV("x"), StrV("y")})); got != "A{length=w--n1;ext;proto:AP}" {
		t.Errorf("splice result: %s", got)
	}
	if got := Dump(a); got != "0=wecn1;1=wecs<x>;2=wecs<y>;3=wecn3;length=w--n4;ext;proto:AP" {
		t.Errorf("splice receiver: %s", got)
	}
	if th := Try(func() {
		m.Reduce(ObjV(arr(m, nil, nil)), []Value{ObjV(m.NewFunction("f", func(*Machine, Value, []Value) Value { return Undefined }))})
	}); th == nil || th.Class != "TypeError" {
		t.Errorf("reduce over holes: %v", th)
	}
	o := m.NewObject()
	m.Put(o, "length", NumV(2), false)
	m.Put(o, "0", StrV("a"), false)
	m.Put(o, "2", StrV("x"), false)
	if got := Ser(m.LastIndexOf(ObjV(o), []Value{StrV("x"), NumV(2)})); got != "n-1" {
		t.Errorf("lastIndexOf beyond len: %s", got)
	}
}
