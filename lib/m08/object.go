// Package m08 is the reference model of property C08: a small ES5.1 object model (own data
// properties with attributes, prototype link, extensibility, the array exotic
// [[DefineOwnProperty]] of 15.4.5.1) and the Array algorithms of ES5.1 15.4 transcribed step by
// step over it. It is written from the specification text and knows nothing about otto.
//
// Scope: data properties only (no accessors); values are primitives and model objects; functions
// are Go closures. Exceptions are Go panics carrying *Throw.
package m08

import (
	"math"
	"sort"
	"strconv"
	"strings"

	"verif/lib/es5"
	"verif/lib/harness"
)

// ---- values ------------------------------------------------------------------------------------

type Kind int

const (
	Undef Kind = iota
	Null
	Bool
	Num
	Str
	Obj
)

type Value struct {
	K Kind
	B bool
	N float64
	S string
	O *Object
}

var Undefined = Value{}

func NullV() Value            { return Value{K: Null} }
func BoolV(b bool) Value      { return Value{K: Bool, B: b} }
func NumV(n float64) Value    { return Value{K: Num, N: n} }
func StrV(s string) Value     { return Value{K: Str, S: s} }
func ObjV(o *Object) Value    { return Value{K: Obj, O: o} }
func (v Value) IsUndef() bool { return v.K == Undef }

// TypeOf is the typeof operator (11.4.3) on model values.
func TypeOf(v Value) string {
	switch v.K {
	case Undef:
		return "undefined"
	case Null:
		return "object"
	case Bool:
		return "boolean"
	case Num:
		return "number"
	case Str:
		return "string"
	}
	if v.O.Call != nil {
		return "function"
	}
	return "object"
}

// Prop is a data property (8.6.1).
type Prop struct {
	V       Value
	W, E, C bool
}

// Desc is a (data or generic) property descriptor (8.10): nil field = absent.
type Desc struct {
	V       *Value
	W, E, C *bool
}

func tr() *bool { b := true; return &b }
func fa() *bool { b := false; return &b }

// DataWEC is the descriptor {[[Value]]: v, writable, enumerable, configurable all true}.
func DataWEC(v Value) Desc { return Desc{V: &v, W: tr(), E: tr(), C: tr()} }

// Object is an ES5 object restricted to data properties.
type Object struct {
	Name  string // identity tag used by Ser ("" = anonymous)
	Class string // [[Class]]
	Proto *Object
	Ext   bool // [[Extensible]]
	props map[string]*Prop
	order []string
	Call  func(m *Machine, this Value, args []Value) Value // [[Call]]; nil = not callable
	Prim  *Value                                           // [[PrimitiveValue]] of String/Number/Boolean objects
}

// Throw is an abrupt completion of type throw. Class is the name of a native error
// ("TypeError", "RangeError") or "" when an arbitrary value V was thrown by model script code.
type Throw struct {
	Class string
	V     Value
}

// Machine is one realm: the intrinsic prototypes, the global object and the observation log.
type Machine struct {
	ObjectProto, ArrayProto, FunctionProto, Global *Object
	StringProto, NumberProto, BooleanProto         *Object
	Log                                            []string
	// LiteralLength: follow the letter of ES5.1 for concat/slice/splice results (no final
	// [[Put]] of "length": trailing holes do not count) instead of universal practice / ES2015.
	LiteralLength bool
	// Distortions that reproduce known otto findings (off unless the check turns them on).
	HolesToUndefined        bool // results of concat/slice/splice/map get undefined where ES5 leaves a hole
	ReduceRightStrKey       bool // reduceRight passes ToString(k) instead of k
	ReduceNoTypeError       bool // reduce/reduceRight over only holes returns undefined
	ToStringPassArgs        bool // Array.prototype.toString forwards its arguments to join
	LastIndexOfFromLen      bool // lastIndexOf with ToInteger(fromIndex) = len starts at index len instead of len-1
	LastIndexOfEmptyCoerces bool // lastIndexOf converts fromIndex even when len is 0
	CallableCheckFirst      bool // every/some/forEach/map/filter/reduce/reduceRight test IsCallable before reading length
	JoinSeparatorFirst      bool // join converts the separator before reading length
	LengthSingleConversion  bool // array length assignment converts the value once instead of ToUint32 + ToNumber
	LengthEqualRejects      bool // defining length with its current value is rejected when length is non-writable (> instead of >= in 3.f)
	ReverseReturnsThis      bool // reverse returns the this value as passed instead of ToObject(this)
	ReverseDeleteFirst      bool // reverse deletes the upper element before putting the lower one (lower absent, upper present)
	// MaxShrink records the largest number of indices one length assignment had to walk over
	// (15.4.5.1 step 3.l); the checks use it to keep legitimately slow cases out of otto.
	MaxShrink uint32
	// Steps counts loop iterations of the 15.4.4 algorithms; beyond StepLimit (when > 0) the model
	// panics with TooLong.
	Steps, StepLimit int
	// LenLimit (when > 0): a 15.4.4 algorithm other than push/pop applied to a receiver whose
	// length exceeds it panics with TooLong (array-likes above 10^4 are outside the checked domain).
	LenLimit float64
}

func (m *Machine) ThrowType()  { panic(&Throw{Class: "TypeError"}) }
func (m *Machine) ThrowRange() { panic(&Throw{Class: "RangeError"}) }
func (m *Machine) L(s string)  { m.Log = append(m.Log, s) }

// Try runs fn and returns the throw it ended with (nil = normal completion).
func Try(fn func()) (t *Throw) {
	defer func() {
		if p := recover(); p != nil {
			if th, ok := p.(*Throw); ok {
				t = th
				return
			}
			panic(p)
		}
	}()
	fn()
	return nil
}

func (m *Machine) newObj(class string, proto *Object) *Object {
	return &Object{Class: class, Proto: proto, Ext: true, props: map[string]*Prop{}}
}

// NewObject is `new Object()`.
func (m *Machine) NewObject() *Object { return m.newObj("Object", m.ObjectProto) }

// NewArray is `new Array(len)` for a valid length (15.4.2.2).
func (m *Machine) NewArray(length uint32) *Object {
	a := m.newObj("Array", m.ArrayProto)
	a.set("length", &Prop{V: NumV(float64(length)), W: true})
	return a
}

// NewFunction wraps a Go closure as a callable object.
func (m *Machine) NewFunction(name string, fn func(m *Machine, this Value, args []Value) Value) *Object {
	f := m.newObj("Function", m.FunctionProto)
	f.Name = name
	f.Call = fn
	return f
}

// NewMachine builds a fresh realm.
func NewMachine() *Machine {
	m := &Machine{StepLimit: 30000, LenLimit: 20000}
	m.ObjectProto = m.newObj("Object", nil)
	m.ObjectProto.Name = "OP"
	m.FunctionProto = m.newObj("Function", m.ObjectProto)
	m.FunctionProto.Name = "FP"
	m.ArrayProto = m.newObj("Array", m.ObjectProto) // 15.4.4: the Array prototype object is itself an array
	m.ArrayProto.Name = "AP"
	m.ArrayProto.set("length", &Prop{V: NumV(0), W: true})
	m.Global = m.newObj("Object", m.ObjectProto)
	m.Global.Name = "G"
	hidden := func(o *Object, name string, fn func(m *Machine, this Value, args []Value) Value) {
		o.set(name, &Prop{V: ObjV(m.NewFunction("builtin:"+name, fn)), W: true, C: true})
	}
	hidden(m.ObjectProto, "toString", func(m *Machine, this Value, _ []Value) Value { return m.objectProtoToString(this) })
	hidden(m.ObjectProto, "valueOf", func(m *Machine, this Value, _ []Value) Value { return ObjV(m.ToObject(this)) })
	hidden(m.FunctionProto, "toString", func(m *Machine, this Value, _ []Value) Value { return StrV("function () { [native code] }") })
	// 15.5.4, 15.7.4, 15.6.4: the prototype objects are themselves String / Number / Boolean objects
	es, zero, no := StrV(""), NumV(0), BoolV(false)
	m.StringProto = m.newObj("String", m.ObjectProto)
	m.StringProto.Name, m.StringProto.Prim = "SP", &es
	m.StringProto.set("length", &Prop{V: NumV(0)})
	m.NumberProto = m.newObj("Number", m.ObjectProto)
	m.NumberProto.Name, m.NumberProto.Prim = "NP", &zero
	m.BooleanProto = m.newObj("Boolean", m.ObjectProto)
	m.BooleanProto.Name, m.BooleanProto.Prim = "BP", &no
	for _, p := range []*Object{m.StringProto, m.NumberProto, m.BooleanProto} {
		prim := func(m *Machine, this Value, _ []Value) Value {
			if this.K == Obj {
				if this.O.Prim == nil {
					m.ThrowType()
				}
				return *this.O.Prim
			}
			return this
		}
		hidden(p, "valueOf", prim)
		hidden(p, "toString", func(m *Machine, this Value, a []Value) Value { return StrV(m.ToString(prim(m, this, a))) })
	}
	hidden(m.ArrayProto, "toString", func(m *Machine, this Value, a []Value) Value { return m.ArrayToString(this, a) })
	hidden(m.ArrayProto, "join", func(m *Machine, this Value, a []Value) Value { return m.Join(this, a) })
	return m
}

// 15.2.4.2
func (m *Machine) objectProtoToString(this Value) Value {
	switch this.K {
	case Undef:
		return StrV("[object Undefined]")
	case Null:
		return StrV("[object Null]")
	}
	return StrV("[object " + m.ToObject(this).Class + "]")
}

func (o *Object) set(name string, p *Prop) {
	if _, ok := o.props[name]; !ok {
		o.order = append(o.order, name)
	}
	o.props[name] = p
}

func (o *Object) remove(name string) {
	if _, ok := o.props[name]; !ok {
		return
	}
	delete(o.props, name)
	for i, n := range o.order {
		if n == name {
			o.order = append(o.order[:i:i], o.order[i+1:]...)
			break
		}
	}
}

// OwnNames returns the own property names in insertion order.
func (o *Object) OwnNames() []string { return append([]string(nil), o.order...) }

// ---- 8.12 internal methods ------------------------------------------------------------------------

// GetOwnProperty 8.12.1 (nil = undefined).
func (o *Object) GetOwnProperty(p string) *Prop { return o.props[p] }

// GetProperty 8.12.2.
func (o *Object) GetProperty(p string) *Prop {
	for x := o; x != nil; x = x.Proto {
		if pr := x.props[p]; pr != nil {
			return pr
		}
	}
	return nil
}

// Get 8.12.3.
func (o *Object) Get(p string) Value {
	if pr := o.GetProperty(p); pr != nil {
		return pr.V
	}
	return Undefined
}

// CanPut 8.12.4 (data properties only).
func (o *Object) CanPut(p string) bool {
	if own := o.GetOwnProperty(p); own != nil {
		return own.W
	}
	if o.Proto == nil {
		return o.Ext
	}
	inh := o.Proto.GetProperty(p)
	if inh == nil {
		return o.Ext
	}
	if !o.Ext {
		return false
	}
	return inh.W
}

// Put 8.12.5.
func (m *Machine) Put(o *Object, p string, v Value, throw bool) {
	if !o.CanPut(p) {
		if throw {
			m.ThrowType()
		}
		return
	}
	if own := o.GetOwnProperty(p); own != nil {
		m.DefineOwnProperty(o, p, Desc{V: &v}, throw)
		return
	}
	m.DefineOwnProperty(o, p, DataWEC(v), throw)
}

// HasProperty 8.12.6.
func (o *Object) HasProperty(p string) bool { return o.GetProperty(p) != nil }

// Delete 8.12.7.
func (m *Machine) Delete(o *Object, p string, throw bool) bool {
	d := o.GetOwnProperty(p)
	if d == nil {
		return true
	}
	if d.C {
		o.remove(p)
		return true
	}
	if throw {
		m.ThrowType()
	}
	return false
}

// DefaultValue 8.12.8.
func (m *Machine) DefaultValue(o *Object, hintString bool) Value {
	order := []string{"valueOf", "toString"}
	if hintString {
		order = []string{"toString", "valueOf"}
	}
	for _, name := range order {
		f := o.Get(name)
		if IsCallable(f) {
			r := f.O.Call(m, ObjV(o), nil)
			if r.K != Obj {
				return r
			}
		}
	}
	m.ThrowType()
	return Undefined
}

// SameValue 9.12.
func SameValue(x, y Value) bool {
	if x.K != y.K {
		return false
	}
	switch x.K {
	case Undef, Null:
		return true
	case Num:
		return harness.SameNum(x.N, y.N)
	case Str:
		return x.S == y.S
	case Bool:
		return x.B == y.B
	}
	return x.O == y.O
}

// StrictEquals 11.9.6.
func StrictEquals(x, y Value) bool {
	if x.K != y.K {
		return false
	}
	switch x.K {
	case Undef, Null:
		return true
	case Num:
		return x.N == y.N // NaN ≠ NaN, +0 = −0
	case Str:
		return x.S == y.S
	case Bool:
		return x.B == y.B
	}
	return x.O == y.O
}

// defaultDefineOwnProperty is 8.12.9 restricted to data and generic descriptors.
func (m *Machine) defaultDefineOwnProperty(o *Object, p string, d Desc, throw bool) bool {
	reject := func() bool {
		if throw {
			m.ThrowType()
		}
		return false
	}
	cur := o.GetOwnProperty(p)
	if cur == nil { // steps 3, 4
		if !o.Ext {
			return reject()
		}
		np := &Prop{}
		if d.V != nil {
			np.V = *d.V
		}
		np.W = d.W != nil && *d.W
		np.E = d.E != nil && *d.E
		np.C = d.C != nil && *d.C
		o.set(p, np)
		return true
	}
	if d.V == nil && d.W == nil && d.E == nil && d.C == nil { // step 5
		return true
	}
	// step 6: every field of Desc occurs in current with the same value
	if (d.V == nil || SameValue(*d.V, cur.V)) && (d.W == nil || *d.W == cur.W) && (d.E == nil || *d.E == cur.E) && (d.C == nil || *d.C == cur.C) {
		return true
	}
	if !cur.C { // step 7
		if d.C != nil && *d.C {
			return reject()
		}
		if d.E != nil && *d.E != cur.E {
			return reject()
		}
	}
	if d.V == nil && d.W == nil {
		// step 8: generic descriptor, nothing more to validate
	} else if !cur.C { // step 10.a
		if !cur.W && d.W != nil && *d.W {
			return reject()
		}
		if !cur.W && d.V != nil && !SameValue(*d.V, cur.V) {
			return reject()
		}
	}
	if d.V != nil { // step 12
		cur.V = *d.V
	}
	if d.W != nil {
		cur.W = *d.W
	}
	if d.E != nil {
		cur.E = *d.E
	}
	if d.C != nil {
		cur.C = *d.C
	}
	return true
}

// IsArrayIndex: P is an array index iff ToString(ToUint32(P)) = P and ToUint32(P) ≠ 2^32−1 (15.4).
func IsArrayIndex(p string) (uint32, bool) {
	n := es5.StringToNumber(harness.UTF16(p))
	u := es5.ToUint32(n)
	if strconv.FormatUint(uint64(u), 10) != p || u == math.MaxUint32 {
		return 0, false
	}
	return u, true
}

// DefineOwnProperty dispatches to 15.4.5.1 for arrays, 8.12.9 otherwise.
func (m *Machine) DefineOwnProperty(o *Object, p string, d Desc, throw bool) bool {
	if o.Class != "Array" {
		return m.defaultDefineOwnProperty(o, p, d, throw)
	}
	reject := func() bool {
		if throw {
			m.ThrowType()
		}
		return false
	}
	oldLenDesc := o.GetOwnProperty("length") // step 1
	oldLen := uint32(oldLenDesc.V.N)         // step 2
	if p == "length" {                       // step 3
		if d.V == nil { // 3.a
			return m.defaultDefineOwnProperty(o, "length", d, throw)
		}
		newLenDesc := d // 3.b
		var newLen uint32
		if m.LengthSingleConversion {
			n := m.ToNumber(*d.V)
			newLen = es5.ToUint32(n)
			if float64(newLen) != n {
				m.ThrowRange()
			}
		} else {
			newLen = m.ToUint32(*d.V)                // 3.c
			if float64(newLen) != m.ToNumber(*d.V) { // 3.d
				m.ThrowRange()
			}
		}
		nv := NumV(float64(newLen))
		newLenDesc.V = &nv // 3.e
		if m.LengthEqualRejects && newLen == oldLen && !oldLenDesc.W {
			return reject()
		}
		if newLen >= oldLen { // 3.f
			return m.defaultDefineOwnProperty(o, "length", newLenDesc, throw)
		}
		if !oldLenDesc.W { // 3.g
			return reject()
		}
		newWritable := true // 3.h
		if newLenDesc.W != nil && !*newLenDesc.W {
			newWritable = false // 3.i
			newLenDesc.W = tr()
		}
		if !m.defaultDefineOwnProperty(o, "length", newLenDesc, throw) { // 3.j, 3.k
			return false
		}
		if steps := oldLen - newLen; steps > m.MaxShrink {
			m.MaxShrink = steps
		}
		for newLen < oldLen { // 3.l
			oldLen--
			if oldLen-newLen > 64 {
				// Same loop, skipping ahead: deleting an absent property succeeds and has no effect, so
				// only the largest own index in [newLen, oldLen] matters.
				oldLen = o.largestIndexIn(newLen, oldLen)
			}
			if !m.Delete(o, strconv.FormatUint(uint64(oldLen), 10), false) {
				v := NumV(float64(oldLen) + 1)
				newLenDesc.V = &v
				if !newWritable {
					newLenDesc.W = fa()
				}
				m.defaultDefineOwnProperty(o, "length", newLenDesc, false)
				return reject()
			}
		}
		if !newWritable { // 3.m
			m.defaultDefineOwnProperty(o, "length", Desc{W: fa()}, false)
		}
		return true
	}
	if index, ok := IsArrayIndex(p); ok { // step 4
		if index >= oldLen && !oldLenDesc.W { // 4.b
			return reject()
		}
		if !m.defaultDefineOwnProperty(o, p, d, false) { // 4.c, 4.d
			return reject()
		}
		if index >= oldLen { // 4.e
			oldLenDesc.V = NumV(float64(index) + 1)
		}
		return true
	}
	return m.defaultDefineOwnProperty(o, p, d, throw) // step 5
}

// ---- 9 conversions --------------------------------------------------------------------------------

func IsCallable(v Value) bool { return v.K == Obj && v.O.Call != nil }

// ToPrimitive 9.1.
func (m *Machine) ToPrimitive(v Value, hintString bool) Value {
	if v.K != Obj {
		return v
	}
	return m.DefaultValue(v.O, hintString)
}

// ToBoolean 9.2.
func ToBoolean(v Value) bool {
	switch v.K {
	case Undef, Null:
		return false
	case Bool:
		return v.B
	case Num:
		return !(v.N == 0 || math.IsNaN(v.N))
	case Str:
		return v.S != ""
	}
	return true
}

// ToNumber 9.3.
func (m *Machine) ToNumber(v Value) float64 {
	switch v.K {
	case Undef:
		return math.NaN()
	case Null:
		return 0
	case Bool:
		if v.B {
			return 1
		}
		return 0
	case Num:
		return v.N
	case Str:
		return es5.StringToNumber(harness.UTF16(v.S))
	}
	return m.ToNumber(m.ToPrimitive(v, false))
}

// ToInteger 9.4.
func (m *Machine) ToInteger(v Value) float64 { return es5.ToInteger(m.ToNumber(v)) }

// ToUint32 9.6.
func (m *Machine) ToUint32(v Value) uint32 { return es5.ToUint32(m.ToNumber(v)) }

// ToString 9.8.
func (m *Machine) ToString(v Value) string {
	switch v.K {
	case Undef:
		return "undefined"
	case Null:
		return "null"
	case Bool:
		if v.B {
			return "true"
		}
		return "false"
	case Num:
		return es5.NumberToString(v.N)
	case Str:
		return v.S
	}
	return m.ToString(m.ToPrimitive(v, true))
}

// ToObject 9.9 (wrappers for primitives are outside the model's domain).
func (m *Machine) ToObject(v Value) *Object {
	switch v.K {
	case Undef, Null:
		m.ThrowType()
	case Obj:
		return v.O
	case Str:
		// 15.5.5: length and one property per character, all read-only (15.5.5.2 materialised:
		// the primitive value never changes, so the exotic [[GetOwnProperty]] is equivalent to own data properties)
		o := m.newObj("String", m.StringProto)
		o.Prim = &v
		u := harness.UTF16(v.S)
		for i, c := range u {
			ch, _ := harness.FromUTF16([]uint16{c})
			o.set(strconv.Itoa(i), &Prop{V: StrV(ch), E: true})
		}
		o.set("length", &Prop{V: NumV(float64(len(u)))})
		return o
	case Num:
		o := m.newObj("Number", m.NumberProto)
		o.Prim = &v
		return o
	}
	o := m.newObj("Boolean", m.BooleanProto)
	o.Prim = &v
	return o
}

// ---- canonical rendering (must agree with the JS prelude of props/c08) ---------------------------------

// Ser renders a value: primitives by type and value, objects by identity tag, anonymous arrays
// by their own properties.
func Ser(v Value) string {
	switch v.K {
	case Undef:
		return "u"
	case Null:
		return "l"
	case Bool:
		if v.B {
			return "t"
		}
		return "f"
	case Num:
		if v.N == 0 && math.Signbit(v.N) {
			return "n-0"
		}
		return "n" + es5.NumberToString(v.N)
	case Str:
		return "s<" + v.S + ">"
	}
	if v.O.Name != "" {
		return v.O.Name
	}
	if v.O.Class == "Array" {
		return "A{" + Dump(v.O) + "}"
	}
	return "?" + v.O.Class
}

// Dump renders the own properties of o (sorted by name, with attributes), its extensibility and
// its prototype tag.
func Dump(o *Object) string {
	names := o.OwnNames()
	sort.Strings(names)
	var b strings.Builder
	for _, n := range names {
		p := o.props[n]
		if p.V.K == Obj && strings.HasPrefix(p.V.O.Name, "builtin:") {
			continue
		}
		b.WriteString(n)
		b.WriteByte('=')
		b.WriteString(attr(p.W, 'w'))
		b.WriteString(attr(p.E, 'e'))
		b.WriteString(attr(p.C, 'c'))
		b.WriteString(Ser(p.V))
		b.WriteByte(';')
	}
	if o.Ext {
		b.WriteString("ext")
	} else {
		b.WriteString("noext")
	}
	b.WriteString(";proto:")
	if o.Proto == nil {
		b.WriteString("null")
	} else {
		b.WriteString(o.Proto.Name)
	}
	return b.String()
}

func attr(on bool, c byte) string {
	if on {
		return string(c)
	}
	return "-"
}

// largestIndexIn returns the largest own array index i with lo <= i <= hi, or lo when there is none.
func (o *Object) largestIndexIn(lo, hi uint32) uint32 {
	best := lo
	for _, n := range o.order {
		if i, ok := IsArrayIndex(n); ok && i >= lo && i <= hi && i > best {
			best = i
		}
	}
	return best
}

// Freeze is Object.freeze (15.2.3.9) for data properties.
func (m *Machine) Freeze(o *Object) {
	for _, p := range o.OwnNames() {
		cur := o.GetOwnProperty(p)
		m.DefineOwnProperty(o, p, Desc{W: fa(), C: fa()}, true)
		_ = cur
	}
	o.Ext = false
}

// Seal is Object.seal (15.2.3.8).
func (m *Machine) Seal(o *Object) {
	for _, p := range o.OwnNames() {
		m.DefineOwnProperty(o, p, Desc{C: fa()}, true)
	}
	o.Ext = false
}
