package harness

import (
	"bufio"
	"encoding/json"
	"fmt"
	"os"
	"path/filepath"
	"strings"
)

// A known finding is a genuine, recorded deviation of otto from a property. The committed file
// KNOWN_FINDINGS.txt is authoritative for *which* findings exist (it is never written at run
// time); known/<id>.json pins the witness. On every run each listed witness is replayed first:
// only while it still fails is the finding's exclusion class active (Known(id) == true) and a
// KNOWN-FINDING line printed. A witness that no longer fails deactivates the class, so a partial
// or reverted repair shows up as an ordinary VIOLATION.

// Witness is the pinned failing input of a known finding.
type Witness struct {
	ID       string   `json:"id"`
	Property []string `json:"property"`
	Kind     string   `json:"kind"` // "js": evaluate JS (string result compared); "custom": registered Go func
	JS       string   `json:"js,omitempty"`
	Otto     string   `json:"otto,omitempty"` // what otto gives on the pinned tree (informational)
	ES5      string   `json:"es5,omitempty"`  // what the property demands
	What     string   `json:"what"`
}

var (
	knownActive   = map[string]bool{}
	knownListed   = map[string]*Witness{}
	customWitness = map[string]func() (bool, string){}
)

// RegisterWitness installs the Go witness of a "custom" finding; fn reports whether the defect
// is still present and what was observed.
func RegisterWitness(id string, fn func() (stillFails bool, observed string)) {
	customWitness[id] = fn
}

// Known reports whether finding id is listed for this property and its witness still fails.
func Known(id string) bool { return knownActive[id] }

// KnownListed reports whether the finding is listed at all (active or not).
func KnownListed(id string) bool { return knownListed[id] != nil }

type findingLine struct {
	id, replay, what string
	props            []string
}

func parseKnownFile(path string) ([]findingLine, error) {
	f, err := os.Open(path)
	if err != nil {
		if os.IsNotExist(err) {
			return nil, nil
		}
		return nil, err
	}
	defer f.Close()
	var out []findingLine
	sc := bufio.NewScanner(f)
	sc.Buffer(make([]byte, 1<<20), 1<<20)
	for sc.Scan() {
		line := strings.TrimSpace(sc.Text())
		if !strings.HasPrefix(line, "finding:") {
			continue // comments and "fixed:" lines suppress nothing
		}
		fl := findingLine{}
		rest := strings.TrimSpace(strings.TrimPrefix(line, "finding:"))
		fields := strings.Fields(rest)
		n := 0
		for _, fld := range fields {
			switch {
			case strings.HasPrefix(fld, "property="):
				fl.props = strings.Split(strings.TrimPrefix(fld, "property="), ",")
			case strings.HasPrefix(fld, "id="):
				fl.id = strings.TrimPrefix(fld, "id=")
			case strings.HasPrefix(fld, "replay="):
				fl.replay = strings.TrimPrefix(fld, "replay=")
			default:
				goto done
			}
			n++
		}
	done:
		fl.what = strings.Join(fields[n:], " ")
		if fl.id != "" {
			out = append(out, fl)
		}
	}
	return out, sc.Err()
}

// loadKnown replays the witnesses of the findings listed for property and prints KNOWN-FINDING lines.
func loadKnown(property string) {
	lines, err := parseKnownFile(filepath.Join(Root(), "KNOWN_FINDINGS.txt"))
	if err != nil {
		fmt.Fprintf(os.Stderr, "harness: cannot read KNOWN_FINDINGS.txt: %v\n", err)
		os.Exit(2)
	}
	for _, fl := range lines {
		mine := false
		for _, p := range fl.props {
			if p == property {
				mine = true
			}
		}
		if !mine {
			continue
		}
		w := &Witness{ID: fl.id, Property: fl.props, Kind: "custom", What: fl.what}
		if fl.replay != "" {
			b, err := os.ReadFile(filepath.Join(Root(), fl.replay))
			if err != nil {
				fmt.Fprintf(os.Stderr, "harness: finding %s: %v\n", fl.id, err)
				os.Exit(2)
			}
			if err := json.Unmarshal(b, w); err != nil {
				fmt.Fprintf(os.Stderr, "harness: finding %s: %v\n", fl.id, err)
				os.Exit(2)
			}
			if w.What == "" {
				w.What = fl.what
			}
		}
		knownListed[fl.id] = w
		var fails bool
		var observed string
		switch {
		case customWitness[fl.id] != nil:
			fails, observed = customWitness[fl.id]()
		case w.Kind == "js":
			observed = EvalToString(w.JS)
			fails = observed != w.ES5
		default:
			fmt.Fprintf(os.Stderr, "harness: finding %s has no executable witness in this package\n", fl.id)
			os.Exit(2)
		}
		if fails {
			knownActive[fl.id] = true
			what := fl.what
			if what == "" {
				what = w.What
			}
			msg := fmt.Sprintf("KNOWN-FINDING: property=%s id=%s %s [observed: %s]", property, fl.id, what, oneLine(observed, 120))
			fmt.Println(msg)
			rec.known = append(rec.known, fl.id)
		} else {
			fmt.Printf("note: finding %s no longer reproduces (observed %s); its exclusion class is off for this run\n", fl.id, oneLine(observed, 120))
		}
	}
}

func oneLine(s string, max int) string {
	s = strings.ReplaceAll(s, "\n", "\\n")
	if len(s) > max {
		s = s[:max] + "…"
	}
	return s
}
