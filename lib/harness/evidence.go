package harness

import (
	"encoding/json"
	"fmt"
	"hash/fnv"
	"os"
	"path/filepath"
	"sort"
	"sync"
)

// FacetStats is what one process measured for one facet of a property.
type FacetStats struct {
	Name        string            `json:"name"`
	Rule        string            `json:"rule"`
	Evaluations int64             `json:"evaluations"`
	Nontrivial  []uint64          `json:"nontrivial_fingerprints,omitempty"` // distinct fingerprints of non-trivial cases
	NontrivCap  bool              `json:"nontrivial_capped,omitempty"`
	Classes     map[string]int64  `json:"classes,omitempty"`
	Excluded    map[string]int64  `json:"excluded_known,omitempty"`
	Discards    map[string]int64  `json:"discarded,omitempty"`
	Samples     []json.RawMessage `json:"samples,omitempty"`
	Exhaustive  bool              `json:"exhaustive,omitempty"`

	set map[uint64]struct{}
}

// Shard is the evidence of one process.
type ShardFile struct {
	Property   string                 `json:"property"`
	Tier       string                 `json:"tier"`
	Seed       int64                  `json:"seed"`
	Shard      int                    `json:"shard"`
	Facets     []*FacetStats          `json:"facets"`
	Known      []string               `json:"known_findings_printed,omitempty"`
	Violations int                    `json:"violations"`
	Extra      map[string]interface{} `json:"extra,omitempty"`
}

const maxFingerprints = 3_000_000
const maxSamples = 8

var rec = struct {
	sync.Mutex
	property   string
	facets     map[string]*FacetStats
	order      []string
	known      []string
	violations int
	extra      map[string]interface{}
}{facets: map[string]*FacetStats{}, extra: map[string]interface{}{}}

func facet(name string) *FacetStats {
	f := rec.facets[name]
	if f == nil {
		f = &FacetStats{Name: name, Classes: map[string]int64{}, Excluded: map[string]int64{}, Discards: map[string]int64{}, set: map[uint64]struct{}{}}
		rec.facets[name] = f
		rec.order = append(rec.order, name)
	}
	return f
}

// Hash64 fingerprints a case.
func Hash64(s string) uint64 {
	h := fnv.New64a()
	h.Write([]byte(s))
	return h.Sum64()
}

// SetRule records the generation / non-triviality rule of a facet.
func SetRule(facetName, rule string) {
	rec.Lock()
	defer rec.Unlock()
	facet(facetName).Rule = rule
}

// SetExhaustive marks a facet as a complete enumeration of a finite space.
func SetExhaustive(facetName string) {
	rec.Lock()
	defer rec.Unlock()
	facet(facetName).Exhaustive = true
}

// Count records one executed case.
func Count(facetName string, nontrivial bool, fingerprint string, classes ...string) {
	rec.Lock()
	defer rec.Unlock()
	f := facet(facetName)
	f.Evaluations++
	for _, c := range classes {
		if c != "" {
			f.Classes[c]++
		}
	}
	if nontrivial {
		if len(f.set) < maxFingerprints {
			f.set[Hash64(fingerprint)] = struct{}{}
		} else {
			f.NontrivCap = true
		}
	}
}

// CountExcluded records a case steered around (or compared modulo) a known finding class.
func CountExcluded(facetName, class string) {
	rec.Lock()
	defer rec.Unlock()
	facet(facetName).Excluded[class]++
}

// CountDiscard records a generated case that was not evaluated, with the reason.
func CountDiscard(facetName, reason string) {
	rec.Lock()
	defer rec.Unlock()
	facet(facetName).Discards[reason]++
}

// Sample keeps up to maxSamples example cases per facet (the first ones offered).
func Sample(facetName string, v interface{}) {
	rec.Lock()
	defer rec.Unlock()
	f := facet(facetName)
	if len(f.Samples) >= maxSamples {
		return
	}
	b, err := json.Marshal(v)
	if err != nil {
		b, _ = json.Marshal(fmt.Sprint(v))
	}
	if len(b) > 1500 {
		b, _ = json.Marshal(string(b[:1500]) + "…(truncated)")
	}
	f.Samples = append(f.Samples, b)
}

// WantSample says whether the facet still accepts samples (cheap pre-check).
func WantSample(facetName string) bool {
	rec.Lock()
	defer rec.Unlock()
	return len(facet(facetName).Samples) < maxSamples
}

// SetExtra stores a free-form key in the evidence file.
func SetExtra(key string, v interface{}) {
	rec.Lock()
	defer rec.Unlock()
	rec.extra[key] = v
}

func noteViolation() {
	rec.Lock()
	rec.violations++
	rec.Unlock()
}

// Flush writes this process's shard file into OutDir().
func Flush() error {
	rec.Lock()
	defer rec.Unlock()
	dir := OutDir()
	if dir == "" {
		return nil
	}
	sf := ShardFile{Property: rec.property, Tier: Tier(), Seed: Seed(), Shard: Shard(), Known: rec.known, Violations: rec.violations, Extra: rec.extra}
	for _, name := range rec.order {
		f := rec.facets[name]
		f.Nontrivial = f.Nontrivial[:0]
		for h := range f.set {
			f.Nontrivial = append(f.Nontrivial, h)
		}
		sort.Slice(f.Nontrivial, func(i, j int) bool { return f.Nontrivial[i] < f.Nontrivial[j] })
		sf.Facets = append(sf.Facets, f)
	}
	b, err := json.Marshal(&sf)
	if err != nil {
		return err
	}
	if err := os.MkdirAll(dir, 0o755); err != nil {
		return err
	}
	return os.WriteFile(filepath.Join(dir, fmt.Sprintf("shard-%03d.json", Shard())), b, 0o644)
}
