package harness

import (
	"encoding/json"
	"flag"
	"fmt"
	"os"
	"path/filepath"
	"runtime/debug"
	"sort"
	"strconv"
	"strings"
	"testing"

	"pgregory.net/rapid"
)

// Outcome is what checking one generated case produced.
type Outcome struct {
	Fail       string   // non-empty: the property is violated on this case (expected vs got, human readable)
	Nontrivial bool     // the case satisfies the facet's stated non-triviality rule
	Classes    []string // histogram labels
	Excluded   []string // known-finding classes this case was steered around / compared modulo
	Discard    string   // non-empty: the case was not evaluated (reason)
}

// Facet is one executable statement of (part of) a property: a generator, an oracle, counters.
type Facet[C any] struct {
	Name     string
	Rule     string             // how cases are generated and what makes one non-trivial / distinct
	Gen      func(t *rapid.T) C // every random choice is drawn here
	Check    func(c C) Outcome  // pure function of the case (and of the tree under test)
	Quick    int                // rapid checks per process, quick tier
	Thorough int                // rapid checks per process (shard), thorough tier

	last *failure
}

type failure struct {
	Property string          `json:"property"`
	Facet    string          `json:"facet"`
	Case     json.RawMessage `json:"case"`
	Fail     string          `json:"fail"`
}

var replayers = map[string]func(raw json.RawMessage) (Outcome, error){}
var property string

// Register makes the facet replayable by name. Call from init() or before Main.
func Register[C any](f *Facet[C]) *Facet[C] {
	replayers[f.Name] = func(raw json.RawMessage) (Outcome, error) {
		var c C
		if err := json.Unmarshal(raw, &c); err != nil {
			return Outcome{}, err
		}
		return f.safeCheck(c), nil
	}
	return f
}

// journal records the case about to be checked when the driver re-runs a shard that died (fatal Go
// error, stack exhaustion, out of memory): the last entry is then the culprit.
func journal(facet string, c interface{}) {
	path := os.Getenv("VERIF_JOURNAL")
	if path == "" {
		return
	}
	raw, err := json.Marshal(c)
	if err != nil {
		return
	}
	b, _ := json.Marshal(&failure{Property: property, Facet: facet, Case: raw, Fail: "the test process died (fatal Go error, stack exhaustion or out of memory) while this case was being checked"})
	_ = os.WriteFile(path, b, 0o644)
}

func (f *Facet[C]) safeCheck(c C) (o Outcome) {
	journal(f.Name, c)
	defer func() {
		if p := recover(); p != nil {
			if _, ok := p.(BudgetSentinel); ok {
				o = Outcome{Discard: "poll budget"}
				return
			}
			o = Outcome{Fail: fmt.Sprintf("Go panic escaped into the harness: %v", p)}
		}
	}()
	return f.Check(c)
}

func (f *Facet[C]) record(c C, o Outcome) {
	if o.Discard != "" {
		CountDiscard(f.Name, o.Discard)
		return
	}
	fp := ""
	if o.Nontrivial {
		b, _ := json.Marshal(c)
		fp = string(b)
	}
	Count(f.Name, o.Nontrivial, fp, o.Classes...)
	for _, e := range o.Excluded {
		CountExcluded(f.Name, e)
	}
	if o.Nontrivial && WantSample(f.Name) {
		Sample(f.Name, c)
	}
}

func facetSeed(name string) uint64 {
	s := uint64(Seed())*1_000_003 + uint64(Shard())*7919 + Hash64(name)%1_000_000
	if s == 0 {
		s = 1
	}
	return s
}

// Run drives the facet with rapid: Quick/Thorough checks, seed derived from VERIF_SEED, shard and
// facet name. On failure the shrunk case is saved as a replay file and a VIOLATION line printed.
func (f *Facet[C]) Run(t *testing.T) {
	t.Helper()
	SetRule(f.Name, f.Rule)
	n := N(f.Quick, f.Thorough)
	if n <= 0 {
		return
	}
	must(flag.Set("rapid.checks", strconv.Itoa(n)))
	must(flag.Set("rapid.seed", strconv.FormatUint(facetSeed(f.Name), 10)))
	must(flag.Set("rapid.nofailfile", "true"))
	f.last = nil
	defer func() {
		if t.Failed() {
			f.report(t)
		}
	}()
	rapid.Check(t, func(rt *rapid.T) {
		c := f.Gen(rt)
		o := f.safeCheck(c)
		f.record(c, o)
		if o.Fail != "" {
			raw, _ := json.Marshal(c)
			f.last = &failure{Property: property, Facet: f.Name, Case: raw, Fail: o.Fail}
			rt.Fatalf("%s: %s\ncase: %s", f.Name, o.Fail, raw)
		}
	})
}

// Each runs the facet over an explicit list of cases (finite enumerations); all failures are
// collected, the first maxReport are reported.
func (f *Facet[C]) Each(t *testing.T, cases []C) {
	t.Helper()
	SetRule(f.Name, f.Rule)
	reported := 0
	for _, c := range cases {
		o := f.safeCheck(c)
		f.record(c, o)
		if o.Fail != "" && reported < 5 {
			raw, _ := json.Marshal(c)
			f.last = &failure{Property: property, Facet: f.Name, Case: raw, Fail: o.Fail}
			t.Errorf("%s: %s\ncase: %s", f.Name, o.Fail, raw)
			f.report(t)
			reported++
		}
	}
}

// Fatal reports a violation that cannot be survived in-process (a run that stopped polling and is
// still burning a goroutine): the replay file is written, the VIOLATION line printed, the evidence
// flushed and the process ends with status 1 without shrinking.
func (f *Facet[C]) Fatal(c C, msg string) {
	raw, _ := json.Marshal(c)
	f.last = &failure{Property: property, Facet: f.Name, Case: raw, Fail: msg}
	path := writeReplay(f.last)
	fmt.Printf("VIOLATION property=%s replay=%s\n", property, path)
	fmt.Printf("  facet=%s %s\n", f.Name, oneLine(msg, 600))
	noteViolation()
	_ = Flush()
	os.Exit(1)
}

func (f *Facet[C]) report(t *testing.T) {
	if f.last == nil {
		// rapid failed without a recorded case (e.g. generator panic): not a verdict about otto.
		fmt.Printf("HARNESS-ERROR property=%s facet=%s failed without a recorded case\n", property, f.Name)
		return
	}
	path := writeReplay(f.last)
	fmt.Printf("VIOLATION property=%s replay=%s\n", property, path)
	fmt.Printf("  facet=%s %s\n", f.Name, oneLine(f.last.Fail, 600))
	noteViolation()
}

func writeReplay(fl *failure) string {
	dir := filepath.Join(Root(), "replays")
	_ = os.MkdirAll(dir, 0o755)
	b, _ := json.MarshalIndent(fl, "", " ")
	name := fmt.Sprintf("%s-%s-%016x.json", fl.Property, sanitize(fl.Facet), Hash64(string(fl.Case)))
	path := filepath.Join(dir, name)
	if err := os.WriteFile(path, b, 0o644); err != nil {
		fmt.Fprintf(os.Stderr, "harness: cannot write replay file: %v\n", err)
	}
	return path
}

func sanitize(s string) string {
	return strings.Map(func(r rune) rune {
		if r >= 'a' && r <= 'z' || r >= 'A' && r <= 'Z' || r >= '0' && r <= '9' || r == '-' || r == '_' {
			return r
		}
		return '_'
	}, s)
}

func must(err error) {
	if err != nil {
		panic(err)
	}
}

// replayFile replays one file through its facet; returns (violated, message).
func replayFile(path string) (bool, string, error) {
	b, err := os.ReadFile(path)
	if err != nil {
		return false, "", err
	}
	var fl failure
	if err := json.Unmarshal(b, &fl); err != nil {
		return false, "", err
	}
	r := replayers[fl.Facet]
	if r == nil {
		return false, "", fmt.Errorf("no facet %q in this package", fl.Facet)
	}
	o, err := r(fl.Case)
	if err != nil {
		return false, "", err
	}
	return o.Fail != "", o.Fail, nil
}

// Main is the TestMain body of every property package.
//
//	func TestMain(m *testing.M) { harness.Main(m, "C09") }
//
// It replays the known-finding witnesses (printing KNOWN-FINDING lines), serves --replay requests
// (VERIF_REPLAY=<file>), serves subprocess-worker mode (VERIF_WORKER=<name>), replays regress/
// inputs, runs the tests and writes the evidence shard.
func Main(m *testing.M, prop string) {
	property = prop
	rec.property = prop
	debug.SetMaxStack(512 << 20) // unbounded Go recursion dies after 512 MB instead of 1 GB
	flag.Parse()
	if w := os.Getenv("VERIF_WORKER"); w != "" {
		serveWorker(w)
		os.Exit(0)
	}
	loadKnown(prop)
	if p := os.Getenv("VERIF_REPLAY"); p != "" {
		bad, msg, err := replayFile(p)
		if err != nil {
			fmt.Fprintf(os.Stderr, "replay: %v\n", err)
			os.Exit(2)
		}
		if bad {
			fmt.Printf("VIOLATION property=%s replay=%s\n  %s\n", prop, p, oneLine(msg, 600))
			os.Exit(1)
		}
		fmt.Printf("replay %s: property holds on this case\n", p)
		os.Exit(0)
	}
	code := 0
	// regression inputs: shrunk cases of repaired defects and of past harness false alarms; must pass.
	files, _ := filepath.Glob(filepath.Join(Root(), "regress", prop+"-*.json"))
	sort.Strings(files)
	for _, p := range files {
		bad, msg, err := replayFile(p)
		if err != nil {
			fmt.Fprintf(os.Stderr, "regress %s: %v\n", p, err)
			code = 2
			continue
		}
		Count("regress", false, "")
		if bad {
			fmt.Printf("VIOLATION property=%s replay=%s\n  regression input fails again: %s\n", prop, p, oneLine(msg, 600))
			noteViolation()
			code = 1
		}
	}
	if c := m.Run(); c != 0 && code == 0 {
		code = c
	}
	if err := Flush(); err != nil {
		fmt.Fprintf(os.Stderr, "harness: evidence: %v\n", err)
		code = 2
	}
	os.Exit(code)
}
