// Package harness is the shared machinery of the /verif property checks:
// run configuration (tier, seed, shard), evidence counters, known-finding
// registry, replay files, a rapid wrapper, otto helpers and subprocess workers.
package harness

import (
	"os"
	"strconv"
)

// Tier is "quick" or "thorough".
func Tier() string {
	if t := os.Getenv("VERIF_TIER"); t == "thorough" {
		return "thorough"
	}
	return "quick"
}

// Thorough reports whether the thorough tier is running.
func Thorough() bool { return Tier() == "thorough" }

func envInt(name string, def int64) int64 {
	if s := os.Getenv(name); s != "" {
		if n, err := strconv.ParseInt(s, 10, 64); err == nil {
			return n
		}
	}
	return def
}

// Seed is the VERIF_SEED value the run received (default 1).
func Seed() int64 { return envInt("VERIF_SEED", 1) }

// Shard is the index of this process among NShards parallel processes.
func Shard() int { return int(envInt("VERIF_SHARD", 0)) }

// NShards is the number of parallel processes of this run.
func NShards() int {
	n := int(envInt("VERIF_NSHARDS", 1))
	if n < 1 {
		n = 1
	}
	return n
}

// OutDir is where this process writes its evidence shard ("" = do not write).
func OutDir() string { return os.Getenv("VERIF_OUT") }

// Root is the /verif directory (the driver exports it; tests run with cwd = package dir).
func Root() string {
	if r := os.Getenv("VERIF_ROOT"); r != "" {
		return r
	}
	return "/verif"
}

// N picks the per-process case count for the current tier.
func N(quick, thorough int) int {
	if Thorough() {
		// props/config.json "thorough_scale" (exported by the driver): cheap checks run deeper
		if s, err := strconv.ParseFloat(os.Getenv("VERIF_THOROUGH_SCALE"), 64); err == nil && s > 0 && thorough > 0 {
			if n := int(float64(thorough) * s); n > 0 {
				return n
			}
		}
		return thorough
	}
	return quick
}
