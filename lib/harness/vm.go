package harness

import (
	"errors"
	"fmt"
	"strconv"
	"strings"
	"syscall"
	"unicode/utf8"

	"github.com/robertkrimen/otto"
)

// BudgetSentinel is what the poll-budget interrupt function panics with.
type BudgetSentinel struct{ Polls int64 }

func (b BudgetSentinel) String() string {
	return fmt.Sprintf("verif poll budget exhausted after %d polls", b.Polls)
}

// Budget is a self re-arming interrupt function: otto polls vm.Interrupt at the top of every
// statement / expression evaluation and calls the function it receives on the interpreter
// goroutine; the function counts, puts itself back into the (capacity 1, just drained) channel,
// and once the budget is spent panics at every later poll, so a script cannot outlive it by
// catching the sentinel.
type Budget struct {
	vm    *otto.Otto
	Polls int64
	Limit int64
	Hook  func(poll int64) // optional, called at every poll before the limit test
	// CPUSeconds, when > 0, ends the run with the budget sentinel once the process has burnt that much CPU time
	// since Arm (getrusage; tested every 64 polls): a terminating but very slow case (each statement doing a
	// huge amount of native work) is given up as a discard instead of occupying a shard for an hour
	CPUSeconds float64
	cpu0       float64
}

func cpuSeconds() float64 {
	var ru syscall.Rusage
	if err := syscall.Getrusage(syscall.RUSAGE_SELF, &ru); err != nil {
		return 0
	}
	return float64(ru.Utime.Sec+ru.Stime.Sec) + float64(ru.Utime.Usec+ru.Stime.Usec)/1e6
}

// ArmCPU is Arm with a CPU-time cap as well.
func ArmCPU(vm *otto.Otto, limit int64, cpuSecs float64) *Budget {
	b := Arm(vm, limit)
	b.CPUSeconds = cpuSecs
	b.cpu0 = cpuSeconds()
	return b
}

// Arm installs (or re-installs) the budget on vm with a fresh counter.
func Arm(vm *otto.Otto, limit int64) *Budget {
	b := &Budget{vm: vm, Limit: limit}
	if vm.Interrupt == nil {
		vm.Interrupt = make(chan func(), 1)
	}
	select { // drain a stale function
	case <-vm.Interrupt:
	default:
	}
	vm.Interrupt <- b.fire
	return b
}

func (b *Budget) fire() {
	b.Polls++
	select {
	case b.vm.Interrupt <- b.fire:
	default:
	}
	if b.Hook != nil {
		b.Hook(b.Polls)
	}
	if b.Limit > 0 && b.Polls > b.Limit {
		panic(BudgetSentinel{b.Polls})
	}
	if b.CPUSeconds > 0 && b.Polls%64 == 0 && cpuSeconds()-b.cpu0 > b.CPUSeconds {
		panic(BudgetSentinel{b.Polls})
	}
}

// Outcome of a guarded API call.
type RunResult struct {
	Value    otto.Value
	Err      error       // error returned by the API
	Panicked bool        // a Go panic crossed the API
	Panic    interface{} // its value
	Budget   bool        // the panic was the harness's own budget sentinel
}

// ErrName gives the JS error class of an error returned by otto ("" when none).
func ErrName(err error) string {
	if err == nil {
		return ""
	}
	var oe *otto.Error
	if errors.As(err, &oe) {
		s := oe.Error()
		if i := strings.Index(s, ":"); i > 0 {
			return s[:i]
		}
		return s
	}
	s := err.Error()
	if i := strings.Index(s, ":"); i > 0 {
		return s[:i]
	}
	return s
}

// Guard runs fn and converts an escaping panic into a RunResult.
func Guard(fn func() (otto.Value, error)) (r RunResult) {
	defer func() {
		if p := recover(); p != nil {
			r.Panicked = true
			r.Panic = p
			if _, ok := p.(BudgetSentinel); ok {
				r.Budget = true
			}
		}
	}()
	r.Value, r.Err = fn()
	return r
}

// Run runs src on vm under Guard.
func Run(vm *otto.Otto, src interface{}) RunResult {
	return Guard(func() (otto.Value, error) { return vm.Run(src) })
}

// Describe renders a RunResult as one comparable string: "panic:…", "throws:Name", or the
// String() of the value with its type tag.
func (r RunResult) Describe() string {
	switch {
	case r.Budget:
		return "budget"
	case r.Panicked:
		return "panic:" + fmt.Sprint(r.Panic)
	case r.Err != nil:
		return "throws:" + ErrName(r.Err)
	}
	return r.Value.String()
}

// EvalToString evaluates js on a fresh runtime (with a generous poll budget) and describes the result.
func EvalToString(js string) string {
	vm := otto.New()
	Arm(vm, 5_000_000)
	return Run(vm, js).Describe()
}

// JSString renders s as an ES5 string literal (\uXXXX for non-ASCII BMP characters;
// astral characters raw; invalid UTF-8 bytes as U+FFFD).
func JSString(s string) string {
	var b strings.Builder
	b.WriteByte('"')
	for _, r := range s {
		writeJSRune(&b, r)
	}
	b.WriteByte('"')
	return b.String()
}

// JSString16 renders a UTF-16 code unit sequence as an ES5 string literal: printable ASCII as is,
// well-formed surrogate pairs as the raw astral character (otto's lexer does not combine
// \uD83D\uDE00 escape pairs, a C03 finding, so escapes would not denote the same string there),
// everything else - including lone surrogates - as \uXXXX.
func JSString16(u []uint16) string {
	var b strings.Builder
	b.WriteByte('"')
	for i := 0; i < len(u); i++ {
		c := u[i]
		switch {
		case c >= 0x20 && c < 0x7f && c != '"' && c != '\\':
			b.WriteByte(byte(c))
		case c >= 0xD800 && c < 0xDC00 && i+1 < len(u) && u[i+1] >= 0xDC00 && u[i+1] < 0xE000:
			b.WriteRune(0x10000 + (rune(c)-0xD800)<<10 + (rune(u[i+1]) - 0xDC00))
			i++
		default:
			fmt.Fprintf(&b, "\\u%04X", c)
		}
	}
	b.WriteByte('"')
	return b.String()
}

func writeJSRune(b *strings.Builder, r rune) {
	switch {
	case r == '"' || r == '\\':
		b.WriteByte('\\')
		b.WriteRune(r)
	case r >= 0x20 && r < 0x7f:
		b.WriteRune(r)
	case r < 0x10000:
		fmt.Fprintf(b, "\\u%04X", r)
	default:
		b.WriteRune(r) // raw: otto does not combine escaped surrogate pairs
	}
}

// UTF16 converts a Go string to UTF-16 code units (invalid bytes become U+FFFD).
func UTF16(s string) []uint16 {
	out := make([]uint16, 0, len(s))
	for _, r := range s {
		if r >= 0x10000 {
			r -= 0x10000
			out = append(out, uint16(0xD800+(r>>10)), uint16(0xDC00+(r&0x3ff)))
		} else {
			out = append(out, uint16(r))
		}
	}
	return out
}

// FromUTF16 converts code units to a Go string; ok is false when a lone surrogate is present.
func FromUTF16(u []uint16) (s string, ok bool) {
	var b strings.Builder
	ok = true
	for i := 0; i < len(u); i++ {
		c := rune(u[i])
		switch {
		case c >= 0xD800 && c < 0xDC00 && i+1 < len(u) && u[i+1] >= 0xDC00 && u[i+1] < 0xE000:
			b.WriteRune(0x10000 + (c-0xD800)<<10 + (rune(u[i+1]) - 0xDC00))
			i++
		case c >= 0xD800 && c < 0xE000:
			ok = false
			b.WriteRune(utf8.RuneError)
		default:
			b.WriteRune(c)
		}
	}
	return b.String(), ok
}

// Quote is strconv.Quote for messages.
func Quote(s string) string { return strconv.Quote(s) }
