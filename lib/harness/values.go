package harness

import (
	"fmt"
	"math"
	"strconv"
	"strings"

	"github.com/robertkrimen/otto"
)

// NumLit renders a double as an ES5 expression that denotes exactly that double.
func NumLit(x float64) string {
	switch {
	case math.IsNaN(x):
		return "NaN"
	case math.IsInf(x, 1):
		return "Infinity"
	case math.IsInf(x, -1):
		return "-Infinity"
	case x == 0 && math.Signbit(x):
		return "-0"
	}
	s := strconv.FormatFloat(x, 'e', -1, 64)
	return s
}

// NumRepr is a canonical rendering of a double that distinguishes -0 and all NaNs collapse.
func NumRepr(x float64) string {
	switch {
	case math.IsNaN(x):
		return "NaN"
	case x == 0 && math.Signbit(x):
		return "-0"
	}
	return strconv.FormatFloat(x, 'g', -1, 64)
}

// SameNum: identical doubles in the ES5 sense (all NaNs equal, +0 ≠ −0).
func SameNum(a, b float64) bool {
	if math.IsNaN(a) || math.IsNaN(b) {
		return math.IsNaN(a) && math.IsNaN(b)
	}
	return math.Float64bits(a) == math.Float64bits(b)
}

// Repr is a canonical typed rendering of an otto value read from Go:
// "undefined", "null", "boolean:true", "number:<NumRepr>", "string:<quoted>", "object:<Class>".
func Repr(v otto.Value) string {
	switch {
	case v.IsUndefined():
		return "undefined"
	case v.IsNull():
		return "null"
	case v.IsBoolean():
		b, _ := v.ToBoolean()
		return "boolean:" + strconv.FormatBool(b)
	case v.IsNumber():
		f, _ := v.ToFloat()
		return "number:" + NumRepr(f)
	case v.IsString():
		s, _ := v.ToString()
		return "string:" + strconv.QuoteToASCII(s)
	case v.IsObject():
		return "object:" + v.Class()
	}
	return fmt.Sprintf("unknown:%v", v)
}

// Join is strings.Join for call sites that import only harness.
func Join(s []string, sep string) string { return strings.Join(s, sep) }
