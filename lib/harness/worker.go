package harness

import (
	"bufio"
	"bytes"
	"encoding/json"
	"fmt"
	"io"
	"os"
	"os/exec"
	"runtime/debug"
	"strings"
	"sync"
	"time"
)

// Subprocess workers isolate cases that can kill a Go process without a recoverable panic
// (Go stack exhaustion, concurrent map writes, runaway allocation). The parent sends one case,
// waits for the answer; if the child dies or stops answering, the case in flight is the culprit.

var workers = map[string]func(req json.RawMessage) json.RawMessage{}

// RegisterWorker installs the child-side handler for worker mode name.
func RegisterWorker(name string, fn func(req json.RawMessage) json.RawMessage) { workers[name] = fn }

const respMarker = "\x01VERIF-RESP "

func serveWorker(name string) {
	fn := workers[name]
	if fn == nil {
		fmt.Fprintf(os.Stderr, "worker: unknown mode %q\n", name)
		os.Exit(2)
	}
	debug.SetMaxStack(96 << 20) // die quickly on unbounded Go recursion instead of eating 1 GB
	in := bufio.NewReaderSize(os.Stdin, 1<<20)
	out := bufio.NewWriter(os.Stdout)
	for {
		line, err := in.ReadBytes('\n')
		if len(line) > 0 {
			resp := fn(json.RawMessage(bytes.TrimSpace(line)))
			out.WriteString(respMarker)
			out.Write(bytes.ReplaceAll(resp, []byte("\n"), []byte(" ")))
			out.WriteByte('\n')
			out.Flush()
		}
		if err != nil {
			return
		}
	}
}

// WorkerStatus says how a request ended.
type WorkerStatus int

const (
	WorkerOK WorkerStatus = iota
	WorkerDied
	WorkerTimeout
)

// Worker is the parent-side handle of one child process (restarted on demand).
type Worker struct {
	name   string
	env    []string
	cmd    *exec.Cmd
	stdin  io.WriteCloser
	lines  chan string
	stderr *tailBuffer
	mu     sync.Mutex
	Starts int
}

// NewWorker prepares (lazily starts) a worker running mode name of this test binary.
func NewWorker(name string, extraEnv ...string) *Worker { return &Worker{name: name, env: extraEnv} }

type tailBuffer struct {
	mu    sync.Mutex
	first []byte // the beginning of the stream (a crash or race report starts with its reason)
	buf   []byte
}

func (t *tailBuffer) Write(p []byte) (int, error) {
	t.mu.Lock()
	defer t.mu.Unlock()
	if room := 16384 - len(t.first); room > 0 {
		if len(p) < room {
			room = len(p)
		}
		t.first = append(t.first, p[:room]...)
	}
	t.buf = append(t.buf, p...)
	if len(t.buf) > 65536 {
		t.buf = t.buf[len(t.buf)-65536:]
	}
	return len(p), nil
}

func (t *tailBuffer) head(n int) string {
	t.mu.Lock()
	defer t.mu.Unlock()
	s := string(t.buf)
	if !strings.Contains(s, "DATA RACE") && !strings.Contains(s, "fatal error:") && !strings.Contains(s, "panic:") {
		s = string(t.first) // the reason scrolled out of the tail: use the beginning of the stream
	}
	// the first lines of a Go crash report carry the reason
	if i := strings.Index(s, "WARNING: DATA RACE"); i >= 0 {
		s = s[i:]
	} else if i := strings.Index(s, "fatal error:"); i >= 0 {
		s = s[i:]
	} else if i := strings.Index(s, "panic:"); i >= 0 {
		s = s[i:]
	}
	if len(s) > n {
		s = s[:n]
	}
	return s
}

func (w *Worker) start() error {
	cmd := exec.Command(os.Args[0], "-test.run=^$")
	cmd.Env = append(os.Environ(), "VERIF_WORKER="+w.name, "VERIF_OUT=", "GOTRACEBACK=single")
	cmd.Env = append(cmd.Env, w.env...)
	stdin, err := cmd.StdinPipe()
	if err != nil {
		return err
	}
	stdout, err := cmd.StdoutPipe()
	if err != nil {
		return err
	}
	w.stderr = &tailBuffer{}
	cmd.Stderr = w.stderr
	if err := cmd.Start(); err != nil {
		return err
	}
	w.cmd, w.stdin = cmd, stdin
	w.Starts++
	lines := make(chan string, 4)
	w.lines = lines
	go func() {
		r := bufio.NewReaderSize(stdout, 1<<20)
		for {
			line, err := r.ReadString('\n')
			if strings.HasPrefix(line, respMarker) {
				lines <- strings.TrimSuffix(strings.TrimPrefix(line, respMarker), "\n")
			}
			if err != nil {
				close(lines)
				return
			}
		}
	}()
	return nil
}

func (w *Worker) kill() {
	if w.cmd != nil {
		_ = w.cmd.Process.Kill()
		_, _ = w.cmd.Process.Wait()
		w.cmd = nil
	}
}

// Close stops the child.
func (w *Worker) Close() {
	w.mu.Lock()
	defer w.mu.Unlock()
	if w.cmd != nil {
		w.stdin.Close()
		done := make(chan struct{})
		go func() { _, _ = w.cmd.Process.Wait(); close(done) }()
		select {
		case <-done:
		case <-time.After(2 * time.Second):
			_ = w.cmd.Process.Kill()
		}
		w.cmd = nil
	}
}

// Do sends one request and waits for the answer. On WorkerDied / WorkerTimeout, detail holds the
// head of the child's crash report; the child is restarted by the next Do.
func (w *Worker) Do(req interface{}, timeout time.Duration) (resp json.RawMessage, st WorkerStatus, detail string) {
	w.mu.Lock()
	defer w.mu.Unlock()
	if w.cmd == nil {
		if err := w.start(); err != nil {
			panic(fmt.Sprintf("harness: cannot start worker: %v", err))
		}
	}
	b, err := json.Marshal(req)
	if err != nil {
		panic(err)
	}
	b = append(bytes.ReplaceAll(b, []byte("\n"), []byte(" ")), '\n')
	if _, err := w.stdin.Write(b); err != nil {
		time.Sleep(50 * time.Millisecond)
		d := w.stderr.head(600)
		w.kill()
		return nil, WorkerDied, d
	}
	select {
	case line, ok := <-w.lines:
		if !ok {
			time.Sleep(50 * time.Millisecond)
			d := w.stderr.head(600)
			w.kill()
			return nil, WorkerDied, d
		}
		return json.RawMessage(line), WorkerOK, ""
	case <-time.After(timeout):
		w.kill()
		return nil, WorkerTimeout, fmt.Sprintf("no answer within %v", timeout)
	}
}
