// Package c10 decides property C10: regular expressions are translated soundly and exec/test and
// String.prototype.match/replace/search/split implement the ES5 protocol (15.10, 15.5.4.10-14).
package c10

import (
	"errors"
	"fmt"
	"regexp"
	"strconv"
	"strings"
	"testing"

	"github.com/robertkrimen/otto"
	"github.com/robertkrimen/otto/parser"
	"pgregory.net/rapid"

	"verif/lib/harness"
	"verif/lib/m10"
)

func TestMain(m *testing.M) { harness.Main(m, "C10") }

// ---- known findings (ids; see FINDINGS.txt) ------------------------------------------------------

const (
	kSliceContext   = "C10-EXEC-SLICE-CONTEXT"
	kMatchNull      = "C10-MATCH-NULL"
	kGlobalLI       = "C10-GLOBAL-LASTINDEX"
	kFlags          = "C10-FLAGS-UNCHECKED"
	kErrorClass     = "C10-ERROR-CLASS"
	kCaptureReset   = "C10-CAPTURE-RESET"
	kEmptyIteration = "C10-EMPTY-ITERATION"
	kEmptyAdjacent  = "C10-EMPTY-MATCH-ADJACENT"
	kSearchBytes    = "C10-SEARCH-BYTES"
	kReplacerOffset = "C10-REPLACER-OFFSET"
	kLIBytes        = "C10-LASTINDEX-BYTES"
	kLineTerm       = "C10-LINE-TERMINATORS"
	kAstralUnit     = "C10-ASTRAL-UNIT"
	kLoneSurrogate  = "C10-LONE-SURROGATE"
	kEmptyClass     = "C10-EMPTY-CLASS"
	kGoSyntax       = "C10-GO-SYNTAX-LEAK"
	kQuantAssert    = "C10-QUANTIFIED-ASSERTION"
	kZeroPad        = "C10-QUANTIFIER-LEADING-ZERO"
	kSplitEmpty     = "C10-SPLIT-EMPTY-STRING"
	kDollar2        = "C10-DOLLAR-TWO-DIGIT"
	kFoldPair       = "C10-FOLD-PAIR-CLASS-FACTORING"
)

// ---- otto access -----------------------------------------------------------------------------------

var (
	vm     *otto.Otto
	vmUses int
)

const marker = "\x01"

const prelude = `var __r=[], __log=[];
function __res(a){
  if(a===null){__r.push("null-result");return}
  if(a===undefined){__r.push("undefined-result");return}
  if(typeof a!=="object"){__r.push("prim",a);return}
  __r.push("array",Object.prototype.toString.call(a),a.length);
  for(var i=0;i<a.length;i++)__r.push(a[i]);
  __r.push(("index" in a)?a.index:"no-index",("input" in a)?a.input:"no-input");
}
function __li(re){var v=re.lastIndex;__r.push("\u0001li",typeof v,(v!==null&&typeof v==="object")?"obj#"+v.id:v,__log.join(","));__log=[]}
function __obj(id,n){return {id:id,valueOf:function(){__log.push(id);return n}}}
function __step(){__r.push("\u0001step")}
`

func getVM() *otto.Otto {
	if vm == nil || vmUses > 1500 {
		vm = otto.New()
		if _, err := vm.Run(prelude); err != nil {
			panic(err)
		}
		vmUses = 0
	}
	vmUses++
	return vm
}

// runTokens runs js (which fills __r) and returns the typed rendering of every element of __r.
// bad is non-empty when the script as a whole did not complete: "throws:Name" / "panic:…".
func runTokens(js string) (toks []string, bad string) {
	v := getVM()
	r := harness.Run(v, "__r=[];__log=[];\n"+js)
	if r.Panicked {
		vm = nil // state unknown
		return nil, "panic:" + fmt.Sprint(r.Panic)
	}
	if r.Err != nil {
		var pe *parser.ErrorList
		if errors.As(r.Err, &pe) {
			return nil, "throws:SyntaxError" // early error: the program (here: its regular expression literal) does not parse
		}
		return nil, "throws:" + harness.ErrName(r.Err)
	}
	arr, err := v.Get("__r")
	if err != nil || !arr.IsObject() {
		return nil, "harness: __r unreadable"
	}
	o := arr.Object()
	lv, _ := o.Get("length")
	n, _ := lv.ToInteger()
	toks = make([]string, 0, n)
	for i := int64(0); i < n; i++ {
		e, _ := o.Get(strconv.FormatInt(i, 10))
		toks = append(toks, harness.Repr(e))
	}
	return toks, ""
}

// ---- token helpers ---------------------------------------------------------------------------------

func tokStr(u []uint16) string {
	s, _ := harness.FromUTF16(u)
	return "string:" + strconv.QuoteToASCII(s)
}
func tokS(s string) string      { return "string:" + strconv.QuoteToASCII(s) }
func tokNum(x float64) string   { return "number:" + harness.NumRepr(x) }
func tokBool(b bool) string     { return "boolean:" + strconv.FormatBool(b) }
func hasLone(u []uint16) bool   { _, ok := harness.FromUTF16(u); return !ok }
func unitsOf(s string) []uint16 { return harness.UTF16(s) }

// execTokens renders a model exec result the way __res does.
func execTokens(mr *m10.MatchResult, input []uint16) []string {
	if mr == nil {
		return []string{tokS("null-result")}
	}
	t := []string{tokS("array"), tokS("[object Array]"), tokNum(float64(len(mr.Caps)))}
	for k := range mr.Caps {
		if mr.Def[k] {
			t = append(t, tokStr(mr.Caps[k]))
		} else {
			t = append(t, "undefined")
		}
	}
	return append(t, tokNum(float64(mr.Index)), tokStr(input))
}

func resultHasLone(mr *m10.MatchResult) bool {
	if mr == nil {
		return false
	}
	for k := range mr.Caps {
		if mr.Def[k] && hasLone(mr.Caps[k]) {
			return true
		}
	}
	return false
}

// startsInsidePair: the match begins between the two units of an astral character (a position that
// does not exist for an engine working on code points).
func startsInsidePair(mr *m10.MatchResult, input []uint16) bool {
	return mr != nil && insidePair(input, mr.Index)
}

func insidePair(u []uint16, i int) bool {
	return i > 0 && i < len(u) && u[i-1] >= 0xD800 && u[i-1] < 0xDC00 && u[i] >= 0xDC00 && u[i] < 0xE000
}

func sameTokens(a, b []string) bool {
	if len(a) != len(b) {
		return false
	}
	for i := range a {
		if a[i] != b[i] {
			return false
		}
	}
	return true
}

func show(t []string) string { return "[" + strings.Join(t, " ") + "]" }

// ---- constructing the RegExp in three syntactic forms ------------------------------------------------

func validFlags(f string) bool {
	seen := map[rune]bool{}
	for _, c := range f {
		if c != 'g' && c != 'i' && c != 'm' || seen[c] {
			return false
		}
		seen[c] = true
	}
	return true
}

// literalSafe: the pattern can be written between slashes as a RegularExpressionLiteral (7.8.5):
// non-empty, no line terminator, every / escaped or inside a class, does not start with *, no
// unterminated class or trailing backslash (they would swallow the closing slash).
func literalSafe(src string) bool {
	if src == "" || src[0] == '*' {
		return false
	}
	inClass := false
	u := unitsOf(src)
	for i := 0; i < len(u); i++ {
		c := u[i]
		switch {
		case m10.IsLineTerminator(c):
			return false
		case c == '\\':
			if i+1 >= len(u) || m10.IsLineTerminator(u[i+1]) {
				return false
			}
			i++
		case c == '[':
			inClass = true
		case c == ']':
			inClass = false
		case c == '/' && !inClass:
			return false
		}
	}
	return !inClass
}

func flagsLiteralSafe(f string) bool {
	for _, c := range f {
		if !(c >= 'a' && c <= 'z' || c >= 'A' && c <= 'Z' || c >= '0' && c <= '9' || c == '$' || c == '_') {
			return false
		}
	}
	return true
}

// ctorExpr renders the construction of the RegExp. form: new | call | lit (falls back to new).
func ctorExpr(src, flags, form string) string {
	switch form {
	case "lit", "evallit":
		if literalSafe(src) && flagsLiteralSafe(flags) {
			var b strings.Builder
			b.WriteByte('/')
			b.WriteString(src) // raw: astral / non-ASCII characters are written as themselves
			b.WriteByte('/')
			b.WriteString(flags)
			if form == "evallit" {
				return "eval(" + harness.JSString(b.String()) + ")"
			}
			return b.String()
		}
		fallthrough
	case "new":
		if flags == "" {
			return "new RegExp(" + harness.JSString(src) + ")"
		}
		return "new RegExp(" + harness.JSString(src) + "," + harness.JSString(flags) + ")"
	}
	return "RegExp(" + harness.JSString(src) + "," + harness.JSString(flags) + ")"
}

var forms = []string{"new", "new", "call", "lit", "lit", "evallit"}

// ---- the exec comparison shared by the translation and matching facets ---------------------------------

type execVerdict struct {
	fail     string
	excluded []string
	classes  []string
	discard  string
	matched  bool
	nearMiss bool
}

// level of comparison that the active known findings leave
const (
	cmpFull    = 3 // index, matched text, captures
	cmpOverall = 2 // index and matched text
	cmpIndex   = 1 // null-ness and index
	cmpNone    = 0
)

// levelFor decides, from what the model's search actually exercised, how much of the result the
// recorded structural findings leave comparable. Each class is only active while its finding stands.
func levelFor(tr *m10.Trace, feat m10.Features, expectLone, splits bool) (level int, excluded []string) {
	level = cmpFull
	lower := func(l int, id string) {
		excluded = append(excluded, id)
		if l < level {
			level = l
		}
	}
	if tr.ResetCleared > 0 && harness.Known(kCaptureReset) {
		lower(cmpOverall, kCaptureReset)
	}
	if tr.EmptyCheck > 0 && harness.Known(kEmptyIteration) {
		lower(cmpIndex, kEmptyIteration)
	}
	if tr.LTDiff > 0 && harness.Known(kLineTerm) {
		lower(cmpNone, kLineTerm)
	}
	if tr.SurrogateUnit > 0 && harness.Known(kAstralUnit) {
		lower(cmpNone, kAstralUnit)
	}
	if splits && harness.Known(kAstralUnit) {
		lower(cmpNone, kAstralUnit)
	}
	if feat.EmptyClass && harness.Known(kEmptyClass) {
		lower(cmpNone, kEmptyClass)
	}
	if feat.ZeroPadQuant && harness.Known(kZeroPad) {
		lower(cmpNone, kZeroPad)
	}
	if feat.FoldPair && harness.Known(kFoldPair) {
		lower(cmpNone, kFoldPair)
	}
	if expectLone && harness.Known(kLoneSurrogate) {
		lower(cmpNone, kLoneSurrogate)
	}
	return
}

// compareExecTokens compares the tokens __res produced for an exec result with the model's result at
// the given level.
func compareExecTokens(got []string, mr *m10.MatchResult, input []uint16, level int) string {
	if level == cmpNone {
		return ""
	}
	want := execTokens(mr, input)
	if level == cmpFull {
		if !sameTokens(got, want) {
			return fmt.Sprintf("exec result %s, ES5 15.10.6.2/15.10.2 gives %s", show(got), show(want))
		}
		return ""
	}
	// partial: null-ness, index (and the matched text)
	if mr == nil || len(got) == 1 {
		if !sameTokens(got, want) {
			return fmt.Sprintf("exec result %s, ES5 gives %s", show(got), show(want))
		}
		return ""
	}
	if len(got) != len(want) {
		return fmt.Sprintf("exec result %s has the wrong shape, ES5 gives %s", show(got), show(want))
	}
	n := len(want)
	if got[n-2] != want[n-2] || got[n-1] != want[n-1] || got[2] != want[2] {
		return fmt.Sprintf("exec result %s: index/input/length differ from ES5 %s", show(got), show(want))
	}
	if level >= cmpOverall && got[3] != want[3] {
		return fmt.Sprintf("exec result %s: matched text differs from ES5 %s", show(got), show(want))
	}
	return ""
}

func featureClasses(f m10.Features, flags string) []string {
	var c []string
	add := func(b bool, s string) {
		if b {
			c = append(c, s)
		}
	}
	add(f.Class, "pat:class")
	add(f.NegClass, "pat:negated-class")
	add(f.Range, "pat:range")
	add(f.Quant, "pat:quantifier")
	add(f.Lazy, "pat:lazy")
	add(f.Group, "pat:capture")
	add(f.NCGroup, "pat:non-capturing")
	add(f.Alt, "pat:alternation")
	add(f.Anchor, "pat:anchor")
	add(f.WordB, "pat:word-boundary")
	add(f.Dot, "pat:dot")
	add(f.ClassEsc, "pat:class-escape")
	add(f.Escape, "pat:escape")
	add(f.CaptureInRepeat, "pat:capture-in-repeat")
	add(f.NullableRepeat, "pat:nullable-repeat")
	add(f.EmptyClass, "pat:empty-class")
	for _, fl := range []string{"g", "i", "m"} {
		add(strings.Contains(flags, fl), "flag:"+fl)
	}
	return c
}

// nearMatch: the subject fails to match but some prefix of the pattern's terms matched a
// non-empty stretch somewhere (approximated by: the model spent more steps than one per position).
func nearMatch(tr *m10.Trace, subject []uint16) bool { return tr.Steps > 3*(len(subject)+1) }

// ---- facet: matching ------------------------------------------------------------------------------------

type matchCase struct {
	Src     string   `json:"src"`
	Flags   string   `json:"flags"`
	Form    string   `json:"form"`
	Subject []uint16 `json:"subject"`
}

func newModelRegExp(p m10.Parsed, flags string) *m10.RegExp {
	return &m10.RegExp{
		Prog:      m10.Compile(p.Tree, p.NCaps, strings.Contains(flags, "i"), strings.Contains(flags, "m")),
		Global:    strings.Contains(flags, "g"),
		LastIndex: m10.NumVal(0),
	}
}

func checkMatch(c matchCase) harness.Outcome {
	p := m10.Parse(unitsOf(c.Src))
	if p.Status != m10.Valid || !validFlags(c.Flags) {
		return harness.Outcome{Discard: "not a valid portable pattern: " + p.Why}
	}
	feat := m10.Analyse(p.Tree)
	if strings.Contains(c.Flags, "i") {
		feat.FoldPair = false // with the i flag every literal is folded: nothing to confuse
	}
	o := harness.Outcome{Classes: featureClasses(feat, c.Flags)}
	o.Classes = append(o.Classes, "form:"+c.Form)
	re := newModelRegExp(p, c.Flags)
	tr := &m10.Trace{}
	mr := re.Exec(c.Subject, tr)
	if tr.OverBudget {
		return harness.Outcome{Discard: "model step budget"}
	}
	if mr != nil {
		o.Classes = append(o.Classes, "subject:match")
		if mr.Index > 0 {
			o.Classes = append(o.Classes, "subject:match-at-offset")
		}
		for k := 1; k < len(mr.Def); k++ {
			if !mr.Def[k] {
				o.Classes = append(o.Classes, "result:undefined-capture")
				break
			}
		}
	} else if nearMatch(tr, c.Subject) {
		o.Classes = append(o.Classes, "subject:near-match")
	} else {
		o.Classes = append(o.Classes, "subject:no-match")
	}
	o.Nontrivial = feat.Constructs >= 2 && (mr != nil || nearMatch(tr, c.Subject))
	level, excl := levelFor(tr, feat, resultHasLone(mr), startsInsidePair(mr, c.Subject))
	o.Excluded = excl
	if level == cmpFull {
		o.Classes = append(o.Classes, "compared:full")
	} else {
		o.Classes = append(o.Classes, "compared:partial-or-none")
	}

	// The pattern is submitted in the drawn form and, whenever it can be spelled that way, also in the
	// other family (literal <-> constructor): both must agree with the model (7.8.5 + 15.10.4.1).
	formsToRun := []string{c.Form}
	if c.Form == "lit" || c.Form == "evallit" {
		formsToRun = append(formsToRun, "new")
	} else if literalSafe(c.Src) && flagsLiteralSafe(c.Flags) {
		formsToRun = append(formsToRun, "evallit")
		o.Classes = append(o.Classes, "also-as-literal")
	}
	for _, form := range formsToRun {
		if done := checkMatchForm(&o, c, form, mr, re, level); done {
			return o
		}
	}
	return o
}

// checkMatchForm runs one syntactic form of the case; it reports true when o is final (failure or
// nothing comparable).
func checkMatchForm(o *harness.Outcome, c matchCase, form string, mr *m10.MatchResult, re *m10.RegExp, level int) bool {
	js := "(function(){var re;try{re=" + ctorExpr(c.Src, c.Flags, form) + "}catch(e){__r.push('ctor-throw',e.name);return}\n" +
		"try{__res(re.exec(" + harness.JSString16(c.Subject) + "));__li(re)}catch(e){__r.push('exec-throw',e.name)}})()"
	toks, bad := runTokens(js)
	what := fmt.Sprintf("%s on %s", ctorExpr(c.Src, c.Flags, form), harness.JSString16(c.Subject))
	if bad != "" {
		if level == cmpNone && !strings.HasPrefix(bad, "panic:") {
			return true
		}
		o.Fail = fmt.Sprintf("%s: %s; a pattern of the portable subset must be accepted (15.10.1, 7.8.5) and exec must work", what, bad)
		return true
	}
	if len(toks) >= 1 && (toks[0] == tokS("ctor-throw") || toks[0] == tokS("exec-throw")) {
		if level == cmpNone {
			return true
		}
		o.Fail = fmt.Sprintf("%s: %s; a pattern of the portable subset must be accepted (15.10.1, 7.8.5) and exec must work", what, show(toks))
		return true
	}
	// split off the lastIndex record
	cut := -1
	for i, t := range toks {
		if t == tokS(marker+"li") {
			cut = i
		}
	}
	if cut < 0 || len(toks) != cut+4 {
		o.Fail = fmt.Sprintf("%s: unreadable result %s", what, show(toks))
		return true
	}
	if msg := compareExecTokens(toks[:cut], mr, c.Subject, level); msg != "" {
		o.Fail = what + ": " + msg
		return true
	}
	// lastIndex after one exec from 0 (15.10.6.2 step 11 / 9.a)
	if level >= cmpOverall {
		wantLI := 0.0
		if re.Global && mr != nil {
			wantLI = float64(mr.End)
		}
		if wantLI > 0 && !allASCII(c.Subject[:mr.End]) && harness.Known(kLIBytes) {
			o.Excluded = append(o.Excluded, kLIBytes)
		} else if toks[cut+1] != tokS("number") || toks[cut+2] != tokNum(wantLI) {
			o.Fail = fmt.Sprintf("%s: lastIndex after exec is %s %s, ES5 15.10.6.2 gives %v", what, toks[cut+1], toks[cut+2], wantLI)
			return true
		}
	}
	return false
}

func allASCII(u []uint16) bool {
	for _, c := range u {
		if c >= 0x80 {
			return false
		}
	}
	return true
}

func genMatchCase(unicode bool) func(t *rapid.T) matchCase {
	return func(t *rapid.T) matchCase {
		form := rapid.SampledFrom(forms).Draw(t, "form")
		tree := m10.GenTree(t, m10.GenOpts{Unicode: unicode, Space: !unicode, RawNewline: form != "lit" && form != "evallit", EmptyClass: true, Big: true})
		flags := m10.GenFlags(t)
		subj := m10.GenSubject(t, tree, strings.Contains(flags, "i"), unicode, 8)
		return matchCase{Src: m10.Render(tree), Flags: flags, Form: form, Subject: subj}
	}
}

const matchRule = "rapid: pattern tree over the portable subset (depth<=3; literals a b c A 1 _ space - . \\n \\t, escapes \\d\\D\\w\\W \\b\\B \\t\\n \\xHH \\uHHHH \\cX identity escapes, classes with ranges/negation/escapes, greedy+lazy * + ? {n} {n,} {n,m}, (…) (?:…), |, ^ $, flags g i m in any order) rendered as new RegExp(src,flags) / RegExp(src,flags) / literal; subject <= 8 units, 70% derived from the pattern (a string it matches, in random context, sometimes damaged) and 30% random; every case is submitted in the drawn form and also in the other family (constructor <-> literal via eval) whenever the source can be spelled as a RegularExpressionLiteral (7.8.5); one class in ten is built from the delimiter-sensitive atoms \\] \\\\ / \\/ [ \\[ \\- ^ in random order; compared with the 15.10.2 backtracking matcher: index, input, length, every capture, lastIndex. non-trivial = pattern has >= 2 construct kinds among {class, quantifier, group, alternation, anchor/boundary, escape} and the subject matches or nearly matches (the model did real work); distinct by (source, flags, form, subject)"

var matchASCII = harness.Register(&harness.Facet[matchCase]{
	Name:     "match-ascii",
	Rule:     matchRule + "; subject alphabet a b c A B C 1 _ space - . \\n \\t; \\s \\S allowed",
	Quick:    7000,
	Thorough: 150000,
	Gen:      genMatchCase(false),
	Check:    checkMatch,
})

var matchUnicode = harness.Register(&harness.Facet[matchCase]{
	Name:     "match-unicode",
	Rule:     matchRule + "; subject alphabet extended with é É U+2028 CR and the astral U+1F600 (2 units) to expose byte/rune/unit offset mistakes; pattern may name é É U+2028 (raw or escaped)",
	Quick:    5000,
	Thorough: 90000,
	Gen:      genMatchCase(true),
	Check:    checkMatch,
})

func TestMatchASCII(t *testing.T)   { matchASCII.Run(t) }
func TestMatchUnicode(t *testing.T) { matchUnicode.Run(t) }

// ---- facet: translation soundness -----------------------------------------------------------------------

type transCase struct {
	Src      string   `json:"src"`
	Flags    string   `json:"flags"`
	Form     string   `json:"form"`
	Subject  []uint16 `json:"subject"`
	Mutation string   `json:"mutation,omitempty"`
}

// goSyntaxLeak recognises the root cause "(?x…" group syntax of Go's regexp passed through untranslated".
var goGroupSyntax = regexp.MustCompile(`\(\?[^:=!]`)

func checkTranslate(c transCase) harness.Outcome {
	p := m10.Parse(unitsOf(c.Src))
	fOK := validFlags(c.Flags)
	o := harness.Outcome{Classes: []string{"status:" + p.Status.String(), "form:" + c.Form}}
	if c.Mutation != "" {
		o.Classes = append(o.Classes, "mutated")
	}
	if !fOK {
		o.Classes = append(o.Classes, "flags:invalid")
	}
	what := ctorExpr(c.Src, c.Flags, c.Form)

	// (1a) Go API: TransformRegExp without error => the result compiles
	out, terr := parser.TransformRegExp(c.Src)
	if terr == nil {
		if _, cerr := regexp.Compile(out); cerr != nil {
			// the constructor turns this into a SyntaxError; for an ES5-valid pattern that is a wrong rejection
			if p.Status == m10.Valid {
				f := m10.Analyse(p.Tree)
				if f.EmptyClass && harness.Known(kEmptyClass) {
					o.Excluded = append(o.Excluded, kEmptyClass)
				} else {
					o.Fail = fmt.Sprintf("parser.TransformRegExp(%q) = %q without error, but regexp.Compile rejects it (%v); the pattern is valid ES5 (15.10.1)", c.Src, out, cerr)
					return o
				}
			}
			o.Classes = append(o.Classes, "transform:ok-but-uncompilable")
		} else {
			o.Classes = append(o.Classes, "transform:ok")
		}
	} else {
		o.Classes = append(o.Classes, "transform:error")
	}
	if p.Status == m10.Outside {
		return harness.Outcome{Discard: "outside: " + firstWords(p.Why)}
	}

	var feat m10.Features
	var re *m10.RegExp
	var mr *m10.MatchResult
	tr := &m10.Trace{}
	if p.Tree != nil && (p.Status == m10.Valid || p.Status == m10.Lenient) && fOK {
		feat = m10.Analyse(p.Tree)
		if strings.Contains(c.Flags, "i") {
			feat.FoldPair = false
		}
		re = newModelRegExp(p, c.Flags)
		mr = re.Exec(c.Subject, tr)
		if tr.OverBudget {
			return harness.Outcome{Discard: "model step budget"}
		}
	}
	o.Nontrivial = c.Mutation != "" || !fOK || feat.Constructs >= 2

	js := "(function(){var re;try{re=" + what + "}catch(e){__r.push('ctor-throw',e.name);return}\n" +
		"try{__res(re.exec(" + harness.JSString16(c.Subject) + "))}catch(e){__r.push('exec-throw',e.name)}})()"
	toks, bad := runTokens(js)
	threw, errName := false, ""
	switch {
	case strings.HasPrefix(bad, "panic:"):
		o.Fail = what + ": " + bad
		return o
	case strings.HasPrefix(bad, "throws:"):
		threw, errName = true, strings.TrimPrefix(bad, "throws:") // early error of a literal
	case bad != "":
		o.Fail = what + ": " + bad
		return o
	case len(toks) == 2 && toks[0] == tokS("ctor-throw"):
		threw = true
		errName = strings.Trim(strings.TrimPrefix(toks[1], "string:"), `"`)
	}

	mustThrow := p.Status == m10.Invalid || p.Status == m10.Unsupported || !fOK
	switch {
	case mustThrow && !threw:
		// which recorded root causes explain the acceptance? (all of them must be standing findings)
		var ids []string
		if !fOK {
			ids = append(ids, kFlags)
		}
		if p.Status == m10.Invalid || p.Status == m10.Unsupported {
			switch {
			case p.EmptyClass:
				ids = append(ids, kEmptyClass) // the leading ] is taken as a literal: the rest is read as one long class
			case p.ZeroPad:
				ids = append(ids, kZeroPad) // {00} is not taken as a quantifier, so "nothing to repeat" is not noticed
			case p.Status == m10.Invalid && strings.HasPrefix(p.Why, "invalid group (?"):
				ids = append(ids, kGoSyntax)
			case p.Status == m10.Invalid && strings.HasPrefix(p.Why, "quantifier after an assertion"):
				ids = append(ids, kQuantAssert)
			default:
				ids = append(ids, "")
			}
		}
		all := true
		for _, id := range ids {
			if id == "" || !harness.Known(id) {
				all = false
			}
		}
		if all {
			o.Excluded = append(o.Excluded, ids...)
			return o
		}
		reason := p.Why
		if !fOK {
			reason = "flags " + strconv.Quote(c.Flags) + " (15.10.4.1: only g, i, m, each at most once)"
		}
		o.Fail = fmt.Sprintf("%s is accepted (exec gives %s) but ES5 requires a SyntaxError: %s [%s]", what, show(toks), reason, p.Status)
		return o
	case mustThrow && threw:
		o.Classes = append(o.Classes, "rejected:"+errName)
		if errName != "SyntaxError" {
			if harness.Known(kErrorClass) && errName == "TypeError" {
				o.Excluded = append(o.Excluded, kErrorClass)
				return o
			}
			o.Fail = fmt.Sprintf("%s throws %s; ES5 15.10.4.1/15.10.2 require a SyntaxError", what, errName)
		}
		return o
	case threw: // Valid or Lenient pattern, valid flags
		if p.Status == m10.Lenient {
			o.Classes = append(o.Classes, "lenient:rejected")
			return o
		}
		if feat.EmptyClass && harness.Known(kEmptyClass) {
			o.Excluded = append(o.Excluded, kEmptyClass)
			return o
		}
		o.Fail = fmt.Sprintf("%s throws %s, but the pattern is valid ES5 (15.10.1) inside the portable subset", what, errName)
		return o
	}
	// accepted and expected to be accepted: exec must work and agree with the model
	if len(toks) >= 1 && toks[0] == tokS("exec-throw") {
		o.Fail = fmt.Sprintf("%s constructs, but exec throws %s", what, show(toks))
		return o
	}
	if p.Status == m10.Lenient {
		o.Classes = append(o.Classes, "lenient:accepted")
	}
	level, excl := levelFor(tr, feat, resultHasLone(mr), startsInsidePair(mr, c.Subject))
	o.Excluded = append(o.Excluded, excl...)
	if msg := compareExecTokens(toks, mr, c.Subject, level); msg != "" {
		o.Fail = fmt.Sprintf("%s on %s: %s", what, harness.JSString16(c.Subject), msg)
	}
	return o
}

func firstWords(s string) string {
	f := strings.Fields(s)
	if len(f) > 3 {
		f = f[:3]
	}
	return strings.Join(f, " ")
}

var translate = harness.Register(&harness.Facet[transCase]{
	Name:     "translate",
	Rule:     "rapid: a portable-subset pattern, with probability 0.6 damaged by one or two source-level mutations (insert/delete/duplicate a syntax character, unbalanced ( ) [, dangling or doubled quantifier, {2,1}, [b-a], trailing backslash, look-ahead, back-reference, Go-only group syntax (?i) (?P<n>…), quantified assertion) and with probability 0.2 given invalid flags (unknown or repeated letter); the independent 15.10.1 parser classifies the result: valid => constructor must accept, exec must agree with the model; unsupported/invalid => constructor/literal must throw SyntaxError; lenient (ES5.1 rejects, web grammar accepts) => either; also parser.TransformRegExp(src) without error => regexp.Compile succeeds. non-trivial = mutated, invalid flags, or >= 2 construct kinds; distinct by (source, flags, form, subject)",
	Quick:    7000,
	Thorough: 120000,
	Gen: func(t *rapid.T) transCase {
		form := rapid.SampledFrom(forms).Draw(t, "form")
		tree := m10.GenTree(t, m10.GenOpts{Unicode: false, Space: true, RawNewline: form != "lit" && form != "evallit", EmptyClass: true})
		c := transCase{Src: m10.Render(tree), Form: form}
		if rapid.IntRange(0, 9).Draw(t, "mutate") < 6 {
			c.Src, c.Mutation = m10.Mutate(t, c.Src)
			if rapid.IntRange(0, 3).Draw(t, "twice") == 3 {
				var m2 string
				c.Src, m2 = m10.Mutate(t, c.Src)
				c.Mutation += "; " + m2
			}
		}
		if rapid.IntRange(0, 4).Draw(t, "badflags") == 4 {
			c.Flags = rapid.SampledFrom(m10.BadFlags).Draw(t, "flags")
		} else {
			c.Flags = m10.GenFlags(t)
		}
		c.Subject = m10.GenSubject(t, tree, strings.Contains(c.Flags, "i"), false, 8)
		return c
	},
	Check: checkTranslate,
})

func TestTranslate(t *testing.T) { translate.Run(t) }
