package c10

import (
	"fmt"
	"math"
	"strconv"
	"strings"
	"testing"

	"pgregory.net/rapid"

	"verif/lib/es5"
	"verif/lib/harness"
	"verif/lib/m10"
)

// ---- facet: protocol histories on one RegExp object --------------------------------------------------------

type protoOp struct {
	Op   string     `json:"op"` // exec test setli match replace search split
	Subj int        `json:"s"`
	Val  *m10.JSVal `json:"v,omitempty"`    // setli: the value; split: the limit (absent = no argument)
	Repl string     `json:"repl,omitempty"` // replace with a string
	Fn   string     `json:"fn,omitempty"`   // replace with a function: const count undef echo
}

type protoCase struct {
	Src      string     `json:"src"`
	Flags    string     `json:"flags"`
	Form     string     `json:"form"`
	Subjects [][]uint16 `json:"subjects"`
	Ops      []protoOp  `json:"ops"`
}

func jsVal(v m10.JSVal) string {
	switch v.Kind {
	case "num":
		return "(" + v.Num + ")"
	case "str":
		return harness.JSString(v.Str)
	case "undef":
		return "undefined"
	case "null":
		return "null"
	case "bool":
		return strconv.FormatBool(v.Bool)
	case "obj":
		return "__obj(" + strconv.Itoa(v.ID) + ",(" + v.Num + "))"
	}
	return "undefined"
}

// liTokens renders a model lastIndex value the way __li does (typeof, value).
func liTokens(v m10.JSVal) []string {
	switch v.Kind {
	case "num":
		return []string{tokS("number"), tokNum(v.Float())}
	case "str":
		return []string{tokS("string"), tokS(v.Str)}
	case "undef":
		return []string{tokS("undefined"), "undefined"}
	case "null":
		return []string{tokS("object"), "null"}
	case "bool":
		return []string{tokS("boolean"), tokBool(v.Bool)}
	case "obj":
		return []string{tokS("object"), tokS("obj#" + strconv.Itoa(v.ID))}
	}
	return nil
}

const fnConstText = "<$1|$&>"

func fnSource(kind string) string {
	ret := ""
	switch kind {
	case "const":
		ret = "return " + harness.JSString(fnConstText)
	case "count":
		ret = "return '['+(k++)+']'"
	case "undef":
		ret = "return undefined"
	case "echo":
		ret = "return arguments[0]+arguments[0]"
	}
	return "(function(){var k=0;return function(){__r.push('call',arguments.length);for(var i=0;i<arguments.length;i++)__r.push(arguments[i]);" + ret + "}})()"
}

func (c protoCase) script() string {
	var b strings.Builder
	b.WriteString("(function(){var re;try{re=" + ctorExpr(c.Src, c.Flags, c.Form) + "}catch(e){__r.push('ctor-throw',e.name);return}\n")
	for i, s := range c.Subjects {
		fmt.Fprintf(&b, "var s%d=%s;\n", i, harness.JSString16(s))
	}
	for _, op := range c.Ops {
		s := "s" + strconv.Itoa(op.Subj)
		call := ""
		switch op.Op {
		case "exec":
			call = "__res(re.exec(" + s + "))"
		case "test":
			call = "__res(re.test(" + s + "))"
		case "setli":
			call = "re.lastIndex=" + jsVal(*op.Val)
		case "match":
			call = "__res(" + s + ".match(re))"
		case "search":
			call = "__res(" + s + ".search(re))"
		case "replace":
			if op.Fn != "" {
				call = "__res(" + s + ".replace(re," + fnSource(op.Fn) + "))"
			} else {
				call = "__res(" + s + ".replace(re," + harness.JSString(op.Repl) + "))"
			}
		case "split":
			if op.Val == nil {
				call = "__res(" + s + ".split(re))"
			} else {
				call = "__res(" + s + ".split(re," + jsVal(*op.Val) + "))"
			}
		}
		b.WriteString("__step();try{" + call + "}catch(e){__r.push('throw',e.name)};__li(re);\n")
	}
	b.WriteString("})()")
	return b.String()
}

type stepWant struct {
	res     [][]string // acceptable renderings of the result; nil = not compared
	li      [][]string // acceptable (typeof, value) of lastIndex afterwards; nil = not compared
	log     string     // ids of the logging objects whose valueOf must have run
	logCmp  bool
	excl    []string
	classes []string
	resFn   func(got []string) bool // alternative to res: a predicate on the result tokens
	resDesc string
}

func (w *stepWant) exclude(id string) { w.excl = append(w.excl, id) }

func cpCount(u []uint16) int {
	n := 0
	for i := 0; i < len(u); i++ {
		n++
		if u[i] >= 0xD800 && u[i] < 0xDC00 && i+1 < len(u) && u[i+1] >= 0xDC00 && u[i+1] < 0xE000 {
			i++
		}
	}
	return n
}

func utf8Len(u []uint16) int {
	s, _ := harness.FromUTF16(u)
	return len(s)
}

func logString(ids []int) string {
	p := make([]string, len(ids))
	for i, id := range ids {
		p[i] = strconv.Itoa(id)
	}
	return strings.Join(p, ",")
}

func sameResult(a, b *m10.MatchResult) bool {
	if (a == nil) != (b == nil) {
		return false
	}
	if a == nil {
		return true
	}
	if a.Index != b.Index || a.End != b.End || len(a.Caps) != len(b.Caps) {
		return false
	}
	for k := range a.Caps {
		if a.Def[k] != b.Def[k] || a.Start[k] != b.Start[k] || len(a.Caps[k]) != len(b.Caps[k]) {
			return false
		}
	}
	return true
}

// protoModel runs one history on the model.
type protoModel struct {
	re   *m10.RegExp
	feat m10.Features
	tree *m10.Node
	n    int // function replacer counter
}

// execStep models exec (asTest=false) / test / non-global match.
func (m *protoModel) execStep(S []uint16, kind string) (w stepWant, over bool) {
	re := m.re
	before := re.LastIndex
	re.Log = nil
	tr := &m10.Trace{}
	// the start position (15.10.6.2 steps 4-7), for the exclusion classes only
	i0 := 0.0
	if re.Global {
		i0 = es5.ToInteger(before.ToNumber(nil))
	}
	mr := re.Exec(S, tr)
	if tr.OverBudget {
		return w, true
	}
	w.log, w.logCmp = logString(re.Log), true
	level, excl := levelFor(tr, m.feat, resultHasLone(mr), startsInsidePair(mr, S))
	w.excl = excl
	liOK := level >= cmpOverall
	if re.Global && i0 > 0 {
		w.classes = append(w.classes, "call:global-from-nonzero-lastIndex")
		// C10-LASTINDEX-BYTES: the start offset is taken as a byte offset
		upto := int(math.Min(i0, float64(len(S))))
		if harness.Known(kLIBytes) && (!allASCII(S[:upto]) || (i0 > float64(len(S)) && !allASCII(S))) {
			w.exclude(kLIBytes)
			level, liOK = cmpNone, false
		}
		// C10-EXEC-SLICE-CONTEXT: matching runs on the suffix S[i0:], so ^ \b \B (and multiline ^) see a
		// string start at i0. Excluded exactly when that changes the outcome.
		if level != cmpNone && harness.Known(kSliceContext) && i0 <= float64(len(S)) {
			cut := int(i0)
			tr2 := &m10.Trace{}
			alt := (&m10.RegExp{Prog: re.Prog, Global: false, LastIndex: m10.NumVal(0)}).Search(S[cut:], tr2)
			if alt != nil {
				alt.Index += cut
				alt.End += cut
				for k := range alt.Start {
					if alt.Start[k] >= 0 {
						alt.Start[k] += cut
					}
				}
			}
			if !sameResult(alt, mr) {
				w.exclude(kSliceContext)
				level, liOK = cmpNone, false
			} else if l2, e2 := levelFor(tr2, m.feat, false, false); l2 < level {
				// the search otto actually performs (on the suffix) exercises a structural finding
				level = l2
				w.excl = append(w.excl, e2...)
				liOK = liOK && level >= cmpOverall
			}
		}
	}
	if re.Global && mr != nil && !allASCII(S[:mr.End]) && harness.Known(kLIBytes) {
		w.exclude(kLIBytes)
		liOK = false
	}
	if liOK {
		w.li = [][]string{liTokens(re.LastIndex)}
	}
	if level == cmpNone {
		return w, false
	}
	switch kind {
	case "test":
		w.res = [][]string{{tokS("prim"), tokBool(mr != nil)}}
	default:
		want := execTokens(mr, S)
		if level < cmpFull && mr != nil {
			// partial comparison: wildcard the parts the structural findings leave open
			for k := 4; k < len(want)-2; k++ {
				want[k] = "*"
			}
			if level < cmpOverall {
				want[3] = "*"
			}
		}
		w.res = [][]string{want}
	}
	return w, false
}

func wildcardEqual(got, want []string) bool {
	if len(got) != len(want) {
		return false
	}
	for i := range got {
		if want[i] != "*" && got[i] != want[i] {
			return false
		}
	}
	return true
}

// allMatches runs the 15.5.4.10 loop under both readings (see m10.MatchAll) and returns the distinct
// match lists plus the accumulated trace.
func (m *protoModel) allMatches(S []uint16) (lists [][]*m10.MatchResult, tr *m10.Trace) {
	tr = &m10.Trace{}
	a := m.re.MatchAll(S, tr, false)
	b := m.re.MatchAll(S, tr, true)
	lists = [][]*m10.MatchResult{a}
	if len(a) != len(b) {
		lists = append(lists, b)
	}
	return
}

// adjacentEmpty: some empty match starts exactly where the previous match ended (Go's FindAll family
// drops those: "If 'All' is present … empty matches abutting a preceding match are ignored").
func adjacentEmpty(ms []*m10.MatchResult) bool {
	for i := 1; i < len(ms); i++ {
		if ms[i].Index == ms[i].End && ms[i].Index == ms[i-1].End {
			return true
		}
	}
	return false
}

func anyLone(ms []*m10.MatchResult) bool {
	for _, r := range ms {
		if resultHasLone(r) {
			return true
		}
	}
	return false
}

func anyInsidePair(ms []*m10.MatchResult, S []uint16) bool {
	for _, r := range ms {
		if insidePair(S, r.Index) || insidePair(S, r.End) {
			return true
		}
	}
	return false
}

// globalLevel: what the structural findings leave comparable for an operation that only uses the
// matched texts and positions of all matches (global match, replace, split).
func (m *protoModel) globalLevel(tr *m10.Trace, lone, splits bool, needCaps bool) (ok bool, excl []string) {
	level, excl := levelFor(tr, m.feat, lone, splits)
	if needCaps {
		return level == cmpFull, excl
	}
	return level >= cmpOverall, excl
}

func (m *protoModel) matchGlobalStep(S []uint16) (w stepWant, over bool) {
	re := m.re
	re.Log = nil
	lists, tr := m.allMatches(S)
	if tr.OverBudget {
		return w, true
	}
	w.log, w.logCmp = "", true
	ok, excl := m.globalLevel(tr, anyLone(lists[0]), anyInsidePair(lists[0], S), false)
	w.excl = excl
	// lastIndex afterwards: 0 (the failing exec resets it)
	if harness.Known(kGlobalLI) && len(lists[0]) > 0 {
		w.exclude(kGlobalLI)
	} else {
		w.li = [][]string{liTokens(m10.NumVal(0))}
	}
	if !ok {
		w.li = nil
		return w, false
	}
	if adjacentEmpty(lists[0]) && harness.Known(kEmptyAdjacent) {
		w.exclude(kEmptyAdjacent)
		return w, false
	}
	for _, ms := range lists {
		if len(ms) == 0 {
			w.res = append(w.res, []string{tokS("null-result")})
			if harness.Known(kMatchNull) {
				w.res = append(w.res, []string{tokS("undefined-result")})
				w.exclude(kMatchNull)
			}
			continue
		}
		t := []string{tokS("array"), tokS("[object Array]"), tokNum(float64(len(ms)))}
		for _, r := range ms {
			t = append(t, tokStr(r.Caps[0]))
		}
		t = append(t, tokS("no-index"), tokS("no-input"))
		w.res = append(w.res, t)
	}
	if len(lists) > 1 {
		w.classes = append(w.classes, "es5-match-loop-two-readings")
	}
	return w, false
}

func (m *protoModel) replaceStep(S []uint16, op protoOp) (w stepWant, over bool) {
	re := m.re
	re.Log = nil
	before := re.LastIndex
	var lists [][]*m10.MatchResult
	tr := &m10.Trace{}
	if re.Global {
		lists, tr = m.allMatches(S)
	} else {
		var ms []*m10.MatchResult
		if r := re.Search(S, tr); r != nil {
			ms = []*m10.MatchResult{r}
		}
		lists = [][]*m10.MatchResult{ms}
	}
	if tr.OverBudget {
		return w, true
	}
	needCaps := op.Fn != "" || strings.ContainsAny(op.Repl, "0123456789")
	ok, excl := m.globalLevel(tr, anyLone(lists[0]), anyInsidePair(lists[0], S), needCaps)
	w.excl = excl
	// lastIndex
	switch {
	case re.Global && harness.Known(kGlobalLI):
		w.exclude(kGlobalLI)
	case re.Global:
		w.li = [][]string{liTokens(m10.NumVal(0))}
	default:
		// 15.5.4.11 does not say that a non-global replace touches lastIndex; a failing exec would reset it
		w.li = [][]string{liTokens(before)}
		if len(lists[0]) == 0 {
			w.li = append(w.li, liTokens(m10.NumVal(0)))
		}
	}
	if !ok {
		if re.Global {
			w.li = nil
		}
		return w, false
	}
	if re.Global && adjacentEmpty(lists[0]) && harness.Known(kEmptyAdjacent) {
		w.exclude(kEmptyAdjacent)
		return w, false
	}
	if op.Fn == "" && re.Prog.NCaps >= 10 && twoDigitRef(op.Repl, re.Prog.NCaps) && len(lists[0]) > 0 && harness.Known(kDollar2) {
		w.exclude(kDollar2)
		return w, false
	}
	n0 := 0 // the counting replacer starts at 0 in every replace call
	type reading struct {
		calls []string
		segs  [][][]uint16
	}
	var readings []reading
	var descs []string
	for _, ms := range lists {
		m.n = n0
		var rd reading
		pos := 0
		for _, mr := range ms {
			rd.segs = append(rd.segs, [][]uint16{S[pos:mr.Index]})
			if op.Fn != "" {
				off := mr.Index
				if harness.Known(kReplacerOffset) && cpCount(S[:mr.Index]) != mr.Index {
					off = cpCount(S[:mr.Index]) // compared modulo the finding: the offset is counted in code points
					w.exclude(kReplacerOffset)
				}
				rd.calls = append(rd.calls, tokS("call"), tokNum(float64(len(mr.Caps)+2)))
				for k := range mr.Caps {
					if mr.Def[k] {
						rd.calls = append(rd.calls, tokStr(mr.Caps[k]))
					} else {
						rd.calls = append(rd.calls, "undefined")
					}
				}
				rd.calls = append(rd.calls, tokNum(float64(off)), tokStr(S))
				var ret []uint16
				switch op.Fn {
				case "const":
					ret = unitsOf(fnConstText)
				case "count":
					ret = unitsOf("[" + strconv.Itoa(m.n) + "]")
					m.n++
				case "undef":
					ret = unitsOf("undefined")
				case "echo":
					ret = append(append([]uint16(nil), mr.Caps[0]...), mr.Caps[0]...)
				}
				rd.segs = append(rd.segs, [][]uint16{ret})
			} else {
				for _, seg := range m10.ExpandSegs(unitsOf(op.Repl), S, mr) {
					if len(seg) > 1 {
						w.classes = append(w.classes, "replace:implementation-defined-$n")
					}
					rd.segs = append(rd.segs, seg)
				}
			}
			pos = mr.End
		}
		rd.segs = append(rd.segs, [][]uint16{S[pos:]})
		// a human-readable rendering: the first alternative of every segment
		var first []uint16
		lone := false
		for _, seg := range rd.segs {
			first = append(first, seg[0]...)
			for _, a := range seg {
				if hasLone(a) {
					lone = true
				}
			}
		}
		if (lone || hasLone(first)) && harness.Known(kLoneSurrogate) {
			w.exclude(kLoneSurrogate)
			return w, false
		}
		descs = append(descs, show(append(append([]string(nil), rd.calls...), tokS("prim"), tokStr(first))))
		readings = append(readings, rd)
	}
	w.resDesc = strings.Join(descs, " or ") + " (implementation-defined $n references may also be dropped or kept literally)"
	w.resFn = func(got []string) bool {
		for _, rd := range readings {
			if len(got) != len(rd.calls)+2 || !sameTokens(got[:len(rd.calls)], rd.calls) || got[len(rd.calls)] != tokS("prim") {
				continue
			}
			last := got[len(got)-1]
			if !strings.HasPrefix(last, "string:") {
				continue
			}
			str, err := strconv.Unquote(strings.TrimPrefix(last, "string:"))
			if err != nil {
				continue
			}
			if m10.MatchSegs(unitsOf(str), rd.segs) {
				return true
			}
		}
		return false
	}
	return w, false
}

// twoDigitRef: the replacement text contains $nn with 10 <= nn <= m (a defined two-digit reference).
func twoDigitRef(repl string, m int) bool {
	for i := 0; i+2 < len(repl); i++ {
		if repl[i] == '$' && i > 0 && repl[i-1] == '$' {
			// "$$" consumed the first $; what follows is plain text - be conservative and keep scanning
		}
		if repl[i] == '$' && repl[i+1] >= '1' && repl[i+1] <= '9' && repl[i+2] >= '0' && repl[i+2] <= '9' {
			if nn := int(repl[i+1]-'0')*10 + int(repl[i+2]-'0'); nn <= m {
				return true
			}
		}
	}
	return false
}

func (m *protoModel) searchStep(S []uint16) (w stepWant, over bool) {
	re := m.re
	tr := &m10.Trace{}
	mr := re.Search(S, tr)
	if tr.OverBudget {
		return w, true
	}
	w.li = [][]string{liTokens(re.LastIndex)} // "The lastIndex property of regexp is left unchanged"
	w.log, w.logCmp = "", true
	level, excl := levelFor(tr, m.feat, false, startsInsidePair(mr, S))
	w.excl = excl
	if level < cmpIndex {
		return w, false
	}
	idx := -1
	if mr != nil {
		idx = mr.Index
		if harness.Known(kSearchBytes) && !allASCII(S[:idx]) {
			idx = utf8Len(S[:idx]) // compared modulo the finding: a byte offset is returned
			w.exclude(kSearchBytes)
		}
	}
	w.res = [][]string{{tokS("prim"), tokNum(float64(idx))}}
	return w, false
}

func (m *protoModel) splitStep(S []uint16, op protoOp) (w stepWant, over bool) {
	re := m.re
	lim := uint32(0xFFFFFFFF)
	if op.Val != nil && op.Val.Kind != "undef" {
		lim = es5.ToUint32(op.Val.ToNumber(nil))
	}
	tr := &m10.Trace{}
	items := re.Split(S, lim, tr)
	if tr.OverBudget {
		return w, true
	}
	w.li = [][]string{liTokens(re.LastIndex)}
	lone := false
	for _, it := range items {
		if it.Def && hasLone(it.S) {
			lone = true
		}
	}
	ok, excl := m.globalLevel(tr, lone, false, re.Prog.NCaps > 0)
	w.excl = excl
	if !ok {
		return w, false
	}
	if len(S) == 0 && len(items) == 0 && lim != 0 && harness.Known(kSplitEmpty) {
		w.exclude(kSplitEmpty)
		return w, false
	}
	t := []string{tokS("array"), tokS("[object Array]"), tokNum(float64(len(items)))}
	for _, it := range items {
		if it.Def {
			t = append(t, tokStr(it.S))
		} else {
			t = append(t, "undefined")
		}
	}
	t = append(t, tokS("no-index"), tokS("no-input"))
	w.res = [][]string{t}
	return w, false
}

func checkProto(c protoCase) harness.Outcome {
	p := m10.Parse(unitsOf(c.Src))
	if p.Status != m10.Valid || !validFlags(c.Flags) {
		return harness.Outcome{Discard: "not a valid portable pattern: " + p.Why}
	}
	feat := m10.Analyse(p.Tree)
	if strings.Contains(c.Flags, "i") {
		feat.FoldPair = false // with the i flag every literal is folded: nothing to confuse
	}
	if feat.EmptyClass && harness.Known(kEmptyClass) {
		return harness.Outcome{Discard: "empty class (constructor fails)", Excluded: []string{kEmptyClass}}
	}
	o := harness.Outcome{Classes: []string{"form:" + c.Form}}
	for _, fl := range []string{"g", "i", "m"} {
		if strings.Contains(c.Flags, fl) {
			o.Classes = append(o.Classes, "flag:"+fl)
		}
	}
	m := &protoModel{re: newModelRegExp(p, c.Flags), feat: feat, tree: p.Tree}
	what := ctorExpr(c.Src, c.Flags, c.Form)

	toks, bad := runTokens(c.script())
	if bad != "" {
		o.Fail = fmt.Sprintf("%s: history does not run: %s", what, bad)
		return o
	}
	if len(toks) > 0 && toks[0] == tokS("ctor-throw") {
		o.Fail = fmt.Sprintf("%s: constructor throws %s for a valid portable pattern", what, show(toks))
		return o
	}
	// split the token stream into steps
	var steps [][]string
	for _, t := range toks {
		if t == tokS(marker+"step") {
			steps = append(steps, nil)
			continue
		}
		if len(steps) == 0 {
			o.Fail = "unreadable token stream " + show(toks)
			return o
		}
		steps[len(steps)-1] = append(steps[len(steps)-1], t)
	}
	if len(steps) != len(c.Ops) {
		o.Fail = fmt.Sprintf("%s: %d steps ran, %d expected: %s", what, len(steps), len(c.Ops), show(toks))
		return o
	}
	exclSeen := map[string]bool{}
	for i, op := range c.Ops {
		S := c.Subjects[op.Subj]
		got := steps[i]
		cut := -1
		for k, t := range got {
			if t == tokS(marker+"li") {
				cut = k
			}
		}
		if cut < 0 || len(got) != cut+4 {
			o.Fail = fmt.Sprintf("%s step %d (%s): unreadable step record %s", what, i, op.Op, show(got))
			return o
		}
		gotRes, gotLI, gotLog := got[:cut], got[cut+1:cut+3], got[cut+3]

		var w stepWant
		var over bool
		liBefore := m.re.LastIndex
		globalNonzero := false
		if m.re.Global && (op.Op == "exec" || op.Op == "test" || op.Op == "match") {
			if x := es5.ToInteger(liBefore.ToNumber(nil)); x != 0 {
				globalNonzero = true
			}
		}
		switch op.Op {
		case "setli":
			m.re.LastIndex = *op.Val
			w.li = [][]string{liTokens(*op.Val)}
			w.res = [][]string{{}}
			w.log, w.logCmp = "", true
		case "exec", "test":
			w, over = m.execStep(S, op.Op)
		case "match":
			if m.re.Global {
				w, over = m.matchGlobalStep(S)
			} else {
				w, over = m.execStep(S, "exec")
			}
		case "replace":
			w, over = m.replaceStep(S, op)
		case "search":
			w, over = m.searchStep(S)
		case "split":
			w, over = m.splitStep(S, op)
		}
		if over {
			o.Discard = "model step budget"
			return o
		}
		if globalNonzero {
			o.Nontrivial = true
		}
		o.Classes = append(o.Classes, "op:"+op.Op)
		o.Classes = append(o.Classes, w.classes...)
		for _, e := range w.excl {
			if !exclSeen[e] {
				exclSeen[e] = true
				o.Excluded = append(o.Excluded, e)
			}
		}
		desc := fmt.Sprintf("%s; step %d: %s on %s (lastIndex before: %s)", what, i, opText(op), harness.JSString16(S), show(liTokens(liBefore)))
		if w.resFn != nil {
			if !w.resFn(gotRes) {
				o.Fail = fmt.Sprintf("%s: result %s, ES5 gives %s", desc, show(gotRes), w.resDesc)
				return o
			}
			o.Classes = append(o.Classes, "compared:"+op.Op)
		} else if w.res != nil {
			match := false
			for _, alt := range w.res {
				if wildcardEqual(gotRes, alt) {
					match = true
				}
			}
			if !match {
				o.Fail = fmt.Sprintf("%s: result %s, ES5 gives %s", desc, show(gotRes), showAlts(w.res))
				return o
			}
			o.Classes = append(o.Classes, "compared:"+op.Op)
		} else {
			o.Classes = append(o.Classes, "not-compared:"+op.Op)
		}
		if w.li != nil {
			match := false
			for _, alt := range w.li {
				if sameTokens(gotLI, alt) {
					match = true
				}
			}
			if !match {
				o.Fail = fmt.Sprintf("%s: lastIndex afterwards %s, ES5 gives %s", desc, show(gotLI), showAlts(w.li))
				return o
			}
			// with several admissible values continue from the one observed
			if len(w.li) > 1 && gotLI[0] == tokS("number") {
				m.resync(gotLI, liBefore)
			}
		} else {
			// a standing finding makes lastIndex unpredictable here: continue the history from the observed value
			m.resync(gotLI, liBefore)
		}
		if w.logCmp && (w.res != nil || w.resFn != nil) && gotLog != tokS(w.log) {
			o.Fail = fmt.Sprintf("%s: valueOf of the lastIndex objects ran for [%s], ES5 (ToInteger(lastIndex), 15.10.6.2 step 5) gives [%s]", desc, gotLog, w.log)
			return o
		}
	}
	return o
}

func (m *protoModel) resync(gotLI []string, before m10.JSVal) {
	if gotLI[0] != tokS("number") {
		m.re.LastIndex = before // not a number: the call left the value it found
		return
	}
	f, err := strconv.ParseFloat(strings.TrimPrefix(gotLI[1], "number:"), 64)
	if err != nil {
		if strings.HasSuffix(gotLI[1], "NaN") {
			f = math.NaN()
		} else {
			return
		}
	}
	m.re.LastIndex = m10.NumVal(f)
}

func showAlts(a [][]string) string {
	p := make([]string, len(a))
	for i, x := range a {
		p[i] = show(x)
	}
	if len(p) > 4 {
		p = append(p[:4], "…")
	}
	return strings.Join(p, " or ")
}

func opText(op protoOp) string {
	switch op.Op {
	case "setli":
		return "lastIndex = " + jsVal(*op.Val)
	case "replace":
		if op.Fn != "" {
			return "replace(re, fn:" + op.Fn + ")"
		}
		return "replace(re, " + harness.JSString(op.Repl) + ")"
	case "split":
		if op.Val == nil {
			return "split(re)"
		}
		return "split(re, " + jsVal(*op.Val) + ")"
	}
	return op.Op
}

// ---- generator ---------------------------------------------------------------------------------------------

var replPieces = []string{"$$", "$&", "$`", "$'", "$1", "$2", "$01", "$10", "$11", "$9", "$0", "$00", "$", "x", "-", "$1a", "$12", "<", ">"}

var replPiecesNoGroup = []string{"$$", "$&", "$`", "$'", "$0", "$00", "$", "x", "-", "<", ">", "$&$&"}

func genLastIndex(t *rapid.T, subjLen int) m10.JSVal {
	switch k := rapid.IntRange(0, 19).Draw(t, "likind"); {
	case k < 10:
		return m10.NumVal(float64(rapid.IntRange(0, subjLen+1).Draw(t, "li")))
	case k < 12:
		return m10.NumVal(rapid.SampledFrom([]float64{-1, 1.5, -0.5, 0.9, math.NaN(), math.Inf(1), math.Inf(-1), 2147483648, 4294967296, 4294967297, 9007199254740992, math.Copysign(0, -1), 2.999}).Draw(t, "liodd"))
	case k < 14:
		return m10.JSVal{Kind: "str", Str: rapid.SampledFrom([]string{"2", " 1 ", "x", "", "0x2", "1e0", "-1"}).Draw(t, "listr")}
	case k == 14:
		return m10.JSVal{Kind: "undef"}
	case k == 15:
		return m10.JSVal{Kind: "null"}
	case k == 16:
		return m10.JSVal{Kind: "bool", Bool: rapid.Bool().Draw(t, "libool")}
	default:
		id := rapid.IntRange(1, 3).Draw(t, "liobj")
		return m10.JSVal{Kind: "obj", ID: id, Num: strconv.Itoa(rapid.IntRange(0, subjLen).Draw(t, "liobjv"))}
	}
}

func genLimit(t *rapid.T) *m10.JSVal {
	switch k := rapid.IntRange(0, 9).Draw(t, "limkind"); {
	case k < 3:
		return nil
	case k < 7:
		v := m10.NumVal(float64(rapid.IntRange(0, 4).Draw(t, "lim")))
		return &v
	case k == 7:
		v := m10.JSVal{Kind: "undef"}
		return &v
	default:
		v := m10.NumVal(rapid.SampledFrom([]float64{-1, 4294967296, 4294967297, 1.9, math.NaN(), math.Inf(1), -4294967295}).Draw(t, "limodd"))
		if rapid.IntRange(0, 4).Draw(t, "limstr") == 4 {
			v = m10.JSVal{Kind: "str", Str: "2"}
		}
		return &v
	}
}

func genProto(unicode bool) func(t *rapid.T) protoCase {
	return func(t *rapid.T) protoCase {
		form := rapid.SampledFrom(forms).Draw(t, "form")
		tree := m10.GenTree(t, m10.GenOpts{Unicode: unicode, Space: !unicode, RawNewline: form != "lit" && form != "evallit", Big: true})
		if rapid.IntRange(0, 2).Draw(t, "wrap") == 2 {
			// make sure captures are exercised together with lastIndex: (…) around the whole pattern
			tree = &m10.Node{Kind: m10.KGroup, Kids: []*m10.Node{tree}}
		}
		ncaps := m10.Number(tree)
		flags := rapid.SampledFrom([]string{"g", "g", "g", "g", "gi", "gm", "mig", "g", "", "i", "m"}).Draw(t, "flags")
		c := protoCase{Src: m10.Render(tree), Flags: flags, Form: form}
		ic := strings.Contains(flags, "i")
		ns := rapid.SampledFrom([]int{1, 1, 1, 2}).Draw(t, "nsubjects")
		for i := 0; i < ns; i++ {
			c.Subjects = append(c.Subjects, m10.GenSubjectRep(t, tree, ic, unicode, 8, []int{1, 2, 2, 3}))
		}
		n := rapid.IntRange(2, 6).Draw(t, "nops")
		for i := 0; i < n; i++ {
			op := protoOp{Subj: 0}
			if ns > 1 && rapid.IntRange(0, 3).Draw(t, "othersubj") == 3 {
				op.Subj = 1
			}
			op.Op = rapid.SampledFrom([]string{"exec", "exec", "exec", "exec", "exec", "test", "test", "setli", "setli", "match", "match", "replace", "replace", "search", "split", "split"}).Draw(t, "op")
			switch op.Op {
			case "setli":
				v := genLastIndex(t, len(c.Subjects[op.Subj]))
				op.Val = &v
			case "replace":
				if rapid.IntRange(0, 2).Draw(t, "usefn") == 2 {
					op.Fn = rapid.SampledFrom([]string{"const", "count", "undef", "echo"}).Draw(t, "fn")
				} else {
					pool := replPieces
					if ncaps == 0 && rapid.IntRange(0, 4).Draw(t, "norefs") > 0 {
						pool = replPiecesNoGroup
					}
					k := rapid.IntRange(0, 4).Draw(t, "npieces")
					for j := 0; j < k; j++ {
						op.Repl += rapid.SampledFrom(pool).Draw(t, "piece")
					}
				}
			case "split":
				op.Val = genLimit(t)
			}
			c.Ops = append(c.Ops, op)
		}
		return c
	}
}

const protoRule = "rapid: one RegExp object (portable-subset pattern, flags mostly global) and a history of 1-6 calls drawn from exec, test, assignment to lastIndex (odd pool: in range, beyond the end, negative, fractional, NaN, ±Infinity, 2^31, 2^32, 2^53, -0, numeric and non-numeric strings, undefined, null, booleans, objects whose valueOf is logged), String.prototype.match / replace (replacement text over $$ $& $` $' $1 $2 $01 $10 $11 $9 $0 $00 $ and four logging function replacers) / search / split (limit from an odd pool) on one or two subjects; model and otto run the same history, every result (array shape, index, input, captures, undefined for non-participating groups), every replacer argument list, lastIndex (type and value) and the valueOf log are compared after every call against 15.10.6.2-3 and 15.5.4.10-14. non-trivial = at least one exec/test/match call enters with ToInteger(lastIndex) != 0 on a global expression; distinct by the whole case"

var protoASCII = harness.Register(&harness.Facet[protoCase]{
	Name:     "protocol",
	Rule:     protoRule + "; subjects over a b c A B C 1 _ space - . \\n \\t",
	Quick:    3500,
	Thorough: 50000,
	Gen:      genProto(false),
	Check:    checkProto,
})

var protoUnicode = harness.Register(&harness.Facet[protoCase]{
	Name:     "protocol-unicode",
	Rule:     protoRule + "; subjects extended with é É U+2028 CR and the astral U+1F600 (offsets in bytes, code points and code units all differ)",
	Quick:    2000,
	Thorough: 25000,
	Gen:      genProto(true),
	Check:    checkProto,
})

func TestProtocol(t *testing.T)        { protoASCII.Run(t) }
func TestProtocolUnicode(t *testing.T) { protoUnicode.Run(t) }

// ---- facet: split with a string separator (sanity of the shared 15.5.4.14 loop) ----------------------------

type splitStrCase struct {
	Subject []uint16   `json:"subject"`
	Sep     []uint16   `json:"sep"`
	Limit   *m10.JSVal `json:"limit,omitempty"`
}

func checkSplitStr(c splitStrCase) harness.Outcome {
	lim := uint32(0xFFFFFFFF)
	if c.Limit != nil && c.Limit.Kind != "undef" {
		lim = es5.ToUint32(c.Limit.ToNumber(nil))
	}
	items := m10.SplitString(c.Subject, c.Sep, lim)
	o := harness.Outcome{Nontrivial: len(items) != 1 || c.Limit != nil}
	o.Classes = append(o.Classes, fmt.Sprintf("parts:%d", min(len(items), 4)))
	if len(c.Sep) == 0 {
		o.Classes = append(o.Classes, "sep:empty")
	}
	if c.Limit != nil {
		o.Classes = append(o.Classes, "limit:given")
	}
	for _, it := range items {
		if hasLone(it.S) && harness.Known(kLoneSurrogate) {
			o.Excluded = append(o.Excluded, kLoneSurrogate)
			return o
		}
	}
	want := []string{tokS("array"), tokS("[object Array]"), tokNum(float64(len(items)))}
	for _, it := range items {
		want = append(want, tokStr(it.S))
	}
	want = append(want, tokS("no-index"), tokS("no-input"))
	call := harness.JSString16(c.Subject) + ".split(" + harness.JSString16(c.Sep)
	if c.Limit != nil {
		call += "," + jsVal(*c.Limit)
	}
	call += ")"
	toks, bad := runTokens("__res(" + call + ")")
	if bad != "" {
		o.Fail = call + ": " + bad
		return o
	}
	if !sameTokens(toks, want) {
		o.Fail = fmt.Sprintf("%s = %s, ES5 15.5.4.14 gives %s", call, show(toks), show(want))
	}
	return o
}

var splitStr = harness.Register(&harness.Facet[splitStrCase]{
	Name:     "split-string",
	Rule:     "rapid: subject <= 8 units over the ASCII or the extended alphabet, separator = a substring of the subject (70%), the empty string, or 1-2 random units, limit from the odd pool or absent; compared with the 15.5.4.14 loop using the string SplitMatcher. non-trivial = more or fewer than one part, or a limit given; distinct by the whole case",
	Quick:    2500,
	Thorough: 30000,
	Gen: func(t *rapid.T) splitStrCase {
		uni := rapid.Bool().Draw(t, "unicode")
		c := splitStrCase{Subject: m10.GenSubject(t, nil, false, uni, 8)}
		switch k := rapid.IntRange(0, 9).Draw(t, "sepkind"); {
		case k < 6 && len(c.Subject) > 0:
			a := rapid.IntRange(0, len(c.Subject)-1).Draw(t, "from")
			b := rapid.IntRange(a+1, min(len(c.Subject), a+2)).Draw(t, "to")
			c.Sep = m10.FixSurrogates(c.Subject[a:b])
		case k < 8:
			c.Sep = []uint16{}
		default:
			c.Sep = m10.GenSubject(t, nil, false, uni, 2)
		}
		if c.Sep == nil {
			c.Sep = []uint16{}
		}
		c.Limit = genLimit(t)
		return c
	},
	Check: checkSplitStr,
})

func TestSplitString(t *testing.T) { splitStr.Run(t) }
