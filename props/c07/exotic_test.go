package c07

// Facet "exotic-proto": ordinary objects whose prototype CHAIN contains an object with its own
// [[GetOwnProperty]] (String object 15.5.5.2, arguments object 10.6, Array). 8.12.2 [[GetProperty]] calls
// the [[GetOwnProperty]] *of each object of the chain*, so `in`, [[Get]], for-in and [[CanPut]] on the
// ordinary receiver must see the index/length properties of such a prototype at any depth. Finite
// enumeration, run completely in both tiers; the exotic prototype is never mutated, so the model
// describes it as an ordinary object holding the own properties those clauses define.

import (
	"fmt"
	"sort"
	"strings"
	"testing"

	"github.com/robertkrimen/otto"

	"verif/lib/harness"
	"verif/lib/m07"
)

type exoticCase struct {
	Proto string `json:"proto"` // string | arguments | mapped-arguments | array
	Depth int    `json:"depth"` // ordinary objects between the receiver and the exotic prototype, plus one
	Name  string `json:"name"`
	Mid   bool   `json:"mid"` // depth 2 only: the intermediate object owns a non-enumerable property of that name
}

const exoticPrelude = `var __hop=Object.prototype.hasOwnProperty, __pie=Object.prototype.propertyIsEnumerable;
function __v(v){
  if(v===undefined)return "u"; if(v===null)return "n";
  var t=typeof v;
  if(t==="boolean")return v?"!t":"!f";
  if(t==="number")return (v===0&&1/v<0)?"#-0":"#"+v;
  if(t==="string")return "$"+v;
  if(t==="function")return "fn";
  return "{}";
}
function __o(o,n){var f=[],k;for(k in o)f.push(k);f.sort();
  return ((n in o)?"I":"i")+(__hop.call(o,n)?"H":"h")+(__pie.call(o,n)?"P":"p")+"/"+__v(o[n])+"/"+Object.keys(o).sort().join(",")+"/"+f.join(",")}
`

var exoticProtoJS = map[string]string{
	"string":           `new String("ab")`,
	"arguments":        `(function(){return arguments})(7,8)`,
	"mapped-arguments": `(function(p,q){return arguments})(7,8)`,
	"array":            `[7,8]`,
}

func exoticModel(m *m07.Model, kind string) *m07.Object {
	P := m.NewObject(100, m.ObjProto)
	num := func(n float64) m07.Val { return m07.Val{K: m07.Num, N: n} }
	switch kind {
	case "string":
		P.Preset("0", m07.Prop{Value: m07.Val{K: m07.Str, S: "a"}, Enumerable: true})
		P.Preset("1", m07.Prop{Value: m07.Val{K: m07.Str, S: "b"}, Enumerable: true})
		P.Preset("length", m07.Prop{Value: num(2)})
	case "arguments", "mapped-arguments":
		P.Preset("length", m07.Prop{Value: num(2), Writable: true, Configurable: true})
		P.Preset("0", m07.Prop{Value: num(7), Writable: true, Enumerable: true, Configurable: true})
		P.Preset("1", m07.Prop{Value: num(8), Writable: true, Enumerable: true, Configurable: true})
		P.Preset("callee", m07.Prop{Value: m07.Val{K: m07.Fn, F: m.Fns[0]}, Writable: true, Configurable: true})
	case "array":
		P.Preset("length", m07.Prop{Value: num(2), Writable: true})
		P.Preset("0", m07.Prop{Value: num(7), Writable: true, Enumerable: true, Configurable: true})
		P.Preset("1", m07.Prop{Value: num(8), Writable: true, Enumerable: true, Configurable: true})
	}
	return P
}

func exoticObs(m *m07.Model, o *m07.Object, n string) string {
	b := func(x bool, t, f string) string {
		if x {
			return t
		}
		return f
	}
	v, _ := m.Get(o, n)
	val := v.Repr()
	if v.K == m07.Fn {
		val = "fn"
	}
	keys := o.Keys()
	sort.Strings(keys)
	fi := o.ForInKeys(false)
	sort.Strings(fi)
	return b(o.HasProperty(n), "I", "i") + b(o.HasOwnProperty(n), "H", "h") + b(o.PropertyIsEnumerable(n), "P", "p") + "/" + val + "/" + strings.Join(keys, ",") + "/" + strings.Join(fi, ",")
}

func checkExotic(c exoticCase) harness.Outcome {
	o := harness.Outcome{Nontrivial: true, Classes: []string{"proto:" + c.Proto, fmt.Sprintf("depth:%d", c.Depth)}}
	m := m07.New()
	P := exoticModel(m, c.Proto)
	recv := m.NewObject(101, P)
	src := "(function(){var P=" + exoticProtoJS[c.Proto] + ",o=Object.create(P),r=[];"
	if c.Depth == 2 {
		mid := recv
		if c.Mid {
			src += fmt.Sprintf(`Object.defineProperty(o,%q,{value:"m",writable:true,configurable:true});`, c.Name)
			m.DefineOwnProperty(mid, c.Name, &m07.Desc{HasValue: true, Value: m07.Val{K: m07.Str, S: "m"}, HasWritable: true, Writable: true, HasConfigurable: true, Configurable: true}, true)
		}
		recv = m.NewObject(102, mid)
		src += "o=Object.create(o);"
	}
	var want []string
	n := c.Name
	src += fmt.Sprintf(`r.push(__o(o,%q));`, n)
	want = append(want, exoticObs(m, recv, n))
	src += fmt.Sprintf(`r.push(__v(o[%q]=5));r.push(__o(o,%q));`, n, n) // non-strict: a refused [[Put]] is silent
	m.Put(recv, n, m07.Val{K: m07.Num, N: 5}, false)
	want = append(want, "#5", exoticObs(m, recv, n))
	src += fmt.Sprintf(`r.push(__v(delete o[%q]));r.push(__o(o,%q));`, n, n)
	ok, _ := m.Delete(recv, n, false)
	want = append(want, m07.Val{K: m07.Bool, B: ok}.Repr(), exoticObs(m, recv, n))
	src += fmt.Sprintf(`r.push(__v(P[%q]));return r.join("|")})()`, n)
	pv, _ := m.Get(P, n)
	if pv.K == m07.Fn {
		want = append(want, "fn")
	} else {
		want = append(want, pv.Repr())
	}

	vm := otto.New()
	if r := harness.Run(vm, exoticPrelude); r.Panicked || r.Err != nil {
		o.Fail = "prelude failed: " + r.Describe()
		return o
	}
	r := harness.Run(vm, src)
	if r.Panicked || r.Err != nil {
		o.Fail = src + ": " + r.Describe()
		return o
	}
	got, _ := r.Value.ToString()
	if w := strings.Join(want, "|"); got != w {
		o.Fail = fmt.Sprintf("%s: otto %q, ES5 8.12.2-8.12.7 over the chain give %q (each observation: in/hasOwnProperty/propertyIsEnumerable / value / sorted keys / sorted for-in; sequence: before, result of o[n]=5, after, result of delete, after, P[n])", src, got, w)
	}
	return o
}

var exoticFacet = harness.Register(&harness.Facet[exoticCase]{
	Name:  "exotic-proto",
	Rule:  "complete product, run in both tiers: prototype in {String object \"ab\", arguments object of f(7,8) without and with formal parameters, Array [7,8]} x receiver = Object.create(P) or Object.create(Object.create(P)) (optionally with the intermediate object owning a non-enumerable property of the name) x name in {0,1,2,length,callee,a}: observe in/hasOwnProperty/propertyIsEnumerable/value/keys/for-in (as sets) on the ordinary receiver, assign o[n]=5 (inherited read-only index/length of a String refuses, others create an own property), observe, delete, observe; oracle = 8.12.1-8.12.7 of verif/lib/m07 with the exotic prototype described by the own properties of 15.5.5.2 / 10.6 / 15.4. every case non-trivial; distinct by (prototype, depth, name)",
	Check: checkExotic,
})

func TestExoticProto(t *testing.T) {
	var cases []exoticCase
	i := 0
	for _, p := range []string{"string", "arguments", "mapped-arguments", "array"} {
		for _, n := range []string{"0", "1", "2", "length", "callee", "a"} {
			for _, dm := range [][2]int{{1, 0}, {2, 0}, {2, 1}} {
				if i%harness.NShards() == harness.Shard() {
					cases = append(cases, exoticCase{Proto: p, Depth: dm[0], Name: n, Mid: dm[1] == 1})
				}
				i++
			}
		}
	}
	harness.SetExhaustive(exoticFacet.Name)
	exoticFacet.Each(t, cases)
}
