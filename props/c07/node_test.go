//go:build c07node

package c07

// Development-time cross-check of the reference model against Node.js. NOT part of the check: the file is only
// compiled with `-tags c07node` (./check never sets it) and the test additionally wants C07_NODE=1:
//   cd props/c07 && C07_NODE=1 go test -tags c07node -vet=off -run TestModelAgainstNode -rapid.checks=20000 -rapid.nofailfile .
// Node is ES2023; on the domain of this facet
// (ordinary objects, sloppy mode, insertion-ordered string keys, index-like names compared as a set)
// its behaviour coincides with ES5.1, so any disagreement points at a mistake in verif/lib/m07.

import (
	"bufio"
	"encoding/json"
	"io"
	"os"
	"os/exec"
	"testing"

	"pgregory.net/rapid"
)

const nodeServer = `
const rl = require('readline').createInterface({input: process.stdin, terminal: false});
const vm = require('vm');
let ctx = null;
rl.on('line', (l) => {
  const msg = JSON.parse(l);
  try {
    if (msg.reset) { ctx = vm.createContext({}); vm.runInContext(msg.src, ctx); console.log(JSON.stringify({out: "ready"})); return }
    console.log(JSON.stringify({out: vm.runInContext(msg.src, ctx)}));
  } catch (e) { console.log(JSON.stringify({err: String(e)})) }
});`

type nodeEngine struct {
	in  io.Writer
	out *bufio.Reader
}

func (n *nodeEngine) send(reset bool, src string) (string, string) {
	b, _ := json.Marshal(map[string]interface{}{"reset": reset, "src": src})
	if _, err := n.in.Write(append(b, '\n')); err != nil {
		return "", err.Error()
	}
	line, err := n.out.ReadBytes('\n')
	if err != nil {
		return "", err.Error()
	}
	var r struct{ Out, Err string }
	if err := json.Unmarshal(line, &r); err != nil {
		return "", err.Error() + ": " + string(line)
	}
	if r.Err != "" {
		return "", "node: " + r.Err
	}
	return r.Out, ""
}

func (n *nodeEngine) Step(src string) (string, string) { return n.send(false, src) }

func TestModelAgainstNode(t *testing.T) {
	if os.Getenv("C07_NODE") == "" {
		t.Skip("development-time only (C07_NODE=1)")
	}
	cmd := exec.Command("node", "-e", nodeServer)
	in, _ := cmd.StdinPipe()
	out, _ := cmd.StdoutPipe()
	cmd.Stderr = os.Stderr
	if err := cmd.Start(); err != nil {
		t.Fatal(err)
	}
	defer func() { in.Close(); cmd.Wait() }()
	ne := &nodeEngine{in: in, out: bufio.NewReaderSize(out, 1<<20)}
	rapid.Check(t, func(rt *rapid.T) {
		c := genCase(rt)
		if _, broke := ne.send(true, prelude); broke != "" {
			rt.Fatalf("prelude: %s", broke)
		}
		o := runCase(c, ne, false)
		if o.Fail != "" {
			raw, _ := json.Marshal(c)
			rt.Fatalf("model vs node: %s\ncase: %s", o.Fail, raw)
		}
	})
}
