package c07

// Facet "dop-table": the decision table of [[DefineOwnProperty]] (8.12.9) as a finite product.
// One case = one current state of a property (absent | data x value x writable x enumerable x
// configurable | accessor x get x set x enumerable x configurable) x extensible? x one descriptor
// (each of the six fields absent or one of a few values). The case is executed through the same
// lock-step machinery as the histories: create the object, optionally preventExtensions, apply
// Object.defineProperty, then probe the outcome behaviourally with an assignment and a delete.
// Thorough enumerates the complete product (split over the shards); quick draws a random sample.

import (
	"testing"

	"pgregory.net/rapid"

	"verif/lib/harness"
	"verif/lib/m07"
)

type tableCase struct {
	Cur  *m07.DescSpec `json:"cur"` // nil = the property does not exist
	Ext  bool          `json:"ext"`
	Desc m07.DescSpec  `json:"desc"`
}

var (
	tblCurValues = []string{"#1", "#NaN", "#-0"}
	tblValues    = []string{"", "#1", "#NaN", "#-0", "#0"} // "" = field absent
	tblBools     = []string{"", "!t", "!f"}
	tblGets      = []string{"", "u", "F0", "F2"}
	tblSets      = []string{"", "u", "F5", "F2"}
)

func tblCurrents() []*m07.DescSpec {
	out := []*m07.DescSpec{nil}
	tf := []string{"!t", "!f"}
	for _, v := range tblCurValues {
		for _, w := range tf {
			for _, e := range tf {
				for _, c := range tf {
					out = append(out, &m07.DescSpec{Fields: []m07.Field{{F: "value", V: v}, {F: "writable", V: w}, {F: "enumerable", V: e}, {F: "configurable", V: c}}})
				}
			}
		}
	}
	for _, g := range []string{"u", "F0"} {
		for _, st := range []string{"u", "F5"} {
			for _, e := range tf {
				for _, c := range tf {
					out = append(out, &m07.DescSpec{Fields: []m07.Field{{F: "get", V: g}, {F: "set", V: st}, {F: "enumerable", V: e}, {F: "configurable", V: c}}})
				}
			}
		}
	}
	return out
}

func tblDesc(v, w, g, st, e, c string) m07.DescSpec {
	var d m07.DescSpec
	add := func(f, x string) {
		if x != "" {
			d.Fields = append(d.Fields, m07.Field{F: f, V: x})
		}
	}
	add("value", v)
	add("writable", w)
	add("get", g)
	add("set", st)
	add("enumerable", e)
	add("configurable", c)
	return d
}

// tblShapes lists the (value, writable, get, set) parts of the descriptors: generic, every data-only
// and accessor-only combination, and one representative of each contradictory mix (8.10.5 step 9).
func tblShapes() [][4]string {
	var out [][4]string
	for _, v := range tblValues {
		for _, w := range tblBools {
			out = append(out, [4]string{v, w, "", ""})
		}
	}
	for _, g := range tblGets {
		for _, st := range tblSets {
			if g != "" || st != "" {
				out = append(out, [4]string{"", "", g, st})
			}
		}
	}
	out = append(out, [4]string{"#1", "", "F0", ""}, [4]string{"#1", "", "", "u"}, [4]string{"", "!t", "u", ""}, [4]string{"", "!f", "", "F5"})
	return out
}

func (c tableCase) history() Case {
	var h Case
	oi := m07.ObjInit{Kind: "create", Proto: -2}
	if c.Cur != nil {
		oi.Props = []m07.NamedDesc{{Name: "a", Desc: *c.Cur}}
	}
	h.Objs = []m07.ObjInit{oi}
	if !c.Ext {
		h.Ops = append(h.Ops, m07.Op{K: "pe", Obj: 0})
	}
	d := c.Desc
	h.Ops = append(h.Ops,
		m07.Op{K: "defp", Obj: 0, Name: "a", Desc: &d},
		m07.Op{K: "set", Obj: 0, Name: "a", V: "#2"},
		m07.Op{K: "del", Obj: 0, Name: "a"})
	return h
}

func checkTable(c tableCase) harness.Outcome {
	o := checkCase(c.history())
	o.Nontrivial = c.Cur != nil || !c.Ext
	return o
}

var tableFacet = harness.Register(&harness.Facet[tableCase]{
	Name:  "dop-table",
	Rule:  "finite product: current state of property a (absent; data with value in {1,NaN,-0} x writable x enumerable x configurable; accessor with get in {undefined,F0} x set in {undefined,F5} x enumerable x configurable: 41 states) x object extensible or not x descriptor = shape x enumerable x configurable in {absent,true,false}, shape = generic | value in {absent,1,NaN,-0,+0} x writable in {absent,true,false} | get in {absent,undefined,F0,F2} x set in {absent,undefined,F5,F2} | 4 contradictory data+accessor mixes (34 shapes, 306 descriptors), i.e. 41 x 2 x 306 = 25092 cases; each runs create, [preventExtensions], Object.defineProperty, then an assignment and a delete as behavioural probes, with all observations compared after every step. thorough = the complete product split over the shards (exhaustive); quick = a uniform random sample. non-trivial = the property already exists or the object is not extensible; distinct by (state, descriptor)",
	Quick: 2000, Thorough: 0,
	Gen: func(t *rapid.T) tableCase {
		curs := tblCurrents()
		sh := rapid.SampledFrom(tblShapes()).Draw(t, "shape")
		return tableCase{
			Cur:  curs[rapid.IntRange(0, len(curs)-1).Draw(t, "cur")],
			Ext:  rapid.Bool().Draw(t, "ext"),
			Desc: tblDesc(sh[0], sh[1], sh[2], sh[3], rapid.SampledFrom(tblBools).Draw(t, "e"), rapid.SampledFrom(tblBools).Draw(t, "c")),
		}
	},
	Check: checkTable,
})

func TestDefineOwnPropertyTable(t *testing.T) {
	if !harness.Thorough() {
		tableFacet.Run(t)
		return
	}
	var cases []tableCase
	i := 0
	for _, cur := range tblCurrents() {
		for _, ext := range []bool{true, false} {
			for _, sh := range tblShapes() {
				for _, e := range tblBools {
					for _, c := range tblBools {
						if i%harness.NShards() == harness.Shard() {
							cases = append(cases, tableCase{Cur: cur, Ext: ext, Desc: tblDesc(sh[0], sh[1], sh[2], sh[3], e, c)})
						}
						i++
					}
				}
			}
		}
	}
	harness.SetExhaustive(tableFacet.Name)
	tableFacet.Each(t, cases)
}
