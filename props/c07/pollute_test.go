package c07

// Facet "desc-pollution": From/ToPropertyDescriptor when Object.prototype itself carries properties named
// value / writable / get / set / enumerable / configurable.
//
// 8.10.4 builds the result of getOwnPropertyDescriptor with [[DefineOwnProperty]], so its six fields are
// always OWN data properties {writable, enumerable, configurable: true} of the result, whatever the
// prototype holds (an inherited setter must not run, an inherited read-only property must not block).
// 8.10.5 on the other hand reads descriptor fields with [[HasProperty]]/[[Get]], so fields inherited from
// Object.prototype DO count for Object.defineProperty(o, n, {}). Finite enumeration, both tiers.

import (
	"fmt"
	"strings"
	"testing"

	"github.com/robertkrimen/otto"

	"verif/lib/harness"
	"verif/lib/m07"
)

type polluteCase struct {
	Field string `json:"field"`
	Kind  string `json:"kind"` // readonly (data 5, non-writable) | setter (set only, logs) | getter (get only, returns true)
	Acc   bool   `json:"accessor"`
}

const pollutePrelude = `var __log=[], __hop=Object.prototype.hasOwnProperty, __gopd=Object.getOwnPropertyDescriptor, __keys=Object.keys;
function G(){return 1} function S(v){}
function __v(v){
  if(v===undefined)return "u"; if(v===null)return "n";
  var t=typeof v;
  if(t==="boolean")return v?"!t":"!f";
  if(t==="number")return "#"+v;
  if(t==="string")return "$"+v;
  if(v===G)return "G"; if(v===S)return "S";
  return t;
}
`

func checkPollute(c polluteCase) harness.Outcome {
	o := harness.Outcome{Nontrivial: true, Classes: []string{"field:" + c.Field, "kind:" + c.Kind}}
	var pol, inherited string // inherited = the value 8.10.5 reads for the field from an empty descriptor object
	switch c.Kind {
	case "readonly":
		pol = fmt.Sprintf(`Object.defineProperty(Object.prototype,%q,{value:5,writable:false,configurable:true});`, c.Field)
		inherited = "#5"
	case "setter":
		pol = fmt.Sprintf(`Object.defineProperty(Object.prototype,%q,{set:function(v){__log.push("set")},configurable:true});`, c.Field)
		inherited = "u"
	default:
		pol = fmt.Sprintf(`Object.defineProperty(Object.prototype,%q,{get:function(){return true},configurable:true});`, c.Field)
		inherited = "!t"
	}
	target := `var o={};Object.defineProperty(o,"p",{value:7,writable:false,enumerable:true,configurable:false});`
	fields := []string{"value", "writable", "enumerable", "configurable"}
	want := map[string]string{"value": "#7", "writable": "!f", "enumerable": "!t", "configurable": "!f"}
	if c.Acc {
		target = `var o={};Object.defineProperty(o,"p",{get:G,set:S,enumerable:false,configurable:true});`
		fields = []string{"get", "set", "enumerable", "configurable"}
		want = map[string]string{"get": "G", "set": "S", "enumerable": "!f", "configurable": "!t"}
	}
	// part 1: the descriptor object returned under pollution
	src := "(function(){" + target + pol + `var d=__gopd(o,"p"),r=[__keys(d).join(",")],i,f,dd,F=` + jsStrings(fields) + `;
for(i=0;i<F.length;i++){f=F[i];dd=__gopd(d,f);r.push(f+"="+(dd?__v(dd.value)+(dd.writable===true&&dd.enumerable===true&&dd.configurable===true&&!("get" in dd&&__hop.call(dd,"get"))?"":"!attrs"):"missing"))}
r.push("log="+__log.join(","));` +
		// part 2: an EMPTY descriptor literal inherits the polluted field (8.10.5 uses [[HasProperty]]/[[Get]])
		`var q={},res;try{Object.defineProperty(q,"n",{});res="ok"}catch(e){res=e.name}
delete Object.prototype[` + fmt.Sprintf("%q", c.Field) + `];
var dq=__gopd(q,"n");r.push(res, dq?__keys(dq).join(",")+":"+__v(dq.value)+__v(dq.writable)+__v(dq.get)+__v(dq.set)+__v(dq.enumerable)+__v(dq.configurable):"-");
return r.join("|")})()`
	var exp []string
	exp = append(exp, strings.Join(fields, ","))
	for _, f := range fields {
		exp = append(exp, f+"="+want[f])
	}
	exp = append(exp, "log=")
	m := m07.New()
	q := m.NewObject(1, m.ObjProto)
	t := m.DefineProperty(q, "n", &m07.DescSpec{Fields: []m07.Field{{F: c.Field, V: inherited}}, Inherit: true})
	if t != nil {
		exp = append(exp, t.Name, "-")
	} else {
		d := q.GetOwnProperty("n")
		b := func(x bool) string { return m07.Val{K: m07.Bool, B: x}.Repr() }
		if d.IsData() {
			exp = append(exp, "ok", "value,writable,enumerable,configurable:"+d.Value.Repr()+b(d.Writable)+"uu"+b(d.Enumerable)+b(d.Configurable))
		} else {
			exp = append(exp, "ok", "get,set,enumerable,configurable:uu"+"uu"+b(d.Enumerable)+b(d.Configurable)) // get/set can only be undefined here
		}
	}
	vm := otto.New()
	if r := harness.Run(vm, pollutePrelude); r.Panicked || r.Err != nil {
		o.Fail = "prelude failed: " + r.Describe()
		return o
	}
	r := harness.Run(vm, src)
	if r.Panicked || r.Err != nil {
		o.Fail = src + ": " + r.Describe()
		return o
	}
	got, _ := r.Value.ToString()
	if w := strings.Join(exp, "|"); got != w {
		o.Fail = fmt.Sprintf("Object.prototype.%s polluted (%s): otto %q, ES5 8.10.4 / 8.10.5 give %q (keys of the descriptor | each field as OWN data property of it | setter log | result of defineProperty(q,'n',{}) | resulting descriptor) -- script: %s", c.Field, c.Kind, got, w, src)
	}
	return o
}

func jsStrings(s []string) string {
	var p []string
	for _, x := range s {
		p = append(p, fmt.Sprintf("%q", x))
	}
	return "[" + strings.Join(p, ",") + "]"
}

var polluteFacet = harness.Register(&harness.Facet[polluteCase]{
	Name:  "desc-pollution",
	Rule:  "complete product, both tiers: field in {value,writable,get,set,enumerable,configurable} x pollution of Object.prototype[field] in {read-only data property 5, accessor with only a (logging) setter, accessor with only a getter returning true} x described property (non-writable data | accessor): Object.getOwnPropertyDescriptor must return an object whose fields are OWN data properties {writable,enumerable,configurable:true} with the right values, in 8.10.4 order, without running the inherited setter; then Object.defineProperty(q,'n',{}) with an empty literal must behave as 8.10.5 says for a descriptor INHERITING that field (model: ToPropertyDescriptor with the inherited value). every case non-trivial; distinct by (field, kind, property kind)",
	Check: checkPollute,
})

func TestDescPollution(t *testing.T) {
	var cases []polluteCase
	i := 0
	for _, f := range []string{"value", "writable", "get", "set", "enumerable", "configurable"} {
		for _, k := range []string{"readonly", "setter", "getter"} {
			for _, acc := range []bool{false, true} {
				if i%harness.NShards() == harness.Shard() {
					cases = append(cases, polluteCase{Field: f, Kind: k, Acc: acc})
				}
				i++
			}
		}
	}
	harness.SetExhaustive(polluteFacet.Name)
	polluteFacet.Each(t, cases)
}
