package c07

// Facet "wide-order": insertion order and uniqueness of names on objects with MANY properties (33-70, past
// any small-object representation), under deletion and re-creation. Every case deletes and re-creates
// several names; after every step Object.keys, getOwnPropertyNames and the for-in sequence (through a
// prototype that shares some names) are compared with the insertion-ordered model tables, and no name may
// appear twice.

import (
	"fmt"
	"strings"
	"testing"

	"github.com/robertkrimen/otto"
	"pgregory.net/rapid"

	"verif/lib/harness"
	"verif/lib/m07"
)

type wideOp struct {
	K string `json:"k"` // del | set | hide (defineProperty non-enumerable) | readd (delete then assign) | new
	I int    `json:"i"` // property number
}

type wideCase struct {
	N      int      `json:"n"`      // own properties p0..p(N-1) of the object
	Shared int      `json:"shared"` // the prototype owns p0..p(Shared-1) too, plus q0, q1
	Ops    []wideOp `json:"ops"`
}

const widePrelude = `function __w(o){var f=[],k;for(k in o)f.push(k);return Object.keys(o).join(",")+"|"+Object.getOwnPropertyNames(o).join(",")+"|"+f.join(",")}
`

func checkWide(c wideCase) harness.Outcome {
	out := harness.Outcome{Nontrivial: c.N > 32, Classes: []string{fmt.Sprintf("size:%d", c.N/10*10)}}
	m := m07.New()
	P := m.NewObject(100, m.ObjProto)
	o := m.NewObject(101, P)
	num := func(i int) m07.Val { return m07.Val{K: m07.Num, N: float64(i)} }
	var src strings.Builder
	src.WriteString("var P={},o=Object.create(P),i;")
	src.WriteString(fmt.Sprintf("for(i=0;i<%d;i++)P['p'+i]=-i;P.q0=1;P.q1=2;for(i=0;i<%d;i++)o['p'+i]=i;", c.Shared, c.N))
	for i := 0; i < c.Shared; i++ {
		m.Put(P, fmt.Sprintf("p%d", i), num(-i), false)
	}
	m.Put(P, "q0", num(1), false)
	m.Put(P, "q1", num(2), false)
	for i := 0; i < c.N; i++ {
		m.Put(o, fmt.Sprintf("p%d", i), num(i), false)
	}
	vm := otto.New()
	if r := harness.Run(vm, widePrelude+src.String()); r.Panicked || r.Err != nil {
		out.Fail = "setup failed: " + r.Describe()
		return out
	}
	next := c.N
	observe := func(label, js string) bool {
		r := harness.Run(vm, js+";__w(o)")
		if r.Panicked || r.Err != nil {
			out.Fail = label + ": " + r.Describe()
			return false
		}
		got, _ := r.Value.ToString()
		want := strings.Join(o.Keys(), ",") + "|" + strings.Join(o.OwnNames(), ",") + "|" + strings.Join(o.ForInKeys(false), ",")
		if got != want {
			g, w := strings.Split(got, "|"), strings.Split(want, "|")
			for i, what := range []string{"Object.keys", "getOwnPropertyNames", "for-in"} {
				if i < len(g) && g[i] != w[i] {
					out.Fail = fmt.Sprintf("%s (object with %d properties): %s gives [%s], insertion order (8.12 tables, 12.6.4, 15.2.3.4/14) gives [%s]", label, len(o.OwnNames()), what, g[i], w[i])
					return false
				}
			}
			out.Fail = label + ": malformed report " + got
			return false
		}
		return true
	}
	if !observe("setup", "0") {
		return out
	}
	for si, op := range c.Ops {
		name := fmt.Sprintf("p%d", op.I%c.N)
		var js string
		switch op.K {
		case "del":
			js = fmt.Sprintf("delete o.%s", name)
			m.Delete(o, name, false)
		case "set":
			js = fmt.Sprintf("o.%s=%d", name, 1000+si)
			m.Put(o, name, num(1000+si), false)
		case "readd":
			js = fmt.Sprintf("delete o.%s;o.%s=%d", name, name, 1000+si)
			m.Delete(o, name, false)
			m.Put(o, name, num(1000+si), false)
		case "hide":
			js = fmt.Sprintf("Object.defineProperty(o,%q,{enumerable:false})", name)
			m.DefineOwnProperty(o, name, &m07.Desc{HasEnumerable: true, Enumerable: false}, true)
		default: // new
			name = fmt.Sprintf("p%d", next)
			next++
			js = fmt.Sprintf("o.%s=%d", name, 1000+si)
			m.Put(o, name, num(1000+si), false)
		}
		out.Classes = append(out.Classes, "op:"+op.K)
		if !observe(fmt.Sprintf("step %d (%s)", si+1, js), js) {
			return out
		}
	}
	return out
}

var wideFacet = harness.Register(&harness.Facet[wideCase]{
	Name:  "wide-order",
	Rule:  "rapid: an object with 33-70 own properties p0..pN-1 (created by assignment) whose prototype owns the first 0-5 of these names plus q0,q1; 4-14 steps, at least a third of them 'delete p_i then assign p_i again', the others delete / assign existing / add a new name / make non-enumerable; after EVERY step Object.keys, getOwnPropertyNames and the for-in sequence must equal the insertion-ordered model tables (re-created names move to the end, nothing twice, shadowed prototype names not repeated). non-trivial = more than 32 properties (always); distinct by (N, shared, operation list)",
	Quick: 250, Thorough: 1500,
	Gen: func(t *rapid.T) wideCase {
		c := wideCase{N: rapid.IntRange(33, 70).Draw(t, "n"), Shared: rapid.IntRange(0, 5).Draw(t, "shared")}
		n := rapid.IntRange(4, 14).Draw(t, "nops")
		for i := 0; i < n; i++ {
			k := "readd"
			if i%3 != 0 {
				k = rapid.SampledFrom([]string{"del", "set", "readd", "hide", "new", "set", "del"}).Draw(t, "k")
			}
			idx := rapid.IntRange(0, c.N-1).Draw(t, "i")
			if rapid.IntRange(0, 3).Draw(t, "edge") == 0 {
				idx = rapid.SampledFrom([]int{0, 1, 31, 32, 33, c.N - 2, c.N - 1}).Draw(t, "edgei")
			}
			c.Ops = append(c.Ops, wideOp{K: k, I: idx})
		}
		return c
	},
	Check: checkWide,
})

func TestWideOrder(t *testing.T) { wideFacet.Run(t) }
