package c07

// Facet "samevalue-table": every redefinition of the VALUE of a data property, enumerated.
//
// 8.12.9 step 10.a.ii decides with SameValue (9.12), which differs from === exactly on NaN (same) and
// +0 / -0 (different); step 6 makes the same comparison for the "nothing changes" shortcut. The table is
// the complete product
//
//	current value x new value, both from {NaN, +0, -0, 1, "a", undefined, null, one shared object, a fresh object}
//	x (writable, configurable) in {tt, tf, ft, ff}
//	x route: Object.defineProperty | Object.defineProperties | Object.freeze first, then defineProperty
//	         | element "0" of an Array (15.4.5.1 step 4) | "length" of an Array (15.4.5.1 step 3)
//
// and is run completely in BOTH tiers (about 1200 cases), so no seed can miss a SameValue corner. The plain-object
// routes go through the same lock-step machinery as the histories (all observations after every step, then an
// assignment and a delete as behavioural probes); the Array routes use a direct script and the 15.4.5.1 model.

import (
	"fmt"
	"strings"
	"testing"

	"github.com/robertkrimen/otto"

	"verif/lib/harness"
	"verif/lib/m07"
)

type svCase struct {
	Route string `json:"route"` // defp | defps | freeze | aidx | alen
	Cur   string `json:"cur"`   // value tag; for alen the current length ("#0", "#1", "#2")
	New   string `json:"new"`
	W     bool   `json:"writable"`
	C     bool   `json:"configurable"`
}

// "O0" is one shared object (identical to itself), "{}" a fresh object on every evaluation (never identical)
var svValues = []string{"#NaN", "#0", "#-0", "#1", "$a", "u", "n", "O0", "{}"}

func boolTag(b bool) string {
	if b {
		return "!t"
	}
	return "!f"
}

func (c svCase) history() Case {
	target := m07.ObjInit{Kind: "create", Proto: -2, Props: []m07.NamedDesc{{Name: "a", Desc: m07.DescSpec{Fields: []m07.Field{
		{F: "value", V: c.Cur}, {F: "writable", V: boolTag(c.W)}, {F: "enumerable", V: "!t"}, {F: "configurable", V: boolTag(c.C)}}}}}}
	h := Case{Objs: []m07.ObjInit{{Kind: "lit", Proto: -2}, target}}
	d := m07.DescSpec{Fields: []m07.Field{{F: "value", V: c.New}}}
	switch c.Route {
	case "defp":
		h.Ops = append(h.Ops, m07.Op{K: "defp", Obj: 1, Name: "a", Desc: &d})
	case "defps":
		h.Ops = append(h.Ops, m07.Op{K: "defps", Obj: 1, Props: []m07.NamedDesc{{Name: "a", Desc: d}}})
	case "freeze":
		h.Ops = append(h.Ops, m07.Op{K: "freeze", Obj: 1}, m07.Op{K: "defp", Obj: 1, Name: "a", Desc: &d})
	}
	h.Ops = append(h.Ops, m07.Op{K: "set", Obj: 1, Name: "a", V: "#2"}, m07.Op{K: "del", Obj: 1, Name: "a"})
	return h
}

const svArrayPrelude = `var X={};
function __v(v){
  if(v===undefined)return "u"; if(v===null)return "n";
  var t=typeof v;
  if(t==="boolean")return v?"!t":"!f";
  if(t==="number")return (v===0&&1/v<0)?"#-0":"#"+v;
  if(t==="string")return "$"+v;
  if(v===X)return "O0";
  return "{}";
}
function __d(o,n){var d=Object.getOwnPropertyDescriptor(o,n); if(d===undefined)return "-"; return __v(d.value)+";"+__v(d.writable)+";"+__v(d.enumerable)+";"+__v(d.configurable)}
function __try(f){try{f();return "ok"}catch(e){return e.name}}
`

func svLit(tag string) string {
	if tag == "O0" {
		return "X"
	}
	return m07.JSLit(tag)
}

func descRepr(o *m07.Object, name string) string {
	d := o.GetOwnProperty(name)
	if d == nil {
		return "-"
	}
	return d.Value.Repr() + ";" + boolTag(d.Writable) + ";" + boolTag(d.Enumerable) + ";" + boolTag(d.Configurable)
}

// checkArray runs the Array routes: returns (otto's report, the model's report).
func checkArray(c svCase) (string, string, string) {
	m := m07.New()
	m.Objs = append(m.Objs, nil, nil)
	var src strings.Builder
	src.WriteString("(function(){var r=[],a;")
	var arr *m07.Object
	// O[0] stands for the shared object X so that the tag O0 parses; O[1] is the array
	m.Objs[0] = m.NewArray(0, nil) // any object; only its identity matters
	res := func(ok bool, t *m07.Throw) string {
		if t != nil {
			return t.Name
		}
		return "ok"
	}
	var want []string
	switch c.Route {
	case "aidx":
		arr = m.NewArray(1, []m07.Val{m.ParseVal("#7")})
		m.Objs[1] = arr
		src.WriteString("a=[7];")
		src.WriteString(fmt.Sprintf(`r.push(__try(function(){Object.defineProperty(a,"0",{value:%s,writable:%v,enumerable:true,configurable:%v})}));`, svLit(c.Cur), c.W, c.C))
		want = append(want, res(m.ArrayDefineOwnProperty(arr, "0", &m07.Desc{HasValue: true, Value: m.ParseVal(c.Cur), HasWritable: true, Writable: c.W,
			HasEnumerable: true, Enumerable: true, HasConfigurable: true, Configurable: c.C}, true)))
		src.WriteString(fmt.Sprintf(`r.push(__try(function(){Object.defineProperty(a,"0",{value:%s})}));`, svLit(c.New)))
		want = append(want, res(m.ArrayDefineOwnProperty(arr, "0", &m07.Desc{HasValue: true, Value: m.ParseVal(c.New)}, true)))
	case "alen":
		var elems []m07.Val
		var lits []string
		for i := 0; i < int(m.ParseVal(c.Cur).N); i++ {
			elems = append(elems, m.ParseVal("#7"))
			lits = append(lits, "7")
		}
		arr = m.NewArray(1, elems)
		m.Objs[1] = arr
		src.WriteString("a=[" + strings.Join(lits, ",") + "];")
		src.WriteString(fmt.Sprintf(`r.push(__try(function(){Object.defineProperty(a,"length",{writable:%v})}));`, c.W))
		want = append(want, res(m.ArrayDefineOwnProperty(arr, "length", &m07.Desc{HasWritable: true, Writable: c.W}, true)))
		src.WriteString(fmt.Sprintf(`r.push(__try(function(){Object.defineProperty(a,"length",{value:%s})}));`, svLit(c.New)))
		want = append(want, res(m.ArrayDefineOwnProperty(arr, "length", &m07.Desc{HasValue: true, Value: m.ParseVal(c.New)}, true)))
	}
	src.WriteString(`r.push(__d(a,"0"),__d(a,"1"),__d(a,"length"),__v(a.length),__v(a[0]),Object.keys(a).join(","));return r.join("|")})()`)
	var keys []string
	for _, k := range arr.Keys() {
		keys = append(keys, k)
	}
	l, _ := m.Get(arr, "length")
	e0, _ := m.Get(arr, "0")
	want = append(want, descRepr(arr, "0"), descRepr(arr, "1"), descRepr(arr, "length"), l.Repr(), e0.Repr(), strings.Join(keys, ","))

	vm := otto.New()
	if r := harness.Run(vm, svArrayPrelude); r.Panicked || r.Err != nil {
		return "", "", "prelude failed: " + r.Describe()
	}
	r := harness.Run(vm, src.String())
	if r.Panicked || r.Err != nil {
		return "", "", "script failed: " + r.Describe() + " in " + src.String()
	}
	got, _ := r.Value.ToString()
	return got, strings.Join(want, "|"), src.String()
}

func checkSV(c svCase) harness.Outcome {
	if c.Route == "aidx" || c.Route == "alen" {
		o := harness.Outcome{Nontrivial: true, Classes: []string{"route:" + c.Route}}
		got, want, src := checkArray(c)
		if want == "" {
			o.Fail = src
		} else if got != want {
			o.Fail = fmt.Sprintf("%s: otto %q, ES5 15.4.5.1/8.12.9 give %q (defineProperty results | descriptor of 0 | of 1 | of length | a.length | a[0] | keys)", src, got, want)
		}
		return o
	}
	o := checkCase(c.history())
	o.Nontrivial = true
	o.Classes = append(o.Classes, "route:"+c.Route)
	return o
}

var svFacet = harness.Register(&harness.Facet[svCase]{
	Name:  "samevalue-table",
	Rule:  "complete product, run in both tiers: current value x new value, each from {NaN, +0, -0, 1, \"a\", undefined, null, one shared object, a fresh object}, x (writable, configurable) in all four combinations x route in {Object.defineProperty, Object.defineProperties, Object.freeze then defineProperty (81 cases, attributes irrelevant), element 0 of an Array, length of an Array (current length 0/1/2 x new value x writable)}: the value of an existing data property is redefined with {value: new}; oracle = 8.12.9 (SameValue in steps 6 and 10.a.ii) and 15.4.5.1 of verif/lib/m07; plain-object routes compare every observation after every step and probe with an assignment and a delete, Array routes compare the results, the descriptors of 0/1/length, a.length, a[0] and keys. every case is non-trivial; distinct by (route, current, new, writable, configurable)",
	Check: checkSV,
})

func svCases() []svCase {
	var out []svCase
	tf := []bool{true, false}
	for _, route := range []string{"defp", "defps", "aidx"} {
		for _, cur := range svValues {
			for _, nw := range svValues {
				for _, w := range tf {
					for _, c := range tf {
						out = append(out, svCase{Route: route, Cur: cur, New: nw, W: w, C: c})
					}
				}
			}
		}
	}
	for _, cur := range svValues {
		for _, nw := range svValues {
			out = append(out, svCase{Route: "freeze", Cur: cur, New: nw, W: true, C: true})
		}
	}
	for _, cur := range []string{"#0", "#1", "#2"} {
		for _, nw := range svValues {
			for _, w := range tf {
				out = append(out, svCase{Route: "alen", Cur: cur, New: nw, W: w})
			}
		}
	}
	return out
}

func TestSameValueTable(t *testing.T) {
	all := svCases()
	var mine []svCase
	for i, c := range all {
		if i%harness.NShards() == harness.Shard() {
			mine = append(mine, c)
		}
	}
	harness.SetExhaustive(svFacet.Name)
	svFacet.Each(t, mine)
}
