// Package c07 decides property C07: objects obey the ES5 property model (attributes, inheritance,
// extensibility) over arbitrary histories of object-model operations.
//
// A case is a set of 3-4 objects linked by prototype chains plus a history of operations. Every step
// is executed on otto (non-strict code, one script run per step that also returns every observation)
// and on the executable model verif/lib/m07 (ES5.1 8.12, 8.10, 15.2.3, 12.6.4); after every step all
// observations must agree, and the history invariants named in the property statement are asserted
// directly on otto's own observations.
package c07

import (
	"fmt"
	"runtime/debug"
	"strings"
	"testing"

	"github.com/robertkrimen/otto"
	"pgregory.net/rapid"

	"verif/lib/harness"
	"verif/lib/m07"
)

func TestMain(m *testing.M) {
	debug.SetMemoryLimit(600 << 20) // shared machine: keep the collector ahead of the per-case runtimes
	harness.Main(m, "C07")
}

// Known findings (root causes) and how the check lives with them while they stand.
const (
	kGenericWritable = "C07-GENERIC-DROPS-WRITABLE" // step replaced by a no-op when a generic descriptor hits a writable data property
	kAccToDataPanic  = "C07-ACCESSOR-TO-DATA-PANIC" // step replaced by a no-op when {writable:…} without value converts an accessor
	kDefPropsAtomic  = "C07-DEFPROPS-NOT-ATOMIC"    // step replaced by a no-op when a bad descriptor follows a good one in defineProperties
	kForInShadow     = "C07-FORIN-SHADOW"           // for-in sequences compared modulo "shadowed names repeat"
	kForInDelete     = "C07-FORIN-DELETE"           // for-in step replaced by a no-op when its body deletes a non-last key of the object being enumerated
	kBareAccessor    = "C07-BARE-ACCESSOR-DESC"     // descriptor of an accessor with get=set=undefined compared modulo "get/set fields missing"
)

// Case is one generated history.
type Case struct {
	Objs []m07.ObjInit `json:"objs"`
	Ops  []m07.Op      `json:"ops"`
}

// engine runs step sources and returns the step's report string.
type engine interface {
	Step(src string) (out string, broke string)
}

type ottoEngine struct{ vm *otto.Otto }

var prelude = m07.Prelude()

func newOttoEngine() (*ottoEngine, string) {
	vm := otto.New()
	if r := harness.Run(vm, prelude); r.Panicked || r.Err != nil {
		return nil, "prelude failed: " + r.Describe()
	}
	return &ottoEngine{vm: vm}, ""
}

func (e *ottoEngine) Step(src string) (string, string) {
	r := harness.Run(e.vm, src)
	switch {
	case r.Panicked:
		return "", "Go panic crossed Run: " + fmt.Sprint(r.Panic)
	case r.Err != nil:
		return "", "Run returned an error outside the step's try/catch: " + r.Err.Error()
	case !r.Value.IsString():
		return "", "step did not return a string: " + harness.Repr(r.Value)
	}
	s, _ := r.Value.ToString()
	return s, ""
}

// ---- parsing a step report -----------------------------------------------------------------------------

type propObs struct {
	desc          string // "-" or "<keys>;value;writable;get;set;enumerable;configurable"
	in, own, enum bool
	val           string
}

func (p propObs) field(i int) string { // 0 keys, 1 value, 2 writable, 3 get, 4 set, 5 enumerable, 6 configurable
	f := strings.Split(p.desc, ";")
	if i < len(f) {
		return f[i]
	}
	return ""
}

type objObs struct {
	ext, sealed, frozen bool
	proto               string
	keys, names, forin  []string
	props               map[string]propObs
}

type report struct {
	res, log1, visited, log2 string
	segs                     []string // raw observation segments
	objs                     []objObs
}

func splitList(s string) []string {
	if s == "" {
		return nil
	}
	return strings.Split(s, ",")
}

func parseReport(s string, nobj int) (*report, error) {
	parts := strings.Split(s, "|")
	want := 3 + nobj*(1+len(m07.Names)) + 1
	if len(parts) != want {
		return nil, fmt.Errorf("report has %d segments, want %d: %q", len(parts), want, s)
	}
	r := &report{res: parts[0], log1: parts[1], visited: parts[2], log2: parts[len(parts)-1], segs: parts[3 : len(parts)-1]}
	i := 0
	for k := 0; k < nobj; k++ {
		h := strings.Split(r.segs[i], ":")
		if len(h) != 6 || len(h[1]) != 3 {
			return nil, fmt.Errorf("bad object header %q", r.segs[i])
		}
		o := objObs{ext: h[1][0] == 'E', sealed: h[1][1] == 'S', frozen: h[1][2] == 'F', proto: h[2],
			keys: splitList(h[3]), names: splitList(h[4]), forin: splitList(h[5]), props: map[string]propObs{}}
		i++
		for _, n := range m07.Names {
			seg := r.segs[i]
			eq := strings.Index(seg, "=")
			f := strings.Split(seg[eq+1:], "/")
			if eq < 0 || seg[:eq] != n || len(f) != 3 || len(f[1]) != 3 {
				return nil, fmt.Errorf("bad property segment %q", seg)
			}
			o.props[n] = propObs{desc: f[0], in: f[1][0] == 'I', own: f[1][1] == 'H', enum: f[1][2] == 'P', val: f[2]}
			i++
		}
		r.objs = append(r.objs, o)
	}
	return r, nil
}

// canonHeader rewrites the three name lists of an object header into their compared form.
func canonHeader(seg string) string {
	h := strings.Split(seg, ":")
	if len(h) != 6 {
		return seg
	}
	for i := 3; i < 6; i++ {
		h[i] = m07.Canon(splitList(h[i]))
	}
	return strings.Join(h, ":")
}

// ---- the check ---------------------------------------------------------------------------------------

func describeSeg(idx int) string {
	per := 1 + len(m07.Names)
	o, j := idx/per, idx%per
	if j == 0 {
		return fmt.Sprintf("object O[%d] (extensible/sealed/frozen : prototype : keys : getOwnPropertyNames : for-in)", o)
	}
	return fmt.Sprintf("O[%d][%q] (own descriptor / in, hasOwnProperty, propertyIsEnumerable / value)", o, m07.Names[j-1])
}

func compareReport(step string, got *report, wantRes, wantLog1, wantObs, wantLog2 string) string {
	if got.res != wantRes {
		return fmt.Sprintf("%s: result %q, ES5 gives %q", step, got.res, wantRes)
	}
	if got.log1 != wantLog1 {
		return fmt.Sprintf("%s: getter/setter invocations during the step [%s], ES5 gives [%s]", step, got.log1, wantLog1)
	}
	w := strings.Split(wantObs, "|")
	if len(w) != len(got.segs) {
		return fmt.Sprintf("%s: internal: %d observation segments vs %d", step, len(got.segs), len(w))
	}
	per := 1 + len(m07.Names)
	for i := range w {
		g, x := got.segs[i], w[i]
		if i%per == 0 {
			g, x = canonHeader(g), canonHeader(x)
		}
		if g != x {
			return fmt.Sprintf("%s: observation of %s: otto %q, ES5 (8.12/15.2.3 model) %q", step, describeSeg(i), g, x)
		}
	}
	if got.log2 != wantLog2 {
		return fmt.Sprintf("%s: getter invocations while observing [%s], ES5 gives [%s]", step, got.log2, wantLog2)
	}
	return ""
}

// invariants asserts, on the engine's own consecutive observations, the history invariants named in
// the property statement plus the mutual consistency of the observations of one snapshot.
func invariants(prev, cur *report, shadowKnown bool) string {
	for i, o := range cur.objs {
		on := fmt.Sprintf("O[%d]", i)
		if o.frozen && !o.sealed || o.sealed && o.ext {
			return on + ": isFrozen/isSealed/isExtensible inconsistent (15.2.3.11-13)"
		}
		inNames := map[string]int{}
		for _, n := range o.names {
			inNames[n]++
			if inNames[n] > 1 {
				return on + ": getOwnPropertyNames lists " + n + " twice"
			}
		}
		inKeys := map[string]bool{}
		for _, n := range o.keys {
			if inKeys[n] {
				return on + ": Object.keys lists " + n + " twice"
			}
			inKeys[n] = true
		}
		for _, n := range m07.Names {
			p := o.props[n]
			if p.own != (p.desc != "-") || p.own != (inNames[n] == 1) {
				return fmt.Sprintf("%s.%s: hasOwnProperty=%v, descriptor %q, getOwnPropertyNames has it: %v", on, n, p.own, p.desc, inNames[n] == 1)
			}
			if p.own && !p.in {
				return fmt.Sprintf("%s.%s: own property but not `in`", on, n)
			}
			if p.enum != inKeys[n] || (p.own && p.enum != (p.field(5) == "!t")) {
				return fmt.Sprintf("%s.%s: propertyIsEnumerable=%v, in Object.keys=%v, descriptor %q", on, n, p.enum, inKeys[n], p.desc)
			}
			if !p.own && strings.HasPrefix(o.proto, "O") && o.proto != "OP" {
				var pi int
				fmt.Sscanf(o.proto[1:], "%d", &pi)
				if pi < len(cur.objs) && p.in != cur.objs[pi].props[n].in {
					return fmt.Sprintf("%s.%s: `in` is %v but the prototype O[%d] says %v (8.12.6)", on, n, p.in, pi, cur.objs[pi].props[n].in)
				}
			}
			if !p.own && (o.proto == "n" || o.proto == "OP") && p.in {
				return fmt.Sprintf("%s.%s: `in` without any holder in the chain", on, n)
			}
		}
		seen := map[string]int{}
		for _, n := range o.forin {
			seen[n]++
			if seen[n] > 1 && !shadowKnown {
				return fmt.Sprintf("%s: for-in enumerates %q twice (12.6.4): %v", on, n, o.forin)
			}
		}
	}
	if prev == nil {
		return ""
	}
	for i, o := range cur.objs {
		po := prev.objs[i]
		on := fmt.Sprintf("O[%d]", i)
		if o.proto != po.proto {
			return on + ": the prototype link changed"
		}
		if !po.ext {
			if o.ext {
				return on + ": a non-extensible object became extensible again (15.2.3.10)"
			}
			was := map[string]bool{}
			for _, n := range po.names {
				was[n] = true
			}
			for _, n := range o.names {
				if !was[n] {
					return fmt.Sprintf("%s: non-extensible object gained the property %q (8.12.9 step 3)", on, n)
				}
			}
		}
		for _, n := range m07.Names {
			pp, p := po.props[n], o.props[n]
			if !pp.own || pp.field(6) != "!f" {
				continue
			}
			if !p.own {
				return fmt.Sprintf("%s.%s: a non-configurable property disappeared (8.12.7)", on, n)
			}
			if p.field(0) != pp.field(0) || p.field(5) != pp.field(5) || p.field(6) != "!f" || p.field(3) != pp.field(3) || p.field(4) != pp.field(4) {
				return fmt.Sprintf("%s.%s: a non-configurable property changed shape: %q -> %q (8.12.9 steps 7-11)", on, n, pp.desc, p.desc)
			}
			if pp.field(2) == "!f" && p.desc != pp.desc {
				return fmt.Sprintf("%s.%s: a non-writable, non-configurable value changed: %q -> %q (8.12.9 step 10)", on, n, pp.desc, p.desc)
			}
		}
	}
	return ""
}

func checkCase(c Case) harness.Outcome {
	eng, broke := newOttoEngine()
	if broke != "" {
		return harness.Outcome{Fail: broke}
	}
	return runCase(c, eng, true)
}

// runCase executes the history on eng and on the model. useKnown=false compares against plain ES5
// (development-time cross-check of the model against another engine).
func runCase(c Case, eng engine, useKnown bool) harness.Outcome {
	known := func(id string) bool { return useKnown && harness.Known(id) }
	var o harness.Outcome
	excluded := map[string]bool{}
	classes := map[string]bool{}
	finish := func() harness.Outcome {
		for k := range excluded {
			o.Excluded = append(o.Excluded, k)
		}
		for k := range classes {
			o.Classes = append(o.Classes, k)
		}
		sortStrings(o.Excluded)
		sortStrings(o.Classes)
		return o
	}
	m := m07.New()
	nobj := len(c.Objs)
	shadow := known(kForInShadow)
	opts := m07.ObsOpts{ShadowBlindForIn: shadow, BareAccessorAsBare: known(kBareAccessor)}
	plain := m07.ObsOpts{}

	noteDistortion := func(mm *m07.Model) {
		if opts == plain {
			return
		}
		for _, ob := range mm.Objs {
			if opts.ShadowBlindForIn && strings.Join(ob.ForInKeys(true), ",") != strings.Join(ob.ForInKeys(false), ",") {
				excluded[kForInShadow] = true
			}
			if opts.BareAccessorAsBare {
				for _, n := range ob.OwnNames() {
					if p := ob.Own(n); p.Accessor && p.Get == nil && p.Set == nil {
						excluded[kBareAccessor] = true
					}
				}
			}
		}
	}

	var prev *report
	step := func(label, src string, run func(rep *report) (res string, ferr string)) bool {
		out, broke := eng.Step(src)
		if broke != "" {
			o.Fail = label + ": " + broke
			return false
		}
		rep, err := parseReport(out, nobj)
		if err != nil {
			o.Fail = label + ": " + err.Error()
			return false
		}
		res, ferr := run(rep)
		log1 := m.FlushLog()
		noteDistortion(m)
		obs := m.Observe(opts)
		log2 := m.FlushLog()
		if ferr != "" {
			o.Fail = label + ": " + ferr
			return false
		}
		if f := compareReport(label, rep, res, log1, obs, log2); f != "" {
			o.Fail = f
			return false
		}
		if f := invariants(prev, rep, shadow); f != "" {
			o.Fail = label + ": invariant: " + f
			return false
		}
		prev = rep
		return true
	}

	if !step("setup", m07.SetupJS(c.Objs), func(*report) (string, string) { return m.Setup(c.Objs), "" }) {
		return finish()
	}
	for i := range c.Ops {
		op := &c.Ops[i]
		if op.Obj >= nobj {
			o.Discard = "object index out of range"
			return finish()
		}
		label := fmt.Sprintf("step %d (%s)", i+1, op.JS())
		// dry run on a copy: does the step enter a situation covered by a standing finding?
		trial := m.Clone()
		trial.Preds = map[string]int{}
		_, info := trial.Exec(op, nil, false, shadow)
		skip := ""
		switch {
		case trial.Preds["generic-on-writable-data"] > 0 && known(kGenericWritable):
			skip = kGenericWritable
		case trial.Preds["accessor-to-data-without-value"] > 0 && known(kAccToDataPanic):
			skip = kAccToDataPanic
		case trial.Preds["defineProperties-bad-descriptor-after-good"] > 0 && known(kDefPropsAtomic):
			skip = kDefPropsAtomic
		case info.ShiftingDelete && known(kForInDelete):
			skip = kForInDelete
		case info.ShadowTrigger && shadow:
			skip = kForInShadow
		}
		if skip != "" {
			excluded[skip] = true
			continue
		}
		if !useKnown && info.ChainDelete {
			continue // development cross-check only: V8 re-tests deleted keys with HasProperty, see node_test.go
		}
		if info.Ambiguous {
			classes["forin:ambiguous-skipped"] = true
			continue
		}
		ok := step(label, op.JS(), func(rep *report) (string, string) {
			var visited []string
			if rep.visited != "-" {
				visited = splitList(rep.visited)
			}
			var pre *m07.Model
			if !useKnown {
				pre = m.Clone()
			}
			res, inf := m.Exec(op, visited, op.K == "forin", shadow)
			if inf.Err != "" && !useKnown {
				// development cross-check against an engine with another (ES5-permitted) enumeration order:
				// fall back to comparing the visited names as a set, then continue from the model's state
				*m = *pre
				r2, i2 := m.Exec(op, nil, false, false)
				opt := map[string]bool{}
				for _, n := range i2.Seq {
					opt[n] = true
				}
				var got []string
				for _, n := range visited {
					if !m07.IsIndexLike(n) && (opt[n] || true) {
						got = append(got, n)
					}
				}
				a, b := append([]string(nil), i2.Seq...), got
				sortStrings(a)
				sortStrings(b)
				hasDel := false
				for _, act := range op.Body {
					hasDel = hasDel || act.K == "del"
				}
				// V8 re-tests a key deleted during the loop with HasProperty only, so a name that is still
				// reachable through the chain (even non-enumerable) is visited at its old position
				if hasDel || strings.Join(a, ",") == strings.Join(b, ",") {
					return r2, ""
				}
			}
			if op.K == "forin" && !shadow {
				seen := map[string]bool{}
				for _, n := range visited {
					if seen[n] {
						return res, fmt.Sprintf("for-in visited %q twice (12.6.4): %v", n, visited)
					}
					seen[n] = true
				}
			}
			return res, inf.Err
		})
		if !ok {
			return finish()
		}
	}
	for e := range m.Events {
		classes[e] = true
	}
	o.Nontrivial = m.Events["define:partial-on-existing"] > 0 || m.Events["nonext:put"] > 0 || m.Events["nonext:define"] > 0 ||
		m.Events["nonext:delete"] > 0 || m.Events["put:inherited-accessor"] > 0 || m.Events["put:inherited-readonly"] > 0
	return finish()
}

func sortStrings(s []string) {
	for i := 1; i < len(s); i++ {
		for j := i; j > 0 && s[j] < s[j-1]; j-- {
			s[j], s[j-1] = s[j-1], s[j]
		}
	}
}

// ---- generator -----------------------------------------------------------------------------------------

var (
	alpha    = m07.Names[:m07.NAlpha]
	valPool  = []string{"u", "n", "!t", "!f", "#0", "#-0", "#1", "#2", "#7", "#NaN", "$s", "$"}
	oddBool  = []string{"u", "n", "#0", "#1", "#NaN", "$", "$s", "{}", "#-0"}
	nonCall  = []string{"n", "#5", "$s", "{}", "!t", "!f"}
	nonObjs  = []string{"u", "n", "#1", "$s", "!t"}
	addPool  = []string{"#1", "$z", "#-0", "u"}
	nFamily  = len(m07.FamilySpec)
	maxSteps = harness.N(25, 40)
)

// hotName / hotObj: every case concentrates about half of its operations on one name and one object, so
// that redefinitions of an EXISTING property (where 8.12.9 has its decision paths) are frequent.
var hotName string
var hotObj int

func genName(t *rapid.T) string {
	if hotName != "" && rapid.IntRange(0, 9).Draw(t, "hotname") < 5 {
		return hotName
	}
	if rapid.IntRange(0, 9).Draw(t, "nameclass") < 8 {
		return rapid.SampledFrom(alpha).Draw(t, "name")
	}
	return rapid.SampledFrom(m07.Names[m07.NAlpha:]).Draw(t, "iname")
}

func genVal(t *rapid.T) string { return rapid.SampledFrom(valPool).Draw(t, "val") }

func genBoolRaw(t *rapid.T) string {
	switch rapid.IntRange(0, 7).Draw(t, "boolclass") {
	case 0, 1, 2:
		return "!t"
	case 3, 4, 5:
		return "!f"
	}
	return rapid.SampledFrom(oddBool).Draw(t, "oddbool")
}

func genFnTag(t *rapid.T) string {
	return "F" + fmt.Sprint(rapid.IntRange(0, nFamily-1).Draw(t, "fn"))
}

func genAccRaw(t *rapid.T) string {
	switch rapid.IntRange(0, 9).Draw(t, "accclass") {
	case 0, 1:
		return "u"
	case 2:
		return rapid.SampledFrom(nonCall).Draw(t, "noncallable")
	}
	return genFnTag(t)
}

// genDesc draws an arbitrary partial descriptor: each of the six fields independently present or
// absent (contradictory combinations included), biased so that every shape is frequent.
func genDesc(t *rapid.T) m07.DescSpec {
	var d m07.DescSpec
	mode := rapid.IntRange(0, 25).Draw(t, "descmode")
	if mode == 0 {
		d.NonObject = rapid.SampledFrom(nonObjs).Draw(t, "nonobject")
		return d
	}
	if mode >= 20 { // a single field: reaches 8.12.9 steps 10 and 11 without tripping over 7a/7b first
		f := rapid.SampledFrom([]string{"value", "writable", "get", "set", "enumerable", "configurable"}).Draw(t, "single")
		var v string
		switch f {
		case "value":
			v = genVal(t)
		case "get", "set":
			v = genAccRaw(t)
		default:
			v = genBoolRaw(t)
		}
		d.Fields = []m07.Field{{F: f, V: v}}
		return d
	}
	p := map[string]int{} // presence probability in tenths
	switch {
	case mode <= 5: // generic
		p["enumerable"], p["configurable"] = 6, 6
	case mode <= 11: // data-ish
		p["value"], p["writable"], p["enumerable"], p["configurable"] = 6, 6, 4, 4
	case mode <= 16: // accessor-ish
		p["get"], p["set"], p["enumerable"], p["configurable"] = 6, 6, 4, 4
	default: // anything
		for _, f := range []string{"value", "writable", "get", "set", "enumerable", "configurable"} {
			p[f] = 4
		}
	}
	for _, f := range []string{"value", "writable", "get", "set", "enumerable", "configurable"} {
		if p[f] == 0 || rapid.IntRange(0, 9).Draw(t, "has-"+f) >= p[f] {
			continue
		}
		var v string
		switch f {
		case "value":
			v = genVal(t)
		case "get", "set":
			v = genAccRaw(t)
		default:
			v = genBoolRaw(t)
		}
		d.Fields = append(d.Fields, m07.Field{F: f, V: v})
	}
	d.Inherit = rapid.IntRange(0, 11).Draw(t, "inherit") == 0
	return d
}

func genNamed(t *rapid.T, max int) []m07.NamedDesc {
	n := rapid.IntRange(1, max).Draw(t, "nprops")
	names := rapid.Permutation(alpha).Draw(t, "propnames")
	var out []m07.NamedDesc
	for i := 0; i < n && i < len(names); i++ {
		out = append(out, m07.NamedDesc{Name: names[i], Desc: genDesc(t)})
	}
	return out
}

func genObj(t *rapid.T, k int) m07.ObjInit {
	kind := rapid.IntRange(0, 9).Draw(t, "objkind")
	proto := -2
	if k > 0 && rapid.IntRange(0, 9).Draw(t, "chain") < 7 {
		proto = rapid.IntRange(0, k-1).Draw(t, "proto")
	} else if rapid.IntRange(0, 3).Draw(t, "nullproto") == 0 {
		proto = -1
	}
	switch {
	case kind < 3 || (kind < 5 && proto == -2): // literal (prototype is always Object.prototype)
		oi := m07.ObjInit{Kind: "lit", Proto: -2}
		n := rapid.IntRange(0, 3).Draw(t, "nlit")
		names := rapid.Permutation(m07.Names).Draw(t, "litnames")
		for i := 0; i < n; i++ {
			switch rapid.IntRange(0, 5).Draw(t, "litkind") {
			case 0:
				oi.Lit = append(oi.Lit, m07.LitProp{Name: names[i], K: "g", V: genFnTag(t)})
			case 1:
				oi.Lit = append(oi.Lit, m07.LitProp{Name: names[i], K: "s", V: genFnTag(t)})
			case 2:
				oi.Lit = append(oi.Lit, m07.LitProp{Name: names[i], K: "g", V: genFnTag(t)}, m07.LitProp{Name: names[i], K: "s", V: genFnTag(t)})
			default:
				oi.Lit = append(oi.Lit, m07.LitProp{Name: names[i], K: "v", V: genVal(t)})
			}
		}
		return oi
	case kind < 8 || proto < 0: // Object.create
		oi := m07.ObjInit{Kind: "create", Proto: proto}
		if rapid.IntRange(0, 2).Draw(t, "withprops") > 0 {
			oi.Props = genNamed(t, 3)
		}
		return oi
	default: // constructor instance, prototype = an earlier object
		oi := m07.ObjInit{Kind: "ctor", Proto: proto}
		n := rapid.IntRange(0, 2).Draw(t, "nassign")
		for i := 0; i < n; i++ {
			oi.Lit = append(oi.Lit, m07.LitProp{Name: genName(t), K: "v", V: genVal(t)})
		}
		return oi
	}
}

func genOp(t *rapid.T, nobj int) m07.Op {
	op := m07.Op{Obj: rapid.IntRange(0, nobj-1).Draw(t, "obj")}
	if rapid.IntRange(0, 9).Draw(t, "hotobj") < 4 {
		op.Obj = hotObj
	}
	w := rapid.IntRange(0, 99).Draw(t, "opkind")
	switch {
	case w < 20:
		op.K, op.Name, op.V = "set", genName(t), genVal(t)
	case w < 26:
		op.K, op.Name, op.V = "cset", genName(t), rapid.SampledFrom(addPool).Draw(t, "addend")
	case w < 36:
		op.K, op.Name = "del", genName(t)
	case w < 70:
		d := genDesc(t)
		op.K, op.Name, op.Desc = "defp", genName(t), &d
	case w < 76:
		op.K, op.Props = "defps", genNamed(t, 3)
	case w < 78:
		op.K = "freeze"
	case w < 80:
		op.K = "seal"
	case w < 84:
		op.K = "pe"
	case w < 98:
		op.K = "forin"
		n := rapid.IntRange(1, 3).Draw(t, "nacts")
		var ons []string
		for i := 0; i < n; i++ {
			ons = append(ons, rapid.SampledFrom(alpha).Draw(t, "on"))
		}
		for i := 0; i < n; i++ {
			a := m07.BodyAct{On: ons[i], K: "del", Obj: op.Obj}
			if rapid.IntRange(0, 1).Draw(t, "otherobj") == 0 {
				a.Obj = rapid.IntRange(0, nobj-1).Draw(t, "actobj")
			}
			var free []string
			for _, n := range alpha {
				isOn := false
				for _, x := range ons {
					isOn = isOn || x == n
				}
				if !isOn {
					free = append(free, n)
				}
			}
			if len(free) > 0 && rapid.IntRange(0, 9).Draw(t, "actkind") < 4 {
				a.K, a.Name, a.V = "set", rapid.SampledFrom(free).Draw(t, "actname"), genVal(t)
			} else {
				a.Name = rapid.SampledFrom(alpha).Draw(t, "delname")
			}
			op.Body = append(op.Body, a)
		}
	default:
		op.K = "obs"
	}
	return op
}

func genCase(t *rapid.T) Case {
	var c Case
	hotName = ""
	nobj := rapid.IntRange(3, 4).Draw(t, "nobj")
	for k := 0; k < nobj; k++ {
		c.Objs = append(c.Objs, genObj(t, k))
	}
	hotObj = rapid.IntRange(0, nobj-1).Draw(t, "hotobj")
	hotName = rapid.SampledFrom(m07.Names).Draw(t, "hotname")
	n := rapid.IntRange(1, maxSteps).Draw(t, "nsteps")
	for i := 0; i < n; i++ {
		c.Ops = append(c.Ops, genOp(t, nobj))
	}
	return c
}

var historyFacet = harness.Register(&harness.Facet[Case]{
	Name:  "history",
	Rule:  "rapid: 3-4 objects (object literals with data members and get/set accessors, Object.create(p|null|Object.prototype, descriptors), constructor instances) linked by prototype chains, then a history of 1..25 (quick) / 1..40 (thorough) steps over names {a,b,c,x} (order-sensitive) and {0,1,10} (contents only): assignment, compound assignment, delete, Object.defineProperty with an arbitrary partial descriptor (each of value/writable/enumerable/configurable/get/set independently present or absent, contradictory mixes, get/set explicitly undefined or non-callable, non-boolean flags, fields inherited by the descriptor object, non-object descriptors), defineProperties, freeze, seal, preventExtensions, for-in whose body deletes/assigns properties when it meets given keys; getters/setters come from a family of 8 logging functions (constant, this[name] read/write, hidden slot, throwing). After EVERY step all observations (o[n], own descriptor, in, hasOwnProperty, propertyIsEnumerable for every object x name; keys, getOwnPropertyNames, for-in sequence, isFrozen/isSealed/isExtensible, getPrototypeOf per object; result/TypeError of the step; invocation log) are compared with the ES5.1 8.12/8.10/15.2.3/12.6.4 model and the history invariants are asserted on otto's own observations. non-trivial = the history contains a defineProperty/defineProperties on an EXISTING property with a partial descriptor, or an operation on a non-extensible object, or an assignment decided by an inherited accessor or inherited read-only property; distinct by the JSON of the whole case (objects + operation sequence)",
	Quick: 1500, Thorough: 5000,
	Gen:   genCase,
	Check: checkCase,
})

func TestHistory(t *testing.T) { historyFacet.Run(t) }
