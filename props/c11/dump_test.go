package c11

// Development-time aid (NOT part of the check): with C11_DUMP=<dir> set, writes generated cases
// together with the model's expectations as JSON lines, so that the model can be cross-checked
// against another engine on the sub-domain where ES5.1 and later editions agree. Without the
// variable the test does nothing.

import (
	"encoding/json"
	"fmt"
	"math"
	"os"
	"path/filepath"
	"sort"
	"strings"
	"testing"

	"pgregory.net/rapid"

	"verif/lib/harness"
	"verif/lib/m11"
)

func dumpJV(v *m11.JV) string {
	if v == nil {
		return "H"
	}
	switch v.K {
	case m11.JUndef:
		return "U"
	case m11.JNull:
		return "N"
	case m11.JBool:
		if v.B {
			return "T"
		}
		return "F"
	case m11.JNum:
		if math.IsNaN(v.N) {
			return "n:NaN"
		}
		return fmt.Sprintf("n:%016x", math.Float64bits(v.N))
	case m11.JStr:
		return "s:" + hex16(v.S)
	case m11.JArr:
		p := make([]string, len(v.Arr))
		for i, e := range v.Arr {
			p[i] = dumpJV(e)
		}
		return "[" + strings.Join(p, ",") + "]"
	}
	p := make([]string, len(v.Obj))
	for i, m := range v.Obj {
		p[i] = hex16(m.Key) + "=" + dumpJV(m.Val)
	}
	sort.Strings(p)
	return "{" + strings.Join(p, ",") + "}"
}

func hex16(u []uint16) string {
	var b strings.Builder
	for _, c := range u {
		fmt.Fprintf(&b, "%04x", c)
	}
	return b.String()
}

func TestDumpForCrossCheck(t *testing.T) {
	dir := os.Getenv("C11_DUMP")
	if dir == "" {
		t.Skip("development aid; set C11_DUMP=<dir>")
	}
	open := func(name string) *os.File {
		f, err := os.Create(filepath.Join(dir, name))
		if err != nil {
			t.Fatal(err)
		}
		return f
	}
	fp, fr, fs := open("parse.jsonl"), open("reviver.jsonl"), open("stringify.jsonl")
	defer fp.Close()
	defer fr.Close()
	defer fs.Close()
	w := func(f *os.File, v interface{}) {
		b, _ := json.Marshal(v)
		f.Write(append(b, '\n'))
	}
	rapid.Check(t, func(rt *rapid.T) {
		// parse: valid and mutated
		vc := parseValid.Gen(rt)
		mc := parseMutated.Gen(rt)
		for _, text := range [][]uint16{vc.Text, mc.Text} {
			if m11.HasLone(text) {
				continue
			}
			e := expect(text)
			rec := map[string]interface{}{"text": text, "valid": e.valid}
			if e.valid {
				rec["value"] = dumpJV(e.want)
			}
			w(fp, rec)
		}
		// reviver
		rc := parseReviver.Gen(rt)
		e := expect(rc.Text)
		want, tree, _ := rc.Reviver.Revive(e.want)
		var entries []string
		var walk func(n *m11.RevLog)
		walk = func(n *m11.RevLog) {
			for _, c := range n.Children {
				walk(c)
			}
			entries = append(entries, n.Entry.String())
		}
		walk(tree)
		w(fr, map[string]interface{}{"text": rc.Text, "reviver": rc.Reviver.JS(harness.JSString16), "value": dumpJV(want), "calls": len(entries)})
		// stringify
		sc := stringifyFacet.Gen(rt)
		res := m11.Stringify(sc.Value, sc.Rep, sc.Space)
		rec := map[string]interface{}{"script": buildStringifyJS(sc), "throws": res.Throws, "undefined": res.Undefined}
		if res.Ser != nil {
			rec["text"] = res.Ser.Text(res.Gap)
		}
		var calls [][]interface{}
		var flat func(n *m11.CallTree)
		flat = func(n *m11.CallTree) {
			for _, e := range n.Own {
				calls = append(calls, []interface{}{e.Kind, e.Key, e.Class})
			}
			for _, c := range n.Children {
				flat(c)
			}
		}
		flat(res.Calls)
		rec["calls"] = calls
		w(fs, rec)
	})
}
