package c11

import (
	"fmt"
	"strconv"
	"strings"
	"testing"

	"github.com/robertkrimen/otto"
	"pgregory.net/rapid"

	"verif/lib/harness"
	"verif/lib/m11"
)

// ---- facet: parse with a reviver (15.12.2 Walk) ------------------------------------------------------

type reviverCase struct {
	Text    []uint16     `json:"text"`
	Reviver *m11.Reviver `json:"reviver"`
}

func arrItem(o *otto.Object, i int) otto.Value {
	v, err := o.Get(strconv.Itoa(i))
	if err != nil {
		panic(err)
	}
	return v
}

func arrLen(o *otto.Object) int {
	v, err := o.Get("length")
	if err != nil {
		panic(err)
	}
	f, _ := v.ToFloat()
	return int(f)
}

func str16(v otto.Value) []uint16 {
	s, _ := v.ToString()
	return harness.UTF16(s)
}

func readRevLog(v otto.Value) ([]m11.RevEntry, error) {
	if !v.IsObject() || v.Object().Class() != "Array" {
		return nil, fmt.Errorf("log is not an array")
	}
	lo := v.Object()
	var out []m11.RevEntry
	for i := 0; i < arrLen(lo); i++ {
		ev := arrItem(lo, i)
		if !ev.IsObject() {
			return nil, fmt.Errorf("log entry %d is not an array", i)
		}
		eo := ev.Object()
		e := m11.RevEntry{Key: str16(arrItem(eo, 0))}
		if !arrItem(eo, 0).IsString() {
			return nil, fmt.Errorf("log entry %d: the key argument is not a string but %s", i, harness.Repr(arrItem(eo, 0)))
		}
		switch c, _ := arrItem(eo, 1).ToString(); c {
		case "[object Array]":
			e.HolderArr = true
		case "[object Object]":
		default:
			return nil, fmt.Errorf("log entry %d: the holder (this) has class %s", i, c)
		}
		e.Kind, _ = arrItem(eo, 2).ToString()
		switch e.Kind {
		case "boolean":
			e.B, _ = arrItem(eo, 3).ToBoolean()
		case "number":
			e.N, _ = arrItem(eo, 3).ToFloat()
		case "string":
			e.S = str16(arrItem(eo, 3))
		case "array":
			f, _ := arrItem(eo, 3).ToFloat()
			g, _ := arrItem(eo, 4).ToFloat()
			e.Len, e.Keys = int(f), int(g)
		case "object":
			g, _ := arrItem(eo, 3).ToFloat()
			e.Keys = int(g)
		}
		out = append(out, e)
	}
	return out, nil
}

// Names that Object.prototype defines: after such a member is deleted, Walk's [[Get]] finds the inherited function
// instead of undefined. The model has no prototype chain for parsed objects, so these are not used as DelKey.
var objectProtoNames = map[string]bool{"constructor": true, "toString": true, "toLocaleString": true, "valueOf": true, "hasOwnProperty": true, "isPrototypeOf": true, "propertyIsEnumerable": true, "__proto__": true, "__defineGetter__": true, "__defineSetter__": true, "__lookupGetter__": true, "__lookupSetter__": true}

func isProtoName(k *[]uint16) bool {
	if k == nil {
		return false
	}
	s, _ := harness.FromUTF16(*k)
	return objectProtoNames[s]
}

func checkReviver(c reviverCase) harness.Outcome {
	o := harness.Outcome{}
	if isProtoName(c.Reviver.DelKey) {
		o.Discard = "DelKey names an Object.prototype property (inherited lookups after deletion are not modelled)"
		return o
	}
	e := expect(c.Text)
	if !e.valid {
		o.Fail = fmt.Sprintf("HARNESS MODEL INCONSISTENT: reviver facet got an invalid text %s: %v", m11.ShowText(c.Text), e.err)
		return o
	}
	rv := c.Reviver
	if rv.NonCallable != "" {
		return checkNonCallableReviver(c, e)
	}
	want, tree, flags := rv.Revive(e.want)
	orderDep := flags.OrderDependent
	o.Nontrivial = e.stats.Containers > 0 && (rv.Drop != nil || rv.Wrap != nil || rv.Neg || rv.ArrLen || rv.DelKey != nil)
	add := func(cond bool, name string) {
		if cond {
			o.Classes = append(o.Classes, name)
		}
	}
	add(rv.Drop != nil, "drop-by-key")
	add(rv.Wrap != nil, "wrap-by-key")
	add(rv.Neg, "negate-numbers")
	add(rv.ArrLen, "array-to-length")
	add(rv.DelKey != nil, "delete-other-member")
	add(orderDep, "sibling-deleted-in-object")
	add(rv.Drop == nil && rv.Wrap == nil && !rv.Neg && !rv.ArrLen && rv.DelKey == nil, "identity(log only)")
	add(flags.ObjectDeletion, "deletion-from-object")
	add(flags.ArrayDeletion, "deletion-from-array(hole)")
	add(want.K == m11.JUndef, "result-undefined")
	add(e.stats.Depth >= 3, "depth>=3")

	if flags.ObjectDeletion && harness.Known(kRevEnum) {
		// the traversal of an object derails as soon as one of its properties is deleted during Walk: members are skipped, so
		// neither the result nor the log is comparable; everything without such a deletion is checked in full
		o.Excluded = append(o.Excluded, kRevEnum)
		return o
	}
	text, ok := goText(c.Text)
	if !ok {
		o.Discard = "raw lone surrogate in the text"
		return o
	}
	v := getVM()
	if err := v.Set("__t", text); err != nil {
		panic(err)
	}
	src := "(function(){var __log=[];var r=JSON.parse(__t," + rv.JS(harness.JSString16) + ");return [r,__log]})()"
	r := harness.Run(v, src)
	if bad := describeErr(r); bad != "" {
		o.Fail = fmt.Sprintf("JSON.parse(%s, reviver) fails: %s; reviver %s", m11.ShowText(c.Text), bad, rv.JS(harness.JSString16))
		return o
	}
	ro := r.Value.Object()
	got, err := readJV(arrItem(ro, 0), 0)
	if err != nil {
		o.Fail = fmt.Sprintf("JSON.parse(%s, reviver): unreadable result: %v", m11.ShowText(c.Text), err)
		return o
	}
	if d := m11.DiffJV(want, got); d != "" {
		o.Fail = fmt.Sprintf("JSON.parse(%s, reviver) result differs from 15.12.2 Walk (bottom-up, delete on undefined): %s; reviver %s", m11.ShowText(c.Text), d, rv.JS(harness.JSString16))
		return o
	}
	log, err := readRevLog(arrItem(ro, 1))
	if err != nil {
		o.Fail = fmt.Sprintf("JSON.parse(%s, reviver): %v", m11.ShowText(c.Text), err)
		return o
	}
	_ = orderDep
	if d := m11.MatchRevLog(tree, log); d != "" {
		var ls []string
		for _, x := range log {
			ls = append(ls, x.String())
		}
		o.Fail = fmt.Sprintf("JSON.parse(%s, reviver): the reviver calls are not those of 15.12.2 Walk (members before their holder, array indices ascending, every member of the key list exactly once): %s; calls made: %s; reviver %s", m11.ShowText(c.Text), d, strings.Join(ls, " "), rv.JS(harness.JSString16))
	}
	return o
}

var nonCallables = []string{"{}", "5", "null", "\"f\"", "[]", "true", "({call:function(){}})", "new String(\"function(){}\")"}

func checkNonCallableReviver(c reviverCase, e expectation) harness.Outcome {
	o := harness.Outcome{Classes: []string{"reviver-not-callable"}, Nontrivial: e.stats.Containers > 0}
	ok := false
	for _, n := range nonCallables {
		if n == c.Reviver.NonCallable {
			ok = true
		}
	}
	if !ok {
		o.Discard = "unknown non-callable expression"
		return o
	}
	text, good := goText(c.Text)
	if !good {
		o.Discard = "raw lone surrogate in the text"
		return o
	}
	v := getVM()
	if err := v.Set("__t", text); err != nil {
		panic(err)
	}
	r := harness.Run(v, "JSON.parse(__t,"+c.Reviver.NonCallable+")")
	if bad := describeErr(r); bad != "" {
		o.Fail = fmt.Sprintf("JSON.parse(%s, %s) fails: %s; a reviver that is not callable is ignored (15.12.2 step 4)", m11.ShowText(c.Text), c.Reviver.NonCallable, bad)
		return o
	}
	got, err := readJV(r.Value, 0)
	if err == nil {
		if d := m11.DiffJV(e.want, got); d != "" {
			err = fmt.Errorf("%s", d)
		}
	}
	if err != nil {
		o.Fail = fmt.Sprintf("JSON.parse(%s, %s) differs from the plain parse: %v; a reviver that is not callable is ignored (15.12.2 step 4)", m11.ShowText(c.Text), c.Reviver.NonCallable, err)
	}
	return o
}

func collectKeys(n *m11.Node, out *[][]uint16) {
	switch n.K {
	case m11.Arr:
		for _, e := range n.Arr {
			collectKeys(e, out)
		}
	case m11.Obj:
		for _, m := range n.Obj {
			*out = append(*out, m.Key)
			collectKeys(m.Val, out)
		}
	}
}

func genKeyFrom(t *rapid.T, pool [][]uint16, label string) *[]uint16 {
	k := rapid.SampledFrom(pool).Draw(t, label)
	return &k
}

var parseReviver = harness.Register(&harness.Facet[reviverCase]{
	Name: "parse-reviver",
	Rule: "rapid: valid rendering of a tree (depth ≤ 4, no lone surrogates) parsed with a generated reviver from the family {not callable (ignored), log only, drop by key, wrap by key, negate numbers, replace arrays by their length, delete another member of the holder} (keys drawn from the tree's own keys, array indices and \"\"); every call is logged as (key, class of this, value summary incl. key counts of containers); oracle = model of 15.12.2 Walk: result compared deeply (holes, deletions), log matched as a post-order traversal (array indices ascending, object members in any order); non-trivial = tree has a container and the reviver changes something; distinct by (text, reviver)",
	Quick: 10000, Thorough: 60000,
	Gen: func(t *rapid.T) reviverCase {
		tree := m11.GenTree(t, m11.TreeOpts{MaxDepth: 4, MaxNodes: 24})
		text := m11.Render(t, tree, m11.Style(rapid.IntRange(0, 1).Draw(t, "style")))
		pool := [][]uint16{m11.ASCII(""), m11.ASCII("0"), m11.ASCII("1"), m11.ASCII("2")}
		collectKeys(tree, &pool)
		rv := &m11.Reviver{}
		if rapid.IntRange(0, 19).Draw(t, "noncallable") == 0 {
			rv.NonCallable = rapid.SampledFrom(nonCallables).Draw(t, "nc")
			return reviverCase{Text: text, Reviver: rv}
		}
		if rapid.IntRange(0, 2).Draw(t, "drop") == 0 {
			rv.Drop = genKeyFrom(t, pool, "dropkey")
		}
		if rapid.IntRange(0, 3).Draw(t, "wrap") == 0 {
			rv.Wrap = genKeyFrom(t, pool, "wrapkey")
		}
		rv.Neg = rapid.IntRange(0, 2).Draw(t, "neg") == 0
		rv.ArrLen = rapid.IntRange(0, 3).Draw(t, "arrlen") == 0
		if rapid.IntRange(0, 3).Draw(t, "del") == 0 {
			rv.DelWhen = genKeyFrom(t, pool, "delwhen")
			rv.DelKey = genKeyFrom(t, pool, "delkey")
			if isProtoName(rv.DelKey) {
				rv.DelKey, rv.DelWhen = nil, nil
			}
		}
		return reviverCase{Text: text, Reviver: rv}
	},
	Check: checkReviver,
})

func TestParseReviver(t *testing.T) { parseReviver.Run(t) }

// ---- facet: stringify (15.12.3) ---------------------------------------------------------------------------

type stringifyCase struct {
	Value *m11.SV       `json:"value"`
	Rep   *m11.Replacer `json:"replacer"`
	Space *m11.Space    `json:"space"`
}

func buildStringifyJS(c stringifyCase) string {
	b := &m11.Builder{Quote: harness.JSString16}
	val := b.Expr(c.Value)
	rep := b.ReplacerExpr(c.Rep)
	sp := b.SpaceExpr(c.Space)
	return "(function(){var __log=[];var __out;\n" + b.Stmts.String() +
		"try{__out=[\"ok\",JSON.stringify(" + val + "," + rep + "," + sp + ")]}" +
		"catch(e){__out=[\"throw\",e instanceof TypeError?\"TypeError\":e instanceof RangeError?\"RangeError\":(\"other:\"+e)]}\n" +
		"return [__out,__log]})()"
}

func readCallLog(v otto.Value) ([]m11.LogEntry, error) {
	lo := v.Object()
	var out []m11.LogEntry
	for i := 0; i < arrLen(lo); i++ {
		eo := arrItem(lo, i).Object()
		kind, _ := arrItem(eo, 0).ToString()
		switch kind {
		case "tj":
			if !arrItem(eo, 1).IsString() {
				return nil, fmt.Errorf("call %d: toJSON received a key that is not a string: %s", i, harness.Repr(arrItem(eo, 1)))
			}
			out = append(out, m11.LogEntry{Kind: "tj", Key: str16(arrItem(eo, 1))})
		case "rp":
			cls, _ := arrItem(eo, 1).ToString()
			if !arrItem(eo, 2).IsString() {
				return nil, fmt.Errorf("call %d: the replacer received a key that is not a string: %s", i, harness.Repr(arrItem(eo, 2)))
			}
			e := m11.LogEntry{Kind: "rp", Class: cls, Key: str16(arrItem(eo, 2))}
			k, _ := arrItem(eo, 3).ToString()
			switch k {
			case "boolean":
				b, _ := arrItem(eo, 4).ToBoolean()
				e.Val = m11.Summary(k, b, 0, nil, "")
			case "number":
				f, _ := arrItem(eo, 4).ToFloat()
				e.Val = m11.Summary(k, false, f, nil, "")
			case "string":
				e.Val = m11.Summary(k, false, 0, str16(arrItem(eo, 4)), "")
			case "object":
				cl, _ := arrItem(eo, 4).ToString()
				e.Val = m11.Summary(k, false, 0, nil, cl)
			default:
				e.Val = k
			}
			out = append(out, e)
		default:
			return nil, fmt.Errorf("call %d: unknown log entry %q", i, kind)
		}
	}
	return out, nil
}

func serHasHTML(s *m11.Ser) bool {
	has := func(u []uint16) bool {
		for _, c := range u {
			if c == '<' || c == '>' || c == '&' || c == 0x2028 || c == 0x2029 {
				return true
			}
		}
		return false
	}
	switch s.K {
	case "str":
		return has(s.S)
	case "arr":
		for _, e := range s.Arr {
			if serHasHTML(e) {
				return true
			}
		}
	case "obj":
		for i, k := range s.Keys {
			if has(k) || serHasHTML(s.Vals[i]) {
				return true
			}
		}
	}
	return false
}

func serHasBigInt(s *m11.Ser) bool {
	switch s.K {
	case "lit":
		return m11.LitIsBigInt(s.Lit)
	case "arr":
		for _, e := range s.Arr {
			if serHasBigInt(e) {
				return true
			}
		}
	case "obj":
		for _, v := range s.Vals {
			if serHasBigInt(v) {
				return true
			}
		}
	}
	return false
}

func allJSONWhite(u []uint16) bool {
	for _, c := range u {
		if c != 0x20 && c != 0x09 && c != 0x0A && c != 0x0D {
			return false
		}
	}
	return true
}

func utf8Len(u []uint16) int {
	s, _ := harness.FromUTF16(u)
	return len(s)
}

func serHasContainerWithMembers(s *m11.Ser) bool {
	switch s.K {
	case "arr":
		return len(s.Arr) > 0
	case "obj":
		return len(s.Keys) > 0
	}
	return false
}

func checkStringify(c stringifyCase) harness.Outcome {
	o := harness.Outcome{}
	if c.Rep == nil {
		c.Rep = &m11.Replacer{Kind: "none"}
	}
	if c.Space == nil {
		c.Space = &m11.Space{Kind: "none"}
	}
	res := m11.Stringify(c.Value, c.Rep, c.Space)
	add := func(cond bool, name string) {
		if cond {
			o.Classes = append(o.Classes, name)
		}
	}
	o.Nontrivial = res.UsedToJSON || res.UsedReplacer || res.Unboxed || res.Omitted || res.NullInArray || res.PropList != nil
	add(true, "replacer:"+c.Rep.Kind)
	add(true, "space:"+c.Space.Kind)
	add(res.Throws != "", "throws:"+res.Throws)
	add(res.Undefined, "result-undefined")
	add(res.UsedToJSON, "toJSON-called")
	add(res.Unboxed, "wrapper-unboxed")
	add(res.Omitted, "member-omitted")
	add(res.NullInArray, "null-in-array")
	add(res.NonFinite, "non-finite→null")
	add(res.Inherited, "inherited-member-read")
	add(res.Hidden, "non-enumerable-member-read")
	add(res.Getter, "getter-read")
	add(res.Shared, "shared-acyclic-reference")
	add(res.ListIrregular, "property-list-with-rejected-entries")
	add(len(res.Gap) > 0, "gap:"+strconv.Itoa(len(res.Gap)))
	add(len(res.Gap) > 0 && !allJSONWhite(res.Gap), "gap-not-white-space")

	if m11.HasLone(res.Gap) {
		// the cut after 10 code units fell between the halves of a surrogate pair: the expected gap ends with a lone high
		// surrogate, which otto's UTF-8 store can only hold as U+FFFD (same length)
		o.Classes = append(o.Classes, "gap-cut-inside-surrogate-pair")
		if harness.Known(kLone) {
			res.Gap = m11.MapLone16(res.Gap)
			o.Excluded = append(o.Excluded, kLone)
		}
	}
	for _, u := range c.Space.S {
		if u >= 0xD800 && u < 0xDC00 {
			o.Classes = append(o.Classes, "space-string-with-astral")
			break
		}
	}
	if res.ListIrregular && harness.Known(kPropList) {
		o.Excluded = append(o.Excluded, kPropList)
		return o
	}
	if (c.Space.Kind == "str" || c.Space.Kind == "wstr") && utf8Len(c.Space.S) > 10 && utf8Len(c.Space.S) != len(c.Space.S) && harness.Known(kGapBytes) {
		// the gap is cut to 10 bytes: only strings longer than 10 bytes containing a non-ASCII character are affected
		o.Excluded = append(o.Excluded, kGapBytes)
		return o
	}

	src := buildStringifyJS(c)
	r := harness.Run(getVM(), src)
	if bad := describeErr(r); bad != "" {
		o.Fail = fmt.Sprintf("harness script failed: %s\n%s", bad, src)
		return o
	}
	ro := r.Value.Object()
	outO := arrItem(ro, 0).Object()
	status, _ := arrItem(outO, 0).ToString()
	resV := arrItem(outO, 1)
	fail := func(f string, a ...interface{}) harness.Outcome {
		o.Fail = fmt.Sprintf(f, a...) + "\nscript: " + src
		return o
	}
	if status == "throw" {
		name, _ := resV.ToString()
		if res.Throws == "" {
			return fail("JSON.stringify throws %s; 15.12.3 gives %s", name, modelDesc(res))
		}
		if name != res.Throws {
			return fail("JSON.stringify throws %s; 15.12.3 requires %s", name, res.Throws)
		}
		return o
	}
	if res.Throws != "" {
		return fail("JSON.stringify returns %s; 15.12.3 requires a %s (cycle: JO/JA step 1; or an exception thrown by toJSON)", harness.Repr(resV), res.Throws)
	}
	if res.Undefined {
		if !resV.IsUndefined() {
			return fail("JSON.stringify returns %s; 15.12.3 Str step 11 gives undefined", harness.Repr(resV))
		}
	} else {
		if !resV.IsString() {
			return fail("JSON.stringify returns %s; 15.12.3 gives the text %s", harness.Repr(resV), m11.ShowText(res.Ser.Text(res.Gap)))
		}
		text := str16(resV)
		opts := m11.MatchOpts{}
		if serHasHTML(res.Ser) {
			o.Classes = append(o.Classes, "has < > & U+2028/9")
			if harness.Known(kEscapes) {
				opts.HTMLEscapes = true
				o.Excluded = append(o.Excluded, kEscapes)
			}
		}
		if serHasBigInt(res.Ser) {
			o.Classes = append(o.Classes, "integral number in [2^53, 2^63)")
			if harness.Known(kIntDigits) {
				opts.IntDigits = true
				o.Excluded = append(o.Excluded, kIntDigits)
			}
		}
		// (1) the output is a JSONText for the model's own reader and denotes the model's serialisation (when the gap is white space)
		if allJSONWhite(res.Gap) {
			p, err := m11.Parse(text)
			if err != nil {
				return fail("JSON.stringify output is not a JSONText: %v; output %s", err, m11.ShowText(text))
			}
			if d := m11.Diff(res.Ser.Node(), p.Value.Dedupe()); d != "" {
				return fail("JSON.stringify output does not denote the ES5 serialisation: %s; output %s; 15.12.3 gives %s", d, m11.ShowText(text), m11.ShowText(res.Ser.Text(res.Gap)))
			}
			if len(p.Value.Dedupe().Obj) != len(p.Value.Obj) {
				return fail("JSON.stringify output repeats a member name: %s", m11.ShowText(text))
			}
		}
		// (2) exact layout and spelling, member order free
		if d := m11.MatchText(text, res.Ser, res.Gap, opts); d != "" {
			return fail("JSON.stringify output differs from 15.12.3 (gap %s): %s; output %s; 15.12.3 gives (up to member order) %s", m11.ShowText(res.Gap), d, m11.ShowText(text), m11.ShowText(res.Ser.Text(res.Gap)))
		}
	}
	// (3) the calls made to toJSON and to the replacer function
	log, err := readCallLog(arrItem(ro, 1))
	if err != nil {
		return fail("JSON.stringify: %v", err)
	}
	if d := m11.MatchCalls(res.Calls, log); d != "" {
		var ls []string
		for _, x := range log {
			ls = append(ls, x.String())
		}
		return fail("JSON.stringify: the toJSON/replacer calls are not those of 15.12.3 Str (toJSON(key) first, then replacer(holder, key, value), holder before members, arrays ascending, property list order): %s; calls made: %s", d, strings.Join(ls, " "))
	}
	return o
}

func modelDesc(res *m11.StringifyResult) string {
	switch {
	case res.Throws != "":
		return "a " + res.Throws
	case res.Undefined:
		return "undefined"
	}
	return "the text " + m11.ShowText(res.Ser.Text(res.Gap))
}

var stringifyFacet = harness.Register(&harness.Facet[stringifyCase]{
	Name: "stringify",
	Rule: "rapid: value graph built by generated script (primitives incl. NaN/±Infinity/−0/undefined, functions, Number/String/Boolean wrappers with overridden valueOf/toString, Dates, arrays with holes and extra named members, objects with own / non-enumerable / getter / inherited members, toJSON own / inherited / non-callable returning a constant, the key, this, or throwing; shared references; cycles direct, through arrays, through toJSON and through the replacer) × replacer (none, function {log, drop by key, substitute by key, double numbers}, property list with duplicates / numbers / wrappers / junk / holes, non-callable) × space (−1…12, 3.7, NaN, ±Infinity, strings of length 0…12 over white space / ASCII / non-ASCII, wrappers, ignored values); oracle = model of 15.12.3 (Str, Quote, JO, JA): TypeError/RangeError/undefined as the model says, output accepted by the model's own reader and denoting the model's serialisation, exact layout (indent = depth × gap, gap ≤ 10), exact Quote/ToString spellings, member order free, call log of toJSON/replacer matched; non-trivial = toJSON, replacer, wrapper, omitted member or null-in-array involved; distinct by case",
	Quick: 20000, Thorough: 150000,
	Gen: func(t *rapid.T) stringifyCase {
		abrupt := rapid.SampledFrom([]string{"", "", "", "", "", "", "cycle", "cycle", "throw", "throw"}).Draw(t, "abrupt")
		val, next, done := m11.GenSV(t, m11.SVOpts{MaxDepth: 3, Abrupt: abrupt}, 1, nil)
		rep := m11.GenReplacer(t, abrupt, next, done)
		return stringifyCase{Value: val, Rep: rep, Space: m11.GenSpace(t)}
	},
	Check: checkStringify,
})

func TestStringify(t *testing.T) { stringifyFacet.Run(t) }

// ---- facet: laws and the Go side ---------------------------------------------------------------------------

type lawCase struct {
	Tree *m11.Enc `json:"tree"`
	Text []uint16 `json:"text"`
}

// literal renders a (deduplicated) tree as an ES5 expression, independent of JSON.parse.
func literal(n *m11.Node, b *strings.Builder) {
	switch n.K {
	case m11.Null:
		b.WriteString("null")
	case m11.Bool:
		b.WriteString(strconv.FormatBool(n.B))
	case m11.Num:
		l := harness.NumLit(n.N)
		if strings.HasPrefix(l, "-") {
			l = "(" + l + ")"
		}
		b.WriteString(l)
	case m11.Str:
		b.WriteString(harness.JSString16(n.S))
	case m11.Arr:
		b.WriteString("[")
		for i, e := range n.Arr {
			if i > 0 {
				b.WriteString(",")
			}
			literal(e, b)
		}
		b.WriteString("]")
	case m11.Obj:
		b.WriteString("{")
		for i, m := range n.Obj {
			if i > 0 {
				b.WriteString(",")
			}
			b.WriteString(harness.JSString16(m.Key))
			b.WriteString(":")
			literal(m.Val, b)
		}
		b.WriteString("}")
	}
}

func checkLaws(c lawCase) harness.Outcome {
	o := harness.Outcome{}
	e := expect(c.Text)
	if !e.valid {
		o.Fail = fmt.Sprintf("HARNESS MODEL INCONSISTENT: invalid rendering %s: %v", m11.ShowText(c.Text), e.err)
		return o
	}
	o.Nontrivial = nontrivialTree(e.stats)
	o.Classes = treeClasses(e.stats)
	want := e.node.NormZero() // −0 is serialised as "0" (9.8.1), so it is not transported
	wantJV := m11.FromNode(want)
	text, ok := goText(c.Text)
	if !ok {
		o.Discard = "raw lone surrogate"
		return o
	}
	v := getVM()
	// law 1: parse(stringify(v)) ≅ v, v built from an ES5 literal
	var lit strings.Builder
	literal(e.node, &lit)
	r := harness.Run(v, "JSON.parse(JSON.stringify(("+lit.String()+")))")
	if bad := describeErr(r); bad != "" {
		o.Fail = fmt.Sprintf("JSON.parse(JSON.stringify(v)) fails: %s; v = %s", bad, lit.String())
		return o
	}
	got, err := readJV(r.Value, 0)
	if err == nil {
		if d := m11.DiffJV(wantJV, got); d != "" {
			err = fmt.Errorf("%s", d)
		}
	}
	if err != nil {
		o.Fail = fmt.Sprintf("JSON.parse(JSON.stringify(v)) is not structurally equal to v: %v; v = %s", err, lit.String())
		return o
	}
	// law 2: stringify(parse(t)) denotes the same value as t
	if err := v.Set("__t", text); err != nil {
		panic(err)
	}
	r = harness.Run(v, "JSON.stringify(JSON.parse(__t))")
	if bad := describeErr(r); bad != "" {
		o.Fail = fmt.Sprintf("JSON.stringify(JSON.parse(t)) fails: %s; t = %s", bad, m11.ShowText(c.Text))
		return o
	}
	if !r.Value.IsString() {
		o.Fail = fmt.Sprintf("JSON.stringify(JSON.parse(t)) is %s; t = %s", harness.Repr(r.Value), m11.ShowText(c.Text))
		return o
	}
	s2 := str16(r.Value)
	if d := denotes(s2, want); d != "" {
		o.Fail = fmt.Sprintf("JSON.stringify(JSON.parse(t)) = %s does not denote the value of t = %s: %s", m11.ShowText(s2), m11.ShowText(c.Text), d)
		return o
	}
	// Go side: Value.MarshalJSON / Object.MarshalJSON of the parsed value denote the same tree
	pr := ottoParse(text)
	if bad := describeErr(pr); bad != "" {
		o.Fail = fmt.Sprintf("JSON.parse(t) fails: %s; t = %s", bad, m11.ShowText(c.Text))
		return o
	}
	mr := harness.Guard(func() (otto.Value, error) {
		b, err := pr.Value.MarshalJSON()
		if err != nil {
			return otto.Value{}, err
		}
		if d := denotes(harness.UTF16(string(b)), want); d != "" {
			return otto.Value{}, fmt.Errorf("Value.MarshalJSON() = %s does not denote the value: %s", oneLine(string(b)), d)
		}
		if pr.Value.IsObject() {
			o.Classes = append(o.Classes, "Object.MarshalJSON")
			b, err := pr.Value.Object().MarshalJSON()
			if err != nil {
				return otto.Value{}, err
			}
			if d := denotes(harness.UTF16(string(b)), want); d != "" {
				return otto.Value{}, fmt.Errorf("Object.MarshalJSON() = %s does not denote the value: %s", oneLine(string(b)), d)
			}
		}
		return otto.Value{}, nil
	})
	if mr.Panicked {
		o.Fail = fmt.Sprintf("MarshalJSON panics: %v; t = %s", mr.Panic, m11.ShowText(c.Text))
	} else if mr.Err != nil {
		o.Fail = fmt.Sprintf("Go side: %v; t = %s", mr.Err, m11.ShowText(c.Text))
	}
	return o
}

// denotes: text is a JSONText for the model's reader and its value equals want up to the sign of zero.
func denotes(text []uint16, want *m11.Node) string {
	p, err := m11.Parse(text)
	if err != nil {
		return "not a JSONText: " + err.Error()
	}
	if len(p.Value.Dedupe().Obj) != len(p.Value.Obj) {
		return "a member name is repeated"
	}
	return m11.Diff(want, p.Value.Dedupe().NormZero())
}

var lawsFacet = harness.Register(&harness.Facet[lawCase]{
	Name: "laws-and-go-marshal",
	Rule: "rapid: JSON value tree (depth ≤ 4, finite numbers, no lone surrogates) and one rendering t of it. Law 1: v built from an ES5 literal (not through JSON.parse), JSON.parse(JSON.stringify(v)) read from Go is structurally equal to v (−0 → 0). Law 2: JSON.stringify(JSON.parse(t)) is accepted by the model's reader and denotes the value of t. Go side: Value.MarshalJSON and Object.MarshalJSON of JSON.parse(t) are accepted by the model's reader and denote the same tree; non-trivial = container plus a string needing escapes or a non-integer number; distinct by text",
	Quick: 6000, Thorough: 60000,
	Gen: func(t *rapid.T) lawCase {
		tree := m11.GenTree(t, m11.TreeOpts{MaxDepth: 4, MaxNodes: 30})
		return lawCase{Tree: tree.Encode(), Text: m11.Render(t, tree, m11.Style(rapid.IntRange(0, 2).Draw(t, "style")))}
	},
	Check: checkLaws,
})

func TestLaws(t *testing.T) { lawsFacet.Run(t) }
