// Package c11 decides property C11: JSON.parse and JSON.stringify agree with the ES5.1 15.12 JSON
// grammar and semantics, and round-trip. The oracle is the model in verif/lib/m11.
package c11

import (
	"fmt"
	"strconv"
	"strings"
	"testing"

	"github.com/robertkrimen/otto"
	"pgregory.net/rapid"

	"verif/lib/harness"
	"verif/lib/m11"
)

func TestMain(m *testing.M) { harness.Main(m, "C11") }

// Known findings of this property (see FINDINGS.txt).
const (
	kOverflow   = "C11-PARSE-OVERFLOW"         // A49: a JSONNumber whose value exceeds the double range is a SyntaxError instead of ±Infinity
	kLone       = "C11-LONE-SURROGATE"         // representation limit: lone surrogates become U+FFFD
	kRevEnum    = "C11-REVIVER-ENUM-DELETE" // Walk deletes from an object while enumerating it: members skipped / visited twice
	kPropList   = "C11-PROPLIST-SLICE"         // A48: replacer array with rejected entries before accepted ones is mis-sliced
	kEscapes    = "C11-STRINGIFY-ESCAPES"      // Quote also escapes < > & U+2028 U+2029
	kIntDigits  = "C11-STRINGIFY-INT64-DIGITS" // integral numbers in [2^53, 2^63) are written with all their integer digits instead of ToString's shortest digits
	kGapBytes   = "C11-GAP-BYTES"              // a string gap is cut to 10 bytes of UTF-8, not to 10 code units
)

// ---- otto access -------------------------------------------------------------------------------

var (
	vm     *otto.Otto
	vmUses int
)

func getVM() *otto.Otto {
	if vm == nil || vmUses > 1500 {
		vm = otto.New()
		vmUses = 0
	}
	vmUses++
	return vm
}

func describeErr(r harness.RunResult) string {
	switch {
	case r.Panicked:
		return "panic:" + fmt.Sprint(r.Panic)
	case r.Err != nil:
		return "throws:" + harness.ErrName(r.Err) + " (" + oneLine(r.Err.Error()) + ")"
	}
	return ""
}

func oneLine(s string) string {
	s = strings.ReplaceAll(s, "\n", " ")
	if len(s) > 160 {
		s = s[:160] + "…"
	}
	return s
}

// readJV reads an otto value from Go into the model's JS value form: numbers by their double,
// strings by code units, arrays with their holes, objects with their own enumerable keys.
func readJV(v otto.Value, depth int) (*m11.JV, error) {
	if depth > 64 {
		return nil, fmt.Errorf("value nested deeper than 64")
	}
	switch {
	case v.IsUndefined():
		return &m11.JV{K: m11.JUndef}, nil
	case v.IsNull():
		return &m11.JV{K: m11.JNull}, nil
	case v.IsBoolean():
		b, err := v.ToBoolean()
		return &m11.JV{K: m11.JBool, B: b}, err
	case v.IsNumber():
		f, err := v.ToFloat()
		return &m11.JV{K: m11.JNum, N: f}, err
	case v.IsString():
		s, err := v.ToString()
		return &m11.JV{K: m11.JStr, S: harness.UTF16(s)}, err
	case v.IsObject():
		o := v.Object()
		switch o.Class() {
		case "Array":
			lv, err := o.Get("length")
			if err != nil {
				return nil, err
			}
			lf, _ := lv.ToFloat()
			n := int(lf)
			if float64(n) != lf || n < 0 || n > 100000 {
				return nil, fmt.Errorf("array length %v", lf)
			}
			out := &m11.JV{K: m11.JArr, Arr: make([]*m11.JV, n)}
			for _, k := range o.Keys() {
				i, err := strconv.Atoi(k)
				if err != nil || i < 0 || i >= n || strconv.Itoa(i) != k {
					return nil, fmt.Errorf("array has an unexpected own enumerable property %q", k)
				}
				ev, err := o.Get(k)
				if err != nil {
					return nil, err
				}
				e, err := readJV(ev, depth+1)
				if err != nil {
					return nil, err
				}
				out.Arr[i] = e
			}
			return out, nil
		case "Object":
			out := &m11.JV{K: m11.JObj}
			for _, k := range o.Keys() {
				mv, err := o.Get(k)
				if err != nil {
					return nil, err
				}
				e, err := readJV(mv, depth+1)
				if err != nil {
					return nil, err
				}
				out.Obj = append(out.Obj, m11.JMem{Key: harness.UTF16(k), Val: e})
			}
			return out, nil
		}
		return nil, fmt.Errorf("object of class %s", o.Class())
	}
	return nil, fmt.Errorf("unreadable value %v", v)
}

// goText converts a JSON text to the Go (UTF-8) string handed to otto; ok is false when the text
// contains a raw lone surrogate, which a UTF-8 string cannot carry.
func goText(text []uint16) (string, bool) { return harness.FromUTF16(text) }

// ottoParse calls JSON.parse(text[, reviver]) through the Go API (the text never passes otto's lexer).
func ottoParse(text string) harness.RunResult {
	v := getVM()
	return harness.Guard(func() (otto.Value, error) { return v.Call("JSON.parse", nil, text) })
}

// ---- expected value of a text -------------------------------------------------------------------------

type expectation struct {
	valid    bool
	err      error
	want     *m11.JV
	stats    m11.Stats
	overflow bool
	node     *m11.Node // deduplicated
}

func expect(text []uint16) expectation {
	res, err := m11.Parse(text)
	if err != nil {
		return expectation{err: err}
	}
	d := res.Value.Dedupe()
	return expectation{valid: true, want: m11.FromNode(d), stats: res.Value.Stats(), overflow: res.Overflow, node: d}
}

// compareParsed checks what otto returned for a text the model accepts. It applies the two
// known-finding guards (number overflow, lone surrogates) and returns the outcome fields.
func compareParsed(text []uint16, e expectation, o *harness.Outcome) {
	if e.overflow {
		o.Classes = append(o.Classes, "number-overflow")
		if harness.Known(kOverflow) {
			o.Excluded = append(o.Excluded, kOverflow)
			return
		}
	}
	s, ok := goText(text)
	if !ok {
		o.Discard = "raw lone surrogate in the text (cannot be handed to otto)"
		return
	}
	r := ottoParse(s)
	if bad := describeErr(r); bad != "" {
		o.Fail = fmt.Sprintf("JSON.parse rejects a text of the 15.12.1 grammar: %s; text %s denotes %s", bad, m11.ShowText(text), e.node.Brief())
		return
	}
	got, err := readJV(r.Value, 0)
	if err != nil {
		o.Fail = fmt.Sprintf("JSON.parse(%s): result cannot be read as a JSON value: %v", m11.ShowText(text), err)
		return
	}
	want := e.want
	if e.stats.LoneSurrogates > 0 {
		o.Classes = append(o.Classes, "lone-surrogate")
		if harness.Known(kLone) {
			o.Excluded = append(o.Excluded, kLone)
			if e.stats.LoneInKey {
				return // distinct keys may collide after the substitution: nothing left to compare
			}
			want = want.MapLone()
		}
	}
	if d := m11.DiffJV(want, got); d != "" {
		o.Fail = fmt.Sprintf("JSON.parse(%s) differs from the value the text denotes (15.12.2): %s", m11.ShowText(text), d)
	}
}

func treeClasses(s m11.Stats) []string {
	var c []string
	add := func(cond bool, name string) {
		if cond {
			c = append(c, name)
		}
	}
	add(s.Containers == 0, "top-level-primitive")
	add(s.Depth >= 3, "depth>=3")
	add(s.DupKeys > 0, "duplicate-keys")
	add(s.EmptyKeys > 0, "empty-key")
	add(s.EmptyContainers > 0, "empty-container")
	add(s.NegZero > 0, "negative-zero")
	add(s.NonIntNumbers > 0, "non-integer-number")
	add(s.EscapeStrings > 0, "string-needs-escape")
	add(s.Controls > 0, "control-char")
	add(s.LineSeps > 0, "U+2028/9")
	add(s.Astral > 0, "astral")
	return c
}

func nontrivialTree(s m11.Stats) bool {
	return s.Containers > 0 && (s.EscapeStrings > 0 || s.NonIntNumbers > 0)
}

// ---- facet: parse(valid renderings) ------------------------------------------------------------------

type validCase struct {
	Tree  *m11.Enc `json:"tree"`
	Style string   `json:"style"`
	Text  []uint16 `json:"text"`
}

func checkValid(c validCase) harness.Outcome {
	o := harness.Outcome{Classes: []string{"style:" + c.Style}}
	e := expect(c.Text)
	if !e.valid {
		o.Fail = fmt.Sprintf("HARNESS MODEL INCONSISTENT: the model's reader rejects the model's own rendering: %v; text %s", e.err, m11.ShowText(c.Text))
		return o
	}
	if c.Tree != nil {
		if d := m11.Diff(c.Tree.Decode().Dedupe(), e.node); d != "" {
			o.Fail = fmt.Sprintf("HARNESS MODEL INCONSISTENT: reader(render(tree)) differs from tree: %s; text %s", d, m11.ShowText(c.Text))
			return o
		}
	}
	o.Nontrivial = nontrivialTree(e.stats)
	o.Classes = append(o.Classes, treeClasses(e.stats)...)
	compareParsed(c.Text, e, &o)
	return o
}

var parseValid = harness.Register(&harness.Facet[validCase]{
	Name: "parse-valid",
	Rule: "rapid: JSON value tree (depth ≤ 4, ≤ 30 nodes; numbers from the boundary pool / integers / decimals / random bit patterns / overflowing literals; strings over controls, quote, backslash, U+007F, U+2028/9, BMP, astral, lone surrogates; empty and duplicate keys; nested empties) rendered by one of three independent renderers (canonical, random white space + every escape and number spelling, all-escaped); expected value = the model reader's (15.12.1/15.12.2), compared from Go by number bits, string code units, key sets; non-trivial = the tree has a container and a string needing escapes or a non-integer number; distinct by text",
	Quick: 12000, Thorough: 100000,
	Gen: func(t *rapid.T) validCase {
		tree := m11.GenTree(t, m11.TreeOpts{MaxDepth: 4, MaxNodes: 30, Lone: true, Overflow: true})
		style := m11.Style(rapid.IntRange(0, 2).Draw(t, "style"))
		return validCase{Tree: tree.Encode(), Style: m11.StyleNames[style], Text: m11.Render(t, tree, style)}
	},
	Check: checkValid,
})

func TestParseValid(t *testing.T) { parseValid.Run(t) }

// ---- facet: parse(one-edit mutations) -----------------------------------------------------------------

type mutCase struct {
	Text     []uint16 `json:"text"`
	Mutation string   `json:"mutation"`
	Inside   bool     `json:"inside_token"`
	Original []uint16 `json:"original,omitempty"`
}

func checkMutated(c mutCase) harness.Outcome {
	o := harness.Outcome{Classes: []string{"mutation:" + c.Mutation}, Nontrivial: c.Inside}
	e := expect(c.Text)
	if e.valid {
		o.Classes = append(o.Classes, "still-valid")
		compareParsed(c.Text, e, &o)
		return o
	}
	o.Classes = append(o.Classes, "invalid")
	s, ok := goText(c.Text)
	if !ok {
		o.Discard = "raw lone surrogate in the text (cannot be handed to otto)"
		return o
	}
	r := ottoParse(s)
	switch {
	case r.Panicked:
		o.Fail = fmt.Sprintf("JSON.parse(%s): %s; the text is not a JSONText (%v): SyntaxError required (15.12.2 step 2)", m11.ShowText(c.Text), describeErr(r), e.err)
	case r.Err == nil:
		o.Fail = fmt.Sprintf("JSON.parse accepts %s (result %s); the text is not a JSONText (%v): SyntaxError required (15.12.2 step 2)", m11.ShowText(c.Text), harness.Repr(r.Value), e.err)
	case harness.ErrName(r.Err) != "SyntaxError":
		o.Fail = fmt.Sprintf("JSON.parse(%s) throws %s, SyntaxError required (15.12.2 step 2)", m11.ShowText(c.Text), harness.ErrName(r.Err))
	}
	return o
}

var parseMutated = harness.Register(&harness.Facet[mutCase]{
	Name: "parse-mutated",
	Rule: "rapid: a valid rendering (as in parse-valid, depth ≤ 3) with ONE edit out of 30 kinds (trailing/leading/double comma, leading zero, +1, .5, 1., single quotes, raw control character, NaN/Infinity, hex, comments, bare words, truncation, U+00A0/U+FEFF/U+000B/U+2028… as white space, unescaped quote, bad escapes, case of literals, unquoted key, broken exponent, second value, deleted/inserted/replaced code unit …); the model's recogniser — not the intent of the edit — decides: still a JSONText ⇒ value compared as in parse-valid, otherwise SyntaxError required; non-trivial = the edit lands inside a string/number/literal token; distinct by text",
	Quick: 25000, Thorough: 200000,
	Gen: func(t *rapid.T) mutCase {
		tree := m11.GenTree(t, m11.TreeOpts{MaxDepth: 3, MaxNodes: 16, Lone: false, Overflow: false})
		text := m11.Render(t, tree, m11.Style(rapid.IntRange(0, 2).Draw(t, "style")))
		res, err := m11.Parse(text)
		if err != nil {
			panic("model rejects its own rendering: " + err.Error())
		}
		m := m11.Mutate(t, text, res.Tokens)
		return mutCase{Text: m.Text, Mutation: m.Name, Inside: m.InsideToken, Original: text}
	},
	Check: checkMutated,
})

func TestParseMutated(t *testing.T) { parseMutated.Run(t) }

// ---- facet: fixed table of texts ------------------------------------------------------------------------

var tableTexts = []string{
	"", " ", "01", "-", "+1", ".5", "1.", "1.e1", "1e", "1e+", "'a'", "\"\\a\"", "\"\t\"", "\u00a01", "[1,]", "{\"a\":1,}", "[,]", "{,}", "nul", "True", "1 2",
	"{a:1}", "\"a", "[", "]", "NaN", "Infinity", "-Infinity", "0x10", "1/**/", "1//c", "--1", "- 1", "\"\\u12\"", "\"\\U0041\"", "[1 2]", "{\"a\"}", "{\"a\":}", "{1:1}", "1,",
	"\ufeff1", "1\ufeff", "\v1", "\f1", "\u20281", "\u00851", "[1,,2]", "{\"a\":1,,\"b\":2}", "\"\\x41\"", "\"\\'\"", "\"\\v\"", "\"\\0\"", "\"\n\"", "\"\r\"", "\"\x00\"", "\"\x1f\"", "undefined", "null ", "nullx", "truefalse", "[]]", "{}}", "[}", "{]", "{\"a\":1 \"b\":2}", "\"a\" \"b\"", "00", "-01", "0.", "-.5", "1e1.5", "1ee1", "0x", ".", "e1", "1e-", "12a", "1_0", "1n", "Ⅷ", "١", "[1]\x00", "\"\\ud83d\\ude00\"x",
	"0", "-0", "0.0", "-0.0", "-0e5", "1E+2", "1e-2", "1e05", "1e-05", "0e0", "0E-0", " \t\r\n1 \t\r\n", "\"\u007f\"", "\"\u2028\u2029\"", "\"\\/\\b\\f\\n\\r\\t\\\"\\\\\\u00e9\\u00E9\\u00Aa\"", "[]", "{}", "[[]]", "[[],{}]", "{\"\":{}}", "{\"a\":1,\"a\":2}", "{\"a\":1,\"b\":2,\"a\":3}", "null", "true", "false", "[ ]", "{ }", "[1 , 2]", "{ \"a\" : 1 }",
	"1e400", "-1e400", "1e309", "1.7976931348623157e308", "1.7976931348623158e308", "1.7976931348623159e308", "179769313486231580793728971405303415079934132710037826936173778980444968292764750946649017977587207096330286416692887910946555547851940402630657488671505820681908902000708383676273854845817711531764475730270069855571366959622842914819860834936475292719074168444365510704342711559699508093042880177904174497792", "[1e999]", "1e-400", "-1e-400", "5e-324", "2.4703282292062327e-324", "2.4703282292062328e-324", "4.9e-324", "9007199254740993", "9007199254740992.5", "9007199254740993.0000000001", "123456789012345678901234567890", "0.1", "0.30000000000000004", "1.0000000000000002", "1.00000000000000011102230246251565404236316680908203125", "1.00000000000000011102230246251565404236316680908203126",
	"\"\\ud83d\\ude00\"", "\"\U0001F600\"", "\"\\uD83D\"", "\"\\ude00\\ud83d\"", "\"\\ud83dx\"", "{\"__proto__\":1}", "{\"__proto__\":{\"x\":1}}", "{\"constructor\":1,\"toString\":2,\"hasOwnProperty\":3}", "{\"length\":1}", "[[[[[[[[[[[[[[[[[[[[1]]]]]]]]]]]]]]]]]]]]", "{\"0\":1,\"1\":2,\"01\":3}", "\"\\u0000\"", "[\"\",\"\"]", "[null,null]",
}

type tableCase struct {
	Text []uint16 `json:"text"`
}

var parseTable = harness.Register(&harness.Facet[tableCase]{
	Name: "parse-table",
	Rule: "finite list of hand-picked texts (near misses of every production of 15.12.1, number rounding boundaries, overflow/underflow, escape forms, surrogates, names that shadow Object.prototype members) checked like parse-mutated; non-trivial = every entry; distinct by text",
	Check: func(c tableCase) harness.Outcome {
		o := checkMutated(mutCase{Text: c.Text, Mutation: "table", Inside: true})
		return o
	},
})

func TestParseTable(t *testing.T) {
	var cases []tableCase
	for _, s := range tableTexts {
		cases = append(cases, tableCase{Text: m11.U(s)})
	}
	parseTable.Each(t, cases)
}
