// Package c18 decides property C18: interrupts and abnormal exits — prompt delivery, clean unwind,
// reusable runtime.
package c18

import (
	"fmt"
	"regexp"
	"runtime"
	"strconv"
	"strings"
	"sync/atomic"
	"syscall"
	"testing"
	"time"

	"github.com/robertkrimen/otto"
	"pgregory.net/rapid"

	"verif/lib/harness"
	"verif/lib/prog"
)

func TestMain(m *testing.M) {
	harness.RegisterWitness("C18-INTERRUPT-IN-TRY", witnessInterruptInTry)
	harness.Main(m, "C18")
}

// sentinel is what the injected interrupt function panics with.
type sentinel struct{ K int64 }

// ---- one instrumented runtime ----------------------------------------------------------------------

type rig struct {
	vm       *otto.Otto
	trace    []string
	polls    int64
	lenAt    []int // trace length at each poll (index = poll number, 1-based)
	injectAt int64 // 0 = never
	hostFail int   // i-th host call panics (0 = never)
	limit    int64 // counting stops the run after this many polls (harness budget)
	progress int64 // polls seen so far, read by the watchdog goroutine
}

// A run that is still going but has not reached a polling point while the process burnt stallCPU seconds of
// CPU (120: a 15 s threshold fired once on a heavily loaded machine, where the run's goroutine was starved while the
// rest of the process burnt CPU; the run itself was fine) has stopped polling — the wedge that C18 forbids. CPU time (getrusage), not wall time: on a loaded
// machine a slow but polling run must never be mistaken for it.
const stallCPU = 120.0

const wedgeMsg = "the run went on for 120 s of CPU time (and at least 60 s of wall clock) without reaching a single interrupt polling point (an interrupt can not be delivered: unbounded progress between polls)"

func (r *rig) watched(fn func() harness.RunResult) (harness.RunResult, bool) {
	done := make(chan harness.RunResult, 1)
	go func() { done <- fn() }()
	last, cpuAtLast, wallAtLast := atomic.LoadInt64(&r.progress), cpuSeconds(), time.Now()
	tick := time.NewTicker(250 * time.Millisecond)
	defer tick.Stop()
	for {
		select {
		case res := <-done:
			return res, false
		case <-tick.C:
			if now := atomic.LoadInt64(&r.progress); now != last {
				last, cpuAtLast, wallAtLast = now, cpuSeconds(), time.Now()
			} else if cpuSeconds()-cpuAtLast >= stallCPU && time.Since(wallAtLast) >= 60*time.Second {
				return harness.RunResult{}, true
			}
		}
	}
}

type hostPanic struct{ I int }

func newRig() *rig {
	r := &rig{vm: otto.New(), limit: 20000}
	r.vm.SetStackDepthLimit(300)
	r.lenAt = []int{0}
	r.vm.Set("log", func(call otto.FunctionCall) otto.Value {
		parts := make([]string, len(call.ArgumentList))
		for i, v := range call.ArgumentList {
			parts[i] = harness.Repr(v)
		}
		r.record(call, strings.Join(parts, "|"))
		return otto.UndefinedValue()
	})
	// host functions that convert or call back into script code from Go: an interrupt (or a host panic)
	// arriving while that nested script code runs must unwind through the Go frames as well
	host := func(name string, fn func(call otto.FunctionCall) string) {
		r.vm.Set(name, func(call otto.FunctionCall) otto.Value {
			res := fn(call)
			r.record(call, name+"="+res)
			v, _ := otto.ToValue(res)
			return v
		})
	}
	errName := func(err error) string {
		if err == nil {
			return ""
		}
		return "!" + harness.ErrName(err)
	}
	host("hstr", func(call otto.FunctionCall) string { return call.Argument(0).String() })
	host("htostring", func(call otto.FunctionCall) string { s, err := call.Argument(0).ToString(); return s + errName(err) })
	host("hnum", func(call otto.FunctionCall) string {
		f, err := call.Argument(0).ToFloat()
		return harness.NumRepr(f) + errName(err)
	})
	host("hint", func(call otto.FunctionCall) string {
		n, err := call.Argument(0).ToInteger()
		return strconv.FormatInt(n, 10) + errName(err)
	})
	host("hexport", func(call otto.FunctionCall) string {
		x, err := call.Argument(0).Export()
		if m, ok := x.(map[string]interface{}); ok {
			return "map:" + strconv.Itoa(len(m)) + errName(err)
		}
		return fmt.Sprintf("%T", x) + errName(err)
	})
	host("hjson", func(call otto.FunctionCall) string {
		b, err := call.Argument(0).MarshalJSON()
		return string(b) + errName(err)
	})
	host("hcall", func(call otto.FunctionCall) string {
		v, err := call.Argument(0).Call(otto.UndefinedValue(), call.Argument(1))
		return harness.Repr(v) + errName(err)
	})
	host("hget", func(call otto.FunctionCall) string {
		o := call.Argument(0).Object()
		if o == nil {
			return "notobject"
		}
		v, err := o.Get(call.Argument(1).String())
		return harness.Repr(v) + errName(err)
	})
	host("hset", func(call otto.FunctionCall) string {
		o := call.Argument(0).Object()
		if o == nil {
			return "notobject"
		}
		return errName(o.Set(call.Argument(1).String(), call.Argument(2)))
	})
	host("hottocall", func(call otto.FunctionCall) string {
		v, err := call.Otto.Call(call.Argument(0).String(), nil, call.Argument(1))
		return harness.Repr(v) + errName(err)
	})
	// a host that evaluates source in the current context (a debugger, a REPL command) and survives its failure:
	// by error value (heval) or by recovering the Go panic of a host function called from that source (hevalrecover)
	host("heval", func(call otto.FunctionCall) string {
		v, err := call.Otto.Eval(call.Argument(0).String())
		return harness.Repr(v) + errName(err)
	})
	host("hevalrecover", func(call otto.FunctionCall) (res string) {
		defer func() {
			if p := recover(); p != nil {
				if _, ok := p.(hostPanic); ok || fmt.Sprint(p) == "hpanic" {
					res = "recovered"
					return
				}
				panic(p)
			}
		}()
		v, err := call.Otto.Eval(call.Argument(0).String())
		return harness.Repr(v) + errName(err)
	})
	r.vm.Set("hpanic", func(call otto.FunctionCall) otto.Value { panic("hpanic") })
	if _, err := r.vm.Run("function __battery() { return " + battery + " }"); err != nil {
		panic(err)
	}
	r.vm.Interrupt = make(chan func(), 1)
	r.vm.Interrupt <- r.fire
	return r
}

// record appends one host call to the trace, commits an effect that must survive any later abnormal
// exit, and panics if this is the host call chosen to fail.
func (r *rig) record(call otto.FunctionCall, entry string) {
	r.trace = append(r.trace, entry)
	call.Otto.Set("__hostcalls", len(r.trace))
	if r.hostFail > 0 && len(r.trace) == r.hostFail {
		panic(hostPanic{r.hostFail})
	}
}

func (r *rig) fire() {
	r.polls++
	atomic.AddInt64(&r.progress, 1)
	r.lenAt = append(r.lenAt, len(r.trace))
	select {
	case r.vm.Interrupt <- r.fire:
	default:
	}
	// the interrupt function panics once, at step injectAt, as a host's would: if anything swallows that panic the
	// script goes on polling, its trace grows or Run returns — which is what the oracle looks for. (Panicking at
	// every later step as well would cut a continuing script short at its next polling point and hide it.)
	if r.injectAt > 0 && r.polls == r.injectAt {
		panic(sentinel{r.injectAt})
	}
	if r.polls > r.limit {
		panic(harness.BudgetSentinel{Polls: r.polls})
	}
}

const battery = `(function(){ var r=[]; L: for (var i=0;i<3;i++){ for (var j=0;j<3;j++){ if (j==1) continue L; if (i==2) break L; r.push(i*10+j) } }
 try { throw 1 } catch(e){ r.push("c"+e) } finally { r.push("f") }
 with({w:5}){ r.push(w) }
 function fact(n){ return n<2?1:n*fact(n-1) } r.push(fact(5));
 M: { r.push("m"); break M; }
 switch (2) { case 1: r.push("no"); case 2: r.push("s2"); case 3: r.push("s3"); break; default: r.push("no") }
 r.push([3,1,2].sort(function(a,b){return a-b}).join(""));
 return r.join(",") })()`

const batteryWant = "0,10,c1,f,5,120,m,s2,s3,123"

// postConditions checks the runtime after an abnormal exit: at rest, effects intact, reusable.
func (r *rig) postConditions(wantHostCalls int) string {
	if d := otto.VerifScopeDepth(r.vm); d != 0 {
		return fmt.Sprintf("scope depth at rest is %d, want 0 (call stack not unwound)", d)
	}
	if n := otto.VerifLabelCount(r.vm); n != 0 {
		return fmt.Sprintf("%d pending labels at rest, want 0", n)
	}
	if wantHostCalls > 0 {
		v, err := r.vm.Get("__hostcalls")
		if err != nil {
			return "reading a global after the exit failed: " + err.Error()
		}
		if n, _ := v.ToInteger(); int(n) != wantHostCalls {
			return fmt.Sprintf("effect committed before the exit lost: __hostcalls = %s, want %d", harness.Repr(v), wantHostCalls)
		}
	}
	// later scripts run normally on the same runtime (no interrupt pending any more)
	r.injectAt, r.hostFail = 0, 0
	r.polls = 0
	select {
	case <-r.vm.Interrupt:
	default:
	}
	r.vm.Interrupt <- r.fire
	// first through Otto.Call and Value.Call (entry points that do not pass through Run), then through Run
	if res := harness.Guard(func() (otto.Value, error) { return r.vm.Call("__battery", nil) }); res.Panicked || res.Err != nil || res.Value.String() != batteryWant {
		return fmt.Sprintf("follow-up battery called through Otto.Call right after the exit gave %s, want %s", res.Describe(), batteryWant)
	}
	if fn, err := r.vm.Get("__battery"); err == nil {
		if res := harness.Guard(func() (otto.Value, error) { return fn.Call(otto.UndefinedValue()) }); res.Panicked || res.Err != nil || res.Value.String() != batteryWant {
			return fmt.Sprintf("follow-up battery called through Value.Call gave %s, want %s", res.Describe(), batteryWant)
		}
	}
	res := harness.Run(r.vm, battery)
	if res.Panicked || res.Err != nil || res.Value.String() != batteryWant {
		return fmt.Sprintf("follow-up battery on the same runtime gave %s, want %s", res.Describe(), batteryWant)
	}
	if d := otto.VerifScopeDepth(r.vm); d != 0 {
		return fmt.Sprintf("scope depth after the follow-up battery is %d", d)
	}
	return ""
}

func prefixOK(got, ref []string, n int) bool {
	if len(got) != n || n > len(ref) {
		return false
	}
	for i := 0; i < n; i++ {
		if got[i] != ref[i] {
			return false
		}
	}
	return true
}

// ---- facet: interrupt panic injected at every polling step -------------------------------------------

type injectCase struct {
	Src    string `json:"src"`
	Family string `json:"family"`
	Entry  string `json:"entry"` // public entry point the program is submitted through: run | eval | call | value-call
	Picks  []int  `json:"picks"` // per-mille positions used when the run has more polls than can be enumerated
}

var tryRe = regexp.MustCompile(`\btry\b`)

func witnessInterruptInTry() (bool, string) {
	r := newRig()
	r.injectAt = 9
	res := harness.Run(r.vm, `var x=0; while(x<3){ try { x++ } catch(e) {} } x`)
	if res.Panicked {
		if _, ok := res.Panic.(sentinel); ok {
			return false, "Run unwound with the interrupt's panic"
		}
	}
	return true, res.Describe()
}

// submit runs the program through the chosen public entry point. For call / value-call the program
// becomes the body of a function that is defined first (with the interrupt function disarmed).
func (r *rig) submitRaw(entry, src string) harness.RunResult {
	switch entry {
	case "eval":
		return harness.Guard(func() (otto.Value, error) { return r.vm.Eval(src) })
	case "call", "value-call", "object-call":
		inject, fail := r.injectAt, r.hostFail
		r.injectAt, r.hostFail = 0, 0
		def := harness.Run(r.vm, "function __main() {\n"+src+"\n}; var __holder = {m: __main}")
		r.injectAt, r.hostFail = inject, fail
		if def.Err != nil || def.Panicked {
			return def
		}
		fn, _ := r.vm.Get("__main")
		holder, _ := r.vm.Get("__holder")
		// the host installs its interrupt channel only now, after the last Run (as it would around a callback):
		// the interpreter has to poll the channel the runtime has at the time, not one it remembered earlier
		r.vm.Interrupt = make(chan func(), 1)
		r.vm.Interrupt <- r.fire
		r.polls, r.lenAt = 0, []int{0}
		switch entry {
		case "call":
			return harness.Guard(func() (otto.Value, error) { return r.vm.Call("__main", nil) })
		case "object-call":
			return harness.Guard(func() (otto.Value, error) { return holder.Object().Call("m") })
		}
		return harness.Guard(func() (otto.Value, error) { return fn.Call(otto.UndefinedValue()) })
	}
	return harness.Run(r.vm, src)
}

// submit is submitRaw under the polling watchdog; wedged = the run stopped reaching polling points.
func (r *rig) submit(entry, src string) (harness.RunResult, bool) {
	return r.watched(func() harness.RunResult { return r.submitRaw(entry, src) })
}

// assigned in init() (a facet cannot refer to itself in its own initialiser)
var (
	fatalInject   func(c injectCase, msg string)
	fatalAbnormal func(c abnormalCase, msg string)
	fatalPoll     func(c pollCase, msg string)
	fatalAsync    func(c asyncCase, msg string)
)

func init() {
	fatalInject = func(c injectCase, msg string) { injectFacet.Fatal(c, msg) }
	fatalAbnormal = func(c abnormalCase, msg string) { abnormalFacet.Fatal(c, msg) }
	fatalPoll = func(c pollCase, msg string) { pollFacet.Fatal(c, msg) }
	fatalAsync = func(c asyncCase, msg string) { asyncFacet.Fatal(c, msg) }
}

func checkInject(c injectCase) harness.Outcome {
	out := harness.Outcome{Classes: []string{"family:" + c.Family, "entry:" + c.Entry}}
	ref := newRig()
	refRes, wedged := ref.submit(c.Entry, c.Src)
	if wedged {
		fatalInject(c, wedgeMsg+"\n"+c.Src)
	}
	nonTerminating := refRes.Budget
	if refRes.Panicked && !refRes.Budget {
		out.Fail = fmt.Sprintf("reference run (no injection) panicked: %v\n%s", refRes.Panic, c.Src)
		return out
	}
	n := ref.polls
	if n == 0 && c.Entry != "run" {
		// no polling point through this entry: only acceptable if the program has none under Run either
		viaRun := newRig()
		if _, w := viaRun.submit("run", c.Src); !w && viaRun.polls > 0 {
			out.Fail = fmt.Sprintf("submitted through entry %s the program reaches no interrupt polling point, through Run it reaches %d: an interrupt cannot be delivered through this entry\n%s", c.Entry, viaRun.polls, c.Src)
			return out
		}
	}
	if n == 0 {
		out.Discard = "no polling point"
		return out
	}
	if nonTerminating {
		out.Classes = append(out.Classes, "non-terminating")
	}
	hasTry := tryRe.MatchString(c.Src)
	if hasTry {
		out.Classes = append(out.Classes, "has-try")
	}
	// injection points: every poll when few, otherwise first/last 25 and the drawn positions
	var ks []int64
	if n <= 120 {
		for k := int64(1); k <= n; k++ {
			ks = append(ks, k)
		}
	} else {
		seen := map[int64]bool{}
		add := func(k int64) {
			if k >= 1 && k <= n && !seen[k] {
				seen[k] = true
				ks = append(ks, k)
			}
		}
		for k := int64(1); k <= 25; k++ {
			add(k)
			add(n - k + 1)
		}
		for _, p := range c.Picks {
			add(1 + int64(p)*(n-1)/1000)
		}
	}
	out.Nontrivial = len(ref.trace) > 0 && (strings.Contains(c.Src, "function") || c.Family != "generated")
	excluded := 0
	for _, k := range ks {
		r := newRig()
		r.injectAt = k
		res, wedged := r.submit(c.Entry, c.Src)
		if wedged {
			fatalInject(c, fmt.Sprintf("with an interrupt injected at step %d: %s\n%s", k, wedgeMsg, c.Src))
		}
		unwound := false
		if res.Panicked {
			if s, ok := res.Panic.(sentinel); ok && s.K == k {
				unwound = true
			}
		}
		if !unwound {
			if hasTry && harness.Known("C18-INTERRUPT-IN-TRY") {
				excluded++
				continue
			}
			out.Fail = fmt.Sprintf("interrupt function panicked at polling step %d of %d but the call (entry %s) did not unwind with exactly that panic value: %s (README 'Halting Problem'; property C18)\n%s", k, n, c.Entry, res.Describe(), c.Src)
			return out
		}
		want := ref.lenAt[k]
		if !prefixOK(r.trace, ref.trace, want) {
			out.Fail = fmt.Sprintf("injection at step %d of %d: host-call trace %q is not the reference prefix of length %d %q (the script continued or diverged)\n%s", k, n, r.trace, want, ref.trace, c.Src)
			return out
		}
		if msg := r.postConditions(want); msg != "" {
			out.Fail = fmt.Sprintf("after unwinding from step %d of %d: %s\n%s", k, n, msg, c.Src)
			return out
		}
	}
	if excluded > 0 {
		out.Excluded = append(out.Excluded, "C18-INTERRUPT-IN-TRY")
	}
	out.Classes = append(out.Classes, "points:"+bucket(len(ks)))
	return out
}

func bucket(n int) string {
	switch {
	case n <= 10:
		return "1-10"
	case n <= 50:
		return "11-50"
	case n <= 120:
		return "51-120"
	}
	return ">120"
}

// templates: the constructs the property names — empty-bodied loops of every form, nested calls,
// callbacks running inside built-ins, with, labels, try/finally. %B = a loop bound or "true".
var templates = []struct{ family, src string }{
	{"empty-loop", `log("a"); for(;;){} log("never")`},
	{"empty-loop", `log("a"); for(;;); log("never")`},
	{"empty-loop", `log("a"); while(1); log("never")`},
	{"empty-loop", `log("a"); while(true){} log("never")`},
	{"empty-loop", `log("a"); do ; while(1); log("never")`},
	{"empty-loop", `log("a"); do {} while(true); log("never")`},
	{"empty-loop", `log("a"); L: for(;;){ continue L } log("never")`},
	{"empty-loop", `log("a"); L: while(1){ M: do { continue L } while(1) } log("never")`},
	{"empty-loop", `var o={a:1}; log("a"); for(;;) for (var k in o); log("never")`},
	{"bounded-loop", `var n=0; for(var i=0;i<%N;i++){} log(i); while(n<%N) n++; log(n); do n--; while(n>0); log(n)`},
	{"bounded-loop", `L: for(var i=0;i<%N;i++){ for(var j=0;j<3;j++){ if(j==1) continue L; log(i,j) } } log("done")`},
	{"recursion", `function r(n){ log(n); return n<=0 ? 0 : 1+r(n-1) } log(r(%N))`},
	{"recursion", `function a(n){ return n<=0?0:b(n-1)+1 } function b(n){ log("b",n); return n<=0?0:a(n-1)+1 } log(a(%N))`},
	{"recursion", `function r(n){ return r(n+1) } log("a"); r(0)`},
	{"callback", `log([3,1,2,5,4].sort(function(a,b){ log("cmp"); return a-b }).join())`},
	{"callback", `[1,2,3].forEach(function(v,i){ log("each",v,i); for(var k=0;k<%N;k++){} }); log("done")`},
	{"callback", `log([1,2,3].map(function(v){ log("map",v); return v*2 }).join())`},
	{"callback", `log([1,2,3].reduce(function(a,v){ log("red",a,v); return a+v },0))`},
	{"callback", `log([1,2,3,4].filter(function(v){ log("f",v); return v%2 }).join(), [1,2].some(function(v){ log("s",v); return false }), [1,2].every(function(v){ log("e",v); return true }))`},
	{"callback", `log("abcabc".replace(/b/g,function(m,o){ log("rep",m,o); return "X" }))`},
	{"callback", `log(JSON.stringify({a:1,b:{toJSON:function(){ log("toJSON"); return 7 }}},function(k,v){ log("r",k); return v }))`},
	{"callback", `log(JSON.parse("[1,2,{\"x\":3}]",function(k,v){ log("rev",k); return v }).length)`},
	{"callback", `var o={get g(){ log("get"); return 5 }, set g(v){ log("set",v) }}; o.g=o.g+1; log(o.g)`},
	{"callback", `var o={valueOf:function(){ log("valueOf"); return 3 }, toString:function(){ log("toString"); return "s" }}; log(o+1, o*2, String(o), o<4)`},
	{"callback", `[1,2,3].forEach(function(v){ log(v); if (v==2) for(;;){} }); log("never")`},
	{"callback", `[2,1].sort(function(a,b){ log("cmp"); while(true); })`},
	{"callback", `"ab".replace(/a/,function(){ log("in"); for(;;); })`},
	{"callback", `function F(){ log("F"); this.x=1 } var f=F.bind(null); log(new f().x); log(F.call({},1), F.apply({},[1]))`},
	{"host-conversion", `var o={toString:function(){ log("ts"); for(var i=0;i<%N;i++){} return "s" }, valueOf:function(){ log("vo"); for(var i=0;i<%N;i++){} return 4 }}; log(hstr(o)); log(htostring(o)); log(hnum(o), hint(o)); log("after")`},
	{"host-conversion", `var o={toString:function(){ log("ts"); for(var i=0;i<%N;i++){} return "s" }}; console.log(o, 1, o); log("after")`},
	{"host-conversion", `var o={toString:function(){ log("in"); for(;;){} }}; console.log(o); log("never")`},
	{"host-conversion", `var o={toString:function(){ log("in"); for(;;){} }}; hstr(o); log("never")`},
	{"host-conversion", `var o={valueOf:function(){ log("in"); while(true); }}; hnum(o); log("never")`},
	{"host-conversion", `var g={get p(){ log("get"); for(var i=0;i<%N;i++){} return 1 }, set p(v){ log("set",v); for(var i=0;i<%N;i++){} }, q:{get r(){ log("inner"); return 2 }}}; log(hget(g,"p")); log(hexport(g)); log(hset(g,"p",2)); log("after")`},
	{"host-conversion", `var g={get p(){ log("get"); for(;;); }}; hexport(g); log("never")`},
	{"host-conversion", `var g={set p(v){ log("set"); for(;;); }}; hset(g,"p",1); log("never")`},
	{"host-conversion", `function cb(a){ log("cb",a); for(var i=0;i<%N;i++){} return a+1 } log(hcall(cb,1)); log(hcall(function(x){ return hcall(cb,x) },5)); log(hottocall("cb",7)); log("end")`},
	{"host-conversion", `function spin(){ log("spin"); for(;;){} } log("a"); hcall(function(){ return hottocall("spin",0) },0); log("never")`},
	{"host-conversion", `var t={toJSON:function(){ log("tj"); for(var i=0;i<%N;i++){} return [1,{get z(){ log("z"); return 3 }}] }}; log(hjson(t)); log(hjson({a:{toString:function(){ log("no"); return "" }}})); log("end")`},
	{"host-conversion", `var o={toString:function(){ log("ts"); throw new RangeError("r") }, valueOf:function(){ log("vo"); return {} }}; log(hstr(o)); log(htostring(o)); log(hnum(o)); log(hcall(function(){ null.x },0)); console.log(o); log("after")`},
	{"with-label", `var o={p:1,q:2}; with(o){ L: for(var i=0;i<%N;i++){ log(p,q,i); if(i==1) continue L; p++ } } log(o.p)`},
	{"with-label", `A: { B: { log("in"); with({z:1}) { log(z); break A } } log("no") } log("out")`},
	{"try", `var x=0; while(x<%N){ try { x++; log(x) } catch(e) { log("caught") } } log("end",x)`},
	{"try", `function t(n){ try { log("t",n); if(n>0) return t(n-1); throw "bottom" } finally { log("fin",n) } } try { t(%N) } catch(e) { log("c",e) }`},
	{"try", `for (var i=0;i<%N;i++){ try { log("a",i); continue } finally { log("f",i) } }`},
	{"try", `try { log("a"); for(;;){} } catch(e) { log("caught") } log("never")`},
	{"try", `try { throw 1 } catch(e) { log("c"); for(;;); } finally { log("f") }`},
	{"eval", `log(eval("var s=0; for(var i=0;i<%N;i++){ s+=i } s")); log((0,eval)("1+1"))`},
	{"uncaught", `log("a"); null.x; log("never")`},
	{"uncaught", `function f(){ log("f"); throw new TypeError("t") } log("a"); f(); log("never")`},
}

var injectFacet = harness.Register(&harness.Facet[injectCase]{
	Name:     "interrupt-at-every-step",
	Rule:     "rapid: a program (templates covering empty-bodied loops of every form, bounded loops, recursion, callbacks inside sort/forEach/map/reduce/filter/replace/JSON/getters/valueOf, script code entered from Go inside host functions and console.log (Value.String/ToString/ToFloat/ToInteger/Export/MarshalJSON/Call, Object.Get/Set, Otto.Call on objects with script toString/valueOf/getters/setters/toJSON), with, labels, try/finally, eval; or a program from the semantic generator) is submitted through one of the public entry points (Run, Eval, Otto.Call, Value.Call, Object.Call — for the call entries the interrupt channel is installed after the last Run, and a program that polls under Run must poll through them too) and first run with a counting interrupt function that records the host-call trace length at every polling step; then for EVERY step k (all when ≤120 polls, else first/last 25 plus drawn positions) a fresh runtime runs it with an interrupt function that panics at step k. Oracle: Run panics with exactly that value, the trace equals the reference prefix recorded at k, scope depth and pending labels are 0, a global written before each host call still has its value, and a fixed battery (labels, try/finally, with, recursion, switch, sort) gives its normal result on the same runtime. Non-trivial = the program makes host calls and contains a function or comes from a template; distinct by (program, picks)",
	Quick:    260,
	Thorough: 2500,
	Gen: func(t *rapid.T) injectCase {
		c := injectCase{}
		if rapid.IntRange(0, 9).Draw(t, "fromgen") < 3 {
			c.Family = "generated"
			c.Src = prog.Print(prog.GenProgram(t))
		} else {
			tpl := rapid.SampledFrom(templates).Draw(t, "template")
			c.Family = tpl.family
			c.Src = strings.ReplaceAll(tpl.src, "%N", strconv.Itoa(rapid.IntRange(0, 7).Draw(t, "n")))
		}
		c.Entry = rapid.SampledFrom([]string{"run", "run", "run", "eval", "call", "value-call", "object-call"}).Draw(t, "entry")
		for i := 0; i < 30; i++ {
			c.Picks = append(c.Picks, rapid.IntRange(0, 1000).Draw(t, "pick"))
		}
		return c
	},
	Check: checkInject,
})

func TestInterruptAtEveryStep(t *testing.T) { injectFacet.Run(t) }

// ---- facet: host function panics, uncaught exceptions, stack-limit errors -----------------------------

type abnormalCase struct {
	Src  string `json:"src"`
	Fail int    `json:"fail"` // i-th host call panics
}

var abnormalFacet = harness.Register(&harness.Facet[abnormalCase]{
	Name:     "abnormal-exit-leaves-runtime-consistent",
	Rule:     "rapid: a template or generated program in which the i-th host-function call panics with a Go value (i over every host call of the reference run), or which ends in an uncaught exception or a stack-limit RangeError; oracle: whatever way Run ends (returned error, propagated panic), afterwards scope depth and pending labels are 0, effects before the exit are intact and the follow-up battery runs normally; a host panic outside any try must propagate out of Run unchanged; non-trivial = the exit happened inside a function call; distinct by (program, i)",
	Quick:    400,
	Thorough: 4000,
	Gen: func(t *rapid.T) abnormalCase {
		c := abnormalCase{}
		if rapid.IntRange(0, 9).Draw(t, "fromgen") < 4 {
			c.Src = prog.Print(prog.GenProgram(t))
		} else {
			tpl := rapid.SampledFrom(templates).Draw(t, "template")
			c.Src = strings.ReplaceAll(tpl.src, "%N", strconv.Itoa(rapid.IntRange(0, 6).Draw(t, "n")))
		}
		c.Fail = rapid.IntRange(0, 12).Draw(t, "fail")
		return c
	},
	Check: func(c abnormalCase) harness.Outcome {
		out := harness.Outcome{}
		r := newRig()
		r.limit = 3000
		r.hostFail = c.Fail
		res, wedged := r.submit("run", c.Src)
		if wedged {
			fatalAbnormal(c, wedgeMsg+"\n"+c.Src)
		}
		switch {
		case res.Budget:
			out.Classes = append(out.Classes, "exit:harness-budget")
		case res.Panicked:
			if hp, ok := res.Panic.(hostPanic); ok && hp.I == c.Fail {
				out.Classes = append(out.Classes, "exit:host-panic-propagated")
			} else {
				out.Fail = fmt.Sprintf("Run panicked with a foreign value %v (host panic index %d)\n%s", res.Panic, c.Fail, c.Src)
				return out
			}
		case res.Err != nil:
			out.Classes = append(out.Classes, "exit:error:"+harness.ErrName(res.Err))
		default:
			out.Classes = append(out.Classes, "exit:normal")
		}
		if c.Fail > 0 && len(r.trace) >= c.Fail && !tryRe.MatchString(c.Src) && !strings.Contains(c.Src, "eval") {
			// no try anywhere: the host function's panic must have come out of Run as it is
			if !res.Panicked {
				out.Fail = fmt.Sprintf("host function panicked at call %d outside any try, but Run returned %s\n%s", c.Fail, res.Describe(), c.Src)
				return out
			}
		}
		out.Nontrivial = (res.Panicked || res.Err != nil) && strings.Contains(c.Src, "function")
		if msg := r.postConditions(len(r.trace)); msg != "" {
			out.Fail = fmt.Sprintf("after %s: %s\n%s", res.Describe(), msg, c.Src)
		}
		return out
	},
})

func TestAbnormalExit(t *testing.T) { abnormalFacet.Run(t) }

// ---- facet: an execution context that survives the abnormal exit of something inside it -----------------

type survivorCase struct {
	Name string   `json:"name"`
	Src  string   `json:"src"`
	Want []string `json:"want"` // the host-call trace ES5 (and common sense) prescribes: an absolute oracle
}

var survivorCases = []survivorCase{
	{"rangeerror-through-with-caught-in-same-function",
		`var o={p:"with-object"}, p="outer"; function deep(n){ return deep(n+1) } function f(){ try { with(o){ deep(0) } } catch(e){ log("caught", e instanceof RangeError) } log("after", p); p="assigned"; log(o.p, p) } f()`,
		[]string{`string:"caught"|boolean:true`, `string:"after"|string:"outer"`, `string:"with-object"|string:"assigned"`}},
	{"rangeerror-through-labelled-with-in-loop",
		`var o={p:"with-object"}, p="outer", n=0; function deep(k){ return deep(k+1) } function f(){ L: for (var i=0;i<2;i++){ try { with(o){ M: { deep(0) } } } catch(e){ n++; continue L } } log("after", p, n) } f(); log("end", p)`,
		[]string{`string:"after"|string:"outer"|number:2`, `string:"end"|string:"outer"`}},
	{"eval-from-host-fails-inside-with",
		`var o={p:"with-object"}, p="outer"; function g(){ log("before", p); heval("with(o){ throw new TypeError('t') }"); log("after", p); p="assigned"; log(o.p, p) } g(); log("end", p)`,
		[]string{`string:"before"|string:"outer"`, `heval=undefined!TypeError`, `string:"after"|string:"outer"`, `string:"with-object"|string:"assigned"`, `string:"end"|string:"assigned"`}},
	{"eval-from-host-fails-at-global-level",
		`var o={p:"with-object"}, p="outer"; heval("with(o){ null.x }"); log("after", p); heval("L: with(o){ for(;;){ undefinedName } }"); log("again", p)`,
		[]string{`heval=undefined!TypeError`, `string:"after"|string:"outer"`, `heval=undefined!ReferenceError`, `string:"again"|string:"outer"`}},
	{"host-panic-inside-evaluated-with-recovered-by-the-host",
		`var o={p:"with-object"}, p="outer"; function g(){ hevalrecover("with(o){ hpanic() }"); log("after", p); hevalrecover("L: with(o){ M: with({q:1}){ hpanic() } }"); log("again", p, typeof q) } g(); log("end", p)`,
		[]string{`hevalrecover=recovered`, `string:"after"|string:"outer"`, `hevalrecover=recovered`, `string:"again"|string:"outer"|string:"undefined"`, `string:"end"|string:"outer"`}},
	{"stack-limit-inside-evaluated-code-then-exact-limit-again",
		`function deep(k){ return deep(k+1) } function g(){ heval("deep(0)"); var d=0; function count(k){ d=k; return count(k+1) } try { count(1) } catch(e){} return d } var a=g(), b=g(); log(a===b, a>250)`,
		[]string{`heval=undefined!RangeError`, `heval=undefined!RangeError`, `boolean:true|boolean:true`}},
}

var survivorFacet = harness.Register(&harness.Facet[survivorCase]{
	Name: "surviving-context-after-inner-abnormal-exit",
	Rule: "complete enumeration of scenarios in which an execution context SURVIVES the abnormal exit of something inside it: a stack-limit RangeError or an interpreter-raised error leaves a with body (plain, labelled, inside a loop) and is caught in the same function; source evaluated by a host function in the current context (Otto.Eval from a debugger/REPL-like host) fails with an uncaught exception, or a host panic inside it is recovered by that host function. Oracle (absolute, not differential): the host-call trace ES5 prescribes — afterwards identifiers resolve as before the with statement, assignments go where they went before, the depth limit is what it was; then scope depth and pending labels are 0 and the battery runs normally. Every case non-trivial; distinct by scenario",
	Check: func(c survivorCase) harness.Outcome {
		out := harness.Outcome{Nontrivial: true, Classes: []string{"scenario:" + c.Name}}
		r := newRig()
		res, wedged := r.submit("run", c.Src)
		if wedged {
			out.Fail = wedgeMsg + "\n" + c.Src
			return out
		}
		if res.Panicked || res.Err != nil {
			out.Fail = fmt.Sprintf("scenario %s: Run ended with %s, want a normal end\n%s", c.Name, res.Describe(), c.Src)
			return out
		}
		if strings.Join(r.trace, "\n") != strings.Join(c.Want, "\n") {
			out.Fail = fmt.Sprintf("scenario %s: host-call trace %q, want %q (the surviving context is not what it was before the inner abnormal exit)\n%s", c.Name, r.trace, c.Want, c.Src)
			return out
		}
		if msg := r.postConditions(len(r.trace)); msg != "" {
			out.Fail = fmt.Sprintf("scenario %s: %s\n%s", c.Name, msg, c.Src)
		}
		return out
	},
})

func TestSurvivingContext(t *testing.T) {
	harness.SetExhaustive(survivorFacet.Name)
	survivorFacet.Each(t, survivorCases)
}

// ---- facet: the stack depth limit admits exactly the configured nesting ------------------------------

type depthCase struct {
	Limit int    `json:"limit"`
	Depth int    `json:"depth"`
	Form  string `json:"form"`
}

// each form defines d(n): a chain of exactly n script-function activations below global code
var depthForms = map[string]string{
	"function":    `function d(n){ return n<=1 ? 1 : 1+d(n-1) }`,
	"method":      `var o={m:function(n){ return n<=1 ? 1 : 1+this.m(n-1) }}; function d(n){ return o.m(n) }`,
	"constructor": `function C(n){ this.v = n<=1 ? 1 : 1+new C(n-1).v } function d(n){ return new C(n).v }`,
	"getter":      `var g={n:0, get v(){ var k=this.n; if(k<=1) return 1; this.n=k-1; return 1+this.v }}; function d(n){ g.n=n; return g.v }`,
	"closure":     `function mk(){ return function s(n){ return n<=1 ? 1 : 1+mk()(n-1) } } function d(n){ return mk()(n) }`,
}

var depthExact = map[string]int{"function": 0, "method": 1, "constructor": 1, "getter": 1, "closure": -1}

var depthFacet = harness.Register(&harness.Facet[depthCase]{
	Name:     "stack-depth-limit",
	Rule:     "rapid: stack depth limit L in 2..60 and a recursion of n = L-3..L+3 nested script-function activations through every call form (function, method, constructor, getter, closure factory; the number of activations is known by construction); oracle: the chain runs to completion iff n+1 <= L (global code is one level) and otherwise ends in a RangeError that a script-level try/catch catches, after which the runtime is at rest and reusable; non-trivial = |n+1-L| <= 1; distinct by (form, L, n)",
	Quick:    1500,
	Thorough: 12000,
	Gen: func(t *rapid.T) depthCase {
		l := rapid.IntRange(2, 60).Draw(t, "limit")
		forms := []string{"function", "method", "constructor", "getter"}
		return depthCase{Limit: l, Depth: l + rapid.IntRange(-3, 3).Draw(t, "delta"), Form: rapid.SampledFrom(forms).Draw(t, "form")}
	},
	Check: func(c depthCase) harness.Outcome {
		out := harness.Outcome{Classes: []string{"form:" + c.Form}}
		if c.Depth < 1 {
			out.Discard = "depth < 1"
			return out
		}
		extra := depthExact[c.Form] // activations added by the wrapper function d itself
		n := c.Depth + extra        // total script activations below global code
		out.Nontrivial = n+1-c.Limit >= -1 && n+1-c.Limit <= 1
		vm := otto.New()
		vm.SetStackDepthLimit(c.Limit)
		src := depthForms[c.Form] + fmt.Sprintf(`; var __r; try { __r = "ok:" + d(%d) } catch (e) { __r = "caught:" + e.name + ":" + (e instanceof RangeError) } __r`, c.Depth)
		res := harness.Run(vm, src)
		want := fmt.Sprintf("ok:%d", c.Depth)
		if n+1 > c.Limit {
			want = "caught:RangeError:true"
		}
		if res.Panicked || res.Err != nil || res.Value.String() != want {
			out.Fail = fmt.Sprintf("limit %d, %d nested activations via %s: got %s, want %s (a chain of n activations below global code runs iff n+1 <= limit)", c.Limit, n, c.Form, res.Describe(), want)
			return out
		}
		if d := otto.VerifScopeDepth(vm); d != 0 {
			out.Fail = fmt.Sprintf("scope depth at rest after the RangeError is %d", d)
			return out
		}
		vm.SetStackDepthLimit(300)
		if r2 := harness.Run(vm, battery); r2.Panicked || r2.Err != nil || r2.Value.String() != batteryWant {
			out.Fail = fmt.Sprintf("battery after a stack-limit error: %s", r2.Describe())
		}
		return out
	},
})

func TestStackDepthLimit(t *testing.T) { depthFacet.Run(t) }

// ---- facet: depth sweep through call forms whose frame count is the implementation's business -------------

type sweepCase struct {
	Limit int    `json:"limit"`
	Form  string `json:"form"`
}

// d(n) recurses n levels through the form; how many engine frames a level costs is not asserted
var sweepForms = map[string]string{
	"indirect-eval": `var ge = eval; function d(n){ return n<=1 ? 1 : 1+ge("d("+(n-1)+")") }`,
	"direct-eval":   `function d(n){ return n<=1 ? 1 : 1+eval("d("+(n-1)+")") }`,
	"call":          `function d(n){ return n<=1 ? 1 : 1+d.call(null, n-1) }`,
	"apply":         `function d(n){ return n<=1 ? 1 : 1+d.apply(null, [n-1]) }`,
	"bound":         `function d(n){ return n<=1 ? 1 : 1+d.bind(null, n-1)() }`,
	"foreach":       `function d(n){ var r=1; if(n>1) [0].forEach(function(){ r=1+d(n-1) }); return r }`,
	"sort":          `function d(n){ var r=1; if(n>1) [2,1].sort(function(a,b){ r=1+d(n-1); return a-b }); return r }`,
	"replace":       `function d(n){ var r=1; if(n>1) "x".replace(/x/, function(){ r=1+d(n-1); return "" }); return r }`,
	"valueof":       `function d(n){ return n<=1 ? 1 : 1+({valueOf:function(){ return d(n-1) }}) }`,
	"tojson":        `function d(n){ return n<=1 ? 1 : 1+JSON.parse(JSON.stringify({toJSON:function(){ return d(n-1) }})) }`,
	"new-function":  `var d = new Function("n", "return n<=1 ? 1 : 1+d(n-1)")`,
	// forms whose frame count is evident, checked against the exact threshold (see sweepExact)
	"plain":        `function d(n){ return n<=1 ? 1 : 1+d(n-1) }`,
	"native-leaf":  `function d(n){ return n<=1 ? Math.abs(-1) : 1+d(n-1) }`,
	"host-leaf":    `function d(n){ return n<=1 ? host(1) : 1+d(n-1) }`,
	"foreach-leaf": `function d(n){ if (n<=1) { var r=0; [1].forEach(function(x){ r=x }); return r } return 1+d(n-1) }`,
	"getter-proto":  `function P(){} Object.defineProperty(P.prototype, "v", {get:function(){ var k=this.n; if(k<=1) return 1; var q=new P(); q.n=k-1; return 1+q.v }}); function d(n){ var p=new P(); p.n=n; return p.v }`,
}

// sweepExact gives, for the forms where it is evident, the number of frames a chain of n levels needs on top of
// the global code: one per script function, one per native or host function, one per callback. "The stack depth
// limit admits exactly the configured nesting": with limit L the chain runs iff that number is at most L-1 (the
// global code is the first level), and a host function at the leaf is not entered when the chain is refused.
var sweepExact = map[string]func(n int) int{
	"plain":        func(n int) int { return n },
	"native-leaf":  func(n int) int { return n + 1 },
	"host-leaf":    func(n int) int { return n + 1 },
	"foreach-leaf": func(n int) int { return n + 2 },
}

var sweepFacet = harness.Register(&harness.Facet[sweepCase]{
	Name:     "stack-depth-sweep",
	Rule:     "rapid: a stack depth limit L in 2..40 and a recursion form whose engine-frame cost per level is implementation business (indirect and direct eval, call, apply, bind, forEach/sort/replace callbacks, valueOf coercion, toJSON, new Function, prototype getter; plus four forms whose frame count is evident — plain recursion, a native, a host function or a forEach callback at the leaf — for which the exact threshold is asserted: a chain needing f frames above the global code runs iff f <= L-1, and a refused chain never enters the host function at its leaf); ALL depths 1..L+4 are run on one runtime. Oracle: every run either completes with the right count or ends in a RangeError the script catches (never a Go panic, never another error); the outcome is monotone in the depth (once refused, always refused) and a chain of more than L levels is always refused; after every run the runtime is at rest (scope depth 0, no pending labels) and a battery run under a generous limit behaves normally. Non-trivial = every case; distinct by (form, L)",
	Quick:    250,
	Thorough: 2500,
	Gen: func(t *rapid.T) sweepCase {
		var forms []string
		for f := range sweepForms {
			forms = append(forms, f)
		}
		sortStrings(forms)
		return sweepCase{Limit: rapid.IntRange(2, 40).Draw(t, "limit"), Form: rapid.SampledFrom(forms).Draw(t, "form")}
	},
	Check: func(c sweepCase) harness.Outcome {
		out := harness.Outcome{Nontrivial: true, Classes: []string{"form:" + c.Form}}
		vm := otto.New()
		vm.SetStackDepthLimit(300)
		hostCalls := 0
		vm.Set("host", func(call otto.FunctionCall) otto.Value { hostCalls++; return call.Argument(0) })
		if r := harness.Run(vm, sweepForms[c.Form]+"; function __battery() { return "+battery+" }"); r.Panicked || r.Err != nil {
			out.Fail = "definition failed: " + r.Describe()
			return out
		}
		refused := false
		for n := 1; n <= c.Limit+4; n++ {
			vm.SetStackDepthLimit(c.Limit)
			hostBefore := hostCalls
			res := harness.Run(vm, fmt.Sprintf(`var __r; try { __r = "ok:" + d(%d) } catch (e) { __r = "caught:" + e.name + ":" + (e instanceof RangeError) } __r`, n))
			got := res.Describe()
			if cost, ok := sweepExact[c.Form]; ok && !res.Panicked {
				admitted := res.Err == nil && got == fmt.Sprintf("ok:%d", n)
				if want := cost(n) <= c.Limit-1; admitted != want {
					out.Fail = fmt.Sprintf("limit %d, form %s, depth %d needs %d frames above the global code: admitted=%v, want %v (the limit admits exactly the configured nesting); outcome %s", c.Limit, c.Form, n, cost(n), admitted, want, got)
					return out
				}
				if !admitted && hostCalls != hostBefore {
					out.Fail = fmt.Sprintf("limit %d, form %s, depth %d: the chain was refused but the host function at its leaf was entered", c.Limit, c.Form, n)
					return out
				}
			}
			switch {
			case res.Panicked:
				out.Fail = fmt.Sprintf("limit %d, form %s, depth %d: a Go panic crossed Run: %v", c.Limit, c.Form, n, res.Panic)
			case res.Err != nil && harness.ErrName(res.Err) != "RangeError":
				out.Fail = fmt.Sprintf("limit %d, form %s, depth %d: Run returned %s (want a result or a RangeError)", c.Limit, c.Form, n, got)
			case res.Err == nil && got == fmt.Sprintf("ok:%d", n):
				if refused {
					out.Fail = fmt.Sprintf("limit %d, form %s: depth %d runs although a shallower chain was refused (the limit leaks or shifts)", c.Limit, c.Form, n)
				}
				if n > c.Limit {
					out.Fail = fmt.Sprintf("limit %d, form %s: a chain of %d script levels ran although the limit is %d", c.Limit, c.Form, n, c.Limit)
				}
			case res.Err != nil || got == "caught:RangeError:true":
				refused = true
			default:
				out.Fail = fmt.Sprintf("limit %d, form %s, depth %d: unexpected outcome %s", c.Limit, c.Form, n, got)
			}
			if out.Fail != "" {
				return out
			}
			if d := otto.VerifScopeDepth(vm); d != 0 {
				out.Fail = fmt.Sprintf("limit %d, form %s, depth %d (%s): scope depth at rest is %d, want 0", c.Limit, c.Form, n, got, d)
				return out
			}
			if l := otto.VerifLabelCount(vm); l != 0 {
				out.Fail = fmt.Sprintf("limit %d, form %s, depth %d: %d pending labels at rest", c.Limit, c.Form, n, l)
				return out
			}
			vm.SetStackDepthLimit(300)
			if b := harness.Guard(func() (otto.Value, error) { return vm.Call("__battery", nil) }); b.Panicked || b.Err != nil || b.Value.String() != batteryWant {
				out.Fail = fmt.Sprintf("limit %d, form %s: battery after depth %d (%s) gave %s", c.Limit, c.Form, n, got, b.Describe())
				return out
			}
		}
		return out
	},
})

func TestStackDepthSweep(t *testing.T) { sweepFacet.Run(t) }

// ---- facet: every loop iteration polls; asynchronous delivery ends a non-terminating run ----------------

type asyncCase struct {
	Src     string `json:"src"`
	DelayUS int    `json:"delay_us"`
	Cap     int    `json:"cap"` // capacity of the interrupt channel: 0 = unbuffered (the sender blocks until the interpreter receives)
}

func cpuSeconds() float64 {
	var ru syscall.Rusage
	if err := syscall.Getrusage(syscall.RUSAGE_SELF, &ru); err != nil {
		return 0
	}
	return float64(ru.Utime.Sec+ru.Stime.Sec) + float64(ru.Utime.Usec+ru.Stime.Usec)/1e6
}

func goid() string {
	b := make([]byte, 64)
	b = b[:runtime.Stack(b, false)]
	return strings.Fields(strings.TrimPrefix(string(b), "goroutine "))[0]
}

var nonTerminating = func() []string {
	var out []string
	for _, t := range templates {
		if tryRe.MatchString(t.src) {
			continue
		}
		if t.family == "empty-loop" || (t.family == "callback" && (strings.Contains(t.src, "for(;;)") || strings.Contains(t.src, "while(true)"))) {
			out = append(out, t.src)
		}
	}
	return out
}()

var asyncFacet = harness.Register(&harness.Facet[asyncCase]{
	Name:     "async-delivery",
	Rule:     "rapid: a non-terminating program (every empty-bodied loop form, loops inside callbacks of sort/forEach/replace) and a delay; another goroutine sends a panicking function on the interrupt channel (capacity 0 = unbuffered, 1 or 4) after the delay; oracle: Run ends with that panic within the watchdog (10 s of process CPU time after the send, measured with getrusage so that machine load cannot fake it; re-confirmed once; 150 s of wall clock without that much CPU is a discard), the function ran on the goroutine that called Run, nothing ran after it, runtime reusable. Deterministic companion: for every loop form, k more iterations cause >= k more polls (bounded progress between polls). Non-trivial = every case; distinct by (program, delay)",
	Quick:    60,
	Thorough: 400,
	Gen: func(t *rapid.T) asyncCase {
		return asyncCase{Src: rapid.SampledFrom(nonTerminating).Draw(t, "src"), DelayUS: rapid.IntRange(0, 3000).Draw(t, "delay"),
			Cap: rapid.SampledFrom([]int{1, 0, 0, 4}).Draw(t, "cap")}
	},
	Check: func(c asyncCase) harness.Outcome {
		out := harness.Outcome{Nontrivial: true, Classes: []string{"channel-capacity:" + strconv.Itoa(c.Cap)}}
		attempt := func() (string, bool) {
			vm := otto.New()
			var trace []string
			vm.Set("log", func(call otto.FunctionCall) otto.Value {
				trace = append(trace, call.Argument(0).String())
				return otto.UndefinedValue()
			})
			vm.Interrupt = make(chan func(), c.Cap)
			runG := ""
			firedG := ""
			after := -1
			done := make(chan harness.RunResult, 1)
			go func() {
				runG = goid()
				done <- harness.Run(vm, c.Src)
			}()
			go func() {
				time.Sleep(time.Duration(c.DelayUS) * time.Microsecond)
				vm.Interrupt <- func() {
					firedG = goid()
					after = len(trace)
					panic(sentinel{-1})
				}
			}()
			// wait in CPU time, not wall time: on a loaded machine the process may simply not be scheduled.
			// A Run that has burnt 10 s of CPU since the interrupt was sent without ending has stopped polling;
			// 150 s of wall clock without that much CPU is inconclusive (counted as a discard).
			startCPU, startWall := cpuSeconds(), time.Now()
			var res harness.RunResult
			for finished := false; !finished; {
				select {
				case res = <-done:
					finished = true
				case <-time.After(250 * time.Millisecond):
					if cpuSeconds()-startCPU > 10 {
						return "Run did not end although the process burnt 10 s of CPU after the interrupt was sent (the script stopped polling)", true
					}
					if time.Since(startWall) > 150*time.Second {
						return "inconclusive", true
					}
				}
			}
			{
				s, ok := res.Panic.(sentinel)
				if !res.Panicked || !ok || s.K != -1 {
					return fmt.Sprintf("Run ended with %s instead of the interrupt's panic", res.Describe()), false
				}
				if firedG != runG {
					return fmt.Sprintf("interrupt function ran on goroutine %s, Run was called on %s", firedG, runG), false
				}
				if len(trace) != after {
					return "the script continued after the interrupt function panicked", false
				}
				if d := otto.VerifScopeDepth(vm); d != 0 {
					return fmt.Sprintf("scope depth at rest %d", d), false
				}
				vm.Interrupt = nil
				if r2 := harness.Run(vm, battery); r2.Panicked || r2.Err != nil || r2.Value.String() != batteryWant {
					return "battery after async interrupt: " + r2.Describe(), false
				}
				return "", false
			}
		}
		msg, timedOut := attempt()
		if timedOut && msg != "inconclusive" {
			msg, timedOut = attempt() // re-confirm once
		}
		if msg == "inconclusive" {
			out.Discard = "machine too loaded to judge asynchronous delivery (150 s wall without 10 s of CPU)"
			return out
		}
		if timedOut {
			// the run is still spinning on its goroutine and cannot be stopped: report without shrinking
			fatalAsync(c, msg+"\n"+c.Src)
		}
		if msg != "" {
			out.Fail = msg + "\n" + c.Src
		}
		return out
	},
})

func TestAsyncDelivery(t *testing.T) { asyncFacet.Run(t) }

type pollCase struct {
	Form string `json:"form"`
	K1   int    `json:"k1"`
	K2   int    `json:"k2"`
}

var loopForms = map[string]string{
	"for-empty-block":   `for(var i=0;i<%K;i++){}`,
	"for-empty-stmt":    `for(var i=0;i<%K;i++);`,
	"while-empty":       `var i=0; while(i++<%K);`,
	"while-block":       `var i=0; while(i++<%K){}`,
	"dowhile-empty":     `var i=0; do ; while(++i<%K);`,
	"dowhile-block":     `var i=0; do {} while(++i<%K);`,
	"forin-empty":       `var o={}; for(var j=0;j<%K;j++) o["k"+j]=1; for(var k in o);`,
	"labelled-continue": `var i=0; L: while(i++<%K){ continue L }`,
	"recursion":         `function r(n){ return n<=0?0:r(n-1) } r(%K)`,
	"foreach":           `var a=[]; for(var j=0;j<%K;j++) a[j]=j; a.forEach(function(){})`,
	"replace":           `var s=""; for(var j=0;j<%K;j++) s+="a"; s.replace(/a/g,function(){return "b"})`,
}

func pollsOf(src string) (int64, string) {
	r := newRig()
	r.limit = 1 << 40
	res, wedged := r.submit("run", src)
	if wedged {
		return 0, "wedged"
	}
	if res.Panicked || res.Err != nil {
		return 0, res.Describe()
	}
	return r.polls, ""
}

var pollFacet = harness.Register(&harness.Facet[pollCase]{
	Name:     "every-iteration-polls",
	Rule:     "rapid: a loop form (empty-bodied for/while/do-while in both spellings, for-in, labelled continue, recursion, forEach/replace callbacks) run with K1 and K2 > K1 iterations under a counting interrupt function; oracle: polls(K2) - polls(K1) >= K2 - K1 (for sort, whose comparator-call count is not monotone in the length: polls >= number of comparator calls), i.e. no iteration of any loop form makes progress without reaching a polling point (so an interrupt is delivered before unbounded further progress); non-trivial = every case; distinct by (form, K1, K2)",
	Quick:    300,
	Thorough: 3000,
	Gen: func(t *rapid.T) pollCase {
		var forms []string
		for f := range loopForms {
			forms = append(forms, f)
		}
		forms = append(forms, "sort-callbacks")
		sortStrings(forms)
		k1 := rapid.IntRange(1, 30).Draw(t, "k1")
		return pollCase{Form: rapid.SampledFrom(forms).Draw(t, "form"), K1: k1, K2: k1 + rapid.IntRange(1, 40).Draw(t, "dk")}
	},
	Check: func(c pollCase) harness.Outcome {
		out := harness.Outcome{Nontrivial: true, Classes: []string{"form:" + c.Form}}
		if c.Form == "sort-callbacks" || c.Form == "sort" {
			// the number of comparator calls is not monotone in the array length: count the calls instead —
			// every callback invocation must reach at least one polling point
			r := newRig()
			r.limit = 1 << 40
			res, wedged := r.submit("run", strings.ReplaceAll(`var n=0, a=[]; for(var j=0;j<%K;j++) a[j]=(j*7)%5; a.sort(function(x,y){ n++; return x-y }); n`, "%K", strconv.Itoa(c.K2)))
			if wedged || res.Panicked || res.Err != nil {
				out.Fail = "sort program failed: " + res.Describe()
				return out
			}
			calls, _ := res.Value.ToInteger()
			if r.polls < calls {
				out.Fail = fmt.Sprintf("sort with %d elements made %d comparator calls but only %d polling points were reached", c.K2, calls, r.polls)
			}
			return out
		}
		p1, e1 := pollsOf(strings.ReplaceAll(loopForms[c.Form], "%K", strconv.Itoa(c.K1)))
		p2, e2 := pollsOf(strings.ReplaceAll(loopForms[c.Form], "%K", strconv.Itoa(c.K2)))
		if e1 != "" || e2 != "" {
			out.Fail = "loop program failed: " + e1 + e2
			return out
		}
		if p2-p1 < int64(c.K2-c.K1) {
			out.Fail = fmt.Sprintf("loop form %s: %d iterations reach %d polls, %d iterations %d polls: %d extra iterations but only %d extra polling points (an iteration makes progress without polling the interrupt channel)", c.Form, c.K1, p1, c.K2, p2, c.K2-c.K1, p2-p1)
		}
		return out
	},
})

func TestEveryIterationPolls(t *testing.T) { pollFacet.Run(t) }

func sortStrings(s []string) {
	for i := 1; i < len(s); i++ {
		for j := i; j > 0 && s[j] < s[j-1]; j-- {
			s[j], s[j-1] = s[j-1], s[j]
		}
	}
}
