// Package c19 decides property C19: errors surface with the right class, message and source position.
package c19

import (
	"errors"
	"fmt"
	"os"
	"regexp"
	"strconv"
	"strings"
	"testing"

	"github.com/robertkrimen/otto"
	"github.com/robertkrimen/otto/parser"
	"pgregory.net/rapid"

	"verif/lib/harness"
	"verif/lib/m19"
)

func TestMain(m *testing.M) {
	registerWitnesses()
	harness.Main(m, "C19")
}

// ---- running a program ------------------------------------------------------------------------------

type runOut struct {
	err      error
	panicked string
	parseErr error // the program did not parse (Compile / ParseFile / Run(string))
	obs      map[string]string
}

func newVM(limit int) *otto.Otto {
	vm := otto.New()
	if limit > 0 {
		vm.SetStackTraceLimit(limit)
	}
	vm.SetStackDepthLimit(500)
	if err := vm.Set("host", func(call otto.FunctionCall) otto.Value {
		v, err := call.Argument(0).Call(otto.NullValue())
		if err != nil {
			panic(err) // the way otto's own TestErrorContextNative propagates a script error through Go
		}
		return v
	}); err != nil {
		panic(err)
	}
	if _, err := vm.Run(m19.Prelude); err != nil {
		panic("c19 prelude: " + err.Error())
	}
	return vm
}

func runProgram(vm *otto.Otto, c m19.Case, src string) (out runOut) {
	var source interface{} = src
	switch c.Route {
	case "compile":
		s, err := vm.Compile(c.File, src)
		if err != nil {
			out.parseErr = err
			return out
		}
		source = s
	case "program":
		p, err := parser.ParseFile(nil, c.File, src, 0)
		if err != nil {
			out.parseErr = err
			return out
		}
		source = p
	}
	r := harness.Run(vm, source)
	if r.Panicked {
		out.panicked = fmt.Sprint(r.Panic)
		return out
	}
	out.err = r.Err
	if c.Route == "run-string" && r.Err != nil {
		if _, ok := asErrorList(r.Err); ok {
			out.parseErr, out.err = r.Err, nil
		}
	}
	return out
}

func asErrorList(err error) (parser.ErrorList, bool) {
	var pl *parser.ErrorList
	if errors.As(err, &pl) && pl != nil {
		return *pl, true
	}
	return nil, false
}

func readObs(vm *otto.Otto) map[string]string {
	v, err := vm.Get("__obs")
	if err != nil || !v.IsObject() {
		return nil
	}
	o := v.Object()
	out := map[string]string{}
	for _, k := range o.Keys() {
		x, _ := o.Get(k)
		s, _ := x.ToString()
		out[k] = s
	}
	return out
}

// errorText is ES5 15.11.4.4 applied to the observed name and message.
func errorText(nameType, name, msgType, msg string) string {
	if nameType == "undefined" {
		name = "Error"
	}
	if msgType == "undefined" {
		msg = ""
	}
	switch {
	case name == "":
		return msg
	case msg == "":
		return name
	}
	return name + ": " + msg
}

// ---- expected trace ---------------------------------------------------------------------------------

// coords picks the coordinate system run-time positions are compared in: the true one, or the
// one distorted by the findings that are still present.
func coords(p m19.Pos) (int, int) {
	lineK, colK := harness.Known(m19.KLineTerm), harness.Known(m19.KColBytes)
	switch {
	case lineK && colK:
		return p.NLine, p.NBCol
	case lineK:
		return p.NLine, p.NCol
	case colK:
		return p.Line, p.BCol
	}
	return p.Line, p.Col
}

func parserCoords(p m19.Pos) (int, int) {
	if harness.Known(m19.KColBytesP) {
		return p.Line, p.BCol
	}
	return p.Line, p.Col
}

func less(l1, c1, l2, c2 int) bool { return l1 < l2 || l1 == l2 && c1 < c2 }

var hostLine = regexp.MustCompile(`^    at \S+ \(\S+\.go:\d+\)$`)

// matchFrame compares one trace line with the expected frame; excluded reports a known finding
// that was compared modulo.
func matchFrame(f m19.Frame, line string) (problem string, excluded string) {
	switch {
	case f.Native:
		want := "    at " + f.Name + " (<native code>)"
		if line != want {
			return fmt.Sprintf("want %q", want), ""
		}
		return "", ""
	case f.Host:
		if !hostLine.MatchString(line) {
			return "want a Go host frame `    at <func> (<file>.go:<line>)`", ""
		}
		return "", ""
	}
	pre, suf := "    at ", ""
	if f.Name != "" {
		pre, suf = "    at "+f.Name+" (", ")"
	}
	for _, id := range f.Wild {
		if harness.Known(id) {
			// the location is unreliable under this finding; the function name still has to be right
			if !strings.HasPrefix(line, pre) || !strings.HasSuffix(line, suf) || (f.Name == "" && strings.HasSuffix(line, ")")) {
				return fmt.Sprintf("want %q<location>%q", pre, suf), id
			}
			return "", id
		}
	}
	l, c := coords(f.At)
	want := fmt.Sprintf("%s%s:%d:%d%s", pre, f.Label, l, c, suf)
	if f.Exact {
		if line != want {
			return fmt.Sprintf("want %q", want), ""
		}
		return "", ""
	}
	// no documented position inside the construct: any position within its span is accepted
	head := pre + f.Label + ":"
	if !strings.HasPrefix(line, head) || !strings.HasSuffix(line, suf) {
		return fmt.Sprintf("want %q<line:column within the construct>%q", head, suf), ""
	}
	lc := strings.Split(strings.TrimSuffix(strings.TrimPrefix(line, head), suf), ":")
	if len(lc) != 2 {
		return "want line:column within the construct", ""
	}
	gl, e1 := strconv.Atoi(lc[0])
	gc, e2 := strconv.Atoi(lc[1])
	el, ec := coords(f.End)
	if e1 != nil || e2 != nil || less(gl, gc, l, c) || !less(gl, gc, el, ec) {
		return fmt.Sprintf("want a position in [%d:%d, %d:%d)", l, c, el, ec), ""
	}
	return "", ""
}

// ---- the check --------------------------------------------------------------------------------------

func normalize(c m19.Case) m19.Case {
	if c.Limit < 1 {
		c.Limit = 10
	}
	if c.Route == "" {
		c.Route = "compile"
	}
	return c
}

func hasLink(c m19.Case, kind string) bool {
	for _, l := range c.Links {
		if l.Kind == kind {
			return true
		}
	}
	return false
}

func checkCase(c m19.Case) harness.Outcome {
	c = normalize(c)
	out := harness.Outcome{}
	exSet := map[string]bool{}
	excl := func(id string) {
		if id != "" && !exSet[id] {
			exSet[id] = true
			out.Excluded = append(out.Excluded, id)
		}
	}
	if hasLink(c, "notref") && harness.Known(m19.KNotRef) {
		return harness.Outcome{Discard: "known class " + m19.KNotRef}
	}
	un := m19.Render(c, false)
	ex := un.Expect
	if ex.Class == "" && hasLink(c, "host") {
		return harness.Outcome{Discard: "host function re-panicking a non-Error value is outside C19 (C16)"}
	}
	fail := func(format string, a ...interface{}) harness.Outcome {
		out.Fail = fmt.Sprintf(format, a...) + "\n" + c.Describe() + "\n--- program ---\n" + un.Src + "\n---"
		return out
	}

	// classes
	kinds := map[string]bool{}
	for _, l := range c.Links {
		kinds[l.Kind] = true
	}
	out.Classes = append(out.Classes, un.Features...)
	out.Classes = append(out.Classes, "limit:"+limitClass(c.Limit, len(un.Frames)), "route:"+c.Route, fmt.Sprintf("links:%d", len(c.Links)))
	if c.File == "" {
		out.Classes = append(out.Classes, "file:anonymous")
	} else {
		out.Classes = append(out.Classes, "file:named")
	}

	// ---- syntax errors of the program itself (oracle 4) ------------------------------------------
	if un.ParseError {
		out.Classes = append(out.Classes, "mode:parse-error")
		out.Nontrivial = un.SynAt.Line > 1 && un.SynAt.Col > 1
		vm := newVM(c.Limit)
		r := runProgram(vm, c, un.Src)
		if r.panicked != "" {
			return fail("Go panic out of the API: %s", r.panicked)
		}
		if r.parseErr == nil {
			return fail("a program with an injected syntax error at %v was accepted (run error: %v)", un.SynAt, r.err)
		}
		list, ok := asErrorList(r.parseErr)
		if !ok || len(list) == 0 {
			return fail("the parse error is a %T, not a parser.ErrorList: %v", r.parseErr, r.parseErr)
		}
		wl, wc := parserCoords(un.SynAt)
		if harness.Known(m19.KColBytesP) && un.SynAt.BCol != un.SynAt.Col {
			excl(m19.KColBytesP)
		}
		got := list[0].Position
		if got.Line != wl || got.Column != wc {
			return fail("syntax error position: ErrorList[0].Position = %d:%d (%s), offending token is at %d:%d", got.Line, got.Column, list[0].Message, wl, wc)
		}
		wantFile := c.File
		if c.Route == "run-string" {
			wantFile = ""
		}
		if got.Filename != wantFile {
			return fail("syntax error position: Filename %q, want %q", got.Filename, wantFile)
		}
		shown := wantFile
		if shown == "" {
			shown = "(anonymous)"
		}
		want := fmt.Sprintf("%s: Line %d:%d ", shown, wl, wc)
		if !strings.HasPrefix(r.parseErr.Error(), want) {
			return fail("error text %q does not start with %q", r.parseErr.Error(), want)
		}
		// the same text handed to eval must give a SyntaxError carrying the same numbers
		vm2 := newVM(c.Limit)
		if err := vm2.Set("__src", un.Src); err != nil {
			return fail("cannot set __src: %v", err)
		}
		rr := harness.Run(vm2, `var __r; try { eval(__src); __r = "no error"; } catch (e) { __r = (e instanceof SyntaxError) + "|" + e.name + "|" + e.message; } __r`)
		if rr.Panicked || rr.Err != nil {
			return fail("eval of the text: %s", rr.Describe())
		}
		s, _ := rr.Value.ToString()
		if !strings.HasPrefix(s, "true|SyntaxError|") || !strings.Contains(s, fmt.Sprintf("Line %d:%d ", wl, wc)) {
			return fail("eval of the same text: got %q, want a SyntaxError (ES5 15.1.2.1) whose message carries Line %d:%d", s, wl, wc)
		}
		return out
	}

	// ---- caught by the script (oracle 1) -----------------------------------------------------------
	ca := m19.Render(c, true)
	vmc := newVM(c.Limit)
	rc := runProgram(vmc, c, ca.Src)
	if rc.panicked != "" {
		return fail("Go panic out of the API (catching program): %s", rc.panicked)
	}
	if rc.parseErr != nil {
		return fail("generator error: the catching program does not parse: %v\n%s", rc.parseErr, ca.Src)
	}
	if rc.err != nil {
		return fail("the exception was not catchable by the script's try/catch: Run returned %v\n--- catching program ---\n%s", rc.err, ca.Src)
	}
	obs := readObs(vmc)
	if obs == nil {
		return fail("the construct did not throw (the catch block never ran)\n--- catching program ---\n%s", ca.Src)
	}
	var wantText string
	if ex.Class != "" {
		wantChain := ex.Class + ".prototype > Error.prototype > Object.prototype > null"
		wantInst := "Error," + ex.Class
		if ex.Class == "Error" {
			wantChain = "Error.prototype > Object.prototype > null"
			wantInst = "Error"
		}
		switch {
		case obs["type"] != "object":
			return fail("caught value has typeof %q, want an object that is a %s", obs["type"], ex.Class)
		case obs["inst"] != wantInst:
			return fail("caught value is instanceof {%s}, want {%s}", obs["inst"], wantInst)
		case obs["ctor"] != ex.Class:
			return fail("e.constructor is %s, want %s", obs["ctor"], ex.Class)
		case obs["chain"] != wantChain:
			return fail("prototype chain %q, want %q", obs["chain"], wantChain)
		case obs["cls"] != "[object Error]":
			return fail("Object.prototype.toString.call(e) = %q, want [object Error] (ES5 15.11.5)", obs["cls"])
		case obs["nameType"] != "string" || obs["name"] != ex.Name:
			return fail("e.name = %s %q, want %q", obs["nameType"], obs["name"], ex.Name)
		}
		emptyKnown := ex.EmptyMsgID != "" && harness.Known(ex.EmptyMsgID)
		switch {
		case emptyKnown:
			excl(ex.EmptyMsgID)
		case obs["msgType"] != "string":
			return fail("typeof e.message = %q, want string", obs["msgType"])
		case ex.Message != nil && obs["msg"] != *ex.Message:
			return fail("e.message = %q, want %q (ES5 15.11.1.1/15.11.2.1/15.11.4.3)", obs["msg"], *ex.Message)
		case !ex.UserMsg && obs["msg"] == "":
			return fail("e.message is empty for an error raised by the interpreter")
		}
		wantText = errorText(obs["nameType"], obs["name"], obs["msgType"], obs["msg"])
		if ex.Renamed && harness.Known(m19.KRenamed) {
			wantText = errorText("string", ex.CtorName, "string", ex.CtorMsg)
			excl(m19.KRenamed)
		}
		if ca.Syntax {
			wl, wc := parserCoords(ca.SynAt)
			if harness.Known(m19.KColBytesP) && ca.SynAt.BCol != ca.SynAt.Col {
				excl(m19.KColBytesP)
			}
			if !strings.Contains(obs["msg"], fmt.Sprintf("Line %d:%d ", wl, wc)) {
				// positions in the catching program differ from the uncaught one; this one is checked against its own text
				return fail("SyntaxError message %q does not carry the offending token's position Line %d:%d\n--- catching program ---\n%s", obs["msg"], wl, wc, ca.Src)
			}
		}
	} else {
		if obs["type"] != ex.Thrown {
			return fail("caught value has typeof %q, want %q", obs["type"], ex.Thrown)
		}
		if obs["str"] != ex.Text {
			return fail("String(caught value) = %q, want %q", obs["str"], ex.Text)
		}
		wantText = obs["str"]
	}

	// ---- uncaught (oracles 2 and 3) ----------------------------------------------------------------
	vm := newVM(c.Limit)
	r := runProgram(vm, c, un.Src)
	if r.panicked != "" {
		return fail("Go panic out of the API: %s", r.panicked)
	}
	if r.parseErr != nil {
		return fail("generator error: the program does not parse: %v", r.parseErr)
	}
	if r.err == nil {
		return fail("Run returned no error for an uncaught exception")
	}
	if got := r.err.Error(); got != wantText {
		return fail("Run's error text is %q, want %q ('Name: message' of the thrown value as the script sees it)", got, wantText)
	}
	if ex.Class == "" {
		out.Nontrivial = nontrivial(c, un)
		return out
	}
	var oe *otto.Error
	if !errors.As(r.err, &oe) {
		return fail("Run returned a %T, want *otto.Error", r.err)
	}
	if un.Syntax {
		wl, wc := parserCoords(un.SynAt)
		if !strings.Contains(r.err.Error(), fmt.Sprintf("Line %d:%d ", wl, wc)) {
			return fail("SyntaxError text %q does not carry the offending token's position Line %d:%d (in the eval code)", r.err.Error(), wl, wc)
		}
	}
	trace := oe.String()
	lines := strings.Split(trace, "\n")
	if len(lines) < 2 || lines[len(lines)-1] != "" {
		return fail("trace does not end with a newline: %q", trace)
	}
	lines = lines[:len(lines)-1]
	if lines[0] != wantText {
		return fail("first line of the trace is %q, want %q", lines[0], wantText)
	}
	lines = lines[1:]
	// expected frames, innermost first
	var want []m19.Frame
	for i := len(un.Frames) - 1; i >= 0; i-- {
		want = append(want, un.Frames[i])
	}
	if len(ex.Heads) > 0 && len(lines) > 0 && lines[0] == "    at "+ex.Heads[0]+" (<native code>)" {
		want = append([]m19.Frame{{Name: ex.Heads[0], Native: true}}, want...)
		out.Classes = append(out.Classes, "native-head")
	}
	full := len(want)
	if c.Limit < len(want) {
		want = want[:c.Limit]
	}
	show := func() string {
		var b strings.Builder
		for i, f := range want {
			l, cc := coords(f.At)
			fmt.Fprintf(&b, "  want[%d] name=%q native=%v host=%v %s:%d:%d exact=%v wild=%v\n", i, f.Name, f.Native, f.Host, f.Label, l, cc, f.Exact, f.Wild)
		}
		return b.String()
	}
	if len(lines) != len(want) {
		return fail("trace has %d frames, want %d (%d active frames, limit %d)\n%s%s", len(lines), len(want), full, c.Limit, trace, show())
	}
	for i, f := range want {
		problem, id := matchFrame(f, lines[i])
		excl(id)
		if problem != "" {
			return fail("trace line %d is %q: %s\n%s%s", i, lines[i], problem, trace, show())
		}
	}
	if harness.Known(m19.KColBytes) || harness.Known(m19.KLineTerm) {
		for _, f := range want {
			if !f.Native && !f.Host {
				if f.At.BCol != f.At.Col {
					excl(m19.KColBytes)
				}
				if f.At.NLine != f.At.Line || f.At.NBCol != f.At.BCol {
					excl(m19.KLineTerm)
				}
			}
		}
	}
	out.Nontrivial = nontrivial(c, un)
	return out
}

func limitClass(limit, frames int) string {
	switch {
	case limit < frames:
		return "truncating"
	case limit == frames:
		return "exact"
	}
	return "loose"
}

// nontrivial: n ≥ 3 links of ≥ 2 kinds and the raising construct not at line 1 column 1.
func nontrivial(c m19.Case, r m19.Rendered) bool {
	kinds := map[string]bool{}
	for _, l := range c.Links {
		kinds[l.Kind] = true
	}
	inner := r.Frames[len(r.Frames)-1]
	return len(c.Links) >= 3 && len(kinds) >= 2 && !(inner.At.Line == 1 && inner.At.Col == 1)
}

// ---- generators -------------------------------------------------------------------------------------

var fileNames = []string{"", "a.js", "lib/dir/file-1.js", "weird name.js", "x.y.z"}
var limits = []int{1, 2, 3, 4, 5, 6, 7, 8, 9, 10, 11, 12, 50}

func linkPool() []string {
	var pool []string
	for _, k := range m19.LinkKinds {
		w := 4
		switch k {
		case "notref":
			if harness.Known(m19.KNotRef) {
				w = 0 // steered around by construction while the finding stands
			}
		case "getter", "setter":
			if harness.Known(m19.KAccessor) {
				w = 1
			}
		case "eval":
			w = 6
		}
		for i := 0; i < w; i++ {
			pool = append(pool, k)
		}
	}
	return pool
}

func noisePool() []string {
	var pool []string
	for _, k := range m19.Noises {
		w := 3
		if k == "eval0" && harness.Known(m19.KEvalFile) {
			w = 1
		}
		for i := 0; i < w; i++ {
			pool = append(pool, k)
		}
	}
	return pool
}

func genNoise(t *rapid.T, label string) []string {
	if rapid.IntRange(0, 3).Draw(t, label+"-n") != 0 {
		return nil
	}
	return rapid.SliceOfN(rapid.SampledFrom(noisePool()), 1, 2).Draw(t, label)
}

// genCase draws a case. mode: "trace" (run-time kinds, LF, ASCII), "syntax" (syntax-error kinds),
// "unicode" (every kind, other line terminators and non-ASCII text).
func genCase(t *rapid.T, mode string) m19.Case {
	var c m19.Case
	n := rapid.SampledFrom([]int{0, 1, 2, 3, 3, 4, 4, 5, 5, 6, 6, 7, 8, 9, 10, 11, 12}).Draw(t, "n")
	pool := linkPool()
	// raise
	var kinds []int
	for i, k := range m19.RaiseKinds {
		switch {
		case mode == "syntax" && k.Kind != "syntax":
		case mode == "trace" && k.Kind == "syntax":
		default:
			kinds = append(kinds, i)
		}
	}
	if mode == "unicode" {
		// syntax errors are one kind among fifteen: give them a quarter of this facet
		for i, k := range m19.RaiseKinds {
			if k.Kind == "syntax" {
				kinds = append(kinds, i, i, i, i)
			}
		}
	}
	rk := m19.RaiseKinds[rapid.SampledFrom(kinds).Draw(t, "raise")]
	c.Raise = m19.Raise{Kind: rk.Kind, Var: rapid.IntRange(0, rk.N-1).Draw(t, "variant"),
		Wrap:  rapid.SampledFrom(m19.Wraps).Draw(t, "rwrap"),
		Stmt:  rapid.SampledFrom(m19.StmtForms).Draw(t, "rstmt"),
		Noise: genNoise(t, "rnoise")}
	if rk.Kind == "syntax" && rapid.IntRange(0, 2).Draw(t, "truncation") == 0 {
		c.Raise.Var = rapid.IntRange(m19.SyntaxEOFFirst, m19.SyntaxEOFLast).Draw(t, "eof-variant") // errors reported at end of input
	}
	nonError := rk.Kind == "throw-prim" || rk.Kind == "throw-object"
	for i := 0; i < n; i++ {
		l := m19.Link{Kind: rapid.SampledFrom(pool).Draw(t, "kind"), Var: rapid.IntRange(0, 89).Draw(t, "lvar"),
			Wrap:  rapid.SampledFrom(m19.Wraps).Draw(t, "wrap"),
			Stmt:  rapid.SampledFrom(m19.StmtForms).Draw(t, "stmt"),
			Noise: genNoise(t, "noise")}
		if l.Kind == "host" && nonError {
			l.Kind = "call"
		}
		if l.Kind == "decl" || l.Kind == "nexpr" || l.Kind == "aexpr" {
			l.Rec = rapid.SampledFrom([]int{0, 0, 0, 1, 2}).Draw(t, "rec")
		}
		c.Links = append(c.Links, l)
	}
	if mode == "syntax" && n > 0 && rapid.IntRange(0, 1).Draw(t, "in-eval") == 0 {
		// half of the syntax cases put the bad text into eval code (run-time SyntaxError with a trace)
		c.Links[n-1].Kind = rapid.SampledFrom([]string{"eval", "eval", "evalind"}).Draw(t, "evalkind")
		c.Links[n-1].Rec = 0
	}
	c.Tape = rapid.SliceOfN(rapid.Byte(), 0, 160).Draw(t, "tape")
	c.Limit = rapid.SampledFrom(limits).Draw(t, "limit")
	c.File = rapid.SampledFrom(fileNames).Draw(t, "file")
	c.Route = rapid.SampledFrom([]string{"compile", "compile", "run-string", "program"}).Draw(t, "route")
	if mode == "syntax" {
		c.NonASCII = rapid.IntRange(0, 2).Draw(t, "nonascii") == 0 // LF only, but a third with non-ASCII comments/strings
	}
	if mode == "unicode" {
		c.LT = rapid.SampledFrom([]string{"\n", "\r\n", "\r", "\u2028", "\u2029", "mix", "mix"}).Draw(t, "lt")
		c.NonASCII = rapid.IntRange(0, 3).Draw(t, "nonascii") != 0
	}
	return c
}

const ruleCommon = "rapid: call chain of 0-12 links drawn from 21 link kinds (declaration, named/anonymous function expression, method, constructor, seven array callbacks, getter and setter (own or inherited through constructor.prototype, an Object.create chain or defineProperty on a prototype; reached through ., [] or a with scope), direct and indirect eval, bound function, call/apply, Go host function, non-reference callee) with recursion, try/finally/rethrow wrappers, nine statement forms and noise statements (including a direct eval that returns and one whose code throws and is caught in the same frame); one raising construct in the innermost frame; layout (indentation, blank lines, comments, token-level line splitting, definition order) from a byte tape; the renderer reports the position of every call site; trace limit 1-12 or 50; file name via Compile/ParseFile or anonymous. Each case runs a catching sibling program (class, prototype chain, name, message) and the uncaught program (error text = 'Name: message' seen by the script; trace lines = active frames innermost first, truncated at the limit). non-trivial = >= 3 links of >= 2 kinds and the construct not at 1:1; distinct by the JSON of the case. "

var traceFacet = harness.Register(&harness.Facet[m19.Case]{
	Name:  "trace",
	Rule:  ruleCommon + "This facet: every run-time raising construct (14 kinds, 515 variants), ASCII source with LF.",
	Quick: 1800, Thorough: 30000,
	Gen:   func(t *rapid.T) m19.Case { return genCase(t, "trace") },
	Check: checkCase,
})

var syntaxFacet = harness.Register(&harness.Facet[m19.Case]{
	Name:  "syntax",
	Rule:  ruleCommon + "This facet: the construct is one of the injected syntax errors of lib/m19 syntaxForms (unterminated string/regexp, unexpected token, juxtaposed tokens, illegal character, illegal break/continue/return, bad regexp, one offending token in ~115 grammatical positions, and nine truncations reported at end of input: unclosed block/paren/array/call/object/function/comment, trailing operator, optionally followed by a comment on the last line); half of the cases put it into eval code (SyntaxError with trace, message carries the position), a third of the cases carry non-ASCII comments and strings; otherwise the program itself fails: parser.ErrorList[0].Position, the error text, and eval of the same text must name the offending token's line and column. non-trivial for parse errors = token not in line 1 / column 1.",
	Quick: 700, Thorough: 10000,
	Gen:   func(t *rapid.T) m19.Case { return genCase(t, "syntax") },
	Check: checkCase,
})

var unicodeFacet = harness.Register(&harness.Facet[m19.Case]{
	Name:  "unicode",
	Rule:  ruleCommon + "This facet: every kind (run-time and syntax), line terminators LF, CRLF, CR, U+2028, U+2029 or mixed, non-ASCII text in comments and strings before the constructs; columns are characters (file.Position documents 'the character count'), lines are ES5 7.3 lines.",
	Quick: 900, Thorough: 15000,
	Gen:   func(t *rapid.T) m19.Case { return genCase(t, "unicode") },
	Check: checkCase,
})

// numberFormatFacet enumerates every (receiver, call) combination of the bad radix / bad precision
// constructs, each at top level and inside a function called through direct eval.
var numberFormatFacet = harness.Register(&harness.Facet[m19.Case]{
	Name: "number-format-all",
	Rule: "complete enumeration: 17 receivers (ordinary numbers, 1e21, NaN, +/-Infinity, +/-0 as variables, global names, a parenthesised literal and Number objects) x 21 calls (toString with radix 1, 37, 0, -1, +/-Infinity, NaN, 1.9, \"x\"; toFixed with 101, -1, +/-Infinity; toExponential with -1, 101, Infinity; toPrecision with 0, 101, -1, Infinity, NaN), where ES5 15.7.4.2/5/6/7 mandates the RangeError for that receiver (toExponential/toPrecision return before the range test for NaN and the infinities: those receivers get a bad radix instead); each in global code and in a declared function reached through direct eval, checked like every other case (class, chain, message, error text, trace). non-trivial = all (distinct receiver/call pairs).",
	Check: func(c m19.Case) harness.Outcome {
		o := checkCase(c)
		o.Nontrivial = o.Fail == "" && o.Discard == ""
		return o
	},
})

func TestNumberFormatAll(t *testing.T) {
	var cases []m19.Case
	for v := 0; v < m19.NumberFormatVariants; v++ {
		for i, links := range [][]m19.Link{nil, {{Kind: "decl", Stmt: "return"}, {Kind: "eval"}}} {
			cases = append(cases, m19.Case{Links: links, Raise: m19.Raise{Kind: "number-format", Var: v, Stmt: []string{"expr", "var"}[i]},
				Tape: []byte{byte(v), 7, 3, byte(v >> 3)}, Limit: 10, File: "a.js", Route: "compile"})
		}
	}
	harness.SetExhaustive(numberFormatFacet.Name)
	numberFormatFacet.Each(t, cases)
}

// syntaxAllFacet enumerates every injected syntax error in two places and four layouts.
var syntaxAllFacet = harness.Register(&harness.Facet[m19.Case]{
	Name: "syntax-all",
	Rule: "complete enumeration of the injected syntax errors (unterminated literals, truncations, and one offending token in ~115 grammatical positions: property-name position of object literals incl. accessor names, after `.`, parameter lists and function heads, var declarations, case clauses, catch parameter, labels, argument lists, array literals, `new` callee, unary/binary/conditional operands, for/while/do/if/with headers, tokens that cannot start a statement, reserved words) x 2 places (the program itself; eval code inside a declared function) x 4 layouts (compact; a line break wherever the grammar allows one, so the token after the offending one is on a later line; block comments between all tokens; mixed) with non-ASCII comments and LF. Oracle: the offending token's position as placed by the renderer, checked like every other syntax case. non-trivial = all.",
	Check: func(c m19.Case) harness.Outcome {
		o := checkCase(c)
		o.Nontrivial = o.Fail == "" && o.Discard == ""
		return o
	},
})

func TestSyntaxAll(t *testing.T) {
	var cases []m19.Case
	tapes := [][]byte{{0}, {11}, {13}, {3, 11, 7, 13, 0, 15, 14, 9}}
	for v := 0; v < m19.SyntaxVariants; v++ {
		for ti, tape := range tapes {
			cases = append(cases,
				m19.Case{Raise: m19.Raise{Kind: "syntax", Var: v, Noise: []string{"noop"}}, Tape: tape, Limit: 10, File: "s.js", Route: "compile", NonASCII: ti >= 2},
				m19.Case{Links: []m19.Link{{Kind: "decl"}, {Kind: "eval"}}, Raise: m19.Raise{Kind: "syntax", Var: v, Stmt: "if"}, Tape: tape, Limit: 10, File: "s.js", Route: "compile", NonASCII: ti >= 2})
		}
	}
	harness.SetExhaustive(syntaxAllFacet.Name)
	syntaxAllFacet.Each(t, cases)
}

// accessorAllFacet enumerates where an accessor can live and how it can be reached.
var accessorAllFacet = harness.Register(&harness.Facet[m19.Case]{
	Name: "accessor-all",
	Rule: "complete enumeration: getter / setter x place (own object literal, literal assigned to constructor.prototype, Object.create chain of depth 1, 2, 3, defineProperty on constructor.prototype, defineProperty on the object) x access (o.g, o[\"g\"], identifier inside with (o)) x reading frame with / without an earlier recorded site (a `new Object()` and a call on other lines) x two raising constructs; chain declaration > accessor > declaration, limit 50. The reading frame's trace line must lie inside the member expression (for `with`: the identifier). non-trivial = all.",
	Check: func(c m19.Case) harness.Outcome {
		o := checkCase(c)
		o.Nontrivial = o.Fail == "" && o.Discard == ""
		return o
	},
})

func TestAccessorAll(t *testing.T) {
	var cases []m19.Case
	for _, kind := range []string{"getter", "setter"} {
		for v := 0; v < 45; v++ {
			if v%5 != 2 && v >= 15 {
				continue // the depth only matters for Object.create chains
			}
			for _, noise := range [][]string{nil, {"newobj", "noop"}} {
				for rv, rk := range []string{"unresolvable", "throw-native"} {
					cases = append(cases, m19.Case{
						Links: []m19.Link{{Kind: "decl", Stmt: "var"}, {Kind: kind, Var: v, Noise: noise, Stmt: "expr"}, {Kind: "decl", Stmt: "return"}},
						Raise: m19.Raise{Kind: rk, Var: rv * 3, Stmt: "expr"}, Tape: []byte{byte(v), 0, 11, 0, 7}, Limit: 50, File: "acc.js", Route: "compile"})
				}
			}
		}
	}
	harness.SetExhaustive(accessorAllFacet.Name)
	accessorAllFacet.Each(t, cases)
}

func TestTrace(t *testing.T)   { traceFacet.Run(t) }
func TestSyntax(t *testing.T)  { syntaxFacet.Run(t) }
func TestUnicode(t *testing.T) { unicodeFacet.Run(t) }

// TestShow prints a few rendered programs (development aid): C19_SHOW=<n> go test -run TestShow
func TestShow(t *testing.T) {
	nStr := os.Getenv("C19_SHOW")
	if nStr == "" {
		t.Skip()
	}
	n, _ := strconv.Atoi(nStr)
	mode := os.Getenv("C19_MODE")
	if mode == "" {
		mode = "trace"
	}
	for i := 0; i < n; i++ {
		c := rapid.Custom(func(t *rapid.T) m19.Case { return genCase(t, mode) }).Example(i)
		r := m19.Render(c, false)
		fmt.Printf("=== %s\n%s\n", c.Describe(), r.Src)
		o := checkCase(c)
		fmt.Printf("--> fail=%q nontrivial=%v excluded=%v discard=%q\n", firstLine(o.Fail), o.Nontrivial, o.Excluded, o.Discard)
	}
}

func firstLine(s string) string {
	if i := strings.Index(s, "\n"); i >= 0 {
		return s[:i]
	}
	return s
}

// TestSurvey runs many examples and prints a histogram of failure messages (development aid).
func TestSurvey(t *testing.T) {
	nStr := os.Getenv("C19_SURVEY")
	if nStr == "" {
		t.Skip()
	}
	n, _ := strconv.Atoi(nStr)
	mode := os.Getenv("C19_MODE")
	if mode == "" {
		mode = "trace"
	}
	digits := regexp.MustCompile(`\d+`)
	hist := map[string]int{}
	first := map[string]string{}
	g := rapid.Custom(func(t *rapid.T) m19.Case { return genCase(t, mode) })
	for i := 0; i < n; i++ {
		c := g.Example(i)
		o := checkCase(c)
		key := "ok"
		if o.Discard != "" {
			key = "discard: " + o.Discard
		} else if o.Fail != "" {
			key = digits.ReplaceAllString(firstLine(o.Fail), "N")
			if len(key) > 150 {
				key = key[:150]
			}
			if first[key] == "" {
				first[key] = o.Fail
				if d := os.Getenv("C19_DUMP"); d != "" {
					_ = os.WriteFile(fmt.Sprintf("%s/fail-%d.js", d, len(first)), []byte(m19.Render(normalize(c), false).Src), 0o644)
					_ = os.WriteFile(fmt.Sprintf("%s/fail-%d.caught.js", d, len(first)), []byte(m19.Render(normalize(c), true).Src), 0o644)
					_ = os.WriteFile(fmt.Sprintf("%s/fail-%d.txt", d, len(first)), []byte(o.Fail), 0o644)
				}
			}
		}
		hist[key]++
	}
	for k, v := range hist {
		fmt.Printf("%6d  %s\n", v, k)
	}
	if os.Getenv("C19_FULL") != "" {
		for k, v := range first {
			fmt.Printf("=========== %s\n%s\n", k, v)
		}
	}
}
