// dev tool: run a JS source (stdin) on otto, print Error(), String() and parse error positions.
package main

import (
	"errors"
	"flag"
	"fmt"
	"io"
	"os"

	"github.com/robertkrimen/otto"
	"github.com/robertkrimen/otto/parser"
)

func main() {
	name := flag.String("f", "", "file name")
	limit := flag.Int("l", 0, "trace limit (0: default)")
	flag.Parse()
	b, _ := io.ReadAll(os.Stdin)
	vm := otto.New()
	if *limit > 0 {
		vm.SetStackTraceLimit(*limit)
	}
	s, err := vm.Compile(*name, string(b))
	if err != nil {
		fmt.Printf("compile error (%T): %v\n", err, err)
		var el *parser.ErrorList
		if errors.As(err, &el) {
			for _, e := range *el {
				fmt.Printf("  %+v | %s\n", e.Position, e.Message)
			}
		}
		_, err2 := vm.Run(string(b))
		fmt.Printf("run error (%T): %v\n", err2, err2)
		return
	}
	v, err := vm.Run(s)
	if err != nil {
		fmt.Printf("error (%T): %q\n", err, err.Error())
		var oe *otto.Error
		if errors.As(err, &oe) {
			fmt.Printf("%s", oe.String())
		}
		return
	}
	fmt.Printf("value: %v\n", v)
}
