package c19

import (
	"errors"
	"fmt"
	"strings"

	"github.com/robertkrimen/otto"
	"github.com/robertkrimen/otto/parser"

	"verif/lib/harness"
	"verif/lib/m19"
)

// traceOf runs src (compiled under file name w.js) and returns the error text and the "at" lines.
func traceOf(src string) (text string, lines []string) {
	vm := otto.New()
	s, err := vm.Compile("w.js", src)
	if err != nil {
		return "compile: " + err.Error(), nil
	}
	r := harness.Run(vm, s)
	if r.Panicked {
		return "panic: " + fmt.Sprint(r.Panic), nil
	}
	if r.Err == nil {
		return "no error", nil
	}
	var oe *otto.Error
	if !errors.As(r.Err, &oe) {
		return r.Err.Error(), nil
	}
	ls := strings.Split(strings.TrimSuffix(oe.String(), "\n"), "\n")
	return ls[0], ls[1:]
}

func lineIs(lines []string, i int, want string) bool { return i < len(lines) && lines[i] == want }

// inSpan: line i is `    at [name (]w.js:<line>:<col in [c0,c1)>[)]`.
func inSpan(lines []string, i int, name string, line, c0, c1 int) bool {
	if i >= len(lines) {
		return false
	}
	for c := c0; c < c1; c++ {
		loc := fmt.Sprintf("w.js:%d:%d", line, c)
		if name != "" {
			loc = name + " (" + loc + ")"
		}
		if lines[i] == "    at "+loc {
			return true
		}
	}
	return false
}

func registerWitnesses() {
	// instanceof / in / array length assignment raise errors without a position of their own
	harness.RegisterWitness(m19.KOperator, func() (bool, string) {
		_, l := traceOf("function noop() {}\nnoop();\n  1 instanceof 2;")
		return !inSpan(l, 0, "", 3, 3, 17), strings.Join(l, " | ")
	})
	// an accessor invoked by a property read does not record the call site in the calling frame
	harness.RegisterWitness(m19.KAccessor, func() (bool, string) {
		_, l := traceOf("var o = { get g() { return undef; } };\nfunction noop() {}\nnoop();\n  o.g;")
		return !(len(l) == 2 && inSpan(l, 1, "", 4, 3, 6)), strings.Join(l, " | ")
	})
	// a call whose callee is not an identifier or member expression records no call site: the frame disappears
	harness.RegisterWitness(m19.KNotRef, func() (bool, string) {
		_, l := traceOf("function f() { undef; }\nfunction pick(x) { return x; }\n  pick(f)();")
		return !(len(l) == 2 && lineIs(l, 0, "    at f (w.js:1:16)") && lineIs(l, 1, "    at w.js:3:3")), strings.Join(l, " | ")
	})
	// after a direct eval returns, the calling frame keeps the eval code's file
	harness.RegisterWitness(m19.KEvalFile, func() (bool, string) {
		_, l := traceOf("function A() {\n eval(\"0\");\n  undef;\n}\nA();")
		return !lineIs(l, 0, "    at A (w.js:3:3)"), strings.Join(l, " | ")
	})
	// Run's error text uses the name/message recorded at construction
	harness.RegisterWitness(m19.KRenamed, func() (bool, string) {
		text, _ := traceOf(`var e = new Error("m"); e.name = "Custom"; throw e;`)
		return text != "Custom: m", text
	})
	// run-time columns count UTF-8 bytes
	harness.RegisterWitness(m19.KColBytes, func() (bool, string) {
		_, l := traceOf("/* é */ undef;")
		return !lineIs(l, 0, "    at w.js:1:9"), strings.Join(l, " | ")
	})
	// run-time positions only know LF as a line terminator
	harness.RegisterWitness(m19.KLineTerm, func() (bool, string) {
		_, l := traceOf("var a;\r  undef;")
		_, l2 := traceOf("var a;\u2028  undef;")
		return !(lineIs(l, 0, "    at w.js:2:3") && lineIs(l2, 0, "    at w.js:2:3")), strings.Join(l, " | ") + " ; " + strings.Join(l2, " | ")
	})
	// parser columns count UTF-8 bytes
	harness.RegisterWitness(m19.KColBytesP, func() (bool, string) {
		_, err := parser.ParseFile(nil, "w.js", "/* é */ 3 4;", 0)
		if err == nil {
			return true, "accepted"
		}
		return !strings.HasPrefix(err.Error(), "w.js: Line 1:11 "), err.Error()
	})
}
