package c15

import (
	"fmt"
	"math"
	"reflect"

	"github.com/robertkrimen/otto"

	"verif/lib/harness"
	"verif/lib/m15"
)

// Go-API witnesses of the known findings (kind "custom" in known/C15-*.json).
func init() {
	try := func(fn func() string) (out string) {
		defer func() {
			if p := recover(); p != nil {
				out = "panic:" + fmt.Sprint(p)
			}
		}()
		return fn()
	}
	reg := func(id, want string, fn func() string) {
		harness.RegisterWitness(id, func() (bool, string) {
			got := try(fn)
			return got != want, got
		})
	}
	reg(fInt64, "9007199254740992", func() string {
		v, _ := otto.ToValue(int64(9007199254740993))
		s, _ := v.ToString()
		return s
	})
	reg(fF32, "1.5", func() string {
		v, err := otto.New().ToValue(m15.MyF32(1.5))
		if err != nil {
			return "error:" + err.Error()
		}
		f, _ := v.ToFloat()
		return m15.FloatLit(f, 64)
	})
	reg(fGoSyntax, "NaN", func() string {
		v, _ := otto.ToValue("inf")
		f, _ := v.ToFloat()
		return m15.FloatLit(f, 64)
	})
	reg(fHex63, "9.223372036854776e+18", func() string {
		v, _ := otto.ToValue("0x8000000000000000")
		f, _ := v.ToFloat()
		if math.IsNaN(f) {
			return "NaN"
		}
		return m15.FloatLit(f, 64)
	})
	reg(fHoles, "3 elements", func() string {
		v, err := otto.New().Run("[1,,3]")
		if err != nil {
			return "error:" + err.Error()
		}
		e, _ := v.Export()
		rv := reflect.ValueOf(e)
		if rv.Kind() != reflect.Slice {
			return fmt.Sprintf("%#v", e)
		}
		return fmt.Sprintf("%d elements", rv.Len())
	})
	reg(fNested, "ok", func() string {
		v, err := otto.New().Run("[[[]],[[1]]]")
		if err != nil {
			return "error:" + err.Error()
		}
		if _, err := v.Export(); err != nil {
			return "error:" + err.Error()
		}
		return "ok"
	})
	reg(fIsNaN, "ok", func() string {
		v, err := otto.New().Run("({valueOf:function(){throw new Error(1)}})")
		if err != nil {
			return "error:" + err.Error()
		}
		v.IsNaN()
		return "ok"
	})
}
