package c15

import (
	"encoding/json"
	"fmt"
	"reflect"
	"strconv"
	"strings"
	"testing"

	"github.com/robertkrimen/otto"
	"pgregory.net/rapid"

	"verif/lib/harness"
	"verif/lib/m15"
)

// ---- facet 5: Export / MarshalJSON of DAG-shaped data (shared, not cyclic) ---------------------------
//
// Whether two positions of a value hold the same script object or two equal ones is not visible in its
// structure (JSON.stringify prints the same text), so Export must return what it returns for the
// tree-shaped equivalent.

type sharedCase struct {
	Via string     `json:"via"` // var | closure | array | late
	S   m15.Shared `json:"s"`
}

func (c sharedCase) source() string {
	var b strings.Builder
	b.WriteString("(function(){\n")
	switch c.Via {
	case "var":
		for i, d := range c.S.Defs {
			fmt.Fprintf(&b, "var s%d = %s;\n", i, d.LiteralRefs("s%s"))
		}
		b.WriteString("return " + c.S.Root.LiteralRefs("s%s") + ";\n")
	case "closure": // every occurrence is fetched through a function closing over the instances
		b.WriteString("var S = [];\nfunction get(i) { return S[i]; }\n")
		for i, d := range c.S.Defs {
			fmt.Fprintf(&b, "S.push(%s);\n", d.LiteralRefs("get(%s)"))
			_ = i
		}
		b.WriteString("return " + c.S.Root.LiteralRefs("get(%s)") + ";\n")
	case "array":
		b.WriteString("var S = [];\n")
		for i, d := range c.S.Defs {
			fmt.Fprintf(&b, "S[%d] = %s;\n", i, d.LiteralRefs("S[%s]"))
		}
		b.WriteString("return " + c.S.Root.LiteralRefs("S[%s]") + ";\n")
	case "late": // the root is built first around empty stand-ins that are filled in afterwards
		for i, d := range c.S.Defs {
			if d.K == "arr" {
				fmt.Fprintf(&b, "var s%d = [];\n", i)
			} else {
				fmt.Fprintf(&b, "var s%d = {};\n", i)
			}
		}
		b.WriteString("var root = " + c.S.Root.LiteralRefs("s%s") + ";\n")
		for i, d := range c.S.Defs {
			for k, e := range d.E {
				if e.K == "hole" {
					continue
				}
				if d.K == "arr" {
					fmt.Fprintf(&b, "s%d[%d] = %s;\n", i, k, e.LiteralRefs("s%s"))
				} else {
					fmt.Fprintf(&b, "s%d[%s] = %s;\n", i, m15.JSStr(d.Keys[k]), e.LiteralRefs("s%s"))
				}
			}
			if d.K == "arr" {
				fmt.Fprintf(&b, "s%d.length = %d;\n", i, len(d.E))
			}
		}
		b.WriteString("return root;\n")
	}
	b.WriteString("})()")
	return b.String()
}

func checkShared(c sharedCase) harness.Outcome {
	tree := c.S.Expand()
	counts := c.S.RefCounts()
	maxRefs := 0
	for _, n := range counts {
		if n > maxRefs {
			maxRefs = n
		}
	}
	o := harness.Outcome{Nontrivial: maxRefs >= 2, Classes: []string{"via:" + c.Via, "defs:" + strconv.Itoa(len(c.S.Defs)), "max-occurrences:" + strconv.Itoa(min(maxRefs, 6)), "root:" + c.S.Root.K, "depth:" + strconv.Itoa(min(tree.Depth(), 8))}}
	for i, d := range c.S.Defs {
		for _, e := range d.E {
			if e.K == "ref" {
				o.Classes = append(o.Classes, "shared-inside-shared")
				_ = i
				break
			}
		}
	}
	src := c.source()
	fail := func(f string, a ...interface{}) harness.Outcome {
		o.Fail = fmt.Sprintf("%s (same data as a tree: %s): ", src, tree.Literal()) + fmt.Sprintf(f, a...)
		return o
	}
	vm := getVM()
	r := harness.Run(vm, src)
	if r.Panicked {
		dropVM()
		return fail("building the data panicked: %v", r.Panic)
	}
	if r.Err != nil {
		return fail("building the data threw: %v", r.Err)
	}
	if msg := judgeExport(&o, tree, r.Value); msg != "" {
		return fail("%s", msg)
	}
	if len(o.Excluded) > 0 {
		return o
	}
	// hand the exported Go value back: Otto.Set, Get, Export again and MarshalJSON must still show the whole structure
	var ex, ex2 interface{}
	var back otto.Value
	var err error
	if p := guard(func() {
		ex, _ = r.Value.Export()
		if err = vm.Set("back", ex); err == nil {
			back, err = vm.Get("back")
		}
		if err == nil {
			ex2, _ = back.Export()
		}
	}); p != "" {
		return fail("Set/Get/Export of the exported value panicked: %s", p)
	}
	if err != nil {
		return fail("Set/Get of the exported value failed: %v", err)
	}
	if diff := sameExport(tree, reflectValueOf(ex2), "$", false); diff != "" {
		return fail("after Otto.Set(exported) and Export again: got %#v: %s", ex2, diff)
	}
	if want, werr := json.Marshal(ex); werr == nil {
		var mj []byte
		var mjErr error
		if p := guard(func() { mj, mjErr = back.MarshalJSON() }); p != "" || mjErr != nil {
			return fail("MarshalJSON of the exported value set back failed: %v %s", mjErr, p)
		}
		if diff := m15.SameJSON(want, mj, true); diff != "" {
			return fail("MarshalJSON of the exported value set back gives %s, encoding/json gives %s (%s)", mj, want, diff)
		}
		if text, ok := tree.StringifyText(); ok {
			if diff := m15.SameJSON([]byte(text), mj, false); diff != "" {
				return fail("MarshalJSON of the exported value set back gives %s, the data is %s (%s)", mj, text, diff)
			}
		}
	}
	// the language's own view of the value is the independent reference for "same structure"
	jr := harness.Run(vm, "JSON.stringify(("+src+"))")
	if jr.Err == nil && !jr.Panicked && jr.Value.IsString() {
		if text, ok := tree.StringifyText(); ok {
			if diff := m15.SameJSON([]byte(text), []byte(str(jr.Value)), false); diff != "" {
				return fail("JSON.stringify in the language gives %s, the tree-shaped equivalent is %s (%s)", str(jr.Value), text, diff)
			}
		}
	}
	return o
}

var sharedFacet = harness.Register(&harness.Facet[sharedCase]{
	Name: "js-export-shared",
	Rule: "rapid: DAG-shaped JavaScript data - 1-3 shared arrays/objects (later ones may contain earlier ones) referenced from a root at least twice: sibling properties, array slots, different depths, outer object and inner array of objects, random injection into a generated tree - built through local variables, through a closure returning the instances, through an array of instances, or by filling the shared instances after the root was built; never cyclic; oracle: Export and MarshalJSON equal those of the tree-shaped equivalent (every reference expanded) under the js-export comparison, JSON.stringify in the language agrees with that tree, and the exported Go value survives Otto.Set / Get / Export / MarshalJSON; non-trivial = some instance occurs at least twice; distinct by case JSON",
	Quick:    6000,
	Thorough: 30000,
	Gen: func(t *rapid.T) sharedCase {
		return sharedCase{Via: rapid.SampledFrom([]string{"var", "closure", "array", "late"}).Draw(t, "via"), S: m15.GenShared(t)}
	},
	Check: checkShared,
})

func TestJSExportShared(t *testing.T) { sharedFacet.Run(t) }

func reflectValueOf(x interface{}) reflect.Value { return reflect.ValueOf(x) }
