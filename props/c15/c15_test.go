// Package c15 decides property C15: values survive the Go -> JavaScript -> Go round trip, the Value
// predicates and conversions agree with the language, and the Go call APIs behave like in-language calls.
package c15

import (
	"encoding/json"
	"fmt"
	"math"
	"reflect"
	"regexp"
	"strconv"
	"strings"
	"testing"
	"unicode/utf16"

	"github.com/robertkrimen/otto"
	"pgregory.net/rapid"

	"verif/lib/es5"
	"verif/lib/gen"
	"verif/lib/harness"
	"verif/lib/m15"
)

func TestMain(m *testing.M) { harness.Main(m, "C15") }

// ---- finding ids -----------------------------------------------------------------------------------

const (
	fInt64     = "C15-INT64-UNROUNDED"      // 64-bit Go integers beyond 2^53 print all their digits
	fF32       = "C15-FLOAT32-REFLECT"      // named float32 / *float32 leave a float32 inside Value: conversions panic
	fStr16     = "C15-STRING16-TONUMBER"    // String.fromCharCode results ([]uint16 inside Value) panic in ToNumber
	fGoSyntax  = "C15-TONUMBER-GO-SYNTAX"   // ToFloat("inf"), "1_0", "0x1p1": strconv grammar instead of 9.3.1
	fHex63     = "C15-TONUMBER-HEX-2P63"    // ToFloat("0x8000000000000000") is NaN
	fHoles     = "C15-EXPORT-HOLES"         // Export drops array holes, later elements shift down
	fNested    = "C15-EXPORT-NESTED-PANIC"  // Export panics on [[[]],[[1]]]
	fIsNaN     = "C15-ISNAN-PANIC"          // Value.IsNaN lets the exception of a throwing valueOf escape as a Go panic
)

// ---- shared runtime ---------------------------------------------------------------------------------

const showSrc = `function c15show(x, d) {
  var t = typeof x, i, k, parts, cls;
  if (x === null) return "null";
  if (t === "undefined") return "undefined";
  if (t === "number") return x !== x ? "NaN" : (x === 0 && 1 / x < 0) ? "-0" : "n:" + x;
  if (t === "string") return "s" + x.length + ":" + x;
  if (t === "boolean") return "b:" + x;
  if (t === "function") return "function";
  if (x === G) return "global";
  if (typeof o === "object" && x === o) return "o";
  if (d <= 0) return "...";
  cls = Object.prototype.toString.call(x);
  parts = [];
  if (cls === "[object Array]" || cls === "[object GoSlice]" || cls === "[object GoArray]" || cls === "[object Arguments]") {
    for (i = 0; i < x.length; i++) parts.push(c15show(x[i], d - 1));
    return cls + "[" + parts.join(",") + "]";
  }
  if (cls === "[object Number]" || cls === "[object String]" || cls === "[object Boolean]") return cls + "(" + c15show(x.valueOf(), 1) + ")";
  k = [];
  for (i in x) k.push(i);
  k.sort();
  for (i = 0; i < k.length; i++) parts.push(k[i] + "=" + c15show(x[k[i]], d - 1));
  return cls + "{" + parts.join(",") + "}";
}`

const probeSrc = `function c15probe(v, skipNum) {
  var r = {};
  r.type = typeof v;
  r.isnull = v === null;
  r.cls = Object.prototype.toString.call(v);
  r.nok = "skip"; r.nanok = "skip";
  if (!skipNum) {
    LOG = []; try { r.n = Number(v); r.nok = "ok"; } catch (e) { r.nok = "throw"; } r.nlog = LOG.join();
    LOG = []; try { r.nan = isNaN(v); r.nanok = "ok"; } catch (e) { r.nanok = "throw"; }
  }
  LOG = []; try { r.s = String(v); r.sok = "ok"; } catch (e) { r.sok = "throw"; } r.slog = LOG.join();
  LOG = []; r.b = Boolean(v); r.blog = LOG.join();
  LOG = [];
  return r;
}
function c15idf(x) { return x; }
var holder = {};`

var (
	vm     *otto.Otto
	vmUses int
)

func newVM() *otto.Otto {
	v := otto.New()
	for _, src := range []string{m15.Prelude, m15.EqSrc, showSrc, probeSrc} {
		if _, err := v.Run(src); err != nil {
			panic(fmt.Sprintf("c15 prelude: %v", err))
		}
	}
	return v
}

func getVM() *otto.Otto {
	if vm == nil || vmUses > 1500 {
		vm = newVM()
		vmUses = 0
	}
	vmUses++
	return vm
}

// dropVM forgets the shared runtime (after a panic crossed it, its scope stack may be unbalanced).
func dropVM() { vm = nil }

func str(v otto.Value) string {
	s, _ := v.ToString()
	return s
}

func prop(v otto.Value, name string) otto.Value {
	o := v.Object()
	if o == nil {
		return otto.UndefinedValue()
	}
	r, _ := o.Get(name)
	return r
}

// guard runs fn and reports a panic as text.
func guard(fn func()) (panicked string) {
	defer func() {
		if p := recover(); p != nil {
			panicked = fmt.Sprint(p)
			if panicked == "" {
				panicked = "(empty panic)"
			}
			dropVM()
		}
	}()
	fn()
	return ""
}

// ---- class predicates of the known findings ---------------------------------------------------------

// reachesFloat32 reports whether the described value makes otto build a Value holding a Go float32
// (named float32 types and pointers to float32 go through the reflect branch of toValue).
func reachesFloat32(d m15.D) bool {
	found := false
	m15.Walk(d, func(x m15.D) {
		if x.T == "MyF32" || (x.T == "*float32" && !x.Nil) || (x.T == "*MyF32" && !x.Nil) {
			found = true
		}
	})
	return found
}

var (
	reGoInf   = regexp.MustCompile(`^[+-]?(?i:inf|infinity)$`)
	reES5Inf  = regexp.MustCompile(`^[+-]?Infinity$`)
	reHexFlt  = regexp.MustCompile(`^[+-]?0[xX][0-9a-fA-F_]*\.?[0-9a-fA-F_]*[pP][+-]?[0-9_]+$`)
	reHexInt  = regexp.MustCompile(`^0[xX][0-9a-fA-F]+$`)
	reHasDigs = regexp.MustCompile(`[0-9]`)
)

func trimES5(s string) string {
	return string(utf16.Decode(es5.TrimWS(utf16.Encode([]rune(s)))))
}

// goSyntaxString: strings ES5 9.3.1 rejects (NaN) but Go's strconv grammar accepts.
func goSyntaxString(s string) bool {
	t := trimES5(s)
	if reGoInf.MatchString(t) && !reES5Inf.MatchString(t) {
		return true
	}
	if strings.Contains(t, "_") && reHasDigs.MatchString(t) {
		return true
	}
	return reHexFlt.MatchString(t)
}

// hexBeyond63: a HexIntegerLiteral string of 2^63 or more.
func hexBeyond63(s string) bool {
	t := trimES5(s)
	if !reHexInt.MatchString(t) {
		return false
	}
	h := strings.TrimLeft(t[2:], "0")
	return len(h) > 16 || (len(h) == 16 && h[0] >= '8')
}

// toNumberExcluded names the active known class the string conversion falls into ("" if none).
func toNumberExcluded(s string) string {
	if harness.Known(fGoSyntax) && goSyntaxString(s) {
		return fGoSyntax
	}
	if harness.Known(fHex63) && hexBeyond63(s) {
		return fHex63
	}
	return ""
}

// ---- facet 1: Go -> JS -> Go ---------------------------------------------------------------------------

type goCase struct {
	Route string `json:"route"`
	D     m15.D  `json:"d"`
}

var goRoutes = []string{"set-get", "set-get", "object-set-get", "tovalue", "pkg-tovalue", "call-arg", "native-return"}

func scalarShape(d m15.D) bool { s := m15.Shape(d.T); return s == "scalar" || s == "nil" }

// obtain hands x to otto along the route and returns the Value otto made of it.
func obtain(vm *otto.Otto, route string, x interface{}) (otto.Value, error) {
	switch route {
	case "set-get":
		if err := vm.Set("v", x); err != nil {
			return otto.Value{}, fmt.Errorf("Otto.Set: %w", err)
		}
		return vm.Get("v")
	case "object-set-get":
		h, err := vm.Object("holder")
		if err != nil {
			return otto.Value{}, err
		}
		if err := h.Set("p", x); err != nil {
			return otto.Value{}, fmt.Errorf("Object.Set: %w", err)
		}
		return h.Get("p")
	case "tovalue":
		return vm.ToValue(x)
	case "pkg-tovalue":
		return otto.ToValue(x)
	case "call-arg":
		f, err := vm.Get("c15idf")
		if err != nil {
			return otto.Value{}, err
		}
		return f.Call(otto.UndefinedValue(), x)
	case "native-return":
		if err := vm.Set("c15native", func(call otto.FunctionCall) otto.Value {
			r, err := call.Otto.ToValue(x)
			if err != nil {
				panic(err)
			}
			return r
		}); err != nil {
			return otto.Value{}, err
		}
		return vm.Run("c15native()")
	}
	panic("route " + route)
}

// wantExport gives the acceptable results of Export for a described value: the value itself for
// containers; for scalars the same kind (named types by their underlying kind, pointers by their
// pointee, float32 also as the float64 it widens to).
func exportDiff(d m15.D, got interface{}) string {
	if sd, isNil, ok := ptrToScalar(d); ok {
		if isNil {
			if got != nil {
				return fmt.Sprintf("nil %s exported as %#v, want nil", d.T, got)
			}
			return ""
		}
		d = sd
	}
	if d.T == "nil" || (m15.Shape(d.T) == "ptr" && d.Nil) { // nil pointers of every type become undefined
		if got != nil && !(reflect.TypeOf(got) == m15.TypeOf(d.T) && reflect.ValueOf(got).IsNil()) {
			return fmt.Sprintf("nil %s exported as %#v", d.T, got)
		}
		return ""
	}
	want := m15.Build(d)
	if m15.Shape(d.T) != "scalar" {
		return m15.DeepSame(want, got)
	}
	u := m15.Underlying(d.T)
	wv := reflect.ValueOf(want).Convert(m15.TypeOf(u)).Interface()
	if u == "float32" {
		if g, ok := got.(float64); ok {
			if !m15.SameFloat(float64(wv.(float32)), g) {
				return fmt.Sprintf("float32 %s exported as float64 %s", d.V, m15.FloatLit(g, 64))
			}
			return ""
		}
	}
	return m15.DeepSame(wv, got)
}

// ptrToScalar recognises a pointer to a scalar: otto dereferences it (nil gives undefined).
func ptrToScalar(d m15.D) (pointee m15.D, isNil, ok bool) {
	if m15.Shape(d.T) != "ptr" || m15.Shape(m15.ElemT(d.T)) != "scalar" {
		return m15.D{}, false, false
	}
	if d.Nil {
		return m15.D{}, true, true
	}
	return d.E[0], false, true
}

func numClass(x float64) string {
	switch {
	case math.IsNaN(x):
		return "num:NaN"
	case math.IsInf(x, 0):
		return "num:Inf"
	case x == 0 && math.Signbit(x):
		return "num:-0"
	case x == 0:
		return "num:0"
	case math.Abs(x) < 2.2250738585072014e-308:
		return "num:subnormal"
	case x != math.Trunc(x):
		return "num:fraction"
	case math.Abs(x) > 9007199254740992:
		return "num:int>2^53"
	case math.Abs(x) >= 2147483648:
		return "num:int>=2^31"
	}
	return "num:smallint"
}

func nonASCII(s string) bool {
	for _, r := range s {
		if r >= 0x80 {
			return true
		}
	}
	return false
}

func goClasses(c goCase) (classes []string, nontrivial bool) {
	d := c.D
	classes = append(classes, "route:"+c.Route, "type:"+d.T)
	sh := m15.Shape(d.T)
	switch sh {
	case "scalar":
		cp := m15.Counterpart(d)
		switch cp.Kind {
		case "number":
			cl := numClass(cp.N)
			classes = append(classes, cl)
			nontrivial = cl != "num:smallint" || math.Abs(cp.N) >= 100
		case "string":
			switch {
			case cp.S == "":
				classes = append(classes, "str:empty")
			case nonASCII(cp.S):
				classes = append(classes, "str:non-ascii")
				nontrivial = true
			default:
				classes = append(classes, "str:ascii")
			}
			if len([]rune(cp.S)) != m15.Units(cp.S) {
				classes = append(classes, "str:astral")
			}
			if strings.Contains(cp.S, "\ufffd") {
				classes = append(classes, "str:U+FFFD")
			}
		}
	case "nil":
		classes = append(classes, "nil")
		nontrivial = true
	default:
		depth := m15.Depth(d)
		classes = append(classes, "shape:"+sh, "depth:"+strconv.Itoa(depth))
		empty := false
		m15.Walk(d, func(x m15.D) {
			if s := m15.Shape(x.T); (s == "slice" || s == "map" || s == "ptr") && (x.Nil || (s != "ptr" && len(x.E) == 0)) {
				empty = true
			}
		})
		if d.Nil {
			classes = append(classes, "top:nil-"+sh)
		} else if (sh == "slice" || sh == "map") && len(d.E) == 0 {
			classes = append(classes, "top:empty-"+sh)
		}
		m15.Walk(d, func(x m15.D) {
			if m15.Shape(x.T) != "scalar" {
				return
			}
			switch c := m15.Counterpart(x); c.Kind {
			case "number":
				if numClass(c.N) != "num:smallint" || math.Abs(c.N) >= 100 {
					empty = true
				}
			case "string":
				if nonASCII(c.S) {
					empty = true
				}
			}
		})
		nontrivial = depth >= 2 || empty
	}
	return classes, nontrivial
}

func checkGo(c goCase) harness.Outcome {
	d := c.D
	o := harness.Outcome{}
	o.Classes, o.Nontrivial = goClasses(c)
	fail := func(f string, a ...interface{}) harness.Outcome {
		o.Fail = fmt.Sprintf("%s via %s: ", d.T, c.Route) + fmt.Sprintf(f, a...)
		return o
	}
	if c.Route == "pkg-tovalue" && !scalarShape(d) {
		o.Discard = "package-level ToValue is documented for scalars only"
		return o
	}
	cp := m15.Counterpart(d)
	x := m15.Build(d)
	vm := getVM()

	var v otto.Value
	var err error
	if p := guard(func() { v, err = obtain(vm, c.Route, x) }); p != "" {
		return fail("Go panic while handing the value to otto: %s", p)
	}
	if err != nil {
		return fail("handing the value to otto failed: %v", err)
	}

	// Export: equal to the original
	var exported interface{}
	if p := guard(func() { exported, _ = v.Export() }); p != "" {
		return fail("Export panicked: %s", p)
	}
	if diff := exportDiff(d, exported); diff != "" {
		return fail("Export() differs from the original: %s", diff)
	}

	// MarshalJSON: the tree encoding/json gives for the original
	var mj []byte
	var mjErr error
	if p := guard(func() { mj, mjErr = v.MarshalJSON() }); p != "" {
		return fail("MarshalJSON panicked: %s", p)
	}
	ref := x
	scalarD := d
	if sd, isNil, ok := ptrToScalar(d); ok {
		if isNil {
			ref, scalarD = nil, m15.D{T: "nil"}
		} else {
			ref, scalarD = m15.Build(sd), sd
		}
	}
	if want, werr := json.Marshal(ref); werr == nil {
		if mjErr != nil {
			return fail("MarshalJSON failed (%v), encoding/json gives %s", mjErr, want)
		}
		diff := m15.SameJSON(want, mj, true)
		if diff != "" && m15.Shape(scalarD.T) == "scalar" && m15.Underlying(scalarD.T) == "float32" {
			// a float32 scalar may have been widened to float64 (the one documented normalisation)
			w2, _ := json.Marshal(reflect.ValueOf(ref).Convert(reflect.TypeOf(float64(0))).Interface())
			diff = m15.SameJSON(w2, mj, true)
		}
		if diff != "" {
			return fail("MarshalJSON gives %s, encoding/json on the original gives %s (%s)", mj, want, diff)
		}
	}

	if harness.Known(fF32) && reachesFloat32(d) {
		o.Excluded = append(o.Excluded, fF32)
		return o // conversions and script reads of a float32-holding Value panic: Export/MarshalJSON were still checked
	}

	// ToFloat / ToInteger / ToString / ToBoolean: the ES5 conversions of the JavaScript counterpart
	var f float64
	var i int64
	var s string
	var b bool
	var ferr, ierr, serr, berr error
	if p := guard(func() {
		f, ferr = v.ToFloat()
		i, ierr = v.ToInteger()
		s, serr = v.ToString()
		b, berr = v.ToBoolean()
	}); p != "" {
		return fail("a To* conversion panicked: %s", p)
	}
	if ferr != nil || ierr != nil || serr != nil || berr != nil {
		return fail("a To* conversion returned an error: %v %v %v %v", ferr, ierr, serr, berr)
	}
	wantS := cp.ToString(false)
	if harness.Known(fInt64) && cp.HasUnrounded() {
		wantS = cp.ToString(true)
		o.Excluded = append(o.Excluded, fInt64)
	}
	if s != wantS {
		return fail("ToString() = %q, ES5 ToString of the counterpart is %q", s, wantS)
	}
	if b != cp.ToBoolean() {
		return fail("ToBoolean() = %v, ES5 9.2 gives %v", b, cp.ToBoolean())
	}
	numExcl := ""
	if cp.Kind == "string" || cp.Kind == "array" {
		numExcl = toNumberExcluded(cp.ToString(false))
	}
	wantF := cp.ToNumber()
	if numExcl != "" {
		o.Excluded = append(o.Excluded, numExcl)
	} else {
		if !m15.SameFloat(f, wantF) {
			return fail("ToFloat() = %s, ES5 ToNumber of the counterpart is %s", m15.FloatLit(f, 64), m15.FloatLit(wantF, 64))
		}
		okInt := i == m15.ToInt64(wantF)
		if !okInt && cp.Kind == "number" && cp.Exact != "" { // a 64-bit integer may also come back exactly
			if n, perr := strconv.ParseInt(cp.Exact, 10, 64); perr == nil && n == i {
				okInt = true
			}
		}
		if !okInt {
			return fail("ToInteger() = %d, want %d (ToNumber, truncate, saturate at int64)", i, m15.ToInt64(wantF))
		}
	}

	// what scripts see
	if c.Route != "set-get" {
		if p := guard(func() { err = vm.Set("v", v) }); p != "" || err != nil {
			return fail("re-binding the Value failed: %v %s", err, p)
		}
	}
	src := `[c15eq(v, ` + cp.ExpectSrc() + `, "v"), typeof v`
	stringable := cp.Kind != "object"
	if stringable {
		src += `, String(v), Number(v), !!v, "" + v`
	}
	src += `]`
	r := harness.Run(vm, src)
	if r.Panicked {
		dropVM()
		return fail("reading the value from a script panicked: %v", r.Panic)
	}
	if r.Err != nil {
		return fail("reading the value from a script threw: %v", r.Err)
	}
	if diff := str(prop(r.Value, "0")); diff != "" {
		return fail("script view differs from the counterpart %s: %s", cp.ExpectSrc(), diff)
	}
	wantType := map[string]string{"undefined": "undefined", "boolean": "boolean", "number": "number", "string": "string", "array": "object", "object": "object"}[cp.Kind]
	if got := str(prop(r.Value, "1")); got != wantType {
		return fail("typeof v = %q, want %q", got, wantType)
	}
	if stringable {
		if got := str(prop(r.Value, "2")); got != wantS {
			return fail("String(v) = %q in script, ES5 gives %q", got, wantS)
		}
		if got := str(prop(r.Value, "5")); got != wantS {
			return fail(`"" + v = %q in script, ES5 gives %q`, got, wantS)
		}
		if numExcl == "" {
			if got, _ := prop(r.Value, "3").ToFloat(); !m15.SameFloat(got, wantF) {
				return fail("Number(v) = %s in script, ES5 gives %s", m15.FloatLit(got, 64), m15.FloatLit(wantF, 64))
			}
		}
		if got, _ := prop(r.Value, "4").ToBoolean(); got != cp.ToBoolean() {
			return fail("!!v = %v in script, ES5 gives %v", got, cp.ToBoolean())
		}
	}
	return o
}

var goFacet = harness.Register(&harness.Facet[goCase]{
	Name: "go-roundtrip",
	Rule: "rapid: a Go value described by a (type, literal) tree - bool; every int/uint width at 0, ±1, width bounds and neighbours, 2^53±1/±2, non-double 64-bit values, random; float32/float64 from the boundary pool incl. -0, subnormals, NaN, ±Inf; valid UTF-8 strings over ASCII/Latin-1/BMP (U+FFFD)/astral alphabets and numeric-looking strings; nil; named scalar types; pointers to scalars; []interface{} / map[string]interface{} nested to depth 3; typed slices, maps, arrays, structs (tagged, unexported, embedded fields) and pointers to them, nil vs empty - handed to otto along a drawn route (Otto.Set/Get, Object.Set/Get, Otto.ToValue, otto.ToValue, call argument, native function result); oracle: Export deep-equals a fresh materialisation (float32 may widen), To* equal the ES5 conversions of the JavaScript counterpart, MarshalJSON denotes encoding/json's tree, a script sees the counterpart element-wise (typeof, ===, sign of zero, length in UTF-16 units, for-in key count); non-trivial = a number outside (-100,100) or not integral, a non-ASCII string, nil, or a container of depth >= 2 / with an empty or nil part / holding such a number or string; distinct by case JSON",
	Quick:    22000,
	Thorough: 110000,
	Gen: func(t *rapid.T) goCase {
		d := m15.GenTop(t)
		routes := goRoutes
		if !scalarShape(d) {
			routes = []string{"set-get", "set-get", "object-set-get", "tovalue", "call-arg", "native-return"}
		}
		return goCase{Route: rapid.SampledFrom(routes).Draw(t, "route"), D: d}
	},
	Check: checkGo,
})

func TestGoRoundTrip(t *testing.T) { goFacet.Run(t) }

// ---- facet 2: JavaScript values seen from Go -------------------------------------------------------

type jsCase struct {
	V m15.JSVal `json:"v"`
}

func checkJS(c jsCase) harness.Outcome {
	jv := c.V
	o := harness.Outcome{Classes: []string{"kind:" + jv.Kind, "tag:" + jv.Tag}}
	fail := func(f string, a ...interface{}) harness.Outcome {
		o.Fail = fmt.Sprintf("v = %s: ", jv.Src) + fmt.Sprintf(f, a...)
		return o
	}
	vm := getVM()
	r := harness.Run(vm, "LOG = []; var v = ("+jv.Src+"); v")
	if r.Panicked {
		dropVM()
		return fail("evaluating the expression panicked: %v", r.Panic)
	}
	if r.Err != nil {
		return fail("evaluating the expression threw: %v", r.Err)
	}
	val := r.Value

	skipNum := harness.Known(fStr16) && jv.Tag == "fromCharCode"
	if skipNum {
		o.Excluded = append(o.Excluded, fStr16)
	}
	pr := harness.Run(vm, fmt.Sprintf("c15probe(v, %v)", skipNum))
	if pr.Panicked {
		dropVM()
		return fail("the in-language conversions panicked: %v", pr.Panic)
	}
	if pr.Err != nil {
		return fail("probe threw: %v", pr.Err)
	}
	get := func(name string) otto.Value { return prop(pr.Value, name) }
	typ := str(get("type"))
	isNull, _ := get("isnull").ToBoolean()
	cls := str(get("cls"))

	// predicates against typeof / Object.prototype.toString
	isObj := (typ == "object" && !isNull) || typ == "function"
	for _, p := range []struct {
		name      string
		got, want bool
	}{
		{"IsUndefined", val.IsUndefined(), typ == "undefined"},
		{"IsDefined", val.IsDefined(), typ != "undefined"},
		{"IsNull", val.IsNull(), isNull},
		{"IsBoolean", val.IsBoolean(), typ == "boolean"},
		{"IsNumber", val.IsNumber(), typ == "number"},
		{"IsString", val.IsString(), typ == "string"},
		{"IsObject", val.IsObject(), isObj},
		{"IsFunction", val.IsFunction(), typ == "function"},
		{"IsPrimitive", val.IsPrimitive(), !isObj},
	} {
		if p.got != p.want {
			return fail("%s() = %v, but typeof v is %q (null: %v)", p.name, p.got, typ, isNull)
		}
	}
	wantKindType := map[string]string{"undefined": "undefined", "null": "object", "boolean": "boolean", "number": "number", "string": "string"}
	if w, ok := wantKindType[jv.Kind]; ok && typ != w {
		return fail("typeof v = %q, want %q", typ, w)
	}
	if jv.Kind == "object" && !isObj {
		return fail("typeof v = %q for an object", typ)
	}
	if isObj {
		if want := "[object " + val.Class() + "]"; want != cls {
			return fail("Class() = %q, Object.prototype.toString.call(v) = %q", val.Class(), cls)
		}
		if ob := val.Object(); ob == nil || ob.Class() != val.Class() {
			return fail("Object().Class() disagrees with Class()")
		}
	} else {
		if val.Class() != "" {
			return fail("Class() = %q for a primitive, documented: empty string", val.Class())
		}
		if val.Object() != nil {
			return fail("Object() is not nil for a primitive")
		}
	}

	logOf := func() string {
		l := harness.Run(vm, "var c15l = LOG.join(); LOG = []; c15l")
		return str(l.Value)
	}

	// ToString / ToBoolean against String(v) / Boolean(v)
	var s string
	var serr error
	if p := guard(func() { s, serr = val.ToString() }); p != "" {
		return fail("ToString panicked: %s", p)
	}
	slog := logOf()
	switch str(get("sok")) {
	case "ok":
		if serr != nil {
			return fail("ToString failed (%v) but String(v) gives %q", serr, str(get("s")))
		}
		if want := str(get("s")); s != want {
			return fail("ToString() = %q, String(v) = %q", s, want)
		}
	default:
		if serr == nil {
			return fail("ToString() = %q without error, but String(v) throws", s)
		}
	}
	if want := str(get("slog")); slog != want {
		return fail("ToString called the converters %q, String(v) calls %q", slog, want)
	}
	var b bool
	var berr error
	if p := guard(func() { b, berr = val.ToBoolean() }); p != "" {
		return fail("ToBoolean panicked: %s", p)
	}
	if want, _ := get("b").ToBoolean(); berr != nil || b != want {
		return fail("ToBoolean() = %v (%v), Boolean(v) = %v", b, berr, want)
	}
	if l := logOf(); l != "" {
		return fail("ToBoolean called converters %q", l)
	}

	// ToFloat / ToInteger / IsNaN against Number(v) / isNaN(v)
	var f float64
	var i int64
	haveNum := false
	if !skipNum {
		var ferr, ierr error
		if p := guard(func() { f, ferr = val.ToFloat() }); p != "" {
			return fail("ToFloat panicked: %s", p)
		}
		flog := logOf()
		if p := guard(func() { i, ierr = val.ToInteger() }); p != "" {
			return fail("ToInteger panicked: %s", p)
		}
		ilog := logOf()
		wantLog := str(get("nlog"))
		switch str(get("nok")) {
		case "ok":
			n, _ := get("n").ToFloat()
			if ferr != nil || !m15.SameFloat(f, n) {
				return fail("ToFloat() = %s (%v), Number(v) = %s", m15.FloatLit(f, 64), ferr, m15.FloatLit(n, 64))
			}
			haveNum = true
			okInt := ierr == nil && i == m15.ToInt64(n)
			if !okInt && ierr == nil && jv.Int != "" && strconv.FormatInt(i, 10) == jv.Int {
				okInt = true // an integer literal may come back digit for digit
			}
			if !okInt {
				return fail("ToInteger() = %d (%v), want %d (Number(v) = %s truncated, saturated at int64)", i, ierr, m15.ToInt64(n), m15.FloatLit(n, 64))
			}
		default:
			if ferr == nil {
				return fail("ToFloat() = %s without error, but Number(v) throws", m15.FloatLit(f, 64))
			}
			if ierr == nil {
				return fail("ToInteger() = %d without error, but Number(v) throws", i)
			}
		}
		if flog != wantLog || ilog != wantLog {
			return fail("ToFloat/ToInteger called the converters %q/%q, Number(v) calls %q", flog, ilog, wantLog)
		}
		nanok := str(get("nanok"))
		if nanok == "throw" && harness.Known(fIsNaN) {
			o.Excluded = append(o.Excluded, fIsNaN)
		} else {
			var isnan bool
			if p := guard(func() { isnan = val.IsNaN() }); p != "" {
				return fail("IsNaN panicked: %s", p)
			}
			logOf()
			if want, _ := get("nan").ToBoolean(); nanok == "ok" && isnan != want {
				return fail("IsNaN() = %v, isNaN(v) = %v", isnan, want)
			}
		}
	}

	// the ES5 model for primitives
	switch jv.Kind {
	case "undefined", "null", "boolean", "number", "string":
		o.Nontrivial = true
		var wantS string
		var wantF float64
		var wantB bool
		excl := ""
		switch jv.Kind {
		case "undefined":
			wantS, wantF, wantB = "undefined", math.NaN(), false
		case "null":
			wantS, wantF, wantB = "null", 0, false
		case "boolean":
			wantS, wantB = strconv.FormatBool(jv.B), jv.B
			if jv.B {
				wantF = 1
			}
		case "number":
			x := m15.ParseFloatLit(jv.Num, 64)
			o.Classes = append(o.Classes, numClass(x))
			o.Nontrivial = numClass(x) != "num:smallint"
			wantS, wantF, wantB = es5.NumberToString(x), x, !(math.IsNaN(x) || x == 0)
			if jv.Int != "" && jv.Int != wantS && harness.Known(fInt64) {
				wantS = jv.Int
				o.Excluded = append(o.Excluded, fInt64)
			}
		case "string":
			wantS, wantF, wantB = jv.Str, es5.StringToNumber(utf16.Encode([]rune(jv.Str))), jv.Str != ""
			excl = toNumberExcluded(jv.Str)
			o.Nontrivial = nonASCII(jv.Str) || !math.IsNaN(wantF)
		}
		if s != wantS {
			return fail("ToString() = %q, ES5 9.8 gives %q", s, wantS)
		}
		if b != wantB {
			return fail("ToBoolean() = %v, ES5 9.2 gives %v", b, wantB)
		}
		if excl != "" {
			o.Excluded = append(o.Excluded, excl)
		} else if haveNum {
			if !m15.SameFloat(f, wantF) {
				return fail("ToFloat() = %s, ES5 9.3 gives %s", m15.FloatLit(f, 64), m15.FloatLit(wantF, 64))
			}
		}
		// Export of a primitive
		var ex interface{}
		if p := guard(func() { ex, _ = val.Export() }); p != "" {
			return fail("Export panicked: %s", p)
		}
		switch jv.Kind {
		case "undefined", "null":
			if ex != nil {
				return fail("Export() = %#v, documented: nil", ex)
			}
		case "boolean":
			if g, ok := ex.(bool); !ok || g != jv.B {
				return fail("Export() = %#v, want %v", ex, jv.B)
			}
		case "string":
			if g, ok := ex.(string); !ok || g != jv.Str {
				return fail("Export() = %#v, want %q", ex, jv.Str)
			}
		case "number":
			if jv.Int != "" && jv.Int != es5.NumberToString(wantF) && harness.Known(fInt64) {
				break // the literal is not a double: otto exports the un-rounded int64
			}
			if diff := sameNumber(wantF, reflect.ValueOf(ex)); diff != "" {
				return fail("Export() = %#v: %s", ex, diff)
			}
		}
	default:
		o.Nontrivial = true
	}
	return o
}

// sameNumber: v is a Go number of any kind denoting exactly x.
func sameNumber(x float64, v reflect.Value) string {
	if !v.IsValid() {
		return "nil, want the number " + m15.FloatLit(x, 64)
	}
	switch v.Kind() {
	case reflect.Float32, reflect.Float64:
		if !m15.SameFloat(v.Float(), x) {
			return fmt.Sprintf("%s, want %s", m15.FloatLit(v.Float(), 64), m15.FloatLit(x, 64))
		}
	case reflect.Int, reflect.Int8, reflect.Int16, reflect.Int32, reflect.Int64:
		if float64(v.Int()) != x || int64(x) != v.Int() || (x == 0 && math.Signbit(x)) {
			return fmt.Sprintf("%d, want %s", v.Int(), m15.FloatLit(x, 64))
		}
	case reflect.Uint, reflect.Uint8, reflect.Uint16, reflect.Uint32, reflect.Uint64:
		if float64(v.Uint()) != x || x < 0 || uint64(x) != v.Uint() || (x == 0 && math.Signbit(x)) {
			return fmt.Sprintf("%d, want %s", v.Uint(), m15.FloatLit(x, 64))
		}
	default:
		return fmt.Sprintf("a %v, want the number %s", v.Type(), m15.FloatLit(x, 64))
	}
	return ""
}

var jsFacet = harness.Register(&harness.Facet[jsCase]{
	Name: "js-values",
	Rule: "rapid: a JavaScript value from the pools - boundary doubles written as float literals, integer/hex literals (incl. non-double ones below 2^63), results of |0, >>>0, .length; numeric-looking and four-alphabet strings built as literals, by concatenation or String.fromCharCode; booleans, null, undefined; objects, arrays, functions, Date/RegExp/Error, wrapper objects, built-ins, and objects whose valueOf/toString return every primitive kind, an object, throw, or are not callable (logging each call); oracle: predicates and Class() against typeof / Object.prototype.toString in the same runtime, ToFloat/ToInteger/ToString/ToBoolean/IsNaN against Number/String/Boolean/isNaN in the same runtime incl. which converters run, errors iff the language throws, plus the lib/es5 model and Export for primitives; non-trivial = not a small integer / not an ASCII non-numeric string; distinct by case JSON",
	Quick:    20000,
	Thorough: 80000,
	Gen:      func(t *rapid.T) jsCase { return jsCase{V: m15.GenJSVal(t)} },
	Check:    checkJS,
})

func TestJSValues(t *testing.T) { jsFacet.Run(t) }

// ---- facet 3: Export / MarshalJSON of JSON-like data -----------------------------------------------

type exportCase struct {
	Route string `json:"route"` // literal | parse | imperative
	J     m15.J  `json:"j"`
}

var tMap = reflect.TypeOf(map[string]interface{}(nil))

// mayClash over-approximates the inputs of finding C15-EXPORT-NESTED-PANIC: some array has at least two
// present elements that are all arrays, one of which itself contains an array (the common slice type is
// then decided by element *kinds* two levels up). The exclusion also requires the reflect.Set panic itself.
func mayClash(j m15.J) bool {
	if j.K == "arr" {
		n, allArr, deep := 0, true, false
		for _, e := range j.E {
			if e.K == "hole" {
				continue
			}
			n++
			if e.K != "arr" {
				allArr = false
				continue
			}
			for _, ee := range e.E {
				if ee.K == "arr" {
					deep = true
				}
			}
		}
		if n >= 2 && allArr && deep {
			return true
		}
	}
	for _, e := range j.E {
		if mayClash(e) {
			return true
		}
	}
	return false
}

// sameExport compares what Export returned with the JSON-like data: null/undefined -> nil, boolean ->
// bool, number -> a Go number of that exact value, string -> string, Array -> a slice (typed or not)
// with the same elements in order, Object -> map[string]interface{} without undefined-valued keys.
func sameExport(j m15.J, v reflect.Value, p string, compactHoles bool) string {
	for v.IsValid() && v.Kind() == reflect.Interface {
		v = v.Elem()
	}
	switch j.K {
	case "null", "undef", "hole":
		if v.IsValid() {
			return fmt.Sprintf("%s: %v, want nil", p, v)
		}
	case "bool":
		if !v.IsValid() || v.Kind() != reflect.Bool || strconv.FormatBool(v.Bool()) != j.V {
			return fmt.Sprintf("%s: %v, want %s", p, v, j.V)
		}
	case "int", "num":
		x := m15.ParseFloatLit(j.V, 64)
		if diff := sameNumber(x, v); diff != "" {
			return p + ": " + diff
		}
	case "str":
		if !v.IsValid() || v.Kind() != reflect.String || v.String() != j.V {
			return fmt.Sprintf("%s: %v, want %q", p, v, j.V)
		}
	case "arr":
		if !v.IsValid() || v.Kind() != reflect.Slice {
			return fmt.Sprintf("%s: %v, want a slice", p, v)
		}
		var want []m15.J
		for _, e := range j.E {
			if e.K == "hole" && compactHoles {
				continue
			}
			want = append(want, e)
		}
		if v.Len() != len(want) {
			return fmt.Sprintf("%s: %d elements, want %d", p, v.Len(), len(want))
		}
		for i, e := range want {
			if r := sameExport(e, v.Index(i), fmt.Sprintf("%s[%d]", p, i), compactHoles); r != "" {
				return r
			}
		}
	case "obj":
		if !v.IsValid() || v.Type() != tMap {
			return fmt.Sprintf("%s: %v, want map[string]interface{}", p, v)
		}
		n := 0
		for i, e := range j.E {
			if e.K == "undef" {
				if v.MapIndex(reflect.ValueOf(j.Keys[i])).IsValid() {
					return fmt.Sprintf("%s: key %q present, but its value is undefined", p, j.Keys[i])
				}
				continue
			}
			n++
			ev := v.MapIndex(reflect.ValueOf(j.Keys[i]))
			if !ev.IsValid() {
				return fmt.Sprintf("%s: key %q missing", p, j.Keys[i])
			}
			if r := sameExport(e, ev, p+"."+j.Keys[i], compactHoles); r != "" {
				return r
			}
		}
		if v.Len() != n {
			return fmt.Sprintf("%s: %d keys, want %d", p, v.Len(), n)
		}
	}
	return ""
}

func checkExport(c exportCase) harness.Outcome {
	j := c.J
	o := harness.Outcome{Classes: []string{"route:" + c.Route, "top:" + j.K, "depth:" + strconv.Itoa(j.Depth())}}
	o.Nontrivial = j.Depth() >= 1
	var src string
	switch c.Route {
	case "literal":
		src = j.Literal()
	case "imperative":
		src = j.Imperative()
	case "parse":
		if !j.Pure() {
			o.Discard = "not JSON text"
			return o
		}
		src = "JSON.parse(" + m15.JSStr(j.JSONText()) + ")"
	}
	fail := func(f string, a ...interface{}) harness.Outcome {
		o.Fail = fmt.Sprintf("Export of %s: ", src) + fmt.Sprintf(f, a...)
		return o
	}
	vm := getVM()
	r := harness.Run(vm, src)
	if r.Panicked {
		dropVM()
		return fail("building the data panicked: %v", r.Panic)
	}
	if r.Err != nil {
		return fail("building the data threw: %v", r.Err)
	}
	if msg := judgeExport(&o, j, r.Value); msg != "" {
		return fail("%s", msg)
	}
	return o
}

// judgeExport compares Export() and MarshalJSON() of val with the JSON-like tree j it was built from
// (classes and known-finding exclusions are recorded in o); "" when both agree.
func judgeExport(o *harness.Outcome, j m15.J, val otto.Value) string {
	if j.HasHole() {
		o.Classes = append(o.Classes, "has-hole")
	}
	clash := mayClash(j)
	if clash {
		o.Classes = append(o.Classes, "arrays-of-arrays-of-arrays")
	}
	var ex interface{}
	p := guard(func() { ex, _ = val.Export() })
	switch {
	case p != "" && clash && harness.Known(fNested) && strings.HasPrefix(p, "reflect.Set: value of type"):
		o.Excluded = append(o.Excluded, fNested)
	case p != "":
		return "Export panicked: " + p
	default:
		compact := false
		if j.HasHole() && harness.Known(fHoles) {
			compact = true
			o.Excluded = append(o.Excluded, fHoles)
		}
		if diff := sameExport(j, reflect.ValueOf(ex), "$", compact); diff != "" {
			return fmt.Sprintf("got %#v: %s", ex, diff)
		}
	}
	// MarshalJSON of the same value: the JSON.stringify tree
	var mj []byte
	var mjErr error
	if p := guard(func() { mj, mjErr = val.MarshalJSON() }); p != "" {
		return "MarshalJSON panicked: " + p
	}
	if want, ok := j.StringifyText(); ok && !(j.K == "num" && want == "null") { // a bare NaN/Infinity has no encoding/json form: an error is acceptable
		if mjErr != nil {
			return fmt.Sprintf("MarshalJSON failed: %v", mjErr)
		}
		if diff := m15.SameJSON([]byte(want), mj, false); diff != "" {
			return fmt.Sprintf("MarshalJSON gives %s, the data is %s (%s)", mj, want, diff)
		}
	}
	return ""
}

var exportFacet = harness.Register(&harness.Facet[exportCase]{
	Name: "js-export",
	Rule: "rapid: JSON-like data (null, undefined, booleans, boundary doubles, integer literals up to 2^53, four-alphabet strings, arrays incl. holes and homogeneous runs, objects with odd keys) to depth 4, built by a literal, by JSON.parse, or imperatively (index assignment, length=); oracle: Export is structurally equal to the data (null/undefined -> nil, numbers by exact value whatever the Go kind, arrays as slices typed or not, objects as map[string]interface{} without undefined-valued keys) and MarshalJSON denotes the JSON.stringify tree of the data; non-trivial = a container; distinct by case JSON",
	Quick:    15000,
	Thorough: 70000,
	Gen: func(t *rapid.T) exportCase {
		route := rapid.SampledFrom([]string{"literal", "literal", "parse", "imperative"}).Draw(t, "route")
		switch k := rapid.IntRange(0, 9).Draw(t, "shape"); {
		case k == 0:
			return exportCase{Route: route, J: m15.GenJ(t, 0, route == "parse", false)}
		case k < 3:
			return exportCase{Route: route, J: m15.GenJNested(t)}
		}
		return exportCase{Route: route, J: m15.GenJTop(t, 4, route == "parse")}
	},
	Check: checkExport,
})

func TestJSExport(t *testing.T) { exportFacet.Run(t) }

var _ = gen.IsPlain
