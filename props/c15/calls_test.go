package c15

import (
	"fmt"
	"strconv"
	"strings"
	"testing"

	"github.com/robertkrimen/otto"
	"pgregory.net/rapid"

	"verif/lib/harness"
	"verif/lib/m15"
)

// ---- facet 4: Value.Call / Object.Call / Otto.Call against the same call written in script ----------

const callSrc = `function c15kind(t) {
  if (t === undefined) return "undefined";
  if (t === null) return "null";
  if (t === G) return "global";
  if (t === o) return "o";
  if (t === o.inner) return "o.inner";
  if (t === Math) return "Math";
  return typeof t + ":" + c15show(t, 3);
}
function c15args(a) { var r = [], i; for (i = 0; i < a.length; i++) r.push(a[i]); return r; }
function rep() { return {t: c15kind(this), n: arguments.length, a: c15args(arguments)}; }
function Ctor() { this.n = arguments.length; this.a = c15args(arguments); this.isCtor = this instanceof Ctor; }
Ctor.prototype.marker = "proto";
function CtorRet(x) { return {ret: true, n: arguments.length, x: x, t: c15kind(this)}; }
function CtorPrim(x) { this.x = x; return 7; }
function thrower() { throw new TypeError("tt" + arguments.length); }
function throwarg(x) { throw x; }
var o = {rep: rep, inner: {rep: rep}, Ctor: Ctor, notfn: 5, thrower: thrower, nul: null};
var bound = rep.bind(o, 9);
// callees whose names collide with what Otto.Call parses out of its source text: they start with the
// letters n-e-w (and a function of the remaining name exists too), or use $ _ and non-ASCII letters
function c15named(who) { return function () { return {who: who, t: c15kind(this), n: arguments.length, a: c15args(arguments)}; }; }
var newPoint = c15named("newPoint"), Point = c15named("Point"), newline = c15named("newline"), line = c15named("line");
var news = {latest: c15named("news.latest")}, s = {latest: c15named("s.latest")};
var newest = [c15named("newest[0]")], est = [c15named("est[0]")];
var new$ = c15named("new$"), $ = c15named("$"), new_ = c15named("new_"), _ = c15named("_"), newCtor = c15named("newCtor");
var New = c15named("New"), NEW = c15named("NEW"), renew = c15named("renew"), knew = c15named("knew"), $rep = c15named("$rep"), _rep = c15named("_rep");
var \u00e9t\u00e9 = c15named("\u00e9t\u00e9"), new\u00e9 = c15named("new\u00e9"), \u00e9 = c15named("\u00e9");
o.newer = {rep: c15named("o.newer.rep")}; o["new"] = c15named("o.new"); o["new thing"] = c15named("o[new thing]");
function c15try(f) {
  try { return ["ok", c15show(f(), 6)]; }
  catch (e) { return ["throw", e instanceof Error ? e.name : "primitive", c15show(e, 2)]; }
}`

type callCase struct {
	API  string  `json:"api"`            // value | object | otto
	Fn   string  `json:"fn"`             // value: expression giving the callee; object: method name; otto: source text
	Recv string  `json:"recv,omitempty"` // object: expression giving the receiver
	This string  `json:"this"`           // nil (otto only) | undefined | null | o | go
	ThisD *m15.D `json:"this_d,omitempty"`
	New  bool    `json:"new,omitempty"` // otto: "new " prefix
	Args []m15.D `json:"args"`
}

var (
	valueCallees = []string{"rep", "rep", "o.rep", "bound", "Ctor", "CtorRet", "thrower", "throwarg", "Math.max", "String.prototype.toUpperCase", "Array.prototype.concat", "Object", "o.notfn", "o", "o.nul", "undefined"}
	objectRecvs  = []string{"o", "o", "o.inner", "G", "Math", "[1,2]"}
	objectNames  = []string{"rep", "rep", "thrower", "notfn", "missing", "Ctor", "nul", "max", "concat", "toString", "hasOwnProperty"}
	ottoSources  = []string{"rep", "o.rep", "o['rep']", "o.inner.rep", "(o.rep)", "(0,o.rep)", "bound", "rep.bind(o,9)", "Ctor", "o.Ctor", "CtorRet", "CtorPrim", "thrower", "throwarg", "o.thrower",
		"o.notfn", "missing", "o.missing", "Math.max", "String.prototype.toUpperCase", "[ 1, 2, 3, undefined, 4 ].concat", "Object", "(function(){return c15kind(this)})", "(function(a,b){return [this===G,a,b]})"}
	// names and paths that collide with the "new " prefix Otto.Call looks for, odd identifier characters
	collidingSources = []string{"newPoint", "Point", "newline", "line", "news.latest", "s.latest", "newest[0]", "est[0]", "new$", "$", "new_", "_", "newCtor", "New", "NEW", "renew", "knew",
		"$rep", "_rep", "\u00e9t\u00e9", "new\u00e9", "\u00e9", "o.newer.rep", "o['new']", "o[\"new thing\"]", "o.new", "(newPoint)", "(0,news.latest)", "newPoint.bind(o,9)"}
	// "new" followed by something else than one space is not the documented constructor form: the source is an
	// expression whose value is called; "new" / "new " alone denote nothing callable
	oddNewSources = []string{"new\tCtor", "new\nCtor", "new\u00a0Ctor", "new\tnewPoint", "new(Ctor)", "new", "new ", "new  ", "newPoint ", " newPoint", " new Ctor"}
	newSources = []string{"newPoint", "news.latest", "newest[0]", "new$", "newCtor", " Ctor", "\tCtor", " newPoint", "o.newer.rep", "o['new']", "(Ctor)", "New","Ctor", "o.Ctor", "CtorRet", "CtorPrim", "Object", "rep", "thrower", "o.notfn", "missing", "(function(a){this.a=a})"}
)

// isOddNew: the source starts with the keyword new but not with the documented prefix "new " + callee
func isOddNew(src string) bool {
	t := strings.TrimLeft(src, " ")
	if !strings.HasPrefix(t, "new") {
		return false
	}
	rest := t[3:]
	if rest == "" || strings.TrimSpace(rest) == "" {
		return true
	}
	r := []rune(rest)[0]
	return r == '\t' || r == '\n' || r == 0xa0 || r == '(' || (t != src && r == ' ')
}

// built-ins whose first step rejects an undefined/null this value
var thisUsingBuiltin = map[string]bool{"String.prototype.toUpperCase": true, "Array.prototype.concat": true, "[ 1, 2, 3, undefined, 4 ].concat": true}

// callees that assign to properties of their this value
var writesThis = map[string]bool{"Ctor": true, "o.Ctor": true, "CtorPrim": true}

// callable argument kinds: everything facet 1 generates (depth bounded to 2 to keep renderings short).
func genArg(t *rapid.T) m15.D {
	switch k := rapid.IntRange(0, 9).Draw(t, "argkind"); {
	case k < 6:
		return m15.GenAny(t, 0)
	default:
		return m15.GenTyped(t, rapid.SampledFrom(m15.ContainerTypes).Draw(t, "container"), 2)
	}
}

func genCall(t *rapid.T) callCase {
	c := callCase{API: rapid.SampledFrom([]string{"value", "object", "otto", "otto"}).Draw(t, "api")}
	n := rapid.IntRange(0, 3).Draw(t, "nargs")
	for i := 0; i < n; i++ {
		c.Args = append(c.Args, genArg(t))
	}
	thisForms := []string{"undefined", "null", "o", "go", "go"}
	switch c.API {
	case "value":
		c.Fn = rapid.SampledFrom(valueCallees).Draw(t, "callee")
		c.This = rapid.SampledFrom(thisForms).Draw(t, "this")
	case "object":
		c.Recv = rapid.SampledFrom(objectRecvs).Draw(t, "recv")
		c.Fn = rapid.SampledFrom(objectNames).Draw(t, "name")
		c.This = "recv"
	case "otto":
		c.New = rapid.IntRange(0, 3).Draw(t, "new") == 0
		if c.New {
			c.Fn = rapid.SampledFrom(newSources).Draw(t, "source")
		} else {
			switch k := rapid.IntRange(0, 9).Draw(t, "pool"); {
			case k < 5:
				c.Fn = rapid.SampledFrom(ottoSources).Draw(t, "source")
			case k < 9:
				c.Fn = rapid.SampledFrom(collidingSources).Draw(t, "colliding")
			default:
				c.Fn = rapid.SampledFrom(oddNewSources).Draw(t, "oddnew")
			}
		}
		c.This = rapid.SampledFrom(append([]string{"nil", "nil", "nil"}, thisForms...)).Draw(t, "this")
	}
	if c.This == "go" && !c.New && writesThis[c.Fn] {
		c.This = "o" // writing through a bridged Go container is C16's subject
	}
	if c.This == "go" {
		d := genArg(t)
		if d.T == "nil" { // a nil interface is Otto.Call's "no this" form
			d = m15.D{T: "int", V: "5"}
		}
		c.ThisD = &d
	}
	return c
}

// expectedThis: the this value ES5 10.4.3 / 11.2.3 / 15.3.4.3-5 prescribe, as c15kind renders it
// ("" = not predicted here, the differential comparison still applies).
func expectedThis(c callCase) string {
	if c.Fn == "bound" || c.Fn == "rep.bind(o,9)" {
		return "o"
	}
	byForm := func() string {
		switch c.This {
		case "undefined", "null":
			return "global" // non-strict code: undefined/null this becomes the global object
		case "o":
			return "o"
		case "go":
			switch m15.Counterpart(*c.ThisD).Kind {
			case "undefined":
				return "global"
			default:
				return "object:" // ToObject(this): always typeof "object"
			}
		}
		return ""
	}
	switch c.API {
	case "value":
		return byForm()
	case "object":
		return map[string]string{"o": "o", "o.inner": "o.inner", "G": "global", "Math": "Math"}[c.Recv]
	case "otto":
		if c.This != "nil" {
			return byForm()
		}
		switch c.Fn {
		case "rep", "(0,o.rep)":
			return "global"
		case "o.rep", "o['rep']", "(o.rep)":
			return "o"
		case "o.inner.rep":
			return "o.inner"
		}
	}
	return ""
}

func isRep(c callCase) bool {
	switch c.API {
	case "object":
		return c.Fn == "rep" && (c.Recv == "o" || c.Recv == "o.inner")
	case "value":
		return c.Fn == "rep" || c.Fn == "o.rep" || c.Fn == "bound"
	}
	if c.New {
		return false
	}
	switch c.Fn {
	case "rep", "o.rep", "o['rep']", "o.inner.rep", "(o.rep)", "(0,o.rep)", "bound", "rep.bind(o,9)":
		return true
	}
	return false
}

var (
	callVM     *otto.Otto
	callVMUses int
)

// getCallVM hands out a runtime with the call family defined; it is shared between cases that
// cannot change it (everything a case binds - A0…, T, R - is rebound before use) and replaced often.
func getCallVM() *otto.Otto {
	if callVM == nil || callVMUses > 300 {
		callVM = newVM()
		if _, err := callVM.Run(callSrc); err != nil {
			panic(err)
		}
		callVMUses = 0
	}
	callVMUses++
	return callVM
}

func checkCall(c callCase) harness.Outcome {
	o := harness.Outcome{Classes: []string{"api:" + c.API, "this:" + c.This, "nargs:" + strconv.Itoa(len(c.Args))}, Nontrivial: true}
	if c.API == "otto" {
		o.Classes = append(o.Classes, "otto:"+map[bool]string{true: "new ", false: ""}[c.New]+c.Fn)
	} else {
		o.Classes = append(o.Classes, c.API+":"+c.Fn)
	}
	desc := fmt.Sprintf("%s call of %q (this %s, %d args)", c.API, c.Fn, c.This, len(c.Args))
	fail := func(f string, a ...interface{}) harness.Outcome {
		o.Fail = desc + ": " + fmt.Sprintf(f, a...)
		return o
	}
	if harness.Known(fF32) {
		bad := c.ThisD != nil && reachesFloat32(*c.ThisD)
		for _, a := range c.Args {
			bad = bad || reachesFloat32(a)
		}
		if bad {
			o.Excluded = append(o.Excluded, fF32)
			o.Nontrivial = false
			return o
		}
	}
	vm := getCallVM()
	if !c.New && writesThis[c.Fn] {
		callVM = nil // the callee assigns to o / the global object: the next case gets a fresh runtime
	}
	// materialise the arguments once: the Go call and the script call receive the same Go values
	args := make([]interface{}, len(c.Args))
	names := make([]string, len(c.Args))
	for i, d := range c.Args {
		args[i] = m15.Build(d)
		names[i] = "A" + strconv.Itoa(i)
		if err := vm.Set(names[i], args[i]); err != nil {
			return fail("Set of argument %d (%s) failed: %v", i, d.T, err)
		}
	}
	var thisGo interface{}
	thisExpr := map[string]string{"undefined": "undefined", "null": "null", "o": "o"}[c.This]
	var thisVal otto.Value
	switch c.This {
	case "undefined":
		thisVal = otto.UndefinedValue()
	case "null":
		thisVal = otto.NullValue()
	case "o":
		thisVal, _ = vm.Get("o")
	case "go":
		thisGo = m15.Build(*c.ThisD)
		if err := vm.Set("T", thisGo); err != nil {
			return fail("Set of this (%s) failed: %v", c.ThisD.T, err)
		}
		thisExpr = "T"
		var err error
		if thisVal, err = vm.ToValue(thisGo); err != nil {
			return fail("ToValue of this failed: %v", err)
		}
	}
	argList := strings.Join(names, ",")

	// the call through the Go API, and the same call in the language
	var res otto.Value
	var err error
	var equiv string
	p := guard(func() {
		switch c.API {
		case "value":
			var fn otto.Value
			fn, err = vm.Run("(" + c.Fn + ")")
			if err != nil {
				return
			}
			res, err = fn.Call(thisVal, args...)
			equiv = "(" + c.Fn + ").apply(" + thisExpr + ", [" + argList + "])"
		case "object":
			var ob *otto.Object
			ob, err = vm.Object("(" + c.Recv + ")")
			if err != nil {
				return
			}
			res, err = ob.Call(c.Fn, args...)
			equiv = "(" + c.Recv + ")[" + m15.JSStr(c.Fn) + "](" + argList + ")"
		case "otto":
			var this interface{}
			switch c.This {
			case "nil":
				this = nil
			case "go":
				this = thisGo
			default:
				this = thisVal
			}
			src := c.Fn
			if c.New {
				src = "new " + c.Fn
			}
			res, err = vm.Call(src, this, args...)
			switch {
			case c.New:
				equiv = "new " + c.Fn + "(" + argList + ")"
			case isOddNew(c.Fn): // not the documented "new " form: the value of the expression is called
				equiv = "(" + c.Fn + ")(" + argList + ")"
				if c.This != "nil" {
					sep := ", "
					if argList == "" {
						sep = ""
					}
					equiv = "(" + c.Fn + ").call(" + thisExpr + sep + argList + ")"
				}
			case c.This == "nil":
				equiv = c.Fn + "(" + argList + ")"
			default:
				sep := ", "
				if argList == "" {
					sep = ""
				}
				equiv = "(" + c.Fn + ").call(" + thisExpr + sep + argList + ")"
			}
		}
	})
	if p != "" {
		callVM = nil
		return fail("Go panic out of the call API: %s", p)
	}
	if thisUsingBuiltin[c.Fn] && c.API != "object" && c.This != "nil" && !c.New && (c.This == "undefined" || c.This == "null" || (c.This == "go" && m15.Counterpart(*c.ThisD).Kind == "undefined")) {
		// 15.5.4.18 / 15.4.4.4 start with CheckObjectCoercible / ToObject of this: TypeError. The script
		// side cannot serve as reference here (f.call(undefined) hands built-ins the global object, DESIGN A8).
		o.Classes = append(o.Classes, "builtin-on-undefined-this")
		if err == nil || harness.ErrName(err) != "TypeError" {
			return fail("returned %v (%v), ES5 prescribes a TypeError for an undefined/null this", res, err)
		}
		return o
	}
	er := harness.Run(vm, "c15try(function(){ return eval("+m15.JSStr(equiv)+"); })")
	if er.Panicked || er.Err != nil {
		return fail("the equivalent script call %s could not be evaluated: %v %v", equiv, er.Err, er.Panic)
	}
	status := str(prop(er.Value, "0"))
	if status == "throw" {
		o.Classes = append(o.Classes, "outcome:throw")
		if err == nil {
			return fail("returned %v without error, but %s throws %s", res, equiv, str(prop(er.Value, "2")))
		}
		if !res.IsUndefined() {
			return fail("returned a defined value together with the error %v", err)
		}
		if name := str(prop(er.Value, "1")); name == "SyntaxError" || isOddNew(c.Fn) {
			o.Classes = append(o.Classes, "not-a-callee-expression") // only "an error" is demanded
		} else if name != "primitive" && harness.ErrName(err) != name {
			return fail("returned error %q, but %s throws a %s", err, equiv, name)
		}
		return o
	}
	o.Classes = append(o.Classes, "outcome:return")
	if err != nil {
		return fail("returned error %v, but %s returns %s", err, equiv, str(prop(er.Value, "1")))
	}
	if serr := vm.Set("R", res); serr != nil {
		return fail("cannot bind the result: %v", serr)
	}
	tree := make([]string, len(c.Args))
	for i, d := range c.Args {
		tree[i] = m15.Counterpart(d).ExpectSrc()
	}
	if c.Fn == "bound" || c.Fn == "rep.bind(o,9)" {
		tree = append([]string{`["n",9]`}, tree...)
	}
	sr := harness.Run(vm, `[c15show(R, 6), typeof R === "object" && R !== null ? R.t : "", typeof R === "object" && R !== null ? R.n : -1, typeof R === "object" && R !== null && R.a ? c15eq(R.a, ["a",[`+strings.Join(tree, ",")+`]], "arguments") : "no R.a"]`)
	if sr.Panicked || sr.Err != nil {
		return fail("rendering the result failed: %v %v", sr.Err, sr.Panic)
	}
	if got, want := str(prop(sr.Value, "0")), str(prop(er.Value, "1")); got != want {
		return fail("result %s, but %s gives %s", got, equiv, want)
	}
	if isRep(c) {
		o.Classes = append(o.Classes, "reporter")
		if n, _ := prop(sr.Value, "2").ToInteger(); int(n) != len(tree) {
			return fail("the function saw %d arguments, %d were passed", n, len(tree))
		}
		if diff := str(prop(sr.Value, "3")); diff != "" {
			return fail("the function saw different argument values: %s", diff)
		}
		if want := expectedThis(c); want != "" {
			got := str(prop(sr.Value, "1"))
			if (strings.HasSuffix(want, ":") && !strings.HasPrefix(got, want)) || (!strings.HasSuffix(want, ":") && got != want) {
				return fail("this was %q, ES5 prescribes %q", got, want)
			}
		}
	}
	return o
}

var callFacet = harness.Register(&harness.Facet[callCase]{
	Name: "calls",
	Rule: "rapid: Value.Call(this, args…) on callees incl. bound, constructor, throwing, built-in and non-callable values; Object.Call(name, args…) on o, o.inner, the global object, Math, an array, incl. missing / non-function properties; Otto.Call(source, this, args…) over source forms (identifier, member, bracket, parenthesised, comma, bind, function expression, README examples), this = nil / undefined / null / object / Go value, and the documented \"new \" prefix; 0-3 Go arguments of every kind of facet 1 (scalars of every width, strings, nil, containers to depth 2, structs, pointers); oracle: the same call written in script on the same runtime with the same Go values bound as globals (result rendered by a deep printer: types, sign of zero, string lengths, containers), error iff the language throws (same error class), and for the reporter family the ES5 this value, the argument count and the argument values against the counterpart model; every case non-trivial; distinct by case JSON",
	Quick:    8000,
	Thorough: 60000,
	Gen:      genCall,
	Check:    checkCall,
})

func TestCalls(t *testing.T) { callFacet.Run(t) }
