// Package c16 decides property C16: bridged Go functions, structs, maps and slices convert
// exactly or fail loudly, and bridged containers are live views of the Go objects.
//
// Two facets, both executed in a worker subprocess (a case can kill the process: DESIGN 2.3):
//   - call: the parameter matrix (call_test.go, oracle m16.Denote);
//   - hist: read/write/delete/enumerate histories on bridged containers interleaved with Go-side
//     mutation (hist_test.go).
package c16

import (
	"testing"

	"verif/lib/harness"
)

func TestMain(m *testing.M) { harness.Main(m, "C16") }

var callFacet = harness.Register(&harness.Facet[callCase]{
	Name:  "call",
	Rule:  "rapid: a Go function signature over m16's type table (every numeric width, string, bool, interface{}, named kinds, slices, maps, structs with json tags/embedded/unexported fields, pointers, funcs, variadic tails, 0-3 results; built with reflect.MakeFunc, recording its arguments) called from script with arguments aimed at each parameter type (boundaries of the width: both sides of min/max, halves, NaN, +-Inf, -0, 2^53+1, float32-inexact; strings, booleans, null/undefined, arrays with holes, objects, functions, wrapper objects, array-likes, bridged Go objects passed back, bridged Go slices / array pointers of all twelve numeric element kinds with boundary elements, and re-entrant values whose toString or getter calls the same function again while the outer call is still converting) in five script spellings (int64/float64/int32/uint32/int carried inside the Value) plus eleven Go-originated forms (a Value carrying a Go uint64/uint/int64/…/float32, as results, fields and elements do); two distinct struct types that print the same name (TwinA/TwinB) are parameter types and are both bridged in every runtime and arities 0..n+2; each call runs twice (inside try, and bare so that Run's own error/panic is seen). non-trivial = some argument needs a checked conversion (out of range, fractional, wrong kind, inexact, container) or the arity is wrong; distinct by the JSON of the case",
	Quick: 9000, Thorough: 24000,
	Gen:   genCall,
	Check: checkCall,
})

func TestCall(t *testing.T) { callFacet.Run(t) }

var histFacet = harness.Register(&harness.Facet[histCase]{
	Name:  "hist",
	Rule:  "rapid: one bridged container (*struct / struct by value with json tags, embedded struct, unexported field carrying a sentinel, json:\"-\" field, pointer/interface/slice/map fields; map[string]T for eight T, map[int|int8|uint16]T, named maps with methods (StrIntM.Total, Hdr.Get/Len/Del) and keys spelled like those methods; []T by value for ten T incl. a named slice with a method; *[n]T; [n]T by value; two same-named distinct struct types; slice/array/map fields of a *struct reached through the struct on every step) with generated initial contents and a history of 1-12 steps drawn as one value: script set / defineProperty / delete / get / length= / push / pop / shift / splice / method call / passing a struct-typed field to a Go func(*T) that mutates through and keeps the pointer / assigning such a field to a pointer field with keys from pools (field names, json tags, promoted and unexported names, canonical and non-canonical integer keys, indices inside, at and beyond the length, non-index names) and values aimed at the element type (boundaries, fractions, NaN, wrong kinds), interleaved with Go-side writes and deletes on the same object (also through the kept pointer). After every step the script's view (Object.keys, for-in, every value, length, reads by tag/promoted/unexported/unknown name) is compared with the Go contents read by reflection. non-trivial = the history contains a write needing a checked conversion, a structural rejection, or a step that follows a Go-side mutation; distinct by the JSON of the case",
	Quick: 2500, Thorough: 8000,
	Gen:   genHist,
	Check: checkHist,
})

func TestHist(t *testing.T) { histFacet.Run(t) }
