// Package c16 decides property C16: bridged Go functions, structs, maps and slices convert
// exactly or fail loudly, and bridged containers are live views of the Go objects.
//
// Two facets, both executed in a worker subprocess (a case can kill the process: DESIGN 2.3):
//   - call: the parameter matrix (call_test.go, oracle m16.Denote);
//   - hist: read/write/delete/enumerate histories on bridged containers interleaved with Go-side
//     mutation (hist_test.go).
package c16

import (
	"testing"

	"verif/lib/harness"
)

func TestMain(m *testing.M) { harness.Main(m, "C16") }

var callFacet = harness.Register(&harness.Facet[callCase]{
	Name: "call",
	Rule: "rapid: a Go function signature over m16's type table (every numeric width, string, bool, interface{}, named kinds, slices, maps, structs with json tags/embedded/unexported fields, pointers, funcs, variadic tails, 0-3 results; built with reflect.MakeFunc, recording its arguments) called from script with arguments aimed at each parameter type (boundaries of the width: both sides of min/max, halves, NaN, +-Inf, -0, 2^53+1, float32-inexact; strings, booleans, null/undefined, arrays with holes, objects, functions, wrapper objects, array-likes, bridged Go objects passed back) in five number spellings (int64/float64/int32/uint32/int carried inside the Value) and arities 0..n+2; each call runs twice (inside try, and bare so that Run's own error/panic is seen). non-trivial = some argument needs a checked conversion (out of range, fractional, wrong kind, inexact, container) or the arity is wrong; distinct by the JSON of the case",
	Quick: 9000, Thorough: 60000,
	Gen:   genCall,
	Check: checkCall,
})

func TestCall(t *testing.T) { callFacet.Run(t) }
