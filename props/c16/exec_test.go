package c16

// The executor: everything that touches otto runs here, inside a worker subprocess (DESIGN 2.3:
// `delete goSlice.foo` kills the process). It builds the Go functions / containers a case asks
// for, runs the script steps, and reports what the script saw and what Go holds. It makes no
// judgement: the oracle (judge_*.go) runs in the parent from these observations.

import (
	"encoding/json"
	"fmt"
	"reflect"
	"strconv"
	"strings"

	"github.com/robertkrimen/otto"

	"verif/lib/harness"
	"verif/lib/m16"
)

const workerName = "c16-exec"

func init() { harness.RegisterWorker(workerName, serve) }

// ---- protocol -------------------------------------------------------------------------------------

type outSpec struct {
	Echo int    `json:"echo"` // index of the parameter returned unchanged, or -1
	T    string `json:"t,omitempty"`
	V    m16.GV `json:"v,omitempty"`
}

type request struct {
	Kind string `json:"kind"` // call | hist | probe
	// call
	In       []string  `json:"in,omitempty"`
	Variadic bool      `json:"variadic,omitempty"`
	Out      []outSpec `json:"out,omitempty"`
	Args     []m16.JV  `json:"args,omitempty"`
	// hist
	Cont  contSpec `json:"cont,omitempty"`
	Steps []step   `json:"steps,omitempty"`
	// probe (custom witnesses): plain script against the fixtures
	JS string `json:"js,omitempty"`
}

type contSpec struct {
	Kind  string `json:"kind"`            // pstruct | vstruct | map | slice | parray | varray | field
	T     string `json:"t"`               // type name in m16's table (S, map[string]int8, []int, IntSl, *[3]int, [3]int …; field: the struct, Holder)
	Field string `json:"field,omitempty"` // field: the container is this field of a *T, reached as G.<Field> on every step
	Init  m16.GV `json:"init"`
}

type step struct {
	Op     string   `json:"op"` // set get del define len push pop call gomut godel
	Key    string   `json:"key,omitempty"`
	Val    *m16.JV  `json:"val,omitempty"`
	Go     *m16.GV  `json:"go,omitempty"`
	Method string   `json:"method,omitempty"`
	Args   []m16.JV `json:"args,omitempty"`
}

type modeObs struct {
	Ran     int        `json:"ran"`
	Rec     [][]m16.GV `json:"rec,omitempty"` // per invocation, the arguments as they arrived
	Cb      []string   `json:"cb,omitempty"`  // what calling a function-typed argument gave
	Out     string     `json:"out,omitempty"` // helper JSON: {"ok":JD} | {"throw":class,"msg":text}
	ErrName string     `json:"errName,omitempty"`
	ErrMsg  string     `json:"errMsg,omitempty"`
	Panic   string     `json:"panic,omitempty"`
}

type stepObs struct {
	Res       string  `json:"res"`
	BareErr   string  `json:"bareErr,omitempty"`
	BarePanic string  `json:"barePanic,omitempty"`
	BareRan   bool    `json:"bareRan,omitempty"`
	View      string  `json:"view"`
	ViewErr   string  `json:"viewErr,omitempty"`
	Go        m16.GV  `json:"go"`
	Orig      *m16.GV `json:"orig,omitempty"`
	Shared    bool    `json:"shared,omitempty"`
	Cap       int     `json:"cap,omitempty"`
	Panic     string  `json:"panic,omitempty"`
}

type response struct {
	Err   string    `json:"err,omitempty"` // executor-level problem (malformed case): never a verdict
	Try   modeObs   `json:"try,omitempty"`
	Bare  modeObs   `json:"bare,omitempty"`
	Init  *stepObs  `json:"init,omitempty"`
	Steps []stepObs `json:"steps,omitempty"`
	R     string    `json:"r,omitempty"`
}

func serve(raw json.RawMessage) (out json.RawMessage) {
	var q request
	resp := response{}
	defer func() {
		if p := recover(); p != nil {
			resp = response{Err: fmt.Sprintf("executor panic: %v", p)}
		}
		out, _ = json.Marshal(resp)
	}()
	if err := json.Unmarshal(raw, &q); err != nil {
		resp.Err = "bad request: " + err.Error()
		return
	}
	switch q.Kind {
	case "call":
		resp.Try = runCall(q, true)
		resp.Bare = runCall(q, false)
	case "hist":
		runHist(q, &resp)
	case "probe":
		vm := newVM()
		resp.R = harness.Run(vm, q.JS).Describe()
	default:
		resp.Err = "unknown kind " + q.Kind
	}
	return
}

// ---- the in-script observer -----------------------------------------------------------------------

// __q / __leaf are native (plain otto API, not the reflective bridge under test) so that the
// description does not depend on otto's number formatting or JSON code.
const prelude = `
function __D(v, d) {
  if (v === undefined || v === null) return '"u"';
  var t = typeof v;
  if (t === "number" || t === "string" || t === "boolean") return __leaf(v);
  if (t === "function") return '"fn"';
  if (d > 4) return '"deep"';
  var c = Object.prototype.toString.call(v).slice(8, -1), s, i;
  if (c === "Array" || c === "GoSlice" || c === "GoArray") {
    s = '{"c":' + __q(c) + ',"a":[';
    for (i = 0; i < v.length; i++) s += (i ? "," : "") + __D(v[i], d + 1);
    return s + "]}";
  }
  var ks = Object.keys(v);
  s = '{"c":' + __q(c) + ',"o":[';
  for (i = 0; i < ks.length; i++) s += (i ? "," : "") + "[" + __q(ks[i]) + "," + __D(v[ks[i]], d + 1) + "]";
  return s + "]}";
}
function __E(e) {
  var c = (e instanceof RangeError) ? "RangeError" : (e instanceof TypeError) ? "TypeError" : (e instanceof Error) ? "Error" : typeof e, m;
  try { m = String(e) } catch (x) { m = "<unprintable>" }
  return '{"throw":' + __q(c) + ',"msg":' + __q(m) + '}';
}
function __R(f) { try { return '{"ok":' + __D(f(), 0) + '}' } catch (e) { return __E(e) } }
function __VIEW(o, names) {
  var s = '{"d":' + __D(o, 0) + ',"keys":[', ks = Object.keys(o), i, k, first = true;
  for (i = 0; i < ks.length; i++) s += (i ? "," : "") + __q(ks[i]);
  s += '],"fi":[';
  for (k in o) { s += (first ? "" : ",") + __q(k); first = false }
  s += '],"len":' + __D(o.length, 0) + ',"x":[';
  for (i = 0; i < names.length; i++) s += (i ? "," : "") + "[" + __q(names[i]) + "," + __D(o[names[i]], 1) + "," + __q(String(names[i] in o)) + "]";
  return s + "]}";
}
`

func newVM() *otto.Otto {
	vm := otto.New()
	must(vm.Set("__q", func(c otto.FunctionCall) otto.Value {
		s, _ := c.Argument(0).ToString()
		b, _ := json.Marshal(s)
		v, _ := otto.ToValue(string(b))
		return v
	}))
	must(vm.Set("__leaf", func(c otto.FunctionCall) otto.Value {
		a := c.Argument(0)
		var b []byte
		switch {
		case a.IsNumber():
			f, _ := a.ToFloat()
			b, _ = json.Marshal(map[string]string{"n": m16.CanonFloat(f)})
		case a.IsBoolean():
			x, _ := a.ToBoolean()
			b, _ = json.Marshal(map[string]bool{"b": x})
		default:
			s, _ := a.ToString()
			b, _ = json.Marshal(map[string]string{"s": s})
		}
		v, _ := otto.ToValue(string(b))
		return v
	}))
	if _, err := vm.Run(prelude); err != nil {
		panic("prelude: " + err.Error())
	}
	must(vm.Set("__gonum", func(c otto.FunctionCall) otto.Value {
		kind, _ := c.Argument(0).ToString()
		text, _ := c.Argument(1).ToString()
		var g interface{}
		if kind == "float32" {
			g = float32(m16.ParseCanon(text))
		} else if kind[0] == 'u' {
			u, err := strconv.ParseUint(text, 10, 64)
			must(err)
			switch kind {
			case "uint64":
				g = u
			case "uint":
				g = uint(u)
			case "uint32":
				g = uint32(u)
			case "uint16":
				g = uint16(u)
			default:
				g = uint8(u)
			}
		} else {
			i, err := strconv.ParseInt(text, 10, 64)
			must(err)
			switch kind {
			case "int64":
				g = i
			case "int":
				g = int(i)
			case "int32":
				g = int32(i)
			case "int16":
				g = int16(i)
			default:
				g = int8(i)
			}
		}
		v, err := otto.ToValue(g)
		must(err)
		return v
	}))
	must(vm.Set("__gosl", func(c otto.FunctionCall) otto.Value {
		// a Go slice (or, with a leading *, a pointer to a Go array) of the given numeric element
		// kind, bridged the way a Go result or field is
		spec, _ := c.Argument(0).ToString()
		ptrArray := strings.HasPrefix(spec, "*")
		et := m16.TypeOf(strings.TrimPrefix(spec, "*"))
		list := c.Argument(1).Object()
		lv, _ := list.Get("length")
		n64, _ := lv.ToInteger()
		n := int(n64)
		g := m16.GV{K: "list"}
		for i := 0; i < n; i++ {
			ev, _ := list.Get(strconv.Itoa(i))
			text, _ := ev.ToString()
			g.Elems = append(g.Elems, m16.Num(text))
		}
		var x interface{}
		if ptrArray {
			p := reflect.New(reflect.ArrayOf(n, et))
			p.Elem().Set(m16.Build(reflect.ArrayOf(n, et), g))
			x = p.Interface()
		} else {
			x = m16.Build(reflect.SliceOf(et), g).Interface()
		}
		v, err := c.Otto.ToValue(x)
		must(err)
		return v
	}))
	for _, f := range m16.Fixtures {
		must(vm.Set("G_"+f.Name, f.Make()))
	}
	// the same-named struct types are used one after the other in every runtime (TwinB first)
	if _, err := vm.Run(`[G_twb.p, G_twb.q, G_twb.R, G_twb.Z, G_twb.P, G_twb.Q, G_twa.R]`); err != nil {
		panic("twin warm-up: " + err.Error())
	}
	return vm
}

func must(err error) {
	if err != nil {
		panic(err)
	}
}

// ---- call cases -----------------------------------------------------------------------------------

// cbSample is the argument list the Go side uses when it calls a function-typed argument.
func cbSample(ft reflect.Type) []reflect.Value {
	var in []reflect.Value
	for i := 0; i < ft.NumIn(); i++ {
		switch ft.In(i).Kind() {
		case reflect.Int:
			in = append(in, reflect.ValueOf(5))
		case reflect.Int8:
			in = append(in, reflect.ValueOf(int8(100)))
		case reflect.String:
			in = append(in, reflect.ValueOf("q"))
		case reflect.Float64:
			in = append(in, reflect.ValueOf(0.5))
		default:
			in = append(in, reflect.Zero(ft.In(i)))
		}
	}
	return in
}

func runCall(q request, try bool) (obs modeObs) {
	var in, out []reflect.Type
	for _, n := range q.In {
		in = append(in, m16.TypeOf(n))
	}
	for i, o := range q.Out {
		if o.Echo >= 0 {
			t := in[o.Echo]
			out = append(out, t)
			_ = i
		} else {
			out = append(out, m16.TypeOf(o.T))
		}
	}
	ft := reflect.FuncOf(in, out, q.Variadic)
	fn := reflect.MakeFunc(ft, func(args []reflect.Value) []reflect.Value {
		obs.Ran++
		var rec []m16.GV
		for _, a := range args {
			rec = append(rec, m16.Describe(a))
		}
		obs.Rec = append(obs.Rec, rec)
		for _, a := range args {
			if a.Kind() == reflect.Func && !a.IsNil() {
				func() {
					defer func() {
						if p := recover(); p != nil {
							obs.Cb = append(obs.Cb, "panic")
							panic(p) // a Go callee does not swallow it: the script must see the failure
						}
					}()
					res := a.Call(cbSample(a.Type()))
					var parts []string
					for _, r := range res {
						parts = append(parts, m16.Describe(r).Render())
					}
					obs.Cb = append(obs.Cb, "ok:"+strings.Join(parts, ","))
				}()
			}
		}
		var res []reflect.Value
		for i, o := range q.Out {
			if o.Echo >= 0 {
				res = append(res, args[o.Echo])
			} else {
				res = append(res, m16.Build(out[i], o.V))
			}
		}
		return res
	})
	vm := newVM()
	if err := vm.Set("f", fn.Interface()); err != nil {
		obs.ErrName, obs.ErrMsg = "SetError", err.Error()
		return
	}
	var a []string
	for _, v := range q.Args {
		a = append(a, v.Src())
	}
	call := "f(" + strings.Join(a, ",") + ")"
	var r harness.RunResult
	if try {
		r = harness.Run(vm, "__R(function(){ return "+call+" })")
	} else {
		r = harness.Run(vm, "__D("+call+", 0)")
	}
	switch {
	case r.Panicked:
		obs.Panic = fmt.Sprint(r.Panic)
	case r.Err != nil:
		obs.ErrName, obs.ErrMsg = harness.ErrName(r.Err), r.Err.Error()
	default:
		s, _ := r.Value.ToString()
		if try {
			obs.Out = s
		} else {
			obs.Out = `{"ok":` + s + `}`
		}
	}
	return
}

// ---- container histories --------------------------------------------------------------------------

type liveCont struct {
	spec    contSpec
	typ     reflect.Type
	host    reflect.Value // what the embedding Go code holds: *S, map, slice header, *[n]T; by-value struct/array: the original copy
	byValue bool
	snap    reflect.Value // by-value containers: what a Go callee received last
	kept    *m16.Inner    // the pointer the Go function __bump received last and kept
}

func (c *liveCont) install(vm *otto.Otto) {
	must(vm.Set("G", c.host.Interface()))
	must(vm.Set("__snap", func(x interface{}) { c.snap = reflect.ValueOf(x) }))
	// a Go function with a pointer parameter that mutates through it and keeps it
	must(vm.Set("__bump", func(p *m16.Inner, k int) int {
		c.kept = p
		p.X += k
		p.Y = "bumped"
		return p.X
	}))
}

func buildCont(spec contSpec) *liveCont {
	c := &liveCont{spec: spec}
	switch spec.Kind {
	case "pstruct", "field":
		c.typ = m16.TypeOf(spec.T) // "S", "TwinA", "Holder"
		p := reflect.New(c.typ)
		p.Elem().Set(m16.Build(c.typ, spec.Init))
		c.host = p
	case "vstruct":
		c.typ = m16.TypeOf(spec.T)
		c.host = m16.Build(c.typ, spec.Init)
		c.byValue = true
	case "map":
		c.typ = m16.TypeOf(spec.T)
		c.host = m16.Build(c.typ, spec.Init)
	case "slice":
		c.typ = m16.TypeOf(spec.T)
		c.host = m16.Build(c.typ, spec.Init)
		c.byValue = true
	case "parray":
		c.typ = m16.TypeOf(spec.T) // "*[3]int"
		p := reflect.New(c.typ.Elem())
		p.Elem().Set(m16.Build(c.typ.Elem(), spec.Init))
		c.host = p
	case "varray":
		c.typ = m16.TypeOf(spec.T)
		c.host = m16.Build(c.typ, spec.Init)
		c.byValue = true
	default:
		panic("unknown container kind " + spec.Kind)
	}
	return c
}

// viewNames: extra names read on every step - json tags, promoted names, unexported and unknown names.
func viewNames(c *liveCont) []string {
	switch c.spec.Kind {
	case "pstruct", "vstruct":
		return append(structNames(c.typ), "hid", "zzz")
	case "map":
		return []string{"zzz", "Total", "Get", "Len", "Del"}
	}
	if c.spec.Kind == "field" && c.typ.Kind() == reflect.Struct {
		if f, ok := c.typ.FieldByName(c.spec.Field); ok && f.Type.Kind() == reflect.Map {
			return []string{"zzz", "Total", "Get", "Len", "Del"}
		}
	}
	return []string{"zzz", "hid"}
}

// recv is the expression that denotes the container in the script.
func (c *liveCont) recv() string {
	if c.spec.Kind == "field" {
		return "G." + c.spec.Field
	}
	return "G"
}

func (c *liveCont) observe(vm *otto.Otto, o *stepObs) {
	names, _ := json.Marshal(viewNames(c))
	r := harness.Run(vm, "__VIEW("+c.recv()+", "+string(names)+")")
	switch {
	case r.Panicked:
		o.ViewErr = "panic: " + fmt.Sprint(r.Panic)
	case r.Err != nil:
		o.ViewErr = r.Err.Error()
	default:
		o.View, _ = r.Value.ToString()
	}
	if c.byValue {
		c.snap = reflect.Value{}
		r := harness.Run(vm, "__snap(G)")
		if r.Panicked || r.Err != nil || !c.snap.IsValid() {
			o.ViewErr += " snapshot failed: " + r.Describe()
			o.Go = m16.Nil()
		} else {
			o.Go = m16.Describe(c.snap)
		}
		og := m16.Describe(c.host)
		o.Orig = &og
		if c.spec.Kind == "slice" && c.snap.IsValid() && c.snap.Kind() == reflect.Slice {
			o.Shared = c.snap.Pointer() == c.host.Pointer()
			o.Cap = c.snap.Cap()
		}
		return
	}
	if c.spec.Kind == "field" {
		o.Go = m16.Describe(c.host.Elem().FieldByName(c.spec.Field))
		return
	}
	o.Go = m16.Describe(c.host)
}

func keySrc(recv, k string) string { return recv + "[" + m16.JSString(k) + "]" }

func stepSrc(s step) string { return stepSrcOn("G", s) }

func stepSrcOn(G string, s step) string {
	val := "undefined"
	if s.Val != nil {
		val = s.Val.Src()
	}
	switch s.Op {
	case "set":
		return "(" + keySrc(G, s.Key) + " = " + val + ")"
	case "get":
		return keySrc(G, s.Key)
	case "has":
		return "(" + m16.JSString(s.Key) + " in " + G + ")"
	case "del":
		return "(delete " + keySrc(G, s.Key) + ")"
	case "define":
		return "(Object.defineProperty(" + G + ", " + m16.JSString(s.Key) + ", {value: " + val + ", writable: true, enumerable: true, configurable: true}), true)"
	case "len":
		return "(" + G + ".length = " + val + ")"
	case "push":
		return G + ".push(" + val + ")"
	case "bump":
		return "__bump(" + keySrc(G, s.Key) + ", " + val + ")"
	case "pop":
		return G + ".pop()"
	case "shift":
		return G + ".shift()"
	case "splice":
		return G + ".splice(" + val + ", 1).length"
	case "call":
		var a []string
		for _, v := range s.Args {
			a = append(a, v.Src())
		}
		return G + "[" + m16.JSString(s.Method) + "](" + strings.Join(a, ",") + ")"
	}
	panic("unknown script op " + s.Op)
}

func (c *liveCont) goMutate(s step) {
	h := c.host
	kind := c.spec.Kind
	typ := c.typ
	if kind == "field" {
		h = c.host.Elem().FieldByName(c.spec.Field)
		typ = h.Type()
		switch h.Kind() {
		case reflect.Map:
			kind = "map"
		case reflect.Slice:
			kind = "slice"
		default: // array, addressable
			var i int
			fmt.Sscanf(s.Key, "%d", &i)
			if i < h.Len() {
				h.Index(i).Set(m16.Build(typ.Elem(), *s.Go))
			}
			return
		}
	}
	switch kind {
	case "pstruct":
		f := h.Elem().FieldByName(s.Key)
		f.Set(m16.Build(f.Type(), *s.Go))
	case "map":
		kv := reflect.New(typ.Key()).Elem()
		if kv.Kind() == reflect.String {
			kv.SetString(s.Key)
		} else {
			kv.Set(m16.Build(typ.Key(), m16.Num(s.Key)))
		}
		if s.Op == "godel" {
			h.SetMapIndex(kv, reflect.Value{})
		} else {
			h.SetMapIndex(kv, m16.Build(typ.Elem(), *s.Go))
		}
	case "slice":
		var i int
		fmt.Sscanf(s.Key, "%d", &i)
		if i < h.Len() {
			h.Index(i).Set(m16.Build(typ.Elem(), *s.Go))
		}
	case "parray":
		var i int
		fmt.Sscanf(s.Key, "%d", &i)
		if i < h.Elem().Len() {
			h.Elem().Index(i).Set(m16.Build(typ.Elem().Elem(), *s.Go))
		}
	}
}

func runHist(q request, resp *response) {
	c := buildCont(q.Cont)
	vm := newVM()
	c.install(vm)
	init := stepObs{}
	c.observe(vm, &init)
	resp.Init = &init
	for _, s := range q.Steps {
		o := stepObs{}
		if s.Op == "viaptr" { // Go writes through the pointer it kept
			if c.kept != nil {
				c.kept.X = int(m16.Build(reflect.TypeOf(0), *s.Go).Int())
			}
			o.Res = `{"ok":"u"}`
		} else if s.Op == "gomut" || s.Op == "godel" {
			c.goMutate(s)
			o.Res = `{"ok":"u"}`
		} else {
			src := stepSrcOn(c.recv(), s)
			r := harness.Run(vm, "__R(function(){ return "+src+" })")
			switch {
			case r.Panicked:
				o.Panic = fmt.Sprint(r.Panic)
			case r.Err != nil:
				// the error went past the script's own try/catch and came out of Run
				m, _ := json.Marshal(r.Err.Error())
				o.Res = `{"throw":"escaped-try:` + harness.ErrName(r.Err) + `","msg":` + string(m) + `}`
			default:
				o.Res, _ = r.Value.ToString()
			}
			if strings.HasPrefix(o.Res, `{"throw"`) {
				// the failing step once more without a try: Run must return the error, not panic
				b := harness.Run(vm, src)
				o.BareRan = true
				switch {
				case b.Panicked:
					o.BarePanic = fmt.Sprint(b.Panic)
				case b.Err != nil:
					o.BareErr = harness.ErrName(b.Err)
				default:
					o.BareErr = "<no error>"
				}
			}
		}
		c.observe(vm, &o)
		resp.Steps = append(resp.Steps, o)
	}
}
