package c16

// Known findings of C16 (props/c16/FINDINGS.txt, known/C16-*.json). Every witness is a case of
// one of the two facets, judged by the facet's own oracle with every exclusion switched off: the
// finding is still present iff that case is still a violation. The classes themselves are
// delimited in m16.Denote (value/type cells) and expectStep (history steps).

import (
	"math"
	"os"
	"path/filepath"
	"strings"

	"verif/lib/harness"
	"verif/lib/m16"
)

var witnessFor string

func jv(v m16.JV) *m16.JV { return &v }

type witness struct {
	id   string
	call *callCase
	hist *histCase
}

func echo1(t string, args ...m16.JV) *callCase {
	return &callCase{In: []string{t}, Out: []outSpec{{Echo: 0}}, Args: args}
}

var witnesses = []witness{
	{id: m16.KFloat32, call: echo1("float32", m16.JNum(0.1, "lit"))},
	{id: m16.KNumToStr, call: echo1("string", m16.JNum(1e-7, "lit"))},
	{id: m16.KArrayLike, call: echo1("[]int", m16.JSp("arraylike", m16.JNum(5, "lit"), m16.JNum(6, "lit")))},
	{id: m16.KGoToStruct, call: echo1("S", m16.JSp("go:ps"))},
	{id: m16.KNamedType, call: echo1("MyStr", m16.JStr("a"))},
	{id: m16.KF32Reflect, call: echo1("*float32", m16.JNum(0.5, "lit"))},
	{id: m16.KNullToAny, hist: &histCase{Cont: contSpec{Kind: "map", T: "map[string]any", Init: m16.MapOf([]string{"a"}, []m16.GV{m16.NumF(1)})},
		Steps: []step{{Op: "set", Key: "a", Val: jv(m16.JNull())}}}},
	{id: m16.KShadow, hist: &histCase{Cont: contSpec{Kind: "pstruct", T: "S", Init: m16.Zero(m16.TypeOf("S")).WithField("hid", m16.NumI(m16.HidSentinel))},
		Steps: []step{{Op: "set", Key: "Skip", Val: jv(m16.JNum(5, "lit"))}}}},
	{id: m16.KFieldGrow, hist: &histCase{Cont: contSpec{Kind: "field", T: "Holder", Field: "Items", Init: m16.Zero(m16.TypeOf("Holder")).WithField("Items", m16.List(m16.NumI(1)))},
		Steps: []step{{Op: "push", Val: jv(m16.JNum(2, "lit"))}}}},
	{id: m16.KInt64Str, call: echo1("string", m16.JNum(-9223372036854775808, "go:int64"))},
	{id: m16.KMapMethod, hist: &histCase{Cont: contSpec{Kind: "map", T: "Hdr", Init: m16.MapOf([]string{"a"}, []m16.GV{m16.Str("1")})},
		Steps: []step{{Op: "set", Key: "Get", Val: jv(m16.JStr("x"))}}}},
	{id: m16.KNamedKey, hist: &histCase{Cont: contSpec{Kind: "map", T: "map[KStr]int", Init: m16.MapOf([]string{"a"}, []m16.GV{m16.NumI(1)})},
		Steps: []step{{Op: "get", Key: "a"}}}},
	{id: m16.KStoreI64, hist: &histCase{Cont: contSpec{Kind: "slice", T: "[]int", Init: m16.List(m16.NumI(0), m16.Num("9007199254740993"))},
		Steps: []step{{Op: "shift"}}}},
	{id: m16.KStoreFrac, hist: &histCase{Cont: contSpec{Kind: "map", T: "map[string]int", Init: m16.MapOf(nil, nil)},
		Steps: []step{{Op: "set", Key: "c", Val: jv(m16.JNum(-1.5, "lit"))}}}},
	{id: m16.KStoreBound, hist: &histCase{Cont: contSpec{Kind: "map", T: "map[string]int", Init: m16.MapOf(nil, nil)},
		Steps: []step{{Op: "set", Key: "c", Val: jv(m16.JNum(math.Ldexp(1, 63), "lit"))}}}},
	{id: m16.KStorePanic, hist: &histCase{Cont: contSpec{Kind: "map", T: "map[string]int8", Init: m16.MapOf(nil, nil)},
		Steps: []step{{Op: "set", Key: "c", Val: jv(m16.JNum(300, "lit"))}}}},
	{id: m16.KKeyBase0, hist: &histCase{Cont: contSpec{Kind: "map", T: "map[int]string", Init: m16.MapOf(nil, nil)},
		Steps: []step{{Op: "set", Key: "010", Val: jv(m16.JStr("oct"))}}}},
	{id: m16.KSetLen, hist: &histCase{Cont: contSpec{Kind: "slice", T: "[]int", Init: m16.List(m16.NumI(1), m16.NumI(2), m16.NumI(3))},
		Steps: []step{{Op: "len", Val: jv(m16.JNum(1, "lit"))}}}},
	{id: m16.KDeleteFat, hist: &histCase{Cont: contSpec{Kind: "slice", T: "[]int", Init: m16.List(m16.NumI(1))},
		Steps: []step{{Op: "del", Key: "foo"}}}},
	{id: m16.KStructVal, hist: &histCase{Cont: contSpec{Kind: "vstruct", T: "S", Init: func() m16.GV {
		g := m16.Zero(m16.TypeOf("S"))
		return g.WithField("hid", m16.NumI(m16.HidSentinel))
	}()}, Steps: []step{{Op: "set", Key: "A", Val: jv(m16.JNum(3, "lit"))}}}},
}

func init() {
	for _, w := range witnesses {
		w := w
		harness.RegisterWitness(w.id, func() (bool, string) {
			witnessFor = w.id
			defer func() { witnessFor = "" }()
			var o harness.Outcome
			if w.call != nil {
				o = checkCall(*w.call)
			} else {
				o = checkHist(*w.hist)
			}
			if o.Discard != "" {
				return true, "witness not evaluated: " + o.Discard
			}
			if o.Fail == "" {
				return false, "the witness case satisfies the property"
			}
			return true, o.Fail
		})
	}
}

// hasWitness: the finding is still listed as open (a "finding:" line in props/c16/FINDINGS.txt);
// repaired findings ("fixed:" lines) no longer excuse anything, in a witness evaluation or elsewhere.
func hasWitness(id string) bool {
	if openFindings == nil {
		openFindings = map[string]bool{}
		b, _ := os.ReadFile(filepath.Join(harness.Root(), "props", "c16", "FINDINGS.txt"))
		for _, line := range strings.Split(string(b), "\n") {
			if !strings.HasPrefix(line, "finding:") {
				continue
			}
			for _, f := range strings.Fields(line) {
				if strings.HasPrefix(f, "id=") {
					openFindings[strings.TrimPrefix(f, "id=")] = true
				}
			}
		}
	}
	return openFindings[id]
}

var openFindings map[string]bool
