package c16

// Facet "call": the parameter matrix. A Go function with a generated signature (built with
// reflect.MakeFunc, so every parameter type of m16's table can occur in every position) records
// what arrives; the script calls it with generated JavaScript values and arities.
// Oracle: "exact or loud" (m16.Denote) - see judgeCall.

import (
	"encoding/json"
	"fmt"
	"reflect"
	"strings"
	"time"

	"verif/lib/harness"
	"verif/lib/m16"
)

type callCase struct {
	In       []string  `json:"in"`
	Variadic bool      `json:"variadic,omitempty"`
	Out      []outSpec `json:"out,omitempty"`
	Args     []m16.JV  `json:"args"`
}

var worker *harness.Worker

func exec(q request) (response, string) {
	if worker == nil {
		worker = harness.NewWorker(workerName)
	}
	raw, st, detail := worker.Do(q, 30*time.Second)
	switch st {
	case harness.WorkerDied:
		return response{}, "the process died: " + oneLine(detail, 300)
	case harness.WorkerTimeout:
		return response{}, "the process stopped answering: " + detail
	}
	var r response
	if err := json.Unmarshal(raw, &r); err != nil {
		return response{Err: "bad worker response: " + err.Error()}, ""
	}
	return r, ""
}

func oneLine(s string, n int) string {
	s = strings.Join(strings.Fields(s), " ")
	if len(s) > n {
		s = s[:n] + "…"
	}
	return s
}

func activeKnown(ids []string) []string {
	var out []string
	seen := map[string]bool{}
	for _, id := range ids {
		// while the witness of finding W is evaluated, W's own class is off and every other
		// listed class is on: a witness shows its own root cause, not a neighbour's
		active := harness.Known(id)
		if witnessFor != "" {
			active = id != witnessFor && hasWitness(id)
		}
		if !seen[id] && active {
			out = append(out, id)
		}
		seen[id] = true
	}
	return out
}

// loudTry: the script observed a TypeError or RangeError instance.
func loudTry(out string) (loud bool, class, msg string) {
	var t struct {
		Throw string `json:"throw"`
		Msg   string `json:"msg"`
	}
	if json.Unmarshal([]byte(out), &t) != nil || t.Throw == "" {
		return false, "", ""
	}
	return t.Throw == "TypeError" || t.Throw == "RangeError", t.Throw, t.Msg
}

func okJD(out string) (m16.JD, bool) {
	var t struct {
		OK *m16.JD `json:"ok"`
	}
	if json.Unmarshal([]byte(out), &t) != nil || t.OK == nil {
		return m16.JD{}, false
	}
	return *t.OK, true
}

// paramDen computes the denotation of the argument list against the signature. It returns one
// or two acceptable recordings (variadic ambiguity), whether a failure is tolerated, whether
// the call must fail, whether some argument is not asserted.
type callExpect struct {
	arityOK  bool
	mustFail bool
	mayFail  bool
	anyArg   []bool     // per parameter: value not asserted
	accept   [][]m16.GV // acceptable recordings (each: one GV per parameter)
	altArg   map[int][]m16.GV
	known    []string
	classes  []string
	hard     bool
	cbExpect []string // expected Cb records ("" = not asserted)
	cbMust   bool     // calling the function argument must make the call fail
}

func signature(c callCase) (in []reflect.Type, nFixed int) {
	for _, n := range c.In {
		in = append(in, m16.TypeOf(n))
	}
	nFixed = len(in)
	if c.Variadic {
		nFixed--
	}
	return
}

// cbResult: what the Go side must get when it calls function argument v typed ft with cbSample.
func cbResult(v m16.JV, ft reflect.Type) (rec string, mustFail, asserted bool) {
	if v.K != "fn" {
		return "", false, false
	}
	if ft.NumOut() > 1 {
		return "", false, false // otto documents: more than one return value is not supported (loud)
	}
	var ret m16.JV
	sampleSrc := func() m16.JV { // the JS value the sample argument becomes
		if ft.NumIn() == 0 {
			return m16.JUndef()
		}
		switch ft.In(0).Kind() {
		case reflect.Int:
			return m16.JNum(5, "lit")
		case reflect.Int8:
			return m16.JNum(100, "lit")
		case reflect.String:
			return m16.JStr("q")
		case reflect.Float64:
			return m16.JNum(0.5, "lit")
		}
		return m16.JUndef()
	}
	switch v.S {
	case "ret":
		ret = v.E[0]
	case "id":
		ret = sampleSrc()
	case "inc":
		s := sampleSrc()
		switch s.K {
		case "num":
			ret = m16.JNum(s.Float()+1, "lit")
		case "str":
			ret = m16.JStr(s.S + "1")
		default:
			return "", false, false
		}
	case "argc":
		ret = m16.JNum(float64(ft.NumIn()), "lit")
	case "throw":
		return "panic", true, true
	default: // returns nothing
		ret = m16.JUndef()
	}
	if ft.NumOut() == 0 {
		return "ok:", false, true
	}
	d := m16.Denote(ret, ft.Out(0), "call")
	switch d.St {
	case m16.Exact:
		if d.MayFail || len(activeKnown(d.Known)) > 0 {
			return "", false, false
		}
		return "ok:" + d.V.Render(), false, true
	case m16.Impossible:
		if len(activeKnown(d.Known)) > 0 {
			return "", false, false
		}
		return "panic", true, true
	}
	return "", false, false
}

func expectCall(c callCase) callExpect {
	in, nFixed := signature(c)
	e := callExpect{altArg: map[int][]m16.GV{}}
	n := len(c.Args)
	if c.Variadic {
		e.arityOK = n >= nFixed
	} else {
		e.arityOK = n == nFixed
	}
	if !e.arityOK {
		e.mustFail = true
		e.classes = append(e.classes, "arity-mismatch")
		e.hard = true
		return e
	}
	e.anyArg = make([]bool, len(in))
	base := make([]m16.GV, len(in))
	note := func(d m16.Den, i int) {
		e.known = append(e.known, d.Known...)
		e.classes = append(e.classes, d.Class)
		e.hard = e.hard || d.Hard
		switch d.St {
		case m16.Impossible:
			e.mustFail = true
		case m16.Any:
			e.anyArg[i] = true
			e.mayFail = true
		default:
			if d.MayFail {
				e.mayFail = true
			}
		}
	}
	for i := 0; i < nFixed; i++ {
		d := m16.Denote(c.Args[i], in[i], "call")
		note(d, i)
		base[i] = d.V
		if in[i].Kind() == reflect.Func {
			rec, must, asserted := cbResult(c.Args[i], in[i])
			if asserted {
				e.cbExpect = append(e.cbExpect, rec)
				e.cbMust = e.cbMust || must
			} else {
				e.cbExpect = append(e.cbExpect, "")
			}
		}
	}
	if !c.Variadic {
		e.accept = [][]m16.GV{base}
		return e
	}
	// variadic tail: element-wise, or - with exactly NumIn arguments - the last argument as the slice itself
	vi := len(in) - 1
	st := in[vi]
	tail := c.Args[nFixed:]
	elemWise := m16.Denote(m16.JArr(tail...), st, "call")
	elemWise.Class = "variadic-tail(" + fmt.Sprint(len(tail)) + "):" + elemWise.Class
	for _, a := range tail { // a hole cannot be written as an argument; undefined elements are real values here
		_ = a
	}
	var whole *m16.Den
	if len(tail) == 1 {
		w := m16.Denote(tail[0], st, "call")
		w.Class = "variadic-spread:" + w.Class
		whole = &w
	}
	switch {
	case whole != nil && whole.St == m16.Exact && elemWise.St == m16.Exact:
		note(*whole, vi)
		note(elemWise, vi)
		a, b := append([]m16.GV(nil), base...), append([]m16.GV(nil), base...)
		a[vi], b[vi] = whole.V, elemWise.V
		e.accept = [][]m16.GV{a, b}
	case whole != nil && whole.St == m16.Exact:
		note(*whole, vi)
		a := append([]m16.GV(nil), base...)
		a[vi] = whole.V
		e.accept = [][]m16.GV{a}
	case whole != nil && whole.St == m16.Any:
		note(*whole, vi)
	default:
		if whole != nil {
			e.known = append(e.known, whole.Known...)
		}
		note(elemWise, vi)
		a := append([]m16.GV(nil), base...)
		a[vi] = elemWise.V
		e.accept = [][]m16.GV{a}
	}
	return e
}

func judgeMode(c callCase, e callExpect, o modeObs, try bool) string {
	mode := "bare call"
	if try {
		mode = "call inside try"
	}
	if o.Panic != "" {
		return fmt.Sprintf("%s: a Go panic escaped Run: %s", mode, oneLine(o.Panic, 200))
	}
	if try && (o.ErrName == "TypeError" || o.ErrName == "RangeError") && len(o.Cb) > 0 && o.Cb[len(o.Cb)-1] == "panic" {
		// The Go function called its function argument and that call failed. otto re-raises the
		// failure as a Go error value, which skips the innermost script catch and surfaces as a
		// TypeError one level further out / from Run. DESIGN (C16, Known) counts that as loud.
		o.Out = `{"throw":"` + o.ErrName + `","msg":"(surfaced outside the innermost try)"}`
		o.ErrName = ""
	}
	if try && o.ErrName != "" {
		return fmt.Sprintf("%s: the error went past the script's try/catch and came out of Run: %s", mode, oneLine(o.ErrMsg, 200))
	}
	failed, loud, what := false, false, ""
	own := false // an argument's own toString throws: the script's own Error counts as the loud failure
	for _, a := range c.Args {
		own = own || jvThrows(a)
	}
	if try {
		var class, msg string
		loud, class, msg = loudTry(o.Out)
		failed = class != ""
		what = class + ": " + oneLine(msg, 160)
		loud = loud || (class == "Error" && own)
	} else {
		failed = o.ErrName != ""
		loud = o.ErrName == "TypeError" || o.ErrName == "RangeError" || (o.ErrName == "Error" && own)
		what = oneLine(o.ErrMsg, 200)
	}
	if strings.Contains(o.Out, fmt.Sprint(m16.HidSentinel)) {
		return mode + ": the value of an unexported field is visible to the script: " + oneLine(o.Out, 200)
	}
	if failed && !loud {
		return fmt.Sprintf("%s: failed, but not with a TypeError/RangeError the script can recognise: %s", mode, what)
	}
	reentrant := false // some argument's conversion calls f again: nested activations are expected
	for _, a := range c.Args {
		reentrant = reentrant || a.HasReentry()
	}
	if reentrant { // callbacks of nested and outer activations interleave: not asserted in these cases
		e.cbExpect, e.cbMust = nil, false
	}
	if o.Ran > 1 && !reentrant {
		return fmt.Sprintf("%s: the Go function ran %d times", mode, o.Ran)
	}
	cbFailed := false
	for _, r := range o.Cb {
		if r == "panic" {
			cbFailed = true
		}
	}
	switch {
	case e.mustFail:
		if !failed {
			return fmt.Sprintf("%s: must fail loudly (%s) but succeeded; the Go function received %s", mode, strings.Join(e.classes, ","), renderRec(o.Rec))
		}
		if o.Ran != 0 && !reentrant {
			return fmt.Sprintf("%s: failed (%s) but the Go function had already run with %s", mode, what, renderRec(o.Rec))
		}
		return ""
	case failed && cbFailed:
		// the Go function called its function argument and that call failed: loud is right iff the model says so
		for i, r := range o.Cb {
			if i < len(e.cbExpect) && e.cbExpect[i] != "" && e.cbExpect[i] != r {
				return fmt.Sprintf("%s: calling the function argument from Go gave %q, want %q", mode, r, e.cbExpect[i])
			}
		}
		return ""
	case failed:
		if o.Ran != 0 && !reentrant {
			return fmt.Sprintf("%s: failed (%s) after the Go function ran with %s", mode, what, renderRec(o.Rec))
		}
		if !e.mayFail {
			return fmt.Sprintf("%s: a call from the positive list failed: %s (arguments denote %s)", mode, what, renderAccept(e.accept))
		}
		return ""
	}
	// succeeded
	if o.Ran != 1 && !(reentrant && o.Ran >= 1) {
		return fmt.Sprintf("%s: succeeded but the Go function ran %d times", mode, o.Ran)
	}
	if e.cbMust {
		return fmt.Sprintf("%s: the function argument cannot produce the Go result type, yet the call succeeded (Go saw %v)", mode, o.Cb)
	}
	for i, r := range o.Cb {
		if i < len(e.cbExpect) && e.cbExpect[i] != "" && e.cbExpect[i] != r {
			return fmt.Sprintf("%s: calling the function argument from Go gave %q, want %q", mode, r, e.cbExpect[i])
		}
	}
	rec := o.Rec[len(o.Rec)-1] // the outer activation runs last, after every conversion (and nested call) is done
	if len(e.accept) > 0 {
		okAny := false
		for _, acc := range e.accept {
			ok := len(acc) == len(rec)
			for i := 0; ok && i < len(acc); i++ {
				if e.anyArg[i] {
					continue
				}
				if !acc[i].Equal(rec[i]) {
					ok = false
				}
			}
			okAny = okAny || ok
		}
		if !okAny {
			return fmt.Sprintf("%s: the Go function received %s, the arguments denote %s", mode, renderRec(o.Rec), renderAccept(e.accept))
		}
	}
	// return values
	jd, ok := okJD(o.Out)
	if !ok {
		return fmt.Sprintf("%s: cannot read the result description %q", mode, oneLine(o.Out, 120))
	}
	in, _ := signature(c)
	type ret struct {
		g m16.GV
		t reflect.Type
	}
	var rets []ret
	for _, os := range c.Out {
		if os.Echo >= 0 {
			rets = append(rets, ret{rec[os.Echo], in[os.Echo]})
		} else {
			rets = append(rets, ret{os.V, m16.TypeOf(os.T)})
		}
	}
	switch len(rets) {
	case 0:
		if jd.Atom != "u" {
			return fmt.Sprintf("%s: a function without results returned %s", mode, jd.String())
		}
	case 1:
		if m := m16.MatchJS(jd, rets[0].g, rets[0].t, nil); m != "" {
			return fmt.Sprintf("%s: return value not intact: %s", mode, m)
		}
	default:
		if !jd.IsA || len(jd.A) != len(rets) {
			return fmt.Sprintf("%s: %d results came back as %s", mode, len(rets), jd.String())
		}
		for i, r := range rets {
			if m := m16.MatchJS(jd.A[i], r.g, r.t, nil); m != "" {
				return fmt.Sprintf("%s: result %d not intact: %s", mode, i, m)
			}
		}
	}
	return ""
}

func renderRec(rec [][]m16.GV) string {
	var inv []string
	for _, r := range rec {
		var p []string
		for _, g := range r {
			p = append(p, g.Render())
		}
		inv = append(inv, "("+strings.Join(p, ", ")+")")
	}
	if len(inv) == 0 {
		return "nothing (it did not run)"
	}
	return strings.Join(inv, " then ")
}

func renderAccept(acc [][]m16.GV) string {
	var alts []string
	for _, a := range acc {
		var p []string
		for _, g := range a {
			p = append(p, g.Render())
		}
		alts = append(alts, "("+strings.Join(p, ", ")+")")
	}
	if len(alts) == 0 {
		return "(not modelled)"
	}
	return strings.Join(alts, " or ")
}

func callSrc(c callCase) string {
	var a []string
	for _, v := range c.Args {
		a = append(a, v.Src())
	}
	sig := strings.Join(c.In, ", ")
	if c.Variadic {
		sig = strings.Join(c.In[:len(c.In)-1], ", ")
		if sig != "" {
			sig += ", "
		}
		sig += "..." + strings.TrimPrefix(c.In[len(c.In)-1], "[]")
	}
	return fmt.Sprintf("func(%s) called as f(%s)", sig, strings.Join(a, ", "))
}

func checkCall(c callCase) harness.Outcome {
	e := expectCall(c)
	out := harness.Outcome{Nontrivial: e.hard, Classes: dedup(e.classes)}
	if c.Variadic {
		out.Classes = append(out.Classes, "sig:variadic")
	}
	if len(c.In) > 1 {
		out.Classes = append(out.Classes, "sig:multi-param")
	}
	if len(c.Out) > 1 {
		out.Classes = append(out.Classes, "sig:multi-return")
	}
	for i, o := range c.Out { // a float32 behind a pointer comes back as a Number no operator can read
		t := o.T
		if o.Echo >= 0 {
			t = c.In[o.Echo]
		}
		if t == "*float32" && e.arityOK && !e.mustFail && !(o.Echo >= 0 && o.Echo < len(c.Args) && (c.Args[o.Echo].K == "null" || c.Args[o.Echo].K == "undef")) {
			e.known = append(e.known, m16.KF32Reflect)
		}
		_ = i
	}
	if ak := activeKnown(e.known); len(ak) > 0 {
		out.Excluded = ak
		return out
	}
	r, died := exec(request{Kind: "call", In: c.In, Variadic: c.Variadic, Out: c.Out, Args: c.Args})
	if died != "" {
		out.Fail = callSrc(c) + ": " + died
		return out
	}
	if r.Err != "" {
		out.Discard = "executor: " + oneLine(r.Err, 100)
		return out
	}
	if r.Try.ErrName == "SetError" {
		out.Discard = "signature not bridgeable: " + oneLine(r.Try.ErrMsg, 80)
		return out
	}
	if m := judgeMode(c, e, r.Try, true); m != "" {
		out.Fail = callSrc(c) + ": " + m
		return out
	}
	if m := judgeMode(c, e, r.Bare, false); m != "" {
		out.Fail = callSrc(c) + ": " + m
		return out
	}
	if r.Try.Ran == 1 {
		out.Classes = append(out.Classes, "outcome:delivered")
	} else {
		out.Classes = append(out.Classes, "outcome:refused")
	}
	return out
}

func dedup(s []string) []string {
	seen := map[string]bool{}
	var out []string
	for _, x := range s {
		if !seen[x] {
			seen[x] = true
			out = append(out, x)
		}
	}
	return out
}
