// dev-time probe (removed before hand-over)
package main

import (
	"bufio"
	"fmt"
	"os"

	"github.com/robertkrimen/otto"
	"verif/lib/harness"
)

type Inner struct{ X int }
type S struct {
	A     int     `json:"a"`
	B     string  `json:"bee"`
	F     float32
	U8    uint8
	P     *int
	I     interface{}
	hid   int
	Skip  int `json:"-"`
	Inner
	In2 Inner
	Sl  []int
	M   map[string]int
}

func (s *S) PM(x int) int { return s.A + x }
func (s S) VM() string    { return s.B }

func main() {
	vm := otto.New()
	rec := func(name string) func(x interface{}) { return func(x interface{}) { fmt.Printf("   [%s got %T %#v]\n", name, x, x) } }
	_ = rec
	vm.Set("fi8", func(x int8) int8 { fmt.Printf("   [int8 %v]\n", x); return x })
	vm.Set("fi", func(x int) int { fmt.Printf("   [int %v]\n", x); return x })
	vm.Set("fi64", func(x int64) int64 { fmt.Printf("   [int64 %v]\n", x); return x })
	vm.Set("fu8", func(x uint8) uint8 { fmt.Printf("   [uint8 %v]\n", x); return x })
	vm.Set("fu64", func(x uint64) uint64 { fmt.Printf("   [uint64 %v]\n", x); return x })
	vm.Set("ff32", func(x float32) float32 { fmt.Printf("   [float32 %v]\n", x); return x })
	vm.Set("ff64", func(x float64) float64 { fmt.Printf("   [float64 %v]\n", x); return x })
	vm.Set("fs", func(x string) string { fmt.Printf("   [string %q]\n", x); return x })
	vm.Set("fb", func(x bool) bool { fmt.Printf("   [bool %v]\n", x); return x })
	vm.Set("fany", func(x interface{}) interface{} { fmt.Printf("   [any %T %#v]\n", x, x); return x })
	vm.Set("fsl", func(x []int) []int { fmt.Printf("   [[]int %#v]\n", x); return x })
	vm.Set("fsls", func(x []string) []string { fmt.Printf("   [[]string %#v]\n", x); return x })
	vm.Set("fm", func(x map[string]int) map[string]int { fmt.Printf("   [map %#v]\n", x); return x })
	vm.Set("fmi", func(x map[int]int) int { fmt.Printf("   [mapint %#v]\n", x); return 1 })
	vm.Set("fst", func(x S) int { fmt.Printf("   [S %#v]\n", x); return 1 })
	vm.Set("fpst", func(x *S) int { fmt.Printf("   [*S %#v]\n", x); return 1 })
	vm.Set("fpi", func(x *int) int { if x == nil { fmt.Printf("   [*int nil]\n"); return -1 }; fmt.Printf("   [*int %v]\n", *x); return *x })
	vm.Set("ffn", func(cb func(int) int) int { r := cb(5); fmt.Printf("   [cb(5)=%v]\n", r); return r })
	vm.Set("fv", func(xs ...int) int { fmt.Printf("   [variadic %#v]\n", xs); return len(xs) })
	vm.Set("fsv", func(s string, xs ...int) int { fmt.Printf("   [svariadic %q %#v]\n", s, xs); return len(xs) })
	vm.Set("fva", func(xs ...interface{}) int { fmt.Printf("   [variadic any %#v]\n", xs); return len(xs) })
	vm.Set("f2", func(a int, b string) (int, string) { return a, b })
	vm.Set("f3", func() (int, string, bool) { return 1, "x", true })
	vm.Set("f0", func() { fmt.Printf("   [f0 ran]\n") })
	st := &S{A: 1, B: "b", hid: 7}
	vm.Set("ps", st)
	vm.Set("vs", *st)
	vm.Set("msi", map[string]int{"a": 1, "b": 2})
	vm.Set("msf32", map[string]float32{"a": 1})
	vm.Set("mss", map[string]string{"a": "x"})
	vm.Set("mis", map[int]string{1: "one", 2: "two"})
	vm.Set("mi8", map[string]int8{"a": 1})
	vm.Set("sli", []int{1, 2, 3})
	vm.Set("sli8", []int8{1, 2, 3})
	vm.Set("slu8", []uint8{1, 2, 3})
	vm.Set("slf32", []float32{1, 2, 3})
	vm.Set("sls", []string{"a", "b"})
	vm.Set("slb", []bool{true, false})
	vm.Set("slany", []interface{}{1, "a"})
	sl := []int{1, 2, 3}
	vm.Set("psl", &sl)
	arr := [3]int{1, 2, 3}
	vm.Set("parr", &arr)
	vm.Set("varr", arr)
	eval := func(js string) {
		r := harness.Run(vm, js)
		fmt.Printf("%s\n  => %s", js, r.Describe())
		if r.Err != nil {
			fmt.Printf("   (%v)", r.Err)
		}
		fmt.Printf("\n      go: ps=%+v sl=%v arr=%v\n", *st, sl, arr)
	}
	if len(os.Args) > 1 {
		for _, a := range os.Args[1:] {
			eval(a)
		}
		return
	}
	sc := bufio.NewScanner(os.Stdin)
	sc.Buffer(make([]byte, 1<<20), 1<<20)
	for sc.Scan() {
		if sc.Text() != "" {
			eval(sc.Text())
		}
	}
}
