package main

import (
	"fmt"
	"testing"

	"github.com/robertkrimen/otto"
	"verif/lib/harness"
)

func TestP3(t *testing.T) {
	vm := otto.New()
	f := float32(0.5)
	i8 := int8(5)
	s := "str"
	vm.Set("pf", func() *float32 { return &f })
	vm.Set("pi8", func() *int8 { return &i8 })
	vm.Set("ps", func() *string { return &s })
	vm.Set("f32", func() float32 { return f })
	vm.Set("m", map[string]interface{}{})
	for _, js := range []string{"typeof pf()", "pf()+1", "String(pf())", "pf()===0.5", "pi8()+1", "typeof pi8()", "ps()+'x'", "f32()+1", "pf() == 0.5", "-pf()", "Math.abs(pf())",
		"Object.defineProperty(m,'a',{value:null,writable:true,enumerable:true,configurable:true}); Object.keys(m).join()", "m.b = null; Object.keys(m).join()", "m.c = undefined; Object.keys(m).join()"} {
		r := harness.Run(vm, js)
		fmt.Printf("%s\n  => %s", js, r.Describe())
		if r.Err != nil {
			fmt.Printf("   (%v)", r.Err)
		}
		fmt.Println()
	}
}
