package c16

// Facet "hist": histories on a bridged container. After every step the script's view (Object.keys,
// for-in, every value, length, access by json tag / promoted name) must show exactly the Go
// contents read by reflection; a write stores the exact denotation of the value or fails loudly
// and leaves the Go object unchanged; unexported fields never show.

import (
	"encoding/json"
	"fmt"
	"math"
	"math/big"
	"reflect"
	"sort"
	"strconv"
	"strings"

	"verif/lib/es5"
	"verif/lib/harness"
	"verif/lib/m16"
)

type histCase struct {
	Cont  contSpec `json:"cont"`
	Steps []step   `json:"steps"`
}

type viewObs struct {
	D    m16.JD            `json:"d"`
	Keys []string          `json:"keys"`
	FI   []string          `json:"fi"`
	Len  m16.JD            `json:"len"`
	X    []json.RawMessage `json:"x"`
}

// semKind: which container protocol applies. A "field" container is a field of a *struct reached
// as G.<Field> on every step: an addressable slice ("aslice"), array (like *[n]T) or map.
func semKind(c contSpec) string {
	if c.Kind != "field" {
		return c.Kind
	}
	switch ownType(c).Kind() {
	case reflect.Slice:
		return "aslice"
	case reflect.Array:
		return "parray"
	}
	return "map"
}

// ownType: the Go type of the container as the script reaches it.
func ownType(c contSpec) reflect.Type {
	t := m16.TypeOf(c.T)
	switch c.Kind {
	case "pstruct":
		return reflect.PointerTo(t)
	case "field":
		f, ok := t.FieldByName(c.Field)
		if !ok {
			panic("no field " + c.Field + " in " + c.T)
		}
		return f.Type
	}
	return t
}

func contType(c contSpec) reflect.Type { return ownType(c) }

func structGV(c contSpec, g m16.GV) m16.GV {
	if g.K == "ptr" {
		return g.Elems[0]
	}
	return g
}

func listGV(g m16.GV) m16.GV {
	if g.K == "ptr" {
		return g.Elems[0]
	}
	return g
}

func isStructCont(c contSpec) bool { return c.Kind == "pstruct" || c.Kind == "vstruct" }
func isListCont(c contSpec) bool {
	k := semKind(c)
	return k == "slice" || k == "aslice" || k == "parray" || k == "varray"
}

func elemType(c contSpec) reflect.Type {
	t := ownType(c)
	if t.Kind() == reflect.Ptr {
		t = t.Elem()
	}
	return t.Elem()
}

// arrayIndex: the canonical array index a property name denotes (ES5 15.4: ToString(ToUint32(P)) === P, != 2^32-1).
func arrayIndex(key string) (int, bool) {
	if key == "" || (len(key) > 1 && key[0] == '0') {
		return 0, false
	}
	for _, c := range key {
		if c < '0' || c > '9' {
			return 0, false
		}
	}
	n, err := strconv.ParseUint(key, 10, 64)
	if err != nil || n >= 4294967295 {
		return 0, false
	}
	return int(n), true
}

// mapKey: the Go key a property name denotes for key type kt.
// status: "ok" canonical, "lenient" (a numeric string - ES5 9.3.1 - that is not the canonical
// decimal form of an in-range integer: refusing or using that integer are both acceptable),
// "invalid" (names no key). goSyntaxKey marks the names Go's base-0 integer syntax reads
// differently (class C16-MAP-KEY-BASE0).
func mapKey(key string, kt reflect.Type) (k string, status string) {
	if kt.Kind() == reflect.String {
		return key, "ok"
	}
	lo, hi := kindRange(kt.Kind())
	if i, ok := new(big.Int).SetString(key, 10); ok && i.String() == key {
		if i.Cmp(lo) < 0 || i.Cmp(hi) > 0 {
			return "", "invalid"
		}
		return key, "ok"
	}
	n := es5.StringToNumber(harness.UTF16(key))
	if n == math.Trunc(n) && !math.IsInf(n, 0) {
		i, _ := new(big.Float).SetFloat64(n).Int(nil)
		if i.Cmp(lo) >= 0 && i.Cmp(hi) <= 0 && strings.TrimSpace(key) == key {
			return i.String(), "lenient"
		}
	}
	return "", "invalid"
}

func goSyntaxKey(key string, kt reflect.Type) bool {
	if kt.Kind() == reflect.String {
		return false
	}
	body := strings.TrimLeft(key, "+-")
	return strings.Contains(key, "_") || strings.HasPrefix(body, "0b") || strings.HasPrefix(body, "0B") || strings.HasPrefix(body, "0o") || strings.HasPrefix(body, "0O") ||
		(len(body) > 1 && body[0] == '0' && strings.Trim(body, "0123456789") == "")
}

func kindRange(k reflect.Kind) (lo, hi *big.Int) {
	bits := map[reflect.Kind]uint{reflect.Int8: 8, reflect.Int16: 16, reflect.Int32: 32, reflect.Int64: 64, reflect.Int: 64,
		reflect.Uint8: 8, reflect.Uint16: 16, reflect.Uint32: 32, reflect.Uint64: 64, reflect.Uint: 64}[k]
	one := big.NewInt(1)
	if m16.IsInt(k) {
		return new(big.Int).Neg(new(big.Int).Lsh(one, bits-1)), new(big.Int).Sub(new(big.Int).Lsh(one, bits-1), one)
	}
	return big.NewInt(0), new(big.Int).Sub(new(big.Int).Lsh(one, bits), one)
}

// ---- what a step may do ---------------------------------------------------------------------------

type stepExpect struct {
	asserted   bool     // the new Go contents are asserted
	accept     []m16.GV // acceptable new contents (besides "unchanged")
	unchanged  bool     // leaving the contents as they were is acceptable…
	silentOK   bool     // …even without an error (structural rejection: index out of range, read-only view, script-only property)
	mustLoud   bool     // the step must throw a TypeError/RangeError
	result     string   // expected description of the result ("" = not asserted)
	setExpando string   // script-only property written (value in setExpVal)
	setExpVal  string
	delExpando string
	keep       []int    // bump: the field path the Go side now holds a pointer to
	setAlias   int      // +1: PI now aliases In; -1: PI was re-pointed
	known      []string // classes: the step is steered around while one is active
	waive      []string // classes: kept, but the *shape* of the failure is not asserted while active
	classes    []string
	hard       bool
}

type histState struct {
	g        m16.GV // Go contents (by-value containers: what a Go callee receives)
	shared   bool
	expando  map[string]string
	pristine bool  // by-value slice: no append yet, so cap == len
	kept     []int // index path of the struct field whose address the Go side kept (bump), nil = none
	alias    bool  // Outer: PI was assigned the field In, so it points at that memory
}

func primJD(v *m16.JV) string {
	if v == nil {
		return "u"
	}
	if s, ok := m16.JDOfJV(*v); ok {
		return s
	}
	return "*"
}

func goJD(g m16.GV) string { // description text of a scalar Go value as the script sees it
	switch g.K {
	case "num":
		if g.N == "-0" {
			return "n:-0"
		}
		if i, ok := new(big.Int).SetString(g.N, 10); ok {
			f, _ := new(big.Float).SetInt(i).Float64()
			return "n:" + m16.CanonFloat(f)
		}
		return "n:" + g.N
	case "str":
		return "s:" + strconv.Quote(g.S)
	case "bool":
		return "b:" + strconv.FormatBool(g.B)
	case "nil":
		return "u"
	}
	return ""
}

func withElem(l m16.GV, i int, v m16.GV) m16.GV {
	c := l.Clone()
	c.Elems[i] = v
	return c
}

func rewrap(orig, inner m16.GV) m16.GV {
	if orig.K == "ptr" {
		return m16.Ptr(inner)
	}
	return inner
}

func writeElem(e *stepExpect, d m16.Den, build func(v m16.GV) m16.GV) {
	e.known = append(e.known, d.Known...)
	e.classes = append(e.classes, "write:"+d.Class)
	e.hard = e.hard || d.Hard
	e.waive = append(e.waive, m16.KStorePanic) // every refusal on the store path has that shape
	switch d.St {
	case m16.Exact:
		e.asserted = true
		e.accept = append(e.accept, build(d.V))
		for _, a := range d.Alt {
			e.accept = append(e.accept, build(a))
		}
		e.unchanged = d.MayFail || len(d.Alt) > 0
	case m16.Impossible:
		e.asserted = true
		e.mustLoud = true
		e.unchanged = true
	default:
		e.asserted = false
	}
}

func expectStep(c contSpec, st histState, s step) stepExpect {
	e := stepExpect{}
	full := st.g
	switch {
	case isStructCont(c):
		sg := structGV(c, full)
		styp := m16.TypeOf(c.T)
		innerT := reflect.TypeOf(m16.Inner{})
		bumped := func(path []int, x m16.GV, y *string) m16.GV { // the struct with path.X (and .Y) replaced
			g := m16.SetPath(sg, styp, append(append([]int(nil), path...), 0), x)
			if y != nil {
				g = m16.SetPath(g, styp, append(append([]int(nil), path...), 1), m16.Str(*y))
			}
			return rewrap(full, g)
		}
		switch s.Op {
		case "bump": // script: __bump(G.<field>, k) - a Go func(p *Inner, k int) that does p.X += k; p.Y = "bumped" and keeps p
			idx := m16.ResolveField(styp, s.Key)
			e.classes = append(e.classes, "pointer-param-to-live-field")
			e.hard = true
			if idx == nil || m16.FieldType(styp, idx) != innerT || c.Kind != "pstruct" {
				e.asserted = false
				break
			}
			d := m16.Denote(*s.Val, reflect.TypeOf(0), "call")
			e.asserted = true
			if d.St != m16.Impossible {
				e.keep = idx // if the call goes through, the Go side holds a pointer to this field
			}
			switch d.St {
			case m16.Exact:
				cur := m16.GetPath(sg, idx)
				xv, _ := new(big.Int).SetString(cur.Elems[0].N, 10)
				kv, _ := new(big.Int).SetString(d.V.N, 10)
				sum := new(big.Int).Add(xv, kv)
				if !sum.IsInt64() {
					e.asserted = false
					break
				}
				y := "bumped"
				e.accept = append(e.accept, bumped(idx, m16.Num(sum.String()), &y))
				e.result = goJD(m16.Num(sum.String()))
				e.unchanged = d.MayFail
			case m16.Impossible:
				e.mustLoud, e.unchanged = true, true
			default:
				e.asserted = false
			}
		case "viaptr": // Go: kept.X = v
			e.classes = append(e.classes, "go-writes-through-kept-pointer")
			e.hard = true
			e.asserted = true
			if st.kept == nil {
				e.unchanged, e.silentOK = true, true
				break
			}
			e.accept = append(e.accept, bumped(st.kept, *s.Go, nil))
		case "set":
			idx := m16.ResolveField(styp, s.Key)
			_, isGoName := styp.FieldByName(s.Key)
			if s.Val != nil && s.Val.K == "sp" && strings.HasPrefix(s.Val.S, "self:") {
				// G.PI = G.In : a pointer field receives live Go memory, so it must point at it
				src := m16.ResolveField(styp, strings.TrimPrefix(s.Val.S, "self:"))
				e.classes = append(e.classes, "pointer-field-aliases-live-field")
				e.hard = true
				if idx == nil || src == nil || c.Kind != "pstruct" || m16.FieldType(styp, idx) != reflect.PointerTo(m16.FieldType(styp, src)) {
					e.asserted = false
					break
				}
				e.asserted = true
				e.accept = append(e.accept, rewrap(full, m16.SetPath(sg, styp, idx, m16.Ptr(m16.GetPath(sg, src)))))
				e.setAlias = 1
				break
			}
			if f, ok := styp.FieldByName("PI"); ok && idx != nil && len(idx) == 1 && idx[0] == f.Index[0] {
				e.setAlias = -1
			}
			switch {
			case idx != nil:
				if c.Kind == "vstruct" {
					e.known = append(e.known, m16.KStructVal)
				}
				d := m16.Denote(*s.Val, m16.FieldType(styp, idx), "call")
				writeElem(&e, d, func(v m16.GV) m16.GV { return rewrap(full, m16.SetPath(sg, styp, idx, v)) })
				e.waive = nil
				if c.Kind == "vstruct" {
					e.unchanged = true // refusing to modify a by-value view is fine, as long as it is loud
				}
			case isGoName: // exported but not selectable (json:"-") or unexported
				f, _ := styp.FieldByName(s.Key)
				if f.PkgPath != "" {
					e.asserted, e.unchanged, e.silentOK = true, true, true
					e.setExpando, e.setExpVal = s.Key, primJD(s.Val)
					e.classes = append(e.classes, "write:unexported-name")
					e.hard = true
				} else {
					// an exported field hidden from conversions (json:"-") but readable by its Go
					// name: the write is ignored, or stores the exact value like any field
					d := m16.Denote(*s.Val, f.Type, "call")
					writeElem(&e, d, func(v m16.GV) m16.GV { return rewrap(full, m16.SetPath(sg, styp, f.Index, v)) })
					e.waive = nil
					if e.asserted {
						e.unchanged, e.silentOK = true, true
					}
					e.classes = append(e.classes, "write:json-dash-field")
					e.known = append(e.known, m16.KShadow)
					if c.Kind == "vstruct" {
						e.known = append(e.known, m16.KStructVal)
					}
				}
			default:
				e.asserted, e.unchanged, e.silentOK = true, true, true
				e.setExpando, e.setExpVal = s.Key, primJD(s.Val)
				e.classes = append(e.classes, "write:script-only")
			}
		case "del":
			e.asserted, e.unchanged, e.silentOK = true, true, true
			e.delExpando = s.Key
			e.classes = append(e.classes, "delete")
		case "get":
			e.asserted, e.unchanged, e.silentOK = true, true, true
		case "call":
			e.asserted = true
			a, _ := sg.Field("A")
			b, _ := sg.Field("B")
			if _, has := ownType(c).MethodByName(s.Method); !has {
				e.mustLoud, e.unchanged = true, true // calling undefined
				break
			}
			switch s.Method {
			case "Add":
				if len(s.Args) != 1 {
					e.mustLoud, e.unchanged = true, true
					e.classes = append(e.classes, "method-arity")
					break
				}
				d := m16.Denote(s.Args[0], reflect.TypeOf(0), "call")
				e.hard = e.hard || d.Hard
				e.classes = append(e.classes, "method-arg:"+d.Class)
				switch d.St {
				case m16.Exact:
					av, _ := new(big.Int).SetString(a.N, 10)
					dv, _ := new(big.Int).SetString(d.V.N, 10)
					sum := new(big.Int).Add(av, dv)
					if !sum.IsInt64() {
						e.asserted = false
						break
					}
					nv := m16.Num(sum.String())
					idx := m16.ResolveField(styp, "A")
					e.accept = append(e.accept, rewrap(full, m16.SetPath(sg, styp, idx, nv)))
					e.result = goJD(nv)
					e.unchanged = d.MayFail
				case m16.Impossible:
					e.mustLoud, e.unchanged = true, true
				default:
					e.asserted = false
				}
			case "Get":
				if len(s.Args) != 0 {
					e.mustLoud, e.unchanged = true, true
					break
				}
				e.unchanged, e.silentOK = true, true
				e.result = "s:" + strconv.Quote(a.N+"/"+b.S)
			case "Pair":
				if len(s.Args) != 0 {
					e.mustLoud, e.unchanged = true, true
					break
				}
				e.unchanged, e.silentOK = true, true
				e.result = "GoSlice[" + goJD(a) + "," + goJD(b) + "]"
			}
			e.classes = append(e.classes, "method:"+s.Method)
		case "gomut":
			e.asserted = false
			e.classes = append(e.classes, "go-side-mutation")
			e.hard = true
			if s.Key == "PI" {
				e.setAlias = -1
			}
		}

	case semKind(c) == "map":
		mt := ownType(c)
		switch s.Op {
		case "set", "define":
			k, status := mapKey(s.Key, mt.Key())
			e.classes = append(e.classes, "key:"+status)
			if goSyntaxKey(s.Key, mt.Key()) {
				e.known = append(e.known, m16.KKeyBase0)
			}
			if _, isMethod := mt.MethodByName(s.Key); isMethod {
				e.classes = append(e.classes, "key:method-name")
				e.hard = true
				if _, present := full.Field(k); !present && s.Op == "set" {
					// no entry yet: the name still resolves to the method, and a plain assignment is dropped
					e.known = append(e.known, m16.KMapMethod)
				}
			}
			switch status {
			case "invalid":
				e.asserted, e.unchanged, e.silentOK = true, true, true
				e.waive = append(e.waive, m16.KStorePanic)
				e.hard = true
			default:
				d := m16.Denote(*s.Val, mt.Elem(), "store")
				writeElem(&e, d, func(v m16.GV) m16.GV { return full.WithField(k, v) })
				if status == "lenient" {
					e.unchanged, e.silentOK = true, true
					e.waive = append(e.waive, m16.KStorePanic)
				}
			}
		case "del":
			k, status := mapKey(s.Key, mt.Key())
			e.classes = append(e.classes, "delete", "key:"+status)
			e.asserted = true
			if goSyntaxKey(s.Key, mt.Key()) {
				e.known = append(e.known, m16.KKeyBase0)
			}
			switch status {
			case "invalid":
				e.unchanged, e.silentOK = true, true
				e.waive = append(e.waive, m16.KStorePanic)
			case "lenient":
				e.accept = append(e.accept, full.WithoutField(k))
				e.unchanged, e.silentOK = true, true
				e.waive = append(e.waive, m16.KStorePanic)
			default:
				if _, present := full.Field(k); present {
					e.accept = append(e.accept, full.WithoutField(k))
					e.result = "b:true"
				} else {
					e.unchanged, e.silentOK = true, true
				}
			}
		case "get":
			e.asserted, e.unchanged, e.silentOK = true, true, true
			if k, status := mapKey(s.Key, mt.Key()); status == "ok" {
				if v, present := full.Field(k); present {
					e.result = goJD(v)
				} else if _, isMethod := mt.MethodByName(s.Key); isMethod {
					e.result = "fn" // no entry of that name: the method of the named map type
				} else {
					e.result = "u"
				}
			} else if status == "invalid" {
				e.result = "u"
			}
		case "call":
			e.asserted, e.unchanged, e.silentOK = true, true, true
			m, has := mt.MethodByName(s.Method)
			if _, shadow := full.Field(s.Method); !has || shadow || len(s.Args) != m.Type.NumIn()-1 {
				// no such method, an entry of that name (the entry wins: calling a non-function), or wrong arity
				e.mustLoud, e.silentOK = true, false
				e.classes = append(e.classes, "method-call-refused")
				break
			}
			e.classes = append(e.classes, "method:"+s.Method)
			argKey := func() (string, bool) {
				if len(s.Args) == 1 && s.Args[0].K == "str" {
					return s.Args[0].S, true
				}
				return "", false
			}
			switch s.Method {
			case "Total":
				sum := new(big.Int)
				for _, v := range full.Elems {
					i, _ := new(big.Int).SetString(v.N, 10)
					sum.Add(sum, i)
				}
				if sum.IsInt64() {
					e.result = goJD(m16.Num(sum.String()))
				}
			case "Len":
				e.result = "n:" + strconv.Itoa(len(full.Keys))
			case "Get":
				if k, ok := argKey(); ok {
					if v, present := full.Field(k); present {
						e.result = goJD(v)
					} else {
						e.result = "s:\"\""
					}
				} else {
					e.asserted = false
				}
			case "Del":
				if k, ok := argKey(); ok {
					if _, present := full.Field(k); present {
						e.accept = append(e.accept, full.WithoutField(k))
						e.unchanged, e.silentOK = false, false
					}
				} else {
					e.asserted = false
				}
			}
		case "gomut", "godel":
			e.asserted = false
			e.classes = append(e.classes, "go-side-mutation")
			e.hard = true
		}

	case isListCont(c):
		l := listGV(full)
		et := elemType(c)
		n := len(l.Elems)
		sem := semKind(c)
		writable := sem != "varray"
		growable := sem == "slice" || sem == "aslice"
		addressable := sem == "aslice"
		switch s.Op {
		case "set", "define", "push":
			i, isIdx := arrayIndex(s.Key)
			if s.Op == "push" {
				i, isIdx = n, true
			}
			switch {
			case !isIdx:
				e.asserted, e.unchanged, e.silentOK = true, true, true
				e.setExpando, e.setExpVal = s.Key, primJD(s.Val)
				e.classes = append(e.classes, "write:script-only")
			case !writable:
				e.asserted, e.unchanged, e.silentOK = true, true, true
				e.classes = append(e.classes, "write:read-only-array")
				e.hard = true
			case i < n:
				d := m16.Denote(*s.Val, et, "store")
				writeElem(&e, d, func(v m16.GV) m16.GV { return rewrap(full, withElem(l, i, v)) })
			case i == n && growable:
				d := m16.Denote(*s.Val, et, "store")
				writeElem(&e, d, func(v m16.GV) m16.GV {
					c := l.Clone()
					c.Elems = append(c.Elems, v)
					return c
				})
				e.classes = append(e.classes, "append")
				if addressable {
					e.known = append(e.known, m16.KFieldGrow) // the grown slice must reach the Go field
				}
				if s.Op == "push" && len(e.accept) > 0 && !e.unchanged {
					e.result = "n:" + strconv.Itoa(n+1)
				}
			default:
				e.asserted, e.unchanged, e.silentOK = true, true, true
				e.classes = append(e.classes, "write:index-out-of-range")
				e.hard = true
				if s.Val != nil {
					e.waive = append(e.waive, m16.KStorePanic) // the value is converted before the index is looked at
				}
			}
		case "del":
			i, isIdx := arrayIndex(s.Key)
			e.asserted = true
			switch {
			case !isIdx && s.Key == "length":
				e.unchanged, e.silentOK = true, true
			case !isIdx:
				e.known = append(e.known, m16.KDeleteFat)
				e.unchanged, e.silentOK = true, true
				e.delExpando = s.Key
				e.classes = append(e.classes, "delete:script-only")
			case i < n && writable:
				e.accept = append(e.accept, rewrap(full, withElem(l, i, m16.Zero(et))))
				e.classes = append(e.classes, "delete:element")
			default:
				e.unchanged, e.silentOK = true, true
				e.classes = append(e.classes, "delete:out-of-range")
			}
		case "len":
			e.asserted = true
			want := int(s.Val.Float())
			switch {
			case !growable:
				e.unchanged, e.silentOK = true, true
				e.classes = append(e.classes, "length=:fixed-array")
			case want == n:
				e.unchanged, e.silentOK = true, true
			case want < n:
				c := l.Clone()
				c.Elems = c.Elems[:want]
				e.accept = append(e.accept, c)
				e.classes = append(e.classes, "length=:shrink")
				e.hard = true
				if !addressable {
					e.known = append(e.known, m16.KSetLen)
					e.unchanged = true
				}
			case addressable:
				// growing an addressable slice: new elements must be zero and reach the Go field
				c := l.Clone()
				for len(c.Elems) < want {
					c.Elems = append(c.Elems, m16.Zero(et))
				}
				e.accept = append(e.accept, c)
				e.known = append(e.known, m16.KFieldGrow)
				e.asserted = false // within the capacity the Go array's old elements reappear (Go re-slice semantics)
				e.classes = append(e.classes, "length=:grow")
			case st.pristine:
				c := l.Clone()
				for len(c.Elems) < want {
					c.Elems = append(c.Elems, m16.Zero(et))
				}
				e.accept = append(e.accept, c)
				e.classes = append(e.classes, "length=:grow")
				e.hard = true
			default:
				e.known = append(e.known, m16.KSetLen)
				e.asserted = false
				e.unchanged = true
				e.classes = append(e.classes, "length=:grow-within-cap")
			}
		case "pop", "shift", "splice":
			e.asserted = true
			if !growable {
				e.asserted = false
				break
			}
			if !addressable {
				e.known = append(e.known, m16.KSetLen)
				e.unchanged = true
			}
			e.classes = append(e.classes, "shrink:"+s.Op)
			e.hard = true
			if s.Op != "pop" { // shift / splice move elements: each is read into a Value and stored back
				for _, el := range l.Elems {
					if m16.IsInexactInt(el) {
						e.known = append(e.known, m16.KStoreI64)
						break
					}
				}
			}
			at := n - 1
			switch s.Op {
			case "shift":
				at = 0
			case "splice":
				at = int(s.Val.Float())
			}
			if n == 0 || at >= n {
				e.unchanged, e.silentOK = true, true // nothing to remove
				if s.Op == "splice" {
					e.result = "n:0"
				}
				break
			}
			c := l.Clone()
			c.Elems = append(c.Elems[:at:at], c.Elems[at+1:]...)
			e.accept = append(e.accept, c)
			if s.Op == "splice" {
				e.result = "n:1"
			} else {
				e.result = goJD(l.Elems[at])
			}
		case "get":
			e.asserted, e.unchanged, e.silentOK = true, true, true
			if i, isIdx := arrayIndex(s.Key); isIdx {
				if i < n {
					e.result = goJD(l.Elems[i])
				} else {
					e.result = "u"
				}
			}
		case "call":
			e.asserted, e.unchanged, e.silentOK = true, true, true
			if ownType(c).NumMethod() == 0 || len(s.Args) != 0 {
				e.mustLoud, e.silentOK = true, false
				break
			}
			sum := new(big.Int)
			for _, v := range l.Elems {
				i, _ := new(big.Int).SetString(v.N, 10)
				sum.Add(sum, i)
			}
			if sum.IsInt64() {
				e.result = goJD(m16.Num(sum.String()))
			}
			e.classes = append(e.classes, "method:Sum")
		case "gomut":
			e.asserted = false
			e.classes = append(e.classes, "go-side-mutation")
			e.hard = true
		}
	}
	return e
}

// ---- judging --------------------------------------------------------------------------------------

func parseView(s string) (viewObs, error) {
	var v viewObs
	err := json.Unmarshal([]byte(s), &v)
	return v, err
}

func sameSet(a, b []string) (bool, string) {
	as, bs := append([]string(nil), a...), append([]string(nil), b...)
	sort.Strings(as)
	sort.Strings(bs)
	for i := 1; i < len(as); i++ {
		if as[i] == as[i-1] {
			return false, "duplicate " + strconv.Quote(as[i])
		}
	}
	if strings.Join(as, "\x00") != strings.Join(bs, "\x00") {
		return false, fmt.Sprintf("%q vs %q", as, bs)
	}
	return true, ""
}

// checkView: the script's view shows exactly the Go contents (plus script-only properties).
func checkView(c contSpec, o stepObs, expando map[string]string) string {
	if o.ViewErr != "" {
		return "reading the container failed: " + oneLine(o.ViewErr, 200)
	}
	if strings.Contains(o.View, strconv.Itoa(m16.HidSentinel)) {
		return "the value of the unexported field shows in the script's view: " + oneLine(o.View, 200)
	}
	v, err := parseView(o.View)
	if err != nil {
		return "unreadable view " + oneLine(o.View, 120) + ": " + err.Error()
	}
	if m := m16.MatchJS(v.D, o.Go, contType(c), expando); m != "" {
		return m
	}
	// Object.keys and for-in agree with each other and list every element/entry once
	var wantKeys []string
	switch {
	case isListCont(c):
		for i := range listGV(o.Go).Elems {
			wantKeys = append(wantKeys, strconv.Itoa(i))
		}
		for k := range expando {
			wantKeys = append(wantKeys, k)
		}
	default:
		wantKeys = v.D.KeyList()
	}
	if ok, why := sameSet(v.Keys, wantKeys); !ok {
		return "Object.keys does not list the contents once each: " + why
	}
	if ok, why := sameSet(v.FI, wantKeys); !ok {
		return "for-in does not list the contents once each: " + why
	}
	// length
	switch {
	case isListCont(c):
		want := "n:" + strconv.Itoa(len(listGV(o.Go).Elems))
		if v.Len.String() != want {
			return "length is " + v.Len.String() + ", Go holds " + strconv.Itoa(len(listGV(o.Go).Elems)) + " elements"
		}
	}
	// named reads: json tags, promoted fields, unexported and unknown names
	for _, raw := range v.X {
		var parts []json.RawMessage
		if json.Unmarshal(raw, &parts) != nil || len(parts) != 3 {
			return "unreadable named read"
		}
		var name, in string
		var jd m16.JD
		_ = json.Unmarshal(parts[0], &name)
		_ = json.Unmarshal(parts[1], &jd)
		_ = json.Unmarshal(parts[2], &in)
		if exp, isExp := expando[name]; isExp {
			if exp != "*" && jd.String() != exp {
				return fmt.Sprintf("script-only property %q reads %s, was set to %s", name, jd.String(), exp)
			}
			continue
		}
		switch {
		case isStructCont(c):
			styp := m16.TypeOf(c.T)
			sg := structGV(c, o.Go)
			idx := m16.ResolveField(styp, name)
			if f, ok := styp.FieldByName(name); idx == nil && ok && f.PkgPath == "" {
				idx = f.Index // exported Go name (json:"-"): readable by name
			}
			if idx == nil {
				if jd.Atom != "u" || in != "false" {
					return fmt.Sprintf("name %q does not select an exported field, yet reads %s (in: %s)", name, jd.String(), in)
				}
				continue
			}
			if m := m16.MatchJS(jd, m16.GetPath(sg, idx), m16.FieldType(styp, idx), nil); m != "" {
				return fmt.Sprintf("access by %q: %s", name, m)
			}
			if in != "true" {
				return fmt.Sprintf("%q in object is %s for an exported field", name, in)
			}
		case semKind(c) == "map":
			mt := ownType(c)
			if ev, present := o.Go.Field(name); present && mt.Key().Kind() == reflect.String {
				if m := m16.MatchJS(jd, ev, mt.Elem(), nil); m != "" {
					return fmt.Sprintf("entry %q: %s", name, m)
				}
			} else if _, isMethod := mt.MethodByName(name); isMethod {
				if jd.Atom != "fn" {
					return "method " + name + " (no entry of that name) reads " + jd.String()
				}
			} else if jd.Atom != "u" {
				return fmt.Sprintf("absent key %q reads %s", name, jd.String())
			}
		default:
			if jd.Atom != "u" {
				return fmt.Sprintf("name %q reads %s on a list", name, jd.String())
			}
		}
	}
	return ""
}

func stepText(s step) string {
	if s.Op == "viaptr" {
		return "Go: keptPointer.X = " + s.Go.Render()
	}
	if s.Op == "gomut" || s.Op == "godel" {
		if s.Go != nil {
			return fmt.Sprintf("Go: [%s] = %s", s.Key, s.Go.Render())
		}
		return fmt.Sprintf("Go: delete [%s]", s.Key)
	}
	return stepSrc(s)
}

func stepTextOn(c contSpec, s step) string {
	if c.Kind == "field" && s.Op != "gomut" && s.Op != "godel" {
		return stepSrcOn("G."+c.Field, s)
	}
	return stepText(s)
}

func inClass(list []string, id string) bool {
	for _, x := range list {
		if x == id {
			return true
		}
	}
	return false
}

func checkHist(hc histCase) harness.Outcome {
	out := harness.Outcome{}
	// steer around active known classes: drop the steps that fall into one (statically decidable
	// from the container kind and the step, plus the tracked "no append yet" flag)
	c := hc.Cont
	var steps []step
	st0 := histState{g: hc.Cont.Init, expando: map[string]string{}, pristine: true}
	if c.Kind == "pstruct" || c.Kind == "parray" {
		st0.g = m16.Ptr(hc.Cont.Init)
	}
	if c.Kind == "field" {
		st0.g, _ = hc.Cont.Init.Field(c.Field)
	}
	{
		// static pre-pass over a nominal state (lengths only matter for the slice length classes)
		nominal := st0
		for _, s := range hc.Steps {
			if (s.Op == "pop" || s.Op == "shift" || s.Op == "splice") && semKind(c) != "slice" && semKind(c) != "aslice" {
				continue // Array.prototype.pop on a fixed-length array is outside the domain (ASSUMPTIONS)
			}
			e := expectStep(c, nominal, s)
			if isListCont(c) && s.Val != nil && (s.Op == "set" || s.Op == "define" || s.Op == "push") {
				// whatever the index turns out to be, the value conversion decides the class
				e.known = append(e.known, m16.Denote(*s.Val, elemType(c), "store").Known...)
			}
			if ak := activeKnown(e.known); len(ak) > 0 {
				out.Excluded = append(out.Excluded, ak...)
				continue
			}
			steps = append(steps, s)
			if c.Kind == "slice" && (s.Op == "push" || s.Op == "set" || s.Op == "define" || s.Op == "len") {
				nominal.pristine = false // conservatively: any later length change is in the SetLen class
			}
		}
		out.Excluded = dedup(out.Excluded)
	}
	if semKind(c) == "map" && ownType(c).Key().PkgPath() != "" {
		// a map with a named key type: on the unrepaired tree every keyed access panics, the container
		// cannot even be viewed - the whole history is in the class
		if ak := activeKnown([]string{m16.KNamedKey}); len(ak) > 0 {
			out.Excluded = dedup(append(out.Excluded, ak...))
			return out
		}
	}
	r, died := exec(request{Kind: "hist", Cont: c, Steps: steps})
	if died != "" {
		out.Fail = fmt.Sprintf("history on %s %s: %s (steps: %s)", c.Kind, c.T, died, stepsText(steps))
		return out
	}
	if r.Err != "" {
		out.Discard = "executor: " + oneLine(r.Err, 100)
		return out
	}
	if r.Init == nil || len(r.Steps) != len(steps) {
		out.Discard = "executor returned an incomplete history"
		return out
	}
	fail := func(i int, msg string) harness.Outcome {
		at := "initially"
		if i >= 0 {
			at = fmt.Sprintf("after step %d `%s`", i+1, stepTextOn(c, steps[i]))
		}
		out.Fail = fmt.Sprintf("%s %s, %s: %s  [history: %s]", c.Kind, c.T, at, msg, stepsText(steps[:i+1]))
		return out
	}
	st := st0
	if !r.Init.Go.Equal(st.g) {
		out.Discard = "initial contents differ from the specification: " + r.Init.Go.Render() + " vs " + st.g.Render()
		return out
	}
	st.shared = r.Init.Shared
	if m := checkView(c, *r.Init, st.expando); m != "" {
		return fail(-1, m)
	}
	classes := []string{"container:" + c.Kind + ":" + c.T + c.Field}
	for i, s := range steps {
		o := r.Steps[i]
		e := expectStep(c, st, s)
		classes = append(classes, e.classes...)
		classes = append(classes, "op:"+s.Op)
		out.Nontrivial = out.Nontrivial || e.hard
		if i > 0 && (steps[i-1].Op == "gomut" || steps[i-1].Op == "godel") {
			out.Nontrivial = true
		}
		if o.Panic != "" {
			return fail(i, "a Go panic escaped Run: "+oneLine(o.Panic, 200))
		}
		if ak := activeKnown(e.known); len(ak) > 0 { // a class the static pre-pass could not see: nothing but the view is asserted
			out.Excluded = dedup(append(out.Excluded, ak...))
			if m := checkView(c, o, st.expando); m != "" && o.ViewErr == "" {
				return fail(i, m)
			}
			st.g, st.shared, st.pristine = o.Go, o.Shared, false
			continue
		}
		waived := activeKnown(e.waive)
		// outcome of the step
		loud, class, msg := loudTry(o.Res)
		threw := class != ""
		if threw {
			own := stepThrows(s) // the value's own toString throws: the script's own Error is the loud failure
			loud = loud || (own && class == "Error")
			shapeOK := loud && o.BarePanic == "" && (o.BareErr == "TypeError" || o.BareErr == "RangeError" || (own && o.BareErr == "Error"))
			if !shapeOK {
				if len(waived) > 0 {
					out.Excluded = dedup(append(out.Excluded, waived...))
				} else if !loud {
					return fail(i, fmt.Sprintf("failed, but not with a TypeError/RangeError the script can catch: %s: %s", class, oneLine(msg, 160)))
				} else if o.BarePanic != "" {
					return fail(i, "without a try the failure is a Go panic out of Run: "+oneLine(o.BarePanic, 160))
				} else {
					return fail(i, "without a try Run reported "+o.BareErr)
				}
			}
			if !o.Go.Equal(st.g) {
				return fail(i, fmt.Sprintf("the step failed (%s) but changed the Go object: %s -> %s", oneLine(msg, 80), st.g.Render(), o.Go.Render()))
			}
			if e.asserted && !e.unchanged && !e.mustLoud {
				return fail(i, fmt.Sprintf("a write from the positive list failed: %s: %s", class, oneLine(msg, 160)))
			}
			classes = append(classes, "outcome:threw")
		} else {
			if e.mustLoud {
				return fail(i, fmt.Sprintf("must fail loudly but did not; Go now holds %s (was %s)", o.Go.Render(), st.g.Render()))
			}
			if e.asserted {
				ok := false
				for _, a := range e.accept {
					if st.alias && e.setAlias >= 0 {
						a = syncAlias(c, a) // PI points at In: whatever In now holds shows through PI
					}
					if a.Equal(o.Go) {
						ok = true
					}
				}
				if !ok && e.unchanged && e.silentOK && o.Go.Equal(st.g) {
					ok = true
				}
				if !ok {
					var acc []string
					for _, a := range e.accept {
						acc = append(acc, a.Render())
					}
					if e.unchanged && e.silentOK {
						acc = append(acc, "unchanged")
					}
					if o.Go.Equal(st.g) {
						return fail(i, fmt.Sprintf("the write was dropped silently: Go still holds %s, want %s", o.Go.Render(), strings.Join(acc, " or ")))
					}
					return fail(i, fmt.Sprintf("Go holds %s (was %s), want %s", o.Go.Render(), st.g.Render(), strings.Join(acc, " or ")))
				}
			}
			if e.result != "" {
				if jd, ok := okJD(o.Res); ok && jd.String() != e.result {
					return fail(i, fmt.Sprintf("the step's value is %s, want %s", jd.String(), e.result))
				}
			}
			if e.setExpando != "" && c.Kind != "field" {
				// (a field container is wrapped afresh on every access: script-only properties of
				// the transient wrapper are not part of any contents)
				st.expando[e.setExpando] = e.setExpVal
			}
			if e.delExpando != "" {
				delete(st.expando, e.delExpando)
			}
			if e.keep != nil {
				st.kept = e.keep
			}
			if e.setAlias > 0 {
				st.alias = true
			}
			classes = append(classes, "outcome:done")
		}
		// by-value slice: a Go-side element write is visible iff the backing array is still shared
		if s.Op == "gomut" && c.Kind == "slice" {
			idx, _ := arrayIndex(s.Key)
			l := listGV(st.g)
			want := st.g
			if st.shared && idx < len(l.Elems) && o.Orig != nil && idx < len(o.Orig.Elems) {
				want = withElem(l, idx, *s.Go)
			}
			if !want.Equal(o.Go) {
				return fail(i, fmt.Sprintf("Go wrote element %d (backing array shared: %v): a Go callee now receives %s, want %s", idx, st.shared, o.Go.Render(), want.Render()))
			}
		}
		if (s.Op == "gomut" || s.Op == "godel") && c.Kind == "varray" {
			// by-value array: the script has its own copy
		}
		if m := checkView(c, o, st.expando); m != "" {
			return fail(i, m)
		}
		if e.setAlias < 0 && !threw { // a refused write to PI leaves it pointing where it did
			st.alias = false
		}
		st.g, st.shared = o.Go, o.Shared
		if c.Kind == "slice" && len(listGV(o.Go).Elems) != len(listGV(hc.Cont.Init).Elems) {
			st.pristine = false
		}
		if c.Kind == "slice" && (s.Op == "push" || s.Op == "len") {
			st.pristine = false
		}
	}
	out.Classes = dedup(classes)
	return out
}

func stepsText(steps []step) string {
	var p []string
	for _, s := range steps {
		p = append(p, stepText(s))
	}
	return strings.Join(p, "; ")
}

func jvThrows(v m16.JV) bool {
	if v.K == "sp" && v.S == "tostr-throw" {
		return true
	}
	for _, e := range v.E {
		if jvThrows(e) {
			return true
		}
	}
	return false
}

func stepThrows(s step) bool {
	if s.Val != nil && jvThrows(*s.Val) {
		return true
	}
	for _, a := range s.Args {
		if jvThrows(a) {
			return true
		}
	}
	return false
}

// syncAlias: in an Outer whose PI was assigned the field In, PI shows In's contents.
func syncAlias(c contSpec, g m16.GV) m16.GV {
	styp := m16.TypeOf(c.T)
	in, ok1 := styp.FieldByName("In")
	pi, ok2 := styp.FieldByName("PI")
	if !ok1 || !ok2 {
		return g
	}
	sg := structGV(c, g)
	return rewrap(g, m16.SetPath(sg, styp, pi.Index, m16.Ptr(m16.GetPath(sg, in.Index))))
}
