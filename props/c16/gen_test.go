package c16

import (
	"math"
	"reflect"

	"pgregory.net/rapid"

	"verif/lib/gen"
	"verif/lib/m16"
)

// ---- JavaScript value generators ------------------------------------------------------------------

var stringPool = []string{"", "a", "abc", "héllo", "12", " 12 ", "1.5", "-7", "0x10", "010", "1e3", "Infinity", "NaN", "-0", "true", "null", "\U0001F600", "a\"b\\c", "300", "9223372036854775808"}

// boundaries of a numeric kind: both sides of both ends, halves, specials.
func kindBoundaries(k reflect.Kind) []float64 {
	out := []float64{0, math.Copysign(0, -1), 1, -1, 0.5, -0.5, 1.5, -1.5, 0.1, math.NaN(), math.Inf(1), math.Inf(-1), 1e21, 5e-324, 16777217, 16777216, 9007199254740992, 9007199254740993}
	bits := map[reflect.Kind]int{reflect.Int8: 8, reflect.Int16: 16, reflect.Int32: 32, reflect.Int64: 64, reflect.Int: 64,
		reflect.Uint8: 8, reflect.Uint16: 16, reflect.Uint32: 32, reflect.Uint64: 64, reflect.Uint: 64}[k]
	if bits > 0 {
		var lo, hi float64
		if m16.IsInt(k) {
			lo, hi = -math.Ldexp(1, bits-1), math.Ldexp(1, bits-1)-1
		} else {
			lo, hi = 0, math.Ldexp(1, bits)-1
		}
		for _, x := range []float64{lo, hi} {
			out = append(out, x, x-1, x+1, x-0.5, x+0.5, math.Nextafter(x, math.Inf(1)), math.Nextafter(x, math.Inf(-1)))
		}
		out = append(out, math.Ldexp(1, bits-1), math.Ldexp(1, bits), -math.Ldexp(1, bits), math.Ldexp(1, bits)+1, hi+256, lo-256)
	}
	if k == reflect.Float32 {
		out = append(out, math.MaxFloat32, -math.MaxFloat32, math.MaxFloat32*2, math.Nextafter(math.MaxFloat32, math.Inf(1)), math.SmallestNonzeroFloat32, math.SmallestNonzeroFloat32/2,
			1e-46, 1e39, 0.25, 1.0000001192092896, 1.00000001, 3.4028235677973366e38, float64(float32(0.1)), 1e-40)
	}
	return out
}

func genNumberFor(t *rapid.T, k reflect.Kind) m16.JV {
	var x float64
	switch c := rapid.IntRange(0, 9).Draw(t, "numsrc"); {
	case c < 5:
		x = rapid.SampledFrom(kindBoundaries(k)).Draw(t, "kindBoundary")
	case c < 7:
		x = float64(rapid.IntRange(-300, 300).Draw(t, "small"))
	default:
		x = gen.Double().Draw(t, "double")
	}
	return withForm(t, x)
}

func withForm(t *rapid.T, x float64) m16.JV {
	forms := []string{"lit", "lit", "flt"}
	for _, f := range []string{"i32", "u32", "len"} {
		if m16.FormOK(x, f) {
			forms = append(forms, f)
		}
	}
	var goForms []string
	for _, f := range m16.GoForms {
		if m16.FormOK(x, f) {
			goForms = append(goForms, f)
		}
	}
	if len(goForms) > 0 && rapid.IntRange(0, 3).Draw(t, "fromGo") == 0 {
		return m16.JNum(x, rapid.SampledFrom(goForms).Draw(t, "goForm"))
	}
	return m16.JNum(x, rapid.SampledFrom(forms).Draw(t, "form"))
}

func genNumber(t *rapid.T) m16.JV {
	kinds := []reflect.Kind{reflect.Int8, reflect.Uint8, reflect.Int16, reflect.Uint16, reflect.Int32, reflect.Uint32, reflect.Int64, reflect.Uint64, reflect.Float32, reflect.Float64}
	return genNumberFor(t, rapid.SampledFrom(kinds).Draw(t, "anyKind"))
}

func genPrimitive(t *rapid.T) m16.JV {
	switch c := rapid.IntRange(0, 11).Draw(t, "prim"); {
	case c < 5:
		return genNumber(t)
	case c < 8:
		return m16.JStr(rapid.SampledFrom(stringPool).Draw(t, "str"))
	case c < 10:
		return m16.JBool(rapid.Bool().Draw(t, "bool"))
	case c < 11:
		return m16.JNull()
	}
	return m16.JUndef()
}

var objKeyPool = []string{"a", "b", "k", "A", "bee", "B", "X", "In2", "in2", "zzz", "hid", "Skip", "0", "1", "U8", "F", "f32", "I", "P", "Sl", "M", "T", "why"}

var specials = []string{"date0", "regexp", "numobj", "strobj", "boolobj", "tostr", "valof", "tostr-throw", "fn2", "arraylike", "arraylike-neg", "args"}

func genSpecial(t *rapid.T) m16.JV {
	name := rapid.SampledFrom(specials).Draw(t, "special")
	switch name {
	case "numobj":
		return m16.JSp(name, genNumber(t))
	case "strobj":
		return m16.JSp(name, m16.JStr(rapid.SampledFrom([]string{"ab", "12", "", "x"}).Draw(t, "strobj")))
	case "tostr", "valof":
		return m16.JSp(name, genPrimitive(t))
	case "arraylike", "args":
		n := rapid.IntRange(0, 3).Draw(t, "alen")
		var e []m16.JV
		for i := 0; i < n; i++ {
			e = append(e, genPrimitive(t))
		}
		return m16.JSp(name, e...)
	}
	return m16.JSp(name)
}

func genFn(t *rapid.T) m16.JV {
	body := rapid.SampledFrom([]string{"ret", "ret", "inc", "id", "throw", "argc", "none"}).Draw(t, "fnbody")
	if body == "ret" {
		return m16.JFn(body, genPrimitive(t))
	}
	return m16.JFn(body)
}

func genGo(t *rapid.T) m16.JV {
	return m16.JSp("go:" + rapid.SampledFrom(m16.Fixtures).Draw(t, "fixture").Name)
}

// genValue draws any JavaScript value (depth-bounded).
func genValue(t *rapid.T, depth int) m16.JV {
	c := rapid.IntRange(0, 19).Draw(t, "vkind")
	if depth <= 0 && c >= 12 && c < 16 {
		c = 0
	}
	switch {
	case c < 12:
		return genPrimitive(t)
	case c < 14:
		n := rapid.IntRange(0, 4).Draw(t, "alen")
		var e []m16.JV
		for i := 0; i < n; i++ {
			if rapid.IntRange(0, 9).Draw(t, "hole") == 0 {
				e = append(e, m16.JHole())
			} else {
				e = append(e, genValue(t, depth-1))
			}
		}
		return m16.JArr(e...)
	case c < 16:
		n := rapid.IntRange(0, 3).Draw(t, "olen")
		var keys []string
		var vals []m16.JV
		seen := map[string]bool{}
		for i := 0; i < n; i++ {
			k := rapid.SampledFrom(objKeyPool).Draw(t, "okey")
			if seen[k] {
				continue
			}
			seen[k] = true
			keys = append(keys, k)
			vals = append(vals, genValue(t, depth-1))
		}
		return m16.JObj(keys, vals)
	case c < 17:
		return genFn(t)
	case c < 19:
		return genSpecial(t)
	}
	return genGo(t)
}

// genFor draws a value aimed at Go type ty: mostly convertible, with boundary values for the
// leaf kinds and an occasional element of the wrong kind.
func genFor(t *rapid.T, ty reflect.Type, depth int) m16.JV {
	if rapid.IntRange(0, 9).Draw(t, "offtarget") == 0 {
		return genValue(t, depth)
	}
	switch k := ty.Kind(); {
	case m16.IsNumeric(k):
		return genNumberFor(t, k)
	case k == reflect.String:
		if rapid.IntRange(0, 3).Draw(t, "strOrNum") == 0 {
			return genNumber(t)
		}
		return m16.JStr(rapid.SampledFrom(stringPool).Draw(t, "str"))
	case k == reflect.Bool:
		return m16.JBool(rapid.Bool().Draw(t, "bool"))
	case k == reflect.Interface:
		return genValue(t, depth)
	case k == reflect.Slice || k == reflect.Array:
		if m16.IsNumeric(ty.Elem().Kind()) && rapid.IntRange(0, 3).Draw(t, "bridgedList") == 0 {
			return genGoList(t, ty.Elem().Kind())
		}
		n := rapid.IntRange(0, 4).Draw(t, "alen")
		if k == reflect.Array && rapid.IntRange(0, 3).Draw(t, "fit") > 0 {
			n = ty.Len()
		}
		var e []m16.JV
		for i := 0; i < n; i++ {
			if rapid.IntRange(0, 14).Draw(t, "hole") == 0 {
				e = append(e, m16.JHole())
			} else {
				e = append(e, genFor(t, ty.Elem(), depth-1))
			}
		}
		return m16.JArr(e...)
	case k == reflect.Map:
		n := rapid.IntRange(0, 3).Draw(t, "olen")
		var keys []string
		var vals []m16.JV
		seen := map[string]bool{}
		pool := []string{"a", "b", "k", "zzz", "0", "1", "-1", "7", "300", "x y"}
		for i := 0; i < n; i++ {
			key := rapid.SampledFrom(pool).Draw(t, "mkey")
			if seen[key] {
				continue
			}
			seen[key] = true
			keys = append(keys, key)
			vals = append(vals, genFor(t, ty.Elem(), depth-1))
		}
		return m16.JObj(keys, vals)
	case k == reflect.Struct:
		var keys []string
		var vals []m16.JV
		names := structNames(ty)
		n := rapid.IntRange(0, 4).Draw(t, "nfields")
		seenIdx := map[string]bool{}
		for i := 0; i < n; i++ {
			name := rapid.SampledFrom(names).Draw(t, "fname")
			idx := m16.ResolveField(ty, name)
			if idx == nil {
				if rapid.IntRange(0, 2).Draw(t, "badname") > 0 {
					continue // bad names are kept rare
				}
				keys = append(keys, name)
				vals = append(vals, genPrimitive(t))
				continue
			}
			id := fieldID(idx)
			if seenIdx[id] {
				continue
			}
			seenIdx[id] = true
			keys = append(keys, name)
			vals = append(vals, genFor(t, m16.FieldType(ty, idx), depth-1))
		}
		return m16.JObj(keys, vals)
	case k == reflect.Ptr:
		if rapid.IntRange(0, 4).Draw(t, "nilptr") == 0 {
			if rapid.Bool().Draw(t, "nullOrUndef") {
				return m16.JNull()
			}
			return m16.JUndef()
		}
		return genFor(t, ty.Elem(), depth)
	case k == reflect.Func:
		return genFn(t)
	}
	return genValue(t, depth)
}

func fieldID(idx []int) string {
	s := ""
	for _, i := range idx {
		s += string(rune('a'+i)) + "."
	}
	return s
}

// structNames: every way a script may name a field of ty (Go names, json tags, promoted names)
// plus names that must not resolve.
func structNames(ty reflect.Type) []string {
	for ty.Kind() == reflect.Ptr {
		ty = ty.Elem()
	}
	var out []string
	var walk func(t reflect.Type)
	walk = func(t reflect.Type) {
		for i := 0; i < t.NumField(); i++ {
			f := t.Field(i)
			out = append(out, f.Name)
			if tag := f.Tag.Get("json"); tag != "" && tag != "-" {
				for j := 0; j < len(tag); j++ {
					if tag[j] == ',' {
						tag = tag[:j]
						break
					}
				}
				if tag != "" {
					out = append(out, tag)
				}
			}
			if f.Anonymous && f.Type.Kind() == reflect.Struct {
				walk(f.Type)
			}
		}
	}
	walk(ty)
	return append(out, "zzz", "b")
}

// ---- signatures -----------------------------------------------------------------------------------

var scalarTypes = []string{"int8", "int16", "int32", "int64", "int", "uint8", "uint16", "uint32", "uint64", "uint", "float32", "float64", "string", "bool", "any"}
var namedTypes = []string{"MyInt", "MyI64", "MyU8", "MyF64", "MyStr", "MyBool", "MyU64", "MyU64", "MyUint", "MyI8", "MyF32"}
var containerTypes = []string{"[]int", "[]int8", "[]uint8", "[]uint16", "[]int64", "[]float32", "[]float64", "[]string", "[]bool", "[]any", "[][]int", "[]Inner", "IntSl", "[3]int",
	"map[string]int", "map[string]int8", "map[string]uint16", "map[string]float32", "map[string]float64", "map[string]string", "map[string]bool", "map[string]any", "map[string][]int", "map[int]string", "map[int]int", "StrIntM", "Hdr", "*uint64", "*int64", "*MyU64", "[]MyU64", "[]uint64", "Nums", "map[string]MyU64", "map[KStr]int", "map[KInt]string", "map[KStr]MyStr", "map[string]MyInt", "[]MyInt",
	"S", "*S", "Inner", "*Inner", "TwinA", "TwinB", "*TwinA", "*TwinB", "*int", "*int8", "*string", "*float32", "*[3]int",
	"func(int)int", "func(int8)int8", "func(string)string", "func(float64)float32", "func()", "func(int)(int,string)", "error"}

func genParamType(t *rapid.T) string {
	switch c := rapid.IntRange(0, 9).Draw(t, "tclass"); {
	case c < 5:
		return rapid.SampledFrom(scalarTypes).Draw(t, "scalar")
	case c < 6:
		return rapid.SampledFrom(namedTypes).Draw(t, "named")
	}
	return rapid.SampledFrom(containerTypes).Draw(t, "container")
}

// return samples: values a Go function hands back without reference to its arguments.
var returnSamples = []outSpec{
	{Echo: -1, T: "int8", V: m16.NumI(-128)},
	{Echo: -1, T: "uint8", V: m16.NumI(255)},
	{Echo: -1, T: "int64", V: m16.NumI(-9007199254740992)},
	{Echo: -1, T: "uint64", V: m16.Num("9007199254740992")},
	{Echo: -1, T: "uint32", V: m16.Num("4294967295")},
	{Echo: -1, T: "float32", V: m16.NumF(0.5)},
	{Echo: -1, T: "float32", V: m16.NumF(float64(float32(0.1)))},
	{Echo: -1, T: "float64", V: m16.NumF(math.Copysign(0, -1))},
	{Echo: -1, T: "float64", V: m16.NumF(math.NaN())},
	{Echo: -1, T: "float64", V: m16.NumF(5e-324)},
	{Echo: -1, T: "string", V: m16.Str("héllo \U0001F600")},
	{Echo: -1, T: "string", V: m16.Str("")},
	{Echo: -1, T: "bool", V: m16.Bool(true)},
	{Echo: -1, T: "error", V: m16.Nil()},
	{Echo: -1, T: "*S", V: m16.Nil()},
	{Echo: -1, T: "any", V: m16.Nil()},
	{Echo: -1, T: "any", V: m16.NumF(1.5)},
	{Echo: -1, T: "any", V: m16.Str("dyn")},
	{Echo: -1, T: "[]int", V: m16.List(m16.NumI(1), m16.NumI(-2), m16.NumI(300))},
	{Echo: -1, T: "[]string", V: m16.List(m16.Str("x"), m16.Str(""))},
	{Echo: -1, T: "[]any", V: m16.List(m16.NumF(1), m16.Str("two"), m16.Bool(false))},
	{Echo: -1, T: "map[string]int", V: m16.MapOf([]string{"p", "q"}, []m16.GV{m16.NumI(1), m16.NumI(2)})},
	{Echo: -1, T: "map[int]string", V: m16.MapOf([]string{"-3", "7"}, []m16.GV{m16.Str("m"), m16.Str("s")})},
	{Echo: -1, T: "Inner", V: m16.GV{K: "struct", T: "Inner", Keys: []string{"X", "Y"}, Elems: []m16.GV{m16.NumI(9), m16.Str("y")}}},
	{Echo: -1, T: "*Inner", V: m16.GV{K: "struct", T: "Inner", Keys: []string{"X", "Y"}, Elems: []m16.GV{m16.NumI(-4), m16.Str("")}}},
	{Echo: -1, T: "*[3]int", V: m16.List(m16.NumI(1), m16.NumI(2), m16.NumI(3))},
	{Echo: -1, T: "MyInt", V: m16.NumI(-5)},
	{Echo: -1, T: "MyU64", V: m16.Num("9223372036854775808")},
	{Echo: -1, T: "MyU64", V: m16.Num("18446744073709551615")},
	{Echo: -1, T: "MyU64", V: m16.Num("9223372036854775807")},
	{Echo: -1, T: "MyUint", V: m16.Num("18446744073709549568")},
	{Echo: -1, T: "uint64", V: m16.Num("18446744073709551615")},
	{Echo: -1, T: "uint", V: m16.Num("9223372036854775808")},
	{Echo: -1, T: "MyI64", V: m16.Num("-9223372036854775808")},
	{Echo: -1, T: "MyI8", V: m16.NumI(-128)},
	{Echo: -1, T: "MyU8", V: m16.NumI(255)},
	{Echo: -1, T: "MyF32", V: m16.NumF(float64(float32(0.1)))},
	{Echo: -1, T: "MyF64", V: m16.NumF(5e-324)},
	{Echo: -1, T: "*uint64", V: m16.Num("9223372036854775808")},
	{Echo: -1, T: "*MyU64", V: m16.Num("18446744073709551615")},
	{Echo: -1, T: "*int64", V: m16.Num("-9223372036854775808")},
	{Echo: -1, T: "[]MyU64", V: m16.List(m16.Num("1"), m16.Num("9223372036854775808"), m16.Num("18446744073709551615"))},
	{Echo: -1, T: "[]uint64", V: m16.List(m16.Num("18446744073709551615"))},
	{Echo: -1, T: "map[uint64]string", V: m16.MapOf([]string{"18446744073709551615", "7"}, []m16.GV{m16.Str("max"), m16.Str("seven")})},
	{Echo: -1, T: "map[string]MyU64", V: m16.MapOf([]string{"k"}, []m16.GV{m16.Num("9223372036854775808")})},
	{Echo: -1, T: "Nums", V: func() m16.GV {
		g := m16.Zero(m16.TypeOf("Nums"))
		g = g.WithField("ID", m16.Num("18446744073709551615")).WithField("U", m16.Num("9223372036854775808")).WithField("UI", m16.Num("9223372036854775809"))
		return g.WithField("PU", m16.Ptr(m16.Num("12297829382473034410"))).WithField("I8", m16.NumI(-128)).WithField("L", m16.Num("-9223372036854775808"))
	}()},
	{Echo: -1, T: "MyStr", V: m16.Str("named")},
}

func genCall(t *rapid.T) callCase {
	var c callCase
	shape := rapid.IntRange(0, 19).Draw(t, "shape")
	switch {
	case shape < 11: // func(T) T
		c.In = []string{genParamType(t)}
		c.Out = []outSpec{{Echo: 0}}
	case shape < 14: // several parameters, first echoed (sometimes with a second result)
		n := rapid.IntRange(2, 3).Draw(t, "nparams")
		for i := 0; i < n; i++ {
			c.In = append(c.In, genParamType(t))
		}
		c.Out = []outSpec{{Echo: rapid.IntRange(0, n-1).Draw(t, "echo")}}
		if rapid.Bool().Draw(t, "second") {
			c.Out = append(c.Out, rapid.SampledFrom(returnSamples).Draw(t, "sample"))
		}
	case shape < 17: // variadic
		nf := rapid.IntRange(0, 2).Draw(t, "nfixed")
		for i := 0; i < nf; i++ {
			c.In = append(c.In, rapid.SampledFrom(scalarTypes).Draw(t, "fixed"))
		}
		c.In = append(c.In, rapid.SampledFrom([]string{"[]int", "[]int8", "[]string", "[]any", "[]float32", "[][]int", "[]uint16"}).Draw(t, "tail"))
		c.Variadic = true
		c.Out = []outSpec{{Echo: len(c.In) - 1}}
	default: // no parameters, 0-3 results
		n := rapid.IntRange(0, 3).Draw(t, "nout")
		for i := 0; i < n; i++ {
			c.Out = append(c.Out, rapid.SampledFrom(returnSamples).Draw(t, "sample"))
		}
	}
	if !c.Variadic && len(c.In) >= 2 && rapid.IntRange(0, 1).Draw(t, "reentrantCase") == 0 {
		// a later argument whose conversion calls f again while the outer call is still converting
		at := rapid.IntRange(1, len(c.In)-1).Draw(t, "reAt")
		c.In[at] = rapid.SampledFrom([]string{"string", "string", "any", "map[string]int", "map[string]any", "map[string]string", "S", "Inner", "*Inner"}).Draw(t, "reType")
		var inner []m16.JV
		for _, name := range c.In {
			inner = append(inner, genFor(t, m16.TypeOf(name), 0))
		}
		var outer []m16.JV
		okRe := false
		for i, name := range c.In {
			if i == at {
				if v, ok := genReentrant(t, m16.TypeOf(name), inner); ok {
					outer = append(outer, v)
					okRe = true
					continue
				}
			}
			outer = append(outer, genFor(t, m16.TypeOf(name), 1))
		}
		if okRe {
			c.Args = outer
			return c
		}
	}
	nIn := len(c.In)
	nArgs := nIn
	if c.Variadic {
		nArgs = nIn - 1 + rapid.IntRange(0, 3).Draw(t, "ntail")
	}
	if rapid.IntRange(0, 6).Draw(t, "arity") == 0 {
		nArgs = rapid.IntRange(0, nIn+2).Draw(t, "nargs")
	}
	for i := 0; i < nArgs; i++ {
		var ty reflect.Type
		switch {
		case i < nIn && !(c.Variadic && i == nIn-1):
			ty = m16.TypeOf(c.In[i])
		case c.Variadic:
			ty = m16.TypeOf(c.In[nIn-1])
			if !(nArgs == nIn && rapid.IntRange(0, 3).Draw(t, "spread") == 0) {
				ty = ty.Elem()
			}
		default:
			c.Args = append(c.Args, genPrimitive(t))
			continue
		}
		c.Args = append(c.Args, genFor(t, ty, 2))
	}
	return c
}

// ---- histories ------------------------------------------------------------------------------------

var goStringPool = []string{"", "a", "bee", "héllo", "12", "x y"}

// genGoValue draws contents for Go type ty (small, exactly representable).
func genGoValue(t *rapid.T, ty reflect.Type, depth int) m16.GV {
	switch k := ty.Kind(); {
	case k == reflect.Bool:
		return m16.Bool(rapid.Bool().Draw(t, "gbool"))
	case m16.IsInt(k):
		if (k == reflect.Int64 || k == reflect.Int) && rapid.IntRange(0, 7).Draw(t, "gintExtreme") == 0 {
			return m16.Num(rapid.SampledFrom([]string{"9223372036854775807", "-9223372036854775808", "9007199254740993", "-4611686018427387904"}).Draw(t, "gint64"))
		}
		return m16.NumI(int64(rapid.IntRange(-100, 100).Draw(t, "gint")))
	case m16.IsUint(k):
		if (k == reflect.Uint64 || k == reflect.Uint) && rapid.IntRange(0, 4).Draw(t, "guintExtreme") == 0 {
			return m16.Num(rapid.SampledFrom([]string{"9223372036854775808", "18446744073709551615", "9223372036854775807", "12297829382473034410", "18446744073709549568"}).Draw(t, "guint64"))
		}
		return m16.NumI(int64(rapid.IntRange(0, 200).Draw(t, "guint")))
	case m16.IsFloat(k):
		return m16.NumF(float64(rapid.IntRange(-40, 40).Draw(t, "ghalf")) / 2)
	case k == reflect.String:
		return m16.Str(rapid.SampledFrom(goStringPool).Draw(t, "gstr"))
	case k == reflect.Interface:
		switch rapid.IntRange(0, 4).Draw(t, "gany") {
		case 0:
			return m16.Nil()
		case 1:
			return m16.NumF(float64(rapid.IntRange(-40, 40).Draw(t, "ghalf")) / 2)
		case 2:
			return m16.Str(rapid.SampledFrom(goStringPool).Draw(t, "gstr"))
		case 3:
			return m16.Bool(rapid.Bool().Draw(t, "gbool"))
		}
		return m16.List(m16.NumF(1), m16.Str("in"))
	case k == reflect.Slice:
		n := rapid.IntRange(0, 4).Draw(t, "glen")
		g := m16.GV{K: "list"}
		for i := 0; i < n; i++ {
			g.Elems = append(g.Elems, genGoValue(t, ty.Elem(), depth-1))
		}
		return g
	case k == reflect.Array:
		g := m16.GV{K: "list"}
		for i := 0; i < ty.Len(); i++ {
			g.Elems = append(g.Elems, genGoValue(t, ty.Elem(), depth-1))
		}
		return g
	case k == reflect.Map:
		n := rapid.IntRange(0, 3).Draw(t, "gmlen")
		var keys []string
		var vals []m16.GV
		seen := map[string]bool{}
		for i := 0; i < n; i++ {
			var key string
			if ty.Key().Kind() == reflect.String {
				key = rapid.SampledFrom([]string{"a", "b", "c", "k", "x y", "", "0", "7"}).Draw(t, "gkey")
			} else if kk := ty.Key().Kind(); kk == reflect.Uint64 || kk == reflect.Uint {
				key = rapid.SampledFrom([]string{"0", "7", "9223372036854775808", "18446744073709551615", "9223372036854775807"}).Draw(t, "gkey")
			} else if kk == reflect.Int64 {
				key = rapid.SampledFrom([]string{"0", "-1", "7", "9223372036854775807", "-9223372036854775808"}).Draw(t, "gkey")
			} else if m16.IsUint(kk) {
				key = rapid.SampledFrom([]string{"0", "1", "7", "100"}).Draw(t, "gkey")
			} else {
				key = rapid.SampledFrom([]string{"0", "1", "-1", "7", "100"}).Draw(t, "gkey")
			}
			if seen[key] {
				continue
			}
			seen[key] = true
			keys = append(keys, key)
			vals = append(vals, genGoValue(t, ty.Elem(), depth-1))
		}
		return m16.MapOf(keys, vals)
	case k == reflect.Ptr:
		if rapid.Bool().Draw(t, "gnil") {
			return m16.Nil()
		}
		return m16.Ptr(genGoValue(t, ty.Elem(), depth-1))
	case k == reflect.Struct:
		g := m16.Zero(ty)
		for i := 0; i < ty.NumField(); i++ {
			f := ty.Field(i)
			switch {
			case f.Name == "hid":
				g.Elems[i] = m16.NumI(m16.HidSentinel)
			case f.PkgPath != "":
			default:
				g.Elems[i] = genGoValue(t, f.Type, depth-1)
			}
		}
		return g
	}
	panic("genGoValue: " + ty.String())
}

var histContainers = []contSpec{
	{Kind: "pstruct", T: "S"}, {Kind: "pstruct", T: "S"}, {Kind: "pstruct", T: "S"}, {Kind: "vstruct", T: "S"},
	{Kind: "map", T: "map[string]int"}, {Kind: "map", T: "map[string]int8"}, {Kind: "map", T: "map[string]uint16"}, {Kind: "map", T: "map[string]float32"},
	{Kind: "map", T: "map[string]float64"}, {Kind: "map", T: "map[string]string"}, {Kind: "map", T: "map[string]bool"}, {Kind: "map", T: "map[string]any"},
	{Kind: "map", T: "map[int]string"}, {Kind: "map", T: "map[int8]string"}, {Kind: "map", T: "map[uint16]int"}, {Kind: "map", T: "StrIntM"}, {Kind: "map", T: "StrIntM"}, {Kind: "map", T: "Hdr"}, {Kind: "map", T: "Hdr"}, {Kind: "map", T: "Hdr"},
	{Kind: "pstruct", T: "Nums"}, {Kind: "pstruct", T: "Nums"}, {Kind: "vstruct", T: "Nums"},
	{Kind: "map", T: "map[uint64]string"}, {Kind: "map", T: "map[uint64]string"}, {Kind: "map", T: "map[int64]string"}, {Kind: "map", T: "map[uint32]int"}, {Kind: "map", T: "map[uint]int"},
	{Kind: "map", T: "map[string]MyU64"}, {Kind: "slice", T: "[]MyU64"}, {Kind: "slice", T: "[]uint64"},
	{Kind: "map", T: "map[KStr]int"}, {Kind: "map", T: "map[KStr]int"}, {Kind: "map", T: "map[KInt]string"}, {Kind: "map", T: "map[KStr]MyStr"}, {Kind: "map", T: "map[string]MyInt"}, {Kind: "slice", T: "[]MyInt"},
	{Kind: "slice", T: "[]int"}, {Kind: "slice", T: "[]int8"}, {Kind: "slice", T: "[]uint16"}, {Kind: "slice", T: "[]int64"}, {Kind: "slice", T: "[]float32"},
	{Kind: "slice", T: "[]float64"}, {Kind: "slice", T: "[]string"}, {Kind: "slice", T: "[]bool"}, {Kind: "slice", T: "[]any"}, {Kind: "slice", T: "IntSl"},
	{Kind: "parray", T: "*[3]int"}, {Kind: "parray", T: "*[4]int"}, {Kind: "parray", T: "*[3]int8"}, {Kind: "parray", T: "*[3]string"}, {Kind: "parray", T: "*[3]float32"},
	{Kind: "varray", T: "[3]int"},
	{Kind: "pstruct", T: "TwinA"}, {Kind: "pstruct", T: "TwinB"}, {Kind: "vstruct", T: "TwinA"},
	{Kind: "pstruct", T: "Outer"}, {Kind: "pstruct", T: "Outer"},
	{Kind: "field", T: "Holder", Field: "Items"}, {Kind: "field", T: "Holder", Field: "Items"}, {Kind: "field", T: "Holder", Field: "Names"},
	{Kind: "field", T: "Holder", Field: "Arr"}, {Kind: "field", T: "Holder", Field: "Tab"},
}

var mapKeyPoolString = []string{"a", "b", "c", "k", "zzz", "x y", "", "0", "7", "length", "A"}
var mapKeyPoolInt = []string{"18446744073709551615", "9223372036854775807", "-9223372036854775808", "0", "1", "-1", "7", "100", "300", "128", "-129", "65536", "abc", "1.5", "1e3", "0x10", "010", "1_0", "+5", " 5", "", "9223372036854775808"}
var listKeyPool = []string{"0", "1", "2", "3", "4", "5", "9", "foo", "zzz", "-1", "1.5", "4294967295"}

func genStepVal(t *rapid.T, ty reflect.Type) *m16.JV {
	v := genFor(t, ty, 1)
	return &v
}

func genPrimVal(t *rapid.T) *m16.JV {
	v := genPrimitive(t)
	return &v
}

func genHist(t *rapid.T) histCase {
	c := rapid.SampledFrom(histContainers).Draw(t, "container")
	ty := m16.TypeOf(c.T)
	base := ty
	if base.Kind() == reflect.Ptr {
		base = base.Elem()
	}
	c.Init = genGoValue(t, base, 2)
	kind := c.Kind
	if c.Kind == "field" { // the steps address the field; the host struct only carries it
		f, _ := ty.FieldByName(c.Field)
		ty, base = f.Type, f.Type
		switch ty.Kind() {
		case reflect.Map:
			kind = "map"
		case reflect.Slice:
			kind = "aslice"
		default:
			kind = "parray"
		}
	}
	n := rapid.IntRange(1, 12).Draw(t, "nsteps")
	hc := histCase{Cont: c}
	pick := func(label string, weights map[string]int) string {
		var names []string
		for k := range weights {
			names = append(names, k)
		}
		sortStrings(names)
		total := 0
		for _, k := range names {
			total += weights[k]
		}
		x := rapid.IntRange(0, total-1).Draw(t, label)
		for _, k := range names {
			if x < weights[k] {
				return k
			}
			x -= weights[k]
		}
		return names[0]
	}
	for i := 0; i < n; i++ {
		var s step
		switch kind {
		case "pstruct", "vstruct":
			w := map[string]int{"set": 40, "get": 4, "del": 8, "call": 16, "gomut": 32}
			if c.Kind == "vstruct" {
				w["gomut"] = 0
			}
			if base.NumMethod() == 0 && reflect.PointerTo(base).NumMethod() == 0 {
				w["call"] = 2
			}
			var innerNames []string // struct-typed fields: live Go memory a *Inner parameter can point at
			for fi := 0; fi < base.NumField(); fi++ {
				if f := base.Field(fi); f.Type == reflect.TypeOf(m16.Inner{}) {
					innerNames = append(innerNames, f.Name)
					if tag := f.Tag.Get("json"); tag != "" && tag != "-" {
						innerNames = append(innerNames, tag)
					}
				}
			}
			if len(innerNames) > 0 && c.Kind == "pstruct" {
				w["bump"], w["viaptr"] = 14, 8
			}
			s.Op = pick("sop", w)
			switch s.Op {
			case "bump":
				s.Key = rapid.SampledFrom(innerNames).Draw(t, "bumpField")
				v := genFor(t, reflect.TypeOf(0), 0)
				if rapid.IntRange(0, 3).Draw(t, "plainK") > 0 {
					v = m16.JNum(float64(rapid.IntRange(-50, 50).Draw(t, "k")), "lit")
				}
				s.Val = &v
			case "viaptr":
				g := genGoValue(t, reflect.TypeOf(0), 0)
				s.Go = &g
			case "set":
				if _, hasPI := base.FieldByName("PI"); hasPI && rapid.IntRange(0, 3).Draw(t, "aliasPI") == 0 {
					s.Key = "PI"
					v := m16.JSp("self:" + rapid.SampledFrom([]string{"In", "in"}).Draw(t, "aliasSrc"))
					s.Val = &v
					break
				}
				s.Key = rapid.SampledFrom(append(structNames(base), "hid", "zzz", "Skip")).Draw(t, "skey")
				if idx := m16.ResolveField(base, s.Key); idx != nil {
					s.Val = genStepVal(t, m16.FieldType(base, idx))
				} else {
					s.Val = genPrimVal(t)
				}
			case "get", "del":
				s.Key = rapid.SampledFrom(append(structNames(base), "hid", "zzz", "Skip")).Draw(t, "skey")
			case "call":
				s.Method = rapid.SampledFrom([]string{"Add", "Add", "Get", "Pair"}).Draw(t, "method")
				na := 0
				if s.Method == "Add" {
					na = 1
				}
				if rapid.IntRange(0, 7).Draw(t, "marity") == 0 {
					na = rapid.IntRange(0, 2).Draw(t, "margs")
				}
				for j := 0; j < na; j++ {
					s.Args = append(s.Args, genFor(t, reflect.TypeOf(0), 0))
				}
			case "gomut":
				names := m16.ExportedFields(base)
				s.Key = rapid.SampledFrom(names).Draw(t, "gfield")
				f, _ := base.FieldByName(s.Key)
				g := genGoValue(t, f.Type, 1)
				s.Go = &g
			}
		case "map":
			keys := mapKeyPoolString
			if ty.Key().Kind() != reflect.String {
				keys = mapKeyPoolInt
			}
			goKeys := []string{"a", "b", "c", "k", "x y", "", "0", "7", "zzz"}
			if methods := m16.MethodNames(ty); len(methods) > 0 { // keys spelled like the methods of the named map type
				keys = append(append([]string(nil), keys...), methods...)
				keys = append(keys, methods...)
				goKeys = append(goKeys, methods...)
				goKeys = append(goKeys, methods...)
			}
			mw := map[string]int{"set": 35, "define": 5, "del": 15, "get": 8, "call": 5, "gomut": 22, "godel": 10}
			if ty.NumMethod() > 0 {
				mw["call"], mw["get"] = 14, 12
			}
			s.Op = pick("mop", mw)
			switch s.Op {
			case "set", "define":
				s.Key = rapid.SampledFrom(keys).Draw(t, "mkey")
				s.Val = genStepVal(t, ty.Elem())
			case "del", "get":
				s.Key = rapid.SampledFrom(keys).Draw(t, "mkey")
			case "call":
				s.Method = "Total"
				if methods := m16.MethodNames(ty); len(methods) > 0 {
					s.Method = rapid.SampledFrom(methods).Draw(t, "mapMethod")
					if m, _ := ty.MethodByName(s.Method); m.Type.NumIn() == 2 {
						s.Args = []m16.JV{m16.JStr(rapid.SampledFrom(keys).Draw(t, "methodKeyArg"))}
					}
				}
			case "gomut", "godel":
				if ty.Key().Kind() == reflect.String {
					s.Key = rapid.SampledFrom(goKeys).Draw(t, "gkey")
				} else if kk := ty.Key().Kind(); kk == reflect.Uint64 || kk == reflect.Uint {
					s.Key = rapid.SampledFrom([]string{"0", "7", "9223372036854775808", "18446744073709551615"}).Draw(t, "gkey")
				} else if kk == reflect.Int64 {
					s.Key = rapid.SampledFrom([]string{"0", "-1", "9223372036854775807", "-9223372036854775808"}).Draw(t, "gkey")
				} else if m16.IsUint(ty.Key().Kind()) {
					s.Key = rapid.SampledFrom([]string{"0", "1", "7", "100"}).Draw(t, "gkey")
				} else {
					s.Key = rapid.SampledFrom([]string{"0", "1", "-1", "7", "100"}).Draw(t, "gkey")
				}
				if s.Op == "gomut" {
					g := genGoValue(t, ty.Elem(), 1)
					s.Go = &g
				}
			}
		default: // lists
			et := base.Elem()
			lw := map[string]int{"set": 30, "define": 3, "push": 12, "del": 10, "len": 8, "pop": 3, "get": 4, "call": 4, "gomut": 26}
			if kind == "slice" || kind == "aslice" {
				lw["pop"], lw["shift"], lw["splice"], lw["len"] = 6, 4, 4, 12
			}
			s.Op = pick("lop", lw)
			switch s.Op {
			case "set", "define":
				s.Key = rapid.SampledFrom(listKeyPool).Draw(t, "lkey")
				if _, isIdx := arrayIndex(s.Key); isIdx {
					s.Val = genStepVal(t, et)
				} else {
					s.Val = genPrimVal(t)
				}
			case "push":
				s.Val = genStepVal(t, et)
			case "del", "get":
				s.Key = rapid.SampledFrom(append(listKeyPool, "length")).Draw(t, "lkey")
			case "len":
				v := m16.JNum(float64(rapid.IntRange(0, 8).Draw(t, "newlen")), "lit")
				s.Val = &v
			case "splice":
				v := m16.JNum(float64(rapid.IntRange(0, 4).Draw(t, "spliceAt")), "lit")
				s.Val = &v
			case "call":
				s.Method = "Sum"
			case "gomut":
				s.Key = rapid.SampledFrom([]string{"0", "1", "2", "3"}).Draw(t, "gidx")
				g := genGoValue(t, et, 1)
				s.Go = &g
			}
		}
		hc.Steps = append(hc.Steps, s)
	}
	return hc
}

func sortStrings(s []string) {
	for i := 1; i < len(s); i++ {
		for j := i; j > 0 && s[j] < s[j-1]; j-- {
			s[j], s[j-1] = s[j-1], s[j]
		}
	}
}

var numericKindNames = []string{"int8", "int16", "int32", "int64", "int", "uint8", "uint16", "uint32", "uint64", "uint", "float32", "float64"}

// genGoList: a bridged Go slice (or pointer to a Go array) of some numeric element kind, holding
// values aimed at the boundaries of the target element kind - the argument a Go result or field is.
func genGoList(t *rapid.T, target reflect.Kind) m16.JV {
	src := rapid.SampledFrom(numericKindNames).Draw(t, "srcElemKind")
	fits := func(x float64) bool {
		if src == "float64" {
			return true
		}
		return m16.FormOK(x, "go:"+src)
	}
	n := rapid.IntRange(0, 4).Draw(t, "golen")
	var e []m16.JV
	for i := 0; i < n; i++ {
		var x float64
		if rapid.IntRange(0, 2).Draw(t, "goelemsrc") > 0 {
			x = rapid.SampledFrom(kindBoundaries(target)).Draw(t, "goelemBoundary")
		} else {
			x = float64(rapid.IntRange(-300, 300).Draw(t, "goelemSmall"))
		}
		if !fits(x) {
			x = float64(rapid.IntRange(0, 127).Draw(t, "goelemFallback"))
		}
		e = append(e, m16.JNum(x, "lit"))
	}
	spec := "gosl:" + src
	if rapid.IntRange(0, 3).Draw(t, "ptrArray") == 0 {
		spec = "gosl:*" + src
	}
	return m16.JSp(spec, e...)
}

// genReentrant: a value for parameter type ty whose conversion runs script code that calls f again
// with inner; ok is false when no conversion of that type runs script code.
func genReentrant(t *rapid.T, ty reflect.Type, inner []m16.JV) (m16.JV, bool) {
	var v m16.JV
	switch k := ty.Kind(); {
	case k == reflect.String:
		v = m16.JSp("tostr", m16.JStr(rapid.SampledFrom(stringPool).Draw(t, "reRet")))
	case k == reflect.Interface && ty.NumMethod() == 0:
		v = m16.JObj([]string{"a", "b"}, []m16.JV{genPrimitive(t), genPrimitive(t)})
		v.Get = rapid.IntRange(0, 1).Draw(t, "getterAt")
	case k == reflect.Map && ty.Key().Kind() == reflect.String, k == reflect.Struct, k == reflect.Ptr && ty.Elem().Kind() == reflect.Struct:
		base := ty
		if base.Kind() == reflect.Ptr {
			base = base.Elem()
		}
		v = genFor(t, base, 1)
		for tries := 0; (v.K != "obj" || len(v.Keys) == 0) && tries < 6; tries++ {
			v = genFor(t, base, 1)
		}
		if v.K != "obj" || len(v.Keys) == 0 {
			return v, false
		}
		seen := map[string]bool{}
		for _, key := range v.Keys { // an accessor may not share its name with another property of the literal
			if seen[key] {
				return v, false
			}
			seen[key] = true
		}
		v.Get = rapid.IntRange(0, len(v.Keys)-1).Draw(t, "getterAt")
	default:
		return v, false
	}
	v.HasRe, v.Re = true, inner
	return v, true
}
