package c12

import (
	"math"

	"pgregory.net/rapid"

	"verif/lib/harness"
	"verif/lib/m12"
)

// Years whose boundaries are visited explicitly (DESIGN C12 plus neighbours).
var boundaryYears = []int64{-271821, -271820, -100000, -10000, -9999, -401, -400, -101, -100, -5, -4, -1, 0, 1, 4, 99, 100, 101, 400,
	1000, 1582, 1600, 1899, 1900, 1901, 1969, 1970, 1971, 1972, 1999, 2000, 2001, 2037, 2038, 2039, 2100, 9999, 10000, 10001, 100000, 275759, 275760}

// rapid's integer and SampledFrom draws are strongly biased towards small values / early
// elements (that is what makes its shrinking work). The domains here want genuinely uniform
// instants and honest weights, so uniform choices are derived from two rapid draws through a
// bijective mixer: still a pure function of rapid's bit stream (deterministic, replayable,
// shrinkable — with b = 0 the value degrades to the plain small-biased draw a).
func mix64(z uint64) uint64 {
	z += 0x9e3779b97f4a7c15
	z = (z ^ (z >> 30)) * 0xbf58476d1ce4e5b9
	z = (z ^ (z >> 27)) * 0x94d049bb133111eb
	return z ^ (z >> 31)
}

// uni draws uniformly from [0, n).
func uni(t *rapid.T, label string, n uint64) uint64 {
	a := rapid.Uint64().Draw(t, label)
	b := rapid.Uint64().Draw(t, label+"'")
	if b == 0 {
		return a % n
	}
	return mix64(a^mix64(b)) % n
}

// uniInt draws uniformly from [lo, hi].
func uniInt(t *rapid.T, label string, lo, hi int64) int64 {
	return lo + int64(uni(t, label, uint64(hi-lo)+1))
}

func pick[T any](t *rapid.T, label string, xs []T) T { return xs[uni(t, label, uint64(len(xs)))] }

func coin(t *rapid.T, label string) bool { return uni(t, label, 2) == 1 }

const maxTV = 8640000000000000

var fractions = []float64{0.5, -0.5, 0.999, -0.999, 0.1, 1e-9, 0.25, -0.0001}

var wildTimes = []float64{math.NaN(), math.Inf(1), math.Inf(-1), math.Copysign(0, -1), 1e300, -1e300, 9223372036854775808, -9223372036854775808,
	math.MaxFloat64, -math.MaxFloat64, 1e16, -1e16, 8.7e15, -8.7e15, 9007199254740992, -9007199254740992, 1e19, 1.8446744073709552e19, 5e-324, 0.9, -0.9}

// boundaryInstant: midnight (or a chosen time of day) of a calendar day of a boundary year, ± a few ms.
func boundaryInstant(t *rapid.T, year int64) float64 {
	month := int(uniInt(t, "month", int64(0), int64(11)))
	day := pick(t, "day", []int{1, 1, 2, 15, 28, 29, 30, 31, 32}) // 32 etc. roll into the next month: still a day boundary
	tod := pick(t, "tod", []float64{0, 0, 0, 1000, 60000, 3600000, 43200000, 86399000, 86340000, 82800000})
	delta := pick(t, "delta", []float64{-1, 0, 1, -1, 0, 1, -2, 2, 999, -1000})
	return m12.MakeDate(m12.MakeDay(float64(year), float64(month), float64(day)), tod) + delta
}

// genTV draws a time value argument for new Date(v) / setTime(v).
func genTV(t *rapid.T) float64 {
	switch k := int(uniInt(t, "tvkind", int64(0), int64(19))); {
	case k < 5: // uniform over the whole ES5 range
		return float64(uniInt(t, "uniform", -maxTV, maxTV))
	case k < 9: // calendar boundaries of the listed years
		return boundaryInstant(t, pick(t, "byear", boundaryYears))
	case k < 11: // leap days and their neighbours in an arbitrary year (rounded to multiples of 4/100/400 half of the time)
		y := uniInt(t, "lyear", -271820, 275759)
		switch int(uniInt(t, "round", int64(0), int64(3))) {
		case 1:
			y -= ((y % 4) + 4) % 4
		case 2:
			y -= ((y % 100) + 100) % 100
		case 3:
			y -= ((y % 400) + 400) % 400
		}
		md := pick(t, "md", [][2]float64{{1, 28}, {1, 29}, {2, 1}, {11, 31}, {0, 1}})
		tod := pick(t, "tod", []float64{0, 86399999, 43200000})
		delta := pick(t, "delta", []float64{-1, 0, 1})
		return m12.MakeDate(m12.MakeDay(float64(y), md[0], md[1]), tod) + delta
	case k < 12: // the limits of 15.9.1.1
		sign := pick(t, "sign", []float64{1, -1})
		off := pick(t, "off", []float64{-86400000, -1000, -2, -1, 0, 1, 2, 1000, 86400000})
		return sign * (maxTV + off)
	case k < 14: // non-integral
		base := float64(uniInt(t, "base", -maxTV, maxTV))
		if coin(t, "small") {
			base = float64(uniInt(t, "sbase", -3000, 3000))
		}
		return base + pick(t, "frac", fractions)
	case k < 15:
		return pick(t, "wild", wildTimes)
	case k < 16: // around the epoch
		return float64(uniInt(t, "epoch", -2000, 2000))
	default: // 1970-2038, the region the hand-written tests live in
		return float64(uniInt(t, "modern", 0, 2177452800000))
	}
}

var typicalRange = [7][2]int{{1900, 2100}, {0, 11}, {1, 31}, {0, 23}, {0, 59}, {0, 59}, {0, 999}}

var yearCorners = []float64{-1.5, -1, -0.9999, -0.5, math.Copysign(0, -1), 0, 0.5, 1, 50, 69, 70, 98.5, 99, 99.5, 99.9999, 100, 100.5, 101, 1900, 1999}

var oddPrimitives = []string{"undefined", "null", "true", "false", `"12"`, `"-5"`, `" 7 "`, `""`, `"x"`, `"1e3"`}

// genComp draws one date component as JS source. role: 0 year … 6 milliseconds. big allows a value beyond ±1e6.
func genComp(t *rapid.T, role int, big bool) string {
	if big {
		sign := pick(t, "bsign", []float64{1, -1})
		if int(uniInt(t, "bigkind", int64(0), int64(9))) < 6 { // up to the magnitude at which this component alone spans the ES5 range
			span := [7]float64{3e5, 3.4e6, 1.01e8, 2.41e9, 1.45e11, 8.65e12, 8.65e15}[role]
			return harness.NumLit(sign * math.Floor(span*(float64(uniInt(t, "bfrac", 1, 1000000))/1e6)))
		}
		e := int(uniInt(t, "bexp", int64(7), int64(30)))
		return harness.NumLit(sign * math.Floor(math.Pow(10, float64(e))*(float64(uniInt(t, "bmant", 1000, 9990))/1000)))
	}
	k := int(uniInt(t, "ckind", int64(0), int64(99)))
	if role == 0 {
		switch {
		case k < 15:
			return harness.NumLit(float64(int(uniInt(t, "yy", int64(0), int64(99)))))
		case k < 27:
			return harness.NumLit(pick(t, "ycorner", yearCorners))
		case k < 37:
			return harness.NumLit(float64(pick(t, "byear", boundaryYears)))
		case k < 42: // fractional inside the two-digit window
			return harness.NumLit(float64(int(uniInt(t, "yyf", int64(-1), int64(100)))) + pick(t, "yfrac", fractions))
		}
		k = (k - 42) * 100 / 58 // spread the rest over the generic kinds below
	}
	tr := typicalRange[role]
	wide := int64(1000000)
	if role == 0 {
		wide = 290000 // the ES5 range is about ±275760 years
	}
	switch {
	case k < 40:
		return harness.NumLit(float64(int(uniInt(t, "typical", int64(tr[0]), int64(tr[1])))))
	case k < 58: // just outside the natural range, both sides
		if coin(t, "below") {
			return harness.NumLit(float64(tr[0] - int(uniInt(t, "under", int64(1), int64(60)))))
		}
		return harness.NumLit(float64(tr[1] + int(uniInt(t, "over", int64(1), int64(60)))))
	case k < 72:
		return harness.NumLit(float64(uniInt(t, "wide", -wide, wide)))
	case k < 86: // fractional
		if coin(t, "fsmall") {
			return harness.NumLit(float64(int(uniInt(t, "fbase", int64(-40), int64(70)))) + pick(t, "frac", fractions))
		}
		return harness.NumLit((float64(uniInt(t, "ffloat", -wide*1000, wide*1000)) / 1000))
	case k < 89:
		return pick(t, "special", []string{"NaN", "Infinity", "-Infinity", "-0", "-0", "0"})
	case k < 92:
		return pick(t, "odd", oddPrimitives)
	default:
		return harness.NumLit(float64(pick(t, "unit", []int{0, 1, -1, 12, 24, 60, 1000, 365, 366, 400, -400, 146097, -146097})))
	}
}

// genFieldArgs draws n components for roles[0..n-1]; at most one of them exceeds ±1e6
// (several very large components can cancel, and whether MakeDay "can find t" for an absurd year is
// not pinned down by 15.9.1.12, so that combination is kept out of the domain).
func genFieldArgs(t *rapid.T, roles []int, n int) []string {
	bigAt := -1
	if n > 0 && int(uniInt(t, "hasbig", int64(0), int64(99))) < 5 {
		bigAt = int(uniInt(t, "bigat", int64(0), int64(n-1)))
	}
	out := make([]string, n)
	for i := 0; i < n; i++ {
		role := 6
		if i < len(roles) {
			role = roles[i]
		}
		out[i] = genComp(t, role, i == bigAt)
	}
	return out
}

var allRoles = []int{0, 1, 2, 3, 4, 5, 6}

// genTZ draws the process-local zone of a case: UTC half of the time, else one of the fixed non-UTC offsets.
func genTZ(t *rapid.T) int {
	if coin(t, "utc") {
		return 0
	}
	return pick(t, "zone", zones)
}
