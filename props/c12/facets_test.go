package c12

import (
	"fmt"
	"math"
	"strings"
	"testing"

	"pgregory.net/rapid"

	"verif/lib/harness"
	"verif/lib/m12"
)

// ---- facet: accessors over time values -------------------------------------------------------------

type tvCase struct {
	TV string `json:"tv"`           // exact numeric literal
	TZ int    `json:"tz,omitempty"` // process-local zone, minutes east of UTC (0 = UTC)
}

func checkTV(c tvCase) harness.Outcome {
	v := parseLit(c.TV)
	t := m12.TimeClip(v)
	o := harness.Outcome{Nontrivial: !plainTime(t) || v != t || c.TZ != 0, Classes: []string{eraClass(t), zoneClass(c.TZ)}}
	switch {
	case math.IsNaN(v) || math.IsInf(v, 0):
		o.Classes = append(o.Classes, "arg:non-finite")
	case m12.ClippedByRange(v):
		o.Classes = append(o.Classes, "arg:out-of-range")
	case v != math.Trunc(v):
		o.Classes = append(o.Classes, "arg:non-integral")
	case math.Abs(v) == maxTV:
		o.Classes = append(o.Classes, "arg:limit")
	}
	if !math.IsNaN(t) {
		f := m12.Decompose(int64(t))
		if w := m12.TimeWithinDay(int64(t)); w == 0 || w == m12.MsPerDay-1 {
			o.Classes = append(o.Classes, "day-boundary")
			if f.Date == 1 && w == 0 || m12.DateFromTime(int64(t)+1) == 1 && w != 0 {
				o.Classes = append(o.Classes, "month-boundary")
				if f.Month == 0 && w == 0 || f.Month == 11 && w != 0 {
					o.Classes = append(o.Classes, "year-boundary")
				}
			}
		}
		if f.Month == 1 && f.Date == 29 {
			o.Classes = append(o.Classes, "leap-day")
		}
		if t < 0 && f.Ms != 0 {
			o.Classes = append(o.Classes, "negative-with-ms")
		}
	}
	if m12.ClippedByRange(v) && harness.Known(kTimeClip) {
		o.Excluded = []string{kTimeClip}
		return o
	}
	var got, bad string
	inZone(c.TZ, func() { got, bad = evalString("__snap(new Date(" + c.TV + "))") })
	if bad != "" {
		o.Fail = fmt.Sprintf("__snap(new Date(%s)): %s", c.TV, bad)
		return o
	}
	fail, ex := compareSnap(got, t, offMs(c.TZ))
	o.Excluded = ex
	if fail != "" {
		o.Fail = fmt.Sprintf("d = new Date(%s): %s", c.TV, fail)
	}
	return o
}

var tvFacet = harness.Register(&harness.Facet[tvCase]{
	Name:     "accessors",
	Rule:     "rapid: time value v for new Date(v) drawn uniformly in ±8.64e15 (25%), at day/month/year boundaries ±1..2 ms of 42 listed years incl. −271821, 0, 1582, 1900, 1970, 2038, 9999, 10000, 275760 (20%), Feb 28/29/Mar 1 of arbitrary years rounded to multiples of 4/100/400 (10%), ±8.64e15 ± {0,1,2,1000,1 day} (5%), non-integral (10%), NaN/±Inf/−0/huge (5%), ±2000 ms around the epoch (5%), uniform in 1970–2038 (20%); all 22 accessors/formatters (UTC and local, valueOf, getYear, getTimezoneOffset, toISOString, toJSON) plus Date.parse(toISOString()) and ToNumber are compared with 15.9.1.2–15.9.1.15 on TimeClip(v); non-trivial = the instant is outside 1970–2038, within 1 ms of a day boundary, invalid, or v is not already a time value; distinct by v Every case also draws the process-local zone (time.Local): UTC (50%) or a fixed offset of +05:30, −08:00, +12:45, −03:30, +01:00, −12:00, +14:00; UTC accessors, toISOString/toJSON, Date.UTC, setUTC*, setTime, Date.parse and getTime must not depend on it, local accessors/constructor/setters/getTimezoneOffset must equal the model with LocalTZA = offset (no DST); a non-UTC zone makes a case non-trivial.",
	Quick:    15000,
	Thorough: 100000,
	Gen:      func(t *rapid.T) tvCase { return tvCase{TV: harness.NumLit(genTV(t)), TZ: genTZ(t)} },
	Check:    checkTV,
})

func TestAccessors(t *testing.T) { tvFacet.Run(t) }

// Every first-of-month of every listed year, ±1 ms (finite enumeration; complements the random boundary draw).
var tvTable = harness.Register(&harness.Facet[tvCase]{
	Name:  "accessors-boundary-table",
	Rule:  "complete product: 42 listed years × 12 months × {first instant −1 ms, first instant, +1 ms} plus Feb 28/29 and the range limits ±8.64e15 ± {0,1}, each under time.Local = UTC, +05:30 and −08:00; same comparison as facet accessors; non-trivial by the same rule; distinct by v",
	Check: checkTV,
})

func TestAccessorsBoundaryTable(t *testing.T) {
	var cases []tvCase
	add := func(v float64) {
		for _, tz := range []int{0, 330, -480} {
			cases = append(cases, tvCase{TV: harness.NumLit(v), TZ: tz})
		}
	}
	for _, y := range boundaryYears {
		for m := 0; m < 12; m++ {
			base := m12.MakeDate(m12.MakeDay(float64(y), float64(m), 1), 0)
			add(base - 1)
			add(base)
			add(base + 1)
		}
		for _, d := range []float64{28, 29} {
			base := m12.MakeDate(m12.MakeDay(float64(y), 1, d), 0)
			add(base)
			add(base + m12.MsPerDay - 1)
		}
	}
	for _, v := range []float64{maxTV, maxTV + 1, maxTV - 1, -maxTV, -maxTV - 1, -maxTV + 1} {
		add(v)
	}
	harness.SetExhaustive(tvTable.Name)
	tvTable.Each(t, cases)
}

// ---- facet: Date.UTC and the 2–7 argument constructor -----------------------------------------------

type fieldsCase struct {
	Form string   `json:"form"` // "UTC" = Date.UTC(args), "new" = new Date(args)
	Args []string `json:"args"` // JS source of each argument
	TZ   int      `json:"tz,omitempty"`
}

// yearFractionClass: ToInteger(year) is in 0…99 but year itself is not in [0, 99].
func yearFractionClass(y float64) bool {
	return (y > -1 && y < 0) || (y > 99 && y < 100)
}

func compClasses(vals []float64, roles []int) []string {
	var cl []string
	seen := map[string]bool{}
	add := func(s string) {
		if !seen[s] {
			seen[s] = true
			cl = append(cl, s)
		}
	}
	for i, v := range vals {
		if i >= len(roles) {
			add("comp:extra-argument")
			continue
		}
		tr := typicalRange[roles[i]]
		switch {
		case math.IsNaN(v):
			add("comp:NaN")
		case math.IsInf(v, 0):
			add("comp:Inf")
		case math.Abs(v) > 1e6:
			add("comp:beyond-1e6")
		case v != math.Trunc(v):
			add("comp:fractional")
		case v == 0 && math.Signbit(v):
			add("comp:-0")
		case roles[i] == 0 && v >= 0 && v <= 99:
			add("comp:year-0..99")
		case roles[i] != 0 && v < float64(tr[0]):
			add("comp:below-range")
		case roles[i] != 0 && v > float64(tr[1]):
			add("comp:above-range")
		}
	}
	return cl
}

func plainComps(vals []float64, roles []int) bool {
	for i, v := range vals {
		if i >= len(roles) {
			return false
		}
		tr := typicalRange[roles[i]]
		if !(v == math.Trunc(v) && v >= float64(tr[0]) && v <= float64(tr[1])) || (v == 0 && math.Signbit(v)) {
			return false
		}
	}
	return true
}

// composeExcluded names the known finding (if any, and only while it is still present) whose class
// covers a composition with these components and this unclipped result.
func composeExcluded(p m12.Parts, vals []float64, roles []int) string {
	u := p.Unclipped()
	if harness.Known(kOverflow) {
		for i, v := range vals {
			if i < len(roles) && overflowRisk(roles[i], v) {
				return kOverflow
			}
		}
	}
	if m12.ClippedByRange(u) && harness.Known(kTimeClip) {
		return kTimeClip
	}
	if !p.Exact() && harness.Known(kIEEE) {
		return kIEEE // an intermediate exceeds 2^53: ES5 prescribes IEEE rounding there, otto computes exactly
	}
	return ""
}

func checkFields(c fieldsCase) harness.Outcome {
	vals := argVals(c.Args)
	fp := m12.FieldsParts(vals)
	if c.Form == "new" {
		fp.Shift = float64(offMs(c.TZ)) // 15.9.3.1 step 9: TimeClip(UTC(finalDate)); Date.UTC does not depend on the zone
	}
	t := m12.TimeClip(fp.Unclipped())
	o := harness.Outcome{Classes: append([]string{"form:" + c.Form, fmt.Sprintf("nargs:%d", len(c.Args)), eraClass(t), zoneClass(c.TZ)}, compClasses(vals, allRoles)...)}
	o.Nontrivial = !plainComps(vals, allRoles) || !plainTime(t) || c.TZ != 0
	for _, a := range c.Args {
		if !strings.ContainsAny(a[:1], "-0123456789NI") {
			o.Classes = append(o.Classes, "comp:non-number-primitive")
			break
		}
	}
	if len(vals) < 2 {
		o.Discard = "fewer than two arguments (implementation-defined / different algorithm)"
		return o
	}
	if ex := composeExcluded(fp, vals, allRoles); ex != "" {
		o.Excluded = []string{ex}
		return o
	}
	if yearFractionClass(vals[0]) && harness.Known(kYearFrac) {
		o.Excluded = []string{kYearFrac}
		return o
	}
	args := strings.Join(c.Args, ",")
	switch c.Form {
	case "UTC":
		var got, bad string
		inZone(c.TZ, func() { got, bad = evalString("__e(Date.UTC(" + args + "))") })
		if bad != "" {
			o.Fail = fmt.Sprintf("Date.UTC(%s): %s", args, bad)
		} else if got != num(t) {
			o.Fail = fmt.Sprintf("Date.UTC(%s) = %s, ES5 15.9.4.3 (MakeDay/MakeTime/MakeDate/TimeClip) gives %s", args, got, num(t))
		}
	case "new":
		var got, bad string
		inZone(c.TZ, func() { got, bad = evalString("__snap(new Date(" + args + "))") })
		if bad != "" {
			o.Fail = fmt.Sprintf("__snap(new Date(%s)): %s", args, bad)
			return o
		}
		fail, ex := compareSnap(got, t, offMs(c.TZ))
		o.Excluded = ex
		if fail != "" {
			o.Fail = fmt.Sprintf("d = new Date(%s) [LocalTZA=%d min]: %s (15.9.3.1)", args, c.TZ, fail)
		}
	default:
		o.Discard = "unknown form"
	}
	return o
}

var fieldsFacet = harness.Register(&harness.Facet[fieldsCase]{
	Name:     "fields",
	Rule:     "rapid: Date.UTC(...) or new Date(...) [time.Local = UTC] with 2–8 arguments; each component is typical for its position (35%), up to 60 outside its natural range on either side (20%), uniform in ±1e6 (15%), fractional (12%), NaN/±Inf/−0 (8%), undefined/null/booleans/numeric strings (5%), calendar units such as 146097 (5%); years additionally from 0…99, corners of the two-digit window (−0.5, 99.5, 99.9999, 100 …) and the listed boundary years; in 7% of tuples one component alone is beyond ±1e6 (up to the magnitude that spans the ES5 range by itself, or 1e7…1e31); result compared with TimeClip(MakeDate(MakeDay(yr,m,dt),MakeTime(h,min,s,ms))) — Date.UTC by value, the constructor through the full accessor snapshot; non-trivial = some component is outside its natural range, negative zero, fractional, non-finite or not a number, or the result is outside 1970–2038 / on a day boundary; distinct by (form, arguments) Every case also draws the process-local zone (time.Local): UTC (50%) or a fixed offset of +05:30, −08:00, +12:45, −03:30, +01:00, −12:00, +14:00; UTC accessors, toISOString/toJSON, Date.UTC, setUTC*, setTime, Date.parse and getTime must not depend on it, local accessors/constructor/setters/getTimezoneOffset must equal the model with LocalTZA = offset (no DST); a non-UTC zone makes a case non-trivial.",
	Quick:    15000,
	Thorough: 100000,
	Gen: func(t *rapid.T) fieldsCase {
		form := pick(t, "form", []string{"UTC", "UTC", "new"})
		n := pick(t, "nargs", []int{2, 2, 3, 3, 3, 4, 5, 6, 7, 7, 7, 8})
		return fieldsCase{Form: form, Args: genFieldArgs(t, allRoles, n), TZ: genTZ(t)}
	},
	Check: checkFields,
})

func TestFields(t *testing.T) { fieldsFacet.Run(t) }

// ---- facet: histories of setters ---------------------------------------------------------------------

type histOp struct {
	Name string   `json:"name"` // e.g. setUTCHours, setMonth, setTime, setYear
	Args []string `json:"args"`
}

type histCase struct {
	Init []string `json:"init"` // arguments of new Date(...): one time value literal, or 2–7 components
	Ops  []histOp `json:"ops"`
	TZ   int      `json:"tz,omitempty"`
}

func setterKey(name string) string {
	return strings.TrimPrefix(strings.TrimPrefix(name, "setUTC"), "set")
}

func checkHist(c histCase) harness.Outcome {
	o := harness.Outcome{Classes: []string{fmt.Sprintf("ops:%d", len(c.Ops)), zoneClass(c.TZ)}}
	off := offMs(c.TZ)
	// --- model
	var t float64
	initVals := argVals(c.Init)
	stop := len(c.Ops) // ops[stop:] are not executed (state diverged under a known finding)
	initExcluded := ""
	switch {
	case len(c.Init) == 1:
		t = m12.TimeClip(initVals[0])
		if m12.ClippedByRange(initVals[0]) && harness.Known(kTimeClip) {
			initExcluded = kTimeClip
		}
	case len(c.Init) >= 2:
		fp := m12.FieldsParts(initVals)
		fp.Shift = float64(off)
		t = m12.TimeClip(fp.Unclipped())
		initExcluded = composeExcluded(fp, initVals, allRoles)
		if initExcluded == "" && yearFractionClass(initVals[0]) && harness.Known(kYearFrac) {
			initExcluded = kYearFrac
		}
	default:
		o.Discard = "zero-argument constructor is the current time"
		return o
	}
	if initExcluded != "" {
		o.Excluded = []string{initExcluded}
		return o
	}
	if math.IsNaN(t) {
		o.Classes = append(o.Classes, "init:invalid")
	} else {
		o.Classes = append(o.Classes, "init:valid")
	}
	plain := plainTime(t)
	type step struct {
		want string
		call string
	}
	var steps []step
	for i, op := range c.Ops {
		key := setterKey(op.Name)
		max, ok := m12.SetterMaxArgs[key]
		if !ok || !strings.HasPrefix(op.Name, "set") {
			o.Discard = "unknown setter " + op.Name
			return o
		}
		vals := argVals(op.Args)
		used := vals
		if len(used) > max {
			used = used[:max]
		}
		wasNaN := math.IsNaN(t)
		// set<X> and setYear work on LocalTime(t) and store UTC(result); setUTC<X> and setTime work on t (15.9.5, B.2.5)
		local := key != "Time" && !strings.HasPrefix(op.Name, "setUTC")
		base := t
		if local && !math.IsNaN(t) {
			base = t + float64(off)
		}
		sp := m12.SetParts(key, base, used)
		if local {
			sp.Shift = float64(off)
		}
		u := sp.Unclipped()
		nt := m12.TimeClip(u)
		call := "d." + op.Name + "(" + strings.Join(op.Args, ",") + ")"
		o.Classes = append(o.Classes, "op:"+op.Name, fmt.Sprintf("%s/args:%d", key, len(op.Args)))
		if wasNaN {
			o.Classes = append(o.Classes, "on-invalid-date")
			if !math.IsNaN(nt) {
				o.Classes = append(o.Classes, "invalid-becomes-valid")
			}
		} else if math.IsNaN(nt) {
			o.Classes = append(o.Classes, "valid-becomes-invalid")
		}
		// known-finding classes: the step is not compared and the history stops there
		ex := ""
		if key == "Time" {
			if m12.ClippedByRange(u) && harness.Known(kTimeClip) {
				ex = kTimeClip
			} else if wasNaN && !math.IsNaN(nt) && harness.Known(kSetTimeNaN) {
				ex = kSetTimeNaN
			}
		} else {
			ex = composeExcluded(sp, used, setterRoles[key])
			if ex == "" && wasNaN && !math.IsNaN(nt) && (key == "FullYear" || key == "Year") && harness.Known(kFullYear) {
				ex = kFullYear
			}
		}
		if ex != "" {
			o.Excluded = append(o.Excluded, ex)
			stop = i
			break
		}
		if key == "Time" {
			plain = plain && len(vals) == 1 && vals[0] == nt
		} else {
			plain = plain && plainComps(used, setterRoles[key]) && len(vals) <= max
		}
		plain = plain && plainTime(nt)
		t = nt
		steps = append(steps, step{want: num(t) + "," + num(t), call: call})
	}
	o.Nontrivial = !plain || c.TZ != 0
	o.Classes = append(o.Classes, "final:"+eraClass(t))
	// --- otto
	var b strings.Builder
	b.WriteString("(function(){var d=new Date(" + strings.Join(c.Init, ",") + "),r=[],v;")
	for _, s := range steps {
		b.WriteString("try{v=" + s.call + ";r.push(__e(v)+\",\"+__e(d.getTime()))}catch(x){r.push(\"throws:\"+(x&&x.name))}")
	}
	b.WriteString("r.push(__snap(d));return r.join(\";\")})()")
	var got, bad string
	inZone(c.TZ, func() { got, bad = evalString(b.String()) })
	if bad != "" {
		o.Fail = fmt.Sprintf("%s: %s", b.String(), bad)
		return o
	}
	parts := strings.Split(got, ";")
	if len(parts) != len(steps)+1 {
		o.Fail = fmt.Sprintf("history returned %d entries, want %d: %q", len(parts), len(steps)+1, got)
		return o
	}
	desc := fmt.Sprintf("[LocalTZA=%d min] d = new Date(%s)", c.TZ, strings.Join(c.Init, ","))
	for i, s := range steps {
		desc += "; " + s.call
		if parts[i] != s.want {
			o.Fail = fmt.Sprintf("%s: step %d returned,getTime() = %s; ES5 15.9.5.27-41 (MakeTime/MakeDay/MakeDate/TimeClip on the current time value) gives %s", desc, i+1, parts[i], s.want)
			return o
		}
	}
	fail, ex := compareSnap(parts[len(steps)], t, off)
	o.Excluded = append(o.Excluded, ex...)
	if fail != "" {
		o.Fail = desc + ": afterwards " + fail
	}
	_ = stop
	return o
}

var utcSetters = []string{"Milliseconds", "Seconds", "Minutes", "Hours", "Date", "Month", "FullYear"}

func genOp(t *rapid.T) histOp {
	k := int(uniInt(t, "opkind", int64(0), int64(99)))
	switch {
	case k < 8:
		n := pick(t, "nargs", []int{1, 1, 1, 1, 1, 0, 2})
		args := make([]string, n)
		for i := range args {
			args[i] = harness.NumLit(genTV(t))
		}
		return histOp{Name: "setTime", Args: args}
	case k < 12:
		n := pick(t, "nargs", []int{1, 1, 1, 0, 2})
		return histOp{Name: "setYear", Args: genFieldArgs(t, []int{0}, n)}
	}
	key := pick(t, "setter", utcSetters)
	prefix := "setUTC"
	if k >= 70 {
		prefix = "set"
	}
	max := m12.SetterMaxArgs[key]
	// 1..max arguments mostly; sometimes none, sometimes one too many
	n := int(uniInt(t, "nargs", int64(1), int64(max)))
	switch int(uniInt(t, "nmod", int64(0), int64(19))) {
	case 0:
		n = 0
	case 1:
		n = max + 1
	}
	return histOp{Name: prefix + key, Args: genFieldArgs(t, setterRoles[key], n)}
}

var histFacet = harness.Register(&harness.Facet[histCase]{
	Name:     "setter-histories",
	Rule:     "rapid: a date created from a time value of the accessor pool (60%), NaN (15%) or 2–7 components (25%), then 1–4 calls of setUTC{Milliseconds,Seconds,Minutes,Hours,Date,Month,FullYear} (58%), their local-time twins [time.Local = UTC] (30%), setTime (8%), setYear (4%) with 0…max+1 arguments from the component pool of facet fields; after every call the return value and getTime() are compared with the 15.9.5.27–41 / B.2.5 algorithm applied to the model's current time value (argument defaults from the current value, NaN propagation, setFullYear on an invalid date starts from +0, TimeClip), and the full accessor snapshot after the last call; non-trivial = some instant of the history is invalid, outside 1970–2038 or on a day boundary, or some argument is outside its natural range / fractional / non-finite / surplus; distinct by the whole history Every case also draws the process-local zone (time.Local): UTC (50%) or a fixed offset of +05:30, −08:00, +12:45, −03:30, +01:00, −12:00, +14:00; UTC accessors, toISOString/toJSON, Date.UTC, setUTC*, setTime, Date.parse and getTime must not depend on it, local accessors/constructor/setters/getTimezoneOffset must equal the model with LocalTZA = offset (no DST); a non-UTC zone makes a case non-trivial.",
	Quick:    15000,
	Thorough: 100000,
	Gen: func(t *rapid.T) histCase {
		c := histCase{TZ: genTZ(t)}
		switch k := int(uniInt(t, "initkind", int64(0), int64(19))); {
		case k < 13:
			c.Init = []string{harness.NumLit(genTV(t))}
		case k < 15:
			c.Init = []string{"NaN"}
		default:
			c.Init = genFieldArgs(t, allRoles, int(uniInt(t, "ninit", int64(2), int64(7))))
		}
		n := int(uniInt(t, "nops", int64(1), int64(4)))
		for i := 0; i < n; i++ {
			c.Ops = append(c.Ops, genOp(t))
		}
		return c
	},
	Check: checkHist,
})

func TestSetterHistories(t *testing.T) { histFacet.Run(t) }

// ---- facet: Date.parse / new Date(string) on the 15.9.1.15 format -------------------------------------

type isoCase struct {
	S  string `json:"s"`
	TZ int    `json:"tz,omitempty"`
}

func checkISO(c isoCase) harness.Outcome {
	o := harness.Outcome{}
	want, ok := m12.ParseISO(c.S)
	if !ok || math.IsNaN(want) {
		o.Discard = "not a legal in-range 15.9.1.15 string (only legal ones are in the domain)"
		return o
	}
	expanded := c.S[0] == '+' || c.S[0] == '-'
	hour24 := strings.Contains(c.S, "T24:")
	hasTime := strings.Contains(c.S, "T")
	full := len(c.S) == 24 && strings.HasSuffix(c.S, "Z") && !expanded
	o.Nontrivial = !full || !plainTime(want) || c.TZ != 0
	o.Classes = []string{eraClass(want), zoneClass(c.TZ)}
	add := func(b bool, s string) {
		if b {
			o.Classes = append(o.Classes, s)
		}
	}
	add(expanded, "expanded-year")
	add(hour24, "hour-24")
	add(!hasTime, "date-only")
	add(hasTime && strings.HasSuffix(c.S, "Z"), "zone:Z")
	add(hasTime && !strings.HasSuffix(c.S, "Z"), "zone:offset")
	add(full, "full-form")
	add(strings.Contains(c.S, "."), "with-ms")
	if expanded && harness.Known(kIsoYear) {
		o.Excluded = []string{kIsoYear}
		return o
	}
	if hour24 && harness.Known(kHour24) {
		o.Excluded = []string{kHour24}
		return o
	}
	lit := harness.JSString(c.S)
	var got, bad string
	inZone(c.TZ, func() {
		got, bad = evalString("__e(Date.parse(" + lit + "))+\"|\"+__e(new Date(" + lit + ").getTime())")
	})
	if bad != "" {
		o.Fail = fmt.Sprintf("Date.parse(%s): %s", lit, bad)
		return o
	}
	if w := num(want) + "|" + num(want); got != w {
		o.Fail = fmt.Sprintf("Date.parse(%s) | new Date(%s).getTime() = %s, the 15.9.1.15 format denotes %s", lit, lit, got, w)
	}
	return o
}

var daysInMonth = [12]int64{31, 28, 31, 30, 31, 30, 31, 31, 30, 31, 30, 31}

var isoFacet = harness.Register(&harness.Facet[isoCase]{
	Name:     "iso-parse",
	Rule:     "rapid: a legal instance of the 15.9.1.15 format — year as YYYY (uniform 0…9999 or a listed boundary year) or expanded ±YYYYYY (20%, −271820…275759), optionally -MM and -DD (existing calendar days only), optionally THH:mm, THH:mm:ss or THH:mm:ss.sss with Z or a ±HH:mm offset (always explicit), 24:00:00 as end of day (4%); Date.parse(s) and new Date(s).getTime() are compared with the denoted time value; non-trivial = not the full toISOString layout, or outside 1970–2038 / on a day boundary; distinct by the string. (Strings without a zone designator after a time, illegal element values and non-ISO strings are implementation-defined or disputed and never generated.) Every case also draws the process-local zone (time.Local): UTC (50%) or a fixed offset of +05:30, −08:00, +12:45, −03:30, +01:00, −12:00, +14:00; UTC accessors, toISOString/toJSON, Date.UTC, setUTC*, setTime, Date.parse and getTime must not depend on it, local accessors/constructor/setters/getTimezoneOffset must equal the model with LocalTZA = offset (no DST); a non-UTC zone makes a case non-trivial.",
	Quick:    6000,
	Thorough: 30000,
	Gen: func(t *rapid.T) isoCase {
		var y int64
		expanded := uni(t, "expanded", 5) == 0
		switch {
		case expanded && coin(t, "far"):
			y = uniInt(t, "eyear", -271820, 275759)
		case coin(t, "byear"):
			y = pick(t, "year", []int64{0, 1, 4, 99, 100, 400, 1582, 1600, 1900, 1969, 1970, 1972, 2000, 2038, 2100, 9999})
		default:
			y = uniInt(t, "year", 0, 9999)
		}
		s := m12.ISOYear(y)
		if expanded && y >= 0 && y <= 9999 {
			s = fmt.Sprintf("+%06d", y)
		}
		depth := uni(t, "depth", 10) // 0: year, 1: year-month, else full date
		if depth >= 1 {
			m := uniInt(t, "month", 1, 12)
			s += fmt.Sprintf("-%02d", m)
			if depth >= 2 {
				dim := daysInMonth[m-1]
				if m == 2 && m12.DaysInYear(y) == 366 {
					dim = 29
				}
				d := uniInt(t, "day", 1, dim)
				if uni(t, "lastday", 4) == 0 {
					d = dim
				}
				s += fmt.Sprintf("-%02d", d)
			}
		}
		if uni(t, "hastime", 10) < 7 {
			h, mi, sec, ms := uniInt(t, "h", 0, 23), uniInt(t, "mi", 0, 59), uniInt(t, "s", 0, 59), uniInt(t, "ms", 0, 999)
			if uni(t, "edge", 5) == 0 {
				h, mi, sec, ms = pick(t, "eh", []int64{0, 23, 12}), pick(t, "em", []int64{0, 59}), pick(t, "es", []int64{0, 59}), pick(t, "ems", []int64{0, 999})
			}
			if uni(t, "h24", 25) == 0 {
				h, mi, sec, ms = 24, 0, 0, 0
			}
			s += fmt.Sprintf("T%02d:%02d", h, mi)
			if prec := uni(t, "prec", 4); prec >= 1 {
				s += fmt.Sprintf(":%02d", sec)
				if prec >= 2 {
					s += fmt.Sprintf(".%03d", ms)
				}
			}
			if coin(t, "z") {
				s += "Z"
			} else {
				oh, om := uniInt(t, "oh", 0, 23), pick(t, "om", []int64{0, 0, 30, 45, 59, 1})
				if uni(t, "ozero", 6) == 0 {
					oh, om = 0, 0
				}
				s += fmt.Sprintf("%s%02d:%02d", pick(t, "osign", []string{"+", "-"}), oh, om)
			}
		}
		return isoCase{S: s, TZ: genTZ(t)}
	},
	Check: checkISO,
})

func TestISOParse(t *testing.T) { isoFacet.Run(t) }
