// Package c12 decides property C12: Date arithmetic is the ES5 proleptic-Gregorian time-value
// algebra (ES5.1 15.9.1.2 – 15.9.1.15, 15.9.3.1, 15.9.4.2/3, 15.9.5). The oracle is the model in
// verif/lib/m12 (spec formulas, integer arithmetic, no Go time package).
package c12

import (
	"fmt"
	"math"
	"strconv"
	"strings"
	"testing"
	"time"

	"github.com/robertkrimen/otto"

	"verif/lib/es5"
	"verif/lib/harness"
	"verif/lib/m12"
)

func TestMain(m *testing.M) {
	// LocalTZA = 0, no daylight saving: otto's local-time constructor, accessors and setters go
	// through time.Local, so they can be checked against the same model as the UTC ones.
	time.Local = time.UTC
	harness.Main(m, "C12")
}

// Known finding ids (props/c12/FINDINGS.txt).
const (
	kTimeClip   = "C12-TIMECLIP"
	kIsoYear    = "C12-ISO-EXPANDED-YEAR"
	kIsoInvalid = "C12-ISO-INVALID-NO-RANGEERROR"
	kFullYear   = "C12-SETFULLYEAR-ON-NAN"
	kYearFrac   = "C12-TWO-DIGIT-YEAR-FRACTION"
	kOverflow   = "C12-FIELD-OVERFLOW"
	kHour24     = "C12-PARSE-HOUR24"
	kSetTimeNaN = "C12-SETTIME-ON-NAN"
	kIEEE       = "C12-EXACT-NOT-IEEE"
)

// ---- otto access -------------------------------------------------------------------------------

var (
	vm     *otto.Otto
	vmUses int
)

// snapNames is the order of the accessor snapshot.
var snapNames = []string{"getTime", "valueOf",
	"getUTCFullYear", "getUTCMonth", "getUTCDate", "getUTCDay", "getUTCHours", "getUTCMinutes", "getUTCSeconds", "getUTCMilliseconds",
	"getFullYear", "getMonth", "getDate", "getDay", "getHours", "getMinutes", "getSeconds", "getMilliseconds",
	"getYear", "getTimezoneOffset", "toISOString", "toJSON"}

// two more entries follow the method calls: Date.parse(d.toISOString()) and +d.
const (
	ixISO       = 20
	ixJSON      = 21
	ixRoundTrip = 22
	ixToNumber  = 23
)

var prelude = `var __N=["` + strings.Join(snapNames, `","`) + `"];
function __e(v){var t=typeof v;if(t==="number")return String(v);if(t==="string")return "s:"+v;if(v===null)return "null";return t}
function __snap(d){var r=[],i;
 for(i=0;i<__N.length;i++){try{r.push(__e(d[__N[i]]()))}catch(x){r.push("throws:"+(x&&x.name))}}
 try{r.push(__e(Date.parse(d.toISOString())))}catch(x){r.push("throws:"+(x&&x.name))}
 try{r.push(__e(+d))}catch(x){r.push("throws:"+(x&&x.name))}
 return r.join("|")}`

func getVM() *otto.Otto {
	if vm == nil || vmUses > 3000 {
		vm = otto.New()
		if _, err := vm.Run(prelude); err != nil {
			panic(err)
		}
		vmUses = 0
	}
	vmUses++
	return vm
}

// evalString runs js and returns its string value, or a description of what went wrong.
func evalString(js string) (string, string) {
	r := harness.Run(getVM(), js)
	if r.Panicked {
		vm = nil
		return "", "panic:" + fmt.Sprint(r.Panic)
	}
	if r.Err != nil {
		return "", "throws:" + harness.ErrName(r.Err)
	}
	if !r.Value.IsString() {
		return "", "not a string: " + harness.Repr(r.Value)
	}
	s, _ := r.Value.ToString()
	return s, ""
}

// ---- local time zone ---------------------------------------------------------------------------

// zones are the non-UTC offsets (minutes east of Greenwich) a case may run under. Fixed offsets: no
// daylight saving, so LocalTZA is constant and DaylightSavingTA is 0 (15.9.1.7–15.9.1.9).
var zones = []int{330, -480, 765, -210, 60, -720, 840}

// inZone runs fn with the process-local zone set to UTC+tzMin minutes and restores UTC afterwards.
// otto reads time.Local at every local-time operation; tests of the package run sequentially.
func inZone(tzMin int, fn func()) {
	if tzMin != 0 {
		time.Local = time.FixedZone(fmt.Sprintf("TZ%+d", tzMin), tzMin*60)
		defer func() { time.Local = time.UTC }()
	}
	fn()
}

func offMs(tzMin int) int64 { return int64(tzMin) * m12.MsPerMinute }

func zoneClass(tzMin int) string {
	if tzMin == 0 {
		return "zone:UTC"
	}
	return fmt.Sprintf("zone:%+d", tzMin)
}

// ---- values ------------------------------------------------------------------------------------

func parseLit(l string) float64 {
	switch l {
	case "NaN":
		return math.NaN()
	case "Infinity":
		return math.Inf(1)
	case "-Infinity":
		return math.Inf(-1)
	case "-0":
		return math.Copysign(0, -1)
	}
	f, err := strconv.ParseFloat(l, 64)
	if err != nil {
		panic("c12: bad numeric literal " + l)
	}
	return f
}

// argVal is ToNumber of an argument written as JS source: a numeric literal (harness.NumLit
// forms), undefined/null/true/false, or a double-quoted ASCII string literal without escapes.
func argVal(src string) float64 {
	switch src {
	case "undefined":
		return math.NaN()
	case "null", "false":
		return 0
	case "true":
		return 1
	}
	if strings.HasPrefix(src, `"`) {
		return es5.StringToNumber(harness.UTF16(src[1 : len(src)-1]))
	}
	return parseLit(src)
}

func argVals(src []string) []float64 {
	out := make([]float64, len(src))
	for i, s := range src {
		out[i] = argVal(s)
	}
	return out
}

// num renders a model number the way __e renders a JS number: String(v) for the values that can
// occur (NaN or an integer below 2^53); −0 prints as 0.
func num(x float64) string {
	if math.IsNaN(x) {
		return "NaN"
	}
	if x == 0 {
		return "0"
	}
	return strconv.FormatFloat(x, 'f', -1, 64)
}

// expectedSnap is what __snap must return for a date whose time value is t (NaN = invalid).
// off is LocalTZA in ms (the zone the case runs under; no daylight saving): the local accessors are
// the model applied to LocalTime(t) = t + off, getTimezoneOffset is (t − LocalTime(t)) / msPerMinute.
func expectedSnap(t float64, off int64) []string {
	out := make([]string, 0, len(snapNames)+2)
	if math.IsNaN(t) {
		for range snapNames[:ixISO] {
			out = append(out, "NaN")
		}
		// 15.9.5.43: RangeError when the time value is not finite; 15.9.5.44: toJSON gives null.
		return append(out, "throws:RangeError", "null", "throws:RangeError", "NaN")
	}
	ti := int64(t)
	f := m12.Decompose(ti)
	l := m12.Decompose(ti + off)
	iso := m12.ToISOString(ti)
	n := func(v int64) string { return strconv.FormatInt(v, 10) }
	out = append(out, n(ti), n(ti),
		n(f.Year), n(f.Month), n(f.Date), n(f.WeekDay), n(f.Hours), n(f.Minutes), n(f.Seconds), n(f.Ms),
		n(l.Year), n(l.Month), n(l.Date), n(l.WeekDay), n(l.Hours), n(l.Minutes), n(l.Seconds), n(l.Ms),
		n(l.Year-1900), n(-off/m12.MsPerMinute), "s:"+iso, "s:"+iso, n(ti), n(ti))
	return out
}

func snapLabel(i int) string {
	switch i {
	case ixRoundTrip:
		return "Date.parse(d.toISOString())"
	case ixToNumber:
		return "+d"
	}
	return "d." + snapNames[i] + "()"
}

// compareSnap compares a __snap result with the model; excluded lists the known-finding classes
// under which individual entries were skipped.
func compareSnap(got string, t float64, off int64) (fail string, excluded []string) {
	want := expectedSnap(t, off)
	parts := strings.Split(got, "|")
	if len(parts) != len(want) {
		return fmt.Sprintf("snapshot has %d entries, want %d: %q", len(parts), len(want), got), nil
	}
	skip := map[int]string{}
	if math.IsNaN(t) {
		if harness.Known(kIsoInvalid) {
			// otto returns the text "Invalid Date" (and Date.parse of it is NaN): compare modulo exactly that
			want[ixISO], want[ixRoundTrip] = "s:Invalid Date", "NaN"
			excluded = append(excluded, kIsoInvalid)
		}
	} else if y := m12.YearFromTime(int64(t)); (y < 0 || y > 9999) && harness.Known(kIsoYear) {
		skip[ixISO], skip[ixJSON], skip[ixRoundTrip] = kIsoYear, kIsoYear, kIsoYear
		excluded = append(excluded, kIsoYear)
	}
	for i := range want {
		if skip[i] != "" {
			continue
		}
		if parts[i] != want[i] {
			return fmt.Sprintf("%s = %s, ES5 15.9.1/15.9.5 give %s (time value %s, LocalTZA %d min)", snapLabel(i), parts[i], want[i], num(t), off/m12.MsPerMinute), excluded
		}
	}
	return "", excluded
}

// ---- classes shared by the facets ----------------------------------------------------------------

func eraClass(t float64) string {
	if math.IsNaN(t) {
		return "tv:invalid"
	}
	switch y := m12.YearFromTime(int64(t)); {
	case y < 0:
		return "year<0"
	case y < 100:
		return "year:0..99"
	case y < 1970:
		return "year:100..1969"
	case y <= 2038:
		return "year:1970..2038"
	case y <= 9999:
		return "year:2039..9999"
	default:
		return "year>9999"
	}
}

// plainTime: an instant inside 1970–2038 that is not within 1 ms of a day boundary.
func plainTime(t float64) bool {
	if math.IsNaN(t) {
		return false
	}
	if y := m12.YearFromTime(int64(t)); y < 1970 || y > 2038 {
		return false
	}
	w := m12.TimeWithinDay(int64(t))
	return w > 1 && w < m12.MsPerDay-2
}

// Per-component magnitudes beyond which otto's conversion to Go ints / nanoseconds and Go's
// time.Date arithmetic can wrap (finding C12-FIELD-OVERFLOW). role: 0 year, 1 month, 2 date,
// 3 hours, 4 minutes, 5 seconds, 6 milliseconds.
var overflowBound = [7]float64{2e8, 2e9, 1e11, 2e12, 1e14, 9e15, 9.2e12}

func overflowRisk(role int, x float64) bool {
	return !math.IsNaN(x) && !math.IsInf(x, 0) && math.Abs(x) >= overflowBound[role]
}

// setter argument roles
var setterRoles = map[string][]int{
	"Milliseconds": {6}, "Seconds": {5, 6}, "Minutes": {4, 5, 6}, "Hours": {3, 4, 5, 6},
	"Date": {2}, "Month": {1, 2}, "FullYear": {0, 1, 2}, "Year": {0},
}
