// Package c03 decides property C03: the parser builds the tree the ES5 grammar dictates.
//
// Oracle: round trip. A syntax tree T is drawn from the generator of lib/minijs (or enumerated),
// rendered to text three ways (minimal parentheses / redundant parentheses and trailing commas /
// random white space, comments, line terminators and automatic semicolon insertion), each text is
// parsed by parser.ParseFile, otto's ast is mapped back to a minijs tree (lib/m03) and compared
// node by node with T. Literal values are compared with independently computed ones (math/big
// for numbers, an own decoder for string escapes).
package c03

import (
	"fmt"
	"strings"
	"testing"

	"github.com/robertkrimen/otto/ast"
	"github.com/robertkrimen/otto/parser"
	"pgregory.net/rapid"

	"verif/lib/harness"
	"verif/lib/m03"
	"verif/lib/minijs"
)

func TestMain(m *testing.M) { harness.Main(m, "C03") }

// treeCase is one generated program with the decoration and trivia streams of its renderings.
type treeCase struct {
	Prog   *minijs.Node `json:"prog"`
	Decor  []byte       `json:"decor"`
	Trivia []byte       `json:"trivia"`
	// ASI (enumerations only): instead of the random trivia rendering, every statement terminator
	// that 7.9.1 lets go is dropped and, where a line terminator is needed, replaced by this text.
	ASI string `json:"asi,omitempty"`
}

func parse(src string) (prog *ast.Program, err error, panicked interface{}) {
	defer func() {
		if p := recover(); p != nil {
			panicked = p
		}
	}()
	prog, err = parser.ParseFile(nil, "", src, 0)
	return
}

// roundTrip parses text and compares the result with want; "" = equal.
func roundTrip(want *minijs.Node, text string, o minijs.DumpOpts) (got *minijs.Node, fail string) {
	prog, err, pan := parse(text)
	if pan != nil {
		return nil, fmt.Sprintf("parser panicked on a valid program: %v", pan)
	}
	if err != nil {
		return nil, fmt.Sprintf("valid ES5 program rejected: %v", err)
	}
	got, cerr := m03.FromOtto(prog)
	if cerr != nil {
		return nil, fmt.Sprintf("accepted, but the tree is malformed: %v", cerr)
	}
	if d := minijs.Diff(want, got, o); d != "" {
		return got, "tree differs from the one the text was rendered from, " + d
	}
	return got, ""
}

func show(s string) string {
	if len(s) > 400 {
		s = s[:400] + "…"
	}
	return harness.Quote(s)
}

func checkTree(c treeCase) harness.Outcome {
	if c.Prog == nil {
		return harness.Outcome{Discard: "empty case"}
	}
	an := analyse(c.Prog)
	o := harness.Outcome{Nontrivial: an.nontrivial, Classes: an.classes}
	opts, excluded, skip := exclusions(an)
	o.Excluded = excluded

	_, minimal := minijs.Render(c.Prog, nil, minijs.LayoutOpts{})
	_, decorated := minijs.Render(c.Prog, c.Decor, minijs.LayoutOpts{})
	steer, steerIDs := steering()
	steer.Trivia = c.Trivia
	if c.ASI != "" {
		steer.Trivia = nil
		steer.ForceASI = c.ASI
		if steer.NoCommentLT && strings.HasPrefix(c.ASI, "/*") {
			steer.ForceASI = "\n"
			o.Excluded = append(o.Excluded, "C03-ASI-COMMENT-LT")
		}
	}
	ttoks, trivia := minijs.Render(c.Prog, nil, steer)
	if len(steerIDs) > 0 && c.ASI == "" {
		// count what the layout was steered around: the unsteered text differs
		if _, raw := minijs.Render(c.Prog, nil, minijs.LayoutOpts{Trivia: c.Trivia}); raw != trivia {
			o.Excluded = append(o.Excluded, steeredAround(c, raw)...)
		}
	}
	o.Classes = append(o.Classes, triviaClasses(ttoks)...)
	if len(minijs.Syntactic(ttoks)) >= 2 {
		o.Nontrivial = o.Nontrivial || hasClassPrefix(o.Classes, "asi:") || hasClassPrefix(o.Classes, "restricted-gap")
	}
	type variant struct{ name, text string }
	vs := []variant{{"minimal", minimal}, {"extra-parens", decorated}, {"trivia", trivia}}
	if skip {
		// a known finding makes otto reject this program or build a differently shaped tree: only
		// "does not panic" is checked; the class is counted in Excluded
		for _, v := range vs {
			if _, _, pan := parse(v.text); pan != nil {
				o.Fail = fmt.Sprintf("[%s] parser panicked: %v; text=%s", v.name, pan, show(v.text))
				return o
			}
		}
		return o
	}
	var first *minijs.Node
	for _, v := range vs {
		got, fail := roundTrip(c.Prog, v.text, opts)
		if fail != "" {
			o.Fail = fmt.Sprintf("[%s] %s; text=%s", v.name, fail, show(v.text))
			return o
		}
		// metamorphic: the renderings of one tree must parse to identical trees (observed against
		// observed, nothing distorted; spellings differ by construction only in trivia)
		if first == nil {
			first = got
		} else if d := minijs.Diff(first, got, minijs.DumpOpts{Decls: true, Spelling: true}); d != "" {
			o.Fail = fmt.Sprintf("[%s vs minimal] two renderings of one tree parse differently, %s; text=%s", v.name, d, show(v.text))
			return o
		}
	}
	return o
}

func hasClassPrefix(cls []string, p string) bool {
	for _, c := range cls {
		if strings.HasPrefix(c, p) {
			return true
		}
	}
	return false
}

var treeFacet = harness.Register(&harness.Facet[treeCase]{
	Name:  "roundtrip",
	Rule:  "rapid: minijs.GenProgram (full ES5 grammar, depth<=6: all operators, member/call/new chains, object literals with every key form and accessors, arrays with elisions, regexps, numbers in every lexical form, strings as UTF-16 units with an escape form per unit, every statement incl. labels/restricted productions/for-NoIn) + decoration and trivia byte streams; three renderings each parsed and compared node by node with the generating tree and with each other; non-trivial = >=2 nested operators of different precedence, or an ASI/restricted/regexp-vs-division/NoIn site, or a literal with an escape or non-decimal form; distinct by JSON of the case",
	Quick: 3000, Thorough: 40000,
	Gen: func(t *rapid.T) treeCase {
		c := treeCase{Prog: minijs.GenProgram(t, minijs.GenCfg{UnicodeIdent: true})}
		c.Decor = rapid.SliceOfN(rapid.Byte(), 1, 24).Draw(t, "decor")
		c.Trivia = rapid.SliceOfN(rapid.Byte(), 1, 48).Draw(t, "trivia")
		return c
	},
	Check: checkTree,
})

func TestRoundTrip(t *testing.T) { treeFacet.Run(t) }

func m03FromOtto(p *ast.Program) (*minijs.Node, error) { return m03.FromOtto(p) }

// ---- facet: literals -------------------------------------------------------------------------
// Same oracle, generator concentrated on literal tokens: one statement holding an array of
// number / string / regexp literals and an object literal with literal keys.

var literalFacet = harness.Register(&harness.Facet[treeCase]{
	Name:  "literals",
	Rule:  "rapid: one program `[lit,...]; ({key:lit,...})` with 4-8 literals drawn from minijs' literal generators (numbers: pool of boundary spellings + random decimal/fraction/exponent/hex/legacy-octal forms with <=20 significant digits; strings: 0-6 UTF-16 units from four alphabets each with a random escape form, surrogate pairs raw or escaped, lone surrogates, line continuations with each line terminator; regexps from a pool of lexically awkward bodies) and numeric/string/identifier keys; values compared with the math/big and own-decoder models; non-trivial = some literal is not a plain decimal integer / raw ASCII string; distinct by JSON of the case",
	Quick: 4000, Thorough: 60000,
	Gen: func(t *rapid.T) treeCase {
		cfg := minijs.GenCfg{}
		arr := &minijs.Node{K: "arr"}
		for i, n := 0, rapid.IntRange(2, 6).Draw(t, "n"); i < n; i++ {
			arr.Kids = append(arr.Kids, minijs.GenLiteral(t, cfg))
		}
		obj := &minijs.Node{K: "obj"}
		for i, n := 0, rapid.IntRange(0, 3).Draw(t, "k"); i < n; i++ {
			obj.Kids = append(obj.Kids, &minijs.Node{K: "prop", Op: "init", Kids: []*minijs.Node{minijs.GenKey(t, cfg), minijs.GenLiteral(t, cfg)}})
		}
		c := treeCase{Prog: minijs.Program(minijs.ExprStmt(arr), minijs.ExprStmt(obj))}
		c.Decor = rapid.SliceOfN(rapid.Byte(), 1, 8).Draw(t, "decor")
		c.Trivia = rapid.SliceOfN(rapid.Byte(), 1, 16).Draw(t, "trivia")
		return c
	},
	Check: checkTree,
})

func TestLiterals(t *testing.T) { literalFacet.Run(t) }
