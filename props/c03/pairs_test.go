package c03

import (
	"testing"

	"verif/lib/harness"
	"verif/lib/minijs"
)

// Exhaustive facet: every ordered pair of adjacent operators, at every nesting the grammar
// allows, enumerated rather than sampled. Each tree goes through the same check as the random
// facet (three renderings, node-by-node comparison).

func ida() *minijs.Node { return minijs.Id("a") }
func idb() *minijs.Node { return minijs.Id("b") }
func idc() *minijs.Node { return minijs.Id("c") }

func isUpdate(op string) bool { return op == "++" || op == "--" }

func isTarget(n *minijs.Node) bool { return n.K == "id" || n.K == "dot" || n.K == "idx" }

func operatorPairTrees() []*minijs.Node {
	var out []*minijs.Node
	add := func(e *minijs.Node) { out = append(out, minijs.Program(minijs.ExprStmt(e))) }
	bins, assigns, unaries := minijs.BinaryOps, minijs.AssignOps, minijs.UnaryOps
	un := func(op string, x *minijs.Node) *minijs.Node {
		if isUpdate(op) && !isTarget(x) {
			return nil
		}
		return minijs.Unary(op, x)
	}
	addIf := func(e *minijs.Node) {
		if e != nil {
			add(e)
		}
	}
	// binary x binary, both nestings
	for _, p := range bins {
		for _, q := range bins {
			add(minijs.Bin(q, minijs.Bin(p, ida(), idb()), idc()))
			add(minijs.Bin(p, ida(), minijs.Bin(q, idb(), idc())))
		}
	}
	// triple chains of one level (associativity over three operators)
	for _, lvl := range minijs.BinaryLevels {
		for _, p := range lvl {
			for _, q := range lvl {
				for _, r := range lvl {
					add(minijs.Bin(r, minijs.Bin(q, minijs.Bin(p, ida(), idb()), idc()), minijs.Id("x")))
				}
			}
		}
	}
	for _, b := range bins {
		// prefix x binary
		for _, u := range unaries {
			addIf(un(u, minijs.Bin(b, ida(), idb())))
			if x := un(u, ida()); x != nil {
				add(minijs.Bin(b, x, idb()))
			}
			if x := un(u, idb()); x != nil {
				add(minijs.Bin(b, ida(), x))
			}
		}
		// postfix x binary
		for _, u := range []string{"++", "--"} {
			add(minijs.Bin(b, minijs.Postfix(u, ida()), idb()))
			add(minijs.Bin(b, ida(), minijs.Postfix(u, idb())))
		}
		// assignment x binary
		for _, as := range assigns {
			add(minijs.Assign(as, ida(), minijs.Bin(b, idb(), idc())))
			add(minijs.Bin(b, minijs.Assign(as, ida(), idb()), idc()))
			add(minijs.Bin(b, ida(), minijs.Assign(as, idb(), idc())))
		}
		// conditional x binary
		bb := func() *minijs.Node { return minijs.Bin(b, minijs.Id("x"), minijs.Id("y")) }
		add(minijs.Cond(bb(), ida(), idb()))
		add(minijs.Cond(ida(), bb(), idb()))
		add(minijs.Cond(ida(), idb(), bb()))
		add(minijs.Bin(b, minijs.Cond(ida(), idb(), idc()), minijs.Id("x")))
		add(minijs.Bin(b, minijs.Id("x"), minijs.Cond(ida(), idb(), idc())))
		// comma x binary
		add(minijs.Bin(b, minijs.N("seq", ida(), idb()), idc()))
		add(minijs.Bin(b, ida(), minijs.N("seq", idb(), idc())))
		add(minijs.N("seq", bb(), bb()))
		// member / call / new x binary
		add(minijs.Dot(bb(), "p"))
		add(minijs.N("call", bb(), ida()))
		add(minijs.N("call", ida(), bb()))
		add(minijs.N("idx", ida(), bb()))
		add(minijs.N("new", bb(), ida()))
		add(&minijs.Node{K: "new", NoArgs: true, Kids: []*minijs.Node{bb()}})
		add(minijs.Bin(b, &minijs.Node{K: "new", NoArgs: true, Kids: []*minijs.Node{ida()}}, idb()))
		add(minijs.Bin(b, ida(), &minijs.Node{K: "new", NoArgs: true, Kids: []*minijs.Node{idb()}}))
	}
	// assignment x assignment / conditional / comma / unary
	for _, p := range assigns {
		for _, q := range assigns {
			add(minijs.Assign(p, ida(), minijs.Assign(q, idb(), idc())))
		}
		as := func() *minijs.Node { return minijs.Assign(p, minijs.Id("x"), minijs.Id("y")) }
		add(minijs.Cond(as(), ida(), idb()))
		add(minijs.Cond(ida(), as(), idb()))
		add(minijs.Cond(ida(), idb(), as()))
		add(minijs.Assign(p, ida(), minijs.Cond(idb(), idc(), minijs.Id("x"))))
		add(minijs.Assign(p, ida(), minijs.N("seq", idb(), idc())))
		add(minijs.N("seq", as(), as()))
		add(minijs.Assign(p, minijs.Dot(ida(), "p"), idb()))
		add(minijs.Assign(p, minijs.N("idx", ida(), idb()), idc()))
		for _, u := range unaries {
			addIf(un(u, as()))
			if x := un(u, idb()); x != nil {
				add(minijs.Assign(p, ida(), x))
			}
		}
		add(minijs.Assign(p, ida(), minijs.Postfix("++", idb())))
	}
	// conditional x conditional / comma
	cc := func() *minijs.Node { return minijs.Cond(minijs.Id("x"), minijs.Id("y"), minijs.Id("z")) }
	add(minijs.Cond(cc(), ida(), idb()))
	add(minijs.Cond(ida(), cc(), idb()))
	add(minijs.Cond(ida(), idb(), cc()))
	add(minijs.Cond(minijs.N("seq", ida(), idb()), idc(), ida()))
	add(minijs.Cond(ida(), minijs.N("seq", ida(), idb()), idc()))
	add(minijs.Cond(ida(), idb(), minijs.N("seq", idc(), ida())))
	add(minijs.N("seq", cc(), cc()))
	add(minijs.N("seq", minijs.N("seq", ida(), idb()), idc()))
	add(minijs.N("seq", ida(), minijs.N("seq", idb(), idc())))
	// unary x unary, unary x postfix, unary x conditional
	for _, p := range unaries {
		for _, q := range unaries {
			if inner := un(q, ida()); inner != nil {
				addIf(un(p, inner))
			}
		}
		for _, q := range []string{"++", "--"} {
			addIf(un(p, minijs.Postfix(q, ida())))
		}
		addIf(un(p, cc()))
		if x := un(p, ida()); x != nil {
			add(minijs.Cond(x, idb(), idc()))
			add(minijs.Dot(x, "p"))
			add(minijs.N("call", x))
			add(minijs.N("new", x))
		}
		addIf(un(p, minijs.Dot(ida(), "p")))
		addIf(un(p, minijs.N("idx", ida(), idb())))
		if !isUpdate(p) {
			add(un(p, minijs.N("call", ida())))
			add(un(p, minijs.N("new", ida())))
			add(un(p, &minijs.Node{K: "new", NoArgs: true, Kids: []*minijs.Node{ida()}}))
		}
	}
	// member / call / new chains: every ordered pair of the five left-hand-side forms, nested in
	// object-or-callee position and in argument position
	forms := []func(o *minijs.Node) *minijs.Node{
		func(o *minijs.Node) *minijs.Node { return minijs.Dot(o, "p") },
		func(o *minijs.Node) *minijs.Node { return minijs.N("idx", o, minijs.Id("i")) },
		func(o *minijs.Node) *minijs.Node { return minijs.N("call", o, minijs.Id("x")) },
		func(o *minijs.Node) *minijs.Node { return minijs.N("call", o) },
		func(o *minijs.Node) *minijs.Node { return minijs.N("new", o, minijs.Id("x")) },
		func(o *minijs.Node) *minijs.Node { return minijs.N("new", o) },
		func(o *minijs.Node) *minijs.Node {
			return &minijs.Node{K: "new", NoArgs: true, Kids: []*minijs.Node{o}}
		},
	}
	for _, f := range forms {
		for _, g := range forms {
			add(g(f(ida())))
			for _, h := range forms {
				add(h(g(f(ida()))))
			}
			add(minijs.N("call", ida(), g(f(idb()))))
			if t := g(minijs.Dot(f(ida()), "q")); isTarget(t) {
				add(minijs.Postfix("++", t))
				add(minijs.Assign("=", t, idb()))
			}
		}
		add(f(&minijs.Node{K: "func"}))
		add(f(&minijs.Node{K: "obj"}))
		add(f(minijs.Num("1")))
		add(f(minijs.Num("1.5")))
		add(f(minijs.Num("0x1")))
		add(f(&minijs.Node{K: "regex", Lit: "a", Op: "g"}))
		add(f(minijs.StrASCII("s")))
		add(f(&minijs.Node{K: "this"}))
		add(f(&minijs.Node{K: "arr"}))
	}
	return out
}

// bracketTrees: positions whose grammar is restricted (the callee of "new" is a MemberExpression,
// so a "(" behind it opens the arguments of "new"; a for-header is parsed without "in") crossed with
// every bracketed place inside them where a full Expression stands again (index brackets, array
// and object literal elements, accessor and function bodies, arguments of an inner "new",
// parentheses) and with payloads that the outer restriction would forbid (calls, "in", new).
func bracketTrees() []*minijs.Node {
	f := func() *minijs.Node { return minijs.Id("f") }
	payloads := []func() *minijs.Node{
		func() *minijs.Node { return minijs.N("call", f()) },
		func() *minijs.Node { return minijs.N("call", f(), minijs.Id("x")) },
		func() *minijs.Node { return minijs.N("call", minijs.Dot(f(), "g"), minijs.Id("x")) },
		func() *minijs.Node { return minijs.N("call", minijs.N("call", f())) },
		func() *minijs.Node { return minijs.N("idx", minijs.N("call", f()), minijs.Num("0")) },
		func() *minijs.Node { return minijs.Bin("+", minijs.N("call", f()), minijs.Num("1")) },
		func() *minijs.Node { return minijs.Bin("in", ida(), minijs.N("call", f())) },
		func() *minijs.Node { return minijs.Cond(minijs.N("call", f()), ida(), idb()) },
		func() *minijs.Node { return minijs.N("seq", ida(), minijs.N("call", f())) },
		func() *minijs.Node { return minijs.Assign("=", ida(), minijs.N("call", f())) },
		func() *minijs.Node { return minijs.Unary("!", minijs.N("call", f())) },
		func() *minijs.Node { return minijs.Postfix("++", ida()) },
		func() *minijs.Node { return &minijs.Node{K: "new", NoArgs: true, Kids: []*minijs.Node{f()}} },
		func() *minijs.Node { return minijs.N("new", f(), minijs.N("call", f())) },
		func() *minijs.Node { return minijs.N("call", minijs.N("new", f())) },
		func() *minijs.Node {
			return &minijs.Node{K: "func", Kids: []*minijs.Node{minijs.ExprStmt(minijs.N("call", f()))}}
		},
	}
	ret := func(e *minijs.Node) *minijs.Node { return &minijs.Node{K: "return", Kids: []*minijs.Node{e}} }
	prop := func(op string, v *minijs.Node) *minijs.Node {
		return &minijs.Node{K: "obj", Kids: []*minijs.Node{{K: "prop", Op: op, Kids: []*minijs.Node{minijs.Id("k"), v}}}}
	}
	places := []func(e *minijs.Node) *minijs.Node{
		func(e *minijs.Node) *minijs.Node { return minijs.N("idx", ida(), e) },
		func(e *minijs.Node) *minijs.Node { return minijs.Dot(minijs.N("idx", minijs.Dot(ida(), "b"), e), "e") },
		func(e *minijs.Node) *minijs.Node { return minijs.N("idx", minijs.N("idx", ida(), e), e) },
		func(e *minijs.Node) *minijs.Node { return minijs.N("idx", ida(), minijs.N("idx", idb(), e)) },
		func(e *minijs.Node) *minijs.Node { return minijs.N("idx", minijs.N("arr", e), minijs.Num("0")) },
		func(e *minijs.Node) *minijs.Node { return minijs.N("arr", nil, e) },
		func(e *minijs.Node) *minijs.Node { return minijs.Dot(prop("init", e), "k") },
		func(e *minijs.Node) *minijs.Node {
			return minijs.Dot(prop("get", &minijs.Node{K: "func", Kids: []*minijs.Node{ret(e)}}), "k")
		},
		func(e *minijs.Node) *minijs.Node { return &minijs.Node{K: "func", Kids: []*minijs.Node{ret(e)}} },
		func(e *minijs.Node) *minijs.Node { return minijs.N("new", idb(), e) },
		func(e *minijs.Node) *minijs.Node { return minijs.Dot(minijs.N("new", idb(), e), "p") },
		func(e *minijs.Node) *minijs.Node { return e }, // bare: the renderer must add parentheses where needed
	}
	empty := func() *minijs.Node { return &minijs.Node{K: "empty"} }
	decl := func(init *minijs.Node) *minijs.Node {
		return &minijs.Node{K: "var", Kids: []*minijs.Node{{K: "decl", Name: "v", Kids: []*minijs.Node{init}}}}
	}
	outers := []func(m *minijs.Node) *minijs.Node{
		func(m *minijs.Node) *minijs.Node { return minijs.ExprStmt(minijs.N("new", m, minijs.Id("x"))) },
		func(m *minijs.Node) *minijs.Node { return minijs.ExprStmt(minijs.N("new", m)) },
		func(m *minijs.Node) *minijs.Node {
			return minijs.ExprStmt(&minijs.Node{K: "new", NoArgs: true, Kids: []*minijs.Node{m}})
		},
		func(m *minijs.Node) *minijs.Node {
			return minijs.ExprStmt(minijs.N("call", minijs.N("new", minijs.N("new", m)))) // new new m()()  then called
		},
		func(m *minijs.Node) *minijs.Node {
			return minijs.ExprStmt(minijs.Dot(&minijs.Node{K: "new", NoArgs: true, Kids: []*minijs.Node{m}}, "p"))
		},
		func(m *minijs.Node) *minijs.Node {
			return &minijs.Node{K: "for", Kids: []*minijs.Node{minijs.N("new", m, minijs.Id("x")), nil, nil, empty()}}
		},
		func(m *minijs.Node) *minijs.Node {
			return &minijs.Node{K: "forin", Kids: []*minijs.Node{decl(minijs.N("new", m)), minijs.Id("o"), empty()}}
		},
		func(m *minijs.Node) *minijs.Node {
			return &minijs.Node{K: "var", Kids: []*minijs.Node{{K: "decl", Name: "o", Kids: []*minijs.Node{minijs.N("new", m, minijs.Id("x"))}}}}
		},
	}
	var out []*minijs.Node
	for _, o := range outers {
		for _, pl := range places {
			for _, pay := range payloads {
				out = append(out, minijs.Program(o(pl(pay()))))
			}
		}
	}
	return out
}

// noInTrees: every binary operator paired with "in" inside the three NoIn positions of for-headers.
func noInTrees() []*minijs.Node {
	var out []*minijs.Node
	in := func(l, r *minijs.Node) *minijs.Node { return minijs.Bin("in", l, r) }
	var exprs []*minijs.Node
	exprs = append(exprs, in(ida(), idb()))
	for _, b := range minijs.BinaryOps {
		exprs = append(exprs,
			minijs.Bin(b, in(ida(), idb()), idc()),
			minijs.Bin(b, ida(), in(idb(), idc())),
			in(minijs.Bin(b, ida(), idb()), idc()),
			in(ida(), minijs.Bin(b, idb(), idc())))
	}
	for _, as := range minijs.AssignOps {
		exprs = append(exprs, minijs.Assign(as, ida(), in(idb(), idc())))
	}
	exprs = append(exprs,
		minijs.Cond(in(ida(), idb()), idc(), ida()),
		minijs.Cond(ida(), in(ida(), idb()), idc()),
		minijs.Cond(ida(), idb(), in(idc(), ida())),
		minijs.N("seq", in(ida(), idb()), in(idb(), idc())),
		minijs.Unary("!", in(ida(), idb())),
		minijs.N("call", ida(), in(ida(), idb())),
		minijs.N("idx", ida(), in(ida(), idb())),
		minijs.N("arr", in(ida(), idb())),
		&minijs.Node{K: "obj", Kids: []*minijs.Node{{K: "prop", Op: "init", Kids: []*minijs.Node{ida(), in(ida(), idb())}}}},
		&minijs.Node{K: "func", Kids: []*minijs.Node{minijs.ExprStmt(in(ida(), idb()))}},
		minijs.N("new", ida(), in(ida(), idb())),
	)
	empty := func() *minijs.Node { return &minijs.Node{K: "empty"} }
	decl := func(init *minijs.Node) *minijs.Node {
		return &minijs.Node{K: "var", Kids: []*minijs.Node{{K: "decl", Name: "v", Kids: []*minijs.Node{init}}}}
	}
	for _, e := range exprs {
		out = append(out,
			minijs.Program(&minijs.Node{K: "for", Kids: []*minijs.Node{e, nil, nil, empty()}}),
			minijs.Program(&minijs.Node{K: "for", Kids: []*minijs.Node{decl(e), e, e, empty()}}),
			minijs.Program(&minijs.Node{K: "forin", Kids: []*minijs.Node{decl(e), minijs.Id("o"), empty()}}),
			minijs.Program(&minijs.Node{K: "forin", Kids: []*minijs.Node{minijs.N("idx", ida(), e), e, empty()}}),
			// the same expression outside a for-header, followed by a for-in (allowIn must be restored)
			minijs.Program(&minijs.Node{K: "for", Kids: []*minijs.Node{ida(), nil, nil, minijs.ExprStmt(e)}}, minijs.ExprStmt(e)),
		)
	}
	return out
}

var pairFacet = harness.Register(&harness.Facet[treeCase]{
	Name: "operator-pairs",
	Rule: "enumeration: every ordered pair of binary operators at both nestings, every same-level triple, prefix/postfix/assignment/conditional/comma against every binary operator in every operand position, assignment x assignment, unary x unary, all pairs and triples of member/index/call/new forms, every binary operator against `in` in the NoIn positions of for / for-var / for-in headers, every restricted position (callee of new in five shapes, for-header, for-in initialiser, var initialiser) x every bracketed place inside a callee (index, nested index, array/object literal element, getter and function body, inner-new argument, parentheses) x 16 payloads (calls, in, new, assignment, ...); each tree rendered three ways with fixed decoration streams and checked like the random facet; every case counts as non-trivial; distinct by JSON of the case",
	Check: func(c treeCase) harness.Outcome {
		o := checkTree(c)
		o.Nontrivial = true
		return o
	},
})

func TestOperatorPairs(t *testing.T) {
	var cases []treeCase
	decor := []byte{1, 0, 8, 0, 0, 1, 63, 0, 15, 0}
	trivia := []byte{5, 2, 9, 1, 0, 6, 3, 14, 7, 2, 33, 1, 8, 4, 19, 0, 1, 25, 6}
	for _, p := range operatorPairTrees() {
		cases = append(cases, treeCase{Prog: p, Decor: decor, Trivia: trivia})
	}
	for _, p := range noInTrees() {
		cases = append(cases, treeCase{Prog: p, Decor: decor, Trivia: trivia})
	}
	for _, p := range bracketTrees() {
		cases = append(cases, treeCase{Prog: p, Decor: decor, Trivia: trivia})
	}
	harness.SetExhaustive(pairFacet.Name)
	harness.SetExtra("operator_pair_cases", len(cases))
	pairFacet.Each(t, cases)
}
