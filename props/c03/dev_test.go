package c03

import (
	"encoding/json"
	"fmt"
	"os"
	"regexp"
	"sort"
	"strconv"
	"testing"

	"pgregory.net/rapid"

	"verif/lib/minijs"
)

// Development aids, off unless VERIF_DEV is set; never part of ./check.
//
//	VERIF_DEV=survey  go test ./props/c03 -run TestDevSurvey -v      group all failures by signature
//	VERIF_DEV=texts   go test ./props/c03 -run TestDevTexts          write renderings to $VERIF_DEV_OUT (one JSON string per line)

var sigRe = regexp.MustCompile(`text=.*$|[0-9]+`)

func TestDevSurvey(t *testing.T) {
	if os.Getenv("VERIF_DEV") != "survey" {
		t.Skip("development aid")
	}
	n := 20000
	if s := os.Getenv("VERIF_DEV_N"); s != "" {
		n, _ = strconv.Atoi(s)
	}
	sigs := map[string]int{}
	example := map[string]string{}
	count := 0
	_ = n
	rapid.Check(t, func(rt *rapid.T) {
		c := treeFacet.Gen(rt)
		o := checkTree(c)
		count++
		if o.Fail != "" {
			sig := sigRe.ReplaceAllString(o.Fail, "")
			if len(sig) > 140 {
				sig = sig[:140]
			}
			sigs[sig]++
			if _, ok := example[sig]; !ok || len(o.Fail) < len(example[sig]) {
				example[sig] = o.Fail
			}
		}
	})
	var keys []string
	for k := range sigs {
		keys = append(keys, k)
	}
	sort.Slice(keys, func(i, j int) bool { return sigs[keys[i]] > sigs[keys[j]] })
	fmt.Printf("survey: %d cases, %d distinct failure signatures\n", count, len(keys))
	for _, k := range keys {
		fmt.Printf("%6d  %s\n        e.g. %s\n", sigs[k], k, example[k])
	}
}

func TestDevTexts(t *testing.T) {
	if os.Getenv("VERIF_DEV") != "texts" {
		t.Skip("development aid")
	}
	f, err := os.Create(os.Getenv("VERIF_DEV_OUT"))
	if err != nil {
		t.Fatal(err)
	}
	defer f.Close()
	enc := json.NewEncoder(f)
	rapid.Check(t, func(rt *rapid.T) {
		c := treeFacet.Gen(rt)
		_, a := minijs.Render(c.Prog, nil, minijs.LayoutOpts{})
		_, b := minijs.Render(c.Prog, c.Decor, minijs.LayoutOpts{})
		_, d := minijs.Render(c.Prog, nil, minijs.LayoutOpts{Trivia: c.Trivia})
		for _, s := range []string{a, b, d} {
			_ = enc.Encode(s)
		}
	})
}

// VERIF_DEV=parse SRC='"a\n;"' go test ./props/c03 -run TestDevParse -v   (SRC is a Go-quoted string; several separated by " ;; ")
func TestDevParse(t *testing.T) {
	if os.Getenv("VERIF_DEV") != "parse" {
		t.Skip("development aid")
	}
	b, _ := os.ReadFile(os.Getenv("SRCFILE"))
	for _, line := range regexp.MustCompile(`\n`).Split(string(b), -1) {
		if line == "" {
			continue
		}
		src, err := strconv.Unquote(line)
		if err != nil {
			fmt.Printf("%s\n   cannot unquote: %v\n", line, err)
			continue
		}
		prog, perr, pan := parse(src)
		switch {
		case pan != nil:
			fmt.Printf("%s\n   PANIC %v\n", line, pan)
		case perr != nil:
			fmt.Printf("%s\n   ERROR %v\n", line, perr)
		default:
			n, cerr := m03FromOtto(prog)
			fmt.Printf("%s\n   %s %v\n", line, minijs.Dump(n, minijs.DumpOpts{}), cerr)
		}
	}
}

func init() {
	if os.Getenv("VERIF_DEV") == "survey" && os.Getenv("VERIF_DEV_KNOWN") != "" {
		// survey with the known findings active (harness.Main is not involved in `go test` dev runs
		// unless TestMain runs it; it does: TestMain calls harness.Main which loads KNOWN_FINDINGS.txt)
	}
}

func TestDevCRxLF(t *testing.T) {
	if os.Getenv("VERIF_DEV") != "crxlf" {
		t.Skip("development aid")
	}
	found := 0
	rapid.Check(t, func(rt *rapid.T) {
		c := treeFacet.Gen(rt)
		toks, text := minijs.Render(c.Prog, nil, minijs.LayoutOpts{Trivia: c.Trivia, AvoidCRxLF: true})
		if minijs.HasCRxLF(text) && found < 3 {
			found++
			for i, tk := range toks {
				if tk.Kind == minijs.TLT && tk.Text == "\r" {
					lo, hi := i-2, i+4
					if lo < 0 {
						lo = 0
					}
					if hi > len(toks) {
						hi = len(toks)
					}
					fmt.Printf("around CR: %v\n", toks[lo:hi])
				}
			}
		}
	})
}

// VERIF_DEV=xcheck VERIF_DEV_OUT=f.jsonl: (text, plain dump) pairs for the acorn cross-check (tools in NOTES.md).
func TestDevXCheck(t *testing.T) {
	if os.Getenv("VERIF_DEV") != "xcheck" {
		t.Skip("development aid")
	}
	f, err := os.Create(os.Getenv("VERIF_DEV_OUT"))
	if err != nil {
		t.Fatal(err)
	}
	defer f.Close()
	enc := json.NewEncoder(f)
	emit := func(c treeCase) {
		d := minijs.Dump(c.Prog, minijs.DumpOpts{Plain: true})
		_, a := minijs.Render(c.Prog, nil, minijs.LayoutOpts{})
		_, b := minijs.Render(c.Prog, c.Decor, minijs.LayoutOpts{})
		_, e := minijs.Render(c.Prog, nil, minijs.LayoutOpts{Trivia: c.Trivia})
		for _, s := range []string{a, b, e} {
			_ = enc.Encode(map[string]string{"text": s, "dump": d})
		}
	}
	for _, ws := range findings {
		for _, w := range ws {
			_ = enc.Encode(map[string]string{"text": w.src, "dump": minijs.Dump(w.want, minijs.DumpOpts{Plain: true})})
		}
	}
	decor := []byte{1, 0, 8, 0, 0, 1, 63, 0, 15, 0}
	trivia := []byte{5, 2, 9, 1, 0, 6, 3, 14, 7, 2, 33, 1, 8, 4, 19, 0, 1, 25, 6}
	for _, p := range operatorPairTrees() {
		emit(treeCase{Prog: p, Decor: decor, Trivia: trivia})
	}
	for _, p := range noInTrees() {
		emit(treeCase{Prog: p, Decor: decor, Trivia: trivia})
	}
	rapid.Check(t, func(rt *rapid.T) {
		if rapid.Bool().Draw(rt, "which") {
			emit(treeFacet.Gen(rt))
		} else {
			emit(literalFacet.Gen(rt))
		}
	})
}

// VERIF_DEV=regress: (re)writes the regress/C03-falsealarm-*.json files (cases that once fired because
// of mistakes in this check, see NOTES.md).
func TestDevWriteRegress(t *testing.T) {
	if os.Getenv("VERIF_DEV") != "regress" {
		t.Skip("development aid")
	}
	empty := func() *minijs.Node { return &minijs.Node{K: "empty"} }
	cases := map[string]treeCase{
		"asi-before-empty-statement": {Prog: minijs.Program(minijs.ExprStmt(minijs.Id("a")), empty(), minijs.ExprStmt(minijs.Id("b"))), Decor: []byte{0}, Trivia: []byte{1}},
		"noin-relational-chain-under-extra-parens": {Prog: minijs.Program(&minijs.Node{K: "for", Kids: []*minijs.Node{
			minijs.Bin("<", minijs.Bin("in", minijs.Id("a"), minijs.Id("b")), minijs.Id("c")), nil, nil, empty()}}), Decor: []byte{1, 0, 8, 0, 0, 1, 63, 0, 15, 0}, Trivia: []byte{0}},
		"two-dot-names-one-unicode": {Prog: minijs.Program(minijs.ExprStmt(minijs.Dot(minijs.Dot(minijs.Id("get"), "\u00e9"), "\u16ee"))), Decor: []byte{0}, Trivia: []byte{0}},
		"zwj-in-function-name":      {Prog: minijs.Program(minijs.ExprStmt(&minijs.Node{K: "func", Name: "a\u200db"})), Decor: []byte{0}, Trivia: []byte{0}},
	}
	for name, c := range cases {
		raw, _ := json.Marshal(c)
		b, _ := json.MarshalIndent(map[string]interface{}{"property": "C03", "facet": "roundtrip", "case": json.RawMessage(raw), "fail": "false alarm of the check, corrected (props/c03/NOTES.md)"}, "", " ")
		if err := os.WriteFile("../../regress/C03-falsealarm-"+name+".json", append(b, '\n'), 0o644); err != nil {
			t.Fatal(err)
		}
	}
}
