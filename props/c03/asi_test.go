package c03

import (
	"testing"

	"verif/lib/harness"
	"verif/lib/minijs"
)

// Exhaustive facet: automatic semicolon insertion sites. The family is finite: the token that
// ends a statement (every token class that can, in every lexical form that is scanned along a
// different path) x the statement kind it ends x what stands for the missing semicolon (each
// LineTerminatorSequence, a multi-line comment containing one, a single-line comment; "}" and the
// end of input) x the token that starts the next statement.

// enders: expressions listed by the token they END with.
func asiEnders() []*minijs.Node {
	var out []*minijs.Node
	add := func(n ...*minijs.Node) { out = append(out, n...) }
	add(minijs.Id("a"), minijs.Id("$"), &minijs.Node{K: "id", Name: "ab", Spell: "a\\u0062"}, minijs.Id("\u00e9"),
		&minijs.Node{K: "this"}, &minijs.Node{K: "null"}, &minijs.Node{K: "true"}, &minijs.Node{K: "false"})
	for _, l := range []string{"0", "1", "17", "0x1F", "0XaB", "017", ".5", "5.", "1.5", "1e3", "1E+3", "5.e-1", ".5e1"} {
		add(minijs.Num(l))
	}
	add(minijs.StrASCII("s"), &minijs.Node{K: "str", Quote: "'", Str: []minijs.StrPiece{{U: 's'}}}, minijs.StrASCII(""),
		&minijs.Node{K: "str", Quote: "\"", Str: []minijs.StrPiece{{U: 'a'}, {U: 0, F: minijs.FormCont}}},
		&minijs.Node{K: "str", Quote: "'", Str: []minijs.StrPiece{{U: '/', F: minijs.FormRaw}, {U: '\'', F: minijs.FormSingle}}})
	for _, pat := range minijs.RegexBodies() {
		for _, fl := range []string{"", "g", "mi"} {
			add(&minijs.Node{K: "regex", Lit: pat, Op: fl})
		}
	}
	add(minijs.N("call", ida()), minijs.N("call", ida(), idb()), minijs.N("new", ida()), // ")"
		minijs.N("idx", ida(), idb()), minijs.N("arr"), minijs.N("arr", ida(), nil), // "]"
		minijs.Assign("=", ida(), &minijs.Node{K: "obj"}), minijs.Assign("=", ida(), &minijs.Node{K: "func"}), // "}"
		minijs.Postfix("++", ida()), minijs.Postfix("--", ida()),
		&minijs.Node{K: "new", NoArgs: true, Kids: []*minijs.Node{ida()}},
		minijs.Bin("/", ida(), idb()), minijs.Assign("/=", ida(), idb()), minijs.Bin("/", ida(), &minijs.Node{K: "regex", Lit: "=", Op: "g"}))
	for _, w := range []string{"if", "in", "do", "var", "new", "this", "null", "true", "class", "return", "typeof", "function", "instanceof", "get"} {
		add(minijs.Dot(ida(), w))
	}
	return out
}

// starters: statements listed by the token they START with (only ones a statement terminator may
// be dropped in front of, plus a few the layout must refuse: "(", "[", "+", "-", "/", ";").
func asiStarters() []*minijs.Node {
	es := minijs.ExprStmt
	return []*minijs.Node{
		es(idb()), es(minijs.Id("g")), es(minijs.Id("in_")), es(&minijs.Node{K: "this"}), es(&minijs.Node{K: "null"}), es(&minijs.Node{K: "true"}),
		es(minijs.Num("1")), es(minijs.Num(".5")), es(minijs.StrASCII("s")),
		es(minijs.Unary("++", idb())), es(minijs.Unary("--", idb())), es(minijs.Unary("!", idb())), es(minijs.Unary("~", idb())),
		es(minijs.Unary("typeof", idb())), es(minijs.Unary("void", idb())), es(minijs.Unary("delete", idb())),
		es(&minijs.Node{K: "new", NoArgs: true, Kids: []*minijs.Node{idb()}}),
		{K: "var", Kids: []*minijs.Node{{K: "decl", Name: "w", Kids: []*minijs.Node{nil}}}},
		{K: "if", Kids: []*minijs.Node{idb(), {K: "empty"}, nil}},
		{K: "while", Kids: []*minijs.Node{idb(), {K: "empty"}}},
		{K: "for", Kids: []*minijs.Node{nil, nil, nil, {K: "empty"}}},
		{K: "dowhile", Kids: []*minijs.Node{{K: "empty"}, idb()}},
		{K: "block"}, {K: "debugger"}, {K: "throw", Kids: []*minijs.Node{idb()}},
		{K: "try", Kids: []*minijs.Node{{K: "block"}, nil, {K: "block"}}},
		{K: "switch", Kids: []*minijs.Node{idb()}},
		{K: "with", Kids: []*minijs.Node{idb(), {K: "empty"}}},
		minijs.Label("L", minijs.ExprStmt(idb())),
		{K: "funcdecl", Name: "g"},
		// hazards: the semicolon has to stay
		es(minijs.N("call", idb())), es(minijs.N("arr", idb())), es(minijs.Unary("+", idb())), es(minijs.Unary("-", idb())),
		es(&minijs.Node{K: "regex", Lit: "=", Op: "g"}), {K: "empty"},
	}
}

var asiSeparators = []string{"\n", "\r", "\r\n", "\u2028", "\u2029", "/*\n*/", "/* c \u2029 */", "//c"}

func asiCases() []treeCase {
	enders, starters := asiEnders(), asiStarters()
	var cases []treeCase
	n := 0
	add := func(sep string, stmts ...*minijs.Node) {
		cases = append(cases, treeCase{Prog: minijs.Program(stmts...), Decor: []byte{0}, ASI: sep})
	}
	fn := func(body ...*minijs.Node) *minijs.Node { return &minijs.Node{K: "funcdecl", Name: "h", Kids: body} }
	loop := func(body ...*minijs.Node) *minijs.Node {
		return minijs.Label("M", &minijs.Node{K: "while", Kids: []*minijs.Node{ida(), {K: "block", Kids: body}}})
	}
	for _, e := range enders {
		wrappers := []func(next *minijs.Node) []*minijs.Node{
			func(next *minijs.Node) []*minijs.Node { return []*minijs.Node{minijs.ExprStmt(e), next} },
			func(next *minijs.Node) []*minijs.Node {
				return []*minijs.Node{minijs.ExprStmt(minijs.Assign("=", minijs.Id("x"), e)), next}
			},
			func(next *minijs.Node) []*minijs.Node {
				return []*minijs.Node{{K: "var", Kids: []*minijs.Node{{K: "decl", Name: "v", Kids: []*minijs.Node{e}}}}, next}
			},
			func(next *minijs.Node) []*minijs.Node {
				if next.K == "funcdecl" {
					next = minijs.ExprStmt(idb())
				}
				return []*minijs.Node{fn(&minijs.Node{K: "return", Kids: []*minijs.Node{e}}, next)}
			},
			func(next *minijs.Node) []*minijs.Node {
				return []*minijs.Node{{K: "throw", Kids: []*minijs.Node{e}}, next}
			},
			func(next *minijs.Node) []*minijs.Node {
				if next.K == "funcdecl" {
					next = minijs.ExprStmt(idb())
				}
				return []*minijs.Node{{K: "if", Kids: []*minijs.Node{ida(), minijs.ExprStmt(e), next}}} // ... \n else
			},
			func(next *minijs.Node) []*minijs.Node {
				return []*minijs.Node{{K: "dowhile", Kids: []*minijs.Node{minijs.ExprStmt(e), ida()}}, next} // do e \n while(a) \n next
			},
		}
		for wi, w := range wrappers {
			for si, sep := range asiSeparators {
				// every ender x wrapper x separator, the starter rotates
				add(sep, w(starters[(n+si)%len(starters)])...)
				n++
			}
			_ = wi
		}
		// "}" and end of input
		add("\n", &minijs.Node{K: "block", Kids: []*minijs.Node{minijs.ExprStmt(e)}}, fn(&minijs.Node{K: "return", Kids: []*minijs.Node{e}}), minijs.ExprStmt(e))
	}
	// every starter x separator behind a handful of enders and behind the bare keywords
	few := []*minijs.Node{ida(), minijs.Num("1"), &minijs.Node{K: "regex", Lit: "=a"}, &minijs.Node{K: "regex", Lit: "a", Op: "g"}, minijs.N("call", ida()),
		minijs.N("idx", ida(), idb()), minijs.Postfix("++", ida()), minijs.Dot(ida(), "if"), minijs.StrASCII("s"), minijs.Assign("=", ida(), &minijs.Node{K: "func"})}
	for _, st := range starters {
		for _, sep := range asiSeparators {
			for _, e := range few {
				add(sep, minijs.ExprStmt(e), st)
			}
			inner := st
			if inner.K == "funcdecl" {
				inner = minijs.ExprStmt(idb())
			}
			add(sep, fn(&minijs.Node{K: "return", Kids: []*minijs.Node{nil}}, inner))
			add(sep, loop(&minijs.Node{K: "break"}, inner), loop(&minijs.Node{K: "continue"}, inner))
			add(sep, loop(&minijs.Node{K: "break", Name: "M"}, inner), loop(&minijs.Node{K: "continue", Name: "M"}, inner))
			add(sep, &minijs.Node{K: "debugger"}, st)
			add(sep, &minijs.Node{K: "var", Kids: []*minijs.Node{{K: "decl", Name: "v", Kids: []*minijs.Node{nil}}}}, st)
		}
	}
	return cases
}

var asiFacet = harness.Register(&harness.Facet[treeCase]{
	Name: "asi-sites",
	Rule: "enumeration: (every statement-ending token: identifiers, keywords-as-values, numbers in every lexical form, strings, every regexp body of the pool with and without flags, ) ] } ++ --, reserved words as property names, bare return/break/continue/debugger) x (expression, assignment, var, return, throw, if-else, do-while statement) x (LF, CR, CRLF, LS, PS, multi-line comment with LF / PS, single-line comment; `}` and end of input) with the start token of the next statement rotating, plus every statement-start token x separator behind ten enders and the bare keywords; hazards ( [ + - / ; keep their semicolon; all statement terminators are dropped deterministically (LayoutOpts.ForceASI); every case non-trivial; distinct by JSON of the case",
	Check: func(c treeCase) harness.Outcome {
		o := checkTree(c)
		o.Nontrivial = true
		return o
	},
})

func TestASISites(t *testing.T) {
	cases := asiCases()
	harness.SetExhaustive(asiFacet.Name)
	harness.SetExtra("asi_site_cases", len(cases))
	asiFacet.Each(t, cases)
}
