package c03

import (
	"fmt"
	"strconv"

	"verif/lib/harness"
	"verif/lib/minijs"
)

// Known findings of C03. Each witness is a source text together with the tree ES5 assigns to it;
// the finding is still present while otto rejects the text or builds a different tree.
type witness struct {
	src  string
	want *minijs.Node
}

func prog(stmts ...*minijs.Node) *minijs.Node { return minijs.Program(stmts...) }
func es(e *minijs.Node) *minijs.Node          { return minijs.ExprStmt(e) }
func id(s string) *minijs.Node                { return minijs.Id(s) }
func str(q string, p ...minijs.StrPiece) *minijs.Node {
	return &minijs.Node{K: "str", Quote: q, Str: p}
}

var findings = map[string][]witness{
	// A16: parseRelationalExpression recurses for the right operand
	"C03-RELATIONAL-ASSOC": {
		{"1<2<3;", prog(es(minijs.Bin("<", minijs.Bin("<", minijs.Num("1"), minijs.Num("2")), minijs.Num("3"))))},
		{"a instanceof b in c;", prog(es(minijs.Bin("in", minijs.Bin("instanceof", id("a"), id("b")), id("c"))))},
		{"for(var i=a<b in c);", prog(&minijs.Node{K: "forin", Kids: []*minijs.Node{
			{K: "var", Kids: []*minijs.Node{{K: "decl", Name: "i", Kids: []*minijs.Node{minijs.Bin("<", id("a"), id("b"))}}}},
			id("c"), {K: "empty"}}})},
	},
	// A17
	"C03-NUMERIC-KEY-SPELLING": {
		{"({1.0:a});", prog(es(&minijs.Node{K: "obj", Kids: []*minijs.Node{{K: "prop", Op: "init", Kids: []*minijs.Node{minijs.Num("1.0"), id("a")}}}}))},
	},
	"C03-SURROGATE-PAIR-ESCAPE": {
		{`'\uD83D\uDE00';`, prog(es(str("'", minijs.StrPiece{U: 0xD83D, F: minijs.FormUniUp}, minijs.StrPiece{U: 0xDE00, F: minijs.FormUniUp})))},
	},
	"C03-LONE-SURROGATE": {
		{`'\uD800';`, prog(es(str("'", minijs.StrPiece{U: 0xD800, F: minijs.FormUniUp})))},
	},
	"C03-IDENT-ZWJ": {
		{"a\u200cb;", prog(es(id("a\u200cb")))},
		{"a\u200db;", prog(es(id("a\u200db")))},
	},
	"C03-DOT-NAME-UNICODE": {
		{"a.\u16ee;", prog(es(minijs.Dot(id("a"), "\u16ee")))},
		{"a.b\u0301;", prog(es(minijs.Dot(id("a"), "b\u0301")))},
		{"a.b\u0663;", prog(es(minijs.Dot(id("a"), "b\u0663")))},
	},
	"C03-BIG-RADIX-LITERAL": {
		{"0x8000000000000401;", prog(es(minijs.Num("0x8000000000000401")))},
		{"01000000000000000000001;", prog(es(minijs.Num("01000000000000000000001")))},
	},
	"C03-STRING-CONT-LS": {
		{"'a\\\u2028b';", prog(es(str("'", minijs.StrPiece{U: 'a'}, minijs.StrPiece{U: 3, F: minijs.FormCont}, minijs.StrPiece{U: 'b'})))},
	},
	"C03-OCTAL-ESCAPE-OVERRUN": {
		{`'\477';`, prog(es(str("'", minijs.StrPiece{U: 0o47, F: minijs.FormOctal}, minijs.StrPiece{U: '7'})))},
	},
	"C03-ASI-COMMENT-LT": {
		{"a/*\n*/b", prog(es(id("a")), es(id("b")))},
	},
	"C03-ASI-CR-PEEK": {
		{"x\ra\n;", prog(es(id("x")), es(id("a")))},
		{"a+\rb\n+c;", prog(es(minijs.Bin("+", minijs.Bin("+", id("a"), id("b")), id("c"))))},
	},
	"C03-ASI-KEYWORD-NAME": {
		{"a.if\nb", prog(es(minijs.Dot(id("a"), "if")), es(id("b")))},
		{"var x=a.class", prog(&minijs.Node{K: "var", Kids: []*minijs.Node{{K: "decl", Name: "x", Kids: []*minijs.Node{minijs.Dot(id("a"), "class")}}}})},
	},
	"C03-ASI-NEWLINE-SEMICOLON": {
		{"debugger\n;", prog(&minijs.Node{K: "debugger"})},
		{"var a\n;", prog(&minijs.Node{K: "var", Kids: []*minijs.Node{{K: "decl", Name: "a", Kids: []*minijs.Node{nil}}}})},
	},
	"C03-REGEX-FLAGS-ACROSS-LT": {
		{"/a/\ng", prog(es(&minijs.Node{K: "regex", Lit: "a"}), es(id("g")))},
	},
	"C03-NOIN-COND-MIDDLE": {
		{"for(a?b in c:d;;);", prog(&minijs.Node{K: "for", Kids: []*minijs.Node{
			minijs.Cond(id("a"), minijs.Bin("in", id("b"), id("c")), id("d")), nil, nil, {K: "empty"}}})},
	},
}

func init() {
	for fid, ws := range findings {
		ws := ws
		harness.RegisterWitness(fid, func() (bool, string) {
			for _, w := range ws {
				_, fail := roundTrip(w.want, w.src, minijs.DumpOpts{})
				if fail != "" {
					if len(fail) > 160 {
						fail = fail[:160] + "…"
					}
					return true, fmt.Sprintf("%s: %s", strconv.Quote(w.src), fail)
				}
			}
			return false, "all witnesses parse to the ES5 tree"
		})
	}
}

// distortNum reproduces how otto reads integer literals beyond int64 (finding C03-BIG-RADIX-LITERAL):
// hex digits are accumulated in floating point (rounding at every step), a legacy octal spelling is
// handed to strconv.ParseFloat and so read as decimal.
func distortNum(lit string) (float64, bool) {
	r, err := minijs.NumRat(lit)
	if err != nil || !r.IsInt() || r.Num().BitLen() <= 63 {
		return 0, false
	}
	switch minijs.NumClass(lit) {
	case "hex":
		v := 0.0
		for _, c := range lit[2:] {
			d := 0
			switch {
			case c >= '0' && c <= '9':
				d = int(c - '0')
			case c >= 'a' && c <= 'f':
				d = int(c-'a') + 10
			default:
				d = int(c-'A') + 10
			}
			v = v*16 + float64(d)
		}
		return v, true
	case "octal":
		v, err := strconv.ParseFloat(lit, 64)
		if err != nil && v == 0 {
			return 0, false
		}
		return v, true
	}
	return 0, false
}
