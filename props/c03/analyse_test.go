package c03

import (
	"sort"
	"strings"

	"verif/lib/es5"
	"verif/lib/harness"
	"verif/lib/minijs"
)

// analysis is what the check needs to know about a generated tree: histogram classes, the
// non-triviality verdict and membership in the exclusion classes of the known findings.
type analysis struct {
	classes    []string
	nontrivial bool

	relChain       bool // a relational operator whose left operand is an unparenthesised relational operation
	forinRelSpine  bool // for (var x = <... relational on the right spine> in o)
	noInCondMiddle bool // an "in" operator in the middle operand of ?: inside a for-header
	numKeyRespell  bool // numeric property key whose spelling is not ToString(value)
	escSurPair     bool
	loneSur        bool
	asiKeywordProp bool // some member access .<reserved word> (relevant to the trivia rendering only)
	lsContinuation bool // string line continuation written with U+2028 / U+2029
	octalOver377   bool // legacy octal escape \4xx-\7xx followed by an octal digit
	bigOctal       bool // legacy octal integer literal >= 2^63
	bigHex         bool // hex literal >= 2^63 (accumulated in floating point)
	zwjIdent       bool
	dotUnicode     string // class of a non-ASCII name after "."
	unicodeIdent   string
}

func isOperator(n *minijs.Node) bool {
	switch n.K {
	case "bin", "unary", "postfix", "assign", "cond", "seq":
		return true
	}
	return false
}

func analyse(prog *minijs.Node) analysis {
	var a analysis
	cls := map[string]bool{}
	add := func(s string) { cls[s] = true }

	var expr func(n *minijs.Node, noIn bool, parentOp *minijs.Node)
	var stmt func(n *minijs.Node)
	str := func(n *minijs.Node) {
		info := minijs.RenderStr(n)
		for _, f := range info.Forms {
			add("str:" + f)
			if f != "raw" {
				a.nontrivial = true
			}
		}
		if info.EscSurPair {
			a.escSurPair = true
		}
		if info.LoneSur {
			a.loneSur = true
		}
		for i, p := range n.Str {
			if p.F == minijs.FormCont && p.U%5 >= 3 {
				a.lsContinuation = true
				add("str:cont-LS/PS")
			}
			if p.F == minijs.FormOctal && p.U >= 0o40 && p.U <= 0o77 {
				// two-digit form \4x..\7x: a following octal digit must not be absorbed
				for j := i + 1; j < len(n.Str); j++ {
					if n.Str[j].F == minijs.FormCont {
						break
					}
					if n.Str[j].F == minijs.FormRaw && n.Str[j].U >= '0' && n.Str[j].U <= '7' {
						a.octalOver377 = true
						add("str:octal-2digit+digit")
					}
					break
				}
			}
		}
	}
	num := func(lit string) {
		c := minijs.NumClass(lit)
		add("num:" + c)
		if c != "dec" {
			a.nontrivial = true
		}
		if r, err := minijs.NumRat(lit); err == nil && r.IsInt() && r.Num().BitLen() > 63 {
			if c == "octal" {
				a.bigOctal = true
				add("num:octal>=2^63")
			}
			if c == "hex" {
				a.bigHex = true
				add("num:hex>=2^63")
			}
		}
	}
	identClass := func(name, spell string) string {
		c := minijs.UnicodeIdentClass(name, spell)
		if c != "" {
			add("ident:" + c)
			a.nontrivial = true
			if c == "zwj" {
				a.zwjIdent = true
			}
		}
		return c
	}
	expr = func(n *minijs.Node, noIn bool, parent *minijs.Node) {
		if n == nil {
			return
		}
		add("e:" + n.K)
		if isOperator(n) && parent != nil && isOperator(parent) && minijs.Prec(n) != minijs.Prec(parent) {
			a.nontrivial = true
		}
		wrapped := false // would the renderer parenthesise n here? (only what matters for noIn)
		if parent != nil && minijs.Prec(n) < minijs.PrecUnary && minijs.Prec(parent) >= minijs.PrecUnary {
			wrapped = true
		}
		if wrapped {
			noIn = false
		}
		switch n.K {
		case "id":
			if c := identClass(n.Name, n.Spell); c != "" && a.unicodeIdent == "" {
				a.unicodeIdent = c
			}
		case "num":
			num(n.Lit)
		case "str":
			str(n)
		case "regex":
			a.nontrivial = true
			add("regex")
		case "arr":
			for _, k := range n.Kids {
				if k == nil {
					add("arr:elision")
				}
				expr(k, false, nil)
			}
		case "obj":
			for _, p := range n.Kids {
				k := p.Kids[0]
				add("key:" + p.Op + ":" + k.K)
				switch k.K {
				case "id":
					if k.Name == "get" || k.Name == "set" {
						add("key:" + p.Op + ":named-" + k.Name)
						a.nontrivial = true
					}
					if minijs.IsReserved(k.Name) {
						add("key:reserved-word")
					}
					identClass(k.Name, k.Spell)
				case "str":
					str(k)
				case "num":
					num(k.Lit)
					if v, err := minijs.NumValue(k.Lit); err == nil && es5.NumberToString(v) != k.Lit {
						a.numKeyRespell = true
						add("key:num-respelled")
					}
				}
				if p.Op == "init" {
					expr(p.Kids[1], false, nil)
				} else {
					for _, s := range p.Kids[1].Kids {
						stmt(s)
					}
				}
			}
		case "func":
			for _, s := range n.Kids {
				stmt(s)
			}
		case "dot":
			if minijs.IsReserved(n.Name) {
				a.asiKeywordProp = true
				add("dot:reserved-word")
			}
			if c := identClass(n.Name, n.Spell); c == "Nl" || c == "Mn" || c == "Nd" || c == "Pc" {
				a.dotUnicode = c
			}
			expr(n.Kids[0], noIn, n)
		case "idx":
			expr(n.Kids[0], noIn, n)
			expr(n.Kids[1], false, nil)
		case "call", "new":
			if n.K == "new" && n.NoArgs {
				add("new:noargs")
			}
			expr(n.Kids[0], noIn, n)
			for _, k := range n.Kids[1:] {
				expr(k, false, nil)
			}
		case "bin":
			if n.Op == "in" && noIn {
				add("noin:parenthesised-in")
				a.nontrivial = true
			}
			if n.Op == "in" && !noIn {
				add("in:plain")
			}
			inner := noIn
			if n.Op == "in" && noIn {
				inner = false // it gets parentheses
			}
			l := n.Kids[0]
			if minijs.IsRelational(n.Op) && l.K == "bin" && minijs.IsRelational(l.Op) {
				a.relChain = true
				add("rel:chain")
			}
			if n.Op == "/" {
				add("div")
			}
			lvl := minijs.BinLevel(n.Op)
			expr(l, inner && minijs.Prec(l) >= lvl, n)
			expr(n.Kids[1], inner && minijs.Prec(n.Kids[1]) > lvl, n)
		case "cond":
			expr(n.Kids[0], noIn && minijs.Prec(n.Kids[0]) >= minijs.PrecBinBase, n)
			if noIn && hasBareIn(n.Kids[1]) {
				a.noInCondMiddle = true
				add("noin:cond-middle")
				a.nontrivial = true
			}
			expr(n.Kids[1], false, nil)
			expr(n.Kids[2], noIn, n)
		case "assign":
			expr(n.Kids[0], noIn, n)
			expr(n.Kids[1], noIn, n)
		case "seq":
			for _, k := range n.Kids {
				expr(k, noIn, n)
			}
		case "unary", "postfix":
			add(n.K + ":" + n.Op)
			expr(n.Kids[0], false, n)
		}
	}
	decls := func(v *minijs.Node, noIn bool) {
		for _, d := range v.Kids {
			identClass(d.Name, d.Spell)
			if d.Kids[0] != nil {
				expr(d.Kids[0], noIn, nil)
			}
		}
	}
	stmt = func(n *minijs.Node) {
		if n == nil {
			return
		}
		add("s:" + n.K)
		switch n.K {
		case "var":
			decls(n, false)
		case "expr", "throw":
			if n.K == "throw" {
				a.nontrivial = true
			}
			expr(n.Kids[0], false, nil)
		case "return":
			if n.Kids[0] != nil {
				a.nontrivial = true
				add("return:operand")
			}
			expr(n.Kids[0], false, nil)
		case "break", "continue":
			if n.Name != "" {
				a.nontrivial = true
				add(n.K + ":label")
			}
		case "if":
			expr(n.Kids[0], false, nil)
			stmt(n.Kids[1])
			stmt(n.Kids[2])
			if n.Kids[2] == nil && n.Kids[1].K == "if" && n.Kids[1].Kids[2] != nil {
				add("if:dangling-else")
			}
		case "for":
			a.nontrivial = true
			if i := n.Kids[0]; i != nil {
				if i.K == "var" {
					add("for:var")
					decls(i, true)
				} else {
					expr(i, true, nil)
				}
			}
			expr(n.Kids[1], false, nil)
			expr(n.Kids[2], false, nil)
			stmt(n.Kids[3])
		case "forin":
			a.nontrivial = true
			if l := n.Kids[0]; l.K == "var" {
				add("forin:var")
				decls(l, true)
				if init := l.Kids[0].Kids[0]; init != nil {
					add("forin:var-init")
					if rightSpineRelational(init) {
						a.forinRelSpine = true
					}
				}
			} else {
				expr(l, true, nil)
			}
			expr(n.Kids[1], false, nil)
			stmt(n.Kids[2])
		case "while", "with":
			expr(n.Kids[0], false, nil)
			stmt(n.Kids[1])
		case "dowhile":
			stmt(n.Kids[0])
			expr(n.Kids[1], false, nil)
		case "switch":
			expr(n.Kids[0], false, nil)
			for i, c := range n.Kids[1:] {
				if c.Kids[0] == nil {
					if i < len(n.Kids)-2 {
						add("switch:default-not-last")
					}
				} else {
					expr(c.Kids[0], false, nil)
				}
				for _, s := range c.Kids[1:] {
					stmt(s)
				}
			}
		case "label":
			identClass(n.Name, n.Spell)
			stmt(n.Kids[0])
		case "try":
			for _, b := range n.Kids {
				if b != nil {
					for _, s := range b.Kids {
						stmt(s)
					}
				}
			}
		case "block":
			for _, s := range n.Kids {
				stmt(s)
			}
		case "funcdecl":
			identClass(n.Name, n.Spell)
			for _, s := range n.Kids {
				stmt(s)
			}
		}
	}
	for _, s := range prog.Kids {
		stmt(s)
	}
	minijs.Walk(prog, func(n *minijs.Node) {
		switch n.K {
		case "id", "decl", "label", "func", "funcdecl", "try", "dot", "break", "continue":
			if strings.ContainsAny(n.Name, "\u200c\u200d") {
				a.zwjIdent = true
			}
		}
	})
	for c := range cls {
		a.classes = append(a.classes, c)
	}
	sort.Strings(a.classes)
	return a
}

// hasBareIn: does e contain an "in" operator that the renderer writes without enclosing
// brackets when e is rendered with the NoIn flag off (i.e. inside the ?: middle operand)?
func hasBareIn(e *minijs.Node) bool {
	if e == nil {
		return false
	}
	switch e.K {
	case "bin":
		if e.Op == "in" {
			return true
		}
		lvl := minijs.BinLevel(e.Op)
		return (minijs.Prec(e.Kids[0]) >= lvl && hasBareIn(e.Kids[0])) || (minijs.Prec(e.Kids[1]) > lvl && hasBareIn(e.Kids[1]))
	case "cond":
		return (minijs.Prec(e.Kids[0]) >= minijs.PrecBinBase && hasBareIn(e.Kids[0])) || hasBareIn(e.Kids[1]) || hasBareIn(e.Kids[2])
	case "assign":
		return hasBareIn(e.Kids[1])
	case "seq":
		return false // a sequence in that position gets parentheses
	}
	return false
}

// rightSpineRelational: following right operands / alternates / assignment right-hand sides from
// e (the tokens that end the expression text), is there an unparenthesised relational operation?
func rightSpineRelational(e *minijs.Node) bool {
	for e != nil {
		switch e.K {
		case "bin":
			if minijs.IsRelational(e.Op) && e.Op != "in" {
				return true
			}
			if e.Op == "in" {
				return false // parenthesised in this context
			}
			r := e.Kids[1]
			if minijs.Prec(r) <= minijs.BinLevel(e.Op) {
				return false
			}
			e = r
		case "assign":
			e = e.Kids[1]
		case "cond":
			e = e.Kids[2]
		case "unary":
			o := e.Kids[0]
			if minijs.Prec(o) < minijs.PrecUnary {
				return false
			}
			e = o
		default:
			return false
		}
	}
	return false
}

// exclusions turns the analysis into dump options (comparison modulo a finding), the list of
// exclusion classes to count, and whether the structure comparison has to be skipped because otto
// rejects the program or shapes the tree differently.
func exclusions(a analysis) (o minijs.DumpOpts, excluded []string, skip bool) {
	o = minijs.DumpOpts{Decls: true, Spelling: true}
	on := func(cond bool, id string) bool {
		if cond && harness.Known(id) {
			excluded = append(excluded, id)
			return true
		}
		return false
	}
	if on(a.numKeyRespell, "C03-NUMERIC-KEY-SPELLING") {
		o.NumKeySpelling = true
	}
	lone := on(a.loneSur, "C03-LONE-SURROGATE")
	pair := on(a.escSurPair, "C03-SURROGATE-PAIR-ESCAPE")
	if lone || pair {
		o.SurrogateFFFD = true
		o.PairsOnlyLone = !pair
	}
	if on(a.lsContinuation, "C03-STRING-CONT-LS") {
		o.ContLSUnit = true
	}
	if on(a.bigHex || a.bigOctal, "C03-BIG-RADIX-LITERAL") {
		o.NumDistort = distortNum
	}
	for _, e := range []struct {
		cond bool
		id   string
	}{
		{a.relChain || a.forinRelSpine, "C03-RELATIONAL-ASSOC"},
		{a.noInCondMiddle, "C03-NOIN-COND-MIDDLE"},
		{a.zwjIdent, "C03-IDENT-ZWJ"},
		{a.dotUnicode != "", "C03-DOT-NAME-UNICODE"},
		{a.octalOver377, "C03-OCTAL-ESCAPE-OVERRUN"},
	} {
		if on(e.cond, e.id) {
			skip = true
		}
	}
	return
}

// insertSemicolonKeywords are the reserved words after which otto's lexer does arm automatic
// semicolon insertion; after the others it does not (finding C03-ASI-KEYWORD-NAME).
var asiArmedWords = map[string]bool{"this": true, "break": true, "throw": true, "return": true, "continue": true, "debugger": true, "true": true, "false": true, "null": true}

// steering builds the layout options that keep the trivia rendering away from the known
// findings that concern white space, comments and automatic semicolon insertion.
func steering() (minijs.LayoutOpts, []string) {
	var o minijs.LayoutOpts
	var ids []string
	if harness.Known("C03-ASI-COMMENT-LT") {
		o.NoCommentLT = true
		ids = append(ids, "C03-ASI-COMMENT-LT")
	}
	if harness.Known("C03-ASI-CR-PEEK") {
		o.AvoidCRxLF = true
		ids = append(ids, "C03-ASI-CR-PEEK")
	}
	if harness.Known("C03-ASI-NEWLINE-SEMICOLON") {
		// the statements whose terminator goes through parser.semicolon()
		o.NoLTBeforeSemi = map[string]bool{"var": true, "debugger": true, "return": true, "throw": true, "break-label": true, "continue-label": true}
		ids = append(ids, "C03-ASI-NEWLINE-SEMICOLON")
	}
	kw, re := harness.Known("C03-ASI-KEYWORD-NAME"), harness.Known("C03-REGEX-FLAGS-ACROSS-LT")
	if kw {
		ids = append(ids, "C03-ASI-KEYWORD-NAME")
	}
	if re {
		ids = append(ids, "C03-REGEX-FLAGS-ACROSS-LT")
	}
	if kw || re {
		o.KeepSemi = func(prev minijs.Token, next *minijs.Token) bool {
			if kw && prev.Kind == minijs.TIdent && minijs.IsReserved(prev.Text) && !asiArmedWords[prev.Text] {
				return true
			}
			if re && prev.Kind == minijs.TRegex && next != nil && next.Kind == minijs.TIdent && !minijs.IsReserved(next.Text) {
				return true
			}
			return false
		}
	}
	return o, ids
}

// steeredAround attributes a difference between the steered and the unsteered trivia rendering to
// the findings responsible (one option at a time).
func steeredAround(c treeCase, raw string) []string {
	full, _ := steering()
	var out []string
	try := func(id string, o minijs.LayoutOpts) {
		o.Trivia = c.Trivia
		if _, t := minijs.Render(c.Prog, nil, o); t != raw {
			out = append(out, id)
		}
	}
	if full.NoCommentLT {
		try("C03-ASI-COMMENT-LT", minijs.LayoutOpts{NoCommentLT: true})
	}
	if full.AvoidCRxLF {
		try("C03-ASI-CR-PEEK", minijs.LayoutOpts{AvoidCRxLF: true})
	}
	if full.NoLTBeforeSemi != nil {
		try("C03-ASI-NEWLINE-SEMICOLON", minijs.LayoutOpts{NoLTBeforeSemi: full.NoLTBeforeSemi})
	}
	if full.KeepSemi != nil {
		try("C03-ASI-KEYWORD-NAME/C03-REGEX-FLAGS-ACROSS-LT", minijs.LayoutOpts{KeepSemi: full.KeepSemi})
	}
	return out
}

// triviaClasses labels what the trivia rendering exercised.
func triviaClasses(toks []minijs.Token) []string {
	cls := map[string]bool{}
	var prev *minijs.Token
	dropped := false
	for i := range toks {
		t := &toks[i]
		switch {
		case t.Omitted:
			dropped = true
			continue
		case t.Kind == minijs.TComment:
			if strings.HasPrefix(t.Text, "//") {
				cls["trivia:line-comment"] = true
			} else if strings.ContainsAny(t.Text, "\n\r\u2028\u2029") {
				cls["trivia:block-comment-with-LT"] = true
			} else {
				cls["trivia:block-comment"] = true
			}
			continue
		case t.Kind == minijs.TLT:
			cls["trivia:LT "+harness.Quote(t.Text)] = true
			continue
		case t.Kind == minijs.TWS:
			if t.Text != " " {
				cls["trivia:ws-other"] = true
			}
			continue
		}
		if dropped {
			what := "other"
			switch {
			case t.Kind == minijs.TPunct && t.Text == "}":
				what = "}"
			case t.Kind == minijs.TPunct && (t.Text == "++" || t.Text == "--"):
				what = "++/--"
			case t.Kind == minijs.TKeyword:
				what = "keyword"
			case t.Kind == minijs.TIdent:
				what = "ident"
			}
			after := "expr"
			if prev != nil && prev.Kind == minijs.TKeyword {
				switch prev.Text {
				case "return", "break", "continue", "debugger":
					after = prev.Text
				}
			}
			cls["asi:"+after+" before "+what] = true
			dropped = false
		}
		if t.NoLTBefore {
			cls["restricted-gap"] = true
		}
		if t.Kind == minijs.TRegex && prev != nil {
			cls["regex-after:"+prevClass(prev)] = true
		}
		if t.Kind == minijs.TPunct && t.Text == "/" && prev != nil {
			cls["div-after:"+prevClass(prev)] = true
		}
		prev = t
	}
	if dropped {
		cls["asi:before EOF"] = true
	}
	var out []string
	for c := range cls {
		out = append(out, c)
	}
	sort.Strings(out)
	return out
}

func prevClass(p *minijs.Token) string {
	switch p.Kind {
	case minijs.TPunct:
		return p.Text
	case minijs.TKeyword:
		return "kw-" + p.Text
	}
	return p.Kind.String()
}
