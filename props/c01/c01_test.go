// Package c01 decides property C01: programs evaluate to the result ES5 prescribes, on every route.
package c01

import (
	"fmt"
	"math"
	"sort"
	"strconv"
	"strings"
	"testing"

	"github.com/robertkrimen/otto"
	"github.com/robertkrimen/otto/parser"
	"pgregory.net/rapid"

	"verif/lib/es5"
	"verif/lib/harness"
	"verif/lib/prog"
)

func TestMain(m *testing.M) { harness.Main(m, "C01") }

// ---- observing otto ---------------------------------------------------------------------------------

type obs struct {
	Trace      []string
	Completion string
	Threw      string // "" none; otherwise the text of the returned error
	Panic      string
}

type observer struct {
	vm     *otto.Otto
	global otto.Value
	seen   []otto.Value
	trace  []string
}

func newObserver() *observer {
	o := &observer{vm: otto.New()}
	o.vm.SetStackDepthLimit(400)
	g, err := o.vm.Run("this")
	if err != nil {
		panic(err)
	}
	o.global = g
	o.vm.Set("log", func(call otto.FunctionCall) otto.Value {
		parts := make([]string, len(call.ArgumentList))
		for i, v := range call.ArgumentList {
			parts[i] = o.render(v)
		}
		o.trace = append(o.trace, strings.Join(parts, "|"))
		return otto.UndefinedValue()
	})
	harness.ArmCPU(o.vm, 600_000, 20) // 20 s of CPU per route: slower than that is given up (discard)
	return o
}

func (o *observer) render(v otto.Value) string {
	switch {
	case v.IsUndefined():
		return "undefined"
	case v.IsNull():
		return "null"
	case v.IsBoolean():
		b, _ := v.ToBoolean()
		return "boolean:" + strconv.FormatBool(b)
	case v.IsNumber():
		f, _ := v.ToFloat()
		if f == 0 && math.Signbit(f) {
			return "number:-0"
		}
		return "number:" + es5.NumberToString(f)
	case v.IsString():
		s, _ := v.ToString()
		return "string:" + strconv.Quote(s)
	case v.IsObject():
		if v == o.global {
			return "global"
		}
		id := -1
		for i, s := range o.seen {
			if s == v {
				id = i
				break
			}
		}
		if id < 0 {
			id = len(o.seen)
			o.seen = append(o.seen, v)
		}
		if v.IsFunction() {
			return "function#" + strconv.Itoa(id)
		}
		return "object:" + v.Class() + "#" + strconv.Itoa(id)
	}
	return "unknown"
}

func (o *observer) finish(r harness.RunResult) obs {
	out := obs{Trace: o.trace}
	switch {
	case r.Budget:
		out.Panic = "budget"
	case r.Panicked:
		out.Panic = fmt.Sprint(r.Panic)
	case r.Err != nil:
		out.Threw = r.Err.Error()
		if out.Threw == "" {
			out.Threw = "(empty error text)"
		}
	default:
		out.Completion = o.render(r.Value)
	}
	return out
}

var routes = []string{"run-string", "compile-run-script", "parse-run-program", "eval-fresh", "script-on-other-runtime-1", "script-on-other-runtime-2"}

var sharedScript = map[string]*otto.Script{}

func runRoute(route, src string) obs {
	o := newObserver()
	switch route {
	case "run-string":
		return o.finish(harness.Run(o.vm, src))
	case "compile-run-script":
		s, err := o.vm.Compile("", src)
		if err != nil {
			return obs{Threw: "compile: " + err.Error()}
		}
		return o.finish(harness.Run(o.vm, s))
	case "parse-run-program":
		p, err := parser.ParseFile(nil, "", src, 0)
		if err != nil {
			return obs{Threw: "parse: " + err.Error()}
		}
		return o.finish(harness.Run(o.vm, p))
	case "eval-fresh":
		return o.finish(harness.Guard(func() (otto.Value, error) { return o.vm.Eval(src) }))
	case "script-on-other-runtime-1":
		a := otto.New()
		s, err := a.Compile("", src)
		if err != nil {
			return obs{Threw: "compile: " + err.Error()}
		}
		sharedScript[src] = s
		return o.finish(harness.Run(o.vm, s))
	case "script-on-other-runtime-2":
		s := sharedScript[src]
		delete(sharedScript, src)
		if s == nil {
			return obs{Threw: "no script"}
		}
		return o.finish(harness.Run(o.vm, s))
	}
	panic(route)
}

// ---- the facet ---------------------------------------------------------------------------------------

type progCase struct {
	Prog *prog.Node `json:"prog"`
}

// features that make a case non-trivial (DESIGN C01): ≥1 function call and ≥1 of these
var interesting = []string{"abrupt-through-finally", "throw-through-finally", "finally-overrides-abrupt", "with", "with-call-this", "eval-direct", "eval-indirect",
	"call-method", "apply-method", "bind-method", "new", "ctor-returns-object", "accessor-literal", "labelled-break", "switch-default", "instanceof", "catch", "method-call", "delete-prop", "typeof-unresolvable", "forin", "new-bound", "arguments-mapped-write", "arguments-mapped-read", "switch-fallthrough-possible"}

func sameTrace(a, b []string) bool {
	if len(a) != len(b) {
		return false
	}
	for i := range a {
		if a[i] != b[i] {
			return false
		}
	}
	return true
}

func showTrace(t []string) string {
	if len(t) > 12 {
		return fmt.Sprintf("%q …(%d entries)", t[:12], len(t))
	}
	return fmt.Sprintf("%q", t)
}

func firstDiff(a, b []string) string {
	for i := 0; i < len(a) && i < len(b); i++ {
		if a[i] != b[i] {
			return fmt.Sprintf("entry %d: %q vs %q", i, a[i], b[i])
		}
	}
	return fmt.Sprintf("lengths %d vs %d", len(a), len(b))
}

// compareWithModel returns "" when otto's observation equals the model's.
func compareWithModel(m prog.Result, o obs, skipCompletion bool) string {
	if o.Panic != "" {
		return "Go panic escaped from otto: " + o.Panic
	}
	otrace := o.Trace
	if strings.HasPrefix(m.Threw, "value:object") || strings.HasPrefix(m.Threw, "value:function") {
		// an uncaught thrown OBJECT: the host (Run) renders it as an error text and may call its toString /
		// valueOf for that, after the program has ended — host behaviour, not program behaviour
		if len(otrace) > len(m.Trace) {
			otrace = otrace[:len(m.Trace)]
		}
	}
	if !sameTrace(m.Trace, otrace) {
		return "host-call trace differs (" + firstDiff(m.Trace, o.Trace) + "): ES5 " + showTrace(m.Trace) + " otto " + showTrace(o.Trace)
	}
	if m.Threw != "" {
		if o.Threw == "" {
			return "ES5: uncaught exception " + m.Threw + "; otto completed normally with " + o.Completion
		}
		switch {
		case strings.HasPrefix(m.Threw, "error:"):
			parts := strings.SplitN(m.Threw, ":", 3)
			want := parts[1]
			if len(parts) == 3 && parts[2] != "" {
				want += ": " + parts[2]
			}
			if len(parts) == 3 {
				if o.Threw != want {
					return "uncaught exception: ES5 " + want + ", otto " + o.Threw
				}
			} else if o.Threw != want && !strings.HasPrefix(o.Threw, want+":") {
				return "uncaught exception class: ES5 " + want + ", otto " + o.Threw
			}
		}
		return ""
	}
	if o.Threw != "" {
		return "otto threw " + o.Threw + "; ES5: normal completion " + m.Completion
	}
	if !skipCompletion && m.Completion != o.Completion {
		return "completion value: ES5 " + m.Completion + ", otto " + o.Completion
	}
	return ""
}

func checkProgram(c progCase) harness.Outcome {
	src := prog.Print(c.Prog)
	m := prog.Run(c.Prog, 60000)
	out := harness.Outcome{}
	for k := range m.Flags {
		out.Classes = append(out.Classes, k)
	}
	sort.Strings(out.Classes)
	modelOK := m.Discard == ""
	if m.Discard == "step budget" || m.Discard == "call depth" {
		out.Discard = "model " + m.Discard // possibly non-terminating: not run on otto at all
		return out
	}
	if !modelOK {
		out.Classes = append(out.Classes, "model-discard:"+m.Discard)
	}
	if modelOK && m.Flags["call"] > 0 {
		for _, f := range interesting {
			if m.Flags[f] > 0 {
				out.Nontrivial = true
			}
		}
	}
	// known-finding classes decided by what the reference execution actually did
	skipCompletion := false
	if m.Flags["abrupt-completion-consumed"] > 0 && harness.Known("C01-ABRUPT-COMPLETION-VALUE") {
		skipCompletion = true
		out.Excluded = append(out.Excluded, "C01-ABRUPT-COMPLETION-VALUE")
	}
	if m.Flags["abrupt-completion-consumed-in-eval"] > 0 && harness.Known("C01-ABRUPT-COMPLETION-VALUE") {
		// the result of an eval() call is a completion value that otto gets wrong for this reason: the
		// program's ordinary values depend on it, so only the routes are compared with each other
		out.Excluded = append(out.Excluded, "C01-ABRUPT-COMPLETION-VALUE(eval)")
		modelOK = false
	}
	for flag, id := range excludeByFlag {
		if m.Flags[flag] > 0 && harness.Known(id) {
			out.Excluded = append(out.Excluded, id)
			modelOK = false
		}
	}
	var first obs
	for i, route := range routes {
		o := runRoute(route, src)
		if o.Panic == "budget" {
			out.Discard = "otto poll budget"
			return out
		}
		if i == 0 {
			first = o
		}
		if route == "eval-fresh" && m.Flags["delete-global-binding"] > 0 {
			continue // bindings made by eval code are deletable (10.4.2): a legitimate difference of this route
		}
		if modelOK {
			if d := compareWithModel(m, o, skipCompletion); d != "" {
				out.Fail = fmt.Sprintf("route %s: %s\nprogram:\n%s", route, d, src)
				return out
			}
		} else if i > 0 {
			if o.Panic != "" {
				out.Fail = fmt.Sprintf("route %s: Go panic escaped: %s\nprogram:\n%s", route, o.Panic, src)
				return out
			}
			if !sameTrace(first.Trace, o.Trace) || first.Completion != o.Completion || first.Threw != o.Threw {
				out.Fail = fmt.Sprintf("route %s disagrees with run-string: trace %s vs %s (%s), completion %s vs %s, error %q vs %q\nprogram:\n%s",
					route, showTrace(o.Trace), showTrace(first.Trace), firstDiff(first.Trace, o.Trace), o.Completion, first.Completion, o.Threw, first.Threw, src)
				return out
			}
		} else if o.Panic != "" {
			out.Fail = fmt.Sprintf("route %s: Go panic escaped: %s\nprogram:\n%s", route, o.Panic, src)
			return out
		}
	}
	if !modelOK && len(out.Excluded) == 0 {
		// the routes were still compared with each other
		out.Classes = append(out.Classes, "routes-only")
	}
	return out
}

// model flag → known finding id whose class it marks
var excludeByFlag = map[string]string{
	// 15.4.5.1 converts the value assigned to an array's length twice; otto once (recorded for C08 too)
	"array-length-from-object": "C01-LENGTH-SINGLE-CONVERSION",
}

var programs = harness.Register(&harness.Facet[progCase]{
	Name:     "programs",
	Rule:     "rapid: closed terminating ES5 programs from the semantic generator (lib/prog: hoisting, closures, this under plain/method/call/apply/bind/new, constructors returning objects or primitives, prototype chains and instanceof, arguments aliasing, direct and indirect eval of generated sub-programs, with, all loop forms with labelled break/continue, switch with default in any position and fall-through, try/catch/finally with every completion type, accessors in literals, delete, typeof of unresolvable names, compound assignment and ++/-- on identifiers and members); each is evaluated by the ES5 reference evaluator and by otto along six submission routes; non-trivial = the reference execution made ≥1 script function call and hit ≥1 of {abrupt completion through finally, with lookup, eval, call/apply/bind, new, accessor, labelled break, instanceof, catch, method call, delete, typeof unresolvable, for-in}; distinct by program tree",
	Quick:    6000,
	Thorough: 25000,
	Gen:      func(t *rapid.T) progCase { return progCase{Prog: prog.GenProgram(t)} },
	Check:    checkProgram,
})

func TestPrograms(t *testing.T) { programs.Run(t) }
