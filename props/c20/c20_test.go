// Package c20 decides property C20: runtimes are independent — concurrent use of separate runtimes
// is race-free and gives the same results as running alone; a compiled Script is never modified.
// The test binary is built with -race; every case runs in a worker subprocess so that a race
// report (GORACE halt_on_error=1 exitcode=66) or a fatal "concurrent map" error is attributed to
// the case in flight.
package c20

import (
	"encoding/json"
	"fmt"
	"hash/fnv"
	"os"
	"path/filepath"
	"reflect"
	"runtime"
	"strconv"
	"strings"
	"sync"
	"testing"
	"time"

	"github.com/robertkrimen/otto"
	"github.com/robertkrimen/otto/ast"
	"github.com/robertkrimen/otto/parser"
	"pgregory.net/rapid"

	"verif/lib/harness"
	"verif/lib/heap"
)

func TestMain(m *testing.M) {
	harness.RegisterWorker("c20", serve)
	harness.Main(m, "C20")
}

// ---- the case -------------------------------------------------------------------------------------

type rtSpec struct {
	Kind      string   `json:"kind"`      // fresh | copy | copy2 (a copy of a copy; of another runtime of the case when there is one) | template
	Programs  []string `json:"programs"`  // private programs, run in order
	Shared    bool     `json:"shared"`    // also runs the shared Script and the shared Program
	Interrupt bool     `json:"interrupt"` // has an interrupt channel (the evaluator then yields at every step)
	Seed      int      `json:"seed"`      // per-runtime random source seed
	// DefaultRandom: the runtime starts without a random source of its own and draws from Math.random's default
	// one (results not printed) before its seeded source is installed
	DefaultRandom bool `json:"default_random"`
}

type raceCase struct {
	Setup      []string `json:"setup"`  // history of the template runtime
	SharedSrc  string   `json:"shared"` // compiled once to a Script and parsed once to a Program, used by several runtimes
	Reuse      int      `json:"reuse"`  // how often each sharing runtime runs the shared Script
	Runtimes   []rtSpec `json:"runtimes"`
	Procs      int      `json:"gomaxprocs"`
	CopyInPara bool     `json:"copy_in_parallel"` // copies of the template are made concurrently, while the template itself runs
}

// programs touching every subsystem with package-level data
var subsystems = []string{
	// parsing at run time, with and without syntax errors (eval, Function, RegExp): parser state shared between runtimes
	`var r = []; var srcs = ["1+", "var (", "a b", "x = {", "/[/", "1 +* 2", "function(){", "'unterminated", "({a:1,b:2}).b", "[1,2,3].length"]; for (var i = 0; i < srcs.length; i++) { try { r.push("ok:" + eval(srcs[i])) } catch (e) { r.push(e.name + ":" + e.message) } try { r.push(typeof new Function("a", "return " + srcs[i])) } catch (e2) { r.push(e2.name) } } try { new RegExp("(") } catch (e3) { r.push(e3.name) } log(r.join("|"))`,
	"log(" + "String(" + librarySweep + ").length, " + librarySweep + ")",
	`var m = /(\d+)-(\d+)/.exec("tel 555-1234"); log(m[1], m[2], "a1b22c".replace(/\d+/g, function(x){ return x.length }), RegExp("^[a-c]+$","i").test("ABC"))`,
	`log(JSON.stringify({a:[1,2,{b:null}],c:"x y",d:1e21}), JSON.parse('{"k":[1,2.5,"s",true,null]}').k.length, JSON.stringify([new Date(0)]))`,
	`var d = new Date(Date.UTC(2001, 1, 3, 4, 5, 6, 7)); log(d.toISOString(), d.getUTCDay(), Date.parse("2001-02-03T04:05:06.007Z"), new Date(NaN).getTime())`,
	`log([5,3,9,1,7,2,8].sort(function(a,b){ return a-b }).join(), ["b","a","c"].sort().reverse().join(""), [1,2,3,4].map(function(x){ return x*x }).filter(function(x){ return x%2 }).join())`,
	`log((1234.5678).toFixed(2), (0.000001234).toExponential(3), (255).toString(16), (1e21).toString(), (123.456).toPrecision(4), parseFloat("3.14abc"), parseInt("ff", 16), Number("0x10"))`,
	`log(Math.random() < 1, Math.floor(Math.random() * 1000), Math.max(1, 2, 3), Math.pow(2, 10), Math.round(2.5), Math.atan2(1, 1).toFixed(4))`,
	`log(encodeURIComponent("a b&c=d/é"), decodeURIComponent("%E2%82%AC"), escape("ä b"), unescape("%u20AC"), encodeURI("http://x/y z?q=1#f"))`,
	`var st; try { null.f } catch (e) { st = e } log(st.name, st instanceof TypeError, String(st).length > 0); try { undefinedFunction() } catch (e) { log(e.name, typeof e.stack) } try { new Array(-1) } catch (e) { log(e.name) }`,
	`var o = {}; Object.defineProperty(o, "g", {get: function(){ return 1 }, configurable: true}); Object.defineProperty(o, "s", {set: function(v){}, configurable: true}); var dg = Object.getOwnPropertyDescriptor(o, "g"), ds = Object.getOwnPropertyDescriptor(o, "s"); log(typeof dg.set, typeof ds.get, o.g, o.s)`,
	`var F = new Function("a", "b", "return a * b"); log(F(6, 7), eval("1 + 2 * 3"), (0, eval)("typeof F"), (function(){ return eval("arguments.length") })(1, 2, 3))`,
	`var s = "héllo wörld €"; log(s.toUpperCase(), s.length, s.indexOf("w"), s.split(" ").length, s.charCodeAt(1), s.substring(1, 4), "  x ".trim(), "abc".localeCompare("abd"))`,
	`var keys = []; for (var k in {z:1, a:2, m:3}) keys.push(k); log(keys.join(), Object.keys({q:1, b:2}).join(), Object.getOwnPropertyNames(Math).length > 10)`,
	`function fib(n){ return n < 2 ? n : fib(n-1) + fib(n-2) } log(fib(12)); var acc = 0; for (var i = 0; i < 200; i++) { acc += i % 7 } log(acc)`,
	`var a = []; for (var i = 0; i < 50; i++) a.push(String.fromCharCode(65 + i % 26)); log(a.join("").length, a.slice(3, 6).join(), a.indexOf("C"), a.lastIndexOf("C"), a.concat([1,2]).length, a.splice(1, 2).join())`,
	`log(typeof console, typeof console.log, Object.prototype.toString.call([]), Object.prototype.toString.call(null), [] + {}, [1,[2,3]] + "", String(function(){ return 1 }).length > 5)`,
	`log(new Error("e1").message, new RangeError("r").name, Error("plain") instanceof Error, Object.prototype.toString.call(new TypeError))`,
}

// a sweep over the library: one call of (nearly) every built-in whose implementation could keep
// package-level state (caches, scratch buffers, lazily built tables)
const librarySweep = `(function(){ var r = [];
 r.push("hello world".replace("o", "0"), "a-b-c".replace("-", "+"), "x".replace("y", "z"), "aXbXc".split("X").length, "a1b2".split(/\d/).join("|"), "abc".split("").length);
 r.push("abc".localeCompare("abd"), "Ab".toLowerCase(), "ab".toUpperCase(), " t ".trim(), "abc".substr(1, 1), "abc".slice(-2), "abc".concat("d", 1), "abc".lastIndexOf("c"), "abc".charAt(1), String.fromCharCode(97, 8364));
 r.push((1234.5678).toFixed(1), (0.00001).toString(), (255).toString(2), (1e21).toPrecision(3), (12.5).toExponential(1), Number("12.5e1"), parseInt("077", 8), parseFloat(".5x"), (5).toLocaleString !== undefined);
 r.push([3, 1, 2].sort().join(), [1, [2, [3]]].toString(), [1, 2, 3].reverse().join("-"), [1, 2, 3].indexOf(2), [1, 2, 3].reduce(function(a, b){ return a + b }), [1, 2, 3].slice(1).concat(9).length, Array.isArray([]), [1, 2, 3].splice(1, 1)[0], [].concat([1], 2).length);
 r.push(JSON.stringify({a: [1, {b: "x"}], c: null}, null, 2).length, JSON.stringify("\u2028<>&"), JSON.parse("[1,2,{\"a\":[]}]").length, JSON.stringify({toJSON: function(){ return 5 }}));
 r.push(new Date(0).toISOString(), new Date(86400000).getUTCDay(), Date.UTC(2000, 1, 29), new Date(2000, 0, 1).getFullYear(), new Date(0).toUTCString().length > 5, Date.parse("1970-01-02T00:00:00.000Z"), new Date(1e12).toJSON());
 r.push(Math.max(1, 2), Math.min(), Math.round(-0.5), Math.pow(2, 0.5).toFixed(5), Math.floor(-1.5), Math.abs(-3), Math.atan2(0, -1).toFixed(3), Math.sqrt(16), Math.ceil(0.2), Math.exp(0), Math.log(1), Math.sin(0), Math.random() >= 0);
 r.push(encodeURI("a b/é?x=1"), encodeURIComponent("a&b=c"), decodeURI("%41%20"), decodeURIComponent("%E2%82%AC"), escape("a b€"), unescape("%u20AC%41"), isNaN("x"), isFinite("1"), typeof eval("(function(){})"));
 r.push(/(\d+)-(\w+)/.exec("12-ab")[2], /a/gi.test("A"), "aBc".match(/[a-z]/g).length, "abc".search(/c/), new RegExp("^a.c$", "m").source, /x/.toString(), "a,b".replace(/,/g, function(m){ return ";" }), RegExp("[a-c]+").exec("xxabcxx").index);
 r.push(Object.keys({a: 1, b: 2}).join(), Object.getOwnPropertyNames([1]).join(), Object.create({p: 1}).p, Object.isFrozen(Object.freeze({})), Object.getPrototypeOf([]) === Array.prototype, ({}).hasOwnProperty("x"), Object.prototype.toString.call(new Date(0)), typeof Object.getOwnPropertyDescriptor(Math, "PI").value);
 r.push(String(new Error("e")), new TypeError("t").message, (function(){ try { null.x } catch (e) { return e.name + (typeof e.stack) } })(), (function(){ try { undefinedName } catch (e) { return e instanceof ReferenceError } })(), (function(){ try { new Array(-1) } catch (e) { return e.name } })(), (function(){ try { decodeURI("%") } catch (e) { return e.name } })());
 r.push(typeof Function("a", "return a")(1), (function(a, b){ return arguments.length }).call(null, 1, 2, 3), (function(){ return this.v }).bind({v: 4})(), (function(){}).toString().length > 5, Boolean(""), new Number(3) + 1, new String("ab").length, Number.MAX_VALUE > 1, typeof console);
 return r.join("~") })()`

const sharedSuffix = `
;(function(){ var n = 0; A: B: for (var i = 0; i < 4; i++) { C: switch (i) { case 1: continue A; case 2: break C; default: n += i } D: { if (i === 3) break D; n++ } E: do { n++; continue E } while (false); F: for (var k in {a: 1, b: 2}) { if (k === "a") continue F; n++ } }
  function args(a, b){ arguments[0] = b; delete arguments[1]; return a + ":" + arguments.length } return n + ":" + args(1, 2) + ":" + args("x", "y") })();`

var sharedPrograms = []string{
	// the outcome of every run depends on the function declarations being instantiated anew (10.5): the name was
	// reassigned and the function object carried state at the end of the previous run
	`function tick(){ return 1 } tick.count = (tick.count || 0) + 1; var __r = tick.count + ":" + typeof tick + ":" + (typeof __saved === "undefined" ? "first" : __saved === tick) + ":" + tick(); var __saved = tick; tick = 5; log("redeclared", __r); __r;`,
	// error objects with stack text and an uncaught error: the first source-position queries on the shared
	// Script / Program happen concurrently
	`var __n = (typeof __n === "number" ? __n : 0) + 1; function sharedThrower(k){ if (k <= 0) { null.boom } return sharedThrower(k - 1) }
 try { sharedThrower(3) } catch (e) { log("stack", typeof e.stack, String(e.stack).split("\n").length, e.name) }
 try { undefinedFunctionShared() } catch (e) { log(e.name, String(e.stack).length > 0) }
 log("shared run", __n); if (__n % 2 === 0) { throw new RangeError("uncaught from shared " + __n) } __n;`,
	`var __n = (typeof __n === "number" ? __n : 0) + 1; log("shared run", __n, /x+/.test("axxb"), JSON.stringify([__n]), [3,1,2].sort().join("")); function sharedFn(a){ return a + __n } sharedFn(10);`,
	`(function(){ var t = 0; for (var i = 0; i < 60; i++) { t += (i * 7) % 5 } log("sum", t, typeof counter, (12.5).toFixed(1), "Ab".toLowerCase()); return t })()`,
	`var sh = {list: [1, 2, 3], re: /a(b)c/g}; sh.re.lastIndex = 0; log(sh.re.exec("abcabc")[1], sh.re.lastIndex, sh.list.map(function(x){ return x + 1 }).join()); try { throw new Error("shared") } catch (e) { log(e.message) } sh.list.length;`,
}

// ---- worker side ------------------------------------------------------------------------------------

type verdict struct {
	Fail     string `json:"fail,omitempty"`
	Discard  string `json:"discard,omitempty"`
	Sharing  int    `json:"sharing"`
	Runtimes int    `json:"runtimes"`
}

type budgetHit struct{}

func runOn(vm *otto.Otto, src interface{}) string {
	r := harness.Run(vm, src)
	if r.Budget {
		panic(budgetHit{})
	}
	if oe, ok := r.Err.(*otto.Error); ok {
		// the full text with the stack trace: resolves source positions in the (possibly shared) file
		return "throws:" + oe.String()
	}
	return r.Describe()
}

func lcg(seed int) func() float64 {
	x := uint64(seed)*2654435761 + 12345
	return func() float64 {
		x = x*6364136223846793005 + 1442695040888963407
		return float64(x>>11) / float64(1<<53)
	}
}

func prepare(vm *otto.Otto, spec rtSpec) {
	vm.SetStackDepthLimit(200)
	if spec.DefaultRandom {
		vm.SetRandomSource(nil)
	} else {
		vm.SetRandomSource(lcg(spec.Seed))
	}
	if spec.Interrupt {
		harness.Arm(vm, 200_000)
	} else {
		vm.Interrupt = nil
	}
}

func buildTemplate(setup []string) *otto.Otto {
	t := otto.New()
	t.SetStackDepthLimit(200)
	harness.Arm(t, 2_000_000)
	runOn(t, heap.Prelude)
	for _, p := range heap.RichSetup() { // every clone path is present in every template
		runOn(t, p)
	}
	for _, p := range setup {
		runOn(t, p)
	}
	// the template has itself run a pre-parsed Program and a compiled Script before it is copied
	if ap, err := parser.ParseFile(nil, "template.js", "var __templateRan = (typeof __templateRan === 'number' ? __templateRan : 0) + 1;", 0); err == nil {
		runOn(t, ap)
	}
	if sc, err := t.Compile("template-script.js", "__templateRan += 1;"); err == nil {
		runOn(t, sc)
	}
	t.Interrupt = nil
	return t
}

func makeRuntime(template *otto.Otto, spec rtSpec) *otto.Otto {
	var vm *otto.Otto
	switch spec.Kind {
	case "fresh":
		vm = otto.New()
		prepare(vm, rtSpec{Interrupt: true})
		runOn(vm, heap.Prelude)
	case "copy2":
		vm = template.Copy().Copy()
	default: // copy, template (the template's own stand-in is a copy in the baseline, see execute)
		vm = template.Copy()
	}
	prepare(vm, spec)
	return vm
}

// script of one runtime: its private programs, the shared script Reuse times and the shared program once
func execute(vm *otto.Otto, spec rtSpec, script *otto.Script, program *ast.Program, reuse int) []string {
	return executeWith(vm, spec, func() interface{} { return script }, func() interface{} { return program }, reuse)
}

// executeWith: script and program are asked for before every use (the shared ones, or freshly compiled twins)
func executeWith(vm *otto.Otto, spec rtSpec, script, program func() interface{}, reuse int) []string {
	var out []string
	// the host keeps the errors of two failed parses while this and other runtimes go on parsing, and reads them
	// only at the end: they must still describe their own source text
	_, heldRun := vm.Run("var held = (" + strconv.Itoa(spec.Seed) + ";\n  ) oops")
	_, heldCompile := vm.Compile("held-"+strconv.Itoa(spec.Seed)+".js", "function ("+strconv.Itoa(spec.Seed))
	if spec.DefaultRandom {
		// Math.random without a source of the runtime's own: whatever all runtimes of the process share behind it
		// is used concurrently; the values themselves are not part of the result
		out = append(out, "default-random:"+runOn(vm, `(function(){ var ok = 0; for (var i = 0; i < 300; i++) { var r = Math.random(); if (r >= 0 && r < 1) ok++ } return ok })()`))
		vm.SetRandomSource(lcg(spec.Seed))
	}
	// every runtime sweeps the whole standard library once (twice for the second half of the seeds), whatever
	// else it was drawn to do: package-level state behind any built-in is then used by all runtimes of every case
	for k := 0; k <= spec.Seed%2; k++ {
		out = append(out, "library:"+runOn(vm, librarySweep))
	}
	for i, p := range spec.Programs {
		if (i+spec.Seed)%2 == 1 {
			// pre-parsed route: an *ast.Program that is new to this runtime (and to anything it shares with its template)
			if ap, err := parser.ParseFile(nil, "private.js", p, 0); err == nil {
				out = append(out, "ast:"+runOn(vm, ap))
			} else {
				out = append(out, "parse-error")
			}
		} else {
			out = append(out, runOn(vm, p))
		}
		if spec.Shared && i == 0 {
			for r := 0; r < reuse; r++ {
				out = append(out, "script:"+runOn(vm, script()))
			}
			out = append(out, "program:"+runOn(vm, program()))
		}
	}
	// call every function the history and the programs left in the global scope (closures, bound functions
	// made before Copy() …): storage shared between a template and its copies is then used concurrently
	out = append(out, fmt.Sprintf("held-errors:%v | %v", heldRun, heldCompile))
	// the exported functions are called without arguments, which generated ones were not written for: a runtime
	// without an interrupt channel gets a poll budget for this step only (a hit discards the case)
	unarmed := vm.Interrupt == nil
	if unarmed {
		harness.Arm(vm, 200_000)
	}
	out = append(out, "exercise:"+runOn(vm, heap.Exercise))
	if unarmed {
		vm.Interrupt = nil
	}
	out = append(out, "trace:"+runOn(vm, `__trace.join("\n")`))
	return out
}

// structural hash of a compiled Script through read-only reflection (unexported fields included)
func scriptHash(s *otto.Script) uint64 {
	h := fnv.New64a()
	seen := map[uintptr]bool{}
	var walk func(v reflect.Value, depth int)
	walk = func(v reflect.Value, depth int) {
		if depth > 200 {
			return
		}
		switch v.Kind() {
		case reflect.Ptr:
			if v.IsNil() {
				h.Write([]byte("nil"))
				return
			}
			if seen[v.Pointer()] {
				h.Write([]byte("seen"))
				return
			}
			seen[v.Pointer()] = true
			walk(v.Elem(), depth+1)
		case reflect.Interface:
			if v.IsNil() {
				h.Write([]byte("nil"))
				return
			}
			h.Write([]byte(v.Elem().Type().String()))
			walk(v.Elem(), depth+1)
		case reflect.Struct:
			h.Write([]byte(v.Type().String()))
			for i := 0; i < v.NumField(); i++ {
				h.Write([]byte(v.Type().Field(i).Name))
				walk(v.Field(i), depth+1)
			}
		case reflect.Slice, reflect.Array:
			h.Write([]byte(strconv.Itoa(v.Len())))
			for i := 0; i < v.Len(); i++ {
				walk(v.Index(i), depth+1)
			}
		case reflect.Map:
			h.Write([]byte("map" + strconv.Itoa(v.Len())))
			keys := v.MapKeys()
			strs := make([]string, len(keys))
			for i, k := range keys {
				strs[i] = fmt.Sprint(k)
			}
			sortStrings(strs)
			for _, k := range strs {
				h.Write([]byte(k))
			}
		case reflect.String:
			h.Write([]byte(v.String()))
		case reflect.Bool:
			h.Write([]byte(strconv.FormatBool(v.Bool())))
		case reflect.Int, reflect.Int8, reflect.Int16, reflect.Int32, reflect.Int64:
			h.Write([]byte(strconv.FormatInt(v.Int(), 10)))
		case reflect.Uint, reflect.Uint8, reflect.Uint16, reflect.Uint32, reflect.Uint64, reflect.Uintptr:
			h.Write([]byte(strconv.FormatUint(v.Uint(), 10)))
		case reflect.Float32, reflect.Float64:
			h.Write([]byte(strconv.FormatFloat(v.Float(), 'g', -1, 64)))
		case reflect.Func, reflect.Chan, reflect.UnsafePointer:
			h.Write([]byte("opaque"))
		}
	}
	walk(reflect.ValueOf(s), 0)
	return h.Sum64()
}

func sortStrings(s []string) {
	for i := 1; i < len(s); i++ {
		for j := i; j > 0 && s[j] < s[j-1]; j-- {
			s[j], s[j-1] = s[j-1], s[j]
		}
	}
}

func serve(req json.RawMessage) json.RawMessage {
	var c raceCase
	if err := json.Unmarshal(req, &c); err != nil {
		b, _ := json.Marshal(verdict{Fail: "bad request: " + err.Error()})
		return b
	}
	v := runCase(c)
	b, _ := json.Marshal(v)
	return b
}

// canary is what a fresh runtime computes for a fixed program touching the whole standard library (twice in one
// program, so that drift inside a run shows too). Package-level state that earlier use has changed (a shared
// table doubled in place, a cache keyed too coarsely) makes a later canary differ from the first one of the process.
const canaryProbes = `[(0.5).toFixed(18), (1e20).toExponential(1), (12345678901234567890).toPrecision(4), (0.1).toFixed(20), (1.45).toFixed(1), (1e21).toExponential(5), (255).toString(36), (0.000001234).toPrecision(2), (123.456).toFixed(10), (5e-324).toString(), (1/3).toString(3)].join()`

var canary0 string

func canary() string {
	vm := otto.New()
	vm.SetStackDepthLimit(200)
	vm.Interrupt = nil
	runOn(vm, heap.Prelude)
	src := "[" + canaryProbes + ", " + librarySweep + ", " + canaryProbes + ", " + librarySweep + "].join('\n')"
	return runOn(vm, src)
}

func canaryDrift(when string) string {
	c := canary()
	if canary0 == "" {
		canary0 = c
		return ""
	}
	if c != canary0 {
		return fmt.Sprintf("a fresh runtime %s no longer computes what a fresh runtime computed when this process started (state shared by all runtimes of the process was changed by earlier use):\nthen: %.600s\nnow:  %.600s", when, canary0, c)
	}
	return ""
}

func runCase(c raceCase) (v verdict) {
	defer func() {
		if p := recover(); p != nil {
			if _, ok := p.(budgetHit); ok {
				v = verdict{Discard: "poll budget"}
				return
			}
			v = verdict{Fail: fmt.Sprintf("Go panic: %v", p)}
		}
	}()
	if c.Procs > 0 {
		runtime.GOMAXPROCS(c.Procs)
	}
	v.Runtimes = len(c.Runtimes)
	for _, s := range c.Runtimes {
		if s.Shared {
			v.Sharing++
		}
	}
	if d := canaryDrift("at the start of this case"); d != "" {
		return verdict{Fail: d}
	}
	// ---- sequential baseline: every runtime alone ----
	tmplA := buildTemplate(c.Setup)
	scriptA, err := tmplA.Compile("shared.js", c.SharedSrc)
	if err != nil {
		return verdict{Fail: "shared source does not compile: " + err.Error()}
	}
	progA, err := parser.ParseFile(nil, "shared.js", c.SharedSrc, 0)
	if err != nil {
		return verdict{Fail: "shared source does not parse: " + err.Error()}
	}
	hashBefore := scriptHash(scriptA)
	baseline := make([][]string, len(c.Runtimes))
	twins := 0
	for i, spec := range c.Runtimes {
		// alone, every runtime runs under a poll budget, also those that will have no interrupt channel in the
		// concurrent phase: a program that does not terminate on this heap (generated programs were written for an
		// empty one) discards the case here instead of spinning until the worker is given up
		armed := spec
		armed.Interrupt = true
		vm := makeRuntime(tmplA, armed)
		baseline[i] = execute(vm, spec, scriptA, progA, c.Reuse)
		if spec.Shared && twins < 2 {
			twins++
			// the same runtime history with the shared source submitted as TEXT every time (compiled afresh per run):
			// a compiled Script that remembers anything from its previous run on this runtime shows as a difference
			twin := makeRuntime(tmplA, spec)
			viaText := executeWith(twin, spec,
				func() interface{} { sc, _ := twin.Compile("shared.js", c.SharedSrc); return sc },
				func() interface{} { ap, _ := parser.ParseFile(nil, "shared.js", c.SharedSrc, 0); return ap }, c.Reuse)
			if len(viaText) == len(baseline[i]) {
				for k := range viaText {
					if viaText[k] != baseline[i][k] && !strings.HasPrefix(viaText[k], "trace:") && !strings.HasPrefix(viaText[k], "held-errors:") {
						return verdict{Fail: fmt.Sprintf("runtime %d (%s) step %d: with the shared source compiled once to a Script %q, submitted as text each time %q (the Script keeps something from its previous run)\nshared: %s", i, spec.Kind, k, trunc(baseline[i][k]), trunc(viaText[k]), c.SharedSrc)}
					}
				}
			}
		}
	}
	if d := canaryDrift("after the sequential phase of this case"); d != "" {
		return verdict{Fail: d}
	}
	if h := scriptHash(scriptA); h != hashBefore {
		return verdict{Fail: "the compiled Script was modified by sequential execution (structural hash changed)"}
	}
	// ---- concurrent phase: same construction, all at once ----
	tmplB := buildTemplate(c.Setup)
	scriptB, _ := tmplB.Compile("shared.js", c.SharedSrc)
	progB, _ := parser.ParseFile(nil, "shared.js", c.SharedSrc, 0)
	hashB := scriptHash(scriptB)
	results := make([][]string, len(c.Runtimes))
	panics := make([]interface{}, len(c.Runtimes))
	vms := make([]*otto.Otto, len(c.Runtimes))
	var wg sync.WaitGroup
	start := make(chan struct{})
	templateUsed := false
	var lastCopy *otto.Otto
	for i, spec := range c.Runtimes {
		if !c.CopyInPara || spec.Kind == "fresh" {
			if spec.Kind == "template" && !templateUsed {
				templateUsed = true
				vms[i] = tmplB // the template itself keeps running too
				prepare(vms[i], spec)
			} else if spec.Kind == "copy2" && lastCopy != nil {
				// a copy of a copy that is itself in use at the same time (same state as the baseline's
				// template.Copy().Copy(): neither has run anything yet)
				vms[i] = lastCopy.Copy()
				prepare(vms[i], spec)
			} else {
				vms[i] = makeRuntime(tmplB, spec)
			}
			if spec.Kind == "copy" || spec.Kind == "copy2" {
				lastCopy = vms[i]
			}
		}
	}
	for i, spec := range c.Runtimes {
		wg.Add(1)
		go func(i int, spec rtSpec) {
			defer wg.Done()
			defer func() {
				if p := recover(); p != nil {
					panics[i] = p
				}
			}()
			<-start
			vm := vms[i]
			if vm == nil {
				vm = makeRuntime(tmplB, spec) // Copy() of the shared template from several goroutines at once
			}
			results[i] = execute(vm, spec, scriptB, progB, c.Reuse)
		}(i, spec)
	}
	close(start)
	done := make(chan struct{})
	go func() { wg.Wait(); close(done) }()
	select {
	case <-done:
	case <-time.After(90 * time.Second):
		return verdict{Discard: "concurrent phase did not finish in 90 s (machine load?)"}
	}
	for i, p := range panics {
		if p != nil {
			if _, ok := p.(budgetHit); ok {
				return verdict{Discard: "poll budget"}
			}
			return verdict{Fail: fmt.Sprintf("runtime %d panicked during concurrent execution: %v", i, p)}
		}
	}
	if h := scriptHash(scriptB); h != hashB {
		return verdict{Fail: "the compiled Script was modified by concurrent execution (structural hash changed)"}
	}
	for i := range c.Runtimes {
		a, b := baseline[i], results[i]
		if len(a) != len(b) {
			return verdict{Fail: fmt.Sprintf("runtime %d: %d results alone, %d concurrently", i, len(a), len(b))}
		}
		for j := range a {
			if a[j] != b[j] {
				return verdict{Fail: fmt.Sprintf("runtime %d (%s) step %d: alone %q, concurrently %q", i, c.Runtimes[i].Kind, j, trunc(a[j]), trunc(b[j]))}
			}
		}
	}
	if d := canaryDrift("after the concurrent phase of this case"); d != "" {
		return verdict{Fail: d}
	}
	return v
}

func trunc(s string) string {
	if len(s) > 300 {
		return s[:300] + "…"
	}
	return s
}

// ---- parent side -------------------------------------------------------------------------------------

var worker = harness.NewWorker("c20", "GORACE=halt_on_error=1 exitcode=66")

func checkRace(c raceCase) harness.Outcome {
	out := harness.Outcome{}
	resp, st, detail := worker.Do(c, 240*time.Second)
	switch st {
	case harness.WorkerDied:
		out.Nontrivial = true
		if strings.Contains(detail, "DATA RACE") {
			out.Fail = "data race between runtimes (race detector):\n" + detail
		} else {
			out.Fail = "worker process died while runtimes ran concurrently:\n" + detail
		}
		return out
	case harness.WorkerTimeout:
		out.Discard = "worker timeout (inconclusive)"
		if b, err := json.Marshal(c); err == nil { // kept for inspection: which case did not finish
			_ = os.WriteFile(filepath.Join(harness.Root(), ".work", fmt.Sprintf("c20-timeout-%x.json", harness.Hash64(string(b)))), b, 0o644)
		}
		return out
	}
	var v verdict
	if err := json.Unmarshal(resp, &v); err != nil {
		out.Fail = "bad worker answer: " + string(resp)
		return out
	}
	if v.Discard != "" {
		out.Discard = v.Discard
		return out
	}
	out.Nontrivial = v.Sharing >= 2 || countKind(c, "copy")+countKind(c, "copy2")+countKind(c, "template") >= 2
	out.Classes = append(out.Classes, fmt.Sprintf("runtimes:%d", v.Runtimes), fmt.Sprintf("procs:%d", c.Procs))
	if c.CopyInPara {
		out.Classes = append(out.Classes, "copy-in-parallel")
	}
	for _, k := range []string{"fresh", "copy", "copy2", "template"} {
		if countKind(c, k) > 0 {
			out.Classes = append(out.Classes, "kind:"+k)
		}
	}
	out.Fail = v.Fail
	if out.Fail != "" {
		out.Fail += "\nshared: " + c.SharedSrc
	}
	return out
}

func countKind(c raceCase, k string) int {
	n := 0
	for _, r := range c.Runtimes {
		if r.Kind == k {
			n++
		}
	}
	return n
}

var raceFacet = harness.Register(&harness.Facet[raceCase]{
	Name:     "concurrent-runtimes",
	Rule:     "rapid: a template history (all heap builders plus 1-3 drawn ones), one shared source compiled once to a Script and parsed once to a Program, and 2-8 runtimes of mixed provenance (fresh, copies of the template, copies of such copies that run at the same time, the template itself; a third of them first draw from Math.random without a source of their own), each sweeping the whole standard library once or twice and then running 1-4 private programs followed by a call of every function left in the global scope (heap builders/mutators, programs touching every subsystem with package-level data: regexp, JSON, Date, sort, number formatting, Math with a per-runtime random source, URI functions, error creation and stack text, accessor descriptors, Function/eval, strings; 30% from the semantic generator), half of them with an interrupt channel, a Script reuse count 1-50, GOMAXPROCS 2/4/16, optionally Copy() of the template from several goroutines while it runs. Executed in a -race worker subprocess. Oracle: (1) no race report / fatal error (worker death is attributed to the case), (2) each runtime's results and host-free trace equal those of the same programs run alone sequentially, (3) the structural hash of the compiled Script (read-only reflection over all fields) is unchanged by execution, (4) a sharing runtime gets the same results when the shared source is compiled afresh before every run instead of once (a Script that remembers its previous run), (5) stability: a fresh runtime computes the same canary (formatting probes and the library sweep) before, between and after the phases of every case as at the start of the worker process. Non-trivial = at least two runtimes share the Script/Program or the template; distinct by case",
	Quick:    40,
	Thorough: 500,
	Gen: func(t *rapid.T) raceCase {
		c := raceCase{Reuse: rapid.SampledFrom([]int{1, 2, 5, 20, 50}).Draw(t, "reuse"), Procs: rapid.SampledFrom([]int{2, 4, 16}).Draw(t, "procs")}
		for i, n := 0, rapid.IntRange(1, 3).Draw(t, "nsetup"); i < n; i++ {
			c.Setup = append(c.Setup, heap.Piece(t, heap.Builders, "builder"))
		}
		// every shared source ends with labelled loops and a labelled switch, arguments objects and a closure: what the
		// evaluator keeps per compiled node for those (label lists, parameter maps) is then used by all sharers at once
		c.SharedSrc = rapid.SampledFrom(sharedPrograms).Draw(t, "shared") + sharedSuffix
		c.CopyInPara = rapid.IntRange(0, 3).Draw(t, "copypara") == 0
		n := rapid.IntRange(2, 8).Draw(t, "nruntimes")
		for i := 0; i < n; i++ {
			spec := rtSpec{Kind: rapid.SampledFrom([]string{"fresh", "copy", "copy", "copy2", "template"}).Draw(t, "kind"), Shared: rapid.IntRange(0, 2).Draw(t, "sharing") > 0,
				Interrupt: rapid.Bool().Draw(t, "interrupt"), Seed: rapid.IntRange(1, 1000).Draw(t, "seed"), DefaultRandom: rapid.IntRange(0, 2).Draw(t, "defrandom") == 0}
			for j, m := 0, rapid.IntRange(1, 4).Draw(t, "nprog"); j < m; j++ {
				switch rapid.IntRange(0, 2).Draw(t, "ptype") {
				case 0:
					spec.Programs = append(spec.Programs, rapid.SampledFrom(subsystems).Draw(t, "subsystem"))
				case 1:
					spec.Programs = append(spec.Programs, heap.Piece(t, heap.Mutators, "mutator"))
				default:
					spec.Programs = append(spec.Programs, heap.Piece(t, heap.Builders, "builder2"))
				}
			}
			c.Runtimes = append(c.Runtimes, spec)
		}
		return c
	},
	Check: checkRace,
})

func TestConcurrentRuntimes(t *testing.T) {
	defer worker.Close()
	raceFacet.Run(t)
}
