package c04

import (
	"testing"

	"verif/lib/harness"
	"verif/lib/m04"
	"verif/lib/minijs"
)

// ---- replay-only facet: a token list written by hand ------------------------------------------------
// regress/C04-*.json files of this facet pin the false alarms of the (c) comparison that were
// corrected (NOTES.md); the case is a space separated token spelling, analysed like a mutant.

type textCase struct {
	Tokens string `json:"tokens"` // e.g. "( function f ( ) { } ( ) ) ;"
	Mode   int    `json:"mode"`
	Accept bool   `json:"accept"` // the text is valid ES5 and must be accepted
}

func checkTextLocal(c textCase) harness.Outcome {
	toks := m04.LexTokens(c.Tokens)
	_, text := m04.Canonical(toks)
	v := analyse(text, modeOf(c.Mode), toks)
	if v.fail == "" && c.Accept && !v.accepted {
		v.fail = "a valid program is rejected; src=" + show(text)
	}
	return v.outcome(len(toks) >= 5)
}

var textFacet = harness.Register(&harness.Facet[textCase]{
	Name:  "token-text",
	Rule:  "hand written token lists (regression inputs of corrected false alarms and the witnesses of the findings), analysed like a token-mutants case; not generated",
	Check: remote("token-text", checkTextLocal),
})

var handWritten = []textCase{
	{Tokens: "( ( function ( ) { } ? a : ( a ) ) ) ;", Accept: true},
	{Tokens: "do { break ; } while ( ( a ) ) ;", Accept: true},
	{Tokens: "( function f ( ) { } ( ) ) ; a ;", Accept: true},
	{Tokens: "do ; while ( a ) ( b ) ;", Accept: true},
	{Tokens: "x = [ a , ] ; y = { a : 1 , } ; z = [ , , a , , ]", Accept: true},
	{Tokens: "x = { get : 1 , set : 2 , get a ( ) { } , set a ( v ) { } , get set2 ( ) { } , if : 3 , 1.0 : 4 , 'k' : 5 }", Accept: true},
	{Tokens: "for ( var i = 0 in o ) ; for ( ( a in b ) ; ; ) ; for ( ; ; ) { }", Accept: true},
	{Tokens: "L : M : while ( a ) { continue L ; } N : { break N ; }", Accept: true},
	{Tokens: "new new a ( ) ( ) . b [ c ] ( ) ; new a . b ; new ( a ( ) ) ;", Accept: true},
	{Tokens: "switch ( a ) { case 1 : default : case 2 : }", Accept: true},
	{Tokens: "if ( a ) if ( b ) ; else ; else ;", Accept: true},
	{Tokens: "a ++ ; -- b ; + + c ; - - d ; typeof void delete e . f ;", Accept: true},
	{Tokens: "a = b ? c : d = e , f ;", Accept: true},
	{Tokens: "try { } catch ( e ) { } finally { } try { } finally { }", Accept: true},
	{Tokens: "function f ( a , b ) { return ; } ( function ( ) { return a } ) ( )", Accept: true},
	{Tokens: "x = /=a/i", Accept: true},
	{Tokens: "/=/", Accept: true},
	{Tokens: "x = [ /=/ , /=b/g , 1 ] ; y /= /=/ . source", Accept: true},
	{Tokens: "\\u0061 = b\\u0062 . \\u0069f + { i\\u0066 : 1 } . if", Accept: true},
	{Tokens: "var \\u0069f = 1 ;"},
	{Tokens: "function f ( \\u0074his ) { }"},
	{Tokens: "f\\u006fr : while ( 0 ) break f\\u006fr ;"},
	{Tokens: "a . function ( b ) ; a . function ( b , ) ; new a [ c ( ) ] . function ( b , ) ; x = { function : 1 } . function"},
	{Tokens: "a b ;"},
	{Tokens: "a = ;"},
	{Tokens: ""},
	{Tokens: ";"},
}

func TestTokenTexts(t *testing.T) { textFacet.Each(t, handWritten) }

// ---- native fuzz target (manual / long runs; not part of the registered commands) --------------------
//
//	cd /verif && GOFLAGS=-mod=mod go test -tags verif ./props/c04 -run '^$' -fuzz FuzzParse -fuzztime 10m
//
// The body is the same analysis as facet bytes, in process (the Go fuzzer isolates crashes itself).
func FuzzParse(f *testing.F) {
	for _, s := range []string{"", "a", "for(;;){}", "switch(x){case 1:}", "var a = /re/g, b = 'x\\u0041';", "a: while(1) { continue a }",
		"try{}catch(e){}finally{}", "({get a(){}, set a(v){}})", "/* c */ x // y\n", "\"unterminated", "/[/", "0x", "1e", "\\u", "((((", "}}}}", "a ++b", "\xff\xfe"} {
		f.Add([]byte(s), false)
		f.Add([]byte(s), true)
	}
	for _, fr := range fragments {
		f.Add([]byte(fr), false)
	}
	f.Fuzz(func(t *testing.T, data []byte, comments bool) {
		if len(data) > 1<<14 {
			return
		}
		mode := 0
		if comments {
			mode = 1
		}
		if v := analyse(string(data), modeOf(mode), nil); v.fail != "" {
			t.Fatal(v.fail)
		}
	})
}

var _ = minijs.Text
