// Package c04 decides property C04: parsing is total - junk is rejected cleanly, accepted trees
// are well formed.
//
// Facets (DESIGN.md section C04):
//
//	bytes          (a) arbitrary bytes, truncations and byte edits of valid programs, deep nesting
//	token-mutants  (a,c,d,e) one token of a rendered valid program deleted / inserted / duplicated / swapped
//	token-sweep    (a,c,d,e) every position of a program, every edit kind
//	rejection      (b) one early error injected behind side-effecting statements: rejected, no effect
//	trees          (d,e) spans and ast.Walk on the trees of valid programs in three layouts
//
// Every case is executed in a worker subprocess (a parser that recurses without bound or stops
// consuming input kills or wedges a process; the parent survives and reports the case).
package c04

import (
	"encoding/json"
	"fmt"
	"os"
	"regexp"
	"runtime"
	"runtime/debug"
	"strings"
	"sync"
	"sync/atomic"
	"syscall"
	"testing"
	"time"

	"github.com/robertkrimen/otto/ast"
	"github.com/robertkrimen/otto/parser"
	"github.com/robertkrimen/otto/token"
	"pgregory.net/rapid"

	"verif/lib/harness"
	"verif/lib/m04"
	"verif/lib/minijs"
)

func TestMain(m *testing.M) {
	harness.RegisterWorker(workerName, serve)
	registerWitnesses()
	harness.Main(m, "C04")
}

// ---- worker plumbing ----------------------------------------------------------------------------

const (
	workerName = "c04"
	// "The parser stopped making progress" is judged per call into otto, not per case: a single
	// ParseFile / Run / Compile call (expected: milliseconds; the slowest terminating input of the
	// generators, 10^4 nested brackets with 2x10^4 errors, needs about 0.5 s because otto computes
	// every error position in O(offset)) may use callBudget of process CPU time (not wall time: ten
	// builders share the machine and a starved worker is not a wedged parser). The harness's own
	// work on a case (token alignment, reflection, position tables) is not budgeted; the parent's
	// wall-clock watchdog is only the backstop for a worker that neither answers nor burns CPU.
	callBudget = 40 * time.Second
	watchdog  = 5 * time.Minute
)

type wreq struct {
	Facet string          `json:"facet"`
	Known []string        `json:"known,omitempty"`
	Case  json.RawMessage `json:"case"`
}

type wresp struct {
	Fail       string   `json:"fail,omitempty"`
	Nontrivial bool     `json:"nontrivial,omitempty"`
	Classes    []string `json:"classes,omitempty"`
	Excluded   []string `json:"excluded,omitempty"`
	Discard    string   `json:"discard,omitempty"`
	Timeout    bool     `json:"timeout,omitempty"` // one otto call exhausted callBudget; the worker exits after answering
}

var (
	localChecks = map[string]func(raw json.RawMessage) harness.Outcome{}
	activeKnown = map[string]bool{} // worker side: set per request
	inWorker    = os.Getenv("VERIF_WORKER") != ""
	theWorker   *harness.Worker
	workerMu    sync.Mutex
)

// known reports whether the exclusion class of a finding is active (worker: as told by the parent).
func known(id string) bool {
	if inWorker {
		return activeKnown[id]
	}
	return harness.Known(id)
}

// memoryGuard ends the worker with a recognisable message when a parse allocates without bound
// (a recovery loop that stops consuming tokens appends errors for ever), before the shared
// machine suffers; the parent reports the case as "the process died".
func memoryGuard() {
	go func() {
		var ms runtime.MemStats
		for {
			time.Sleep(50 * time.Millisecond)
			runtime.ReadMemStats(&ms)
			if ms.HeapAlloc > 700<<20 {
				fmt.Fprintf(os.Stderr, "fatal error: c04 memory guard: heap grew to %d MB while parsing (limit 700 MB)\n", ms.HeapAlloc>>20)
				os.Exit(3)
			}
		}
	}()
}

var guardOnce sync.Once

func serve(raw json.RawMessage) json.RawMessage {
	guardOnce.Do(memoryGuard)
	var rq wreq
	out := wresp{}
	if err := json.Unmarshal(raw, &rq); err != nil {
		out.Fail = "harness: bad worker request: " + err.Error()
	} else if fn := localChecks[rq.Facet]; fn == nil {
		out.Fail = "harness: unknown facet " + rq.Facet
	} else {
		activeKnown = map[string]bool{}
		for _, k := range rq.Known {
			activeKnown[k] = true
		}
		done := make(chan harness.Outcome, 1)
		go func() { done <- fn(rq.Case) }()
		tick := time.NewTicker(20 * time.Millisecond)
		defer tick.Stop()
	wait:
		for {
			select {
			case o := <-done:
				out = wresp{Fail: o.Fail, Nontrivial: o.Nontrivial, Classes: o.Classes, Excluded: o.Excluded, Discard: o.Discard}
				break wait
			case <-tick.C:
				if begun := callBegan.Load(); begun != 0 && cpuTime()-time.Duration(begun) > callBudget {
					out = wresp{Timeout: true, Fail: fmt.Sprintf("one call of %s consumed more than %v of CPU time without returning (the slowest terminating input needs about 0.5 s): the parser stopped making progress", callName.Load(), callBudget)}
					// the goroutine cannot be stopped: leave once the answer is on its way
					go func() { time.Sleep(500 * time.Millisecond); os.Exit(5) }()
					break wait
				}
			}
		}
	}
	b, _ := json.Marshal(out)
	return b
}

// callBegan is the process CPU time at which the otto call in flight was entered (0: none).
var (
	callBegan atomic.Int64
	callName  atomic.Value
)

// inOtto brackets one call into otto for the per-call CPU budget.
func inOtto(name string) func() {
	callName.Store(name)
	callBegan.Store(int64(cpuTime()) | 1)
	return func() { callBegan.Store(0) }
}

// cpuTime is the CPU time (user + system) this process has consumed.
func cpuTime() time.Duration {
	var ru syscall.Rusage
	if err := syscall.Getrusage(syscall.RUSAGE_SELF, &ru); err != nil {
		return 0
	}
	return time.Duration(ru.Utime.Nano() + ru.Stime.Nano())
}

func activeKnownList() []string {
	var out []string
	for _, id := range allFindingIDs {
		if harness.Known(id) {
			out = append(out, id)
		}
	}
	return out
}

// remote wraps a local check: the parent sends the case to the worker; a worker that dies or
// stops answering is the violation "the parser killed / wedged the process" (confirmed once in a
// fresh worker, DESIGN 2.3).
func remote[C any](facet string, local func(C) harness.Outcome) func(C) harness.Outcome {
	localChecks[facet] = func(raw json.RawMessage) harness.Outcome {
		var c C
		if err := json.Unmarshal(raw, &c); err != nil {
			return harness.Outcome{Fail: "harness: cannot decode case: " + err.Error()}
		}
		return guarded(func() harness.Outcome { return local(c) })
	}
	return func(c C) harness.Outcome {
		if os.Getenv("C04_INPROCESS") != "" { // development aid: stack traces in one process
			return guarded(func() harness.Outcome { return local(c) })
		}
		raw, err := json.Marshal(c)
		if err != nil {
			return harness.Outcome{Fail: "harness: cannot encode case: " + err.Error()}
		}
		rq := wreq{Facet: facet, Known: activeKnownList(), Case: raw}
		workerMu.Lock()
		defer workerMu.Unlock()
		if theWorker == nil {
			theWorker = harness.NewWorker(workerName)
		}
		first := ""
		for attempt := 0; attempt < 2; attempt++ {
			resp, st, detail := theWorker.Do(rq, watchdog)
			switch st {
			case harness.WorkerOK:
				var w wresp
				if err := json.Unmarshal(resp, &w); err != nil {
					return harness.Outcome{Fail: "harness: undecodable worker answer: " + err.Error()}
				}
				if w.Timeout {
					theWorker.Close() // it is on its way out; the next request gets a fresh one
					theWorker = harness.NewWorker(workerName)
					if first != "" {
						return harness.Outcome{Fail: w.Fail}
					}
					first = w.Fail
					continue
				}
				o := harness.Outcome{Fail: w.Fail, Nontrivial: w.Nontrivial, Classes: w.Classes, Excluded: w.Excluded, Discard: w.Discard}
				if first != "" {
					o.Classes = append(o.Classes, "unconfirmed-worker-failure")
				}
				return o
			case harness.WorkerDied:
				d := "the process died while parsing (a recursion or allocation the runtime cannot recover): " + oneLine(detail, 500)
				if first != "" {
					return harness.Outcome{Fail: d}
				}
				first = d
			case harness.WorkerTimeout:
				d := fmt.Sprintf("no answer within %v of wall-clock time and no CPU budget verdict either (expected < 50 ms)", watchdog)
				if first != "" {
					return harness.Outcome{Fail: d}
				}
				first = d
			}
		}
		return harness.Outcome{Fail: first}
	}
}

func guarded(fn func() harness.Outcome) (o harness.Outcome) {
	defer func() {
		if p := recover(); p != nil {
			o = harness.Outcome{Fail: fmt.Sprintf("harness: panic outside the guarded otto calls: %v\n%s", p, firstLines(string(debug.Stack()), 30))}
		}
	}()
	return fn()
}

func oneLine(s string, max int) string {
	s = strings.ReplaceAll(s, "\n", "\\n")
	if len(s) > max {
		s = s[:max] + "…"
	}
	return s
}

func firstLines(s string, n int) string {
	l := strings.Split(s, "\n")
	if len(l) > n {
		l = l[:n]
	}
	return strings.Join(l, "\n")
}

func show(s string) string {
	if len(s) > 300 {
		s = s[:300] + "…"
	}
	return harness.Quote(s)
}

// ---- the shared analysis of one source text -----------------------------------------------------

type parsed struct {
	prog   *ast.Program
	err    error
	panic  string
	frames string
}

func parse(src string, mode parser.Mode) (r parsed) {
	defer func() {
		if p := recover(); p != nil {
			r.panic = fmt.Sprint(p)
			r.frames = panicSite(string(debug.Stack()))
		}
	}()
	defer inOtto("parser.ParseFile")()
	r.prog, r.err = parser.ParseFile(nil, "", src, mode)
	return r
}

// panicSite extracts the otto frames of a stack trace (where the panic was raised).
func panicSite(stack string) string {
	var out []string
	lines := strings.Split(stack, "\n")
	for i, l := range lines {
		if strings.Contains(l, "github.com/robertkrimen/otto/") && !strings.HasPrefix(l, "\t") && i+1 < len(lines) {
			f := strings.TrimSpace(lines[i+1])
			if j := strings.Index(f, " +0x"); j > 0 {
				f = f[:j]
			}
			if j := strings.LastIndex(f, "/otto/"); j >= 0 {
				f = f[j+6:]
			} else if j := strings.LastIndex(f, "/"); j >= 0 {
				f = f[j+1:]
			}
			out = append(out, f)
			if len(out) == 4 {
				break
			}
		}
	}
	return strings.Join(out, " < ")
}

// verdict is what analyse found out about one text.
type verdict struct {
	fail     string
	accepted bool
	classes  []string
	excluded []string
	nodes    int
	absent   int
}

func (v *verdict) class(c string)   { v.classes = append(v.classes, c) }
func (v *verdict) exclude(c string) { v.excluded = append(v.excluded, c) }

func sizeClass(prefix string, n int) string {
	switch {
	case n < 10:
		return prefix + "<10"
	case n < 50:
		return prefix + "10-49"
	case n < 200:
		return prefix + "50-199"
	}
	return prefix + ">=200"
}

// analyse parses src and checks everything C04 says about the outcome:
//
//	(a) no panic; an error is a non-empty list whose positions lie inside src;
//	(d) accepted: every node has a span inside the file and inside its parent's span;
//	(e) accepted: ast.Walk agrees with the reflective traversal;
//	(c) accepted and mut != nil: the tree denotes exactly the token sequence mut (lib/m04 Align)
//	    and passes the static early-error rules (minijs.Validate).
func analyse(src string, mode parser.Mode, mut []minijs.Token) (v verdict) {
	r := parse(src, mode)
	if r.panic != "" {
		if strings.Contains(r.frames, "ast/node.go") && strings.Contains(r.frames, "comments.go") && mode&parser.StoreComments != 0 && known("C04-SPAN-EMPTY-SEQUENCE") {
			// the comment attacher asks a node for its span while parsing; the span panics recorded as
			// findings therefore surface as parser panics in StoreComments mode
			v.exclude("C04-SPAN-EMPTY-SEQUENCE")
			v.class("panic-known-span")
			return v
		}
		v.fail = fmt.Sprintf("parser.ParseFile panicked: %s [%s]; src=%s", r.panic, r.frames, show(src))
		return v
	}
	if r.err != nil {
		v.class("rejected")
		v.fail = checkErrors(src, r.err)
		return v
	}
	v.accepted = true
	v.class("accepted")
	if r.prog == nil {
		v.fail = "ParseFile returned neither a program nor an error; src=" + show(src)
		return v
	}
	tree := m04.Reflect(r.prog)
	v.nodes, v.absent = len(tree.Nodes), tree.Absent
	v.class(sizeClass("nodes:", v.nodes))
	if tree.Absent > 0 {
		v.class("absent-optional-child")
	}
	if len(tree.Shared) > 0 {
		v.fail = fmt.Sprintf("the tree is not a tree: node reached twice at %s; src=%s", tree.Shared[0], show(src))
		return v
	}
	openSwitch := hasOpenSwitch(tree)
	if openSwitch && known("C04-SWITCH-UNTERMINATED") {
		v.exclude("C04-SWITCH-UNTERMINATED")
		return v
	}
	// (d)
	for _, is := range m04.CheckSpans(tree, 1, len(src)) {
		if id := knownSpanIssue(tree, is); id != "" && known(id) {
			v.exclude(id)
			continue
		}
		v.fail = fmt.Sprintf("(d) %s; src=%s", is, show(src))
		return v
	}
	for _, rn := range tree.Nodes {
		if sl, ok := rn.Node.(*ast.StringLiteral); ok {
			if bad := m04.BadHexEscape(sl.Literal); bad != "" {
				v.fail = fmt.Sprintf("accepted the string literal %s with the malformed escape %q (ES5 7.8.4: \\x takes two, \\u four hexadecimal digits); src=%s", show(sl.Literal), bad, show(src))
				return v
			}
		}
	}
	for _, is := range m04.CheckLeafText(tree, src, 1) {
		v.fail = fmt.Sprintf("(d) %s; src=%s", is, show(src))
		return v
	}
	// (e)
	for _, is := range m04.CheckWalk(r.prog, tree) {
		if is.Kind == "walk-nil" && (is.Type == "*ast.Identifier" || is.Type == "*ast.CatchStatement") && known("C04-WALK-TYPED-NIL") {
			v.exclude("C04-WALK-TYPED-NIL")
			continue
		}
		v.fail = fmt.Sprintf("(e) %s; src=%s", is, show(src))
		return v
	}
	// (c)
	if mut != nil {
		faithful(&v, r.prog, tree, mut, src)
	}
	return v
}

// checkErrors: the error must be a non-empty parser.ErrorList with positions inside the text.
func checkErrors(src string, err error) string {
	var list parser.ErrorList
	switch e := err.(type) {
	case *parser.ErrorList:
		if e == nil {
			return "ParseFile returned a nil *ErrorList as error"
		}
		list = *e
	default:
		if hasSourceMapTrailer(src) {
			// ParseFile decodes an inline source map named in the last line before it parses; a
			// malformed map is reported by the sourcemap package as a plain error without position
			return ""
		}
		return fmt.Sprintf("ParseFile returned an error that is not an ErrorList: %T %v; src=%s", err, err, show(src))
	}
	if len(list) == 0 {
		return "ParseFile returned an empty ErrorList as error; src=" + show(src)
	}
	lens := m04.Lines(src)
	for i, e := range list {
		if e == nil {
			return fmt.Sprintf("ErrorList[%d] is nil; src=%s", i, show(src))
		}
		if e.Message == "" {
			return fmt.Sprintf("ErrorList[%d] has an empty message; src=%s", i, show(src))
		}
		if bad := m04.CheckPositionIn(lens, e.Position.Line, e.Position.Column); bad != "" {
			return fmt.Sprintf("ErrorList[%d] %q is reported at %d:%d, which is outside the input: %s; src=%s", i, e.Message, e.Position.Line, e.Position.Column, bad, show(src))
		}
	}
	return ""
}

func hasSourceMapTrailer(src string) bool {
	last := src
	if i := strings.LastIndexByte(src, '\n'); i >= 0 {
		last = src[i+1:]
	}
	return strings.HasPrefix(last, "//# sourceMappingURL=data:application/json")
}

func hasOpenSwitch(t *m04.Tree) bool {
	for _, rn := range t.Nodes {
		if s, ok := rn.Node.(*ast.SwitchStatement); ok && s.RightBrace == 0 {
			return true
		}
	}
	return false
}

// knownSpanIssue maps a span issue to the finding whose root cause produces it ("" = none).
func knownSpanIssue(t *m04.Tree, is m04.Issue) string {
	if is.Kind != "span-panic" {
		return ""
	}
	if is.At == nil {
		return ""
	}
	switch n := is.At.Node.(type) {
	case *ast.SequenceExpression:
		if len(n.Sequence) == 0 {
			return "C04-SPAN-EMPTY-SEQUENCE"
		}
	case *ast.CaseStatement:
		if len(n.Consequent) == 0 {
			return "C04-SPAN-EMPTY-CASE"
		}
	case *ast.Program:
		if len(n.Body) == 0 {
			return "C04-SPAN-EMPTY-PROGRAM"
		}
	}
	return ""
}

func hasEmptyKey(t *m04.Tree) bool {
	for _, rn := range t.Nodes {
		if o, ok := rn.Node.(*ast.ObjectLiteral); ok {
			for _, p := range o.Value {
				if p.Key == "" {
					return true
				}
			}
		}
	}
	return false
}

func hasAndNot(t *m04.Tree) bool {
	for _, rn := range t.Nodes {
		if a, ok := rn.Node.(*ast.AssignExpression); ok && a.Operator == token.AND_NOT {
			return true
		}
	}
	return false
}

// faithful is facet (c) for one accepted text.
func faithful(v *verdict, prog *ast.Program, tree *m04.Tree, mut []minijs.Token, src string) {
	if hasAndNot(tree) {
		if known("C04-AND-NOT-ASSIGN") {
			v.exclude("C04-AND-NOT-ASSIGN")
			return
		}
		v.fail = "(c) accepted text contains the token \"&^=\", which is not an ES5 punctuator (7.7); src=" + show(src)
		return
	}
	if bal := m04.Balanced(mut); bal != "" {
		if known("C04-OBJLIT-ANY-TOKEN-KEY") && hasEmptyKey(tree) {
			// a bracket token taken as property name
			v.exclude("C04-OBJLIT-ANY-TOKEN-KEY")
			return
		}
		v.fail = fmt.Sprintf("(c) accepted a text whose brackets do not balance: %s; src=%s", bal, show(src))
		return
	}
	ot, mtree, err := m04.OttoTokens(prog)
	if err != nil {
		v.fail = fmt.Sprintf("(c) accepted without error, but the tree is not the tree of any ES5 text: %v; src=%s", err, show(src))
		return
	}
	if verr := minijs.Validate(mtree, minijs.ValidateOpts{FunctionsInBlocks: true}); verr != nil {
		id := ""
		msg := verr.Error()
		switch {
		case strings.Contains(msg, "does not label an iteration statement"):
			id = "C04-CONTINUE-NONITER-LABEL"
		case strings.Contains(msg, "malformed getter"):
			id = "C04-ACCESSOR-ARITY"
		case strings.Contains(msg, "malformed setter"):
			id = "C04-ACCESSOR-ARITY"
			if hasEmptySetter(mtree) {
				id = "C04-SETTER-NO-PARAMETER"
			}
		case strings.Contains(msg, "object literal defines a name twice"):
			id = "C04-OBJLIT-NAME-CLASH"
		}
		if id == "" || !known(id) {
			v.fail = fmt.Sprintf("(c) accepted a text that violates a parse-time early error: %v; src=%s", verr, show(src))
			return
		}
		v.exclude(id)
	}
	if bad := m04.BadRegexFlags(mtree); bad != "" {
		if !known("C04-REGEX-FLAGS-UNCHECKED") {
			v.fail = fmt.Sprintf("(c) accepted the regular expression literal %s with invalid flags (ES5 7.8.5 / 15.10.4.1); src=%s", bad, show(src))
			return
		}
		v.exclude("C04-REGEX-FLAGS-UNCHECKED")
	}
	if bad, why := badRegexBody(mtree); bad != "" {
		if !(strings.Contains(why, "assertion cannot be quantified") && known("C04-REGEX-QUANTIFIED-ASSERTION")) {
			v.fail = fmt.Sprintf("(c) accepted the regular expression literal /%s/ whose body is not an ES5 Pattern (15.10.1; rejected even with the web-compatibility leniencies): %s; src=%s", bad, why, show(src))
			return
		}
		v.exclude("C04-REGEX-QUANTIFIED-ASSERTION")
	}
	al := m04.Align(mut, ot, known)
	for _, id := range al.Tolerated {
		v.exclude(id)
	}
	if !al.OK {
		if al.Inconclusive {
			v.class("c:inconclusive-slash")
			if known("C04-REGEX-FLAGS-SPACED") && regexThenIdent(mut) {
				v.exclude("C04-REGEX-FLAGS-SPACED")
			}
			return
		}
		v.fail = fmt.Sprintf("(c) the accepted tree does not denote the text (a token was skipped, invented or regrouped): %s; src=%s", al.Detail, show(src))
		return
	}
	v.class("c:faithful")
	if al.ASI > 0 {
		v.class("c:asi")
	}
	if al.ExtraParens > 0 {
		v.class("c:redundant-parens")
	}
	if al.TrailingComma > 0 {
		v.class("c:trailing-comma")
	}
}

// badRegexBody returns the first regular expression literal of the tree whose body the lenient
// ES5 pattern recogniser rejects.
func badRegexBody(tree *minijs.Node) (body, why string) {
	minijs.Walk(tree, func(n *minijs.Node) {
		if body == "" && n.K == "regex" {
			if err := m04.ES5Pattern(n.Lit, false); err != nil {
				body, why = n.Lit, err.Error()
			}
		}
	})
	return body, why
}

func hasEmptySetter(tree *minijs.Node) bool {
	found := false
	minijs.Walk(tree, func(n *minijs.Node) {
		if n.K == "prop" && n.Op == "set" && len(n.Kids) == 2 && n.Kids[1] != nil && len(n.Kids[1].Params) == 0 {
			found = true
		}
	})
	return found
}

func regexThenIdent(mut []minijs.Token) bool {
	for i := 0; i+1 < len(mut); i++ {
		if mut[i].Kind == minijs.TRegex && strings.HasSuffix(mut[i].Text, "/") && (mut[i+1].Kind == minijs.TIdent || mut[i+1].Kind == minijs.TKeyword) {
			return true
		}
	}
	return false
}

func (v verdict) outcome(nontrivial bool, extra ...string) harness.Outcome {
	return harness.Outcome{Fail: v.fail, Nontrivial: nontrivial, Classes: append(v.classes, extra...), Excluded: dedup(v.excluded)}
}

func dedup(s []string) []string {
	seen := map[string]bool{}
	var out []string
	for _, x := range s {
		if !seen[x] {
			seen[x] = true
			out = append(out, x)
		}
	}
	return out
}

func modeOf(m int) parser.Mode {
	if m%2 == 1 {
		return parser.StoreComments
	}
	return 0
}

// ---- facet: bytes ---------------------------------------------------------------------------------

// seg is a piece of the input, repeated Rep times (deep nesting needs 10^4 repetitions, which a
// generated byte slice cannot reach and could not be shrunk).
type seg struct {
	S   []byte `json:"s"`
	Rep int    `json:"rep"`
}

type bytesCase struct {
	Segs []seg  `json:"segs"`
	Mode int    `json:"mode"`
	How  string `json:"how"`
}

func (c bytesCase) text() string {
	var b strings.Builder
	for _, s := range c.Segs {
		n := s.Rep
		if n < 1 {
			n = 1
		}
		if n > maxNest {
			n = maxNest
		}
		if len(s.S) > 0 && n > maxSegBytes/len(s.S) {
			n = max(1, maxSegBytes/len(s.S)) // size bound: the cost of error reporting is O(errors x size)
		}
		for i := 0; i < n; i++ {
			b.Write(s.S)
		}
	}
	return b.String()
}

const (
	maxNest     = 10000
	maxSegBytes = 16384
)

var fragments = []string{
	"a", "b", "x", "f", "0", "1", ".5", "1e3", "0x1F", "08", "1.", "\"s\"", "'t'", "\"", "'", "\\", "\\u0061", "\\u", "\\x4", "/", "/r/g", "/[/]/", "/*", "*/", "//", "/* c */", "// c\n",
	"(", ")", "[", "]", "{", "}", ";", ",", ".", ":", "?", "=", "==", "===", "!", "!=", "+", "++", "-", "--", "*", "%", "<", ">", "<<", ">>>", "&", "&&", "|", "||", "^", "~", "+=", ">>>=", "&^", "&^=", "=>", "...", "`", "@", "#",
	"var ", "function ", "function f(", "return ", "if(", "else ", "for(", "while(", "do ", "switch(", "case ", "default:", "break ", "continue ", "throw ", "try{", "}catch(e){", "}finally{", "with(", "new ", "delete ", "typeof ", "void ", "in ", "instanceof ", "this", "null", "true", "false", "debugger", "class ", "enum ", "let ", "get ", "set ", "L:",
	" ", "\t", "\n", "\r", "\r\n", "\u00a0", "\u2028", "\ufeff", "\u2029", "\u3000", "\v", "\f", "\x00", "\x80", "\xff", "\xe2\x80", "\xc3", "\xf0\x9f\x98\x80", "\u00e9", "\u200d", "\xed\xa0\x80",
	"//# sourceMappingURL=data:application/json;base64,e30=", "//# sourceMappingURL=data:application/json;base64,eyJ2ZXJzaW9uIjozLCJzb3VyY2VzIjpbImEuanMiXSwibmFtZXMiOltdLCJtYXBwaW5ncyI6IkFBQUEifQ==", "//# sourceMappingURL=data:application/json,x",
}

var nestOpen = []string{"(", "[", "{", "{a:", "[[", "((", "f(", "a[", "new ", "!", "-", "- -", "+", "typeof ", "a=", "a,", "a?", "a?b:", "a||", "a+", "if(a)", "if(a);else ", "while(a)", "for(;;)", "do ", "with(a)", "L:", "function(){", "function f(){", "(function(){", "x=function(){return ", "switch(a){case 1:", "try{", "a.", "a.b(", "/*", "//", "\"", "/", "{get a(){", "var a=[", "for(a in "}
var nestMid = []string{"", "a", "1", ";", "a;", "/", "\"", "}", ")", "\n"}
var nestClose = []string{")", "]", "}", "}}", "]]", "))", ":a", "}catch(e){}", "})", "}}}", "while(a);", "*/", "\n", "\"", ";"}
var nestDepths = []int{2, 3, 5, 10, 20, 50, 100, 100, 200, 500, 1000, 1000, 2000, 3000, 5000, 10000}

func genBytes(t *rapid.T) bytesCase {
	c := bytesCase{Mode: rapid.IntRange(0, 1).Draw(t, "mode")}
	one := func(b []byte) []seg { return []seg{{S: b, Rep: 1}} }
	switch rapid.IntRange(0, 15).Draw(t, "how") {
	case 0:
		c.How = "raw"
		c.Segs = one(rapid.SliceOfN(rapid.Byte(), 0, 96).Draw(t, "raw"))
	case 1, 2, 3, 4, 11, 12:
		c.How = "fragments"
		n := rapid.IntRange(1, 40).Draw(t, "n")
		var b []byte
		for i := 0; i < n; i++ {
			b = append(b, fragments[rapid.IntRange(0, len(fragments)-1).Draw(t, "frag")]...)
		}
		c.Segs = one(b)
	case 5, 6, 7, 13:
		c.How = "truncation"
		prog := genPrograms(t, 5)
		_, text := minijs.Render(prog, nil, minijs.LayoutOpts{Trivia: rapid.SliceOfN(rapid.Byte(), 0, 24).Draw(t, "trivia")})
		lo, hi := 0, len(text)
		pos := func(label string) int { return uniform(t, label, len(text)+1) }
		switch rapid.IntRange(0, 3).Draw(t, "cut") {
		case 0, 1:
			hi = pos("hi")
		case 2:
			lo = pos("lo")
		default:
			lo, hi = pos("lo"), pos("hi")
			if lo > hi {
				lo, hi = hi, lo
			}
		}
		c.Segs = one([]byte(text[lo:hi]))
	case 8, 9, 10, 14:
		c.How = "byte-edit"
		prog := genPrograms(t, 5)
		_, text := minijs.Render(prog, nil, minijs.LayoutOpts{Trivia: rapid.SliceOfN(rapid.Byte(), 0, 24).Draw(t, "trivia")})
		b := []byte(text)
		for k, edits := 0, rapid.IntRange(1, 3).Draw(t, "edits"); k < edits; k++ {
			special := []byte{'"', '\'', '\\', '/', '*', '\n', '\r', 0x80, 0xff, 0xe2, 0x00, '{', '}', '(', ')', ';', ' ', 'u', '0'}
			v := special[rapid.IntRange(0, len(special)-1).Draw(t, "byte")]
			if rapid.IntRange(0, 3).Draw(t, "rnd") == 0 {
				v = rapid.Byte().Draw(t, "anybyte")
			}
			at := uniform(t, "at", len(b)+1)
			switch op := rapid.IntRange(0, 2).Draw(t, "op"); {
			case op == 0 && at < len(b):
				b[at] = v
			case op == 1 && at < len(b):
				b = append(b[:at], b[at+1:]...)
			default:
				b = append(b[:at], append([]byte{v}, b[at:]...)...)
			}
		}
		c.Segs = one(b)
	default:
		c.How = "nesting"
		open := nestOpen[uniform(t, "open", len(nestOpen))]
		d := nestDepths[uniform(t, "depth", len(nestDepths))]
		c.Segs = []seg{{S: []byte(open), Rep: d}, {S: []byte(nestMid[rapid.IntRange(0, len(nestMid)-1).Draw(t, "mid")]), Rep: 1}}
		switch rapid.IntRange(0, 3).Draw(t, "closing") {
		case 0:
		case 1:
			c.Segs = append(c.Segs, seg{S: []byte(nestClose[rapid.IntRange(0, len(nestClose)-1).Draw(t, "close")]), Rep: d})
		case 2:
			c.Segs = append(c.Segs, seg{S: []byte(nestClose[rapid.IntRange(0, len(nestClose)-1).Draw(t, "close")]), Rep: d - 1})
		default:
			c.Segs = append(c.Segs, seg{S: []byte(nestClose[rapid.IntRange(0, len(nestClose)-1).Draw(t, "close")]), Rep: d + 1})
		}
	}
	return c
}

// dupLabelRun recognises the class of finding C04-DUP-LABEL-QUADRATIC: a segment repeated more
// than 100 times whose repetition yields `name :` sequences that are not the colon of ?: or case
// ("L:", "{a:", ":a"), i.e. statements nested under one and the same label.
var labelLike = regexp.MustCompile(`[A-Za-z_$][A-Za-z0-9_$]*\s*:`)

func dupLabelRun(c bytesCase) int {
	for _, s := range c.Segs {
		t := string(s.S)
		if s.Rep > 100 && !strings.Contains(t, "?") && !strings.Contains(t, "case") && labelLike.MatchString(t+t) {
			return s.Rep
		}
	}
	return 0
}

func checkBytesLocal(c bytesCase) harness.Outcome {
	if dupLabelRun(c) > 100 && known("C04-DUP-LABEL-QUADRATIC") {
		return harness.Outcome{Excluded: []string{"C04-DUP-LABEL-QUADRATIC"}, Classes: []string{"how:" + c.How, "excluded:dup-label-depth>100"}}
	}
	src := c.text()
	v := analyse(src, modeOf(c.Mode), nil)
	v.class("how:" + c.How)
	if c.Mode%2 == 1 {
		v.class("mode:StoreComments")
	}
	if c.How == "nesting" && len(c.Segs) > 0 {
		v.class(fmt.Sprintf("nest-depth:%d", min(c.Segs[0].Rep, max(1, maxSegBytes/max(1, len(c.Segs[0].S))))))
	}
	v.class(sizeClass("bytes:", len(src)))
	return v.outcome(len(strings.TrimSpace(src)) >= 4)
}

var bytesFacet = harness.Register(&harness.Facet[bytesCase]{
	Name: "bytes",
	Rule: "rapid: one of raw bytes (0-96) | 1-40 fragments of a JS alphabet (keywords, every punctuator, literal pieces, comment openers, escapes, every line terminator and ES5 white space, NUL, invalid / truncated UTF-8, encoded surrogates, sourceMappingURL trailers) | a rendered valid program (random trivia) cut to a random prefix / suffix / infix (also inside a multi-byte character) | the same with 1-3 byte replacements / deletions / insertions | an opener repeated 2..10^4 times (at most 16 KB per repeated piece) + middle + closer repeated d / d-1 / d+1 / 0 times (42 openers: brackets, unary and binary operators, every statement head, function literals, accessors, comments, strings); parser mode 0 or StoreComments; checked: no panic, the process survives (worker subprocess; one ParseFile call may use 40 s of CPU time), error => non-empty ErrorList with non-empty messages and positions inside the text (1-based line, 1-based column counted in characters, the unit file.Position documents), accepted => spans and walker as in facet trees; non-trivial = at least 4 non-blank bytes; distinct by JSON of the case",
	Quick: 5000, Thorough: 16000,
	Gen:   genBytes,
	Check: remote("bytes", checkBytesLocal),
})

func TestBytes(t *testing.T) { bytesFacet.Run(t) }

// ---- facet: token-mutants ------------------------------------------------------------------------

type mutantCase struct {
	Prog   *minijs.Node `json:"prog"`
	Decor  []byte       `json:"decor"`
	Mut    m04.Mutation `json:"mut"`
	Trivia []byte       `json:"trivia"` // second rendering of the same mutant with random trivia (totality, spans, walker only)
	Mode   int          `json:"mode"`
}

// uniform draws an index in [0,n) that is close to uniformly distributed (rapid's integer
// generators prefer small values, which would pin positions to the start of a program) and
// still shrinks to 0.
func uniform(t *rapid.T, label string, n int) int {
	a := rapid.IntRange(0, 1<<20).Draw(t, label)
	b := rapid.IntRange(0, 1<<20).Draw(t, label+"'")
	c := rapid.IntRange(0, 1<<20).Draw(t, label+"''")
	if n <= 0 {
		return 0
	}
	return (m04.Scramble(a) ^ m04.Scramble(b)*31 ^ m04.Scramble(c)*131) % n
}

// genPrograms concatenates one to three generated programs (the generator alone leans to very
// short programs).
func genPrograms(t *rapid.T, depth int) *minijs.Node {
	p := minijs.GenProgram(t, minijs.GenCfg{UnicodeIdent: true, MaxDepth: depth})
	for i, n := 0, rapid.IntRange(0, 2).Draw(t, "more"); i < n; i++ {
		p.Kids = append(p.Kids, minijs.GenProgram(t, minijs.GenCfg{UnicodeIdent: true, MaxDepth: depth}).Kids...)
	}
	return p
}

func genMutant(t *rapid.T) mutantCase {
	c := mutantCase{Prog: genPrograms(t, 5)}
	if rapid.IntRange(0, 9).Draw(t, "deslash") < 6 {
		c.Prog = m04.Deslash(c.Prog)
	}
	c.Decor = rapid.SliceOfN(rapid.Byte(), 0, 12).Draw(t, "decor")
	ops := []string{"none", "delete", "insert", "duplicate", "swap", "swapfar", "delete", "insert", "insert", "duplicate", "swap", "delete", "swapfar", "insert", "swap", "duplicate"}
	c.Mut.Op = ops[uniform(t, "op", len(ops))]
	c.Mut.I = uniform(t, "i", 1<<16)
	c.Mut.J = uniform(t, "j", 1<<16)
	c.Mut.Ins = uniform(t, "ins", 1<<16)
	c.Trivia = rapid.SliceOfN(rapid.Byte(), 0, 24).Draw(t, "trivia")
	c.Mode = rapid.IntRange(0, 1).Draw(t, "mode")
	return c
}

// checkOneMutant analyses one token list: canonical text with the full oracle, optionally a
// second layout with trivia for totality.
func checkOneMutant(base, mut []minijs.Token, what string, trivia []byte, mode parser.Mode) (v verdict) {
	_, text := m04.Canonical(mut)
	v = analyse(text, 0, mut)
	unchanged := m04.SameTokens(base, mut)
	if v.fail == "" && unchanged && !v.accepted {
		v.fail = "the unmutated, valid program is rejected (C03 decides that; here it would make (c)-(e) vacuous); src=" + show(text)
	}
	if v.fail != "" {
		v.fail = "[" + what + "] " + v.fail
		return v
	}
	if len(trivia) > 0 || mode != 0 {
		text2 := minijs.Text(minijs.Layout(mut, minijs.LayoutOpts{Trivia: trivia}))
		v2 := analyse(text2, mode, nil)
		if v2.fail != "" {
			v2.fail = "[" + what + ", layout with trivia] " + v2.fail
			v2.classes = append(v.classes, v2.classes...)
			return v2
		}
		v.excluded = append(v.excluded, v2.excluded...)
		if v2.accepted != v.accepted {
			v.class("trivia-changes-verdict")
		}
	}
	return v
}

func checkMutantLocal(c mutantCase) harness.Outcome {
	if c.Prog == nil {
		return harness.Outcome{Discard: "empty case"}
	}
	base := minijs.Tokens(c.Prog, c.Decor)
	mm := c.Mut
	mm.I, mm.J, mm.Ins = m04.Scramble(mm.I), m04.Scramble(mm.J), m04.Scramble(mm.Ins)
	mut, what := m04.Mutate(base, mm)
	v := checkOneMutant(base, mut, what, c.Trivia, modeOf(c.Mode))
	op := c.Mut.Op
	if m04.SameTokens(base, mut) {
		op = "none"
	}
	v.class("op:" + op)
	if v.accepted {
		v.class("op:" + op + ":accepted")
	}
	v.class(sizeClass("tokens:", len(mut)))
	return v.outcome(op != "none" && len(mut) >= 5)
}

var mutantFacet = harness.Register(&harness.Facet[mutantCase]{
	Name: "token-mutants",
	Rule: "rapid: minijs.GenProgram (valid ES5, depth<=5; 60% with '/' '/=' and regexp literals replaced so that tokenisation cannot depend on the parse) rendered to tokens with random redundant parentheses / trailing commas, then ONE edit of the token list: delete | insert (98-token vocabulary: every punctuator, keyword, reserved word, literal kind) | duplicate | swap adjacent | swap two arbitrary | none; canonical layout (separators only where the lexical grammar needs them, no line terminator) gets (a) totality, and if accepted (c) tree -> tokens equals the mutant's tokens modulo redundant parentheses, ASI before '}' / end / after do-while, trailing commas of literals, plus balanced brackets, no Bad nodes, minijs.Validate (break/continue/return context, labels, targets, try, accessors, reserved words), regexp flags, and (d) spans (e) walker; a second layout with random trivia and parser mode 0/StoreComments gets (a),(d),(e); non-trivial = the edit changed the token list and the mutant has >= 5 tokens; distinct by JSON of the case",
	Quick: 8000, Thorough: 80000,
	Gen:   genMutant,
	Check: remote("token-mutants", checkMutantLocal),
})

func TestTokenMutants(t *testing.T) { mutantFacet.Run(t) }

// ---- facet: token-sweep --------------------------------------------------------------------------

type sweepCase struct {
	Prog  *minijs.Node `json:"prog"`
	Decor []byte       `json:"decor"`
	Salt  int          `json:"salt"`
}

const sweepInserts = 4

func checkSweepLocal(c sweepCase) harness.Outcome {
	if c.Prog == nil {
		return harness.Outcome{Discard: "empty case"}
	}
	base := minijs.Tokens(c.Prog, c.Decor)
	if len(base) > 160 {
		return harness.Outcome{Discard: "program longer than 160 tokens"}
	}
	var all verdict
	accepted, total := 0, 0
	run := func(m m04.Mutation) bool {
		mut, what := m04.Mutate(base, m)
		v := checkOneMutant(base, mut, what, nil, 0)
		total++
		if v.accepted {
			accepted++
		}
		all.excluded = append(all.excluded, v.excluded...)
		for _, cl := range v.classes {
			if strings.HasPrefix(cl, "c:") {
				all.classes = append(all.classes, cl)
			}
		}
		if v.fail != "" {
			all.fail = v.fail
			return false
		}
		return true
	}
	if !run(m04.Mutation{Op: "none"}) {
		return all.outcome(true)
	}
	for i := 0; i <= len(base); i++ {
		if i < len(base) {
			if !run(m04.Mutation{Op: "delete", I: i}) || !run(m04.Mutation{Op: "duplicate", I: i}) {
				return all.outcome(true)
			}
			if i+1 < len(base) && !run(m04.Mutation{Op: "swap", I: i}) {
				return all.outcome(true)
			}
		}
		for k := 0; k < sweepInserts; k++ {
			if !run(m04.Mutation{Op: "insert", I: i, Ins: c.Salt + i*7 + k*29}) {
				return all.outcome(true)
			}
		}
	}
	all.classes = dedup(all.classes)
	all.class(sizeClass("tokens:", len(base)))
	all.class(fmt.Sprintf("accepted-mutants:%s", pctClass(accepted, total)))
	return all.outcome(len(base) >= 5)
}

func pctClass(a, n int) string {
	if n == 0 {
		return "none"
	}
	p := 100 * a / n
	switch {
	case p == 0:
		return "0%"
	case p < 5:
		return "<5%"
	case p < 20:
		return "5-19%"
	}
	return ">=20%"
}

var sweepFacet = harness.Register(&harness.Facet[sweepCase]{
	Name: "token-sweep",
	Rule: "rapid: a valid program (depth<=4, '/'-free, <=160 tokens) with random decoration; then EVERY single-token deletion, duplication and adjacent swap, and 4 insertions (salted choice from the 98-token vocabulary) at every position, each analysed like a token-mutants case in canonical layout (about 7 mutants per token); the case fails with the first failing mutant; non-trivial = the program has >= 5 tokens; distinct by JSON of the case",
	Quick: 200, Thorough: 2000,
	Gen: func(t *rapid.T) sweepCase {
		return sweepCase{
			Prog:  m04.Deslash(genPrograms(t, 4)),
			Decor: rapid.SliceOfN(rapid.Byte(), 0, 8).Draw(t, "decor"),
			Salt:  rapid.IntRange(0, 97).Draw(t, "salt"),
		}
	},
	Check: remote("token-sweep", checkSweepLocal),
})

func TestTokenSweep(t *testing.T) { sweepFacet.Run(t) }

// ---- facet: trees --------------------------------------------------------------------------------

type treeCase struct {
	Prog   *minijs.Node `json:"prog"`
	Decor  []byte       `json:"decor"`
	Trivia []byte       `json:"trivia"`
	Mode   int          `json:"mode"`
}

func checkTreeLocal(c treeCase) harness.Outcome {
	if c.Prog == nil {
		return harness.Outcome{Discard: "empty case"}
	}
	_, minimal := minijs.Render(c.Prog, nil, minijs.LayoutOpts{})
	_, decorated := minijs.Render(c.Prog, c.Decor, minijs.LayoutOpts{})
	_, trivia := minijs.Render(c.Prog, nil, minijs.LayoutOpts{Trivia: c.Trivia})
	var out verdict
	for i, text := range []string{minimal, decorated, trivia} {
		name := []string{"minimal", "extra-parens", "trivia"}[i]
		v := analyse(text, modeOf(c.Mode), nil)
		if v.fail == "" && !v.accepted {
			v.fail = "a valid program is rejected (C03 decides that; here it makes the facet vacuous); src=" + show(text)
		}
		out.excluded = append(out.excluded, v.excluded...)
		if i == 0 {
			out.classes, out.nodes, out.absent = v.classes, v.nodes, v.absent
		}
		if v.fail != "" {
			out.fail = "[" + name + "] " + v.fail
			break
		}
	}
	for _, k := range nodeKinds(c.Prog) {
		out.class("k:" + k)
	}
	if c.Mode%2 == 1 {
		out.class("mode:StoreComments")
	}
	return out.outcome(out.nodes >= 10 && out.absent >= 1)
}

// nodeKinds lists the statement kinds and the optional-child situations of a generated tree.
func nodeKinds(p *minijs.Node) []string {
	seen := map[string]bool{}
	minijs.Walk(p, func(n *minijs.Node) {
		switch n.K {
		case "for":
			for i, nm := range []string{"init", "test", "update"} {
				if n.Kids[i] == nil {
					seen["for:no-"+nm] = true
				}
			}
		case "case":
			if len(n.Kids) == 1 {
				seen["case:empty"] = true
			}
			if n.Kids[0] == nil {
				seen["default"] = true
			}
		case "break", "continue":
			if n.Name == "" {
				seen[n.K+":no-label"] = true
			} else {
				seen[n.K+":label"] = true
			}
		case "func":
			if n.Name == "" {
				seen["func:anonymous"] = true
			}
		case "try":
			if n.Kids[1] == nil {
				seen["try:no-catch"] = true
			}
			if n.Kids[2] == nil {
				seen["try:no-finally"] = true
			}
		case "return":
			if n.Kids[0] == nil {
				seen["return:bare"] = true
			}
		case "if":
			if n.Kids[2] == nil {
				seen["if:no-else"] = true
			}
		case "new":
			if n.NoArgs {
				seen["new:no-args"] = true
			}
		case "program":
			if len(n.Kids) == 0 {
				seen["program:empty"] = true
			}
		case "block":
			if len(n.Kids) == 0 {
				seen["block:empty"] = true
			}
		case "switch", "with", "label", "dowhile", "while", "forin", "throw", "debugger", "empty", "var", "funcdecl", "obj", "arr", "regex", "seq", "cond":
			seen[n.K] = true
		}
	})
	var out []string
	for _, k := range []string{"for:no-init", "for:no-test", "for:no-update", "case:empty", "default", "break:no-label", "break:label", "continue:no-label", "continue:label",
		"func:anonymous", "try:no-catch", "try:no-finally", "return:bare", "if:no-else", "new:no-args", "program:empty", "block:empty",
		"switch", "with", "label", "dowhile", "while", "forin", "throw", "debugger", "empty", "var", "funcdecl", "obj", "arr", "regex", "seq", "cond"} {
		if seen[k] {
			out = append(out, k)
		}
	}
	return out
}

var treeFacet = harness.Register(&harness.Facet[treeCase]{
	Name: "trees",
	Rule: "rapid: minijs.GenProgram (full ES5 grammar, depth<=6, unicode identifiers) or, in 1 case of 8, a small template program built around an absent optional child (for(;;), empty case / default, bare break / continue / return, anonymous function, try without catch / finally, empty program, empty block, new without arguments); three layouts (minimal, redundant parentheses, random trivia with ASI); parser mode 0 / StoreComments; every node found by reflection over the ast structs must answer Idx0/Idx1 without panic, with base <= Idx0 <= Idx1 <= base+len, within its parent's span; ast.Walk must enter every node exactly once under its parent, exit in nesting order and never hand over a nil or typed-nil node; non-trivial = the tree has >= 10 nodes and >= 1 absent optional child; distinct by JSON of the case",
	Quick: 4000, Thorough: 36000,
	Gen: func(t *rapid.T) treeCase {
		c := treeCase{}
		if rapid.IntRange(0, 7).Draw(t, "template") == 0 {
			c.Prog = genTemplate(t)
		} else {
			c.Prog = genPrograms(t, 6)
		}
		c.Decor = rapid.SliceOfN(rapid.Byte(), 0, 16).Draw(t, "decor")
		c.Trivia = rapid.SliceOfN(rapid.Byte(), 1, 32).Draw(t, "trivia")
		c.Mode = rapid.IntRange(0, 1).Draw(t, "mode")
		return c
	},
	Check: remote("trees", checkTreeLocal),
})

func TestTrees(t *testing.T) { treeFacet.Run(t) }

// genTemplate builds small programs around the places where a child is optional.
func genTemplate(t *rapid.T) *minijs.Node {
	id := minijs.Id
	stmt := func() *minijs.Node { return minijs.ExprStmt(minijs.GenExpr(t, minijs.GenCfg{}, 1)) }
	opt := func(n *minijs.Node) *minijs.Node {
		if rapid.Bool().Draw(t, "opt") {
			return n
		}
		return nil
	}
	var out []*minijs.Node
	for i, n := 0, rapid.IntRange(0, 3).Draw(t, "n"); i < n; i++ {
		switch rapid.IntRange(0, 9).Draw(t, "tpl") {
		case 0:
			out = append(out, &minijs.Node{K: "for", Kids: []*minijs.Node{opt(id("i")), opt(id("t")), opt(id("u")), &minijs.Node{K: "block", Kids: []*minijs.Node{opt(&minijs.Node{K: "break"})}}}})
			if b := out[len(out)-1].Kids[3]; b.Kids[0] == nil {
				b.Kids = nil
			}
		case 1:
			sw := &minijs.Node{K: "switch", Kids: []*minijs.Node{id("x")}}
			for j, m := 0, rapid.IntRange(0, 3).Draw(t, "cases"); j < m; j++ {
				cs := &minijs.Node{K: "case", Kids: []*minijs.Node{minijs.Num("1")}}
				if j == 1 {
					cs.Kids[0] = nil
				}
				if rapid.Bool().Draw(t, "body") {
					cs.Kids = append(cs.Kids, &minijs.Node{K: "break"})
				}
				sw.Kids = append(sw.Kids, cs)
			}
			out = append(out, sw)
		case 2:
			out = append(out, &minijs.Node{K: "while", Kids: []*minijs.Node{id("a"), &minijs.Node{K: []string{"break", "continue"}[rapid.IntRange(0, 1).Draw(t, "bc")]}}})
		case 3:
			f := &minijs.Node{K: "func", Kids: []*minijs.Node{{K: "return", Kids: []*minijs.Node{opt(id("r"))}}}}
			if rapid.Bool().Draw(t, "named") {
				f.Name = "g"
			}
			out = append(out, minijs.ExprStmt(minijs.Assign("=", id("x"), f)))
		case 4:
			tr := &minijs.Node{K: "try", Name: "e", Kids: []*minijs.Node{{K: "block"}, {K: "block"}, {K: "block"}}}
			switch rapid.IntRange(0, 2).Draw(t, "try") {
			case 0:
				tr.Kids[1] = nil
			case 1:
				tr.Kids[2] = nil
			}
			out = append(out, tr)
		case 5:
			out = append(out, minijs.Label("L", &minijs.Node{K: "dowhile", Kids: []*minijs.Node{{K: "continue", Name: "L"}, id("a")}}))
		case 6:
			out = append(out, minijs.ExprStmt(&minijs.Node{K: "new", NoArgs: true, Kids: []*minijs.Node{id("X")}}))
		case 7:
			out = append(out, &minijs.Node{K: "if", Kids: []*minijs.Node{id("a"), {K: "empty"}, opt(&minijs.Node{K: "block"})}})
		case 8:
			out = append(out, &minijs.Node{K: "var", Kids: []*minijs.Node{{K: "decl", Name: "v", Kids: []*minijs.Node{opt(id("w"))}}}})
		default:
			out = append(out, stmt())
		}
	}
	if rapid.IntRange(0, 3).Draw(t, "regex-last") == 0 {
		// a regular expression literal whose body starts with "=" (lexed through the "/=" token), as
		// the last token of the text when the layout drops the final semicolon
		re := &minijs.Node{K: "regex", Lit: []string{"=", "=a", "=[/]", "==", "=\\/"}[rapid.IntRange(0, 4).Draw(t, "re")], Op: []string{"", "g", "i"}[rapid.IntRange(0, 2).Draw(t, "fl")]}
		if rapid.Bool().Draw(t, "assign") {
			out = append(out, minijs.ExprStmt(minijs.Assign("=", id("x"), re)))
		} else {
			out = append(out, minijs.ExprStmt(re))
		}
	}
	return &minijs.Node{K: "program", Kids: out}
}
