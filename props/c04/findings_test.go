package c04

import (
	"fmt"
	"strings"

	"github.com/robertkrimen/otto"
	"github.com/robertkrimen/otto/ast"
	"github.com/robertkrimen/otto/parser"

	"verif/lib/harness"
	"verif/lib/m04"
)

// allFindingIDs lists the findings whose exclusion classes this package knows (FINDINGS.txt).
var allFindingIDs = []string{
	"C04-SPAN-EMPTY-SEQUENCE", "C04-SPAN-EMPTY-CASE", "C04-SPAN-EMPTY-PROGRAM", "C04-WALK-TYPED-NIL",
	"C04-CONTINUE-NONITER-LABEL", "C04-PARAM-TRAILING-COMMA", "C04-ARG-TRAILING-COMMA", "C04-OBJLIT-MISSING-COMMA",
	"C04-SWITCH-UNTERMINATED", "C04-AND-NOT-ASSIGN", "C04-REGEX-FLAGS-UNCHECKED", "C04-REGEX-FLAGS-SPACED",
	"C04-OBJLIT-NAME-CLASH", "C04-ACCESSOR-ARITY", "C04-DUP-LABEL-QUADRATIC", "C04-REGEX-CLASS-UNTERMINATED", "C04-SETTER-NO-PARAMETER", "C04-OBJLIT-ANY-TOKEN-KEY", "C04-REGEX-QUANTIFIED-ASSERTION",
}

// accepted reports whether parser.ParseFile accepts src (a panic counts as "not accepted").
func acceptedSrc(src string) (bool, string) {
	r := parse(src, 0)
	switch {
	case r.panic != "":
		return false, "panic:" + r.panic
	case r.err != nil:
		return false, "rejected: " + r.err.Error()
	}
	return true, "accepted"
}

// acceptWitness: the finding is present while every listed invalid text is accepted.
func acceptWitness(srcs ...string) func() (bool, string) {
	return func() (bool, string) {
		for _, s := range srcs {
			if ok, obs := acceptedSrc(s); !ok {
				return false, fmt.Sprintf("%q %s", s, obs)
			}
		}
		return true, fmt.Sprintf("%q accepted", srcs[0])
	}
}

// spanWitness: the finding is present while Idx0/Idx1 of some node of the tree of src panics.
func spanWitness(src string) func() (bool, string) {
	return func() (bool, string) {
		r := parse(src, 0)
		if r.panic != "" || r.err != nil || r.prog == nil {
			return false, "not accepted"
		}
		tree := m04.Reflect(r.prog)
		for _, is := range m04.CheckSpans(tree, 1, len(src)) {
			if is.Kind == "span-panic" {
				return true, is.String()
			}
		}
		return false, "all spans answered"
	}
}

func registerWitnesses() {
	harness.RegisterWitness("C04-SPAN-EMPTY-SEQUENCE", spanWitness("for(;;){}"))
	harness.RegisterWitness("C04-SPAN-EMPTY-CASE", spanWitness("switch(x){case 1:}"))
	harness.RegisterWitness("C04-SPAN-EMPTY-PROGRAM", spanWitness(""))
	harness.RegisterWitness("C04-WALK-TYPED-NIL", func() (bool, string) {
		for _, src := range []string{"while(1) break;", "(function(){})", "try{}finally{}"} {
			r := parse(src, 0)
			if r.prog == nil || r.err != nil {
				return false, "not accepted: " + src
			}
			for _, is := range m04.CheckWalk(r.prog, m04.Reflect(r.prog)) {
				if is.Kind == "walk-nil" {
					return true, fmt.Sprintf("%q: %s", src, is.Msg)
				}
			}
		}
		return false, "no nil node handed to the visitor"
	})
	harness.RegisterWitness("C04-CONTINUE-NONITER-LABEL", acceptWitness("a: { for(;;) { continue a; } }"))
	harness.RegisterWitness("C04-PARAM-TRAILING-COMMA", func() (bool, string) {
		if ok, obs := acceptedSrc("function f(a,){}"); ok {
			return true, "function f(a,){} " + obs
		}
		v, err := otto.New().Run(`typeof new Function("a,", "return 1")`)
		if err == nil {
			return true, "new Function(\"a,\",\"return 1\") gives a " + v.String()
		}
		return false, "rejected"
	})
	harness.RegisterWitness("C04-ARG-TRAILING-COMMA", acceptWitness("f(a,)"))
	harness.RegisterWitness("C04-OBJLIT-MISSING-COMMA", acceptWitness("({a:1 b:2})"))
	harness.RegisterWitness("C04-SWITCH-UNTERMINATED", acceptWitness("switch(a){case 1:"))
	harness.RegisterWitness("C04-AND-NOT-ASSIGN", acceptWitness("a &^= b"))
	harness.RegisterWitness("C04-REGEX-FLAGS-UNCHECKED", acceptWitness("/a/gg"))
	harness.RegisterWitness("C04-REGEX-FLAGS-SPACED", func() (bool, string) {
		r := parse("/a/ g", 0)
		if r.err != nil || r.prog == nil || len(r.prog.Body) != 1 {
			return false, "rejected"
		}
		if es, ok := r.prog.Body[0].(*ast.ExpressionStatement); ok {
			if re, ok := es.Expression.(*ast.RegExpLiteral); ok && re.Flags == "g" {
				return true, "\"/a/ g\" is one regular expression literal with flags \"g\""
			}
		}
		return false, "parsed differently"
	})
	harness.RegisterWitness("C04-OBJLIT-NAME-CLASH", acceptWitness("({a:1, get a(){}})"))
	harness.RegisterWitness("C04-ACCESSOR-ARITY", func() (bool, string) {
		for _, s := range []string{"({get a(b){}})", "({set a(b,c){}})"} {
			if ok, _ := acceptedSrc(s); ok {
				return true, fmt.Sprintf("%q accepted", s)
			}
		}
		return false, "rejected"
	})
	harness.RegisterWitness("C04-OBJLIT-ANY-TOKEN-KEY", acceptWitness("({,:1})"))
	harness.RegisterWitness("C04-REGEX-QUANTIFIED-ASSERTION", func() (bool, string) {
		for _, s := range []string{"/^*/", "/a$+/", "/\\b{2}/", "/(a|\\B?)/"} {
			if ok, _ := acceptedSrc(s); ok {
				return true, fmt.Sprintf("%q accepted", s)
			}
		}
		return false, "rejected"
	})
	harness.RegisterWitness("C04-SETTER-NO-PARAMETER", acceptWitness("({set a(){}})"))
	harness.RegisterWitness("C04-REGEX-CLASS-UNTERMINATED", acceptWitness("/[/\n a;"))
	harness.RegisterWitness("C04-DUP-LABEL-QUADRATIC", func() (bool, string) {
		_, err := parser.ParseFile(nil, "", strings.Repeat("a:", 40)+";", 0)
		n := 0
		if el, ok := err.(*parser.ErrorList); ok && el != nil {
			n = len(*el)
		}
		return n > 40, fmt.Sprintf("40 nested labels `a:` give %d errors", n)
	})
}
