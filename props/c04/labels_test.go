package c04

import (
	"fmt"
	"testing"

	"pgregory.net/rapid"

	"verif/lib/harness"
	"verif/lib/m04"
	"verif/lib/minijs"
)

// ---- facet: labels -------------------------------------------------------------------------------
// Label histories: programs made of labelled statements (one to three labels each, names drawn
// from a pool of four, so that names are re-used nested and sequentially), loops, blocks, switch,
// if, try, function boundaries, and break / continue with and without labels. The verdict comes
// from minijs.Validate, which implements ES5 12.7 (continue: the label must belong to the label
// set of an enclosing IterationStatement, not crossing a function boundary), 12.8 (break: of an
// enclosing statement), 12.12 (a label may not be nested inside a statement with the same label;
// sequential re-use is fine). Both directions are asserted: a valid history must be accepted (and
// its tree pass (c)-(e)), an invalid one must be rejected without effect.

type labelCase struct {
	Prog   *minijs.Node `json:"prog"`
	Trivia []byte       `json:"trivia"`
}

var labelNames = []string{"a", "b", "c", "d"}

type labelGen struct {
	t *rapid.T
	n int
}

func (g *labelGen) pick(label string, n int) int {
	g.n++
	return uniform(g.t, fmt.Sprintf("%s%d", label, g.n), n)
}

func (g *labelGen) name() string { return labelNames[g.pick("name", len(labelNames))] }

// lctx is what the generator knows about the position it fills (only to steer the share of valid
// programs; the verdict always comes from minijs.Validate on the finished tree).
type lctx struct {
	labels           []string // enclosing labels of this function
	iter             []bool   // does labels[i] belong to a loop
	inLoop, inSwitch bool
}

func (c lctx) with(names []string, iter bool) lctx {
	n := c
	n.labels = append(append([]string(nil), c.labels...), names...)
	n.iter = append([]bool(nil), c.iter...)
	for range names {
		n.iter = append(n.iter, iter)
	}
	return n
}

// branch: break / continue. Two times in three a form that is legal here is chosen when there is
// one (unlabelled inside a loop / switch, or naming a suitable enclosing label); otherwise the
// keyword and the label (none, an enclosing one, any pool name) are free.
func (g *labelGen) branch(c lctx) *minijs.Node {
	if g.pick("legal", 3) > 0 {
		var opts []*minijs.Node
		if c.inLoop {
			opts = append(opts, &minijs.Node{K: "break"}, &minijs.Node{K: "continue"})
		} else if c.inSwitch {
			opts = append(opts, &minijs.Node{K: "break"})
		}
		for i, l := range c.labels {
			opts = append(opts, &minijs.Node{K: "break", Name: l})
			if c.iter[i] {
				opts = append(opts, &minijs.Node{K: "continue", Name: l})
			}
		}
		if len(opts) > 0 {
			return opts[g.pick("opt", len(opts))]
		}
		return minijs.ExprStmt(minijs.Id("x"))
	}
	n := &minijs.Node{K: []string{"break", "continue", "continue"}[g.pick("bc", 3)]}
	if g.pick("lab", 3) > 0 {
		if len(c.labels) > 0 && g.pick("enc", 3) > 0 {
			n.Name = c.labels[g.pick("which", len(c.labels))]
		} else {
			n.Name = g.name()
		}
	}
	return n
}

func (g *labelGen) list(depth int, c lctx, max int) []*minijs.Node {
	var out []*minijs.Node
	for i, n := 0, 1+g.pick("len", max); i < n; i++ {
		out = append(out, g.stmt(depth, c))
	}
	return out
}

func (g *labelGen) loop(depth int, c lctx) *minijs.Node {
	c.inLoop = true
	body := &minijs.Node{K: "block", Kids: g.list(depth-1, c, 2)}
	x := minijs.Id("x")
	switch g.pick("loop", 4) {
	case 0:
		return &minijs.Node{K: "while", Kids: []*minijs.Node{x, body}}
	case 1:
		return &minijs.Node{K: "dowhile", Kids: []*minijs.Node{body, x}}
	case 2:
		return &minijs.Node{K: "for", Kids: []*minijs.Node{nil, nil, nil, body}}
	}
	return &minijs.Node{K: "forin", Kids: []*minijs.Node{minijs.Id("k"), x, body}}
}

// freshNames draws 1-3 label names; two times in three they avoid the enclosing labels and each
// other (a legal label set), otherwise they are free.
func (g *labelGen) freshNames(c lctx) []string {
	var names []string
	legal := g.pick("fresh", 3) > 0
	for i, n := 0, 1+g.pick("nlab", 3); i < n; i++ {
		nm := g.name()
		if legal {
			used := func(s string) bool {
				for _, l := range append(append([]string(nil), c.labels...), names...) {
					if l == s {
						return true
					}
				}
				return false
			}
			for k := 0; k < 4 && used(nm); k++ {
				nm = labelNames[(g.pick("alt", 4)+k)%4]
			}
			if used(nm) {
				break
			}
		}
		names = append(names, nm)
	}
	if len(names) == 0 {
		names = []string{g.name()}
	}
	return names
}

func (g *labelGen) stmt(depth int, c lctx) *minijs.Node {
	if depth <= 0 {
		if g.pick("leaf", 4) == 0 {
			return minijs.ExprStmt(minijs.Id("x"))
		}
		return g.branch(c)
	}
	switch g.pick("stmt", 12) {
	case 0, 1, 2, 3: // labelled statement, one to three labels
		names := g.freshNames(c)
		var body *minijs.Node
		switch g.pick("lbody", 6) {
		case 0, 1, 2:
			body = g.loop(depth, c.with(names, true))
		case 3:
			body = &minijs.Node{K: "block", Kids: g.list(depth-1, c.with(names, false), 3)}
		case 4:
			body = &minijs.Node{K: "if", Kids: []*minijs.Node{minijs.Id("x"), g.stmt(depth-1, c.with(names, false)), nil}}
		default:
			body = g.stmt(depth-1, c.with(names, false))
			if body.K == "while" || body.K == "dowhile" || body.K == "for" || body.K == "forin" {
				body = &minijs.Node{K: "block", Kids: []*minijs.Node{body}} // keep the steering information true
			}
		}
		for i := len(names) - 1; i >= 0; i-- {
			body = minijs.Label(names[i], body)
		}
		return body
	case 4, 5:
		return g.loop(depth, c)
	case 6:
		return &minijs.Node{K: "block", Kids: g.list(depth-1, c, 3)}
	case 7:
		sw := &minijs.Node{K: "switch", Kids: []*minijs.Node{minijs.Id("x")}}
		inner := c
		inner.inSwitch = true
		for i, n := 0, 1+g.pick("cases", 2); i < n; i++ {
			cs := &minijs.Node{K: "case", Kids: []*minijs.Node{minijs.Num("1")}}
			cs.Kids = append(cs.Kids, g.list(depth-1, inner, 2)...)
			sw.Kids = append(sw.Kids, cs)
		}
		return sw
	case 8: // a function boundary: labels and loops outside do not count inside
		f := &minijs.Node{K: "func", Kids: g.list(depth-1, lctx{}, 3)}
		if g.pick("fkind", 2) == 0 {
			return minijs.ExprStmt(minijs.Assign("=", minijs.Id("x"), f))
		}
		return minijs.ExprStmt(&minijs.Node{K: "call", Kids: []*minijs.Node{f}})
	case 9:
		return &minijs.Node{K: "try", Name: "e", Kids: []*minijs.Node{{K: "block", Kids: g.list(depth-1, c, 2)}, nil, {K: "block", Kids: g.list(depth-1, c, 1)}}}
	case 10:
		cons := g.stmt(depth-1, c)
		if minijs.EndsWithOpenIf(cons) {
			cons = &minijs.Node{K: "block", Kids: []*minijs.Node{cons}} // or the else would attach to the inner if
		}
		return &minijs.Node{K: "if", Kids: []*minijs.Node{minijs.Id("x"), cons, g.stmt(depth-1, c)}}
	}
	return g.branch(c)
}

// history builds the family "labels used by an earlier statement are used again later in the same
// function": a loop (or another statement) under one to three labels, then - after zero to two
// other statements, possibly inside a block - a statement re-using one of those names on a loop,
// a block, an if or a switch that encloses a loop with "continue <name>" / "break <name>".
func (g *labelGen) history() []*minijs.Node {
	var names []string
	for i, n := 0, 1+g.pick("hn", 3); i < n; i++ {
		names = append(names, labelNames[(g.pick("hfirst", 4)+i)%4])
	}
	first := g.loop(2, lctx{}.with(names, true))
	if g.pick("hfirstkind", 4) == 0 {
		first = &minijs.Node{K: "block", Kids: g.list(1, lctx{}.with(names, false), 2)}
	}
	for i := len(names) - 1; i >= 0; i-- {
		first = minijs.Label(names[i], first)
	}
	out := []*minijs.Node{first}
	for i, n := 0, g.pick("hgap", 3); i < n; i++ {
		out = append(out, g.stmt(1, lctx{}))
	}
	re := names[g.pick("hre", len(names))]
	br := &minijs.Node{K: []string{"continue", "continue", "break"}[g.pick("hbc", 3)], Name: re}
	inner := &minijs.Node{K: "while", Kids: []*minijs.Node{minijs.Id("x"), {K: "block", Kids: []*minijs.Node{br}}}}
	var second *minijs.Node
	switch g.pick("hsecond", 6) {
	case 0:
		second = &minijs.Node{K: "block", Kids: []*minijs.Node{inner}}
	case 1:
		second = &minijs.Node{K: "if", Kids: []*minijs.Node{minijs.Id("x"), inner, nil}}
	case 2:
		second = &minijs.Node{K: "switch", Kids: []*minijs.Node{minijs.Id("x"), {K: "case", Kids: []*minijs.Node{minijs.Num("1"), inner}}}}
	case 3:
		second = &minijs.Node{K: "try", Name: "e", Kids: []*minijs.Node{{K: "block", Kids: []*minijs.Node{inner}}, {K: "block"}, nil}}
	case 4:
		second = inner // the label sits on the loop itself: valid
	default:
		second = &minijs.Node{K: "for", Kids: []*minijs.Node{nil, nil, nil, &minijs.Node{K: "block", Kids: []*minijs.Node{inner}}}} // valid as well
	}
	second = minijs.Label(re, second)
	if g.pick("hwrap", 3) == 0 {
		second = &minijs.Node{K: "block", Kids: []*minijs.Node{second}}
	}
	out = append(out, second)
	if g.pick("hfn", 4) == 0 {
		// the whole history inside a function body
		return []*minijs.Node{minijs.ExprStmt(minijs.Assign("=", minijs.Id("x"), &minijs.Node{K: "func", Kids: out}))}
	}
	return out
}

func genLabels(t *rapid.T) labelCase {
	g := &labelGen{t: t}
	var kids []*minijs.Node
	if g.pick("mode", 3) == 0 {
		kids = g.history()
		if g.pick("more", 2) == 0 {
			kids = append(kids, g.list(2, lctx{}, 2)...)
		}
	} else {
		kids = g.list(1+g.pick("depth", 3), lctx{}, 3)
	}
	c := labelCase{Prog: &minijs.Node{K: "program", Kids: kids}}
	if rapid.Bool().Draw(t, "layout") {
		c.Trivia = rapid.SliceOfN(rapid.Byte(), 1, 16).Draw(t, "trivia")
	}
	return c
}

func labelFeatures(p *minijs.Node) []string {
	seen := map[string]bool{}
	count := map[string]int{}
	minijs.Walk(p, func(n *minijs.Node) {
		switch n.K {
		case "label":
			count[n.Name]++
			if len(n.Kids) == 1 && n.Kids[0] != nil && n.Kids[0].K == "label" {
				seen["multi-label"] = true
			}
		case "break", "continue":
			if n.Name != "" {
				seen[n.K+"-label"] = true
			}
		case "func":
			seen["function-boundary"] = true
		}
	})
	for _, c := range count {
		if c > 1 {
			seen["name-reused"] = true
		}
	}
	var out []string
	for _, k := range []string{"multi-label", "name-reused", "break-label", "continue-label", "function-boundary"} {
		if seen[k] {
			out = append(out, k)
		}
	}
	return out
}

func checkLabelsLocal(c labelCase) harness.Outcome {
	if c.Prog == nil {
		return harness.Outcome{Discard: "empty case"}
	}
	verr := minijs.Validate(c.Prog, minijs.ValidateOpts{})
	toks := minijs.Tokens(c.Prog, nil)
	var text string
	var mut []minijs.Token
	if len(c.Trivia) == 0 {
		mut = toks
		_, text = m04.Canonical(toks)
	} else {
		text = minijs.Text(minijs.Layout(toks, minijs.LayoutOpts{Trivia: c.Trivia}))
	}
	feats := labelFeatures(c.Prog)
	o := harness.Outcome{Nontrivial: len(feats) >= 2}
	for _, f := range feats {
		o.Classes = append(o.Classes, "has:"+f)
	}
	if verr == nil {
		o.Classes = append(o.Classes, "valid")
		v := analyse(text, 0, mut)
		if v.fail == "" && !v.accepted {
			r := parse(text, 0)
			v.fail = fmt.Sprintf("a program whose break / continue / label use is valid (ES5 12.7, 12.8, 12.12) is rejected: %v; src=%s", r.err, show(text))
		}
		o.Fail, o.Excluded = v.fail, dedup(v.excluded)
		return o
	}
	o.Classes = append(o.Classes, "invalid")
	r := parse(text, 0)
	switch {
	case r.panic != "":
		o.Fail = fmt.Sprintf("parser.ParseFile panicked: %s [%s]; src=%s", r.panic, r.frames, show(text))
	case r.err == nil:
		o.Fail = fmt.Sprintf("(b) accepted a program that violates ES5 12.7 / 12.8 / 12.12: %v; src=%s", verr, show(text))
	default:
		if bad := checkErrors(text, r.err); bad != "" {
			o.Fail = bad
		} else if bad := noEffect("hit(1); g1 = 1;\n"+text, false); bad != "" {
			o.Fail = bad + "; src=" + show(text)
		}
	}
	return o
}

var labelFacet = harness.Register(&harness.Facet[labelCase]{
	Name: "labels",
	Rule: "rapid: label histories - statement trees (depth<=3) of labelled statements with 1-3 labels from the pool a b c d on loops / blocks / if / anything, unlabelled loops, blocks, switch, try-finally, if-else, function expressions (boundary), and break / continue without label, with an enclosing label or with any pool name (two choices in three are steered towards a legal form so that about half of the programs are valid); one case in three starts with the family 'a statement under 1-3 labels, 0-2 statements, then one of these names again on a block / if / switch / try / loop enclosing a loop with continue|break <name>', optionally inside a function; canonical or trivia layout; verdict by minijs.Validate (ES5 12.7, 12.8, 12.12); valid => accepted, faithful, spans, walker; invalid => ParseFile error and Run / eval / new Function / Compile without effect; non-trivial = at least two of: multi-label statement, re-used name, labelled break, labelled continue, function boundary; distinct by JSON of the case",
	Quick: 3000, Thorough: 30000,
	Gen:   genLabels,
	Check: remote("labels", checkLabelsLocal),
})

func TestLabels(t *testing.T) { labelFacet.Run(t) }
