package c04

import (
	"fmt"
	"testing"

	"github.com/robertkrimen/otto"
	"pgregory.net/rapid"

	"verif/lib/harness"
	"verif/lib/m04"
	"verif/lib/minijs"
)

// ---- facet: rejection ----------------------------------------------------------------------------
// A valid program gets exactly one early error (lib/m04/inject.go) at a site whose syntactic
// context is known, behind statements with side effects. Oracle: parser.ParseFile reports an
// error, and a fresh runtime asked to Run / eval / compile the text returns an error while the
// host function was never called and the global object is unchanged.

type rejectCase struct {
	Prog   *minijs.Node  `json:"prog"`
	Inj    m04.Injection `json:"inj"`
	Trivia []byte        `json:"trivia"`
}

const snapshotJS = `(function(){
  var g = this, names = Object.getOwnPropertyNames(g).sort(), vals = [];
  for (var i = 0; i < names.length; i++) {
    var d = Object.getOwnPropertyDescriptor(g, names[i]);
    vals.push('value' in d ? d.value : d.get, 'value' in d ? 0 : d.set, (d.writable ? 'w' : '') + (d.enumerable ? 'e' : '') + (d.configurable ? 'c' : ''));
  }
  return [names, vals];
})()`

const compareJS = `(function(a, b){
  if (a[0].length !== b[0].length) return 'the global object had ' + a[0].length + ' own properties, now ' + b[0].length + ': ' + b[0].filter(function(n){ return a[0].indexOf(n) < 0 }).concat(a[0].filter(function(n){ return b[0].indexOf(n) < 0 })).join(',');
  for (var i = 0; i < a[0].length; i++) if (a[0][i] !== b[0][i]) return 'own property ' + a[0][i] + ' became ' + b[0][i];
  for (var j = 0; j < a[1].length; j++) {
    var x = a[1][j], y = b[1][j];
    if (x !== y && !(x !== x && y !== y)) return 'global property ' + a[0][Math.floor(j / 3)] + ' changed (value, accessor or attributes)';
  }
  return '';
})`

type rejectEnv struct {
	vm     *otto.Otto
	before otto.Value
	hits   int
	src    string
	uses   int
}

var theEnv *rejectEnv

func newRejectEnv() (*rejectEnv, error) {
	e := &rejectEnv{vm: otto.New()}
	if err := e.vm.Set("hit", func(call otto.FunctionCall) otto.Value { e.hits++; return otto.Value{} }); err != nil {
		return nil, err
	}
	if err := e.vm.Set("getsrc", func(call otto.FunctionCall) otto.Value { v, _ := otto.ToValue(e.src); return v }); err != nil {
		return nil, err
	}
	var err error
	e.before, err = e.vm.Run(snapshotJS)
	return e, err
}

func checkRejectLocal(c rejectCase) harness.Outcome {
	if c.Prog == nil {
		return harness.Outcome{Discard: "empty case"}
	}
	res, ok := m04.Inject(c.Prog, c.Inj)
	if !ok {
		return harness.Outcome{Discard: "no eligible site for " + c.Inj.Kind}
	}
	var text string
	layout := "canonical"
	if res.CanonicalOnly || len(c.Trivia) == 0 {
		_, text = m04.Canonical(res.Tokens)
	} else {
		layout = "trivia"
		text = minijs.Text(minijs.Layout(res.Tokens, minijs.LayoutOpts{Trivia: c.Trivia}))
	}
	o := harness.Outcome{Nontrivial: true, Classes: []string{"kind:" + c.Inj.Kind, "layout:" + layout, fmt.Sprintf("fn-depth:%d", min(res.Depth, 3))}}
	if res.InLoop {
		o.Classes = append(o.Classes, "site:in-loop")
	}
	failf := func(format string, a ...interface{}) harness.Outcome {
		o.Fail = fmt.Sprintf("%s; injected %s; src=%s", fmt.Sprintf(format, a...), res.What, show(text))
		return o
	}
	r := parse(text, 0)
	if r.panic != "" {
		return failf("parser.ParseFile panicked: %s [%s]", r.panic, r.frames)
	}
	if r.err == nil {
		if res.Known != "" && known(res.Known) {
			o.Excluded = append(o.Excluded, res.Known)
			return o
		}
		if r.prog != nil && known("C04-SWITCH-UNTERMINATED") && hasOpenSwitch(m04.Reflect(r.prog)) {
			// the injected error left a switch statement open at the end of the input
			o.Excluded = append(o.Excluded, "C04-SWITCH-UNTERMINATED")
			return o
		}
		return failf("(b) invalid ES5 text is accepted by parser.ParseFile")
	}
	if bad := checkErrors(text, r.err); bad != "" {
		return failf("%s", bad)
	}

	if bad := noEffect(text, res.ReturnOnly); bad != "" {
		return failf("%s", bad)
	}
	return o
}

// noEffect runs a text that parser.ParseFile rejects through the runtime's entry points and
// returns "" when every one of them returns an error, the host function was not called and the
// global object is unchanged.
func noEffect(text string, returnOnly bool) string {
	// One runtime serves consecutive cases: a rejected text must leave it exactly as it was, and
	// that is what is verified after every case; the runtime is dropped at the first deviation, so
	// the verdict of a case never depends on an earlier one.
	env := theEnv
	if env == nil {
		var err error
		if env, err = newRejectEnv(); err != nil {
			return fmt.Sprintf("harness: %v", err)
		}
	}
	theEnv = nil // only put back when the case left it untouched
	env.src, env.hits = text, 0
	vm := env.vm
	routes := []struct {
		name string
		run  func() harness.RunResult
	}{
		{"Run(text)", func() harness.RunResult { return harness.Run(vm, text) }},
		{"Run(\"eval(getsrc())\")", func() harness.RunResult { return harness.Run(vm, "eval(getsrc())") }},
		{"Run(\"new Function(getsrc())\")", func() harness.RunResult { return harness.Run(vm, "new Function(getsrc())") }},
		{"Compile(text)", func() harness.RunResult {
			return harness.Guard(func() (otto.Value, error) { _, err := vm.Compile("", text); return otto.Value{}, err })
		}},
	}
	for i, rt := range routes {
		if returnOnly && i == 2 {
			continue // a return statement is legal in a FunctionBody
		}
		done := inOtto(rt.name)
		rr := rt.run()
		done()
		if rr.Panic != nil {
			return fmt.Sprintf("(b) %s panicked: %v", rt.name, rr.Panic)
		}
		if rr.Err == nil {
			return fmt.Sprintf("(b) %s returned no error for a text parser.ParseFile rejects", rt.name)
		}
		if env.hits != 0 {
			return fmt.Sprintf("(b) %s returned %v but the host function was called %d times", rt.name, rr.Err, env.hits)
		}
	}
	after, err := vm.Run(snapshotJS)
	if err != nil {
		return fmt.Sprintf("harness: snapshot: %v", err)
	}
	diff, err := vm.Call(compareJS, nil, env.before, after)
	if err != nil {
		return fmt.Sprintf("harness: compare: %v", err)
	}
	if d := diff.String(); d != "" {
		return fmt.Sprintf("(b) Run / eval / new Function / Compile each returned an error but the runtime was changed: %s", d)
	}
	env.uses++
	if env.uses < 2000 {
		theEnv = env
	}
	return ""
}

var rejectFacet = harness.Register(&harness.Facet[rejectCase]{
	Name: "rejection",
	Rule: "rapid: minijs.GenProgram (valid, depth<=5) + one injector of 18 kinds (break / continue outside a loop or switch, continue to a label of a non-iteration statement, return outside a function, unknown label incl. across a function boundary, duplicate nested label, 29 invalid assignment / update / for-in targets, try without catch or finally and malformed catch, malformed or unterminated regexp / string / comment, \\x / \\u escapes with one of 26 non-hex characters at any digit position (strings of both quote kinds, keys, directives, identifiers), one of 50 invalid pattern pieces (non-ES5 group forms, quantifier errors, reversed class ranges, unbalanced parentheses) wrapped 0-3 levels deep in capturing / non-capturing / alternation / quantified groups and rejected by an own ES5 15.10.1 recogniser, reserved word as identifier, 100 underivable token sequences, a bracket deleted or a stray bracket inserted, an operator inserted behind an operator, constructs otto is known to accept) placed as a statement at a random statement-list position whose context (function depth, loop, switch, labels, first-in-list) makes it an error by construction, behind `hit(1); g1=1; var g2=hit(2); this.g3=[hit]; function g4(){} hit(3);`; canonical layout or random trivia without line terminators inside the injection; oracle: ParseFile error (positions inside the text), then on a fresh runtime Run(text), eval(text), new Function(text) and Compile(text) each return an error, the host function was never called and the sorted own property names, values (by identity), accessors and attributes of the global object are unchanged; every evaluated case is non-trivial (the error is preceded by >= 6 executable statements); distinct by JSON of the case",
	Quick: 2500, Thorough: 24000,
	Gen: func(t *rapid.T) rejectCase {
		c := rejectCase{Prog: genPrograms(t, 5)}
		c.Inj.Kind = m04.KindNames[uniform(t, "kind", len(m04.KindNames))]
		c.Inj.Site = uniform(t, "site", 1<<16)
		c.Inj.Var = uniform(t, "var", 1<<16)
		c.Inj.Deep = rapid.Bool().Draw(t, "deep")
		if rapid.Bool().Draw(t, "layout") {
			c.Trivia = rapid.SliceOfN(rapid.Byte(), 1, 24).Draw(t, "trivia")
		}
		return c
	},
	Check: remote("rejection", checkRejectLocal),
})

func TestRejection(t *testing.T) { rejectFacet.Run(t) }
