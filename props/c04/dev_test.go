package c04

import (
	"bufio"
	"fmt"
	"os"
	"runtime"
	"sort"
	"strings"
	"testing"
	"time"

	"github.com/robertkrimen/otto/parser"

	"verif/lib/m04"
)

// Development aid (skipped in normal runs): VERIF_DEV=parse VERIF_DEV_IN=<file with one source per line>
// prints what parser.ParseFile says about every line.
func TestDevParse(t *testing.T) {
	if os.Getenv("VERIF_DEV") != "parse" {
		t.Skip("dev aid")
	}
	f, err := os.Open(os.Getenv("VERIF_DEV_IN"))
	if err != nil {
		t.Fatal(err)
	}
	defer f.Close()
	sc := bufio.NewScanner(f)
	for sc.Scan() {
		src := strings.ReplaceAll(sc.Text(), `\n`, "\n")
		func() {
			defer func() {
				if p := recover(); p != nil {
					fmt.Printf("PANIC   %-40q %v\n", src, p)
				}
			}()
			_, err := parser.ParseFile(nil, "", src, 0)
			if err != nil {
				fmt.Printf("reject  %-40q %v\n", src, err)
			} else {
				fmt.Printf("ACCEPT  %-40q\n", src)
			}
		}()
	}
}

// VERIF_DEV=time: parse time of a nesting input for growing depth (VERIF_DEV_OPEN, _MID, _CLOSE).
func TestDevTime(t *testing.T) {
	if os.Getenv("VERIF_DEV") != "time" {
		t.Skip("dev aid")
	}
	open, mid, cl := os.Getenv("VERIF_DEV_OPEN"), os.Getenv("VERIF_DEV_MID"), os.Getenv("VERIF_DEV_CLOSE")
	for _, n := range []int{100, 200, 400, 800, 1600, 3200} {
		src := strings.Repeat(open, n) + mid + strings.Repeat(cl, n)
		start := time.Now()
		_, err := parser.ParseFile(nil, "", src, 0)
		ne := 0
		if el, ok := err.(*parser.ErrorList); ok {
			ne = len(*el)
		}
		fmt.Printf("n=%d  %v  errors=%d\n", n, time.Since(start), ne)
	}
}

// VERIF_DEV=nest: slowest opener/closer combinations of the nesting generator at full depth.
func TestDevNest(t *testing.T) {
	if os.Getenv("VERIF_DEV") != "nest" {
		t.Skip("dev aid")
	}
	type row struct {
		d    time.Duration
		what string
	}
	var rows []row
	for _, o := range nestOpen {
		for _, m := range []string{"", "a", ")"} {
			for _, cl := range append([]string{""}, nestClose...) {
				c := bytesCase{How: "nesting", Segs: []seg{{S: []byte(o), Rep: 10000}, {S: []byte(m), Rep: 1}, {S: []byte(cl), Rep: 10000}}}
				if dupLabelRun(c) > 100 {
					continue
				}
				src := c.text()
				start := time.Now()
				r := parse(src, 0)
				d := time.Since(start)
				ne := 0
				if el, ok := r.err.(*parser.ErrorList); ok {
					ne = len(*el)
				}
				rows = append(rows, row{d, fmt.Sprintf("%q %q %q len=%d errors=%d panic=%q", o, m, cl, len(src), ne, r.panic)})
			}
		}
	}
	sort.Slice(rows, func(i, j int) bool { return rows[i].d > rows[j].d })
	var tot time.Duration
	for _, r := range rows {
		tot += r.d
	}
	fmt.Printf("combos=%d total=%v\n", len(rows), tot)
	for _, r := range rows[:25] {
		fmt.Printf("%v %s\n", r.d, r.what)
	}
}

// VERIF_DEV=mem: heap growth and time of a nesting input in StoreComments mode.
func TestDevMem(t *testing.T) {
	if os.Getenv("VERIF_DEV") != "mem" {
		t.Skip("dev aid")
	}
	open, mid, cl := os.Getenv("VERIF_DEV_OPEN"), os.Getenv("VERIF_DEV_MID"), os.Getenv("VERIF_DEV_CLOSE")
	for _, mode := range []parser.Mode{0, parser.StoreComments} {
		for _, n := range []int{1000, 2000, 4000, 8000} {
			src := strings.Repeat(open, n) + mid + strings.Repeat(cl, n)
			var m0, m1 runtime.MemStats
			runtime.GC()
			runtime.ReadMemStats(&m0)
			start := time.Now()
			r := parse(src, mode)
			d := time.Since(start)
			runtime.ReadMemStats(&m1)
			fmt.Printf("mode=%d n=%d %v alloc=%dMB err=%v panic=%q\n", mode, n, d, (m1.TotalAlloc-m0.TotalAlloc)>>20, r.err != nil, r.panic)
		}
	}
}

// VERIF_DEV=regex: which generated invalid regular expression bodies does the parser accept?
func TestDevRegex(t *testing.T) {
	if os.Getenv("VERIF_DEV") != "regex" {
		t.Skip("dev aid")
	}
	acc := map[string][]string{}
	for seed := 0; seed < 6000; seed++ {
		body, _, defect := m04.NestedBadRegex(seed)
		if r := parse("x = /"+body+"/;", 0); r.err == nil && r.panic == "" {
			if len(acc[defect]) < 3 {
				acc[defect] = append(acc[defect], body)
			}
		} else if r.panic != "" {
			fmt.Printf("PANIC %q: %s\n", body, r.panic)
		}
	}
	for d, b := range acc {
		fmt.Printf("ACCEPTED defect %q e.g. %q\n", d, b)
	}
}
