package c05

import (
	"math"
	"strconv"

	"pgregory.net/rapid"

	"verif/lib/gen"
	"verif/lib/m05"
)

// ---- pool S: numeric strings, every alternative of StringNumericLiteral (9.3.1) and near misses ------

var numericStrings = []string{
	// valid
	"", " ", "0", "-0", "+0", "1", "-1", "+1", "12", "007", "1.5", "-1.5", ".5", "+.5", "-.5", "5.", "5.e1", "1e3", "1E3", "1e+3", "1e-3",
	"1.5e300", "1e400", "-1e400", "1e-400", "-1e-400", "Infinity", "+Infinity", "-Infinity", "0x10", "0X1f", "0xFF", "0x0", "0xffffffff",
	"0x100000000", "0x7fffffffffffffff", "0x20000000000001", "4294967296", "4294967295", "2147483648", "2147483647", "-2147483648", "-2147483649",
	"9007199254740993", "9223372036854775808", "-9223372036854775808", "18446744073709551616", "1e21", "123456789012345678901234567890",
	"0.1", "0.000001", "1e-7", "4.9e-324", "2.4703282292062327e-324", "2.4703282292062328e-324", "1.7976931348623157e308", "1.7976931348623159e308",
	"3.5", "2.5", "-3.5", "65536", "65535.9", "-65537", "4294967296.5", "-4294967296.5",
	// valid with StrWhiteSpace
	" 12 ", "\t7\n", "\u00a01", "1\ufeff", "\u2028 3 \u2029", "\u30001", "\u16805", "\n", "  -3.5e1  ", " 0x10 ", "\v\f1", "\r\n-Infinity\t", "\u2000\u200a9", "\u202f8\u205f",
	// near misses (NaN)
	"0x", "+0x10", "-0x10", "1e", "1e+", ".5.", ".", "+", "-", "e5", "Infinityx", "Infinit", "+ 1", "- 1", "1 2", "1,5", "\u0661", "\uff11",
	"NaN", "nan", "abc", "1f", "1d", "0x1g", "--1", "+-1", "1e5.5", "1e1e1", "true", "null", "undefined", "12px", "$1", "1L", "0.0.0", "1..", "..1",
	"\u00851", "\u200b1", "1\u0000", "0b1", "0o7", "0x1p4", "1p3", "I", "+I",
	// accepted by Go's strconv but not by ES5 (finding C05-TONUMBER-GO-SYNTAX) / hex ≥ 2^63 (C05-TONUMBER-HEX-2P63)
	"infinity", "INFINITY", "inf", "Inf", "+inf", "-INF", "1_0", "0x1_0", "1_000.5", "0x1.8p1", "-0x1p1", "0x.8p1",
	"0x8000000000000000", "0xffffffffffffffff", "0x10000000000000000",
}

// ---- pool P: other strings over the four alphabets -------------------------------------------------

var otherStrings = [][]uint16{
	u("a"), u("b"), u("ab"), u("aa"), u("A"), u("B"), u("Z"), u("a "), u("word"), u("[object Object]"), u("false"), u("length"), u("1,2"), u("-"),
	{0xe9}, {0xff}, {0x100}, {0xfffd}, {0xe000}, {0xffff}, {0xd7ff}, {0xd800, 0xdc00}, {0xd83d, 0xde00}, {0xdbff, 0xdfff},
	{'a', 0xffff}, {'a', 0xd800, 0xdc00}, {0xd800, 0xdc00, 'a'}, {0xffff, 'a'}, {0xe000, 0xd800, 0xdc00}, {0xd83d, 0xde00, 0xffff},
}

func u(s string) []uint16 {
	out := make([]uint16, len(s))
	for i := 0; i < len(s); i++ {
		out[i] = uint16(s[i])
	}
	return out
}

// ---- pool B': the doubles of the exhaustive product (the rapid facets draw from gen.BoundaryDoubles too)

func productDoubles(full bool) []float64 {
	seen := map[uint64]bool{}
	var out []float64
	add := func(x float64) {
		if m05.TextCorner(x) {
			return
		}
		b := math.Float64bits(x)
		if math.IsNaN(x) {
			b = 0x7ff8000000000000
		}
		if !seen[b] {
			seen[b] = true
			out = append(out, x)
		}
	}
	both := func(x float64) { add(x); add(-x) }
	add(math.NaN())
	both(0)
	both(math.Inf(1))
	for _, x := range []float64{1, 2, 3, 0.5, 1.5, 2.5, 31, 32, 33, 255, 65535, 65536, 1e21, 1e-7, 2147483647.5, 4294967295.5, 9007199254740993} {
		both(x)
	}
	ks := []int{31, 32, 53, 63, 64}
	if full {
		ks = []int{-1074, -1073, -1022, -52, -1, 1, 2, 3, 4, 5, 7, 8, 15, 16, 23, 24, 30, 31, 32, 33, 51, 52, 53, 54, 62, 63, 64, 65, 127, 128, 1022, 1023}
		for _, x := range []float64{7, 10, 100, 0.1, 0.25, 0.75, 3.5, 1e-6, 123456789, 1e300, 1e-300, 1e22, 12345678901234567890, 5e-324 * 3, math.Pi, math.E,
			4503599627370497, 4503599627370495.5, 9007199254740991, 4294967295.5, 2147483648.5, 65535.5, 1e15, 1e16, 1e17, 1e20, 1.5e21, 1e-5, 1e-8, 1e308, 1e-308, 1e-323} {
			both(x)
		}
	}
	for _, k := range ks {
		p := math.Ldexp(1, k)
		both(p)
		if full || k == 63 {
			both(math.Nextafter(p, math.Inf(1)))
			both(math.Nextafter(p, 0))
		}
		if k >= 5 && k <= 65 {
			both(p - 1)
			both(p + 1)
			if full {
				both(p + 0.5)
				both(p - 0.5)
				both(p + 2048)
				both(p * 3)
			}
		}
	}
	both(math.MaxFloat64)
	both(math.SmallestNonzeroFloat64)
	return out
}

// productPool is the primitive pool of the exhaustive product: quick = the core, thorough = the full pool.
func productPool(full bool) []Operand {
	var out []Operand
	out = append(out, Operand{K: "undef"}, Operand{K: "null"}, Operand{K: "bool", B: true}, Operand{K: "bool", B: false})
	for _, x := range productDoubles(full) {
		out = append(out, numOp(x, ""))
	}
	ns := numericStrings
	os := otherStrings
	if !full {
		ns = []string{"", " ", "0", "-0", "1", "-1.5", ".5", "1e3", "Infinity", "-Infinity", "0x10", "4294967296", "-2147483649", " 12 ", "\u2028 3 \u2029", "0x", "-0x10", "1e", "abc", "NaN", "true", "infinity", "1_0", "0x8000000000000000", "9223372036854775808"}
		os = [][]uint16{u("a"), u("b"), u("ab"), u("A"), {0xe9}, {0xffff}, {0xe000}, {0xd800, 0xdc00}, {'a', 0xffff}, {'a', 0xd800, 0xdc00}}
	}
	for _, s := range ns {
		out = append(out, strOpA(s))
	}
	for _, s := range os {
		out = append(out, strOp(s))
	}
	return out
}

// ---- rapid generators -------------------------------------------------------------------------------

func genDouble(t *rapid.T) float64 {
	for {
		x := gen.Double().Draw(t, "double")
		if !m05.TextCorner(x) {
			return x
		}
	}
}

// integers that make the Go integer channels and the ToInt32/ToUint32 shortcuts interesting
var intCorners = []float64{0, 1, -1, 2, 7, 31, 32, 33, 127, 128, -128, -129, 255, 256, 32767, 32768, -32768, -32769, 65535, 65536, 65537,
	2147483647, 2147483648, -2147483648, -2147483649, 4294967295, 4294967296, 4294967297, 6442450944, -4294967296,
	9007199254740991, 9007199254740992, -9007199254740992, 9007199254740994, 1152921504606846976, -1152921504606846976, 1152921504606847232,
	4611686018427387904, 9223372036854774784, -9223372036854775808, 9223372036854775808, 9223372036854777856, 13835058055282163712, 18446744073709549568}

// integer literals beyond 2^53 that are not doubles: ES5 7.8.3 rounds the literal's value; otto keeps an int64
var inexactIntLits = []string{"9007199254740993", "9007199254740995", "18014398509481985", "1152921504606846977", "123456789012345678", "9223372036854775807"}

// genWideInt: a random integer in (2^53, 2^63) near a double boundary, as literal or Go integer.
func genWideInt(t *rapid.T, base uint64) Operand {
	n := base + uint64(rapid.IntRange(0, 9).Draw(t, "widedelta"))
	lit := strconv.FormatUint(n, 10)
	x, _ := strconv.ParseFloat(lit, 64)
	o := numOp(x, rapid.SampledFrom([]string{"dec", "i64", "int", "u64", "uint"}).Draw(t, "widevia"))
	o.Lit = lit
	return o
}

// genWideBase: 2^k * m - 4 for 53 <= k <= 62, so that base..base+9 straddles representable doubles.
func genWideBase(t *rapid.T) uint64 {
	k := rapid.IntRange(53, 62).Draw(t, "widek")
	m := uint64(rapid.IntRange(1, 1<<uint(62-k)).Draw(t, "widem"))
	if 62-k > 20 {
		m = uint64(rapid.IntRange(1, 1<<20).Draw(t, "widem2"))
	}
	return m<<uint(k) + (uint64(1)<<uint(k-53))*uint64(rapid.IntRange(0, 3).Draw(t, "wideulp")) - 4
}

func genNumber(t *rapid.T) Operand {
	if rapid.IntRange(0, 24).Draw(t, "inexactlit") == 24 {
		lit := rapid.SampledFrom(inexactIntLits).Draw(t, "lit")
		x, _ := strconv.ParseFloat(lit, 64)
		o := numOp(x, "dec")
		o.Lit = lit
		return o
	}
	var x float64
	if rapid.IntRange(0, 3).Draw(t, "intcorner") == 3 {
		x = rapid.SampledFrom(intCorners).Draw(t, "int")
	} else {
		x = genDouble(t)
	}
	vias := []string{"", "", "dec", "f64"}
	for _, v := range []string{"hex", "f32", "i8", "i16", "i32", "i64", "int", "u8", "u16", "u32", "u64", "uint"} {
		if viaOK(x, v) {
			vias = append(vias, v)
		}
	}
	return numOp(x, rapid.SampledFrom(vias).Draw(t, "via"))
}

func genString(t *rapid.T) Operand {
	var o Operand
	switch k := rapid.IntRange(0, 9).Draw(t, "strkind"); {
	case k < 5:
		o = strOpA(rapid.SampledFrom(numericStrings).Draw(t, "numstr"))
	case k < 8:
		o = strOp(rapid.SampledFrom(otherStrings).Draw(t, "otherstr"))
	default:
		o = strOp(gen.Units16(5).Draw(t, "units"))
	}
	if rapid.IntRange(0, 3).Draw(t, "strset") == 3 {
		o.Via = "set"
	}
	return o
}

func genPrimitive(t *rapid.T) Operand {
	switch k := rapid.IntRange(0, 19).Draw(t, "primkind"); {
	case k < 9:
		return genNumber(t)
	case k < 16:
		return genString(t)
	case k == 16:
		return Operand{K: "undef", Via: rapid.SampledFrom([]string{"", "void", "set"}).Draw(t, "undefvia")}
	case k == 17:
		return Operand{K: "null", Via: rapid.SampledFrom([]string{"", "set"}).Draw(t, "nullvia")}
	default:
		return Operand{K: "bool", B: rapid.Bool().Draw(t, "b"), Via: rapid.SampledFrom([]string{"", "set"}).Draw(t, "boolvia")}
	}
}

// retPrimitive: what a conversion method returns in mode "prim" — a literal-channel primitive.
func genRet(t *rapid.T) *Operand {
	var o Operand
	switch k := rapid.IntRange(0, 9).Draw(t, "retkind"); {
	case k < 4:
		o = numOp(rapid.SampledFrom([]float64{0, 1, -1, 2.5, 7, 33, math.NaN(), math.Inf(1), math.Copysign(0, -1), 4294967296, 2147483648, -2147483649, 9223372036854775808, 1e21, 1e-7}).Draw(t, "retnum"), "")
	case k < 8:
		o = strOpA(rapid.SampledFrom([]string{"", "a", "b", "1", "2", " 12 ", "0x10", "-1.5", "abc", "1e3", "Infinity", "a", "0", "length", "true", "\uffff", "\U00010000"}).Draw(t, "retstr"))
	case k == 8:
		o = Operand{K: "bool", B: rapid.Bool().Draw(t, "retbool")}
	default:
		o = Operand{K: rapid.SampledFrom([]string{"undef", "null"}).Draw(t, "retnul")}
	}
	return &o
}

func genMethod(t *rapid.T, label string, allowInherit bool) MethodSpec {
	modes := []string{m05.MPrim, m05.MPrim, m05.MPrim, m05.MObj, m05.MThrow, m05.MUndef, m05.MNonCall}
	if allowInherit {
		modes = append(modes, m05.MInherit)
	}
	m := MethodSpec{Mode: rapid.SampledFrom(modes).Draw(t, label)}
	if m.Mode == m05.MPrim {
		m.Ret = genRet(t)
	}
	return m
}

func genObject(t *rapid.T) Operand {
	date := rapid.IntRange(0, 4).Draw(t, "date") == 4
	o := Operand{K: "obj", O: &ObjSpec{Date: date}}
	o.O.V = genMethod(t, "valueOf", !date)
	o.O.T = genMethod(t, "toString", !date)
	if rapid.IntRange(0, 3).Draw(t, "getter") == 3 {
		o.Ref = "getter"
	}
	return o
}

// genBuiltinObject: a Boolean/Number/String wrapper or an array of primitives — objects whose
// built-in valueOf/toString (15.6.4, 15.7.4, 15.5.4, 15.4.4.2) take part in ToPrimitive unlogged.
func genBuiltinObject(t *rapid.T) Operand {
	if rapid.Bool().Draw(t, "array") {
		n := rapid.IntRange(0, 3).Draw(t, "nelems")
		o := Operand{K: "arr"}
		for i := 0; i < n; i++ {
			o.Elems = append(o.Elems, *genRet(t))
		}
		return o
	}
	in := genRet(t)
	if in.K == "undef" || in.K == "null" {
		*in = numOp(0, "")
	}
	return Operand{K: "wrap", Inner: in}
}
