// Package c05 decides property C05: type conversions and operators follow ES5 §9 and §11 on every value.
//
// Layout: core_test.go (operands, rendering, evaluation on otto, comparison), pools_test.go (value
// pools and generators), facets_test.go (the facets). The oracle is package verif/lib/m05.
package c05

import (
	"fmt"
	"math"
	"math/big"
	"strconv"
	"strings"
	"testing"

	"github.com/robertkrimen/otto"

	"verif/lib/es5"
	"verif/lib/harness"
	"verif/lib/m05"
)

func TestMain(m *testing.M) { harness.Main(m, "C05") }

// ---- operands --------------------------------------------------------------------------------------

// Operand is one JSON-serialisable operand of a case.
type Operand struct {
	K    string   `json:"k"`              // undef null bool num str obj alias scn undecl wrap arr
	N    string   `json:"n,omitempty"`    // num: exact literal of the double (harness.NumLit)
	S    []uint16 `json:"s,omitempty"`    // str: code units (well formed)
	B    bool     `json:"b,omitempty"`    // bool
	Via  string   `json:"via,omitempty"`  // injection channel, see viaKinds
	Ref  string   `json:"ref,omitempty"`  // "" inline; "getter": read through an accessor property that logs
	O    *ObjSpec `json:"o,omitempty"`    // obj
	Name string   `json:"name,omitempty"` // scn: scenery name

	Lit   string    `json:"lit,omitempty"`   // num: source text of an integer literal that is not exactly a double (N is its rounded value)
	Inner *Operand  `json:"inner,omitempty"` // wrap: new Boolean/Number/String(inner)
	Elems []Operand `json:"elems,omitempty"` // arr: array literal of primitives
}

// MethodSpec is one programmable conversion method of an O object.
type MethodSpec struct {
	Mode string   `json:"m"`
	Ret  *Operand `json:"r,omitempty"` // primitive returned in mode "prim" (literal channels only)
}

// ObjSpec describes an O object.
type ObjSpec struct {
	V    MethodSpec `json:"v"`
	T    MethodSpec `json:"t"`
	Date bool       `json:"date,omitempty"`
}

// Channels for numbers: literals ("" exponent form → float64 inside otto; "dec" plain decimal text →
// int64 inside otto when it is an integer below 2^63; "hex" → int64), and Otto.Set from Go values.
// Channels for strings/booleans/undefined/null: "" literal, "set" through Otto.Set.
var goIntVias = []string{"i8", "i16", "i32", "i64", "int", "u8", "u16", "u32", "u64", "uint"}

func parseLit(l string) float64 {
	switch l {
	case "NaN":
		return math.NaN()
	case "Infinity":
		return math.Inf(1)
	case "-Infinity":
		return math.Inf(-1)
	case "-0":
		return math.Copysign(0, -1)
	}
	f, err := strconv.ParseFloat(l, 64)
	if err != nil {
		panic("c05: bad numeric literal in case: " + l)
	}
	return f
}

func numOp(x float64, via string) Operand { return Operand{K: "num", N: harness.NumLit(x), Via: via} }
func strOp(u []uint16) Operand            { return Operand{K: "str", S: u} }
func strOpA(s string) Operand             { return Operand{K: "str", S: harness.UTF16(s)} }

func isInt(x float64) bool { return !math.IsNaN(x) && !math.IsInf(x, 0) && x == math.Trunc(x) }

// viaOK reports whether the double can travel through the channel without changing its value.
func viaOK(x float64, via string) bool {
	neg0 := x == 0 && math.Signbit(x)
	in := func(lo, hi float64) bool { return isInt(x) && !neg0 && x >= lo && x <= hi }
	switch via {
	case "", "f64":
		return true
	case "dec":
		return true
	case "hex":
		return in(0, 18446744073709549568) // largest double below 2^64
	case "f32":
		return math.IsNaN(x) || float64(float32(x)) == x
	case "i8":
		return in(-128, 127)
	case "i16":
		return in(-32768, 32767)
	case "i32":
		return in(-2147483648, 2147483647)
	case "i64", "int":
		return in(-9223372036854775808, 9223372036854774784) // largest double below 2^63
	case "u8":
		return in(0, 255)
	case "u16":
		return in(0, 65535)
	case "u32":
		return in(0, 4294967295)
	case "u64", "uint":
		return in(0, 18446744073709549568)
	}
	return false
}

// heldAsInt64 reports whether otto keeps the operand as a 64-bit Go integer (un-normalised).
func heldAsInt64(x float64, via string) bool {
	switch via {
	case "i64", "int", "u64", "uint":
		return true
	case "dec", "hex":
		return isInt(x) && !(x == 0 && math.Signbit(x)) && x >= 0 && x < 9223372036854775808 // negative literals are unary minus applied to a literal
	}
	return false
}

func exactDigits(x float64) string {
	bi, _ := new(big.Float).SetFloat64(x).Int(nil)
	return bi.String()
}

// goValue is the Go value handed to Otto.Set for a "set"-class channel.
func (o Operand) goValue() interface{} {
	switch o.K {
	case "undef":
		return otto.UndefinedValue()
	case "null":
		return otto.NullValue()
	case "bool":
		return o.B
	case "str":
		s, ok := harness.FromUTF16(o.S)
		if !ok {
			panic("c05: lone surrogate in operand")
		}
		return s
	case "num":
		if o.Lit != "" { // an integer that is not a double: hand over exactly that integer
			switch o.Via {
			case "i64":
				n, err := strconv.ParseInt(o.Lit, 10, 64)
				must(err)
				return n
			case "int":
				n, err := strconv.ParseInt(o.Lit, 10, 64)
				must(err)
				return int(n)
			case "u64":
				n, err := strconv.ParseUint(o.Lit, 10, 64)
				must(err)
				return n
			case "uint":
				n, err := strconv.ParseUint(o.Lit, 10, 64)
				must(err)
				return uint(n)
			}
			panic("c05: Lit with channel " + o.Via)
		}
		x := parseLit(o.N)
		switch o.Via {
		case "f64":
			return x
		case "f32":
			return float32(x)
		case "i8":
			return int8(x)
		case "i16":
			return int16(x)
		case "i32":
			return int32(x)
		case "i64":
			return int64(x)
		case "int":
			return int(x)
		case "u8":
			return uint8(x)
		case "u16":
			return uint16(x)
		case "u32":
			return uint32(x)
		case "u64":
			return uint64(x)
		case "uint":
			return uint(x)
		}
	}
	panic("c05: operand has no Go value: " + o.K + "/" + o.Via)
}

func (o Operand) viaSet() bool {
	switch o.K {
	case "num":
		return o.Via != "" && o.Via != "dec" && o.Via != "hex"
	case "undef", "null", "bool", "str":
		return o.Via == "set"
	}
	return false
}

// literal renders a primitive operand as ES5 source text denoting exactly that value.
func (o Operand) literal() string {
	switch o.K {
	case "undef":
		if o.Via == "void" {
			return "(void 0)"
		}
		return "undefined"
	case "null":
		return "null"
	case "bool":
		if o.B {
			return "true"
		}
		return "false"
	case "str":
		return harness.JSString16(o.S)
	case "num":
		if o.Lit != "" {
			return "(" + o.Lit + ")"
		}
		x := parseLit(o.N)
		switch {
		case math.IsNaN(x) || math.IsInf(x, 0):
			return "(" + o.N + ")"
		case o.Via == "dec":
			neg := math.Signbit(x)
			a := math.Abs(x)
			var s string
			if isInt(a) && a > 9007199254740992 && a < 9223372036854775808 {
				s = exactDigits(a) // every digit, so that the int64 otto keeps is exactly x
			} else {
				s = es5.NumberToString(a)
			}
			if neg {
				return "(-" + s + ")"
			}
			return "(" + s + ")"
		case o.Via == "hex":
			return "(0x" + fmt.Sprintf("%X", mustBig(x)) + ")"
		}
		return "(" + o.N + ")"
	}
	panic("c05: no literal for operand kind " + o.K)
}

func mustBig(x float64) *big.Int {
	bi, _ := new(big.Float).SetFloat64(x).Int(nil)
	return bi
}

// rendering of one case: statements that prepare operands, Go values to Set, and the expression text.
type rendering struct {
	sets []setOp
	pre  []string
}

type setOp struct {
	name string
	val  interface{}
}

// expr renders operand o in slot (a letter) of case number idx and returns the expression text.
// evlog wraps the operand so that its evaluation is logged as "e<slot>".
func (r *rendering) expr(o Operand, slot string, idx int, evlog bool) string {
	nm := fmt.Sprintf("__%s%d", slot, idx)
	var e string
	switch o.K {
	case "obj":
		r.pre = append(r.pre, fmt.Sprintf("%s=__mk(%q,%q,%s,%q,%s,%v);", nm, slot, o.O.V.Mode, retLit(o.O.V), o.O.T.Mode, retLit(o.O.T), o.O.Date))
		e = nm
	case "wrap":
		ctor := map[string]string{"bool": "Boolean", "num": "Number", "str": "String"}[o.Inner.K]
		r.pre = append(r.pre, fmt.Sprintf("%s=new %s(%s);%s.__id=%q;", nm, ctor, o.Inner.literal(), nm, slot))
		e = nm
	case "arr":
		parts := make([]string, len(o.Elems))
		for i, el := range o.Elems {
			parts[i] = el.literal()
		}
		r.pre = append(r.pre, fmt.Sprintf("%s=[%s];%s.__id=%q;", nm, strings.Join(parts, ","), nm, slot))
		e = nm
	case "alias": // the same object as slot A
		e = fmt.Sprintf("__A%d", idx)
	case "scn":
		e = "__S_" + o.Name
	case "undecl":
		e = "__never_declared_" + slot
	default:
		if o.viaSet() {
			r.sets = append(r.sets, setOp{nm, o.goValue()})
			e = nm
		} else {
			e = o.literal()
		}
	}
	if o.Ref == "getter" {
		r.pre = append(r.pre, fmt.Sprintf("__h%s%d=__holder(%q,%s);", slot, idx, "g"+slot, e))
		e = fmt.Sprintf("__h%s%d.p", slot, idx)
	}
	if evlog {
		e = fmt.Sprintf("(__log.push(%q),%s)", "e"+slot, e)
	}
	return e
}

func retLit(m MethodSpec) string {
	if m.Mode == m05.MPrim && m.Ret != nil {
		return m.Ret.literal()
	}
	return "0"
}

// ---- model side of operands --------------------------------------------------------------------------

type modelEnv struct {
	a      *m05.Obj // object of slot A (for aliases)
	protos *Protos  // scripted Number/String/Boolean.prototype methods of the case (nil: stock)
}

// Protos scripts valueOf/toString of the wrapper prototypes for one case. Modes are those of O
// objects plus "stock" (the built-in method stays) and "deleted" (the property is removed, so
// Object.prototype's method is found instead).
type Protos struct {
	Number  *ObjSpec `json:"number,omitempty"`
	String  *ObjSpec `json:"string,omitempty"`
	Boolean *ObjSpec `json:"boolean,omitempty"`
}

func (p *Protos) of(kind string) *ObjSpec {
	if p == nil {
		return nil
	}
	switch kind {
	case "num":
		return p.Number
	case "str":
		return p.String
	case "bool":
		return p.Boolean
	}
	return nil
}

// install renders the statements that script the prototypes and the statements that restore them.
func (p *Protos) install(idx int) (pre, post []string) {
	if p == nil {
		return nil, nil
	}
	for _, c := range []struct {
		ctor string
		spec *ObjSpec
	}{{"Number", p.Number}, {"String", p.String}, {"Boolean", p.Boolean}} {
		if c.spec == nil {
			continue
		}
		nm := fmt.Sprintf("__p%s%d", c.ctor, idx)
		pre = append(pre, fmt.Sprintf("%s=__pset(%s,%q,%s,%q,%s);", nm, c.ctor, c.spec.V.Mode, retLit(c.spec.V), c.spec.T.Mode, retLit(c.spec.T)))
		post = append(post, fmt.Sprintf("__prest(%s,%s);", c.ctor, nm))
	}
	return pre, post
}

// wrapperMethod is the model of what [[DefaultValue]] finds under name on a wrapper of the class.
func wrapperMethod(spec *MethodSpec, stock m05.Method, objectProto m05.Method) m05.Method {
	switch {
	case spec == nil || spec.Mode == "stock":
		return stock
	case spec.Mode == "deleted":
		return objectProto
	}
	return methodModel(*spec)
}

func primModel(o Operand) m05.Value {
	switch o.K {
	case "undef", "undecl":
		return m05.Undef()
	case "null":
		return m05.NullV()
	case "bool":
		return m05.Bool(o.B)
	case "num":
		x := parseLit(o.N)
		v := m05.Num(x)
		if o.Lit != "" {
			v.Held = o.Lit
		} else if heldAsInt64(x, o.Via) && math.Abs(x) > 9007199254740992 {
			v.Held = exactDigits(x)
		}
		return v
	case "str":
		return m05.Str(o.S)
	}
	panic("c05: not a primitive operand: " + o.K)
}

func methodModel(m MethodSpec) m05.Method {
	mm := m05.Method{Mode: m.Mode}
	if m.Mode == m05.MPrim {
		mm.Ret = primModel(*m.Ret)
	}
	return mm
}

func (env *modelEnv) model(o Operand, slot string) m05.Value {
	switch o.K {
	case "obj":
		ob := &m05.Obj{ID: slot, ValueOf: methodModel(o.O.V), ToString: methodModel(o.O.T), Date: o.O.Date, Proto: scn["objProto"]}
		if slot == "A" {
			env.a = ob
		}
		return m05.ObjV(ob)
	case "wrap":
		inner := primModel(*o.Inner)
		text, _ := (&m05.Ctx{}).ToString(inner)
		ob := &m05.Obj{ID: slot, Proto: scn["objProto"],
			ValueOf:  m05.Method{Mode: m05.MPrim, Ret: inner, Quiet: true},
			ToString: m05.Method{Mode: m05.MPrim, Ret: m05.Str(text), Quiet: true}}
		if spec := env.protos.of(o.Inner.K); spec != nil {
			class := map[string]string{"bool": "Boolean", "num": "Number", "str": "String"}[o.Inner.K]
			// deleted: Object.prototype.valueOf returns the object (15.2.4.4), Object.prototype.toString "[object Class]" (15.2.4.2)
			ob.ValueOf = wrapperMethod(&spec.V, ob.ValueOf, m05.Method{Mode: m05.MInherit})
			ob.ToString = wrapperMethod(&spec.T, ob.ToString, m05.Method{Mode: m05.MPrim, Ret: m05.StrASCII("[object " + class + "]"), Quiet: true})
		}
		if inner.K == m05.String { // 15.5.5: index and length properties
			ob.Proto, ob.Indexed, ob.Props = scn["strProto"], true, indexProps(len(inner.S))
		}
		if slot == "A" {
			env.a = ob
		}
		return m05.ObjV(ob)
	case "arr":
		var text []uint16
		for i, el := range o.Elems {
			if i > 0 {
				text = append(text, ',')
			}
			if el.K != "undef" && el.K != "null" { // 15.4.4.5 join
				t, _ := (&m05.Ctx{}).ToString(primModel(el))
				text = append(text, t...)
			}
		}
		ob := &m05.Obj{ID: slot, Proto: scn["arrProto"], Indexed: true, Props: indexProps(len(o.Elems)),
			ValueOf:  m05.Method{Mode: m05.MInherit},
			ToString: m05.Method{Mode: m05.MPrim, Ret: m05.Str(text), Quiet: true}}
		if slot == "A" {
			env.a = ob
		}
		return m05.ObjV(ob)
	case "alias":
		if env.a == nil {
			panic("c05: alias without an object in slot A")
		}
		return m05.ObjV(env.a)
	case "scn":
		ob := scn[o.Name]
		if ob == nil {
			panic("c05: unknown scenery " + o.Name)
		}
		return m05.ObjV(ob)
	}
	return primModel(o)
}

func indexProps(n int) map[string]bool {
	m := map[string]bool{"length": true}
	for i := 0; i < n; i++ {
		m[strconv.Itoa(i)] = true
	}
	return m
}

// evalLog appends what evaluating the operand expression (and GetValue on it) logs.
func evalLog(ctx *m05.Ctx, o Operand, slot string, evlog bool) {
	if evlog {
		ctx.Log = append(ctx.Log, "e"+slot)
	}
	if o.Ref == "getter" {
		ctx.Log = append(ctx.Log, "g"+slot)
	}
}

// ---- scenery: fixed objects for typeof / in / instanceof ---------------------------------------------

var scn = buildScenery()

func props(names ...string) map[string]bool {
	m := map[string]bool{}
	for _, n := range names {
		m[n] = true
	}
	return m
}

func buildScenery() map[string]*m05.Obj {
	s := map[string]*m05.Obj{}
	mk := func(id string, proto *m05.Obj, callable bool, names ...string) *m05.Obj {
		o := &m05.Obj{ID: id, Scenery: true, Proto: proto, Callable: callable, Props: props(names...)}
		s[id] = o
		return o
	}
	objProto := mk("objProto", nil, false, "toString", "valueOf", "constructor", "hasOwnProperty")
	fnProto := mk("fnProto", objProto, true, "length", "toString", "constructor")
	arrProto := mk("arrProto", objProto, false, "length", "toString", "constructor")
	strProto := mk("strProto", objProto, false, "length", "toString", "valueOf", "constructor")
	reProto := mk("reProto", objProto, false, "toString", "constructor")
	fProto := mk("Fproto", objProto, false, "constructor")
	f := mk("F", fnProto, true, "length", "prototype")
	f.ProtoProp = &m05.Value{K: m05.Object, O: fProto}
	gProto := mk("Gproto", fProto, false)
	g := mk("G", fnProto, true, "length", "prototype")
	g.ProtoProp = &m05.Value{K: m05.Object, O: gProto}
	mk("f1", fProto, false)
	mk("g1", gProto, false)
	h := mk("Hbad", fnProto, true, "length", "prototype")
	h.ProtoProp = &m05.Value{K: m05.Number, N: 5}
	plain := mk("plain", objProto, false, "a", "0", "1e+21", "NaN", "undefined", "null", "true", "", "-1", "Infinity", "1.5", "[object Object]")
	mk("child", plain, false, "own")
	mk("bare", nil, false, "x")
	mk("arr", arrProto, false, "0", "1", "length").Indexed = true
	mk("strobj", strProto, false, "0", "1", "length").Indexed = true
	mk("re", reProto, false)
	bound := mk("bound", fnProto, true, "length")
	bound.Bound = f
	mk("hostfn", fnProto, true)
	mk("mathsin", fnProto, true, "length")
	mk("math", objProto, false)
	return s
}

// sceneryJS creates the scenery on a runtime (hostfn is Set from Go).
const sceneryJS = `
function __S_F(){} function __S_G(){} __S_G.prototype=new __S_F();
var __S_Fproto=__S_F.prototype, __S_Gproto=__S_G.prototype;
var __S_f1=new __S_F(), __S_g1=new __S_G();
function __S_Hbad(){} __S_Hbad.prototype=5;
var __S_plain={a:1,"0":1,"1e+21":1,"NaN":1,"undefined":1,"null":1,"true":1,"":1,"-1":1,"Infinity":1,"1.5":1,"[object Object]":1};
var __S_child=Object.create(__S_plain); __S_child.own=1;
var __S_bare=Object.create(null); __S_bare.x=1;
var __S_bound=__S_F.bind(null);
var __S_arr=[7,8], __S_strobj=new String("ab"), __S_re=/x/, __S_mathsin=Math.sin, __S_math=Math;
var __S_objProto=Object.prototype, __S_fnProto=Function.prototype, __S_arrProto=Array.prototype, __S_strProto=String.prototype, __S_reProto=RegExp.prototype;
(function(){var n=["F","G","Fproto","Gproto","f1","g1","Hbad","plain","child","bare","arr","strobj","re","mathsin","math","hostfn","bound"];
 for(var i=0;i<n.length;i++){ Object.defineProperty(this["__S_"+n[i]],"__id",{value:n[i],enumerable:false}); }}).call(this);
`

// ---- otto side ---------------------------------------------------------------------------------------

const prelude = `var __log=[];
function __mth(tag,mode,ret){
 if(mode==="undef")return undefined;
 if(mode==="noncall")return {};
 return function(){__log.push(tag); if(mode==="throw")throw "boom:"+tag; if(mode==="obj")return {}; return ret;};
}
function __mk(id,vm,vr,tm,tr,date){
 var o=date?new Date(0):{};
 o.__id=id;
 if(vm!=="inherit")o.valueOf=__mth(id+".valueOf",vm,vr);
 if(tm!=="inherit")o.toString=__mth(id+".toString",tm,tr);
 return o;
}
function __holder(tag,v){var h={};Object.defineProperty(h,"p",{get:function(){__log.push(tag);return v;}});return h;}
function __pm(name,mode,ret){
 if(mode==="undef")return undefined;
 if(mode==="noncall")return {};
 return function(){var tag=this.__id+"."+name;__log.push(tag); if(mode==="throw")throw "boom:"+tag; if(mode==="obj")return {}; return ret;};
}
function __pset(C,vm,vr,tm,tr){var P=C.prototype,s=[P.valueOf,P.toString];
 if(vm==="deleted")delete P.valueOf; else if(vm!=="stock")P.valueOf=__pm("valueOf",vm,vr);
 if(tm==="deleted")delete P.toString; else if(tm!=="stock")P.toString=__pm("toString",tm,tr);
 return s;}
function __prest(C,s){Object.defineProperty(C.prototype,"valueOf",{value:s[0],writable:true,enumerable:false,configurable:true});
 Object.defineProperty(C.prototype,"toString",{value:s[1],writable:true,enumerable:false,configurable:true});}
var __TE={__id:"throws-TypeError"}, __XE={__id:"throws-other"};
function __in(a,b){try{return a in b}catch(e){return (e instanceof TypeError)?__TE:__XE}}
function __io(a,b){try{return a instanceof b}catch(e){return (e instanceof TypeError)?__TE:__XE}}
function __row(i,lo,hi){var a=__P[i];for(var j=lo;j<hi;j++){var b=__P[j];
 __rec2(j,a+b,a-b,a*b,a/b,a%b,a<<b,a>>b,a>>>b,a&b,a|b,a^b,a==b,a!=b,a===b,a!==b,a<b,a>b,a<=b,a>=b,__in(a,b),__io(a,b),a&&b,a||b)}}
`

// prodOps is the operator order of __row.
var prodOps = []string{"+", "-", "*", "/", "%", "<<", ">>", ">>>", "&", "|", "^", "==", "!=", "===", "!==", "<", ">", "<=", ">=", "in", "instanceof", "&&", "||"}

// obs is what otto produced for one expression.
type obs struct {
	thrown bool
	name   string    // thrown: error name or the thrown string
	val    m05.Value // not thrown: decoded value (objects carry their id only)
	log    string
	bad    string // harness-level trouble (Go panic, script error outside the case)
}

type machine struct {
	vm   *otto.Otto
	uses int
	recs map[int]obs
	row  [][]m05.Value
	pool string // literal text of the __P array currently installed
}

var mach *machine

func decode(v otto.Value) m05.Value {
	switch {
	case v.IsUndefined():
		return m05.Undef()
	case v.IsNull():
		return m05.NullV()
	case v.IsBoolean():
		b, _ := v.ToBoolean()
		return m05.Bool(b)
	case v.IsNumber():
		f, _ := v.ToFloat()
		return m05.Num(f)
	case v.IsString():
		s, _ := v.ToString()
		return m05.Str(harness.UTF16(s))
	case v.IsObject():
		id := "?" + v.Class()
		if p, err := v.Object().Get("__id"); err == nil && p.IsString() {
			id = p.String()
		}
		return m05.ObjV(&m05.Obj{ID: id})
	}
	return m05.ObjV(&m05.Obj{ID: "?unknown"})
}

func getMachine() *machine {
	if mach != nil && mach.uses < 3000 {
		mach.uses++
		return mach
	}
	m := &machine{vm: otto.New(), recs: map[int]obs{}}
	must(m.vm.Set("__rec", func(call otto.FunctionCall) otto.Value {
		i, _ := call.Argument(0).ToInteger()
		thrown, _ := call.Argument(1).ToInteger()
		o := obs{log: call.Argument(3).String()}
		v := call.Argument(2)
		if thrown != 0 {
			o.thrown = true
			switch {
			case v.IsString():
				o.name = v.String()
			case v.IsObject():
				n, _ := v.Object().Get("name")
				o.name = n.String()
			default:
				o.name = "thrown " + harness.Repr(v)
			}
		} else {
			o.val = decode(v)
		}
		m.recs[int(i)] = o
		return otto.Value{}
	}))
	must(m.vm.Set("__rec2", func(call otto.FunctionCall) otto.Value {
		j, _ := call.Argument(0).ToInteger()
		vals := make([]m05.Value, len(prodOps))
		for k := range prodOps {
			vals[k] = decode(call.Argument(k + 1))
		}
		m.row[int(j)] = vals
		return otto.Value{}
	}))
	must(m.vm.Set("__S_hostfn", func(call otto.FunctionCall) otto.Value { return otto.Value{} }))
	if _, err := m.vm.Run(prelude + sceneryJS); err != nil {
		panic(err)
	}
	mach = m
	m.uses = 1
	return m
}

func must(err error) {
	if err != nil {
		panic(err)
	}
}

// script is one case ready to run: its rendering and expression.
type script struct {
	r    rendering
	expr string
	post []string // run after the case (restores scripted prototypes)
}

func (s script) text(idx int) string {
	return fmt.Sprintf("%s__log=[];try{__rec(%d,0,%s,__log.join())}catch(__e){__rec(%d,1,__e,__log.join())}%s\n", strings.Join(s.r.pre, ""), idx, s.expr, idx, strings.Join(s.post, ""))
}

// runScripts evaluates the cases in one program (one parse), falling back to one program per case
// when the batch as a whole fails, so that a crash is attributed to the case that causes it.
func runScripts(ss []script) []obs {
	out := make([]obs, len(ss))
	m := getMachine()
	var b strings.Builder
	for i, s := range ss {
		for _, st := range s.r.sets {
			must(m.vm.Set(st.name, st.val))
		}
		b.WriteString(s.text(i))
	}
	for k := range m.recs {
		delete(m.recs, k)
	}
	r := harness.Run(m.vm, b.String())
	if r.Panicked || r.Err != nil {
		mach = nil // the runtime may be in a bad state (scripted prototypes not restored)
	}
	if (r.Panicked || r.Err != nil) && len(ss) > 1 {
		for i, s := range ss {
			out[i] = runScripts([]script{s})[0]
		}
		return out
	}
	for i := range ss {
		o, ok := m.recs[i]
		switch {
		case r.Panicked:
			o = obs{bad: "Go panic escaped from Run: " + fmt.Sprint(r.Panic)}
		case r.Err != nil:
			o = obs{bad: "script failed outside the case: " + r.Err.Error()}
		case !ok:
			o = obs{bad: "no result recorded"}
		}
		out[i] = o
	}
	return out
}

// ---- comparison --------------------------------------------------------------------------------------

func showVal(v m05.Value) string {
	switch v.K {
	case m05.Undefined:
		return "undefined"
	case m05.Null:
		return "null"
	case m05.Boolean:
		return fmt.Sprintf("boolean %v", v.B)
	case m05.Number:
		return "number " + harness.NumRepr(v.N)
	case m05.String:
		return "string " + harness.JSString16(v.S)
	}
	if v.O == nil {
		return "object ?"
	}
	return "object " + v.O.ID
}

// hazardFinding maps a model hazard to the known finding that excuses it.
var hazardFinding = map[string]string{
	m05.HazToInt63:     "C05-TOINT32-2P63",
	m05.HazStrOrder:    "C05-STRING-ORDER-UTF8",
	m05.HazLenientNum:  "C05-TONUMBER-GO-SYNTAX",
	m05.HazHexOverflow: "C05-TONUMBER-HEX-2P63",
	m05.HazWideText:    "C05-INT64-UNROUNDED",
	m05.HazIndexName:   "C05-IN-NONCANONICAL-INDEX",
	m05.HazBoundInst:   "C05-BOUND-HASINSTANCE",
	hazPlusOrder:       "C05-PLUS-GETVALUE-ORDER",
}

const hazPlusOrder = "plus-left-toprimitive-before-right-getvalue"

// judge compares an observation with the model's verdict. It fills Fail / Excluded / Discard.
func judge(o *harness.Outcome, what string, want m05.Value, thr *m05.Throw, ctx *m05.Ctx, got obs) {
	for _, h := range ctx.Hazards {
		if h == m05.HazNumText {
			o.Discard = "operand whose decimal text is decided by C06 (just below 1e21 / 1e-6)"
			return
		}
		id := hazardFinding[h]
		if id == "" {
			panic("c05: hazard without finding: " + h)
		}
		if harness.Known(id) {
			o.Excluded = append(o.Excluded, id)
		}
	}
	if len(o.Excluded) > 0 {
		return
	}
	wantLog := strings.Join(ctx.Log, ",")
	switch {
	case got.bad != "":
		o.Fail = fmt.Sprintf("%s: %s", what, got.bad)
	case thr != nil && !got.thrown:
		o.Fail = fmt.Sprintf("%s = %s, ES5 requires an exception (%s); conversion log [%s]", what, showVal(got.val), thr.Name, got.log)
	case thr != nil && got.name != thr.Name:
		o.Fail = fmt.Sprintf("%s threw %q, ES5 requires %q", what, got.name, thr.Name)
	case thr == nil && got.thrown:
		o.Fail = fmt.Sprintf("%s threw %q, ES5 gives %s", what, got.name, showVal(want))
	case thr == nil && !m05.Same(got.val, want):
		o.Fail = fmt.Sprintf("%s = %s, ES5 §9/§11 give %s", what, showVal(got.val), showVal(want))
	case got.log != wantLog:
		o.Fail = fmt.Sprintf("%s: evaluation/conversion order was [%s], ES5 prescribes [%s]", what, got.log, wantLog)
	}
}

// plainOperand: the trivial class of the non-triviality rule (small integer or plain ASCII word).
func plainOperand(o Operand) bool {
	switch o.K {
	case "num":
		x := parseLit(o.N)
		return isInt(x) && math.Abs(x) < 1000 && !(x == 0 && math.Signbit(x)) && o.Via == ""
	case "str":
		if len(o.S) == 0 || len(o.S) > 8 || o.Via != "" {
			return false
		}
		for _, c := range o.S {
			if !(c >= 'a' && c <= 'z' || c >= 'A' && c <= 'Z') {
				return false
			}
		}
		return true
	}
	return false
}

func kindClass(o Operand) string {
	switch o.K {
	case "num":
		x := parseLit(o.N)
		switch {
		case math.IsNaN(x):
			return "NaN"
		case math.IsInf(x, 0):
			return "inf"
		case x == 0 && math.Signbit(x):
			return "-0"
		case x == 0:
			return "+0"
		case math.Abs(x) >= 9223372036854775808:
			return "num>=2^63"
		case math.Abs(x) >= 9007199254740992:
			return "num>=2^53"
		case math.Abs(x) >= 4294967296:
			return "num>=2^32"
		case math.Abs(x) >= 2147483648:
			return "num>=2^31"
		case !isInt(x):
			return "fraction"
		}
		return "int"
	case "str":
		if len(o.S) == 0 {
			return "str-empty"
		}
		f := es5.StringToNumber(o.S)
		if !math.IsNaN(f) {
			return "str-numeric"
		}
		for _, c := range o.S {
			if c >= 0x80 {
				return "str-nonascii"
			}
		}
		return "str-other"
	}
	return o.K
}
