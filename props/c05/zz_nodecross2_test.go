package c05

// DEV-TIME ONLY (removed before hand-over): cross-check of the model against node on generated object cases.
import (
	"bufio"
	"fmt"
	"os"
	"strings"
	"testing"

	"pgregory.net/rapid"

	"verif/lib/harness"
	"verif/lib/m05"
)

func nodeSets(s script) string {
	var b strings.Builder
	for _, st := range s.r.sets {
		var lit string
		switch v := st.val.(type) {
		case string:
			lit = fmt.Sprintf("%q", v)
		case bool:
			lit = fmt.Sprint(v)
		case float64:
			lit = "(" + harness.NumLit(v) + ")"
		case float32:
			lit = "(" + harness.NumLit(float64(v)) + ")"
		default:
			lit = fmt.Sprint(v)
			if strings.Contains(lit, "otto") || lit == "undefined" || lit == "null" {
				lit = fmt.Sprint(v)
			}
		}
		fmt.Fprintf(&b, "var %s=%s;", st.name, lit)
	}
	return b.String()
}

func TestZZNodeCross2(t *testing.T) {
	if os.Getenv("C05_NODECROSS") == "" {
		t.Skip()
	}
	js, _ := os.Create("/tmp/c05node2.js")
	w := bufio.NewWriter(js)
	w.WriteString(strings.Replace(prelude, "function __row", "function __rowunused", 1))
	w.WriteString(strings.Replace(strings.Replace(sceneryJS, `"hostfn"`, `"F"`, 1), `this["__S_"+n[i]]`, `eval("__S_"+n[i])`, 1))
	w.WriteString(`
var f64=new Float64Array(1), u64=new BigUint64Array(f64.buffer);
function enc(v){ if(v===undefined)return "u"; if(v===null)return "l"; if(typeof v==="boolean")return "b:"+v;
 if(typeof v==="number"){ if(v!==v)return "n:NaN"; f64[0]=v; return "n:"+u64[0].toString(16);}
 if(typeof v==="string"){var s="s:";for(var i=0;i<v.length;i++)s+=v.charCodeAt(i).toString(16)+".";return s;} return "o:"+v.__id;}
function __rec(i,thrown,v,log){ if(thrown){ console.log(i+" T:"+(typeof v==="string"?v:v.name)+" ["+log+"]"); } else console.log(i+" "+enc(v)+" ["+log+"]"); }
`)
	mf, _ := os.Create("/tmp/c05model2.txt")
	mw := bufio.NewWriter(mf)
	idx := 0
	emit := func(s script, want m05.Value, thr *m05.Throw, ctx *m05.Ctx) {
		for _, h := range ctx.Hazards {
			if h == hazLoneSurrogate || h == m05.HazNumText {
				return
			}
		}
		w.WriteString(nodeSets(s))
		w.WriteString(s.text(idx))
		if thr != nil {
			fmt.Fprintf(mw, "%d T:%s [%s]\n", idx, thr.Name, strings.Join(ctx.Log, ","))
		} else {
			e := encVal(want, nil)
			if want.K == m05.Object {
				e = "o:" + want.O.ID
			}
			fmt.Fprintf(mw, "%d %s [%s]\n", idx, e, strings.Join(ctx.Log, ","))
		}
		idx++
	}
	og := rapid.Custom(objFacet.Gen)
	cg := rapid.Custom(convFacet.Gen)
	tg := rapid.Custom(treeFacet.Gen)
	bg := rapid.Custom(binGen.Gen)
	for i := 0; i < 30000; i++ {
		c := og.Example(i)
		want, thr, ctx := modelExpr(c)
		emit(c.script(idx), want, thr, ctx)
		b := bg.Example(i)
		want, thr, ctx = modelExpr(b)
		emit(b.script(idx), want, thr, ctx)
		cc := cg.Example(i)
		if cc.A.K == "scn" && cc.A.Name == "hostfn" {
			continue
		}
		want, thr, ctx = modelConv(cc)
		var s script
		s.expr = cc.expr(s.r.expr(cc.A, "A", idx, false))
		emit(s, want, thr, ctx)
		tc := tg.Example(i)
		tw := &treeWalk{ctx: &m05.Ctx{}, vals: map[*node]m05.Value{}}
		var s2 script
		s2.expr = tw.render(tc.Root)
		s2.r = tw.r
		k := 0
		wv := tw.eval(tc.Root, &k)
		emit(s2, wv, nil, tw.ctx)
	}
	w.Flush()
	js.Close()
	mw.Flush()
	mf.Close()
}
