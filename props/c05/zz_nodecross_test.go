package c05

// DEV-TIME ONLY (removed before hand-over): cross-check of the model against node on the primitive product.
import (
	"bufio"
	"fmt"
	"math"
	"os"
	"testing"

	"verif/lib/m05"
)

func encVal(v m05.Value, thr *m05.Throw) string {
	if thr != nil {
		return "T"
	}
	switch v.K {
	case m05.Undefined:
		return "u"
	case m05.Null:
		return "l"
	case m05.Boolean:
		return fmt.Sprintf("b:%v", v.B)
	case m05.Number:
		if math.IsNaN(v.N) {
			return "n:NaN"
		}
		return fmt.Sprintf("n:%x", math.Float64bits(v.N))
	case m05.String:
		s := "s:"
		for _, c := range v.S {
			s += fmt.Sprintf("%x.", c)
		}
		return s
	}
	return "o"
}

func TestZZNodeCross(t *testing.T) {
	if os.Getenv("C05_NODECROSS") == "" {
		t.Skip()
	}
	pool := productPool(true)
	js, _ := os.Create("/tmp/c05node.js")
	w := bufio.NewWriter(js)
	fmt.Fprintf(w, "var __P;%s\n", poolLiteral(pool))
	w.WriteString(`
var f64=new Float64Array(1), u64=new BigUint64Array(f64.buffer);
function enc(v){ if(v===T)return "T"; if(v===undefined)return "u"; if(v===null)return "l"; if(typeof v==="boolean")return "b:"+v;
 if(typeof v==="number"){ if(v!==v)return "n:NaN"; f64[0]=v; return "n:"+u64[0].toString(16);} 
 if(typeof v==="string"){var s="s:";for(var i=0;i<v.length;i++)s+=v.charCodeAt(i).toString(16)+".";return s;} return "o";}
var T={};
function __in(a,b){try{return a in b}catch(e){return T}}
function __io(a,b){try{return a instanceof b}catch(e){return T}}
var out=[];
for(var i=0;i<__P.length;i++){var a=__P[i];for(var j=0;j<__P.length;j++){var b=__P[j];
 var r=[a+b,a-b,a*b,a/b,a%b,a<<b,a>>b,a>>>b,a&b,a|b,a^b,a==b,a!=b,a===b,a!==b,a<b,a>b,a<=b,a>=b,__in(a,b),__io(a,b),a&&b,a||b];
 out.push(i+" "+j+" "+r.map(enc).join(" "));}
 if(out.length>20000){console.log(out.join("\n"));out=[];}}
console.log(out.join("\n"));
`)
	w.Flush()
	js.Close()
	mf, _ := os.Create("/tmp/c05model.txt")
	mw := bufio.NewWriter(mf)
	for i, a := range pool {
		for j, b := range pool {
			fmt.Fprintf(mw, "%d %d", i, j)
			for _, op := range prodOps {
				v, thr, _ := modelExpr(exprCase{Op: op, A: a, B: b})
				fmt.Fprintf(mw, " %s", encVal(v, thr))
			}
			fmt.Fprintln(mw)
		}
	}
	mw.Flush()
	mf.Close()
	pf, _ := os.Create("/tmp/c05pool.txt")
	for i, p := range pool {
		fmt.Fprintf(pf, "%d %s\n", i, p.literal())
	}
	pf.Close()
}
