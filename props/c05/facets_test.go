package c05

import (
	"fmt"
	"math"
	"strconv"
	"strings"
	"testing"

	"github.com/robertkrimen/otto"
	"pgregory.net/rapid"

	"verif/lib/es5"
	"verif/lib/harness"
	"verif/lib/m05"
)

// ---- the model of one operator expression -----------------------------------------------------------

// exprCase is `A op B` (or `A ? B : C`), operands optionally wrapped so that their evaluation is logged.
type exprCase struct {
	Op string   `json:"op"`
	A  Operand  `json:"a"`
	B  Operand  `json:"b"`
	C  *Operand `json:"c,omitempty"`
	Ev bool     `json:"ev,omitempty"`

	// optional second operator applied to the result: ((A op B) op2 D) — feeds the Go number kinds otto's
	// operators produce (int32, uint32, float64, bool) into the next conversion
	Op2 string   `json:"op2,omitempty"`
	D   *Operand `json:"d,omitempty"`

	// optional: Number/String/Boolean.prototype.valueOf/toString scripted for the duration of the case
	P *Protos `json:"protos,omitempty"`

	pre *obs // observation computed in a batch (not part of the case)
}

// modelExpr evaluates the case on the model: GetValue of the operands in source order (with what that
// logs), short-circuit for && || ?:, then the operator's conversions.
func modelExpr(c exprCase) (m05.Value, *m05.Throw, *m05.Ctx) {
	ctx := &m05.Ctx{}
	env := &modelEnv{protos: c.P}
	v, t := modelFirst(c, ctx, env)
	if t != nil || c.Op2 == "" {
		return v, t, ctx
	}
	d := env.model(*c.D, "D")
	evalLog(ctx, *c.D, "D", c.Ev)
	v, t = ctx.Binary(c.Op2, v, d)
	return v, t, ctx
}

func modelFirst(c exprCase, ctx *m05.Ctx, env *modelEnv) (m05.Value, *m05.Throw) {
	a := env.model(c.A, "A")
	evalLog(ctx, c.A, "A", c.Ev)
	switch c.Op {
	case "&&", "||": // 11.11: the right operand is evaluated only when the left does not decide
		if m05.ToBoolean(a) == (c.Op == "||") {
			return a, nil
		}
		b := env.model(c.B, "B")
		evalLog(ctx, c.B, "B", c.Ev)
		return b, nil
	case "?:": // 11.12
		if m05.ToBoolean(a) {
			b := env.model(c.B, "B")
			evalLog(ctx, c.B, "B", c.Ev)
			return b, nil
		}
		cc := env.model(*c.C, "C")
		evalLog(ctx, *c.C, "C", c.Ev)
		return cc, nil
	}
	b := env.model(c.B, "B")
	evalLog(ctx, c.B, "B", c.Ev)
	if c.Op == "+" && c.B.Ref == "getter" && (c.A.K == "obj") {
		ctx.Hazards = append(ctx.Hazards, hazPlusOrder)
	}
	return ctx.Binary(c.Op, a, b)
}

func (c exprCase) script(idx int) script {
	var s script
	s.r.pre, s.post = c.P.install(idx)
	ea := s.r.expr(c.A, "A", idx, c.Ev)
	eb := s.r.expr(c.B, "B", idx, c.Ev)
	if c.Op == "?:" {
		ec := s.r.expr(*c.C, "C", idx, c.Ev)
		s.expr = fmt.Sprintf("(%s ? %s : %s)", ea, eb, ec)
	} else {
		s.expr = fmt.Sprintf("(%s %s %s)", ea, c.Op, eb)
	}
	if c.Op2 != "" {
		s.expr = fmt.Sprintf("(%s %s %s)", s.expr, c.Op2, s.r.expr(*c.D, "D", idx, c.Ev))
	}
	return s
}

func describeOperand(o Operand) string {
	switch o.K {
	case "obj":
		d := ""
		if o.O.Date {
			d = "Date "
		}
		f := func(m MethodSpec) string {
			if m.Mode == m05.MPrim {
				return "→" + m.Ret.literal()
			}
			return m.Mode
		}
		s := fmt.Sprintf("{%svalueOf:%s toString:%s}", d, f(o.O.V), f(o.O.T))
		if o.Ref != "" {
			s += "[via getter]"
		}
		return s
	case "wrap":
		return "new " + map[string]string{"bool": "Boolean", "num": "Number", "str": "String"}[o.Inner.K] + "(" + o.Inner.literal() + ")"
	case "arr":
		parts := make([]string, len(o.Elems))
		for i, el := range o.Elems {
			parts[i] = el.literal()
		}
		return "[" + strings.Join(parts, ",") + "]"
	case "alias":
		return "<same object as A>"
	case "scn":
		return "<" + o.Name + ">"
	case "undecl":
		return "<undeclared identifier>"
	}
	s := o.literal()
	if o.Via != "" {
		s += "[" + o.Via + "]"
	}
	if o.Ref != "" {
		s += "[via getter]"
	}
	return s
}

func (c exprCase) String() string {
	if c.P != nil {
		d := c
		d.P = nil
		var parts []string
		for _, x := range []struct {
			n string
			s *ObjSpec
		}{{"Number", c.P.Number}, {"String", c.P.String}, {"Boolean", c.P.Boolean}} {
			if x.s != nil {
				parts = append(parts, describeOperand(Operand{K: "obj", O: x.s})[1:])
				parts[len(parts)-1] = x.n + ".prototype{" + parts[len(parts)-1]
			}
		}
		return "with " + strings.Join(parts, " ") + ": " + d.String()
	}
	if c.Op == "?:" {
		return fmt.Sprintf("%s ? %s : %s", describeOperand(c.A), describeOperand(c.B), describeOperand(*c.C))
	}
	if c.Op2 != "" {
		return fmt.Sprintf("(%s %s %s) %s %s", describeOperand(c.A), c.Op, describeOperand(c.B), c.Op2, describeOperand(*c.D))
	}
	return fmt.Sprintf("%s %s %s", describeOperand(c.A), c.Op, describeOperand(c.B))
}

func checkExpr(c exprCase) harness.Outcome {
	o := harness.Outcome{Classes: []string{"op:" + c.Op, "a:" + kindClass(c.A), "b:" + kindClass(c.B)}}
	o.Nontrivial = !plainOperand(c.A) || !plainOperand(c.B)
	if c.A.Via != "" {
		o.Classes = append(o.Classes, "via:"+c.A.Via)
	}
	if c.B.Via != "" {
		o.Classes = append(o.Classes, "via:"+c.B.Via)
	}
	if c.Op2 != "" {
		o.Classes = append(o.Classes, "chained", "op2:"+c.Op2)
	}
	want, thr, ctx := modelExpr(c)
	switch {
	case thr != nil && thr.Name == "TypeError":
		o.Classes = append(o.Classes, "result:TypeError")
	case thr != nil:
		o.Classes = append(o.Classes, "result:method-throws")
	default:
		o.Classes = append(o.Classes, "result:"+resultClass(want))
	}
	if len(ctx.Log) > 0 {
		o.Classes = append(o.Classes, fmt.Sprintf("log-entries:%d", min(len(ctx.Log), 6)))
	}
	var got obs
	if c.pre != nil {
		got = *c.pre
	} else {
		got = runScripts([]script{c.script(0)})[0]
	}
	judge(&o, c.String(), want, thr, ctx, got)
	return o
}

func resultClass(v m05.Value) string {
	switch v.K {
	case m05.Number:
		switch {
		case math.IsNaN(v.N):
			return "NaN"
		case v.N == 0 && math.Signbit(v.N):
			return "-0"
		case math.IsInf(v.N, 0):
			return "inf"
		}
		return "number"
	case m05.Boolean:
		return fmt.Sprint(v.B)
	}
	return v.K.String()
}

// ---- facet: exhaustive product of the primitive pool -------------------------------------------------

var prodFacet = harness.Register(&harness.Facet[exprCase]{
	Name: "primitive-product",
	Rule: "complete product: every ordered pair of the primitive pool (undefined, null, booleans; doubles: NaN, ±0, ±Inf, 2^k and neighbours/±1/±0.5 for k up to 1023, halves, thresholds, extremes; every StringNumericLiteral alternative with white space, near misses, Go-only spellings; strings over ASCII/Latin-1/BMP/astral) × 23 binary operators (+ - * / % << >> >>> & | ^ == != === !== < > <= >= in instanceof && ||); quick tier = core pool, thorough = full pool sharded by row over the processes; operands reach otto as elements of one array built from literals, all 23 results of a pair are read back as raw values through a host function; non-trivial = an operand is not a small integer or plain ASCII word; distinct by (operator, a, b)",
	Check: func(c exprCase) harness.Outcome {
		if c.pre == nil { // replay: evaluate this pair alone, on the same route
			got := evalPair(c)
			c.pre = &got
		}
		return checkExpr(c)
	},
})

func poolLiteral(pool []Operand) string {
	parts := make([]string, len(pool))
	for i, p := range pool {
		parts[i] = p.literal()
	}
	return "__P=[" + strings.Join(parts, ",") + "];"
}

// runRow evaluates row i of the pool product on otto: out[j][k] is the observation for prodOps[k].
func runRow(pool []Operand, lit string, i, lo, hi int) ([][]obs, string) {
	m := getMachine()
	if m.pool != lit {
		if r := harness.Run(m.vm, lit); r.Panicked || r.Err != nil {
			return nil, "cannot install pool: " + r.Describe()
		}
		m.pool = lit
	}
	m.row = make([][]m05.Value, len(pool))
	r := harness.Run(m.vm, fmt.Sprintf("__row(%d,%d,%d)", i, lo, hi))
	if r.Panicked || r.Err != nil {
		if r.Panicked {
			mach = nil
		}
		return nil, r.Describe()
	}
	out := make([][]obs, len(pool))
	for j := lo; j < hi; j++ {
		if m.row[j] == nil {
			return nil, "row result missing"
		}
		out[j] = make([]obs, len(prodOps))
		for k, v := range m.row[j] {
			if v.K == m05.Object && v.O.ID == "throws-TypeError" {
				out[j][k] = obs{thrown: true, name: "TypeError"}
			} else if v.K == m05.Object && v.O.ID == "throws-other" {
				out[j][k] = obs{thrown: true, name: "not a TypeError"}
			} else {
				out[j][k] = obs{val: v}
			}
		}
	}
	return out, ""
}

func evalPair(c exprCase) obs {
	pool := []Operand{c.A, c.B}
	row, bad := runRow(pool, poolLiteral(pool), 0, 1, 2)
	if bad != "" {
		return obs{bad: bad}
	}
	for k, op := range prodOps {
		if op == c.Op {
			return row[1][k]
		}
	}
	return obs{bad: "operator not in the product: " + c.Op}
}

func TestPrimitiveProduct(t *testing.T) {
	pool := productPool(harness.Thorough())
	lit := poolLiteral(pool)
	harness.SetExhaustive(prodFacet.Name)
	harness.SetExtra("primitive_pool_size", len(pool))
	for i := range pool {
		if i%harness.NShards() != harness.Shard() {
			continue
		}
		row, bad := runRow(pool, lit, i, 0, len(pool))
		cases := make([]exprCase, 0, len(pool)*len(prodOps))
		for j := range pool {
			for k, op := range prodOps {
				c := exprCase{Op: op, A: pool[i], B: pool[j]}
				if bad != "" {
					c.pre = &obs{bad: bad}
				} else {
					c.pre = &row[j][k]
				}
				cases = append(cases, c)
			}
		}
		prodFacet.Each(t, cases)
		if t.Failed() {
			return
		}
	}
}

// ---- facet: pairs of integers beyond 2^53 that otto holds as Go integers -------------------------------

// wideInts: integers in (2^53, 2^63) (and two negative ones, Set channels only) chosen so that
// neighbours round to the same double, to adjacent doubles (ties included) or are doubles themselves.
var wideInts = []string{
	"9007199254740992", "9007199254740993", "9007199254740994", "9007199254740995", "9007199254740996", "9007199254740997",
	"18014398509481984", "18014398509481985", "18014398509481986", "18014398509481987", "18014398509481988", "18014398509481990",
	"1152921504606846976", "1152921504606846977", "1152921504606847103", "1152921504606847104", "1152921504606847105", "1152921504606847232",
	"9223372036854774784", "9223372036854775295", "9223372036854775296", "9223372036854775807", "9223372036854775806",
	"123456789012345678", "123456789012345680", "-9007199254740993", "-9007199254740992", "-9223372036854775807", "-9223372036854775808",
}

func wideOperand(lit, via string) Operand {
	x, err := strconv.ParseFloat(lit, 64) // correctly rounded: the double the integer denotes (7.8.3 / nearest for Go integers)
	must(err)
	o := numOp(x, via)
	o.Lit = lit
	return o
}

var wideFacet = harness.Register(&harness.Facet[exprCase]{
	Name: "wide-integer-pairs",
	Rule: "complete table: every ordered pair of 29 integers in ±(2^53, 2^63] — neighbours that round to the same double, to adjacent doubles (ties to even), or that are doubles — each handed to otto as an integer literal (the lexer keeps an int64) or through Otto.Set as int64 (negatives: Set only) × the 8 comparison/equality operators and - % & | ^ >>> (no string conversion involved); oracle: the ES5 model applied to the doubles the integers denote (7.8.3, 8.5), so `9007199254740993 === 9007199254740992` is true and `>` false; every case non-trivial; distinct by (operator, a, b, channels)",
	Check: func(c exprCase) harness.Outcome {
		o := checkExpr(c)
		o.Nontrivial = true
		if parseLit(c.A.N) == parseLit(c.B.N) && c.A.Lit != c.B.Lit {
			o.Classes = append(o.Classes, "same-double-different-integers")
		}
		return o
	},
})

func TestWideIntegerPairs(t *testing.T) {
	var ops []Operand
	for _, l := range wideInts {
		if l[0] != '-' {
			ops = append(ops, wideOperand(l, "dec"))
		}
		ops = append(ops, wideOperand(l, "i64"))
	}
	var cases []exprCase
	for _, a := range ops {
		for _, b := range ops {
			for _, op := range []string{"==", "!=", "===", "!==", "<", ">", "<=", ">=", "-", "%", "&", "|", "^", ">>>"} {
				cases = append(cases, exprCase{Op: op, A: a, B: b})
			}
		}
	}
	harness.SetExhaustive(wideFacet.Name)
	for lo := 0; lo < len(cases); lo += 200 {
		hi := min(lo+200, len(cases))
		ss := make([]script, 0, hi-lo)
		for i := lo; i < hi; i++ {
			ss = append(ss, cases[i].script(i-lo))
		}
		got := runScripts(ss)
		for i := lo; i < hi; i++ {
			cases[i].pre = &got[i-lo]
		}
	}
	wideFacet.Each(t, cases)
}

// ---- facet: generated pairs of primitives through every injection channel ---------------------------

var chainOps = []string{"+", "-", "*", "/", "%", "<<", ">>", ">>>", "&", "|", "^", "==", "!=", "===", "!==", "<", ">", "<=", ">="}

var allBinary = append(append([]string{}, m05.BinaryOps...), "&&", "||")

var binGen = harness.Register(&harness.Facet[exprCase]{
	Name:     "binary-generated",
	Rule:     "rapid: operator uniform over the 23 binary operators (a quarter of the cases apply a second operator to the result, `(a op b) op2 d`, so that the Go number kinds otto's operators produce feed the next conversion); one case in twelve takes both operands from ten consecutive integers around a double in (2^53, 2^63), as integer literals or Set(int64/int/uint64/uint), compared as the doubles they denote; each operand a primitive: double (boundary pool, random bit patterns, integer corners around 2^7…2^64), numeric/near-miss/other string (pools or random over four alphabets), boolean, null, undefined; injected as literal (exponent form, plain decimal text, hex), or through Otto.Set as float64/float32/string/bool and every Go integer width that holds the value exactly; one script per case; non-trivial = an operand is not a small integer literal or plain ASCII word; distinct by (operator, a, b, channels)",
	Quick:    40000,
	Thorough: 250000,
	Gen: func(t *rapid.T) exprCase {
		c := exprCase{Op: rapid.SampledFrom(allBinary).Draw(t, "op"), A: genPrimitive(t), B: genPrimitive(t)}
		if rapid.IntRange(0, 11).Draw(t, "widepair") == 11 { // two Go-integer-held numbers beyond 2^53, same or adjacent doubles
			base := genWideBase(t)
			c.A, c.B = genWideInt(t, base), genWideInt(t, base)
		}
		if c.Op != "in" && c.Op != "instanceof" && rapid.IntRange(0, 3).Draw(t, "chain") == 3 {
			c.Op2 = rapid.SampledFrom(chainOps).Draw(t, "op2")
			d := genPrimitive(t)
			c.D = &d
		}
		return c
	},
	Check: checkExpr,
})

func TestBinaryGenerated(t *testing.T) { binGen.Run(t) }

// ---- facet: operators on O objects, with evaluation and conversion order ---------------------------

var sceneryRHS = []string{"F", "G", "Hbad", "plain", "child", "bare", "arr", "strobj", "f1", "re", "bound"}

func genObjOrPrim(t *rapid.T, label string) Operand {
	if rapid.IntRange(0, 5).Draw(t, label+"-builtin") == 5 {
		return genBuiltinObject(t)
	}
	if rapid.IntRange(0, 2).Draw(t, label) == 2 {
		p := genPrimitive(t)
		if rapid.IntRange(0, 5).Draw(t, "primgetter") == 5 {
			p.Ref = "getter"
		}
		return p
	}
	return genObject(t)
}

// genProtos scripts the prototype methods of one or two wrapper classes and makes sure a wrapper of a
// scripted class is an operand (conversions of primitives must not notice the scripted prototypes).
func genProtos(t *rapid.T, c *exprCase) {
	modes := []string{m05.MPrim, m05.MPrim, m05.MObj, m05.MThrow, m05.MUndef, m05.MNonCall, "deleted", "stock"}
	spec := func() *ObjSpec {
		sp := &ObjSpec{}
		sp.V.Mode = rapid.SampledFrom(modes).Draw(t, "protoValueOf")
		if sp.V.Mode == m05.MPrim {
			sp.V.Ret = genRet(t)
		}
		sp.T.Mode = rapid.SampledFrom(modes).Draw(t, "protoToString")
		if sp.T.Mode == m05.MPrim {
			sp.T.Ret = genRet(t)
		}
		return sp
	}
	wrapOf := func(kind string) Operand {
		var in Operand
		switch kind {
		case "num":
			in = numOp(rapid.SampledFrom([]float64{5, 0, -1, 2.5, 4294967296}).Draw(t, "wrapnum"), "")
		case "str":
			in = strOpA(rapid.SampledFrom([]string{"3", "", "a", "10", " 7 "}).Draw(t, "wrapstr"))
		default:
			in = Operand{K: "bool", B: rapid.Bool().Draw(t, "wrapbool")}
		}
		return Operand{K: "wrap", Inner: &in}
	}
	c.P = &Protos{}
	kinds := []string{"num", "str", "bool"}
	k1 := rapid.SampledFrom(kinds).Draw(t, "protoclass")
	set := func(k string) {
		switch k {
		case "num":
			c.P.Number = spec()
		case "str":
			c.P.String = spec()
		default:
			c.P.Boolean = spec()
		}
	}
	set(k1)
	k2 := k1
	if rapid.Bool().Draw(t, "secondclass") {
		k2 = rapid.SampledFrom(kinds).Draw(t, "protoclass2")
		if k2 != k1 {
			set(k2)
		}
	}
	switch rapid.IntRange(0, 2).Draw(t, "wrapside") {
	case 0:
		c.A = wrapOf(k1)
		if c.B.K == "alias" {
			c.B = wrapOf(k2)
		}
	case 1:
		if c.B.K == "scn" || c.B.K == "alias" {
			c.A = wrapOf(k1)
		} else {
			c.B = wrapOf(k1)
		}
	default:
		c.A, c.B = wrapOf(k1), wrapOf(k2)
	}
}

var objFacet = harness.Register(&harness.Facet[exprCase]{
	Name:     "operators-on-objects",
	Rule:     "rapid: operator over the 23 binary operators and ?:; at least one operand is an O object (plain or Date) whose valueOf/toString each return a primitive, return an object, throw, are undefined, are non-callable or are inherited, and log their call; the other operand is an O object, the same object, a primitive (any channel) or, for in/instanceof, a function/object of the scenery; half of the cases log operand evaluation, a quarter read an operand through a logging accessor; one case in six scripts Number/String/Boolean.prototype.valueOf/toString (primitive, object, throw, undefined, non-callable, deleted, stock) for the duration of the case and uses wrapper objects of those classes as operands, so that [[DefaultValue]] must find and call the inherited method; oracle: result by type and bits plus the complete log (operand evaluation, GetValue, valueOf/toString in 8.12.8 order, nothing after a throw, untaken operands never evaluated); every case non-trivial; distinct by the whole case",
	Quick:    40000,
	Thorough: 250000,
	Gen: func(t *rapid.T) exprCase {
		ops := append(append([]string{}, allBinary...), "?:", "+", "==", "<", ">", "<=", ">=")
		c := exprCase{Op: rapid.SampledFrom(ops).Draw(t, "op"), Ev: rapid.Bool().Draw(t, "ev")}
		switch rapid.IntRange(0, 2).Draw(t, "shape") {
		case 0:
			c.A, c.B = genObject(t), genObjOrPrim(t, "bkind")
		case 1:
			c.A, c.B = genObjOrPrim(t, "akind"), genObject(t)
		default:
			c.A, c.B = genObject(t), genObject(t)
		}
		if c.A.K == "obj" && rapid.IntRange(0, 9).Draw(t, "alias") == 9 {
			c.B = Operand{K: "alias"}
		}
		if (c.Op == "in" || c.Op == "instanceof") && rapid.IntRange(0, 3).Draw(t, "scnrhs") != 3 {
			if c.A.K != "obj" {
				c.A = genObject(t)
			}
			c.B = Operand{K: "scn", Name: rapid.SampledFrom(sceneryRHS).Draw(t, "scn")}
		}
		if c.Op == "?:" {
			cc := genObjOrPrim(t, "ckind")
			c.C = &cc
		}
		if rapid.IntRange(0, 5).Draw(t, "protos") == 5 {
			genProtos(t, &c)
		}
		return c
	},
	Check: func(c exprCase) harness.Outcome {
		o := checkExpr(c)
		o.Nontrivial = true
		if c.P != nil {
			for _, sp := range []*ObjSpec{c.P.Number, c.P.String, c.P.Boolean} {
				if sp != nil {
					o.Classes = append(o.Classes, "scripted-prototype", "proto-valueOf:"+sp.V.Mode, "proto-toString:"+sp.T.Mode)
				}
			}
		}
		for _, x := range []Operand{c.A, c.B} {
			if x.K == "obj" {
				o.Classes = append(o.Classes, "valueOf:"+x.O.V.Mode, "toString:"+x.O.T.Mode)
				if x.O.Date {
					o.Classes = append(o.Classes, "date-object")
				}
			}
			if x.Ref == "getter" {
				o.Classes = append(o.Classes, "via-getter")
			}
		}
		return o
	},
})

func TestOperatorsOnObjects(t *testing.T) { objFacet.Run(t) }

// ---- facet: unary operators and the conversion entry points -----------------------------------------

type convCase struct {
	Form string  `json:"form"`
	A    Operand `json:"a"`
}

var convForms = []string{"+x", "-x", "~x", "!x", "typeof x", "Number(x)", "String(x)", "Boolean(x)", "!!x", "x+''", "''+x", "x|0", "x>>>0", "x>>0", "x<<0", "x*1", "x-0", "x/1", "x%Infinity",
	"fromCharCode", "charAt", "slice", "-(-x)", "~~x"}

func (c convCase) expr(e string) string {
	switch c.Form {
	case "Number(x)", "String(x)", "Boolean(x)":
		return c.Form[:len(c.Form)-3] + "(" + e + ")"
	case "fromCharCode":
		return "String.fromCharCode(" + e + ")"
	case "charAt":
		return "\"abcdefgh\".charAt(" + e + ")"
	case "slice":
		return "\"abcdefgh\".slice(" + e + ")"
	case "typeof x":
		return "(typeof " + e + ")"
	case "-(-x)":
		return "(-(-" + e + "))"
	case "''+x":
		return "(''+" + e + ")"
	}
	// prefix or suffix form around x
	if i := strings.IndexByte(c.Form, 'x'); i >= 0 {
		return "(" + c.Form[:i] + e + c.Form[i+1:] + ")"
	}
	panic("c05: form " + c.Form)
}

func modelConv(c convCase) (m05.Value, *m05.Throw, *m05.Ctx) {
	ctx := &m05.Ctx{}
	env := &modelEnv{}
	a := env.model(c.A, "A")
	evalLog(ctx, c.A, "A", false)
	num := func(f func(float64) m05.Value) (m05.Value, *m05.Throw, *m05.Ctx) {
		n, t := ctx.ToNumber(a)
		if t != nil {
			return m05.Value{}, t, ctx
		}
		return f(n), nil, ctx
	}
	bin := func(op string, l, r m05.Value) (m05.Value, *m05.Throw, *m05.Ctx) {
		v, t := ctx.Binary(op, l, r)
		return v, t, ctx
	}
	un := func(op string) (m05.Value, *m05.Throw, *m05.Ctx) {
		v, t := ctx.Unary(op, a)
		return v, t, ctx
	}
	switch c.Form {
	case "+x", "-x", "~x", "!x":
		return un(c.Form[:1])
	case "typeof x":
		return un("typeof")
	case "Number(x)": // 15.7.1.1
		return num(m05.Num)
	case "String(x)": // 15.5.1.1
		s, t := ctx.ToString(a)
		return m05.Str(s), t, ctx
	case "Boolean(x)", "!!x":
		return m05.Bool(m05.ToBoolean(a)), nil, ctx
	case "x+''":
		return bin("+", a, m05.StrASCII(""))
	case "''+x":
		return bin("+", m05.StrASCII(""), a)
	case "x|0":
		return bin("|", a, m05.Num(0))
	case "x>>>0":
		return bin(">>>", a, m05.Num(0))
	case "x>>0":
		return bin(">>", a, m05.Num(0))
	case "x<<0":
		return bin("<<", a, m05.Num(0))
	case "x*1":
		return bin("*", a, m05.Num(1))
	case "x-0":
		return bin("-", a, m05.Num(0))
	case "x/1":
		return bin("/", a, m05.Num(1))
	case "x%Infinity":
		return bin("%", a, m05.Num(math.Inf(1)))
	case "-(-x)":
		return num(func(n float64) m05.Value { return m05.Num(-(-n)) })
	case "~~x":
		n, t := ctx.ToInt32(a)
		return m05.Num(float64(n)), t, ctx
	case "fromCharCode": // 15.5.3.2: a string of one code unit, ToUint16 of the argument (read back from Go as UTF-16)
		n, t := ctx.ToUint16(a)
		if t == nil && n >= 0xD800 && n < 0xE000 {
			ctx.Hazards = append(ctx.Hazards, hazLoneSurrogate)
		}
		return m05.Str([]uint16{n}), t, ctx
	case "charAt": // 15.5.4.4: ToInteger(pos)
		p, t := ctx.ToInteger(a)
		if t != nil {
			return m05.Value{}, t, ctx
		}
		if p < 0 || p >= 8 {
			return m05.StrASCII(""), nil, ctx
		}
		return m05.StrASCII("abcdefgh"[int(p) : int(p)+1]), nil, ctx
	case "slice": // 15.5.4.13: ToInteger(start), negative counts from the end
		p, t := ctx.ToInteger(a)
		if t != nil {
			return m05.Value{}, t, ctx
		}
		from := math.Min(p, 8)
		if p < 0 {
			from = math.Max(8+p, 0)
		}
		return m05.StrASCII("abcdefgh"[int(from):]), nil, ctx
	}
	panic("c05: form " + c.Form)
}

const hazLoneSurrogate = "lone-surrogate-result"

func init() { hazardFinding[hazLoneSurrogate] = "C05-LONE-SURROGATE" }

var convFacet = harness.Register(&harness.Facet[convCase]{
	Name:     "conversion-entry-points",
	Rule:     "rapid: one conversion entry point or unary operator (+x -x ~x !x typeof, Number() String() Boolean() !!x, x+'' ''+x, x|0 x>>>0 x>>0 x<<0 ~~x for ToInt32/ToUint32, x*1 x-0 x/1 x%Infinity -(-x) for ToNumber, String.fromCharCode(x) for ToUint16, \"abcdefgh\".charAt(x) and .slice(x) for ToInteger) applied to a primitive (any channel), an O object (conversion log compared), or for typeof an undeclared identifier / scenery function or object; non-trivial = operand is not a small integer literal or plain ASCII word; distinct by (form, operand)",
	Quick:    30000,
	Thorough: 60000,
	Gen: func(t *rapid.T) convCase {
		c := convCase{Form: rapid.SampledFrom(convForms).Draw(t, "form")}
		switch k := rapid.IntRange(0, 9).Draw(t, "opkind"); {
		case k < 6:
			c.A = genPrimitive(t)
		case k < 8:
			c.A = genObject(t)
		case k < 9 || (c.Form != "typeof x" && c.Form != "!x" && c.Form != "!!x" && c.Form != "Boolean(x)"):
			c.A = genBuiltinObject(t)
		default:
			c.A = Operand{K: "scn", Name: rapid.SampledFrom([]string{"F", "G", "Hbad", "plain", "child", "bare", "arr", "strobj", "f1", "g1", "re", "hostfn", "mathsin", "math", "bound"}).Draw(t, "scn")}
			if c.Form == "typeof x" && rapid.IntRange(0, 4).Draw(t, "undecl") == 0 {
				c.A = Operand{K: "undecl"}
			}
		}
		return c
	},
	Check: func(c convCase) harness.Outcome {
		o := harness.Outcome{Classes: []string{"form:" + c.Form, "a:" + kindClass(c.A)}, Nontrivial: !plainOperand(c.A)}
		if c.A.Via != "" {
			o.Classes = append(o.Classes, "via:"+c.A.Via)
		}
		want, thr, ctx := modelConv(c)
		if thr != nil {
			o.Classes = append(o.Classes, "result:throws")
		} else {
			o.Classes = append(o.Classes, "result:"+resultClass(want))
		}
		var s script
		s.expr = c.expr(s.r.expr(c.A, "A", 0, false))
		got := runScripts([]script{s})[0]
		judge(&o, c.Form+" with x = "+describeOperand(c.A), want, thr, ctx, got)
		return o
	},
})

func TestConversionEntryPoints(t *testing.T) { convFacet.Run(t) }

// ---- facet: the Go accessors Value.ToFloat / ToInteger / ToString / ToBoolean -----------------------

type accCase struct {
	Acc string  `json:"acc"`
	A   Operand `json:"a"`
}

var accFacet = harness.Register(&harness.Facet[accCase]{
	Name:     "go-accessors",
	Rule:     "rapid: a value (primitive through any channel, or O object) is fetched from the runtime as an otto.Value and Value.ToFloat / ToInteger / ToString / ToBoolean is called from Go; oracle: ToNumber / ToInteger saturated to int64 (NaN→0, ±Inf and beyond → Max/MinInt64, as the method documents) / ToString / ToBoolean of the model, an error exactly when the conversion throws, and the conversion log; non-trivial = operand is not a small integer literal or plain ASCII word; distinct by (accessor, operand)",
	Quick:    10000,
	Thorough: 15000,
	Gen: func(t *rapid.T) accCase {
		c := accCase{Acc: rapid.SampledFrom([]string{"ToFloat", "ToInteger", "ToString", "ToBoolean"}).Draw(t, "acc")}
		if k := rapid.IntRange(0, 5).Draw(t, "obj"); k == 5 {
			c.A = genBuiltinObject(t)
		} else if k >= 3 {
			c.A = genObject(t)
			c.A.Ref = ""
		} else {
			c.A = genPrimitive(t)
		}
		return c
	},
	Check: func(c accCase) harness.Outcome {
		o := harness.Outcome{Classes: []string{"acc:" + c.Acc, "a:" + kindClass(c.A)}, Nontrivial: !plainOperand(c.A)}
		if c.A.Via != "" {
			o.Classes = append(o.Classes, "via:"+c.A.Via)
		}
		ctx := &m05.Ctx{}
		env := &modelEnv{}
		a := env.model(c.A, "A")
		var want m05.Value
		var thr *m05.Throw
		switch c.Acc {
		case "ToFloat":
			var n float64
			n, thr = ctx.ToNumber(a)
			want = m05.Num(n)
		case "ToInteger":
			var n float64
			n, thr = ctx.ToInteger(a)
			want = m05.Num(n) // compared after saturation below
			if a.K == m05.Number && a.Held != "" && a.Held != exactDigits(a.N) {
				ctx.Hazards = append(ctx.Hazards, m05.HazWideText) // the un-rounded int64 of the literal comes back
			}
		case "ToString":
			var s []uint16
			s, thr = ctx.ToString(a)
			want = m05.Str(s)
		case "ToBoolean":
			want = m05.Bool(m05.ToBoolean(a))
		}
		// fetch the value
		var s script
		e := s.r.expr(c.A, "A", 0, false)
		m := getMachine()
		for _, st := range s.r.sets {
			must(m.vm.Set(st.name, st.val))
		}
		r := harness.Run(m.vm, strings.Join(s.r.pre, "")+"__log=[];"+e)
		if r.Panicked || r.Err != nil {
			o.Fail = "cannot fetch operand: " + r.Describe()
			return o
		}
		v := r.Value
		got := obs{}
		var err error
		g := harness.Guard(func() (otto.Value, error) {
			switch c.Acc {
			case "ToFloat":
				var f float64
				f, err = v.ToFloat()
				got.val = m05.Num(f)
			case "ToInteger":
				var i int64
				i, err = v.ToInteger()
				got.val = m05.Num(float64(i))
				if thr == nil {
					var sat int64
					switch n := want.N; {
					case n >= 9223372036854775808:
						sat = math.MaxInt64
					case n <= -9223372036854775808:
						sat = math.MinInt64
					default:
						sat = int64(n)
					}
					if i != sat {
						got.val = m05.Num(math.NaN()) // force a mismatch, reported with both integers below
						want = m05.Num(float64(sat))
						got.bad = fmt.Sprintf("Value.ToInteger() = %d, want %d", i, sat)
					} else {
						want = got.val
					}
				}
			case "ToString":
				var str string
				str, err = v.ToString()
				got.val = m05.Str(harness.UTF16(str))
			case "ToBoolean":
				var b bool
				b, err = v.ToBoolean()
				got.val = m05.Bool(b)
			}
			return otto.Value{}, nil
		})
		if g.Panicked {
			got.bad = "Go panic escaped from the accessor: " + fmt.Sprint(g.Panic)
			mach = nil
		}
		if err != nil {
			got.thrown = true
			got.name = harness.ErrName(err)
			if thr != nil && thr.Name != "TypeError" {
				got.name = thr.Name // a thrown non-error value has no class to compare; the log decides
			}
		}
		lg := harness.Run(m.vm, "__log.join()")
		got.log = lg.Value.String()
		judge(&o, "Value."+c.Acc+"() of "+describeOperand(c.A), want, thr, ctx, got)
		return o
	},
})

func TestGoAccessors(t *testing.T) { accFacet.Run(t) }

// ---- facet: typeof / in / instanceof over the scenery (finite table) --------------------------------

var scnFacet = harness.Register(&harness.Facet[exprCase]{
	Name: "typeof-in-instanceof-table",
	Rule: "complete table: `key in obj` for every key of a pool (property names as strings, numbers whose ToString is a property name incl. -0, 1e21, NaN, Infinity, 1.5; undefined/null/booleans) × every scenery object and every primitive kind (TypeError); `v instanceof f` for every scenery object and primitive kind as v × every scenery object/primitive as f (constructor chain, prototype that is not an object, non-callable and primitive right operands → TypeError); === and == identity between scenery objects; oracle: 11.8.6/11.8.7/15.3.5.3 over the known property tables and prototype chains; every case non-trivial; distinct by (operator, a, b)",
	Check: func(c exprCase) harness.Outcome {
		o := checkExpr(c)
		o.Nontrivial = true
		return o
	},
})

func TestTypeofInInstanceofTable(t *testing.T) {
	var keys []Operand
	for _, k := range []string{"a", "0", "1", "2", "1e+21", "NaN", "undefined", "null", "true", "false", "", "-1", "Infinity", "1.5", "length", "toString", "valueOf", "constructor", "prototype", "own", "x", "zzz", "hasOwnProperty", "[object Object]", "-0", "1.0", "01", " 1"} {
		keys = append(keys, strOpA(k))
	}
	for _, x := range []float64{0, math.Copysign(0, -1), 1, 2, -1, 1.5, 1e21, math.NaN(), math.Inf(1), 1e-7} {
		keys = append(keys, numOp(x, ""))
	}
	keys = append(keys, Operand{K: "undef"}, Operand{K: "null"}, Operand{K: "bool", B: true}, Operand{K: "bool", B: false})
	objs := []string{"F", "G", "Fproto", "Gproto", "f1", "g1", "Hbad", "plain", "child", "bare", "arr", "strobj", "re"}
	inRHS := objs
	objs = append(append([]string{}, objs...), "bound") // a bound function has no "prototype" property by 15.3.4.5; that is C14's matter, so it is no right operand of `in` here
	prims := []Operand{{K: "undef"}, {K: "null"}, {K: "bool", B: true}, numOp(1, ""), strOpA("a"), strOpA("")}
	var cases []exprCase
	for _, k := range keys {
		for _, n := range inRHS {
			cases = append(cases, exprCase{Op: "in", A: k, B: Operand{K: "scn", Name: n}})
		}
		for _, p := range prims {
			cases = append(cases, exprCase{Op: "in", A: k, B: p})
		}
	}
	var lhs []Operand
	for _, n := range objs {
		lhs = append(lhs, Operand{K: "scn", Name: n})
	}
	lhs = append(lhs, prims...)
	for _, a := range lhs {
		for _, b := range lhs {
			cases = append(cases, exprCase{Op: "instanceof", A: a, B: b})
			if a.K == "scn" && b.K == "scn" {
				for _, op := range []string{"===", "!==", "==", "!=", "&&", "||"} {
					cases = append(cases, exprCase{Op: op, A: a, B: b})
				}
			}
		}
	}
	harness.SetExhaustive(scnFacet.Name)
	// batches of 200 expressions per script
	for lo := 0; lo < len(cases); lo += 200 {
		hi := min(lo+200, len(cases))
		ss := make([]script, 0, hi-lo)
		for i := lo; i < hi; i++ {
			ss = append(ss, cases[i].script(i-lo))
		}
		got := runScripts(ss)
		for i := lo; i < hi; i++ {
			cases[i].pre = &got[i-lo]
		}
	}
	scnFacet.Each(t, cases)
}

// ---- facet: && || ?: ! trees: short circuit and result identity --------------------------------------

type node struct {
	Op   string   `json:"op"` // leaf && || ?: !
	Leaf *Operand `json:"leaf,omitempty"`
	Kids []*node  `json:"kids,omitempty"`
}

type treeCase struct {
	Root *node `json:"root"`
}

func genTree(t *rapid.T, depth int, next *int) *node {
	k := rapid.IntRange(0, 9).Draw(t, "node")
	if depth == 0 || (k < 3 && depth < 3) {
		var o Operand
		switch rapid.IntRange(0, 4).Draw(t, "leafkind") {
		case 0, 1:
			o = genPrimitive(t)
		case 2:
			o = Operand{K: "scn", Name: rapid.SampledFrom([]string{"F", "plain", "arr", "bare", "strobj"}).Draw(t, "scn")}
			if rapid.Bool().Draw(t, "builtin") {
				o = genBuiltinObject(t)
			}
		default:
			o = genObject(t)
			o.Ref = ""
		}
		*next++
		return &node{Op: "leaf", Leaf: &o}
	}
	switch {
	case k < 5:
		return &node{Op: "&&", Kids: []*node{genTree(t, depth-1, next), genTree(t, depth-1, next)}}
	case k < 7:
		return &node{Op: "||", Kids: []*node{genTree(t, depth-1, next), genTree(t, depth-1, next)}}
	case k < 9:
		return &node{Op: "?:", Kids: []*node{genTree(t, depth-1, next), genTree(t, depth-1, next), genTree(t, depth-1, next)}}
	}
	return &node{Op: "!", Kids: []*node{genTree(t, depth-1, next)}}
}

type treeWalk struct {
	r    rendering
	n    int
	ctx  *m05.Ctx
	vals map[*node]m05.Value
}

func (w *treeWalk) render(nd *node) string {
	switch nd.Op {
	case "leaf":
		slot := fmt.Sprintf("L%d_", w.n)
		w.n++
		env := &modelEnv{}
		w.vals[nd] = env.model(*nd.Leaf, slot)
		e := w.r.expr(*nd.Leaf, slot, 0, true)
		return e
	case "!":
		return "(!" + w.render(nd.Kids[0]) + ")"
	case "?:":
		return "(" + w.render(nd.Kids[0]) + " ? " + w.render(nd.Kids[1]) + " : " + w.render(nd.Kids[2]) + ")"
	}
	return "(" + w.render(nd.Kids[0]) + " " + nd.Op + " " + w.render(nd.Kids[1]) + ")"
}

func (w *treeWalk) eval(nd *node, n *int) m05.Value {
	switch nd.Op {
	case "leaf":
		w.ctx.Log = append(w.ctx.Log, fmt.Sprintf("eL%d_", *n))
		*n++
		return w.vals[nd]
	case "!":
		return m05.Bool(!m05.ToBoolean(w.eval(nd.Kids[0], n)))
	case "?:":
		t := w.eval(nd.Kids[0], n)
		if m05.ToBoolean(t) {
			v := w.eval(nd.Kids[1], n)
			*n += leaves(nd.Kids[2])
			return v
		}
		*n += leaves(nd.Kids[1])
		return w.eval(nd.Kids[2], n)
	}
	l := w.eval(nd.Kids[0], n)
	if m05.ToBoolean(l) == (nd.Op == "||") {
		*n += leaves(nd.Kids[1])
		return l
	}
	return w.eval(nd.Kids[1], n)
}

func leaves(nd *node) int {
	if nd.Op == "leaf" {
		return 1
	}
	s := 0
	for _, k := range nd.Kids {
		s += leaves(k)
	}
	return s
}

var treeFacet = harness.Register(&harness.Facet[treeCase]{
	Name:     "logical-conditional-trees",
	Rule:     "rapid: expression trees of depth ≤ 3 over && || ?: ! whose leaves are primitives (any channel), scenery objects and O objects, every leaf logging its evaluation; oracle: 11.11/11.12/11.4.9 — the value of the deciding operand itself (identity for objects, type and bits for primitives), exactly the leaves on the taken path evaluated in source order, no valueOf/toString call ever (ToBoolean never calls them); non-trivial = the tree has an operator; distinct by the whole tree",
	Quick:    15000,
	Thorough: 100000,
	Gen: func(t *rapid.T) treeCase {
		n := 0
		return treeCase{Root: genTree(t, 3, &n)}
	},
	Check: func(c treeCase) harness.Outcome {
		w := &treeWalk{ctx: &m05.Ctx{}, vals: map[*node]m05.Value{}}
		var s script
		s.expr = w.render(c.Root)
		s.r = w.r
		k := 0
		want := w.eval(c.Root, &k)
		o := harness.Outcome{Nontrivial: c.Root.Op != "leaf", Classes: []string{"root:" + c.Root.Op, fmt.Sprintf("leaves:%d", min(leaves(c.Root), 8)), fmt.Sprintf("evaluated:%d", min(len(w.ctx.Log), 8)), "result:" + resultClass(want)}}
		got := runScripts([]script{s})[0]
		judge(&o, s.expr, want, nil, w.ctx, got)
		return o
	},
})

func TestLogicalConditionalTrees(t *testing.T) { treeFacet.Run(t) }

var _ = es5.ToInteger
