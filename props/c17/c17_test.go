// Package c17 decides property C17: Copy() yields an equivalent and fully independent runtime.
package c17

import (
	"fmt"
	"strings"
	"testing"

	"github.com/robertkrimen/otto"
	"pgregory.net/rapid"

	"verif/lib/harness"
	"verif/lib/heap"
)

func TestMain(m *testing.M) { harness.Main(m, "C17") }

type copyCase struct {
	Setup  []string `json:"setup"`  // history H: programs run on the original before Copy()
	Mutate []string `json:"mutate"` // M: run on one side after the copy
	Chain  int      `json:"chain"`  // how many times the copy is copied again (copies of copies)
	Side   string   `json:"side"`   // which side M runs on: "copy" or "original"
}

const pollBudget = 400_000

type budgetHit struct{}

func run(vm *otto.Otto, src string) string {
	harness.Arm(vm, pollBudget)
	r := harness.Run(vm, src)
	if r.Budget {
		panic(budgetHit{})
	}
	return r.Describe()
}

func newVM() *otto.Otto {
	vm := otto.New()
	vm.SetStackDepthLimit(250)
	if out := run(vm, heap.Prelude); strings.HasPrefix(out, "throws") || strings.HasPrefix(out, "panic") {
		panic("prelude: " + out)
	}
	return vm
}

func build(setup []string) (*otto.Otto, []string) {
	vm := newVM()
	var results []string
	for _, p := range setup {
		results = append(results, run(vm, p))
	}
	return vm, results
}

func dump(vm *otto.Otto) string { return run(vm, heap.Dump) }

func diff(a, b string) string {
	la, lb := strings.Split(a, "\n"), strings.Split(b, "\n")
	for i := 0; i < len(la) && i < len(lb); i++ {
		if la[i] != lb[i] {
			x, y := la[i], lb[i]
			// show the first differing field
			fa, fb := strings.Split(x, " "), strings.Split(y, " ")
			for j := 0; j < len(fa) && j < len(fb); j++ {
				if fa[j] != fb[j] {
					return fmt.Sprintf("object %d (%s): %q vs %q", i, strings.Join(fa[:min(3, len(fa))], " "), fa[j], fb[j])
				}
			}
			return fmt.Sprintf("object %d: %d vs %d fields: …%s | …%s", i, len(fa), len(fb), tail(x), tail(y))
		}
	}
	if len(la) != len(lb) {
		return fmt.Sprintf("%d vs %d reachable objects", len(la), len(lb))
	}
	return ""
}

func tail(s string) string {
	if len(s) > 160 {
		return s[len(s)-160:]
	}
	return s
}

func min(a, b int) int {
	if a < b {
		return a
	}
	return b
}

func checkCopy(c copyCase) (out harness.Outcome) {
	defer func() {
		if p := recover(); p != nil {
			if _, ok := p.(budgetHit); ok {
				out = harness.Outcome{Discard: "poll budget (long-running generated program)"}
				return
			}
			panic(p)
		}
	}()
	src := strings.Join(c.Setup, "\n") + strings.Join(c.Mutate, "\n")
	for _, f := range []string{"function", "defineProperty", "bind", "arguments", "prototype", "freeze", "get ", "lastIndex", "new Date", "Error", "eval", "with"} {
		if strings.Contains(src, f) {
			out.Classes = append(out.Classes, "has:"+strings.TrimSpace(f))
		}
	}
	out.Nontrivial = strings.Contains(src, "function") && len(c.Mutate) > 0
	fail := func(format string, a ...interface{}) harness.Outcome {
		out.Fail = fmt.Sprintf(format, a...) + "\nsetup:\n" + strings.Join(c.Setup, "\n---\n") + "\nmutate:\n" + strings.Join(c.Mutate, "\n---\n")
		return out
	}

	orig, resA := build(c.Setup)
	replay, resR := build(c.Setup) // a runtime that replayed the original's history
	for i := range resA {
		if resA[i] != resR[i] {
			return fail("two fresh runtimes disagree on setup program %d: %s vs %s (nondeterminism)", i, resA[i], resR[i])
		}
	}
	cp := orig.Copy()
	for i := 0; i < c.Chain; i++ {
		cp = cp.Copy() // copy of a copy
	}
	dOrig0 := dump(orig)
	dReplay0 := dump(replay)
	if d := diff(dOrig0, dReplay0); d != "" {
		return fail("dump of the original differs from the dump of a replayed runtime (check nondeterminism): %s", d)
	}
	// 1. equivalence at the moment of the copy
	if d := diff(dump(cp), dReplay0); d != "" {
		return fail("the copy (chain %d) is not equivalent to a runtime that replayed the history: %s", c.Chain, d)
	}
	// 2. equivalence of behaviour: calling every exported closure gives the same results and leaves the same heap
	eC, eR := run(cp, heap.Exercise), run(replay, heap.Exercise)
	if eC != eR {
		return fail("calling the exported functions on the copy gives %q, on the replayed runtime %q", eC, eR)
	}
	dCopy1, dReplay1 := dump(cp), dump(replay)
	if d := diff(dCopy1, dReplay1); d != "" {
		return fail("after calling the exported functions the copy and the replayed runtime differ: %s", d)
	}
	// 3. isolation: nothing done to the copy so far is visible from the original
	if d := diff(dump(orig), dOrig0); d != "" {
		return fail("running scripts on the copy changed the original: %s", d)
	}
	// 4. mutation programs on one side, both directions
	mutated, other, otherName := cp, orig, "original"
	mutatedRef, otherBefore := replay, dOrig0
	if c.Side == "original" {
		// bring the reference to the original's state: a second replay that never ran Exercise
		ref2, _ := build(c.Setup)
		mutated, other, otherName = orig, cp, "copy"
		mutatedRef, otherBefore = ref2, dCopy1
	}
	for i, m := range c.Mutate {
		rm, rr := run(mutated, m), run(mutatedRef, m)
		if rm != rr {
			return fail("mutation program %d gives %s on the %s side and %s on the replayed reference", i, rm, c.Side, rr)
		}
	}
	if d := diff(dump(mutated), dump(mutatedRef)); d != "" {
		return fail("after the mutation programs the %s side differs from the replayed reference: %s", c.Side, d)
	}
	if d := diff(dump(other), otherBefore); d != "" {
		return fail("mutation programs run on the %s side are observable from the %s: %s", c.Side, otherName, d)
	}
	return out
}

var copyFacet = harness.Register(&harness.Facet[copyCase]{
	Name: "copy-vs-replay",
	Rule: "rapid: a setup history of 1-4 programs (templates building counters in closures, shared environments, prototype chains, accessors over hidden state, restricted attributes and reordered properties, frozen/sealed objects, bound functions with bound arguments, leaked and aliased arguments objects, functions with own properties, modified built-ins, RegExp lastIndex, Date and Error objects, cycles, wrappers, sparse arrays, eval/Function/with bindings; 30% programs from the semantic generator), 0-3 mutation programs, the side they run on and a copy-of-copy depth 0-2. Oracle: differential against replay — A=New();A.Run(H); C=A.Copy()^n; R=New();R.Run(H): canonical heap dump (every reachable object: class, prototype, extensibility, own properties in order with attributes and values, function source, Date/RegExp/wrapper internals) of C equals R's; calling every exported function gives equal results and equal heaps; the original's dump is unchanged by anything run on the copy; after M on one side that side equals the replayed reference after M and the other side is unchanged. Non-trivial = the history defines a function and there is a mutation program; distinct by case",
	Quick:    70,
	Thorough: 500,
	Gen: func(t *rapid.T) copyCase {
		c := copyCase{Chain: rapid.IntRange(0, 2).Draw(t, "chain"), Side: rapid.SampledFrom([]string{"copy", "copy", "original"}).Draw(t, "side")}
		for i, n := 0, rapid.IntRange(1, 4).Draw(t, "nsetup"); i < n; i++ {
			c.Setup = append(c.Setup, heap.Piece(t, heap.Builders, "builder"))
		}
		for i, n := 0, rapid.IntRange(0, 3).Draw(t, "nmut"); i < n; i++ {
			c.Mutate = append(c.Mutate, heap.Piece(t, heap.Mutators, "mutator"))
		}
		return c
	},
	Check: checkCopy,
})

func TestCopyVsReplay(t *testing.T) { copyFacet.Run(t) }
