// Package c17 decides property C17: Copy() yields an equivalent and fully independent runtime.
package c17

import (
	"fmt"
	"strconv"
	"strings"
	"testing"

	"github.com/robertkrimen/otto"
	"pgregory.net/rapid"

	"verif/lib/harness"
	"verif/lib/heap"
)

func TestMain(m *testing.M) { harness.Main(m, "C17") }

type copyCase struct {
	Setup  []string `json:"setup"`  // history H: programs run on the original before Copy()
	Mutate  []string `json:"mutate"`  // M: run on the copy after Copy()
	Mutate2 []string `json:"mutate2"` // M2: run on the original after that (both sides change, differently)
	Chain   int      `json:"chain"`   // how many times the copy is copied again (copies of copies)
	Sibs    int      `json:"sibs"`    // further copies taken from the original right after (siblings of the first copy)
}

const pollBudget = 400_000

type budgetHit struct{}

func run(vm *otto.Otto, src string) string {
	harness.Arm(vm, pollBudget)
	r := harness.Run(vm, src)
	if r.Budget {
		panic(budgetHit{})
	}
	if r.Panicked {
		// a Go panic crossing Run is never acceptable and would make both sides "equal": fail loudly
		panic(fmt.Sprintf("a Go panic crossed Run: %v\nwhile running: %.300s", r.Panic, src))
	}
	return r.Describe()
}

func newVM() *otto.Otto {
	vm := otto.New()
	vm.SetStackDepthLimit(250)
	if out := run(vm, heap.Prelude); strings.HasPrefix(out, "throws") || strings.HasPrefix(out, "panic") {
		panic("prelude: " + out)
	}
	return vm
}

func build(setup []string) (*otto.Otto, []string) {
	vm := newVM()
	var results []string
	for _, p := range setup {
		results = append(results, run(vm, p))
	}
	return vm, results
}

// dump is the canonical whole-heap description, walked from Go through the native reflection functions
// saved by the prelude (identity via a Go map: linear in the heap size).
func dump(vm *otto.Otto) string {
	vm.Interrupt = nil
	d, err := heap.DumpGo(vm)
	if err != nil {
		panic("heap dump failed: " + err.Error())
	}
	return d
}

func diff(a, b string) string {
	la, lb := strings.Split(a, "\n"), strings.Split(b, "\n")
	for i := 0; i < len(la) && i < len(lb); i++ {
		if la[i] != lb[i] {
			x, y := la[i], lb[i]
			// show the first differing field
			fa, fb := strings.Split(x, " "), strings.Split(y, " ")
			for j := 0; j < len(fa) && j < len(fb); j++ {
				if fa[j] != fb[j] {
					return fmt.Sprintf("object %d (%s): %q vs %q", i, strings.Join(fa[:min(3, len(fa))], " "), fa[j], fb[j])
				}
			}
			return fmt.Sprintf("object %d: %d vs %d fields: …%s | …%s", i, len(fa), len(fb), tail(x), tail(y))
		}
	}
	if len(la) != len(lb) {
		return fmt.Sprintf("%d vs %d reachable objects", len(la), len(lb))
	}
	return ""
}

func tail(s string) string {
	if len(s) > 160 {
		return s[len(s)-160:]
	}
	return s
}

func min(a, b int) int {
	if a < b {
		return a
	}
	return b
}

func checkCopy(c copyCase) (out harness.Outcome) {
	defer func() {
		if p := recover(); p != nil {
			if _, ok := p.(budgetHit); ok {
				out = harness.Outcome{Discard: "poll budget (long-running generated program)"}
				return
			}
			panic(p)
		}
	}()
	src := strings.Join(c.Setup, "\n") + strings.Join(c.Mutate, "\n")
	for _, f := range []string{"function", "defineProperty", "bind", "arguments", "prototype", "freeze", "get ", "lastIndex", "new Date", "Error", "eval", "with"} {
		if strings.Contains(src, f) {
			out.Classes = append(out.Classes, "has:"+strings.TrimSpace(f))
		}
	}
	out.Nontrivial = strings.Contains(src, "function")
	fail := func(format string, a ...interface{}) harness.Outcome {
		out.Fail = fmt.Sprintf(format, a...) + "\nsetup:\n" + strings.Join(c.Setup, "\n---\n") + "\nmutate (copy):\n" + strings.Join(c.Mutate, "\n---\n") + "\nmutate (original):\n" + strings.Join(c.Mutate2, "\n---\n")
		return out
	}

	orig, resA := build(c.Setup)
	replay, resR := build(c.Setup) // a runtime that replayed the original's history
	for i := range resA {
		if resA[i] != resR[i] {
			return fail("two fresh runtimes disagree on setup program %d: %s vs %s (nondeterminism)", i, resA[i], resR[i])
		}
	}
	// the family: the chain orig → c1 → … → cp (intermediate copies are kept), and siblings copied from the original
	// after that; only cp and the original are changed below, every other member must stay what it was
	cp := orig.Copy()
	var others []*otto.Otto
	for i := 0; i < c.Chain; i++ {
		others = append(others, cp)
		cp = cp.Copy() // copy of a copy
	}
	for i := 0; i < c.Sibs; i++ {
		others = append(others, orig.Copy())
	}
	dOrig0 := dump(orig)
	dReplay0 := dump(replay)
	if d := diff(dOrig0, dReplay0); d != "" {
		return fail("dump of the original differs from the dump of a replayed runtime (check nondeterminism): %s", d)
	}
	// 1. equivalence at the moment of the copy
	if d := diff(dump(cp), dReplay0); d != "" {
		return fail("the copy (chain %d) is not equivalent to a runtime that replayed the history: %s", c.Chain, d)
	}
	// 2. equivalence of behaviour: calling every exported closure gives the same results and leaves the same heap
	eC, eR := run(cp, heap.Exercise), run(replay, heap.Exercise)
	if eC != eR {
		return fail("calling the exported functions on the copy gives %q, on the replayed runtime %q", eC, eR)
	}
	dCopy1, dReplay1 := dump(cp), dump(replay)
	if d := diff(dCopy1, dReplay1); d != "" {
		return fail("after calling the exported functions the copy and the replayed runtime differ: %s", d)
	}
	// 3. isolation: nothing done to the copy so far is visible from the original
	if d := diff(dump(orig), dOrig0); d != "" {
		return fail("running scripts on the copy changed the original: %s", d)
	}
	// 4. both sides are changed, differently: M (+ fresh keys tagged C) on the copy, then M2 (+ keys tagged O) on
	// the original; each side must equal its own replayed reference after the same programs
	refOrig, _ := build(c.Setup) // reference for the original: it never ran Exercise
	progsC := append(append([]string(nil), c.Mutate...), strings.ReplaceAll(heap.AddKeys, "%TAG", "C"))
	progsO := append(append([]string(nil), c.Mutate2...), strings.ReplaceAll(heap.AddKeys, "%TAG", "O"))
	for i, m := range progsC {
		if rm, rr := run(cp, m), run(replay, m); rm != rr {
			return fail("program %d run on the copy gives %s, on the replayed reference %s", i, rm, rr)
		}
	}
	for i, m := range progsO {
		if rm, rr := run(orig, m), run(refOrig, m); rm != rr {
			return fail("program %d run on the original (after the copy was changed) gives %s, on a replayed reference %s", i, rm, rr)
		}
	}
	if d := diff(dump(cp), dump(replay)); d != "" {
		return fail("after both sides were changed the copy differs from its replayed reference (state shared with the original?): %s", d)
	}
	if d := diff(dump(orig), dump(refOrig)); d != "" {
		return fail("after both sides were changed the original differs from its replayed reference (state shared with the copy?): %s", d)
	}
	// neither side can find the other side's fresh keys by name (a property table shared between the clones would
	// answer such lookups although the key lists, and therefore the dumps, are per clone)
	if seen := run(cp, strings.ReplaceAll(heap.ProbeKeys, "%TAG", "O")); seen != "" {
		return fail("the copy finds properties that were added to the original only (by name, not listed among its keys): %s", seen)
	}
	if seen := run(orig, strings.ReplaceAll(heap.ProbeKeys, "%TAG", "C")); seen != "" {
		return fail("the original finds properties that were added to the copy only (by name, not listed among its keys): %s", seen)
	}
	for i, o := range others {
		for _, tag := range []string{"C", "O"} {
			if seen := run(o, strings.ReplaceAll(heap.ProbeKeys, "%TAG", tag)); seen != "" {
				return fail("family member %d finds properties (tag %s) that were added to another runtime only: %s", i, tag, seen)
			}
		}
	}
	// 5. and the exported functions still behave the same on each side
	if eC, eR := run(cp, heap.Exercise), run(replay, heap.Exercise); eC != eR {
		return fail("after the changes, calling the exported functions on the copy gives %q, on its reference %q", eC, eR)
	}
	if eO, eR := run(orig, heap.Exercise), run(refOrig, heap.Exercise); eO != eR {
		return fail("after the changes, calling the exported functions on the original gives %q, on its reference %q", eO, eR)
	}
	// 6. the rest of the family (intermediate copies of the chain, siblings) saw none of that: each still equals the
	// replayed runtime as it was at copy time, behaves like it, and using one does not show in the next
	for i, o := range others {
		if d := diff(dump(o), dReplay0); d != "" {
			return fail("family member %d (chain %d, siblings %d: intermediate copies first) changed although only the last copy and the original were used (state shared between copies?): %s", i, c.Chain, c.Sibs, d)
		}
	}
	for i, o := range others {
		if e := run(o, heap.Exercise); e != eR {
			return fail("calling the exported functions on family member %d gives %q, on a replayed runtime %q", i, e, eR)
		}
		if d := diff(dump(o), dReplay1); d != "" {
			return fail("after calling the exported functions family member %d differs from the replayed runtime after the same calls: %s", i, d)
		}
		for j := i + 1; j < len(others); j++ {
			if d := diff(dump(others[j]), dReplay0); d != "" {
				return fail("using family member %d changed family member %d: %s", i, j, d)
			}
		}
	}
	return out
}

var copyFacet = harness.Register(&harness.Facet[copyCase]{
	Name: "copy-vs-replay",
	Rule: "rapid: a setup history of 1-4 programs (templates building counters in closures, shared environments, prototype chains, accessors over hidden state, restricted attributes and reordered properties, frozen/sealed objects, bound functions with bound arguments, leaked and aliased arguments objects, functions with own properties, modified built-ins, RegExp lastIndex, Date and Error objects, cycles, wrappers, sparse arrays, eval/Function/with bindings; 30% programs from the semantic generator), 0-3 mutation programs for the copy, 0-2 different ones for the original, a copy-of-copy depth 0-2 and 0-2 sibling copies taken from the original afterwards. Oracle: differential against replay — A=New();A.Run(H); C=A.Copy()^n; R=New();R.Run(H): canonical heap dump (every reachable object: class, prototype, extensibility, own properties in order with attributes and values, function source, Date/RegExp/wrapper internals) of C equals R's; calling every exported function gives equal results and equal heaps; the original's dump is unchanged by anything run on the copy; then BOTH sides are changed differently (mutation programs plus a program adding a differently named fresh key to every global object and function) and each must equal its own replayed reference after the same programs, in dump and in the results of calling the exported functions; finally every other member of the family (intermediate copies of the chain, siblings) must still equal the replayed runtime as it was at copy time, behave like it, and not show in one another. Non-trivial = the history defines a function; distinct by case",
	Quick:    400,
	Thorough: 4000,
	Gen: func(t *rapid.T) copyCase {
		c := copyCase{Chain: rapid.IntRange(0, 2).Draw(t, "chain"), Sibs: rapid.IntRange(0, 2).Draw(t, "sibs")}
		for i, n := 0, rapid.IntRange(1, 4).Draw(t, "nsetup"); i < n; i++ {
			c.Setup = append(c.Setup, heap.Piece(t, heap.Builders, "builder"))
		}
		for i, n := 0, rapid.IntRange(0, 3).Draw(t, "nmut"); i < n; i++ {
			c.Mutate = append(c.Mutate, heap.Piece(t, heap.Mutators, "mutator"))
		}
		for i, n := 0, rapid.IntRange(0, 2).Draw(t, "nmut2"); i < n; i++ {
			c.Mutate2 = append(c.Mutate2, heap.Piece(t, heap.Mutators, "mutator2"))
		}
		return c
	},
	Check: checkCopy,
})

func TestCopyVsReplay(t *testing.T) { copyFacet.Run(t) }

// every builder on its own (so that each clone path is exercised in every run, whatever the seed),
// combined with two mutators and a copy-of-copy depth chosen round-robin
var eachFacet = harness.Register(&harness.Facet[copyCase]{
	Name:  "copy-vs-replay-each-builder",
	Rule:  "complete enumeration of the heap-builder templates (one per clone path: closures, named function expressions, catch/with/arguments scopes, bound functions with object this and arguments, accessors, attributes, frozen objects, modified built-ins, RegExp/Date/Error, cycles, wrappers, grown key lists, deep chains), each alone as the setup history, with two mutators and copy depth 0-2 assigned round-robin, plus targeted (setup, program for the copy, program for the original) triples at every copy depth 0-2 — arguments parameter maps, accessor halves, rebound built-in constructor names, grown key lists, one-sided attribute changes, closures over with/catch/eval scopes, RegExp/Date/Error/wrapper internals, bound functions over heap objects; same oracle as copy-vs-replay; every case non-trivial; distinct by builder",
	Check: checkCopy,
})

func TestCopyEachBuilder(t *testing.T) {
	var cases []copyCase
	for i, b := range heap.Builders {
		n := strconv.Itoa(i % 10)
		cases = append(cases, copyCase{
			Setup:   []string{strings.ReplaceAll(b, "%N", n)},
			Mutate:  []string{strings.ReplaceAll(heap.Mutators[i%len(heap.Mutators)], "%N", n)},
			Mutate2: []string{strings.ReplaceAll(heap.Mutators[(i+7)%len(heap.Mutators)], "%N", n)},
			Chain:   i % 3,
			Sibs:    (i / 3) % 3,
		})
	}
	// targeted triples: every copy depth 0..2
	for _, tr := range heap.Targeted {
		for chain := 0; chain <= 2; chain++ {
			cases = append(cases, copyCase{Setup: []string{tr.Setup}, Mutate: []string{tr.OnCopy}, Mutate2: []string{tr.OnOrig}, Chain: chain, Sibs: (chain + 1) % 3})
		}
	}
	harness.SetExhaustive(eachFacet.Name)
	eachFacet.Each(t, cases)
}
