// Package c13 decides property C13: Math and global utility functions honour ES5 15.8 and 15.1.
package c13

import (
	"fmt"
	"math"
	"strconv"
	"strings"
	"testing"

	"github.com/robertkrimen/otto"
	"pgregory.net/rapid"

	"verif/lib/es5"
	"verif/lib/gen"
	"verif/lib/harness"
)

func TestMain(m *testing.M) { harness.Main(m, "C13") }

// ---- otto access -------------------------------------------------------------------------------

var (
	vm     *otto.Otto
	vmUses int
)

const prelude = `var __log=[];
function __mk(i,v){return {valueOf:function(){__log.push(i);return v}}}
function __mks(i,v){return {valueOf:undefined,toString:function(){__log.push(i);return v}}}
function __thr(i){return {valueOf:function(){__log.push(i);throw new RangeError("boom")}}}`

func getVM() *otto.Otto {
	if vm == nil || vmUses > 2000 {
		vm = otto.New()
		if _, err := vm.Run(prelude); err != nil {
			panic(err)
		}
		vmUses = 0
	}
	vmUses++
	return vm
}

func evalNum(js string) (float64, string) {
	r := harness.Run(getVM(), js)
	if r.Panicked {
		return 0, "panic:" + fmt.Sprint(r.Panic)
	}
	if r.Err != nil {
		return 0, "throws:" + harness.ErrName(r.Err)
	}
	if !r.Value.IsNumber() {
		return 0, "not a number: " + harness.Repr(r.Value)
	}
	f, _ := r.Value.ToFloat()
	return f, ""
}

func evalStr(js string) ([]uint16, string) {
	r := harness.Run(getVM(), js)
	if r.Panicked {
		return nil, "panic:" + fmt.Sprint(r.Panic)
	}
	if r.Err != nil {
		return nil, "throws:" + harness.ErrName(r.Err)
	}
	if !r.Value.IsString() {
		return nil, "not a string: " + harness.Repr(r.Value)
	}
	s, _ := r.Value.ToString()
	return harness.UTF16(s), ""
}

func lits(a []float64) string {
	p := make([]string, len(a))
	for i, x := range a {
		p[i] = harness.NumLit(x)
	}
	return strings.Join(p, ",")
}

func trivialArgs(a []float64) bool {
	for _, x := range a {
		if !gen.IsPlain(x) || x <= 0 {
			return false
		}
	}
	return true
}

// ---- facet: Math on numbers ----------------------------------------------------------------------

type mathCase struct {
	Fn   string    `json:"fn"`
	Args []float64 `json:"-"`
	Lits []string  `json:"args"` // exact literals (JSON cannot carry NaN/Inf)
}

func mkMath(fn string, a []float64) mathCase {
	c := mathCase{Fn: fn, Args: a}
	for _, x := range a {
		c.Lits = append(c.Lits, harness.NumLit(x))
	}
	return c
}

func (c *mathCase) args() []float64 {
	if c.Args == nil && len(c.Lits) > 0 {
		for _, l := range c.Lits {
			c.Args = append(c.Args, parseLit(l))
		}
	}
	return c.Args
}

func parseLit(l string) float64 {
	switch l {
	case "NaN":
		return math.NaN()
	case "Infinity":
		return math.Inf(1)
	case "-Infinity":
		return math.Inf(-1)
	case "-0":
		return math.Copysign(0, -1)
	}
	f, _ := strconv.ParseFloat(l, 64)
	return f
}

const approxTol = 1e-12

func checkMath(c mathCase) harness.Outcome {
	a := c.args()
	want, kind := es5.MathModel(c.Fn, a)
	o := harness.Outcome{Nontrivial: !trivialArgs(a) || len(a) != 1, Classes: []string{"fn:" + c.Fn}}
	if kind == es5.MathExact {
		o.Classes = append(o.Classes, "mandated")
	} else {
		o.Classes = append(o.Classes, "approximated")
	}
	got, bad := evalNum("Math." + c.Fn + "(" + strings.Join(c.Lits, ",") + ")")
	if bad != "" {
		o.Fail = fmt.Sprintf("Math.%s(%s): %s, want %s", c.Fn, strings.Join(c.Lits, ","), bad, harness.NumRepr(want))
		return o
	}
	ok := false
	if kind == es5.MathExact {
		ok = harness.SameNum(got, want)
	} else {
		ok = es5.MathClose(got, want, approxTol)
	}
	if !ok {
		o.Fail = fmt.Sprintf("Math.%s(%s) = %s, ES5 15.8.2 gives %s (%s)", c.Fn, strings.Join(c.Lits, ","), harness.NumRepr(got), harness.NumRepr(want), map[es5.MathKind]string{es5.MathExact: "mandated", es5.MathApprox: "within 1e-12"}[kind])
	}
	return o
}

var specials = func() []float64 {
	base := []float64{math.NaN(), 0, math.Inf(1), 1, 0.5, 2, 3, 1.5, 2.5, 4, 0.49999999999999994, 0.9999999999999999, 1.0000000000000002,
		math.MaxFloat64, math.SmallestNonzeroFloat64, 9007199254740992, 9007199254740994, 4503599627370497, 4503599627370495.5, 1e300, 1e-300, 709, 710, 1023, 1024, 1025}
	var out []float64
	for _, x := range base {
		out = append(out, x)
		if !math.IsNaN(x) {
			out = append(out, -x)
		}
	}
	return out
}()

var mathSpecial = harness.Register(&harness.Facet[mathCase]{
	Name: "math-special-table",
	Rule: "complete product: every ES5 Math function × every tuple over the special-value pool (NaN, ±0, ±Inf, ±1, halves, odd/even integers, 2^52/2^53 neighbours, extremes; 0–2 arguments for max/min, all unary values of the big boundary pool); non-trivial = any argument outside small positive integers or an argument count ≠ 1; distinct by (function, argument bits)",
	Check: checkMath,
})

func TestMathSpecialTable(t *testing.T) {
	var cases []mathCase
	for _, fn := range es5.MathNames {
		switch es5.MathArity[fn] {
		case 1:
			for _, x := range gen.BoundaryDoubles {
				cases = append(cases, mkMath(fn, []float64{x}))
			}
			for _, x := range specials {
				cases = append(cases, mkMath(fn, []float64{x}))
			}
			cases = append(cases, mkMath(fn, nil))
		case 2:
			cases = append(cases, mkMath(fn, nil))
			for _, x := range specials {
				cases = append(cases, mkMath(fn, []float64{x}))
				for _, y := range specials {
					cases = append(cases, mkMath(fn, []float64{x, y}))
				}
			}
		default:
			cases = append(cases, mkMath(fn, nil))
			for _, x := range specials {
				cases = append(cases, mkMath(fn, []float64{x}))
				for _, y := range specials {
					cases = append(cases, mkMath(fn, []float64{x, y}))
				}
			}
		}
	}
	harness.SetExhaustive(mathSpecial.Name)
	mathSpecial.Each(t, cases)
}

var mathRandom = harness.Register(&harness.Facet[mathCase]{
	Name:     "math-generated",
	Rule:     "rapid: function drawn uniformly, arguments from the boundary pool / halves / random bit patterns (0–4 arguments for max/min); non-trivial = any argument outside small positive integers or argument count ≠ 1; distinct by (function, argument bits)",
	Quick:    60000,
	Thorough: 250000,
	Gen: func(t *rapid.T) mathCase {
		fn := rapid.SampledFrom(es5.MathNames).Draw(t, "fn")
		n := es5.MathArity[fn]
		if n < 0 {
			n = rapid.IntRange(0, 4).Draw(t, "nargs")
		}
		a := make([]float64, n)
		for i := range a {
			a[i] = gen.Double().Draw(t, "arg")
		}
		return mkMath(fn, a)
	},
	Check: checkMath,
})

func TestMathGenerated(t *testing.T) { mathRandom.Run(t) }

// ---- facet: mathematical relations ---------------------------------------------------------------

type relCase struct {
	Rel string `json:"rel"`
	X   string `json:"x"`
	Y   string `json:"y,omitempty"`
}

func js1(fn, x string) (float64, string) { return evalNum("Math." + fn + "(" + x + ")") }

func checkRel(c relCase) harness.Outcome {
	x, y := parseLit(c.X), parseLit(c.Y)
	o := harness.Outcome{Nontrivial: !gen.IsPlain(x), Classes: []string{"rel:" + c.Rel}}
	fail := func(f string, a ...interface{}) harness.Outcome { o.Fail = fmt.Sprintf(f, a...); return o }
	get := func(js string) float64 {
		v, bad := evalNum(js)
		if bad != "" {
			panic(js + ": " + bad)
		}
		return v
	}
	switch c.Rel {
	case "odd": // f(-x) = -f(x) for sin tan atan asin
		for _, fn := range []string{"sin", "tan", "atan", "asin"} {
			if fn == "asin" && math.Abs(x) > 1 {
				continue
			}
			a, b := get("Math."+fn+"("+c.X+")"), get("Math."+fn+"(-("+c.X+"))")
			if !es5.MathClose(b, -a, approxTol) {
				return fail("Math.%s(-x) = %v but -Math.%s(x) = %v for x=%s", fn, b, fn, -a, c.X)
			}
		}
	case "even":
		a, b := get("Math.cos("+c.X+")"), get("Math.cos(-("+c.X+"))")
		if !es5.MathClose(a, b, approxTol) {
			return fail("cos(x)=%v cos(-x)=%v x=%s", a, b, c.X)
		}
		a, b = get("Math.abs("+c.X+")"), get("Math.abs(-("+c.X+"))")
		if !harness.SameNum(a, b) {
			return fail("abs(x)=%v abs(-x)=%v x=%s", a, b, c.X)
		}
	case "monotone": // x <= y ⇒ f(x) <= f(y) (up to tolerance) for increasing functions on their domain
		lo, hi := x, y
		if lo > hi {
			lo, hi = hi, lo
		}
		for _, fn := range []string{"exp", "atan", "sqrt", "log", "asin", "floor", "ceil", "round"} {
			if (fn == "sqrt" || fn == "log") && lo < 0 {
				continue
			}
			if fn == "asin" && (lo < -1 || hi > 1) {
				continue
			}
			a, b := get("Math."+fn+"("+harness.NumLit(lo)+")"), get("Math."+fn+"("+harness.NumLit(hi)+")")
			if math.IsNaN(a) || math.IsNaN(b) {
				return fail("Math.%s is NaN inside its domain: f(%v)=%v f(%v)=%v", fn, lo, a, hi, b)
			}
			if a > b && !es5.MathClose(a, b, approxTol) {
				return fail("Math.%s not monotone: f(%v)=%v > f(%v)=%v", fn, lo, a, hi, b)
			}
		}
	case "inverse":
		ax := math.Abs(x)
		if ax > 1e-300 && ax < 1e300 {
			l := harness.NumLit(ax)
			if v := get("Math.exp(Math.log(" + l + "))"); !es5.MathClose(v, ax, 1e-9) {
				return fail("exp(log(%v)) = %v", ax, v)
			}
			if ax > 1e-150 && ax < 1e150 {
				if v := get("(function(s){return s*s})(Math.sqrt(" + l + "))"); !es5.MathClose(v, ax, 1e-12) {
					return fail("sqrt(%v)^2 = %v", ax, v)
				}
			}
			if ax < 700 && ax > 1e-3 { // below that exp(x) = 1+x loses the digits of x: the composition is ill-conditioned, not wrong
				if v := get("Math.log(Math.exp(" + l + "))"); !es5.MathClose(v, ax, 1e-9) {
					return fail("log(exp(%v)) = %v", ax, v)
				}
			}
			t := get("Math.tan(Math.atan(" + l + "))")
			if ax < 1e6 && !es5.MathClose(t, ax, 1e-8) {
				return fail("tan(atan(%v)) = %v", ax, t)
			}
		}
	case "pow-int": // pow(x, n) against repeated multiplication for small n
		if !math.IsNaN(x) && !math.IsInf(x, 0) && math.Abs(x) < 1e50 && math.Abs(x) > 1e-50 {
			for n := 1; n <= 5; n++ {
				want := 1.0
				for i := 0; i < n; i++ {
					want *= x
				}
				v := get(fmt.Sprintf("Math.pow(%s,%d)", c.X, n))
				if !es5.MathClose(v, want, 1e-12) {
					return fail("pow(%s,%d) = %v, repeated multiplication %v", c.X, n, v, want)
				}
			}
		}
	case "atan2-quadrant":
		if !math.IsNaN(x) && !math.IsNaN(y) && x != 0 && y != 0 {
			if x < 0 && y/x == 0 && harness.Known("C13-ATAN2-UNDERFLOW") {
				o.Excluded = []string{"C13-ATAN2-UNDERFLOW"}
				return o
			}
			v := get("Math.atan2(" + c.Y + "," + c.X + ")")
			if math.Signbit(v) != math.Signbit(y) {
				return fail("atan2(y=%s,x=%s) = %v has the wrong sign", c.Y, c.X, v)
			}
			if (math.Abs(v) > math.Pi/2+1e-12) != (x < 0) && math.Abs(math.Abs(v)-math.Pi/2) > 1e-9 {
				return fail("atan2(y=%s,x=%s) = %v is in the wrong half plane", c.Y, c.X, v)
			}
			if math.Abs(v) > math.Pi+1e-12 {
				return fail("atan2 out of range: %v", v)
			}
		}
	}
	return o
}

var mathRel = harness.Register(&harness.Facet[relCase]{
	Name:     "math-relations",
	Rule:     "rapid: a relation (odd/even symmetry, monotonicity on an ordered pair, inverse pairs exp/log sqrt/square tan/atan, pow vs repeated multiplication, atan2 quadrant) and one or two doubles from the boundary pool; tolerance 1e-12 relative (1e-9 for composed inverses); non-trivial = x is not a small integer; distinct by (relation, x, y)",
	Quick:    15000,
	Thorough: 60000,
	Gen: func(t *rapid.T) relCase {
		rel := rapid.SampledFrom([]string{"odd", "even", "monotone", "inverse", "pow-int", "atan2-quadrant"}).Draw(t, "rel")
		c := relCase{Rel: rel, X: harness.NumLit(gen.FiniteDouble().Draw(t, "x"))}
		if rel == "monotone" || rel == "atan2-quadrant" {
			c.Y = harness.NumLit(gen.FiniteDouble().Draw(t, "y"))
		}
		return c
	},
	Check: checkRel,
})

func TestMathRelations(t *testing.T) { mathRel.Run(t) }

// ---- facet: ToNumber of every argument, left to right ---------------------------------------------

type coArg struct {
	Kind string `json:"kind"` // num str obj objstr undef null bool throw
	Lit  string `json:"lit"`  // numeric literal (num/obj), string contents (str/objstr), true/false
}

type coerceCase struct {
	Fn   string  `json:"fn"`
	Args []coArg `json:"args"`
}

func (a coArg) render(i int) string {
	switch a.Kind {
	case "num":
		return a.Lit
	case "str":
		return harness.JSString(a.Lit)
	case "obj":
		return fmt.Sprintf("__mk(%d,%s)", i, a.Lit)
	case "objstr":
		return fmt.Sprintf("__mks(%d,%s)", i, harness.JSString(a.Lit))
	case "undef":
		return "undefined"
	case "null":
		return "null"
	case "bool":
		return a.Lit
	case "throw":
		return fmt.Sprintf("__thr(%d)", i)
	case "date":
		return "new Date(" + a.Lit + ")"
	case "wrapnum":
		return "new Number(" + a.Lit + ")"
	case "wrapstr":
		return "new String(" + harness.JSString(a.Lit) + ")"
	case "arr1":
		return "[" + harness.JSString(a.Lit) + "]"
	case "objboth":
		// valueOf answers with an object, so ToPrimitive(hint Number) goes on to toString (8.12.8)
		return "({valueOf:function(){return {}},toString:function(){return " + harness.JSString(a.Lit) + "}})"
	}
	panic("kind")
}

func (a coArg) toNumber() float64 {
	switch a.Kind {
	case "num", "obj":
		return parseLit(a.Lit)
	case "str", "objstr", "wrapstr", "arr1", "objboth":
		return es5.StringToNumber(harness.UTF16(a.Lit))
	case "wrapnum":
		return parseLit(a.Lit)
	case "date":
		// ToNumber(Date) = ToPrimitive with hint Number = valueOf = the time value, TimeClip of the argument (15.9.3.2, 15.9.1.14)
		t := parseLit(a.Lit)
		if math.IsNaN(t) || math.Abs(t) > 8.64e15 {
			return math.NaN()
		}
		return math.Trunc(t) + 0
	case "undef":
		return math.NaN()
	case "null":
		return 0
	case "bool":
		if a.Lit == "true" {
			return 1
		}
		return 0
	}
	return math.NaN()
}

var numStrings = []string{"", " ", "1", " 12 ", "-1.5", "+.5", "5.", "0x10", "1e3", "Infinity", "-Infinity", "abc", "1 2", "\t7\n", " 8\ufeff", "0.0", "-0"}

func checkCoerce(c coerceCase) harness.Outcome {
	o := harness.Outcome{Nontrivial: true, Classes: []string{"fn:" + c.Fn}}
	var parts []string
	var wantLog []string
	var nums []float64
	throws := false
	for i, a := range c.Args {
		parts = append(parts, a.render(i))
		o.Classes = append(o.Classes, "arg:"+a.Kind)
		if throws {
			continue
		}
		switch a.Kind {
		case "obj", "objstr":
			wantLog = append(wantLog, fmt.Sprint(i))
		case "throw":
			wantLog = append(wantLog, fmt.Sprint(i))
			throws = true
			continue
		}
		nums = append(nums, a.toNumber())
	}
	js := "__log=[]; var __r, __e='none'; try { __r = Math." + c.Fn + "(" + strings.Join(parts, ",") + ") } catch (e) { __e = e.name; __r = 0 } [__log.join(','), __e, __r]"
	r := harness.Run(getVM(), js)
	if r.Panicked || r.Err != nil {
		o.Fail = fmt.Sprintf("%s: %s", js, r.Describe())
		return o
	}
	obj := r.Value.Object()
	lg, _ := obj.Get("0")
	en, _ := obj.Get("1")
	rv, _ := obj.Get("2")
	gotLog, gotErr := lg.String(), en.String()
	call := "Math." + c.Fn + "(" + strings.Join(parts, ",") + ")"
	if gotLog != strings.Join(wantLog, ",") {
		o.Fail = fmt.Sprintf("%s converted arguments in order [%s], ES5 15.8.2 requires ToNumber of each argument left to right: [%s]", call, gotLog, strings.Join(wantLog, ","))
		return o
	}
	if throws {
		if gotErr != "RangeError" {
			o.Fail = fmt.Sprintf("%s: exception from valueOf not propagated (got %s)", call, gotErr)
		}
		return o
	}
	if gotErr != "none" {
		o.Fail = fmt.Sprintf("%s threw %s", call, gotErr)
		return o
	}
	want, kind := es5.MathModel(c.Fn, nums)
	got, _ := rv.ToFloat()
	if !rv.IsNumber() || (kind == es5.MathExact && !harness.SameNum(got, want)) || (kind == es5.MathApprox && !es5.MathClose(got, want, approxTol)) {
		o.Fail = fmt.Sprintf("%s = %s, want %s (arguments after ToNumber: %v)", call, harness.Repr(rv), harness.NumRepr(want), nums)
	}
	return o
}

var mathCoerce = harness.Register(&harness.Facet[coerceCase]{
	Name:     "math-coercion-order",
	Rule:     "rapid: function and 0..arity arguments (0–4 for max/min) each of kind number / numeric or junk string / object with logging valueOf / object with logging toString / undefined / null / boolean / object whose valueOf throws; oracle: conversion log is exactly the object arguments left to right up to the first throw, result is the model on the converted numbers; every case non-trivial; distinct by (function, argument kinds and values)",
	Quick:    20000,
	Thorough: 80000,
	Gen: func(t *rapid.T) coerceCase {
		fn := rapid.SampledFrom(es5.MathNames).Draw(t, "fn")
		max := es5.MathArity[fn]
		if max < 0 {
			max = 4
		}
		n := rapid.IntRange(0, max).Draw(t, "nargs")
		c := coerceCase{Fn: fn}
		for i := 0; i < n; i++ {
			k := rapid.SampledFrom([]string{"num", "num", "str", "obj", "obj", "obj", "objstr", "undef", "null", "bool", "throw"}).Draw(t, "kind")
			a := coArg{Kind: k}
			switch k {
			case "num", "obj":
				a.Lit = harness.NumLit(rapid.SampledFrom(specials).Draw(t, "v"))
			case "str", "objstr":
				a.Lit = rapid.SampledFrom(numStrings).Draw(t, "s")
			case "bool":
				a.Lit = rapid.SampledFrom([]string{"true", "false"}).Draw(t, "b")
			}
			c.Args = append(c.Args, a)
		}
		return c
	},
	Check: checkCoerce,
})

func TestMathCoercion(t *testing.T) { mathCoerce.Run(t) }

// ---- facet: isNaN / isFinite ----------------------------------------------------------------------

type predCase struct {
	Fn  string `json:"fn"`
	Arg coArg  `json:"arg"`
}

var predFacet = harness.Register(&harness.Facet[predCase]{
	Name:     "isnan-isfinite",
	Rule:     "rapid: isNaN/isFinite on numbers from the boundary pool, numeric and junk strings (with white space, hex, signs), booleans, null, undefined, objects with valueOf/toString (valueOf returning a primitive, or an object so that toString decides), Date objects (hint Number: the time value), Number/String wrappers, one-element arrays; oracle: ToNumber model (9.3, 9.3.1, 8.12.8); non-trivial = argument is not a number literal; distinct by (function, argument)",
	Quick:    10000,
	Thorough: 40000,
	Gen: func(t *rapid.T) predCase {
		c := predCase{Fn: rapid.SampledFrom([]string{"isNaN", "isFinite"}).Draw(t, "fn")}
		k := rapid.SampledFrom([]string{"num", "str", "str", "obj", "objstr", "undef", "null", "bool", "date", "date", "wrapnum", "wrapstr", "arr1", "objboth"}).Draw(t, "kind")
		c.Arg.Kind = k
		switch k {
		case "num", "obj", "wrapnum":
			c.Arg.Lit = harness.NumLit(gen.Double().Draw(t, "v"))
		case "date":
			c.Arg.Lit = harness.NumLit(rapid.OneOf(gen.Double(), rapid.SampledFrom([]float64{0, 1, -1, 86400000, 8.64e15, -8.64e15, 8.64e15 + 1, 1.5, -1.5, math.NaN(), 946684800000})).Draw(t, "t"))
		case "str", "objstr", "wrapstr", "arr1", "objboth":
			c.Arg.Lit = rapid.SampledFrom(numStrings).Draw(t, "s")
		case "bool":
			c.Arg.Lit = rapid.SampledFrom([]string{"true", "false"}).Draw(t, "b")
		}
		return c
	},
	Check: func(c predCase) harness.Outcome {
		o := harness.Outcome{Nontrivial: c.Arg.Kind != "num", Classes: []string{c.Fn, "arg:" + c.Arg.Kind}}
		n := c.Arg.toNumber()
		want := math.IsNaN(n)
		if c.Fn == "isFinite" {
			want = !math.IsNaN(n) && !math.IsInf(n, 0)
		}
		js := c.Fn + "(" + c.Arg.render(0) + ")"
		r := harness.Run(getVM(), js)
		if got := harness.Repr(r.Value); r.Panicked || r.Err != nil || got != fmt.Sprintf("boolean:%v", want) {
			o.Fail = fmt.Sprintf("%s = %s (%s), want %v (ToNumber gives %v)", js, got, r.Describe(), want, n)
		}
		return o
	},
})

func TestIsNaNIsFinite(t *testing.T) { predFacet.Run(t) }

// ---- facet: encodeURI / encodeURIComponent ---------------------------------------------------------

type uriCase struct {
	Fn    string   `json:"fn"`
	Units []uint16 `json:"units"`
}

func units16WithLone(max int) *rapid.Generator[[]uint16] {
	return rapid.Custom(func(t *rapid.T) []uint16 {
		u := gen.Units16(max).Draw(t, "s")
		if rapid.IntRange(0, 9).Draw(t, "lone") == 0 {
			// one or two surrogate code units at one position: high-high, low-high, low-low and (well-formed) high-low
			pos := rapid.IntRange(0, len(u)).Draw(t, "pos")
			ins := rapid.SliceOfN(rapid.SampledFrom([]uint16{0xD800, 0xD83D, 0xDBFF, 0xDC00, 0xDE00, 0xDFFF}), 1, 2).Draw(t, "sur")
			u = append(u[:pos:pos], append(ins, u[pos:]...)...)
		}
		return u
	})
}

func eq16(a, b []uint16) bool {
	if len(a) != len(b) {
		return false
	}
	for i := range a {
		if a[i] != b[i] {
			return false
		}
	}
	return true
}

func show16(u []uint16) string { return harness.JSString16(u) }

func fromCharCode(u []uint16) string {
	parts := make([]string, len(u))
	for i, c := range u {
		parts[i] = strconv.Itoa(int(c))
	}
	return "String.fromCharCode(" + strings.Join(parts, ",") + ")"
}

var encodeFacet = harness.Register(&harness.Facet[uriCase]{
	Name:     "uri-encode",
	Rule:     "rapid: encodeURI/encodeURIComponent on UTF-16 strings ≤12 units over ASCII (all reserved/unreserved/other punctuation, controls), Latin-1, BMP and astral alphabets, 10% with one or two surrogate code units inserted at one position (built with String.fromCharCode while literals cannot hold them); oracle: Encode of 15.1.3 (URIError on lone surrogates) and the law decode(encode(s)) = s; non-trivial = the string has a character outside the function's unescaped set; distinct by (function, string)",
	Quick:    25000,
	Thorough: 150000,
	Gen: func(t *rapid.T) uriCase {
		return uriCase{Fn: rapid.SampledFrom([]string{"encodeURI", "encodeURIComponent"}).Draw(t, "fn"), Units: units16WithLone(12).Draw(t, "units")}
	},
	Check: func(c uriCase) harness.Outcome {
		set := es5.EncodeURISet
		dec := "decodeURI"
		if c.Fn == "encodeURIComponent" {
			set = es5.EncodeURICSet
			dec = "decodeURIComponent"
		}
		o := harness.Outcome{Classes: []string{c.Fn}}
		arg := show16(c.Units)
		if gen.HasLoneSurrogate(c.Units) {
			o.Classes = append(o.Classes, "lone-surrogate")
			if harness.Known("C13-LONE-SURROGATE") {
				// representation limit: a lone surrogate written in source text is stored as U+FFFD; the
				// string is built with String.fromCharCode instead, which keeps the code units
				o.Excluded = []string{"C13-LONE-SURROGATE"}
				arg = fromCharCode(c.Units)
			}
		}
		want, ok := es5.URIEncode(c.Units, set)
		for _, ch := range want {
			if ch == '%' {
				o.Nontrivial = true
			}
		}
		if !ok {
			o.Nontrivial = true
		}
		js := c.Fn + "(" + arg + ")"
		got, bad := evalStr(js)
		switch {
		case !ok:
			if bad != "throws:URIError" {
				o.Fail = fmt.Sprintf("%s: want URIError, got %s %s", js, bad, show16(got))
			}
			return o
		case bad != "":
			o.Fail = fmt.Sprintf("%s: %s, want %s", js, bad, show16(want))
			return o
		case !eq16(got, want):
			o.Fail = fmt.Sprintf("%s = %s, want %s", js, show16(got), show16(want))
			return o
		}
		// inverse law (for encodeURI: reserved characters and # were never escaped, so it holds too)
		back, bad := evalStr(dec + "(" + c.Fn + "(" + arg + "))")
		if bad != "" || !eq16(back, c.Units) {
			o.Fail = fmt.Sprintf("%s(%s(%s)) = %s %s, want the original", dec, c.Fn, show16(c.Units), show16(back), bad)
		}
		return o
	},
})

func TestURIEncode(t *testing.T) { encodeFacet.Run(t) }

// ---- facet: decodeURI / decodeURIComponent ----------------------------------------------------------

type decodeCase struct {
	Fn   string `json:"fn"`
	Text string `json:"text"` // ASCII percent-encoded text (possibly mutated) plus raw non-ASCII units
	Mut  string `json:"mut"`
}

func genEncoded(t *rapid.T) (string, string) {
	// build a percent-encoded text from random characters: each either raw or escaped as UTF-8
	u := gen.Units16(8).Draw(t, "plain")
	s, _ := harness.FromUTF16(u)
	var b strings.Builder
	for _, r := range s {
		raw := rapid.IntRange(0, 3).Draw(t, "raw") == 0
		if raw && r != '%' {
			b.WriteRune(r)
			continue
		}
		lower := rapid.Bool().Draw(t, "lower")
		for _, by := range []byte(string(r)) {
			if lower {
				fmt.Fprintf(&b, "%%%02x", by)
			} else {
				fmt.Fprintf(&b, "%%%02X", by)
			}
		}
	}
	text := b.String()
	mut := rapid.SampledFrom([]string{"none", "none", "truncate", "badhex", "dropcont", "overlong", "surrogate", "toobig", "lonecont", "insertpct", "fivebyte"}).Draw(t, "mut")
	pos := 0
	if len(text) > 0 {
		pos = rapid.IntRange(0, len(text)-1).Draw(t, "pos")
		for pos > 0 && text[pos]&0xC0 == 0x80 { // stay on a UTF-8 boundary
			pos--
		}
	}
	switch mut {
	case "truncate":
		text = text[:pos]
	case "badhex":
		if i := strings.IndexByte(text[pos:], '%'); i >= 0 && pos+i+2 < len(text) {
			p := pos + i + 1 + rapid.IntRange(0, 1).Draw(t, "which")
			text = text[:p] + rapid.SampledFrom([]string{"G", "g", " ", "%", "x"}).Draw(t, "junk") + text[p+1:]
		}
	case "dropcont":
		// remove one continuation escape of a multi-byte sequence
		for i := pos; i+5 < len(text); i++ {
			if text[i] == '%' && text[i+3] == '%' && (text[i+4] == '8' || text[i+4] == '9' || text[i+4] == 'A' || text[i+4] == 'B' || text[i+4] == 'a' || text[i+4] == 'b') {
				text = text[:i+3] + text[i+6:]
				break
			}
		}
	case "overlong":
		text = text[:pos] + rapid.SampledFrom([]string{"%C0%80", "%C1%BF", "%E0%80%80", "%E0%9F%BF", "%F0%80%80%80", "%F0%8F%BF%BF", "%c0%af"}).Draw(t, "ol") + text[pos:]
	case "surrogate":
		text = text[:pos] + rapid.SampledFrom([]string{"%ED%A0%80", "%ED%BF%BF", "%ED%B0%80", "%ed%a0%80%ed%b0%80"}).Draw(t, "sg") + text[pos:]
	case "toobig":
		text = text[:pos] + rapid.SampledFrom([]string{"%F4%90%80%80", "%F7%BF%BF%BF", "%F5%80%80%80"}).Draw(t, "big") + text[pos:]
	case "lonecont":
		text = text[:pos] + rapid.SampledFrom([]string{"%80", "%BF", "%9f"}).Draw(t, "lc") + text[pos:]
	case "insertpct":
		text = text[:pos] + "%" + text[pos:]
	case "fivebyte":
		text = text[:pos] + rapid.SampledFrom([]string{"%F8%88%80%80%80", "%FC%84%80%80%80%80", "%FE", "%FF"}).Draw(t, "fb") + text[pos:]
	}
	return text, mut
}

var decodeFacet = harness.Register(&harness.Facet[decodeCase]{
	Name:     "uri-decode",
	Rule:     "rapid: decodeURI/decodeURIComponent on percent-encoded texts built from random strings (each character raw or escaped as UTF-8, random hex case, reserved characters included) and one mutation of them (truncation, bad hex digit, dropped continuation, over-long form, encoded surrogate, value above U+10FFFF, lone continuation byte, stray %, 5/6-byte lead); oracle: Decode of 15.1.3 with the function's reserved set, URIError conditions; non-trivial = text contains a multi-byte escape, a reserved escape or a mutation; distinct by (function, text)",
	Quick:    25000,
	Thorough: 150000,
	Gen: func(t *rapid.T) decodeCase {
		fn := rapid.SampledFrom([]string{"decodeURI", "decodeURIComponent"}).Draw(t, "fn")
		text, mut := genEncoded(t)
		return decodeCase{Fn: fn, Text: text, Mut: mut}
	},
	Check: func(c decodeCase) harness.Outcome {
		reserved := es5.DecodeURISet
		if c.Fn == "decodeURIComponent" {
			reserved = es5.DecodeURICSet
		}
		in := harness.UTF16(c.Text)
		want, ok := es5.URIDecode(in, reserved)
		o := harness.Outcome{Classes: []string{c.Fn, "mut:" + c.Mut}}
		if !ok {
			o.Classes = append(o.Classes, "expect-URIError")
		}
		o.Nontrivial = c.Mut != "none" || strings.Contains(c.Text, "%C") || strings.Contains(c.Text, "%c") || strings.Contains(c.Text, "%E") || strings.Contains(c.Text, "%e") || strings.Contains(c.Text, "%2") || strings.Contains(c.Text, "%3")
		js := c.Fn + "(" + show16(in) + ")"
		got, bad := evalStr(js)
		switch {
		case !ok:
			if bad != "throws:URIError" {
				o.Fail = fmt.Sprintf("%s: malformed input must throw URIError (15.1.3), got %s %s", js, bad, show16(got))
			}
		case bad != "":
			o.Fail = fmt.Sprintf("%s: %s, want %s", js, bad, show16(want))
		case !eq16(got, want):
			o.Fail = fmt.Sprintf("%s = %s, want %s", js, show16(got), show16(want))
		}
		return o
	},
})

func TestURIDecode(t *testing.T) { decodeFacet.Run(t) }

// ---- facet: escape / unescape ------------------------------------------------------------------------

type escCase struct {
	Fn    string   `json:"fn"`
	Units []uint16 `json:"units"`
}

func genEscText(t *rapid.T) []uint16 {
	// text for unescape: raw units mixed with %XX / %uXXXX forms and near misses
	n := rapid.IntRange(0, 8).Draw(t, "n")
	var out []uint16
	for i := 0; i < n; i++ {
		switch rapid.IntRange(0, 7).Draw(t, "k") {
		case 0, 1:
			out = append(out, gen.Units16(2).Draw(t, "raw")...)
		case 2, 3:
			v := rapid.SampledFrom([]string{"%41", "%e9", "%E9", "%00", "%ff", "%7F", "%20", "%25"}).Draw(t, "xx")
			out = append(out, harness.UTF16(v)...)
		case 4, 5:
			v := rapid.SampledFrom([]string{"%u0041", "%u00e9", "%u0100", "%uFFFF", "%u2028", "%u20AC", "%uabcd", "%uFFFD"}).Draw(t, "uxxxx")
			out = append(out, harness.UTF16(v)...)
		default:
			v := rapid.SampledFrom([]string{"%", "%4", "%u", "%u00", "%u004", "%uZZZZ", "%G1", "%1G", "%%41", "%U0041", "%u 041", "%+1"}).Draw(t, "miss")
			out = append(out, harness.UTF16(v)...)
		}
	}
	return out
}

var escFacet = harness.Register(&harness.Facet[escCase]{
	Name:     "escape-unescape",
	Rule:     "rapid: escape on UTF-16 strings over all four alphabets, unescape on texts mixing raw characters with %XX, %uXXXX (both hex cases) and near-miss forms; oracle: B.2.1 / B.2.2 transcribed over code units and the law unescape(escape(s)) = s; expected results containing a lone surrogate are compared by length only (representation limit, counted); non-trivial = input has a character outside escape's unescaped set or a % form; distinct by (function, string)",
	Quick:    25000,
	Thorough: 150000,
	Gen: func(t *rapid.T) escCase {
		if rapid.Bool().Draw(t, "esc") {
			return escCase{Fn: "escape", Units: gen.Units16(10).Draw(t, "s")}
		}
		return escCase{Fn: "unescape", Units: genEscText(t)}
	},
	Check: func(c escCase) harness.Outcome {
		o := harness.Outcome{Classes: []string{c.Fn}}
		var want []uint16
		if c.Fn == "escape" {
			want = es5.Escape(c.Units)
		} else {
			want = es5.Unescape(c.Units)
		}
		for _, ch := range c.Units {
			if ch == '%' || (c.Fn == "escape" && !eq16(want, c.Units)) {
				o.Nontrivial = true
			}
		}
		if !gen.AllASCII(c.Units) {
			o.Classes = append(o.Classes, "non-ascii-input")
		}
		js := c.Fn + "(" + show16(c.Units) + ")"
		got, bad := evalStr(js)
		if bad != "" {
			o.Fail = fmt.Sprintf("%s: %s", js, bad)
			return o
		}
		if gen.HasLoneSurrogate(want) {
			o.Excluded = append(o.Excluded, "C13-LONE-SURROGATE")
			if !harness.Known("C13-LONE-SURROGATE") && !eq16(got, want) {
				o.Fail = fmt.Sprintf("%s = %s, want %s", js, show16(got), show16(want))
			}
			return o
		}
		if !eq16(got, want) {
			o.Fail = fmt.Sprintf("%s = %s, B.2 gives %s", js, show16(got), show16(want))
			return o
		}
		if c.Fn == "escape" {
			back, bad := evalStr("unescape(escape(" + show16(c.Units) + "))")
			if bad != "" || !eq16(back, c.Units) {
				o.Fail = fmt.Sprintf("unescape(escape(%s)) = %s %s", show16(c.Units), show16(back), bad)
			}
		}
		return o
	},
})

func TestEscapeUnescape(t *testing.T) { escFacet.Run(t) }
