package c02

import (
	"fmt"
	"os"
	"path/filepath"
	"sort"
	"strings"
	"sync"
	"testing"

	"github.com/robertkrimen/otto"
	"pgregory.net/rapid"

	"verif/lib/harness"
)

// ---- discovery of the built-in surface ------------------------------------------------------------------

// fnEntry is one native function reachable from the global object of a fresh runtime.
type fnEntry struct {
	Path     string `json:"path"`           // ES5 expression denoting the function
	Owner    string `json:"owner"`          // expression denoting the object that holds it
	Name     string `json:"name"`           // property name on the owner
	Accessor string `json:"acc,omitempty"`  // "get" / "set" when it is an accessor function
	Home     string `json:"home,omitempty"` // receiver family the function is written for
}

// The walk is breadth first over own property names (sorted), [[Prototype]] links and accessor
// functions; an object or function is visited once, under the first (shortest) path that reaches it.
const discoverJS = `(function(){
  var seen=[], out=[], queue=[[this,"this"]], later=[], ident=/^[A-Za-z_$][A-Za-z0-9_$]*$/;
  function id(o){ var i=seen.indexOf(o); if(i>=0) return i; seen.push(o); return -1 }
  function isObj(v){ return v!==null && (typeof v==="object" || typeof v==="function") }
  id(this);
  while(queue.length || later.length){
    if(!queue.length){ var l=later.shift(); if(id(l[0])<0) queue.push(l); continue }
    var it=queue.shift(), o=it[0], p=it[1];
    var names=Object.getOwnPropertyNames(o).sort();
    for(var i=0;i<names.length;i++){
      var n=names[i], d=Object.getOwnPropertyDescriptor(o,n), q;
      if(!d) continue;
      if(p==="this") q = ident.test(n) ? n : 'this['+JSON.stringify(n)+']';
      else q = ident.test(n) ? p+"."+n : p+'['+JSON.stringify(n)+']';
      if("value" in d){
        var v=d.value;
        if(isObj(v) && id(v)<0){
          if(typeof v==="function") out.push([q,p,n,""].join("\t"));
          queue.push([v,q]);
        }
      } else {
        var acc='Object.getOwnPropertyDescriptor('+p+','+JSON.stringify(n)+')';
        if(typeof d.get==="function" && id(d.get)<0){ out.push([acc+".get",p,n,"get"].join("\t")); queue.push([d.get,acc+".get"]) }
        if(typeof d.set==="function" && id(d.set)<0){ out.push([acc+".set",p,n,"set"].join("\t")); queue.push([d.set,acc+".set"]) }
      }
    }
    var pr=Object.getPrototypeOf(o);
    if(isObj(pr) && seen.indexOf(pr)<0) later.push([pr,"Object.getPrototypeOf("+p+")"]);
  }
  return out.join("\n");
})()`

var (
	surfaceOnce sync.Once
	surface     []fnEntry
	surfaceErr  string
)

func homeOf(path string) string {
	switch {
	case strings.HasPrefix(path, "String.prototype."):
		return "string"
	case strings.HasPrefix(path, "Number.prototype."):
		return "number"
	case strings.HasPrefix(path, "Boolean.prototype."):
		return "boolean"
	case strings.HasPrefix(path, "Array.prototype."):
		return "array"
	case strings.HasPrefix(path, "Function.prototype."):
		return "function"
	case strings.HasPrefix(path, "Date.prototype."):
		return "date"
	case strings.HasPrefix(path, "RegExp.prototype."):
		return "regexp"
	case strings.Contains(path, "Error.prototype."):
		return "error"
	case strings.HasPrefix(path, "Object.prototype."):
		return "object"
	}
	return "" // statics and globals: the receiver is ignored by design
}

func discover() ([]fnEntry, string) {
	surfaceOnce.Do(func() {
		vm := newVM(200, 50_000_000)
		res := harness.Run(vm, discoverJS)
		if res.Panicked || res.Err != nil {
			surfaceErr = "discovery walk failed: " + res.Describe()
			return
		}
		s, _ := res.Value.ToString()
		for _, line := range strings.Split(s, "\n") {
			f := strings.Split(line, "\t")
			if len(f) != 4 {
				continue
			}
			surface = append(surface, fnEntry{Path: f[0], Owner: f[1], Name: f[2], Accessor: f[3], Home: homeOf(f[0])})
		}
		sort.SliceStable(surface, func(i, j int) bool { return surface[i].Path < surface[j].Path })
	})
	return surface, surfaceErr
}

// ---- the case ----------------------------------------------------------------------------------------

// skipFunctions: functions left out by name because their *legitimate* behaviour is not bounded;
// every entry states why. (Nothing is left out because it crashes: crashes are findings.)
var skipFunctions = map[string]string{}

type builtinCase struct {
	Fn      fnEntry `json:"fn"`
	Group   int     `json:"group"`   // receiver group (see kinds)
	Tuples  int     `json:"tuples"`  // argument tuples per receiver
	Seed    int     `json:"seed"`    // seed of the rapid draw of the argument tuples
	Reenter bool    `json:"reenter"` // callbacks that re-enter the function under test
	Only    int     `json:"only"`    // -1: the whole batch; k: only sub-call k, on a fresh runtime
}

// callRecord is one executed API call, reported back for the evidence counters.
type callRecord struct {
	Sub  int    `json:"s"`
	Recv string `json:"r"`
	Args string `json:"a"`
	Way  string `json:"w"`
	Out  string `json:"o"` // value / throws:<Name> / budget / panic / excluded:<id>
	NT   bool   `json:"n"`
}

var ways = []string{"script-call", "script-new", "Value.Call", "Otto.Call", "Object.Call"}

type argPlan struct {
	Kinds   []int // indices into kindList()
	Reenter int   // -1 none; i: argument i is replaced by a re-entering callback
}

func planGen(nKinds, nRecv, tuples int, reenter bool) *rapid.Generator[[][]argPlan] {
	return rapid.Custom(func(t *rapid.T) [][]argPlan {
		out := make([][]argPlan, nRecv)
		for r := range out {
			out[r] = make([]argPlan, tuples)
			for k := range out[r] {
				n := rapid.IntRange(0, 3).Draw(t, "argc")
				ap := argPlan{Reenter: -1}
				for i := 0; i < n; i++ {
					ap.Kinds = append(ap.Kinds, rapid.IntRange(0, nKinds-1).Draw(t, "kind"))
				}
				if reenter && n > 0 && rapid.IntRange(0, 3).Draw(t, "re") == 0 {
					ap.Reenter = rapid.IntRange(0, n-1).Draw(t, "repos")
				}
				out[r][k] = ap
			}
		}
		return out
	})
}

// reentryExpr is a callback that calls the function under test again on its own receiver and on its
// arguments (depth bounded by a counter) and mutates what it is handed.
func reentryExpr(path string) string {
	return `(function(){var d=0,F=(` + path + `);return function(a,b,c){ if(d++>3) return d; var r; try{ r=F.call(this,c,b,a) }catch(e){ r=e } try{ if(c&&typeof c==="object"){ c.length=0; delete c[0] } }catch(e){} try{ F.apply(a,[this,F]) }catch(e){} d--; return r }})()`
}

// devSkip: development aid (C02_DEV_SKIP="1,2,5-9"): sub-calls left out when bisecting a batch history.
var devSkip = func() map[int]bool {
	m := map[int]bool{}
	for _, f := range strings.Split(os.Getenv("C02_DEV_SKIP"), ",") {
		var a, b int
		if n, _ := fmt.Sscanf(f, "%d-%d", &a, &b); n == 2 {
			for i := a; i <= b; i++ {
				m[i] = true
			}
		} else if n, _ := fmt.Sscanf(f, "%d", &a); n == 1 {
			m[a] = true
		}
	}
	return m
}()

func runBuiltin(c builtinCase, jr *journal) (res jobResult) {
	ks := kindList()
	var recv []int
	for i, k := range ks {
		if k.Group == c.Group {
			recv = append(recv, i)
		}
	}
	plan := planGen(len(ks), len(recv), c.Tuples, c.Reenter).Example(c.Seed)
	var vm *otto.Otto
	fresh := func() {
		vm = newVM(64, 20000)
		res.Panics = append(res.Panics, prepareVM(vm)...)
	}
	fresh()
	sub := -1
	for ri, r := range recv {
		for ti, ap := range plan[ri] {
			argExprs := make([]string, len(ap.Kinds))
			argNames := make([]string, len(ap.Kinds))
			hostileArg := false
			for i, ki := range ap.Kinds {
				argExprs[i] = ks[ki].Expr
				argNames[i] = ks[ki].Name
				hostileArg = hostileArg || ks[ki].Hostile
				if ap.Reenter == i {
					argExprs[i] = reentryExpr(c.Fn.Path)
					argNames[i] = "reentrant-callback"
					hostileArg = true
				}
			}
			nt := hostileArg || (c.Fn.Home != "" && ks[r].Home != c.Fn.Home) || (c.Fn.Home == "" && ks[r].Hostile && hostileArg)
			for w := range ways {
				sub++
				if c.Only >= 0 && sub != c.Only {
					continue
				}
				if devSkip[sub] {
					continue
				}
				if w == 4 && ri != 0 {
					continue // Object.Call uses the owner as receiver: once per group is enough
				}
				rec := callRecord{Sub: sub, Recv: ks[r].Name, Args: strings.Join(argNames, ","), Way: ways[w], NT: nt}
				if w == 4 {
					rec.Recv = "owner"
				}
				if id := excludedCall(c.Fn, ks[r], ap, ks, w); id != "" {
					rec.Out = "excluded:" + id
					res.Calls = append(res.Calls, rec)
					continue
				}
				jr.mark(sub)
				isolated := exportsIntoBridgedContainer(c.Fn, ks[r], ap, ks, w)
				if c.Only >= 0 || isolated {
					fresh()
				}
				if isolated {
					res.Classes = append(res.Classes, "history-reset-for-C02-EXPORT-CYCLE")
				}
				harness.Arm(vm, 20000)
				where := fmt.Sprintf("#%d %s: (%s) this=%s(%s) args=[%s]", sub, ways[w], c.Fn.Path, ks[r].Name, ks[r].Expr, strings.Join(argExprs, ", "))
				out, esc := oneCall(vm, c.Fn, ks[r], ap, ks, argExprs, w, ti)
				rec.Out = out
				res.Calls = append(res.Calls, rec)
				if esc != "" {
					res.Panics = append(res.Panics, escaped{Where: where, Text: esc, Sub: sub})
					fresh()
				}
			}
		}
	}
	return res
}

func describeOutcome(err error, budget bool) string {
	switch {
	case budget:
		return "budget"
	case err != nil:
		n := harness.ErrName(err)
		if len(n) > 24 || strings.ContainsAny(n, " \n") {
			n = "other"
		}
		return "throws:" + n
	}
	return "value"
}

// oneCall performs one call of the function, one of five ways. Returns the outcome label and the
// text of a Go panic that crossed the API ("" = none).
func oneCall(vm *otto.Otto, fn fnEntry, recv kind, ap argPlan, ks []kind, argExprs []string, way, ti int) (string, string) {
	argsJoined := strings.Join(argExprs, ", ")
	var err error
	var budget bool
	run := func(f func()) string {
		p, b, text := guard(f)
		budget = budget || b
		if p {
			return text
		}
		return ""
	}
	// evaluating the receiver / argument expressions is script execution as well
	value := func(expr string) (v otto.Value, esc string) {
		esc = run(func() { v, _ = vm.Run("(" + expr + ")") })
		return
	}
	goArgs := func(native bool) ([]interface{}, string) {
		out := make([]interface{}, len(argExprs))
		for i, e := range argExprs {
			if native && ap.Reenter != i && ks[ap.Kinds[i]].Go != nil {
				out[i] = ks[ap.Kinds[i]].Go
				continue
			}
			v, esc := value(e)
			if esc != "" {
				return nil, esc
			}
			out[i] = v
		}
		return out, ""
	}
	switch way {
	case 0:
		src := "(" + fn.Path + ").call(" + recv.Expr
		if argsJoined != "" {
			src += ", " + argsJoined
		}
		src += ")"
		if ti%2 == 1 {
			src = "try { " + src + " } catch (e) { typeof e }"
		}
		if esc := run(func() { _, err = vm.Run(src) }); esc != "" {
			return "panic", esc
		}
	case 1:
		src := "new (" + fn.Path + ")(" + argsJoined + ")"
		if esc := run(func() { _, err = vm.Run(src) }); esc != "" {
			return "panic", esc
		}
	case 2:
		f, esc := value(fn.Path)
		if esc != "" {
			return "panic", esc
		}
		this, esc := value(recv.Expr)
		if esc != "" {
			return "panic", esc
		}
		args, esc := goArgs(false)
		if esc != "" {
			return "panic", esc
		}
		if esc := run(func() { _, err = f.Call(this, args...) }); esc != "" {
			return "panic", esc
		}
	case 3:
		var this interface{}
		if recv.Go != nil {
			this = recv.Go
		} else if recv.Name != "undefined" { // nil selects Otto.Call's "no this" path
			v, esc := value(recv.Expr)
			if esc != "" {
				return "panic", esc
			}
			this = v
		}
		args, esc := goArgs(true)
		if esc != "" {
			return "panic", esc
		}
		src := fn.Path
		if ti%2 == 1 {
			src = "new " + src
		}
		if esc := run(func() { _, err = vm.Call(src, this, args...) }); esc != "" {
			return "panic", esc
		}
	case 4:
		var owner *otto.Object
		if esc := run(func() { owner, err = vm.Object("(" + fn.Owner + ")") }); esc != "" {
			return "panic", esc
		}
		if owner == nil {
			return "throws:no-owner", ""
		}
		args, esc := goArgs(ti%2 == 1)
		if esc != "" {
			return "panic", esc
		}
		switch fn.Accessor {
		case "get":
			if esc := run(func() { _, err = owner.Get(fn.Name) }); esc != "" {
				return "panic", esc
			}
		case "set":
			var a interface{}
			if len(args) > 0 {
				a = args[0]
			}
			if esc := run(func() { err = owner.Set(fn.Name, a) }); esc != "" {
				return "panic", esc
			}
		default:
			if esc := run(func() { _, err = owner.Call(fn.Name, args...) }); esc != "" {
				return "panic", esc
			}
		}
	}
	return describeOutcome(err, budget), ""
}

// ---- parent side: the enumeration ----------------------------------------------------------------------

func groupsOf(ks []kind) []int {
	seen := map[int]bool{}
	var out []int
	for _, k := range ks {
		if !seen[k.Group] {
			seen[k.Group] = true
			out = append(out, k.Group)
		}
	}
	sort.Ints(out)
	return out
}

const callsFacet = "builtin-surface/calls"

func checkBuiltin(c builtinCase) harness.Outcome {
	out := harness.Outcome{}
	jpath := filepath.Join(os.TempDir(), fmt.Sprintf("c02-journal-%d-%x", os.Getpid(), harness.Hash64(fmt.Sprint(c))))
	defer os.Remove(jpath)
	res, fatal := dispatch(job{Kind: "builtin", Builtin: &c, Journal: jpath})
	if fatal != "" {
		// which sub-call was in flight? re-run it alone on a fresh runtime to say whether it is self-contained
		k := readJournal(jpath)
		msg := fmt.Sprintf("calling %s: %s", c.Fn.Path, oneLine(fatal, 700))
		if c.Only < 0 && k >= 0 {
			single := c
			single.Only = k
			sres, sfatal := dispatch(job{Kind: "builtin", Builtin: &single})
			desc := describeSub(single)
			if sfatal != "" {
				msg = fmt.Sprintf("%s\nthe call in flight was %s; it reproduces alone on a fresh runtime (replay with \"only\":%d): %s", msg, desc, k, oneLine(sfatal, 300))
			} else {
				_ = sres
				msg = fmt.Sprintf("%s\nthe call in flight was %s; alone on a fresh runtime it returns, so earlier calls of the batch matter", msg, desc)
			}
		}
		triageFatal(msg)
		out.Fail = msg + "\n(property C02: the call must return a value or an error; the process must survive)"
		out.Nontrivial = true
		return out
	}
	if res.Note != "" && len(res.Calls) == 0 && len(res.Panics) == 0 {
		out.Fail = "worker: " + res.Note
		return out
	}
	for _, r := range res.Calls {
		if strings.HasPrefix(r.Out, "excluded:") {
			id := strings.TrimPrefix(r.Out, "excluded:")
			out.Excluded = append(out.Excluded, id)
			harness.CountExcluded(callsFacet, id)
			continue
		}
		out.Nontrivial = out.Nontrivial || r.NT
		cls := []string{"way:" + r.Way, "outcome:" + r.Out}
		if r.NT {
			cls = append(cls, "receiver-foreign-or-hostile-arg")
		}
		harness.Count(callsFacet, r.NT, c.Fn.Path+"|"+r.Recv+"|"+r.Args+"|"+r.Way, cls...)
	}
	out.Classes = append(out.Classes, "group:"+fmt.Sprint(c.Group))
	out.Classes = append(out.Classes, res.Classes...)
	if c.Fn.Accessor != "" {
		out.Classes = append(out.Classes, "accessor-function")
	}
	if len(res.Panics) > 0 {
		p := res.Panics[0]
		out.Fail = fmt.Sprintf("a Go panic crossed the public API: %s\n  in %s\n  (%d escaping panics in this batch of %d calls; replay one alone with \"only\":%d)\n(property C02: no Go runtime panic escapes Run/Call/Get/Set/Value.Call)", p.Text, p.Where, len(res.Panics), len(res.Calls), p.Sub)
		if os.Getenv("C02_TRIAGE") != "" {
			triage(res.Panics)
		}
	}
	return out
}

func describeSub(c builtinCase) string {
	// recompute the descriptor of sub-call c.Only without executing anything
	ks := kindList()
	var recv []int
	for i, k := range ks {
		if k.Group == c.Group {
			recv = append(recv, i)
		}
	}
	plan := planGen(len(ks), len(recv), c.Tuples, c.Reenter).Example(c.Seed)
	sub := -1
	for ri, r := range recv {
		for _, ap := range plan[ri] {
			for w := range ways {
				sub++
				if sub == c.Only {
					var names []string
					for i, ki := range ap.Kinds {
						if ap.Reenter == i {
							names = append(names, "reentrant-callback")
						} else {
							names = append(names, ks[ki].Expr)
						}
					}
					return fmt.Sprintf("#%d %s (%s) this=%s args=[%s]", sub, ways[w], c.Fn.Path, ks[r].Expr, strings.Join(names, ", "))
				}
			}
		}
	}
	return fmt.Sprintf("#%d", c.Only)
}

var triageMu sync.Mutex

func triageFatal(msg string) {
	if os.Getenv("C02_TRIAGE") == "" {
		return
	}
	triage([]escaped{{Where: "FATAL", Text: msg}})
}

func triage(ps []escaped) {
	triageMu.Lock()
	defer triageMu.Unlock()
	f, err := os.OpenFile(os.Getenv("C02_TRIAGE"), os.O_APPEND|os.O_CREATE|os.O_WRONLY, 0o644)
	if err != nil {
		return
	}
	defer f.Close()
	for _, p := range ps {
		fmt.Fprintf(f, "%s\t%s\n", oneLine(p.Text, 400), oneLine(p.Where, 500))
	}
}

var builtinFacet = harness.Register(&harness.Facet[builtinCase]{
	Name:  "builtin-surface",
	Rule:  "enumeration × rapid: every native function reachable from the global object of a fresh runtime (discovered by a breadth-first walk over own property names, [[Prototype]] links and accessor get/set functions — not a hard-coded list) × every receiver kind (primitives, boundary numbers, ASCII/astral/invalid-UTF-8 strings, plain/sparse/cyclic/frozen arrays and objects, array-likes with odd lengths ≤ 1e4, functions, bound functions, Date/invalid Date, RegExp, Error, wrapper objects, arguments objects, objects whose valueOf/toString return each kind, throw, recurse or are absent, throwing getters, null-prototype objects, the global object, Math, JSON, the built-in prototypes, bridged Go maps/slices/structs/functions) × N argument tuples of 0–3 values of the same kinds (drawn by rapid from the case's seed; thorough adds callbacks that re-enter the function) × five ways (script f.call, script new, Value.Call, Otto.Call incl. 'new ' form and native Go arguments, Object.Call / Object.Get / Object.Set on the owner). One case = one function × one receiver group on one runtime (stack depth limit 64, poll budget) inside a worker subprocess. Oracle: every call returns a value or an error; no Go panic crosses the API; the worker neither dies nor stops answering. The per-call counters are in facet builtin-surface/calls: non-trivial = the receiver is not of the family the method is written for, or an argument is a hostile object; distinct by (function path, receiver kind, argument kinds, way)",
	Check: checkBuiltin,
})

func builtinCases() ([]builtinCase, string) {
	fns, errText := discover()
	if errText != "" {
		return nil, errText
	}
	tuples := harness.N(2, 5) // quick: 253 kinds × 2 tuples; thorough: 16 shards × 5 tuples with different seeds
	var cases []builtinCase
	for fi, fn := range fns {
		if _, skip := skipFunctions[fn.Path]; skip {
			continue
		}
		for _, g := range groupsOf(kindList()) {
			seed := int(harness.Seed()*1_000_003+int64(harness.Shard())*7919) + fi*131 + g
			cases = append(cases, builtinCase{Fn: fn, Group: g, Tuples: tuples, Seed: seed, Reenter: harness.Thorough(), Only: -1})
		}
	}
	return cases, ""
}

func TestBuiltinSurface(t *testing.T) {
	harness.SetRule(callsFacet, "the individual API calls made by facet builtin-surface (see there)")
	cases, errText := builtinCases()
	if errText != "" {
		t.Fatalf("HARNESS-ERROR %s", errText)
	}
	fns, _ := discover()
	harness.SetExtra("builtin_functions_discovered", len(fns))
	harness.SetExtra("receiver_kinds", len(kindList()))
	if len(fns) < 200 {
		t.Fatalf("HARNESS-ERROR only %d native functions discovered (the pinned tree has 209): the walk is broken", len(fns))
	}
	runParallel(t, builtinFacet, cases)
}

// runParallel pre-computes the outcomes of an enumerated case list with several workers, then feeds
// them to Facet.Each in order (Check stays a pure function of the case: the cache only saves time).
func runParallel(t *testing.T, f *harness.Facet[builtinCase], cases []builtinCase) {
	par := 4
	if harness.Thorough() {
		par = 1
	}
	if par == 1 {
		f.Each(t, cases)
		return
	}
	outs := make([]harness.Outcome, len(cases))
	var wg sync.WaitGroup
	next := make(chan int, len(cases))
	for i := range cases {
		next <- i
	}
	close(next)
	for w := 0; w < par; w++ {
		wg.Add(1)
		go func() {
			defer wg.Done()
			for i := range next {
				outs[i] = checkBuiltin(cases[i])
			}
		}()
	}
	wg.Wait()
	idx := map[string]int{}
	for i, c := range cases {
		idx[fmt.Sprint(c)] = i
	}
	orig := f.Check
	f.Check = func(c builtinCase) harness.Outcome {
		if i, ok := idx[fmt.Sprint(c)]; ok {
			return outs[i]
		}
		return orig(c)
	}
	defer func() { f.Check = orig }()
	f.Each(t, cases)
}
