package c02

import (
	"fmt"
	"os"
	"strings"
	"testing"
	"time"

	"github.com/robertkrimen/otto/parser"
)

func TestDevList(t *testing.T) {
	if os.Getenv("C02_DEV") != "list" {
		t.Skip()
	}
	fns, e := discover()
	fmt.Println(e, len(fns))
	for _, f := range fns {
		fmt.Printf("%s | %s | %s | %s\n", f.Path, f.Owner, f.Name, f.Accessor)
	}
}

func TestDevParseScale(t *testing.T) {
	if os.Getenv("C02_DEV") != "scale" {
		t.Skip()
	}
	for _, n := range []int{100, 200, 400, 800, 1600} {
		src := strings.Repeat(os.Getenv("C02_OPEN"), n) + strings.Repeat(os.Getenv("C02_CLOSE"), n-1)
		s := time.Now()
		_, err := parser.ParseFile(nil, "", src, 0)
		e := ""
		if err != nil {
			e = err.Error()
			if len(e) > 80 {
				e = e[:80]
			}
		}
		fmt.Println(n, time.Since(s), e)
	}
}
