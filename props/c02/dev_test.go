package c02

import (
	"fmt"
	"os"
	"testing"
)

func TestDevList(t *testing.T) {
	if os.Getenv("C02_DEV") == "" {
		t.Skip()
	}
	fns, e := discover()
	fmt.Println(e, len(fns))
	for _, f := range fns {
		fmt.Printf("%s | %s | %s | %s\n", f.Path, f.Owner, f.Name, f.Accessor)
	}
}
