package c02

import (
	"fmt"
	"runtime/debug"
	"sort"
	"strings"
	"testing"

	"github.com/robertkrimen/otto"
	"pgregory.net/rapid"

	"verif/lib/harness"
)

// hops: how function f_i reaches f_{i+1}. %N is the callee's name. Every body recurses before it
// returns, so the chain is unbounded and only the configured stack depth limit can end it.
var hops = map[string]string{
	"direct":           `return %N()`,
	"direct-args":      `return %N(1, arguments, this)`,
	"call":             `return %N.call(this, 1)`,
	"apply":            `return %N.apply(null, [1, 2])`,
	"apply-arraylike":  `return %N.apply({}, {length: 2, 0: 1})`,
	"apply-arguments":  `return %N.apply(this, arguments)`,
	"bind":             `return %N.bind({}, 1)()`,
	"bind-bind":        `return %N.bind(null).bind(1)(2)`,
	"call-call":        `return Function.prototype.call.call(%N, null)`,
	"apply-call":       `return Function.prototype.call.apply(%N, [null])`,
	"getter":           `return ({get g() { return %N() }}).g`,
	"getter-defprop":   `var o = {}; Object.defineProperty(o, "p", {get: %N}); return o.p`,
	"getter-create":    `return Object.create(null, {p: {get: function () { return %N() }}}).p`,
	"getter-inherited": `return Object.create({get p() { return %N() }}).p`,
	"setter":           `({set s(v) { %N() }}).s = 1`,
	"with-getter":      `with ({get w() { return %N() }}) { return w }`,
	"valueOf":          `return +{valueOf: %N}`,
	"valueOf-binary":   `return 1 + {valueOf: function () { return %N() }}`,
	"valueOf-compare":  `return ({valueOf: function () { return %N() }}) < 1`,
	"valueOf-date":     `return new Date({valueOf: function () { return %N() }})`,
	"valueOf-math":     `return Math.max(1, {valueOf: %N})`,
	"valueOf-index":    `return "abc".charAt({valueOf: function () { return %N() }})`,
	"toString":         `return "" + {toString: function () { return %N() }}`,
	"toString-String":  `return String({toString: %N})`,
	"toString-key":     `return ({})[{toString: function () { return %N() }}]`,
	"toString-join":    `return [{toString: function () { return %N() }}].join()`,
	"toString-array":   `return String([[{toString: %N}]])`,
	"toString-error":   `return String(new Error({toString: function () { return %N() }}))`,
	"toString-regexp":  `return new RegExp({toString: function () { return %N() }})`,
	"toString-parse":   `return parseInt({toString: function () { return %N() }})`,
	"forEach":          `[1].forEach(function () { %N() })`,
	"map":              `return [1].map(%N)`,
	"filter":           `return [1].filter(function () { return %N() })`,
	"some":             `return [1].some(%N)`,
	"every":            `return [1].every(function () { return %N() })`,
	"reduce":           `return [1, 2].reduce(function () { return %N() })`,
	"reduceRight":      `return [1, 2].reduceRight(%N, 0)`,
	"sort":             `return [2, 1].sort(function (a, b) { %N(); return 0 })`,
	"sort-valueOf":     `return [{valueOf: %N}, 1].sort(function (a, b) { return a - b })`,
	"map-arraylike":    `return Array.prototype.map.call("a", function () { return %N() })`,
	"eval":             `return eval("%N()")`,
	"eval-indirect":    `return (0, eval)("%N()")`,
	"Function":         `return Function("return %N()")()`,
	"new":              `return new %N()`,
	"new-bound":        `return new (%N.bind(null))()`,
	"toJSON":           `return JSON.stringify({toJSON: function () { return %N() }})`,
	"toJSON-nested":    `return JSON.stringify([{a: {toJSON: %N}}])`,
	"replacer":         `return JSON.stringify({a: 1}, function (k, v) { %N(); return v })`,
	"reviver":          `return JSON.parse("[1]", function (k, v) { return %N() })`,
	"replace-fn":       `return "a".replace(/a/, function () { return %N() })`,
	"replace-string":   `return "a".replace("a", %N)`,
	"replace-global":   `return "aa".replace(/a/g, function () { return %N() })`,
	"try-finally":      `try { return %N() } finally { fin++ }`,
	"catch-rethrow":    `try { return %N() } catch (e) { throw e }`,
	"finally-call":     `try { return %N() } finally { try { noop() } catch (e2) { fin++ } }`,
	"conditional":      `return true ? %N() : 0`,
	"comma-logical":    `return (0, 1) && %N()`,
	"nested-closure":   `return (function () { return (function () { return %N() })() })()`,
	"arguments-callee": `return (function () { if (arguments.length) { return %N() } return arguments.callee(1) })()`,
	"host-function":    `return hostcall(%N)`,
}

var hopNames = func() []string {
	var out []string
	for k := range hops {
		out = append(out, k)
	}
	sort.Strings(out)
	return out
}()

type recurCase struct {
	Hops  []string `json:"hops"`  // f_i reaches f_{(i+1) mod k} through Hops[i]
	L     int      `json:"limit"` // SetStackDepthLimit
	Top   string   `json:"top"`   // "catch": a script-level try/catch must catch a RangeError; "nocatch": the API call must return one
	Entry string   `json:"entry"` // Run, Eval, Compile+Run, Otto.Call, Value.Call, Object.Call
}

func (c recurCase) script() string {
	var b strings.Builder
	b.WriteString("var d = 0, fin = 0; function noop() {}\n")
	k := len(c.Hops)
	for i, h := range c.Hops {
		body := strings.ReplaceAll(hops[h], "%N", fmt.Sprintf("f%d", (i+1)%k))
		fmt.Fprintf(&b, "function f%d() { d++; %s }\n", i, body)
	}
	return b.String()
}

const recurCatch = `(function () { try { f0(); return "returned," + d } catch (e) { return (e instanceof RangeError ? "RangeError" : "other:" + Object.prototype.toString.call(e)) + "," + d } })()`

func runRecur(c recurCase) (res jobResult) {
	// Go's own default (1 GB on 64-bit) would apply in an embedding program; 640 MB keeps the
	// shared machine safe while staying far above what limit 5000 needs (measured < 60 MB).
	debug.SetMaxStack(640 << 20)
	defer debug.SetMaxStack(96 << 20)
	for _, h := range c.Hops {
		if hops[h] == "" {
			res.Note = "unknown hop " + h
			return res
		}
	}
	vm := newVM(c.L, 3_000_000)
	_ = vm.Set("hostcall", func(call otto.FunctionCall) otto.Value {
		v, err := call.Argument(0).Call(call.This)
		if err != nil {
			// a host function that propagates a script error re-throws it as a script value
			if harness.ErrName(err) == "RangeError" {
				panic(call.Otto.MakeRangeError(err.Error()))
			}
			panic(call.Otto.MakeTypeError(err.Error()))
		}
		return v
	})
	defs := c.script()
	var err error
	var val otto.Value
	call := func(where string, fn func()) bool {
		p, b, text := guard(fn)
		if p {
			res.Panics = append(res.Panics, escaped{Where: where, Text: text})
		}
		if b {
			res.Classes = append(res.Classes, "budget-sentinel")
			return false
		}
		return !p
	}
	if !call("Run(definitions)", func() { _, err = vm.Run(defs) }) {
		return res
	}
	if err != nil {
		res.Wrong = append(res.Wrong, "definitions did not run: "+err.Error())
		return res
	}
	top := "f0()"
	if c.Top == "catch" {
		top = recurCatch
	}
	ok := true
	switch c.Entry {
	case "Run":
		ok = call("Run", func() { val, err = vm.Run(top) })
	case "Eval":
		ok = call("Eval", func() { val, err = vm.Eval(top) })
	case "Compile+Run":
		var s *otto.Script
		ok = call("Compile", func() { s, err = vm.Compile("", top) })
		if ok && s != nil {
			ok = call("Run(*Script)", func() { val, err = vm.Run(s) })
		}
	case "Otto.Call":
		src := "f0"
		if c.Top == "catch" {
			src = "(function () { return " + recurCatch + " })"
		}
		ok = call("Otto.Call", func() { val, err = vm.Call(src, nil) })
	case "Value.Call":
		src := "f0"
		if c.Top == "catch" {
			src = "(function () { return " + recurCatch + " })"
		}
		var f otto.Value
		ok = call("Run(function)", func() { f, err = vm.Run(src) })
		if ok {
			ok = call("Value.Call", func() { val, err = f.Call(otto.UndefinedValue()) })
		}
	case "Object.Call":
		var o *otto.Object
		src := "({m: f0})"
		if c.Top == "catch" {
			src = "({m: function () { return " + recurCatch + " }})"
		}
		ok = call("Otto.Object", func() { o, err = vm.Object(src) })
		if ok && o != nil {
			ok = call("Object.Call", func() { val, err = o.Call("m") })
		}
	default:
		res.Note = "unknown entry " + c.Entry
		return res
	}
	if !ok {
		return res
	}
	depth := int64(-1)
	if dv, e := vm.Get("d"); e == nil {
		depth, _ = dv.ToInteger()
	}
	res.Counts = map[string]int{"depth": int(depth)}
	if c.Top == "catch" {
		if err != nil && depth == 0 && harness.ErrName(err) == "RangeError" {
			// the limit is so low that the harness's own wrapper frames (Otto.Call's scope, the function
			// holding the try) exceed it before the try block is entered: nothing to catch with
			res.Classes = append(res.Classes, "limit-below-wrapper-frames")
			return res
		}
		if err != nil {
			res.Wrong = append(res.Wrong, fmt.Sprintf("the script-level try/catch did not catch the error; the API call returned %v", err))
			return res
		}
		s, _ := val.ToString()
		if !strings.HasPrefix(s, "RangeError,") {
			res.Wrong = append(res.Wrong, fmt.Sprintf("unbounded recursion under limit %d ended with %q, want a caught RangeError", c.L, s))
		}
	} else {
		if err == nil {
			res.Wrong = append(res.Wrong, fmt.Sprintf("unbounded recursion under limit %d returned normally (%s)", c.L, harness.Repr(val)))
		} else if n := harness.ErrName(err); n != "RangeError" {
			res.Wrong = append(res.Wrong, fmt.Sprintf("unbounded recursion under limit %d ended with %q, want RangeError", c.L, oneLine(err.Error(), 200)))
		}
	}
	if depth > int64(c.L) {
		res.Wrong = append(res.Wrong, fmt.Sprintf("%d nested script function activations were entered under stack depth limit %d", depth, c.L))
	}
	res.Nontrivial = depth >= 1
	return res
}

var recurFacet = harness.Register(&harness.Facet[recurCase]{
	Name:     "recursion-vs-limit",
	Rule:     "rapid: a cycle of 1–4 global functions; f_i reaches f_{i+1} through a drawn mechanism (60: direct, call/apply/bind and their compositions, object-literal / defineProperty / inherited / with getters, setters, valueOf and toString coercion in unary, binary, relational, Date, Math, index, property-key, join, Error, RegExp, parseInt positions, forEach/map/filter/some/every/reduce/reduceRight/sort callbacks, eval direct and indirect, Function(), new, new on a bound function, JSON toJSON/replacer/reviver, String.replace replacers, try/finally, catch-rethrow, nested closures, arguments.callee, a host function calling back through Value.Call); every body recurses before it returns. Stack depth limit L ∈ {2…64} ∪ random ≤ 5000; entry through Run, Eval, Compile+Run, Otto.Call, Value.Call or Object.Call; either a script-level try/catch around the first call (must catch an instance of RangeError) or none (the API call must return a RangeError). Executed in a worker subprocess: oracle = the worker survives, no Go panic crosses the API, the error is the RangeError, and no more than L script activations were entered. Non-trivial = at least one activation was entered before the limit fired (depth ≥ 1; recursion is unbounded so the limit is always reached); distinct by (hops, L, top, entry)",
	Quick:    500,
	Thorough: 6000,
	Gen: func(t *rapid.T) recurCase {
		c := recurCase{}
		k := rapid.IntRange(1, 4).Draw(t, "k")
		for i := 0; i < k; i++ {
			c.Hops = append(c.Hops, rapid.SampledFrom(hopNames).Draw(t, "hop"))
		}
		if rapid.IntRange(0, 9).Draw(t, "small") < 6 {
			c.L = rapid.IntRange(2, 64).Draw(t, "L")
		} else {
			c.L = rapid.IntRange(65, 5000).Draw(t, "Lbig")
		}
		c.Top = rapid.SampledFrom([]string{"catch", "catch", "nocatch"}).Draw(t, "top")
		c.Entry = rapid.SampledFrom([]string{"Run", "Run", "Eval", "Compile+Run", "Otto.Call", "Value.Call", "Object.Call"}).Draw(t, "entry")
		return c
	},
	Check: func(c recurCase) harness.Outcome {
		if id := excludedRecur(c); id != "" {
			return harness.Outcome{Excluded: []string{id}, Classes: []string{"steered-around-known-finding"}}
		}
		res, fatal := dispatch(job{Kind: "recur", Recur: &c})
		out := harness.Outcome{Nontrivial: res.Nontrivial, Classes: res.Classes}
		for _, h := range c.Hops {
			out.Classes = append(out.Classes, "hop:"+h)
		}
		out.Classes = append(out.Classes, "entry:"+c.Entry, "top:"+c.Top, "limit:"+limitBucket(c.L))
		switch {
		case fatal != "":
			out.Nontrivial = true
			out.Fail = fmt.Sprintf("unbounded recursion under SetStackDepthLimit(%d): %s\nscript:\n%s%s\n(property C02: with a limit configured, unbounded recursion ends in a catchable RangeError, never in a dead process)", c.L, oneLine(fatal, 600), c.script(), c.Top)
		case res.Note != "":
			out.Fail = "worker: " + res.Note
		case len(res.Panics) > 0:
			out.Fail = fmt.Sprintf("a Go panic crossed %s under SetStackDepthLimit(%d): %s\nscript:\n%s", res.Panics[0].Where, c.L, res.Panics[0].Text, c.script())
		case len(res.Wrong) > 0:
			out.Fail = fmt.Sprintf("%s\nentry %s, top %s, script:\n%s", res.Wrong[0], c.Entry, c.Top, c.script())
		}
		return out
	},
})

func limitBucket(l int) string {
	switch {
	case l <= 8:
		return "2-8"
	case l <= 64:
		return "9-64"
	case l <= 1000:
		return "65-1000"
	}
	return "1001-5000"
}

func TestRecursionVsLimit(t *testing.T) { recurFacet.Run(t) }
