package c02

import (
	"bytes"
	"encoding/base64"
	"encoding/hex"
	"fmt"
	"os"
	"strings"
	"sync"
	"testing"

	"github.com/robertkrimen/otto"
	"github.com/robertkrimen/otto/ast"
	"github.com/robertkrimen/otto/parser"
	"github.com/robertkrimen/otto/token"
	"pgregory.net/rapid"

	"verif/lib/harness"
	"verif/lib/prog"
)

// ---- the case: source bytes as a list of pieces -----------------------------------------------------------

// piece: text T (valid UTF-8) or raw bytes X (hex), repeated N times (0 = once). JSON cannot carry
// invalid UTF-8 in a string, hence the hex form.
type piece struct {
	T string `json:"t,omitempty"`
	X string `json:"x,omitempty"`
	N int    `json:"n,omitempty"`
}

type sourceCase struct {
	Pieces []piece `json:"pieces"`
	Sep    string  `json:"sep"`
	Limit  int     `json:"limit"` // stack depth limit of the runtime
	Mode   string  `json:"mode"`
}

const maxSourceBytes = 400_000

func (c sourceCase) bytes() []byte {
	var b bytes.Buffer
	for i, p := range c.Pieces {
		if i > 0 {
			b.WriteString(c.Sep)
		}
		raw := []byte(p.T)
		if p.X != "" {
			raw, _ = hex.DecodeString(p.X)
		}
		n := p.N
		if n <= 0 {
			n = 1
		}
		for k := 0; k < n && b.Len() < maxSourceBytes; k++ {
			b.Write(raw)
		}
	}
	out := b.Bytes()
	if len(out) > maxSourceBytes {
		out = out[:maxSourceBytes]
	}
	return out
}

// ---- token soup ----------------------------------------------------------------------------------------

var soupKeywords = strings.Fields(`break case catch continue debugger default delete do else finally for function if in
 instanceof new return switch this throw try typeof var void while with null true false
 class const enum export extends import super implements interface let package private protected public static yield
 get set undefined NaN Infinity arguments eval`)

var soupPunct = strings.Fields(`{ } ( ) [ ] . ; , < > <= >= == != === !== + - * % ++ -- << >> >>> & | ^ ! ~ && || ? : = += -= *= %= <<=
 >>= >>>= &= |= ^= / /= => ... ?. ** @ # \ ` + "`")

var soupIdents = strings.Fields(`a b c f g o x i log Object Array String Number Boolean Function Date RegExp Error JSON Math
 prototype constructor length toString valueOf call apply bind __proto__ $ _ ℮ a \u{61} à ｆ ᠎x`)

var soupLiterals = []string{
	`0`, `1`, `-1`, `0.5`, `.5`, `5.`, `1e3`, `1E-3`, `1e`, `1e+`, `0x`, `0x1F`, `0X1f`, `0x1.8p1`, `010`, `08`, `09.5`, `0b1`, `0o7`, `1_0`, `1n`,
	`9007199254740993`, `1e309`, `5e-324`, `0.0000001`, `4294967296`, `2147483648`, `1..toString`, `1.e1`, `0e0`, `00`, `0.0.0`, `3in[]`,
	`""`, `''`, `"a"`, `'b'`, `"\n"`, `"\x41"`, `"\x4"`, `"A"`, `"\u00"`, `"\u{41}"`, `"\0"`, `"\08"`, `"\377"`, `"\400"`, `"\8"`, `"\`, `"\` + "\n" + `"`, `"\` + "\r\n" + `"`,
	`"unterminated`, `'unterminated`, "\"a\nb\"", "\" \"", `"\ud800"`, `"\udc00\ud800"`, `"😀"`, "\"\U0001F600\"", `"use strict"`,
	`/a/`, `/a/g`, `/a/gg`, `/a/x`, `/[/]/`, `/[/`, `/(/`, `/)/`, `/a{2,1}/`, `/a**/`, `/\1/`, `/(?=a)/`, `/(?!a)b/`, `/(?<n>a)/`, `/(?<=a)b/`, `/\u{1F600}/u`, `/\//`, `/\` + "\n/", `/a` + "\n/", `/`, `//`, `/**/`, `/*`, `/* */`, `/*/`,
	`/(a*)*b/`, `/(?:a|a)*$/`, `/[^]/`, `/[]/`, `/\cA\c1\c/`, `/\x4\u00/`, `/a{99999}/`, `/(a{1000}){1000}/`, `/[z-a]/`, `/\p{L}/`, `/\k<a>/`, `/(?i)a/`, `/\Qa\E/`, `/\z/`, `/\A/`, `/[[:alpha:]]/`, `/\C/`, `/(?P<x>a)/`, `/a{,5}/`, `/{/`, `/}/`, `/]/`, `/\8/`, `/\0/`, `/\00/`,
	`<!--`, `-->`, `//` + "\u2028" + `x`, "#!/bin/x\n", "\ufeff", "\u00a0", "\u180e", "\u200b", "\u2029", "\u0085", "\v", "\f", "\r", "\r\n", "\n", "\t", "\x00", "\x7f", "\x1b",
	`[,]`, `[,,]`, `{,}`, `({a:1,})`, `({get a(){}})`, `({get a(x){}})`, `({set a(){}})`, `({set a(x,y){}})`, `({get:1,set:2})`, `({a:1,a:2,get a(){}})`, `({1:1,1.0:2,"1":3,0x1:4})`, `({__proto__:null,__proto__:1})`,
	`a:`, `a:a:`, `a:b:c:for(;;)break a`, `break a`, `continue`, `return`, `x=>x`, `function(){}`, `function f(){}`, `(function(){})()`, `function f(a,a){}`, `function f(eval){}`, `function(`, `function f(a,){}`, `function f(,){}`,
	`for(;;)`, `for(var i in o)`, `for(var i=0 in o)`, `for(x of y)`, `for(in)`, `for(var i=(1 in o);;)`, `for(a in b in c)`, `if(1)`, `else`, `do;while(0)`, `do x while(0) y`, `while(0)`, `with(o)`, `switch(x){`, `case 1:`, `default:`, `default:default:`, `try{}`, `catch(e){}`, `catch{}`, `finally{}`, `try{}catch(eval){}`, `throw` + "\n" + `x`, `return` + "\n" + `1`, `x` + "\n" + `++` + "\n" + `y`,
	`var a=1,b`, `var`, `var 1`, `var a=`, `var this`, `new`, `new new a`, `new a.b()`, `new.target`, `a.if`, `a.1`, `a..b`, `a?.b`, `a[`, `a[1`, `a(`, `a(1,`, `a(,)`, `++a++`, `a++ ++`, `1++`, `--1`, `a=b=c`, `1=2`, `a+=`, `(a)=1`, `(a,b)=1`, `[a]=1`, `f()=1`, `this=1`, `eval=1`, `arguments++`, `delete x`, `typeof`, `void`, `!`, `~`, `- -a`, `+ +a`, `a- -b`, `a+ +b`, `a---b`, `a+++b`, `a?b:c?d:e`, `a?b`, `a?:b`, `a,b`, `,`, `;`, `;;`, `a in b`, `a instanceof b`, `1 in`, `in in in`,
}

var hostileSnippets = []string{
	`throw null`, `throw undefined`, `throw {get message(){throw 1}, name: {toString:function(){throw 2}}}`,
	`(function f(){f()})()`, `var o={get a(){return this.a}};o.a`, `var o={toString:function(){return ""+this}};""+o`, `[1].map(function f(x){return [x].map(f)})`,
	`eval("eval('eval(\"1\")')")`, `Function("return this")()`, `new Function("a","b","return a+b")(1,2)`, `new Function("/*","*/){")`, `Function("){")`, `Function("a,","return 1")`,
	`String.prototype.charAt.call(5,0)`, `RegExp.prototype.toString()`, `Date.prototype.getTime.call({})`, `Function.prototype.toString.call({})`, `Function.prototype()`, `new Function.prototype`,
	`Object.defineProperty({}, "x", {get:undefined,configurable:true})`, `Object.defineProperty([], "length", {value:-1})`, `Object.defineProperty([1,2,3], "length", {value:1,writable:false}).push(1)`, `Object.create(null)+""`, `Object.create(null) instanceof Object`, `for (var k in Object.create(null));`,
	`var a=[];a[0]=a;a.join()`, `var a=[];a[0]=a;String(a)`, `var a=[];a[0]=a;JSON.stringify(a)`, `var o={};o.o=o;JSON.stringify(o)`, `JSON.stringify({toJSON:function(){return this}})`, `JSON.parse("[[[[[[[[[[[[]]]]]]]]]]]]")`, `JSON.parse('{"__proto__":1}')`, `JSON.parse("1",function(){throw 1})`, `JSON.stringify(1,null,{valueOf:function(){throw 1}})`,
	`[].reduce(function(){})`, `[1,2,3].sort(function(){throw 1})`, `[3,2,1].sort(function(){return NaN})`, `Array.prototype.sort.call({length:3,0:{},1:null})`, `Array.prototype.concat.call(null)`, `Array.prototype.push.apply([], {length:3})`, `Array.apply(null,{length:5})`, `new Array(-1)`, `new Array(1.5)`, `[].length=-1`, `var a=[1,2,3];a.length={valueOf:function(){a.length=0;return 2}}`,
	`"abc".replace(/(b)/g, function(){return arguments.length})`, `"abc".replace("b", "$'$&$1$99")`, `"abc".split(/(?:)/, -1)`, `"x".match({})`, `"x".search("(")`, `new RegExp("(")`, `new RegExp("a","gg")`, `RegExp(/a/g, "i")`, `/a/.compile("(")`, `"aaa".lastIndexOf("a", -Infinity)`, `"".substr(NaN, Infinity)`, `"\ud800".toUpperCase()`, `encodeURI("\ud800")`, `decodeURIComponent("%")`, `decodeURI("%E0%A4%A")`, `unescape("%u")`, `escape()`,
	`(1).toFixed(101)`, `(1).toString(1)`, `(1).toString(37)`, `(1e21).toString(2)`, `(-1.5).toString(36)`, `(1).toPrecision(0)`, `Number.prototype.toString.call("x")`, `parseInt("1", 1e10)`, `parseFloat({toString:null,valueOf:null})`,
	`new Date(NaN).toISOString()`, `new Date(1e300)`, `new Date(2000, 1e9)`, `Date.UTC()`, `Date.parse({})`, `new Date("x").toJSON()`, `Date.prototype.toJSON.call({toISOString:1})`, `new Date(0).setMonth(1e308)`,
	`arguments`, `this.x.y`, `null.x`, `undefined()`, `x`, `delete this`, `with(null){}`, `with(1) toString()`, `(0,eval)("var q"); delete q`, `void function(){ return arguments.callee.caller }()`, `(function(){ "use strict"; return this })()`,
	`Object.keys(1)`, `Object.getOwnPropertyNames(null)`, `Object.defineProperties({}, {a:1})`, `Object.freeze(this)`, `Object.prototype.__defineGetter__`, `Object.getPrototypeOf(Object.prototype).x`, `Object.prototype.toString.call(null)`, `Object.prototype.hasOwnProperty.call(undefined,"x")`, `Object.prototype.valueOf.call(null)`, `Object.prototype.isPrototypeOf.call(null,{})`,
	`Error.prototype.toString.call(1)`, `new Error({toString:function(){throw 1}})`, `Error.captureStackTrace`, `(new Error).stack`, `try{null.x}catch(e){e.stack=1;throw e}`, `var e=new Error;e.name={toString:function(){throw 1}};throw e`, `var e=new TypeError;e.message={toString:function(){return {}}};throw e`,
	`Function.prototype.call.call(1)`, `Function.prototype.apply.call(function(){}, null, 1)`, `Function.prototype.bind.call(1)`, `(function(){}).bind().bind().call()`, `new (function(){}.bind())`, `Function.prototype.apply.apply(Function.prototype.apply,[])`, `Function.prototype.call.apply(Function.prototype.call,[])`, `Function.prototype.call.call(Function.prototype.call)`,
	`console.log({toString:function(){throw 1}})`, `console.log(Object.create(null))`, `console.log.call(null, function(){})`,
	`L:{L:{}}`, `L:L:;`, `a:{break a}`, `a:{continue a}`, `a:while(1){(function(){break a})()}`, `switch(1){case 1:default:case 1:}`, `switch(1){default:default:}`, `try{}catch(e){var e=1}`, `function f(){return f.caller}f()`, `var arguments=1`, `function arguments(){}`, `if(1)function f(){}`, `do function f(){} while(0)`, `label:function f(){}`,
}

// unprintableThrowers: the snippets that end in an uncaught value whose conversion to string throws
// (A9, C02-THROW-UNPRINTABLE); drawn only while that finding no longer reproduces.
var unprintableThrowers = []string{
	`throw {toString:function(){throw 1}}`, `throw {toString:function(){return {}}}`, `throw Object.create(null)`,
	`throw {toString:function(){throw {toString:function(){throw 2}}}}`, `var e={};e.toString=function(){return ""+e};throw e`,
}

// gatedSnippets: one-liners that are the witness of a known finding; drawn only while it no longer reproduces.
var gatedSnippets = map[string][]string{
	"C02-THROW-UNPRINTABLE":       unprintableThrowers,
	"C02-REGEXP-PROTOTYPE-NIL":    {`RegExp.prototype.test("x")`, `RegExp.prototype.exec("x")`, `"abc".replace(RegExp.prototype, "x")`, `"abc".split(RegExp.prototype)`},
	"C02-PARSEFUNCTION-WRAPPER":   {`Function("}); (function(){")`, `Function("", "}) + (function(){")`, `new Function("a){}) + (function(", "")`},
	"C02-TOLOCALESTRING-TAG":      {`(1).toLocaleString("not a tag")`, `(1).toLocaleString({})`},
	"C02-OBJECT-ASSIGN-PRIMITIVE": {`Object.assign(1, {a:1})`, `Object.assign("s", "ab")`},
	"C02-APPLY-HUGE-LENGTH": {`(function(){}).apply(null, {length: 4294967295})`, `Math.max.apply(null, {length: 4294967295})`, `String.fromCharCode.apply(null, {length: 4294967290})`, `Array.apply(null, {length: 3000000000})`,
		`Function.prototype.apply.call(function(){}, null, {length: 4294967295})`, `(function(){}).apply.bind(function(){})(null, {length: 4294967295})`, `Function.prototype.apply.apply(function(){}, [null, {length: 4294967295}])`,
		`new (Function.prototype.bind.apply(Date, {length: 4294967295}))`, `var a = []; a.length = 4294967295; (function(){}).apply(null, a)`, `(function(){ return arguments.length }).apply(null, {length: -1})`},
	"C02-JSON-STRINGIFY-DEPTH": {`JSON.stringify(1, Array)`, `JSON.stringify({a:1}, function(k,v){return {a:1}})`},
}

var gatedOrder = []string{"C02-APPLY-HUGE-LENGTH", "C02-THROW-UNPRINTABLE", "C02-REGEXP-PROTOTYPE-NIL", "C02-PARSEFUNCTION-WRAPPER", "C02-TOLOCALESTRING-TAG", "C02-OBJECT-ASSIGN-PRIMITIVE", "C02-JSON-STRINGIFY-DEPTH"}

func activeSnippets() []string {
	out := append([]string{}, hostileSnippets...)
	for _, id := range gatedOrder {
		if !known(id) {
			out = append(out, gatedSnippets[id]...)
		}
	}
	return out
}

func sourceMapTail(hostile string) string {
	return "\n//# sourceMappingURL=data:application/json;base64," + base64.StdEncoding.EncodeToString([]byte(hostile))
}

var sourceMaps = []string{
	`{"version":3,"sources":["a.js"],"names":[],"mappings":"AAAA"}`,
	`{"version":3,"sources":[],"names":[],"mappings":"AAAA;;;;AAAAAAAA,,,,"}`,
	`{"version":3,"sources":["a"],"names":["x"],"mappings":"gggggggggggggggB"}`,
	`{"version":3,"sources":["a"],"mappings":"AAAAA;AACA,SAAS"}`,
	`{"version":3,"sections":[{"offset":{"line":-1,"column":-1},"map":{}}]}`,
	`{"version":"3","mappings":5}`, `[]`, `null`, `{`, ``, `{"version":3,"mappings":"!!!!"}`, `{"version":3,"sources":["a"],"mappings":"AAgBC,/////////B"}`,
}

var openers = []string{"(", "[", "{", "{a:", "[[", "((", "function f(){", "(function(){", "f(", "new ", "!", "-", "~", "typeof ", "a?", "a?b:", "a=", "a,", "a+", "a&&", "if(1)", "if(1){}else ", "for(;;)", "while(1)", "do ", "with(a)", "try{", "switch(a){case ", "a:", "a.b", "a[0]", "a()", "/*", "//", "\"", "\\", "{get a(){", "x=>", "1+(", "[1,", "{a:{", "a.b(", "eval(\"", "new a(", "void ", "++", "delete ", "a[", "a instanceof ", "a in ", "(a,"}

var closers = []string{")", "]", "}", "})", "]]", "))", "}}", "*/", "\"", ";", ":0", ")()", "while(0)", "}catch(e){}", "}finally{}"}

var invalidBytes = []string{"ff", "fe", "c0", "c080", "c1bf", "e080", "e08080", "eda080", "edbfbf", "f08080", "f4908080", "f5", "f8888080", "80", "bf", "e2", "e282", "f09f98", "efbfbe", "efbfbf", "00", "c2", "efbbbf", "e280a8", "1a"}

func genSource(t *rapid.T) sourceCase {
	c := sourceCase{Limit: rapid.SampledFrom([]int{2, 5, 16, 64, 500}).Draw(t, "limit")}
	c.Sep = rapid.SampledFrom([]string{"", " ", " ", "\n", ";"}).Draw(t, "sep")
	tok := func() piece {
		switch k := rapid.IntRange(0, 99).Draw(t, "tk"); {
		case k < 18:
			return piece{T: rapid.SampledFrom(soupKeywords).Draw(t, "kw")}
		case k < 42:
			return piece{T: rapid.SampledFrom(soupPunct).Draw(t, "p")}
		case k < 55:
			return piece{T: rapid.SampledFrom(soupIdents).Draw(t, "id")}
		case k < 83:
			return piece{T: rapid.SampledFrom(soupLiterals).Draw(t, "lit")}
		case k < 90:
			return piece{T: rapid.SampledFrom(activeSnippets()).Draw(t, "snip")}
		case k < 94:
			return piece{X: rapid.SampledFrom(invalidBytes).Draw(t, "bad")}
		case k < 96:
			return piece{T: rapid.SampledFrom(closers).Draw(t, "cl")}
		case k < 98:
			// very long identifier / number / string body
			return piece{T: rapid.SampledFrom([]string{"a", "9", "0", "1e", ".", "x1", "\\u0061", "é", "\U00010400", " ", "\n", "'a'+", "a.", "a,"}).Draw(t, "long"), N: rapid.SampledFrom([]int{50, 50, 400, 400, 400, 3000, 3000, 20000}).Draw(t, "n")}
		default:
			return piece{T: sourceMapTail(rapid.SampledFrom(sourceMaps).Draw(t, "sm"))}
		}
	}
	switch mode := rapid.IntRange(0, 12).Draw(t, "mode"); {
	case mode == 12:
		// operators nested on operands that are themselves operator applications
		c.Mode = "non-reference-operand"
		c.Sep = ""
		e := rapid.SampledFrom(nonReferenceOperands).Draw(t, "operand")
		for i := rapid.IntRange(1, 3).Draw(t, "depth"); i > 0; i-- {
			op := rapid.SampledFrom(refOperators).Draw(t, "operator")
			if strings.HasPrefix(op, "for ") || strings.HasPrefix(op, "with ") {
				if i > 1 {
					continue
				}
				e = strings.ReplaceAll(op, "%E", e)
				break
			}
			e = strings.ReplaceAll(op, "%E", e)
			if i > 1 && rapid.Bool().Draw(t, "paren") {
				e = "(" + e + ")"
			}
		}
		ctx := rapid.SampledFrom(operandContexts).Draw(t, "context")
		if (strings.HasPrefix(e, "for ") || strings.HasPrefix(e, "with ")) && strings.Contains(ctx.src, "%X") {
			ctx = operandContexts[0]
		}
		src := strings.ReplaceAll(strings.ReplaceAll(strings.ReplaceAll(ctx.src, "%S", e), "%X", e), "%Q", harness.JSString(e))
		c.Pieces = []piece{{T: operandPrelude + src}}
	case mode == 11:
		// two operations of the reference-race family in one scope, random deletions
		c.Mode = "reference-race"
		c.Sep = ""
		sc := rapid.SampledFrom(raceScopes).Draw(t, "scope")
		var body []string
		for i := rapid.IntRange(1, 3).Draw(t, "nops"); i > 0; i-- {
			op := rapid.SampledFrom(raceOps).Draw(t, "op")
			d := rapid.SampledFrom(raceDeletes).Draw(t, "del")
			op = strings.ReplaceAll(strings.ReplaceAll(op, "%DX", d.x), "%DG", d.g)
			if i > 1 || !strings.HasPrefix(sc.src, "(function") {
				op = strings.ReplaceAll(op, "return ", "__r = ")
			}
			body = append(body, op)
		}
		c.Pieces = []piece{{T: strings.ReplaceAll(sc.src, "%B", strings.Join(body, "; "))}}
	case mode == 10:
		c.Mode = "regexp-prefixes"
		c.Sep = ""
		n := rapid.IntRange(1, 6).Draw(t, "n")
		for i := 0; i < n; i++ {
			if rapid.IntRange(0, 2).Draw(t, "whole") == 0 {
				c.Pieces = append(c.Pieces, piece{T: rapid.SampledFrom(regexpSeeds).Draw(t, "seed")})
			} else {
				c.Pieces = append(c.Pieces, piece{T: rapid.SampledFrom(regexpAtoms).Draw(t, "atom")})
			}
		}
	case mode < 4:
		c.Mode = "soup"
		n := rapid.IntRange(1, 30).Draw(t, "n")
		for i := 0; i < n; i++ {
			c.Pieces = append(c.Pieces, tok())
		}
	case mode < 6:
		c.Mode = "nesting"
		op := rapid.SampledFrom(openers).Draw(t, "opener")
		depth := rapid.SampledFrom([]int{3, 30, 30, 30, 300, 300, 300, 300, 1000, 1000, 1000, 5000}).Draw(t, "depth")
		c.Sep = ""
		c.Pieces = append(c.Pieces, piece{T: op, N: depth})
		if rapid.Bool().Draw(t, "fill") {
			c.Pieces = append(c.Pieces, tok())
		}
		if rapid.Bool().Draw(t, "close") {
			c.Pieces = append(c.Pieces, piece{T: rapid.SampledFrom(closers).Draw(t, "closer"), N: depth - rapid.IntRange(0, 2).Draw(t, "short")})
		}
	case mode == 9:
		c.Mode = "program+snippets"
		c.Sep = ";\n"
		c.Pieces = append(c.Pieces, piece{T: prog.Print(prog.GenProgram(t))})
		n := rapid.IntRange(1, 4).Draw(t, "nsnip")
		for i := 0; i < n; i++ {
			sn := rapid.SampledFrom(activeSnippets()).Draw(t, "snip")
			if rapid.Bool().Draw(t, "wrapped") {
				sn = "try { " + sn + " } catch (e) { log(String(e)) }"
			}
			c.Pieces = append(c.Pieces, piece{T: sn})
		}
	default:
		c.Mode = "program-mutation"
		p := prog.Print(prog.GenProgram(t))
		c.Sep = ""
		nOps := rapid.IntRange(1, 4).Draw(t, "ops")
		parts := []piece{{T: p}}
		for k := 0; k < nOps; k++ {
			// pick a text piece and an offset inside it
			i := rapid.IntRange(0, len(parts)-1).Draw(t, "part")
			s := parts[i].T
			if parts[i].X != "" || parts[i].N > 1 || len(s) < 2 {
				continue
			}
			at := rapid.IntRange(0, len(s)).Draw(t, "at")
			for at > 0 && at < len(s) && s[at]&0xC0 == 0x80 {
				at-- // stay on a rune boundary: T must remain valid UTF-8
			}
			switch op := rapid.IntRange(0, 5).Draw(t, "op"); op {
			case 0: // truncate
				parts = append(parts[:i:i], piece{T: s[:at]})
			case 1: // insert a soup token
				parts = append(parts[:i:i], append([]piece{{T: s[:at]}, tok(), {T: s[at:]}}, parts[i+1:]...)...)
			case 2: // cut a range
				to := at + rapid.IntRange(1, 40).Draw(t, "cut")
				if to > len(s) {
					to = len(s)
				}
				for to < len(s) && s[to]&0xC0 == 0x80 {
					to++
				}
				parts = append(parts[:i:i], append([]piece{{T: s[:at]}, {T: s[to:]}}, parts[i+1:]...)...)
			case 3: // splice another program's tail
				q := prog.Print(prog.GenProgram(t))
				from := rapid.IntRange(0, len(q)).Draw(t, "from")
				for from < len(q) && q[from]&0xC0 == 0x80 {
					from++
				}
				parts = append(parts[:i:i], append([]piece{{T: s[:at]}, {T: q[from:]}}, parts[i+1:]...)...)
			case 4: // duplicate a range many times
				to := at + rapid.IntRange(1, 30).Draw(t, "dup")
				if to > len(s) {
					to = len(s)
				}
				for to < len(s) && s[to]&0xC0 == 0x80 {
					to++
				}
				parts = append(parts[:i:i], append([]piece{{T: s[:at]}, {T: s[at:to], N: rapid.SampledFrom([]int{2, 10, 200}).Draw(t, "times")}, {T: s[to:]}}, parts[i+1:]...)...)
			case 5: // insert raw bytes
				parts = append(parts[:i:i], append([]piece{{T: s[:at]}, {X: rapid.SampledFrom(invalidBytes).Draw(t, "bad")}, {T: s[at:]}}, parts[i+1:]...)...)
			}
		}
		c.Pieces = parts
	}
	return c
}

// ---- executing one source text through every entry point --------------------------------------------------

type entryLog struct {
	panics   []escaped
	classes  []string
	excluded []string
}

func (l *entryLog) call(name string, fn func()) (budget bool) {
	p, b, text := guard(fn)
	if p {
		l.panics = append(l.panics, escaped{Where: name, Text: text})
	}
	return b
}

func errClass(err error) string {
	if err == nil {
		return "ok"
	}
	n := harness.ErrName(err)
	if strings.HasPrefix(n, "(anonymous)") || strings.Contains(n, "Line ") {
		return "SyntaxError(parser)"
	}
	if len(n) > 20 || strings.ContainsAny(n, " \n") {
		return "other-error"
	}
	return n
}

// runSourceText is shared by the worker handler and the native fuzz target.
func runSourceText(src string, limit int) (l entryLog, nontrivial bool) {
	var program *ast.Program
	var perr error
	l.call("parser.ParseFile", func() { program, perr = parser.ParseFile(nil, "", src, 0) })
	big := len(src) > 8000
	if !big || harness.Hash64(src)%3 == 0 {
		l.call("parser.ParseFile(StoreComments|IgnoreRegExpErrors)", func() {
			_, _ = parser.ParseFile(nil, "x.js", []byte(src), parser.StoreComments|parser.IgnoreRegExpErrors)
		})
	}
	if !big || harness.Hash64(src)%3 == 1 {
		if breaksFunctionWrapper("a, b", src) {
			l.excluded = append(l.excluded, "C02-PARSEFUNCTION-WRAPPER")
		} else {
			l.call("parser.ParseFunction(params, src)", func() { _, _ = parser.ParseFunction("a, b", src) })
		}
	}
	if !big || harness.Hash64(src)%3 == 2 {
		if breaksFunctionWrapper(src, "return 1") {
			l.excluded = append(l.excluded, "C02-PARSEFUNCTION-WRAPPER")
		} else {
			l.call("parser.ParseFunction(src, body)", func() { _, _ = parser.ParseFunction(src, "return 1") })
		}
	}
	// tokens before the first error (otto's own scanner, itself an entry point)
	firstErr := len(src) + 1
	if perr != nil {
		if el, ok := perr.(*parser.ErrorList); ok && el != nil && len(*el) > 0 {
			firstErr = offsetOf(src, (*el)[0].Position.Line, (*el)[0].Position.Column)
		} else {
			firstErr = 0
		}
	}
	tokens := 0
	l.call("parser.NewParser.Scan", func() {
		p := parser.NewParser("", src)
		for i := 0; i < 200_000; i++ {
			tk, _, idx := p.Scan()
			if tk == token.EOF {
				break
			}
			if int(idx)-1 < firstErr {
				tokens++
			}
		}
	})
	nontrivial = perr == nil || tokens >= 3
	l.classes = append(l.classes, "parse:"+errClass(perr))
	// every prefix of a short text: end of input after and inside every token is where lexers and
	// recursive-descent parsers index past the end
	if len(src) <= 300 {
		for k := 0; k < len(src); k++ {
			prefix := src[:k]
			l.call(fmt.Sprintf("parser.ParseFile(first %d bytes)", k), func() { _, _ = parser.ParseFile(nil, "", prefix, 0) })
			if !breaksFunctionWrapper("", prefix) {
				l.call(fmt.Sprintf("parser.ParseFunction(\"\", first %d bytes)", k), func() { _, _ = parser.ParseFunction("", prefix) })
			}
		}
		l.classes = append(l.classes, "all-prefixes")
	}

	var vm *otto.Otto
	fresh := func() {
		vm = newVM(limit, 30000)
		_ = vm.Set("log", func(call otto.FunctionCall) otto.Value { return otto.UndefinedValue() })
	}
	fresh()
	// a large text goes through the parser and a rotating eighth of the runtime entry points only:
	// otto's parser is super-linear in the number of syntax errors, and seventeen passes over 100 KB
	// of nested garbage would come near the watchdog on a loaded machine without any wedge.
	heavy := len(src) > 8000
	pick := int(harness.Hash64(src) % 8)
	nstep := 0
	step := func(name string, fn func()) {
		nstep++
		if heavy && nstep%8 != pick {
			return
		}
		harness.Arm(vm, 30000)
		before := len(l.panics)
		if l.call(name, fn) {
			l.classes = append(l.classes, "budget-sentinel")
		}
		if len(l.panics) > before {
			fresh()
		}
	}
	var script *otto.Script
	var err error
	step("Otto.Compile", func() { script, err = vm.Compile("", src) })
	if script != nil {
		step("Otto.Run(*Script)", func() { _, err = vm.Run(script) })
		l.classes = append(l.classes, "run:"+errClass(err))
	}
	step("Otto.Run(string)", func() { _, _ = vm.Run(src) })
	if program != nil && perr == nil {
		step("Otto.Run(*ast.Program)", func() { _, _ = vm.Run(program) })
	}
	step("Otto.Run(io.Reader)", func() { _, _ = vm.Run(strings.NewReader(src)) })
	step("Otto.Eval", func() { _, _ = vm.Eval(src) })
	if skipOttoCallNil(src) {
		l.excluded = append(l.excluded, "C02-OTTOCALL-EMPTY-BODY")
	} else {
		step("Otto.Call(src, nil)", func() { _, _ = vm.Call(src, nil) })
	}
	step("Otto.Call(src, this, args)", func() { _, _ = vm.Call(src, map[string]interface{}{"a": 1}, 1, "two", nil) })
	step("Otto.Call(new src)", func() { _, _ = vm.Call("new "+src, nil, 1) })
	step("Otto.Object", func() { _, _ = vm.Object(src) })
	step("Otto.Get(src)", func() { _, _ = vm.Get(src) })
	step("Otto.Set(src, src)", func() { _ = vm.Set(src, src) })
	// the text as a string *value*: the built-ins that take source-like strings
	step("Otto.Set(string value)", func() { _ = vm.Set("__s", src) })
	skipFn := breaksFunctionWrapper("", src) || breaksFunctionWrapper(src, src) || breaksFunctionWrapper("a", src)
	if skipFn {
		l.excluded = append(l.excluded, "C02-PARSEFUNCTION-WRAPPER")
	}
	step("Otto.Set(flag)", func() { _ = vm.Set("__skipFn", skipFn) })
	step("string intake", func() {
		_, _ = vm.Run(`(function(s){ var r=[]; function t(f){ try { r.push(String(f())) } catch(e) { r.push("E:"+e) } }
		 t(function(){return s.length}); t(function(){return s.charAt(1)+s.charCodeAt(2)}); t(function(){return s.toUpperCase().toLowerCase()});
		 t(function(){return escape(s)}); t(function(){return encodeURIComponent(s)}); t(function(){return decodeURIComponent(s)}); t(function(){return unescape(s)});
		 t(function(){return JSON.stringify(s)}); t(function(){return JSON.parse(s)}); t(function(){return JSON.stringify(JSON.parse(s))});
		 t(function(){return new RegExp(s).exec(s)}); t(function(){return new RegExp(s,"gim").test(s)}); t(function(){return s.split(s.charAt(0)).length});
		 t(function(){return s.replace(s.substr(1,2), "$&$1")}); t(function(){return s.indexOf(s.slice(-3))+s.lastIndexOf("a")}); t(function(){return s.localeCompare(s+"x")});
		 t(function(){return eval(s)}); t(function(){return (0,eval)(s)}); if (!__skipFn) { t(function(){return Function(s)}); t(function(){return Function(s, s)}); t(function(){return new Function("a", s)()}) }
		 t(function(){return Number(s)+parseInt(s)+parseFloat(s)}); t(function(){return Date.parse(s)}); t(function(){return new Date(s).getTime()});
		 t(function(){var o={}; o[s]=1; return Object.keys(o)[0]===s}); t(function(){return s.trim().substring(1,5).concat(s)}); t(function(){return s.match(/\W+/g)});
		 return r.join("|") })(__s)`)
	})
	return l, nontrivial
}

// offsetOf converts otto's 1-based (line, column-in-characters) to a byte offset (file.Position.Offset
// is never filled in by the parser). Only used to count the tokens before the first error.
func offsetOf(src string, line, col int) int {
	l, c := 1, 1
	for i, r := range src {
		if l == line && c >= col {
			return i
		}
		switch r {
		case '\n', '\u2028', '\u2029':
			l, c = l+1, 1
		case '\r':
			if i+1 < len(src) && src[i+1] == '\n' {
				c++
				continue
			}
			l, c = l+1, 1
		default:
			c++
		}
		if l > line {
			return i
		}
	}
	return len(src)
}

var regexpAtoms = []string{"(", ")", "(?", "(?:", "(?=", "(?!", "(?<", "[", "]", "[^", "-", "{", "}", "{1", "{1,", "{1,2}", "\\", "\\u", "\\u00", "\\x", "\\c", "\\1", "\\k<", "\\d", "\\b", "|", "*", "+", "?", ".", "^", "$", "a", "b", "/", "\n", "\u00e9", "\U0001F600", ","}

// regexpSeeds: valid and near-valid pattern bodies; mode "regexp-prefixes" truncates each at every position.
var regexpSeeds = []string{
	`(?:a)b`, `(?=a)b`, `(?!a)b`, `(?<n>a)\k<n>`, `(?<=a)b`, `(?i)a`, `(?P<x>a)`, `(a)|(b)\1\2`, `(((a))(b))\3`, `\1(a)`,
	`[a-z]`, `[^\]\\]`, `[\b\d-x]`, `[]`, `[^]`, `[z-a]`, `[[:alpha:]]`, `[a-\d]`, `[\u0041-\x5a]`,
	`a{1,2}`, `a{1,}`, `a{12}?`, `a{,5}`, `a{2}{3}`, `x{`, `a{99999}`, `a*?b+?c??`, `^*$+`, `\b{2}`,
	`\u0041\x41\cA\0\08`, `\u00`, `\x4`, `\c`, `\c1`, `\u{1F600}`, `\p{L}\P{Lu}`, `\d+\D\w\W\s\S\b\B`, `\/\.\$\(\)`, `\Qa\E\z\A\C`,
	`a|b||c|`, `.`, `^$`, `()`, `(|)`, `(?:)`, `)`, `]`, `}`, `*a`, `+`, `?`, `a**`, "a\\\nb", "\u00e9(\U0001F600)[\u2028]", "a\x00b",
}

const regexpOps = 12

// runRegexpPrefixes: every prefix of the pattern as a regular expression literal (through Compile, Run,
// Eval) and as a string handed to RegExp, new RegExp, compile, match, search, split and replace.
func runRegexpPrefixes(pattern string, limit int) (l entryLog) {
	var vm *otto.Otto
	fresh := func() { vm = newVM(limit, 30000) }
	fresh()
	step := func(name string, fn func()) {
		harness.Arm(vm, 30000)
		before := len(l.panics)
		l.call(name, fn)
		if len(l.panics) > before {
			fresh()
		}
	}
	for k := 0; k <= len(pattern); k++ {
		p := pattern[:k]
		lit := "/" + p + "/"
		where := func(s string) string { return fmt.Sprintf("%s with pattern %q", s, p) }
		step(where("parser.ParseFile(/p/)"), func() { _, _ = parser.ParseFile(nil, "", lit, 0) })
		step(where("parser.ParseFile(/p/, IgnoreRegExpErrors)"), func() { _, _ = parser.ParseFile(nil, "", lit+"g", parser.IgnoreRegExpErrors) })
		step(where("parser.TransformRegExp"), func() { _, _ = parser.TransformRegExp(p) })
		step(where("Otto.Compile(/p/)"), func() { _, _ = vm.Compile("", lit+"gim") })
		step(where("Otto.Run(/p/.test)"), func() { _, _ = vm.Run(lit + `.test("xab")`) })
		step(where("Otto.Eval(x = /p/)"), func() { _, _ = vm.Eval("var x = " + lit + "; x.source") })
		step(where("Otto.Set(pattern)"), func() { _ = vm.Set("__p", p) })
		for _, js := range []string{`new RegExp(__p)`, `RegExp(__p, "g").exec("xab")`, `/x/.compile(__p)`, `"xab".match(__p)`, `"xab".search(__p)`, `"xab".split(__p)`, `"xab".replace(__p, "$1$&")`, `"xab".replace(new RegExp(__p, "g"), function(m){return m})`} {
			js := js
			step(where("Otto.Run("+js+")"), func() { _, _ = vm.Run(js) })
		}
		step(where("Otto.Call(new RegExp, nil, p)"), func() { _, _ = vm.Call("new RegExp", nil, p, "g") })
	}
	l.classes = append(l.classes, "regexp-prefixes")
	return l
}

// ---- reference races: a binding that disappears between the evaluation of a reference and its use --------

// scopes: %B is the body; x (and the function g) are declared in a way that makes them deletable or not.
var raceScopes = []struct{ name, src string }{
	{"function-eval-var", `(function(){ eval("var x = 1; function g(){ return 1 }"); %B })()`},
	{"function-eval-var-closure", `(function(){ eval("var x = 1; function g(){ return 1 }"); return (function(){ %B })() })()`},
	{"global-eval-var", `eval("var x = 1; function g(){ return 1 }"); %B`},
	{"global-implicit", `x = 1; g = function(){ return 1 }; %B`},
	{"global-var", `var x = 1; function g(){ return 1 } %B`},
	{"function-var", `(function(){ var x = 1; function g(){ return 1 } %B })()`},
	{"function-param", `(function(x, g){ %B })(1, function(){ return 1 })`},
	{"with-object", `var o = {x: 1, g: function(){ return 1 }}; with (o) { %B }`},
	{"with-object-in-function", `(function(){ var o = {x: 1, g: function(){ return 1 }}; with (o) { %B } })()`},
	{"catch-param", `try { throw 1 } catch (x) { var g = function(){ return 1 }; %B }`},
	{"nested-eval", `(function(){ eval("eval('var x = 1'); function g(){ return 1 }"); %B })()`},
	{"function-eval-var-with-try", `(function(){ eval("var x = 1; function g(){ return 1 }"); try { %B } finally { typeof x } })()`},
	{"function-eval-var-caught", `(function(){ eval("var x = 1; function g(){ return 1 }"); try { %B } catch (e) { return String(e) } })()`},
}

// deletions: %D in an operation; each removes (or tries to remove) the binding x / g / the property.
var raceDeletes = []struct{ name, x, g string }{
	{"delete", `delete x`, `delete g`},
	{"eval-delete", `eval("delete x")`, `eval("delete g")`},
	{"closure-delete", `(function(){ return delete x })()`, `(function(){ return delete g })()`},
	{"closure-eval-delete", `(function(){ return eval("delete x") })()`, `(function(){ return eval("delete g") })()`},
	{"with-object-delete", `(typeof o === "object" ? delete o.x : delete x)`, `(typeof o === "object" ? delete o.g : delete g)`},
	{"this-delete", `delete this.x`, `delete this.g`},
	{"redeclare-after-delete", `(delete x, eval("var x = 9"), delete x)`, `(delete g, eval("function g(){}"), delete g)`},
}

// operations: every reference-consuming form, with the deletion %DX (of x) / %DG (of g) between resolve and use.
var raceOps = []string{
	`x = (%DX, 2); return typeof x`, `x += (%DX, 2); return typeof x`, `x -= {valueOf: function(){ %DX; return 1 }}; return typeof x`, `x = x + (%DX, x)`, `x = (%DX, x)`,
	`var v = {valueOf: function(){ %DX; return 1 }}; x = v; x++; return typeof x`, `x = {valueOf: function(){ %DX; return 1 }}; x++; return typeof x`, `x = {valueOf: function(){ %DX; return 1 }}; --x; return typeof x`,
	`x = {valueOf: function(){ %DX; return 1 }}; x *= 2; return typeof x`, `x <<= (%DX, 1); x >>>= 1; x |= (%DX, 1); return x`, `x = (%DX, %DX, 3); return x`,
	`var x = (%DX, 3); return x`, `for (x in (%DX, {a: 1})) ; return typeof x`, `for (x in {a: 1, b: 2}) { %DX } return typeof x`, `for (var x in {a: 1}) { %DX } return typeof x`,
	`for (x = 0; x < 2; x++) { %DX } return typeof x`, `%DX; return typeof x`, `%DX; return x`, `%DX; x++; return x`, `%DX; x += 1; return x`, `%DX; return delete x`, `return [x, %DX, typeof x]`,
	`return g(%DG)`, `return new g(%DG)`, `return g.call(null, %DG) + g()`, `g = (%DG, 2); return typeof g`, `return (%DG, g)()`, `return typeof g(%DG) + typeof g`, `return [g, %DG][0]()`,
	`g((%DG, %DX)); return typeof x + typeof g`, `x = g(%DX); return x`, `x = function(){ return %DX }(); return x`, `x = eval("%DX; 5"); return typeof x`, `eval("x = (%DX, 4)"); return typeof x`,
	`(function(){ x = (%DX, 6) })(); return typeof x`, `(function(){ x += (%DX, 6) })(); return typeof x`, `return (function(){ return typeof x + (%DX) + typeof x })()`,
	`x.y = (%DX, 1)`, `x[%DX] = 1; return typeof x`, `return x[(%DX, "toString")]()`, `return x.toString(%DX)`, `with ({}) { x = (%DX, 7) } return typeof x`, `switch (x) { case (%DX, 1): x = 2 } return typeof x`,
	`try { x = (%DX, thrower()) } finally { x = 8 }`, `x = (%DX, 2), x = (%DX, 3); return typeof x`, `return typeof x + (%DX) + (x = 1) + (%DX) + typeof x`, `return x === (%DX, x)`,
	`arguments; x = (%DX, arguments.length)`, `return delete x && delete x && (x = 1, delete x)`, `if (%DX) { x = 1 } else { x = 2 } return delete x`,
}

func raceScripts() [][]string {
	var all [][]string
	for _, sc := range raceScopes {
		for _, op := range raceOps {
			var out []string
			for _, d := range raceDeletes {
				body := strings.ReplaceAll(strings.ReplaceAll(op, "%DX", d.x), "%DG", d.g)
				if strings.HasPrefix(sc.src, "(function") {
					out = append(out, strings.ReplaceAll(sc.src, "%B", body))
				} else {
					// global code cannot "return": wrap the body's value
					out = append(out, strings.ReplaceAll(sc.src, "%B", strings.ReplaceAll(body, "return ", "__r = ")))
				}
			}
			all = append(all, out)
		}
	}
	return all
}

// ---- reference-consuming operators on operands that are not references ------------------------------------

const operandPrelude = `var a = 1, b = 2, c = 3, o = {m: function(){ return 1 }, x: 1}, f = function(){ return 1 }, g = function(){ return f }, F = function(){ this.x = 1 }; `

// %E is the operand
var refOperators = []string{
	`%E++`, `%E--`, `++%E`, `--%E`, `- --%E`, `%E++ + ++%E`, `%E = 1`, `%E += 1`, `%E -= 1`, `%E *= 2`, `%E /= 2`, `%E %= 2`, `%E <<= 1`, `%E >>= 1`, `%E >>>= 1`, `%E &= 1`, `%E |= 1`, `%E ^= 1`,
	`%E = %E`, `a = %E = 2`, `delete %E`, `typeof %E`, `void %E`, `for (%E in {k: 1}) ;`, `for (%E in {k: 1}) break`, `for (var q in %E) ;`, `for (;; %E++) break`, `for (%E = 0; false;) ;`,
	`%E()`, `new %E`, `new %E()`, `%E.x = 1`, `%E.x++`, `%E[0] += 1`, `delete %E.x`, `(%E)++`, `((%E)) = 1`, `with (%E) a++`, `[%E][0]++`, `%E ? %E++ : --%E`, `a = (%E++, 1)`, `!%E--`, `typeof %E++`,
}

var nonReferenceOperands = []string{
	`f()`, `o.m()`, `g()()`, `g(1)(2)`, `f.call(null)`, `eval("a")`, `(function(){ return a })()`, `new F`, `new F()`, `new F().x`, `new (g())`, `f().x`, `f()[0]`, `o.m().y.z`,
	`1`, `"s"`, `null`, `true`, `undefined`, `NaN`, `/r/`, `[1]`, `({})`, `({x: 1}).x`, `this`, `this.a`, `arguments`, `function(){}`, `(function(){})`,
	`(a + b)`, `a + b`, `(a, b)`, `(a ? b : c)`, `(a || b)`, `(a = 1)`, `(a)`, `((a))`, `(o.x)`, `(f())`, `((f()))`, `a++`, `++a`, `-a`, `!a`, `typeof a`, `void 0`, `delete a`, `(a in o)`, `(a instanceof F)`,
}

var operandContexts = []struct{ name, src string }{
	{"statement", `%S`},
	{"function", `(function(){ %S })()`},
	{"expression", `var r = (%X)`},
	{"for-update", `for (var i = 0; i < 2; i++, %X) ;`},
	{"return", `(function(){ return %X })()`},
	{"eval", `eval(%Q)`},
	{"indirect-eval", `(0, eval)(%Q)`},
	{"Function", `Function(%Q)()`},
	{"getter", `({get p(){ %S }}).p`},
	{"try-less finally", `try { %S } finally { a = 0 }`},
}

// operandScripts: one group per (operator, context), all operand shapes inside.
func operandScripts() [][]string {
	var all [][]string
	for _, ctx := range operandContexts {
		for _, op := range refOperators {
			isStatement := strings.HasPrefix(op, "for ") || strings.HasPrefix(op, "with ")
			if isStatement && strings.Contains(ctx.src, "%X") {
				continue
			}
			var group []string
			for _, e := range nonReferenceOperands {
				st := strings.ReplaceAll(op, "%E", e)
				src := strings.ReplaceAll(ctx.src, "%S", st)
				src = strings.ReplaceAll(src, "%X", st)
				src = strings.ReplaceAll(src, "%Q", harness.JSString(st))
				group = append(group, operandPrelude+src)
			}
			all = append(all, group)
		}
	}
	return all
}

// runScriptOnly: a (syntactically valid) script through the evaluating entry points only.
func runScriptOnly(src string, limit int, brief bool) (l entryLog) {
	var vm *otto.Otto
	fresh := func() {
		vm = newVM(limit, 30000)
		_ = vm.Set("log", func(call otto.FunctionCall) otto.Value { return otto.UndefinedValue() })
	}
	wrapped := "(function(){ " + src + " })"
	for _, e := range []struct {
		name string
		fn   func()
	}{
		{"parser.ParseFile", func() { _, _ = parser.ParseFile(nil, "", src, 0) }},
		{"Otto.Run(string)", func() { _, _ = vm.Run(src) }},
		{"Otto.Eval", func() { _, _ = vm.Eval(src) }},
		{"Otto.Compile+Run", func() {
			if s, err := vm.Compile("", src); err == nil {
				_, _ = vm.Run(s)
			}
		}},
		{"Otto.Call(function wrapper, nil)", func() { _, _ = vm.Call(wrapped, nil) }},
		{"Value.Call(function wrapper) at rest", func() {
			if f, err := vm.Run(wrapped); err == nil {
				_, _ = f.Call(otto.UndefinedValue())
			}
		}},
		{"Otto.Run(eval(text))", func() { _ = vm.Set("__t", src); _, _ = vm.Run(`eval(__t)`) }},
		{"Otto.Run(Function(text)())", func() { _ = vm.Set("__t", src); _, _ = vm.Run(`Function(__t)()`) }},
	} {
		if brief && (strings.HasPrefix(e.name, "Otto.Run(eval") || strings.HasPrefix(e.name, "Otto.Run(Function") || strings.HasPrefix(e.name, "Otto.Call")) {
			continue // the operand family has eval / Function / function contexts of its own
		}
		if vm == nil || len(l.panics) > 0 {
			fresh()
		}
		harness.Arm(vm, 30000)
		if l.call(e.name+" of "+src, e.fn) {
			l.classes = append(l.classes, "budget-sentinel")
		}
	}
	l.classes = append(l.classes, "script-only")
	return l
}

func runSource(c sourceCase) (res jobResult) {
	src := string(c.bytes())
	if c.Mode == "reference-race" || c.Mode == "non-reference-operand" {
		// every piece is a script of its own
		for _, p := range c.Pieces {
			l := runScriptOnly(p.T, c.Limit, c.Mode == "non-reference-operand")
			res.Panics = append(res.Panics, l.panics...)
			res.Classes = append(res.Classes, l.classes...)
		}
		res.Classes = append(res.Classes, "mode:"+c.Mode)
		res.Nontrivial = true
		return res
	}
	if c.Mode == "regexp-prefixes" {
		if len(src) > 200 {
			src = src[:200]
		}
		l := runRegexpPrefixes(src, c.Limit)
		res.Panics = l.panics
		res.Classes = append(l.classes, "mode:"+c.Mode)
		res.Nontrivial = len(src) >= 2
		return res
	}
	l, nt := runSourceText(src, c.Limit)
	res.Panics = l.panics
	res.Excluded = l.excluded
	res.Classes = append(l.classes, "mode:"+c.Mode)
	res.Nontrivial = nt
	return res
}

func checkSource(c sourceCase) harness.Outcome {
	if id := excludedSource(c); id != "" {
		return harness.Outcome{Excluded: []string{id}, Classes: []string{"steered-around-known-finding"}}
	}
	src := c.bytes()
	limit := watchdog
	if len(src) > 8000 {
		limit = 4 * watchdog // expected: seconds, not milliseconds
	}
	res, fatal := dispatchWithin(job{Kind: "source", Source: &c}, limit)
	out := harness.Outcome{Classes: res.Classes, Nontrivial: res.Nontrivial, Excluded: res.Excluded}
	show := fmt.Sprintf("%q", truncate(string(src), 400))
	if fatal != "" {
		out.Nontrivial = true
		triageFatal(fmt.Sprintf("source: %s :: %s", oneLine(fatal, 500), oneLine(fmt.Sprint(c), 300)))
		if os.Getenv("C02_TRIAGE") != "" {
			return out
		}
		out.Fail = fmt.Sprintf("source text of %d bytes: %s\nsource: %s\n(property C02: for any source text Run/Eval/Compile/Call/Object/ParseFile/ParseFunction return)", len(src), oneLine(fatal, 700), show)
		return out
	}
	if res.Note != "" && len(res.Classes) == 0 {
		out.Fail = "worker: " + res.Note
		return out
	}
	if res.Millis > 3000 {
		out.Classes = append(out.Classes, "slow>3s")
		triageFatal(fmt.Sprintf("SLOW %d ms: %s", res.Millis, oneLine(fmt.Sprint(c), 300)))
	}
	for _, p := range res.Panics {
		if id := knownSourcePanic(p); id != "" {
			out.Excluded = append(out.Excluded, id)
			continue
		}
		triageFatal(fmt.Sprintf("source-panic: %s: %s :: %s", p.Where, p.Text, oneLine(string(src), 300)))
		if os.Getenv("C02_TRIAGE") != "" {
			continue
		}
		out.Fail = fmt.Sprintf("a Go panic crossed %s: %s\nsource (%d bytes): %s\n(property C02: no Go runtime panic escapes the public API)", p.Where, p.Text, len(src), show)
		return out
	}
	return out
}

func truncate(s string, n int) string {
	if len(s) > n {
		return s[:n] + "…"
	}
	return s
}

var sourceFacet = harness.Register(&harness.Facet[sourceCase]{
	Name:     "source-bytes",
	Rule:     "rapid: source text built from pieces — a token soup (every ES5 keyword and future reserved word, every punctuator, identifiers incl. unicode escapes, numeric/string/regexp literals in valid, partial and hostile forms, comments, line terminators, BOM, hostile one-line snippets), raw invalid UTF-8 / NUL bytes, pieces repeated up to 20000 times (very long identifiers and numbers), nesting openers repeated 3…5000 times with or without matching closers, inline base64 source maps, and regular-expression bodies (seed patterns and atom soups) cut at EVERY position and used both as /literal/ and as the string handed to RegExp, new RegExp, compile, match, search, split, replace and parser.TransformRegExp, scripts applying every reference-consuming operator (postfix/prefix ++ --, = and the eleven compound assignments, delete, typeof, void, for-in targets, for-update, call, new, member writes, with; 43 forms) to every operand shape that is not (or only looks like) a reference (calls, new, literals, this, arguments, function expressions, parenthesised/binary/comma/conditional/assignment expressions, unary and update results; 50 shapes) in 10 contexts (statement, function, expression, for-update, return, eval, indirect eval, Function(), getter, try/finally; enumerated completely, nested by rapid), scripts of the reference-race family (13 ways of declaring x and g — eval-declared in function/global/nested-eval code, implicit globals, var, parameters, with-objects, catch parameters — × 50 reference-consuming operations: plain/compound assignment, ++/--, for-in targets, var initialisers, typeof, calls, new, member writes, closures, eval, switch, try/finally — × 7 ways of deleting the binding between the evaluation of the reference and its use; enumerated completely and recombined by rapid; run through Run, Eval, Compile+Run, Otto.Call, Value.Call at rest, eval(text) and Function(text)()), and valid programs from the semantic generator that are truncated, cut, spliced with another program, have ranges duplicated and tokens or raw bytes inserted. Each text goes, inside a worker subprocess on a runtime with stack depth limit ∈ {2,5,16,64,500} and a poll budget, through parser.ParseFile (two modes), parser.ParseFunction (as parameters and as body), the public scanner, (texts ≤ 300 bytes: ParseFile and ParseFunction on EVERY prefix, i.e. end of input after and inside every token), Otto.Compile, Run(*Script), Run(string), Run(*ast.Program), Run(io.Reader), Eval, Otto.Call (three forms), Otto.Object, Otto.Get/Set with the text as name, and as a string value through eval/Function/RegExp/JSON.parse/URI/Date.parse/etc. Oracle: every call returns; no Go panic crosses the API (the poll-budget sentinel excepted); the worker survives and answers. Non-trivial = the text is accepted or otto's scanner delivers ≥ 3 tokens before the first syntax error; distinct by the piece list",
	Quick:    300,
	Thorough: 2500,
	Gen:      genSource,
	Check:    checkSource,
})

func TestSourceBytes(t *testing.T) { sourceFacet.Run(t) }

// TestHostileSnippets runs every hostile one-liner of the soup on its own through all entry points
// (a finite list; the generated texts above mix them with everything else).
func TestHostileSnippets(t *testing.T) {
	if harness.Shard() != 0 {
		return
	}
	var cases []sourceCase
	for _, sn := range activeSnippets() {
		cases = append(cases, sourceCase{Pieces: []piece{{T: sn}}, Limit: 64, Mode: "snippet"})
	}
	for _, lit := range soupLiterals {
		cases = append(cases, sourceCase{Pieces: []piece{{T: lit}}, Limit: 64, Mode: "literal"})
	}
	for _, re := range regexpSeeds {
		cases = append(cases, sourceCase{Pieces: []piece{{T: re}}, Limit: 64, Mode: "regexp-prefixes"})
	}
	for _, group := range raceScripts() {
		c := sourceCase{Limit: 64, Mode: "reference-race", Sep: "\n"}
		for _, sc := range group {
			c.Pieces = append(c.Pieces, piece{T: sc})
		}
		cases = append(cases, c)
	}
	for _, group := range operandScripts() {
		c := sourceCase{Limit: 64, Mode: "non-reference-operand", Sep: "\n"}
		for _, sc := range group {
			c.Pieces = append(c.Pieces, piece{T: sc})
		}
		cases = append(cases, c)
	}
	// several workers (the cache only saves time: Check stays a function of the case)
	outs := make([]harness.Outcome, len(cases))
	var wg sync.WaitGroup
	next := make(chan int, len(cases))
	for i := range cases {
		next <- i
	}
	close(next)
	for w := 0; w < 4; w++ {
		wg.Add(1)
		go func() {
			defer wg.Done()
			for i := range next {
				outs[i] = checkSource(cases[i])
			}
		}()
	}
	wg.Wait()
	idx := map[string]int{}
	for i, c := range cases {
		idx[fmt.Sprint(c)] = i
	}
	orig := sourceFacet.Check
	sourceFacet.Check = func(c sourceCase) harness.Outcome {
		if i, ok := idx[fmt.Sprint(c)]; ok {
			return outs[i]
		}
		return orig(c)
	}
	defer func() { sourceFacet.Check = orig }()
	sourceFacet.Each(t, cases)
}
