package c02

import (
	"fmt"
	"math"
	"strings"

	"github.com/robertkrimen/otto"
)

// A kind is one sort of value used as receiver and as argument. Expr is a self-contained ES5
// expression that builds a fresh value each time it is evaluated (on a runtime prepared by
// prepareVM, which defines the __go* host values).
type kind struct {
	Name    string
	Expr    string
	Home    string      // which built-in family the value is the designed receiver of ("" = none)
	Hostile bool        // object with programmable / throwing / recursive conversion, odd structure, or host value
	Go      interface{} // native Go value passed instead of an otto.Value on the Go-side calls (nil = pass the Value)
	Group   int         // receiver group (one runtime per function × group)
	Prim    bool        // the value is a primitive (computed from typeof at start-up)
}

// throwerExpr is only generated while A9 is repaired: an uncaught value whose ToString throws.
const throwerExpr = `({valueOf:function(){throw {toString:function(){throw 1}}},toString:function(){throw {toString:function(){throw 2}}}})`

var kinds = buildKinds()

func buildKinds() []kind {
	ks := []kind{
		// primitives
		{Name: "undefined", Expr: `undefined`},
		{Name: "null", Expr: `null`},
		{Name: "true", Expr: `true`, Home: "boolean", Go: true},
		{Name: "false", Expr: `false`, Home: "boolean", Go: false},
		{Name: "zero", Expr: `0`, Home: "number", Go: 0},
		{Name: "negzero", Expr: `-0`, Home: "number", Go: math.Copysign(0, -1)},
		{Name: "one", Expr: `1`, Home: "number", Go: int64(1)},
		{Name: "neg1", Expr: `-1`, Home: "number", Go: int8(-1)},
		{Name: "half", Expr: `2.5`, Home: "number", Go: float32(2.5)},
		{Name: "nan", Expr: `NaN`, Home: "number", Go: math.NaN()},
		{Name: "inf", Expr: `Infinity`, Home: "number", Go: math.Inf(1)},
		{Name: "neginf", Expr: `-Infinity`, Home: "number", Go: math.Inf(-1)},
		{Name: "2^53", Expr: `9007199254740992`, Home: "number", Go: uint64(1) << 53},
		{Name: "2^32-1", Expr: `4294967295`, Home: "number", Go: uint32(math.MaxUint32)},
		{Name: "2^31", Expr: `2147483648`, Home: "number", Go: int64(1) << 31},
		{Name: "-2^31-1", Expr: `-2147483649`, Home: "number"},
		{Name: "1e21", Expr: `1e21`, Home: "number", Go: 1e21},
		{Name: "denormal", Expr: `5e-324`, Home: "number", Go: 5e-324},
		{Name: "21", Expr: `21`, Home: "number", Go: 21},
		{Name: "101", Expr: `101`, Home: "number", Go: uint16(101)},
		{Name: "37", Expr: `37`, Home: "number", Go: uint8(37)},
		{Name: "empty-string", Expr: `""`, Home: "string", Go: ""},
		{Name: "ascii", Expr: `"abc"`, Home: "string", Go: "abc"},
		{Name: "numeric-string", Expr: `" 42 "`, Home: "string", Go: " 42 "},
		{Name: "astral", Expr: "\"a\U0001F600b\U00010000\"", Home: "string", Go: "a\U0001F600b\U00010000"},
		{Name: "bmp", Expr: `"\u00e9\ufffd\u2028\uffff\u0000z"`, Home: "string", Go: "\u00e9\ufffd\u2028\uffff\x00z"},
		{Name: "lone-surrogate", Expr: `"\ud800x\udc00"`, Home: "string"},
		{Name: "invalid-utf8", Expr: `__gobad`, Home: "string", Go: "a\xff\xfe\xc0\x80b\xed\xa0\x80", Hostile: true},
		{Name: "long-string", Expr: `new Array(300).join("xy")`, Home: "string"},
		{Name: "key-length", Expr: `"length"`, Home: "string", Go: "length"},
		{Name: "key-0", Expr: `"0"`, Home: "string", Go: "0"},
		{Name: "key-proto", Expr: `"__proto__"`, Home: "string", Go: "__proto__"},
		{Name: "key-constructor", Expr: `"constructor"`, Home: "string", Go: "constructor"},
		{Name: "key-valueOf", Expr: `"valueOf"`, Home: "string", Go: "valueOf"},
		{Name: "pattern-string", Expr: `"(a*)*$|[\\s\\S]{0,3}(?=x)\\1"`, Home: "string"},
		{Name: "code-string", Expr: `"var q = 1; while (q) q++; return q"`, Home: "string"},
		{Name: "json-string", Expr: `"{\"a\":[1,{\"b\":null}],\"__proto__\":{\"x\":1}}"`, Home: "string"},
		{Name: "date-string", Expr: `"2000-01-01T00:00:00.000Z"`, Home: "string"},
		{Name: "percent-string", Expr: `"%E0%A4%A%u12%uD800%"`, Home: "string"},
		{Name: "locale-en-US", Expr: `"en-US"`, Home: "string", Go: "en-US"},
		{Name: "locale-de", Expr: `"de"`, Home: "string", Go: "de"},

		// plain objects and arrays
		{Name: "object", Expr: `({})`, Home: "object"},
		{Name: "object-ab", Expr: `({a:1,b:"x",c:{d:[1,2]}})`, Home: "object"},
		{Name: "array-empty", Expr: `[]`, Home: "array"},
		{Name: "array-3", Expr: `[3,1,2]`, Home: "array"},
		{Name: "array-mixed", Expr: `[undefined,null,"b",{},[1],NaN,-0,function(){}]`, Home: "array"},
		{Name: "array-holes", Expr: `[1,,3,,]`, Home: "array"},
		{Name: "array-sparse", Expr: `(function(){var a=[];a[7]="s";a[3]=undefined;a[9999]=1;return a})()`, Home: "array", Hostile: true},
		{Name: "array-nested", Expr: `[[1,[2,[3,[4]]]],[5]]`, Home: "array"},
		{Name: "array-cyclic", Expr: `(function(){var a=[1];a[1]=a;a[2]=[a];return a})()`, Home: "array", Hostile: true},
		{Name: "array-props", Expr: `(function(){var a=[1,2];a.x=1;a["-1"]=2;a["01"]=3;a["4294967295"]=4;return a})()`, Home: "array", Hostile: true},
		{Name: "array-getter", Expr: `(function(){var a=[1,2,3];Object.defineProperty(a,"1",{get:function(){a.length=0;return 9},configurable:true});return a})()`, Home: "array", Hostile: true},
		{Name: "array-frozen", Expr: `Object.freeze([1,2,3])`, Home: "array", Hostile: true},
		{Name: "array-ro-length", Expr: `(function(){var a=[1,2,3];Object.defineProperty(a,"length",{writable:false});return a})()`, Home: "array", Hostile: true},
		{Name: "arraylike", Expr: `({length:3,0:"a",1:"b",2:"c"})`, Home: "object"},
		{Name: "arraylike-neg", Expr: `({length:-4294967294,0:1,1:2})`, Hostile: true}, // ToUint32 = 2 (length:-1 would be 2^32-1: out of the domain, DESIGN appendix B)
		{Name: "arraylike-str", Expr: `({length:"2",0:1,1:2})`, Hostile: true},
		{Name: "arraylike-frac", Expr: `({length:2.7,0:1,1:2,2:3})`, Hostile: true},
		{Name: "arraylike-nan", Expr: `({length:NaN,0:1})`, Hostile: true},
		{Name: "arraylike-1e4", Expr: `({length:1e4,0:"a",9999:"z"})`, Hostile: true},
		{Name: "arraylike-2^32+2", Expr: `({length:4294967298,0:"a",1:"b"})`, Hostile: true},
		{Name: "arraylike-objlen", Expr: `({length:{valueOf:function(){return 2}},0:1,1:2})`, Hostile: true},
		{Name: "arraylike-throwlen", Expr: `({get length(){throw new RangeError("len")},0:1})`, Hostile: true},
		{Name: "cyclic-object", Expr: `(function(){var o={a:1};o.self=o;o.list=[o];return o})()`, Hostile: true},
		{Name: "null-proto", Expr: `Object.create(null)`, Hostile: true},
		{Name: "null-proto-props", Expr: `Object.create(null,{a:{value:1,enumerable:true},length:{value:2},0:{value:"z",enumerable:true}})`, Hostile: true},
		{Name: "inherits-array", Expr: `Object.create([1,2,3])`, Hostile: true},
		{Name: "inherits-string", Expr: `Object.create(new String("abc"))`, Hostile: true},
		{Name: "inherits-function", Expr: `Object.create(function(){})`, Hostile: true},
		{Name: "inherits-date", Expr: `Object.create(new Date(0))`, Hostile: true},
		{Name: "inherits-regexp", Expr: `Object.create(/a/)`, Hostile: true},
		{Name: "frozen", Expr: `Object.freeze({a:1,b:[1]})`, Hostile: true},
		{Name: "sealed", Expr: `Object.seal({a:1})`, Hostile: true},
		{Name: "non-extensible", Expr: `Object.preventExtensions({a:1})`, Hostile: true},
		{Name: "throwing-getters", Expr: `({get a(){throw new Error("g")},get 0(){throw "s"},get toString(){throw new TypeError("ts")},get valueOf(){throw 7},get constructor(){throw null}})`, Hostile: true},
		{Name: "accessor-only-set", Expr: `({set a(v){},set length(v){throw new Error("setlen")}})`, Hostile: true},
		{Name: "descriptor-like", Expr: `({value:1,writable:true,get:function(){return 2},enumerable:{valueOf:function(){throw 1}}})`, Hostile: true},
		{Name: "descriptor-data", Expr: `({value:function(){return this},writable:0,enumerable:"",configurable:[]})`, Hostile: true},
		{Name: "descriptor-getundef", Expr: `({get:undefined,set:undefined,configurable:true})`, Hostile: true},

		// functions
		{Name: "function", Expr: `(function(a,b){return a})`, Home: "function"},
		{Name: "function-this", Expr: `(function(){return this})`, Home: "function"},
		{Name: "function-throws", Expr: `(function(){throw new URIError("cb")})`, Home: "function", Hostile: true},
		{Name: "function-throws-primitive", Expr: `(function(){throw undefined})`, Home: "function", Hostile: true},
		{Name: "function-returns-hostile", Expr: `(function(){return {valueOf:function(){throw new Error("late")},toString:function(){return {}}}})`, Home: "function", Hostile: true},
		{Name: "function-compare", Expr: `(function(a,b){return a<b?-1:a>b?1:0})`, Home: "function"},
		{Name: "function-inconsistent", Expr: `(function(){var n=0;return function(){return (n++%3)-1}})()`, Home: "function", Hostile: true},
		{Name: "bound", Expr: `(function(a){return [this,a]}).bind({x:1},1)`, Home: "function"},
		{Name: "bound-native", Expr: `Array.prototype.slice.bind([1,2,3],1)`, Home: "function", Hostile: true},
		{Name: "bound-bound", Expr: `Function.prototype.call.bind(Function.prototype.call)`, Home: "function", Hostile: true},
		{Name: "native-fn", Expr: `Math.max`, Home: "function"},
		{Name: "ctor-Array", Expr: `Array`, Home: "function"},
		{Name: "ctor-Object", Expr: `Object`, Home: "function"},
		{Name: "ctor-Function", Expr: `Function`, Home: "function"},
		{Name: "ctor-Date", Expr: `Date`, Home: "function"},
		{Name: "ctor-RegExp", Expr: `RegExp`, Home: "function"},
		{Name: "ctor-Error", Expr: `TypeError`, Home: "function"},
		{Name: "eval-fn", Expr: `eval`, Home: "function"},
		{Name: "fn-call", Expr: `Function.prototype.call`, Home: "function", Hostile: true},
		{Name: "fn-apply", Expr: `Function.prototype.apply`, Home: "function", Hostile: true},
		{Name: "fn-proto-hostile", Expr: `(function(){var f=function(){};f.prototype=3;return f})()`, Home: "function", Hostile: true},

		// other built-in classes
		{Name: "date", Expr: `new Date(86400000)`, Home: "date"},
		{Name: "date-invalid", Expr: `new Date(NaN)`, Home: "date", Hostile: true},
		{Name: "date-extreme", Expr: `new Date(8.64e15)`, Home: "date", Hostile: true},
		{Name: "regexp", Expr: `/a(b)?/g`, Home: "regexp"},
		{Name: "regexp-empty", Expr: `new RegExp("")`, Home: "regexp"},
		{Name: "regexp-lastindex", Expr: `(function(){var r=/(?:x)|()/gim;r.lastIndex={valueOf:function(){return -5}};return r})()`, Home: "regexp", Hostile: true},
		{Name: "regexp-frozen", Expr: `Object.freeze(/y/g)`, Home: "regexp", Hostile: true},
		{Name: "error", Expr: `new Error("m")`, Home: "error"},
		{Name: "error-type", Expr: `new TypeError("t")`, Home: "error"},
		{Name: "error-hostile", Expr: `(function(){var e=new RangeError("r");e.name={toString:function(){throw 5}};e.message=e;return e})()`, Home: "error", Hostile: true},
		{Name: "string-object", Expr: `new String("so")`, Home: "string"},
		{Name: "number-object", Expr: `new Number(7)`, Home: "number"},
		{Name: "boolean-object", Expr: `new Boolean(false)`, Home: "boolean"},
		{Name: "arguments", Expr: `(function(){return arguments})(1,"b",[3])`, Home: "object", Hostile: true},
		// values with a multi-step history (internal state left behind by refused or unusual operations)
		{Name: "hist-shrink-refused", Expr: `(function(){var a=[1,2,3];Object.defineProperty(a,"1",{configurable:false,value:1});a.length=0;return a})()`, Home: "array", Hostile: true},
		{Name: "hist-shrink-refused-caught", Expr: `(function(){var a=[1,2,3,4];Object.defineProperty(a,"2",{configurable:false,value:1});try{Object.defineProperty(a,"length",{value:1})}catch(e){}return a})()`, Home: "array", Hostile: true},
		{Name: "hist-shrink-refused-strict", Expr: `(function(){"use strict";var a=[1,2,3];Object.defineProperty(a,"0",{configurable:false,value:1});try{a.length=0}catch(e){}return a})()`, Home: "array", Hostile: true},
		{Name: "hist-shrink-refused-readonly", Expr: `(function(){var a=[1,2,3];Object.defineProperty(a,"1",{configurable:false,value:1});try{Object.defineProperty(a,"length",{value:0,writable:false})}catch(e){}return a})()`, Home: "array", Hostile: true},
		{Name: "hist-frozen-then-written", Expr: `(function(){var a=Object.freeze([1,2]);a[0]=9;a[5]=1;a.length=0;try{a.push(1)}catch(e){}try{a.pop()}catch(e){}return a})()`, Home: "array", Hostile: true},
		{Name: "hist-sealed-then-length-set", Expr: `(function(){var a=Object.seal([1,2,3]);a.length=1;try{a.length=5}catch(e){}try{a.shift()}catch(e){}return a})()`, Home: "array", Hostile: true},
		{Name: "hist-grown-then-shrunk", Expr: `(function(){var a=[1,2];a.length=20000;a[19999]=1;try{a.push(1)}catch(e){}a.length=2;return a})()`, Home: "array", Hostile: true},
		{Name: "hist-sparse-after-delete", Expr: `(function(){var a=[1,2,3,4];delete a[1];delete a[3];a.length=3;a.length=6;return a})()`, Home: "array", Hostile: true},
		{Name: "hist-ro-length-then-push", Expr: `(function(){var a=[1];Object.defineProperty(a,"length",{writable:false});try{a.push(2)}catch(e){}a[5]=1;try{a.unshift(0)}catch(e){}return a})()`, Home: "array", Hostile: true},
		{Name: "hist-length-odd-values", Expr: `(function(){var a=[1,2,3];a.length="2";a.length=new Number(1);try{a.length=1.5}catch(e){}try{a.length=-1}catch(e){}a.length={valueOf:function(){return 2}};return a})()`, Home: "array", Hostile: true},
		{Name: "hist-accessor-data-flips", Expr: `(function(){var o={a:1,b:2};delete o.a;o.a=3;Object.defineProperty(o,"b",{get:function(){return 1},configurable:true});Object.defineProperty(o,"b",{value:2});Object.defineProperty(o,"a",{set:function(v){}});Object.defineProperty(o,"a",{writable:true});return o})()`, Home: "object", Hostile: true},
		{Name: "hist-array-index-accessor-flips", Expr: `(function(){var a=[1,2,3];Object.defineProperty(a,"0",{get:function(){return 7},configurable:true});Object.defineProperty(a,"0",{value:1});Object.defineProperty(a,"5",{set:function(v){},configurable:true});delete a[5];a.length=2;return a})()`, Home: "array", Hostile: true},
		{Name: "hist-regexp-used", Expr: `(function(){var r=/a(b)?/g;r.exec("aab");r.lastIndex="1";r.test("ab");r.compile("b(c)","i");r.lastIndex=-1;return r})()`, Home: "regexp", Hostile: true},
		{Name: "hist-date-set-nan", Expr: `(function(){var d=new Date(0);d.setTime(NaN);d.setFullYear(2000);d.setMonth(1e9);d.setYear(99);return d})()`, Home: "date", Hostile: true},
		{Name: "hist-string-object-extras", Expr: `(function(){var s=new String("abc");s[5]="x";s.length=9;try{s[0]="z"}catch(e){}delete s[5];s.foo=1;return s})()`, Home: "string", Hostile: true},
		{Name: "hist-arguments-redefined", Expr: `(function(a,b){Object.defineProperty(arguments,"0",{get:function(){return 5},configurable:true});a=2;Object.defineProperty(arguments,"length",{value:7});delete arguments[1];b=3;return arguments})(1,2,3)`, Hostile: true},
		{Name: "hist-function-props", Expr: `(function(){var f=function(a,b){};f.prototype=null;try{f.length=9}catch(e){}delete f.prototype;try{Object.defineProperty(f,"name",{value:1,configurable:true})}catch(e){}f.caller;return f})()`, Home: "function", Hostile: true},
		{Name: "hist-error-props", Expr: `(function(){var e=new TypeError("m");delete e.message;e.name=undefined;e.stack;try{e.stack=1}catch(x){}Object.defineProperty(e,"message",{get:function(){return "g"}});return e})()`, Home: "error", Hostile: true},
		{Name: "hist-proto-swapped", Expr: `(function(){var a=[1,2];var o=Object.create(a);o.length=5;o[7]=1;Array.prototype.push.call(o,1);return o})()`, Hostile: true},
		{Name: "arguments-mapped", Expr: `(function(a,b){b=9;delete arguments[0];arguments.length=5;return arguments})(1,2,3)`, Hostile: true},

		// O: programmable conversions
		{Name: "valueOf-3", Expr: `({valueOf:function(){return 3}})`, Hostile: true},
		{Name: "toString-ts", Expr: `({toString:function(){return "ts"}})`, Hostile: true},
		{Name: "valueOf-huge", Expr: `({valueOf:function(){return 4294967296},toString:function(){return "1e400"}})`, Hostile: true},
		{Name: "valueOf-neg", Expr: `({valueOf:function(){return -2},toString:function(){return "-Infinity"}})`, Hostile: true},
		{Name: "conv-throws", Expr: `({valueOf:function(){throw new Error("vo")},toString:function(){throw 7}})`, Hostile: true},
		{Name: "conv-throws-null", Expr: `({valueOf:function(){throw null},toString:function(){throw undefined}})`, Hostile: true},
		{Name: "conv-objects", Expr: `({valueOf:function(){return {}},toString:function(){return []}})`, Hostile: true},
		{Name: "conv-absent", Expr: `({valueOf:undefined,toString:null})`, Hostile: true},
		{Name: "conv-noncallable", Expr: `({valueOf:1,toString:"s"})`, Hostile: true},
		{Name: "conv-recursive", Expr: `(function(){var o={valueOf:function(){return +o},toString:function(){return ""+o}};return o})()`, Hostile: true},
		{Name: "conv-mutual", Expr: `(function(){var a={},b={};a.toString=function(){return String(b)};b.toString=function(){return [a].join()};a.valueOf=function(){return b-0};b.valueOf=function(){return a*1};return a})()`, Hostile: true},
		{Name: "conv-mutates", Expr: `(function(){var n=0;return {valueOf:function(){return n++},toString:function(){return "s"+(n++)}}})()`, Hostile: true},
		{Name: "conv-undefined", Expr: `({valueOf:function(){},toString:function(){}})`, Hostile: true},

		// well-known objects
		{Name: "global", Expr: `(function(){return this})()`, Hostile: true, Group: 99},
		{Name: "Math", Expr: `Math`, Hostile: true, Group: 99},
		{Name: "JSON", Expr: `JSON`, Hostile: true, Group: 99},
		{Name: "console", Expr: `console`, Hostile: true, Group: 99},
		{Name: "Object.prototype", Expr: `Object.prototype`, Hostile: true, Group: 99},
		{Name: "Array.prototype", Expr: `Array.prototype`, Home: "array", Hostile: true, Group: 99},
		{Name: "Function.prototype", Expr: `Function.prototype`, Home: "function", Hostile: true, Group: 99},
		{Name: "String.prototype", Expr: `String.prototype`, Home: "string", Hostile: true, Group: 99},
		{Name: "Number.prototype", Expr: `Number.prototype`, Home: "number", Hostile: true, Group: 99},
		{Name: "Boolean.prototype", Expr: `Boolean.prototype`, Home: "boolean", Hostile: true, Group: 99},
		{Name: "Date.prototype", Expr: `Date.prototype`, Home: "date", Hostile: true, Group: 99},
		{Name: "RegExp.prototype", Expr: `RegExp.prototype`, Home: "regexp", Hostile: true, Group: 99},
		{Name: "Error.prototype", Expr: `Error.prototype`, Home: "error", Hostile: true, Group: 99},
		{Name: "TypeError.prototype", Expr: `TypeError.prototype`, Home: "error", Hostile: true, Group: 99},

		// host values (bridged Go containers and functions)
		{Name: "go-map", Expr: `__gomap`, Hostile: true, Group: 98},
		{Name: "go-map-int", Expr: `__gomapint`, Hostile: true, Group: 98},
		{Name: "go-slice", Expr: `__goslice`, Home: "array", Hostile: true, Group: 98},
		{Name: "go-slice-any", Expr: `__gosliceany`, Home: "array", Hostile: true, Group: 98},
		{Name: "go-array", Expr: `__goarray`, Home: "array", Hostile: true, Group: 98},
		{Name: "go-struct", Expr: `__gostruct`, Hostile: true, Group: 98},
		{Name: "go-struct-ptr", Expr: `__gostructptr`, Hostile: true, Group: 98},
		{Name: "go-func", Expr: `__gofunc`, Home: "function", Hostile: true, Group: 98},
		{Name: "go-native-func", Expr: `__gonative`, Home: "function", Hostile: true, Group: 98},
		{Name: "go-nil-ptr", Expr: `__gonilptr`, Hostile: true, Group: 98},
		{Name: "go-nil-map", Expr: `__gonilmap`, Hostile: true, Group: 98},
	}
	// receiver groups: Group 0 is assigned round-robin in blocks so that one runtime sees ~16 receivers
	g, n := 0, 0
	for i := range ks {
		if ks[i].Group != 0 {
			continue
		}
		ks[i].Group = g
		n++
		if n == 16 {
			g, n = g+1, 0
		}
	}
	ks = append(ks, conversionKinds()...)
	g, n = g+1, 0
	for i := range ks {
		if ks[i].Group != -1 {
			continue
		}
		ks[i].Group = g
		if n++; n == 16 {
			g, n = g+1, 0
		}
	}
	markPrimitives(ks)
	return ks
}

// conversionExprs: an EXISTING data property turned into an accessor (and accessor redefinitions) with each of
// get / set explicitly undefined, absent, or a function — on a plain object, through defineProperties, on an
// array index, a function, an arguments object. Returns name → expression of the object.
func conversionExprs() (names, exprs []string) {
	half := map[string][2]string{
		"undef":  {`get:undefined`, `set:undefined`},
		"absent": {``, ``},
		"fn":     {`get:function(){return 1}`, `set:function(v){}`},
	}
	order := []string{"undef", "absent", "fn"}
	hosts := []struct{ name, pre, def string }{
		{"object", `var o={x:1,y:2};`, `Object.defineProperty(o,"x",{%D});`},
		{"defineProperties", `var o={x:1,y:2};`, `Object.defineProperties(o,{x:{%D}});`},
		{"array-index", `var o=[1,2];`, `Object.defineProperty(o,"0",{%D});`},
		{"function-prop", `var o=function(){};o.x=1;`, `Object.defineProperty(o,"x",{%D});`},
		{"from-accessor", `var o={get x(){return 1},set x(v){}};`, `Object.defineProperty(o,"x",{%D});`},
		{"data-accessor-data-accessor", `var o={x:1};Object.defineProperty(o,"x",{get:function(){return 2},configurable:true});Object.defineProperty(o,"x",{value:3,configurable:true});`, `Object.defineProperty(o,"x",{%D});`},
	}
	for _, h := range hosts {
		for _, gk := range order {
			for _, sk := range order {
				if gk == "absent" && sk == "absent" {
					continue
				}
				if h.name != "object" && gk != "undef" && sk != "undef" {
					continue // the other hosts: only the combinations with an explicit undefined
				}
				var parts []string
				if half[gk][0] != "" {
					parts = append(parts, half[gk][0])
				}
				if half[sk][1] != "" {
					parts = append(parts, half[sk][1])
				}
				parts = append(parts, "configurable:true", "enumerable:true")
				names = append(names, fmt.Sprintf("d2a-%s-get-%s-set-%s", h.name, gk, sk))
				exprs = append(exprs, `(function(){`+h.pre+strings.ReplaceAll(h.def, "%D", strings.Join(parts, ","))+`return o})()`)
			}
		}
	}
	return names, exprs
}

func conversionKinds() []kind {
	var out []kind
	names, exprs := conversionExprs()
	for i, name := range names {
		key := `"x"`
		if strings.Contains(name, "array-index") {
			key = `"0"`
		}
		desc := `Object.getOwnPropertyDescriptor(` + exprs[i] + `,` + key + `)`
		out = append(out, kind{Name: name, Expr: exprs[i], Hostile: true, Group: -1})
		if strings.HasPrefix(name, "d2a-object-") {
			out = append(out, kind{Name: name + "-descriptor", Expr: desc, Hostile: true, Group: -1})
		}
		if strings.Contains(name, "get-undef") {
			out = append(out, kind{Name: name + "-getter-value", Expr: desc + `.get`, Hostile: true, Group: -1})
		}
		if strings.Contains(name, "set-undef") {
			out = append(out, kind{Name: name + "-setter-value", Expr: desc + `.set`, Hostile: true, Group: -1})
		}
	}
	return out
}

// markPrimitives sets Prim from `typeof` on a scratch runtime.
func markPrimitives(ks []kind) {
	vm := otto.New()
	prepareVM(vm)
	for i := range ks {
		if ks[i].Name == "null" {
			ks[i].Prim = true
			continue
		}
		v, err := vm.Run("typeof (" + ks[i].Expr + ")")
		if err != nil {
			continue
		}
		s, _ := v.ToString()
		ks[i].Prim = s != "object" && s != "function"
	}
}

// throwers are appended to the kinds while A9 no longer reproduces (see known findings): they throw
// values that cannot be converted to a string, which is what otto does with an uncaught exception.
var throwerKinds = []kind{
	{Name: "conv-throws-unprintable", Expr: throwerExpr, Hostile: true, Group: 97},
	{Name: "conv-throws-unconvertible", Expr: `({valueOf:function(){throw Object.create(null)},toString:function(){throw {toString:function(){return {}},valueOf:function(){return {}}}}})`, Hostile: true, Group: 97},
}

// shrinkKinds: arrays whose length went to 2^32-1 and back. While C02-ARRAY-SHRINK-LINEAR stands,
// building them takes minutes without a polling point, so they are generated only once it is repaired.
var shrinkKinds = []kind{
	{Name: "hist-grown-max-then-shrunk", Expr: `(function(){var a=[1,2];a.length=4294967295;try{a.push(1)}catch(e){}a.length=2;return a})()`, Home: "array", Hostile: true, Group: 97},
	{Name: "hist-index-max", Expr: `(function(){var a=[1];a[4294967294]=1;a.length=3;a[4294967295]=2;return a})()`, Home: "array", Hostile: true, Group: 97},
}

func kindList() []kind {
	out := kinds
	if !known("C02-THROW-UNPRINTABLE") {
		out = append(append([]kind{}, out...), throwerKinds...)
	}
	if !known("C02-ARRAY-SHRINK-LINEAR") {
		out = append(append([]kind{}, out...), shrinkKinds...)
	}
	return out
}

type hostStruct struct {
	A   int
	B   string
	C   []int
	M   map[string]interface{}
	P   *hostStruct
	F   func(int) int
	hid int
}

func (h hostStruct) Method(x int) int         { return x + h.A }
func (h *hostStruct) PtrMethod() string       { return h.B }
func (h hostStruct) Variadic(a ...string) int { return len(a) }

// prepareVM defines the host values the kind expressions refer to. Otto.Set is public API too: a
// panic out of it is reported like any other.
func prepareVM(vm *otto.Otto) (out []escaped) {
	set := func(name string, v interface{}) {
		if p, _, text := guard(func() { _ = vm.Set(name, v) }); p {
			out = append(out, escaped{Where: "Otto.Set(" + name + ")", Text: text})
		}
	}
	set("__gobad", "a\xff\xfe\xc0\x80b\xed\xa0\x80")
	set("__gomap", map[string]interface{}{"a": 1, "b": "x", "c": []int{1, 2}})
	set("__gomapint", map[int]string{1: "one", 2: "two"})
	set("__goslice", []int{1, 2, 3})
	set("__gosliceany", []interface{}{1, "b", nil, []int{2}})
	set("__goarray", [3]string{"x", "y", "z"})
	set("__gostruct", hostStruct{A: 1, B: "b", C: []int{1}})
	set("__gostructptr", &hostStruct{A: 2, B: "p", M: map[string]interface{}{}})
	set("__gofunc", func(a int, b string) (string, error) { return b, nil })
	set("__gonative", func(call otto.FunctionCall) otto.Value { return call.This })
	var np *hostStruct
	set("__gonilptr", np)
	var nm map[string]int
	set("__gonilmap", nm)
	return out
}
