package c02

import (
	"fmt"
	"os"
	"path/filepath"
	"sort"
	"strings"
	"sync"
	"testing"

	"github.com/robertkrimen/otto"

	"verif/lib/harness"
)

// Facet property-sweep: every own property of every object reachable from the global object AND of
// instances of every built-in class (error objects created by script and by the runtime, functions,
// bound functions, arguments objects, RegExp/Date/String/Number/Boolean instances, arrays, object
// literals with accessors, bridged Go values) is described, read, read through inheritance, written,
// transplanted and deleted; every accessor half found is invoked on every receiver kind.
// (The function product of facet builtin-surface only sees functions stored as DATA properties of
// objects reachable from the global object; accessors of instances are not reachable that way.)

var instanceRoots = []string{
	`new Error("x")`, `new TypeError("t")`, `new RangeError()`, `new SyntaxError("s")`, `new URIError("u")`, `new EvalError("e")`, `new ReferenceError("r")`,
	`(function(){try{null.x}catch(e){return e}})()`,
	`(function(){try{(function f(){f()})()}catch(e){return e}})()`,
	`(function(){try{eval("(")}catch(e){return e}})()`,
	`(function(){try{decodeURI("%")}catch(e){return e}})()`,
	`(function(){try{x_undefined}catch(e){return e}})()`,
	`(function f(a,b){return a})`, `(function(){"use strict"})`, `(function(){}).bind({},1)`, `Function("a","return a")`,
	`(function(){return arguments})(1,2)`, `(function(a){"use strict";return arguments})(1)`, `(function(a,b){return arguments})(1)`,
	`/a(b)/gim`, `new RegExp("x")`, `/a(b)/.exec("ab")`, `"ab".match(/(a)(b)/)`,
	`new Date(0)`, `new Date(NaN)`, `new String("abc")`, `new Number(1)`, `new Boolean(true)`,
	`[1,2]`, `new Array(3)`, `({a:1,get g(){return 1},set s(v){},get gs(){return this},set gs(v){}})`,
	`Object.create(null,{p:{get:function(){return 1}}})`, `Object.create(new Error("proto"))`,
	`JSON.parse("{\"a\":[1]}")`, `Object.getOwnPropertyDescriptor({get a(){return 1}},"a")`,
	`__gomap`, `__gomapint`, `__goslice`, `__gosliceany`, `__goarray`, `__gostruct`, `__gostructptr`, `__gofunc`, `__gonative`,
}

// the walk: objects reachable through own data properties, accessor halves and prototypes; every
// object gets the first path that reaches it.
const objectsJS = `(function(roots){
  var seen=[], out=[], queue=[], later=[], ident=/^[A-Za-z_$][A-Za-z0-9_$]*$/;
  function id(o){ var i=seen.indexOf(o); if(i>=0) return i; seen.push(o); return -1 }
  function isObj(v){ return v!==null && (typeof v==="object" || typeof v==="function") }
  function push(o,p,d){ if(isObj(o) && id(o)<0){ out.push(p); queue.push([o,p,d]) } }
  push(this,"this",0);
  for(var r=0;r<roots.length;r++){ var v; try{ v=eval("("+roots[r]+")") }catch(e){ continue } later.push([v,"("+roots[r]+")",0]) }
  while(queue.length || later.length){
    if(!queue.length){ var l=later.shift(); push(l[0],l[1],l[2]); continue }
    var it=queue.shift(), o=it[0], p=it[1], depth=it[2];
    if(depth>6) continue;
    var names; try{ names=Object.getOwnPropertyNames(o).sort() }catch(e){ continue }
    for(var i=0;i<names.length;i++){
      var n=names[i], d; try{ d=Object.getOwnPropertyDescriptor(o,n) }catch(e){ continue }
      if(!d) continue;
      var q = p==="this" ? (ident.test(n)?n:'this['+JSON.stringify(n)+']') : (ident.test(n)?p+"."+n:p+'['+JSON.stringify(n)+']');
      if("value" in d) push(d.value,q,depth+1);
      else {
        var acc='Object.getOwnPropertyDescriptor('+p+','+JSON.stringify(n)+')';
        push(d.get,acc+".get",depth+1); push(d.set,acc+".set",depth+1);
      }
    }
    var pr=Object.getPrototypeOf(o);
    if(isObj(pr) && seen.indexOf(pr)<0) later.push([pr,"Object.getPrototypeOf("+p+")",depth+1]);
  }
  return out.join("\n");
})`

var (
	objectsOnce sync.Once
	objectPaths []string
	objectsErr  string
)

func discoverObjects() ([]string, string) {
	objectsOnce.Do(func() {
		vm := newVM(300, 100_000_000)
		prepareVM(vm)
		roots := append([]string{}, instanceRoots...)
		_, conv := conversionExprs() // data→accessor conversion histories: the objects, and (walked) their getter/setter values
		roots = append(roots, conv...)
		lits := make([]string, len(roots))
		for i, r := range roots {
			lits[i] = harness.JSString(r)
		}
		res := harness.Run(vm, objectsJS+"(["+strings.Join(lits, ",")+"])")
		if res.Panicked || res.Err != nil {
			objectsErr = "object walk failed: " + res.Describe()
			return
		}
		s, _ := res.Value.ToString()
		objectPaths = strings.Split(s, "\n")
		sort.Strings(objectPaths)
	})
	return objectPaths, objectsErr
}

type sweepCase struct {
	Obj  string `json:"obj"`  // expression denoting the object
	Only int    `json:"only"` // -1: everything; k: only operation k (fresh runtime)
}

// sweepOps: script templates; %O the object expression, %N the property name literal.
var sweepOps = []struct{ name, src string }{
	{"describe", `(function(){var d=Object.getOwnPropertyDescriptor(%O,%N); return d ? [typeof d.value,typeof d.get,typeof d.set,d.writable,d.enumerable,d.configurable].join() : "none"})()`},
	{"describe-stringify", `JSON.stringify(Object.getOwnPropertyDescriptor(%O,%N))`},
	{"read", `(%O)[%N]`},
	{"read-typeof-string", `(function(){var v=(%O)[%N]; return typeof v + (typeof v==="function" ? "" : String(v).length)})()`},
	{"inherited-read", `Object.create(%O)[%N]`},
	{"inherited-read-2-levels", `Object.create(Object.create(%O))[%N]`},
	{"constructor-prototype-read", `(function(){function C(){} C.prototype=(%O); return new C()[%N]})()`},
	{"inherited-write", `(function(){var o=Object.create(%O); o[%N]=1; return typeof o[%N]})()`},
	{"inherited-compound-write", `(function(){var o=Object.create(%O); o[%N]+=1; o[%N]++; return typeof o[%N]})()`},
	{"inherited-call", `(function(){var o=Object.create(%O); return o[%N]()})()`},
	{"transplant-object", `(function(){var d=Object.getOwnPropertyDescriptor(%O,%N), t={}; Object.defineProperty(t,%N,d); var r=t[%N]; t[%N]=2; return typeof r})()`},
	{"transplant-array", `(function(){var d=Object.getOwnPropertyDescriptor(%O,%N), t=[1,2]; Object.defineProperty(t,%N,d); var r=t[%N]; t[%N]=2; return typeof r})()`},
	{"transplant-function", `(function(){var d=Object.getOwnPropertyDescriptor(%O,%N), t=function(){}; Object.defineProperty(t,%N,d); var r=t[%N]; t[%N]=2; return typeof r})()`},
	{"transplant-error", `(function(){var d=Object.getOwnPropertyDescriptor(%O,%N), t=new Error("t"); Object.defineProperty(t,%N,d); var r=t[%N]; t[%N]=2; return typeof r})()`},
	{"defineProperties-copy", `(function(){var p={}; p[%N]=Object.getOwnPropertyDescriptor(%O,%N); var t=Object.create({},p); return typeof t[%N]})()`},
	{"tests", `[Object.prototype.hasOwnProperty.call(%O,%N), Object.prototype.propertyIsEnumerable.call(%O,%N), %N in (%O), %N in Object.create(%O)].join()`},
	{"with-read", `(function(){with(Object.create(%O)){ try { return typeof eval(%N) } catch(e) { return "E" } }})()`},
	{"uncaught-from-primitive-proto", `(function(){var d=Object.getOwnPropertyDescriptor(%O,%N); if(!d||!d.get) return "no getter"; Object.defineProperty(Number.prototype,"__t",{get:d.get,configurable:true}); var r=(5).__t; delete Number.prototype.__t; return typeof r})()`},
}

var sweepMutations = []struct{ name, src string }{
	{"redefine", `(function(){var d=Object.getOwnPropertyDescriptor(%O,%N); if(!d) return "none"; Object.defineProperty(%O,%N,d); return "ok"})()`},
	{"write", `(function(){var o=(%O); o[%N]=1; return typeof o[%N]})()`},
	{"delete", `(function(){var o=(%O); return delete o[%N]})()`},
}

func fill(tpl, obj, name string) string {
	return strings.ReplaceAll(strings.ReplaceAll(tpl, "%O", obj), "%N", name)
}

func runSweep(c sweepCase, jr *journal) (res jobResult) {
	var vm *otto.Otto
	fresh := func() {
		vm = newVM(64, 20000)
		res.Panics = append(res.Panics, prepareVM(vm)...)
	}
	fresh()
	// the names, from the runtime itself
	var names []string
	p, _, text := guard(func() {
		v, err := vm.Run(`Object.getOwnPropertyNames(` + c.Obj + `).sort().join("\u0001")`)
		if err == nil {
			s, _ := v.ToString()
			if s != "" {
				names = strings.Split(s, "\x01")
			}
		}
	})
	if p {
		res.Panics = append(res.Panics, escaped{Where: "getOwnPropertyNames(" + c.Obj + ")", Text: text, Sub: -1})
		return res
	}
	if len(names) > 60 {
		names = names[:60]
	}
	ks := kindList()
	sub := -1
	do := func(op, where string, fn func() error) {
		sub++
		if c.Only >= 0 && sub != c.Only {
			return
		}
		rec := callRecord{Sub: sub, Recv: c.Obj, Way: op, NT: true}
		jr.mark(sub)
		if c.Only >= 0 {
			fresh()
		}
		harness.Arm(vm, 20000)
		var err error
		p, b, text := guard(func() { err = fn() })
		if p {
			rec.Out = "panic"
			res.Panics = append(res.Panics, escaped{Where: fmt.Sprintf("#%d %s: %s", sub, op, where), Text: text, Sub: sub})
			fresh()
		} else {
			rec.Out = describeOutcome(err, b)
		}
		res.Calls = append(res.Calls, rec)
	}
	script := func(op, src string) {
		do(op, src, func() error { _, err := vm.Run(src); return err })
	}
	// once per object
	script("for-in-inherited", `(function(){var o=Object.create(`+c.Obj+`),r=0;for(var k in o){r+=String(typeof o[k]).length}return r})()`)
	script("keys-and-values", `(function(){var o=(`+c.Obj+`);return Object.keys(o).map(function(k){return typeof o[k]}).join()})()`)
	do("Go:Object.Keys/KeysByParent", c.Obj, func() error {
		o, err := vm.Object("(" + c.Obj + ")")
		if err != nil || o == nil {
			return err
		}
		_ = o.Keys()
		_ = o.KeysByParent()
		return nil
	})
	for _, n := range names {
		lit := harness.JSString(n)
		for _, op := range sweepOps {
			script(op.name, fill(op.src, c.Obj, lit))
		}
		n := n
		do("Go:Object.Get", c.Obj+" . "+lit, func() error {
			o, err := vm.Object("(" + c.Obj + ")")
			if err != nil || o == nil {
				return err
			}
			_, err = o.Get(n)
			return err
		})
		do("Go:inherited Object.Get/Set", "Object.create("+c.Obj+") . "+lit, func() error {
			o, err := vm.Object("Object.create(" + c.Obj + ")")
			if err != nil || o == nil {
				return err
			}
			if _, err = o.Get(n); err != nil {
				return err
			}
			return o.Set(n, 1)
		})
		// accessor halves on every receiver kind
		var hasGet, hasSet bool
		guard(func() {
			v, err := vm.Run(fill(`(function(){var d=Object.getOwnPropertyDescriptor(%O,%N);return d?(typeof d.get)+","+(typeof d.set):""})()`, c.Obj, lit))
			if err == nil {
				s, _ := v.ToString()
				hasGet, hasSet = strings.HasPrefix(s, "function,"), strings.HasSuffix(s, ",function")
			}
		})
		if hasGet || hasSet {
			// the halves called from Go while no script runs, on their own object and on themselves
			for _, halfName := range []string{"get", "set"} {
				if (halfName == "get" && !hasGet) || (halfName == "set" && !hasSet) {
					continue
				}
				halfName := halfName
				do("Go:accessor half Value.Call at rest", c.Obj+" . "+lit+" ."+halfName, func() error {
					half, err := vm.Run(fill(`Object.getOwnPropertyDescriptor(%O,%N).`+halfName, c.Obj, lit))
					if err != nil {
						return err
					}
					self, err := vm.Run("(" + c.Obj + ")")
					if err != nil {
						return err
					}
					if _, err = half.Call(self, 1); err != nil {
						return err
					}
					if _, err = half.Call(half, half); err != nil {
						return err
					}
					_, err = half.Call(otto.UndefinedValue())
					return err
				})
			}
			for _, k := range ks {
				if hasGet {
					script("getter.call(receiver)", fill(`Object.getOwnPropertyDescriptor(%O,%N).get.call(`+k.Expr+`)`, c.Obj, lit))
				}
				if hasSet {
					script("setter.call(receiver, v)", fill(`Object.getOwnPropertyDescriptor(%O,%N).set.call(`+k.Expr+`, `+k.Expr+`)`, c.Obj, lit))
				}
				if !k.Prim {
					script("accessor-transplanted-onto-receiver", fill(`(function(){var r=(`+k.Expr+`); Object.defineProperty(r,"__acc",Object.getOwnPropertyDescriptor(%O,%N)); var v=r.__acc; r.__acc=1; return typeof v})()`, c.Obj, lit))
				}
			}
		}
	}
	for _, n := range names {
		lit := harness.JSString(n)
		for _, op := range sweepMutations {
			script(op.name, fill(op.src, c.Obj, lit))
		}
	}
	return res
}

const sweepCallsFacet = "property-sweep/calls"

func checkSweep(c sweepCase) harness.Outcome {
	out := harness.Outcome{Nontrivial: true}
	jpath := filepath.Join(os.TempDir(), fmt.Sprintf("c02-journal-s-%d-%x", os.Getpid(), harness.Hash64(fmt.Sprint(c))))
	defer os.Remove(jpath)
	res, fatal := dispatch(job{Kind: "sweep", Sweep: &c, Journal: jpath})
	if fatal != "" {
		k := readJournal(jpath)
		triageFatal(fmt.Sprintf("sweep %s: %s", c.Obj, oneLine(fatal, 500)))
		out.Fail = fmt.Sprintf("property sweep of (%s): %s (operation in flight: #%d; replay it alone with \"only\":%d)\n(property C02: Run/Get/Set return; the process survives)", c.Obj, oneLine(fatal, 700), k, k)
		return out
	}
	if res.Note != "" {
		out.Fail = "worker: " + res.Note
		return out
	}
	for _, r := range res.Calls {
		harness.Count(sweepCallsFacet, true, c.Obj+"|"+fmt.Sprint(r.Sub), "op:"+r.Way, "outcome:"+r.Out)
	}
	if len(res.Calls) == 0 {
		out.Classes = append(out.Classes, "no-own-properties")
		out.Nontrivial = false
	}
	if len(res.Panics) > 0 {
		p := res.Panics[0]
		out.Fail = fmt.Sprintf("a Go panic crossed the public API: %s\n  in %s\n  (%d escaping panics over %d operations on this object; replay one alone with \"only\":%d)\n(property C02: no Go runtime panic escapes Run/Get/Set)", p.Text, p.Where, len(res.Panics), len(res.Calls), p.Sub)
		if os.Getenv("C02_TRIAGE") != "" {
			triage(res.Panics)
		}
	}
	return out
}

var sweepFacet = harness.Register(&harness.Facet[sweepCase]{
	Name:  "property-sweep",
	Rule:  "enumeration: every object reachable (own data properties, accessor halves, [[Prototype]] links; discovered at run time) from the global object and from instances of every built-in class — error objects made by script and by the runtime (TypeError of null.x, the stack-limit RangeError, SyntaxError of eval, URIError, ReferenceError), functions, strict functions, bound functions, Function() results, mapped/strict arguments objects, RegExp instances and exec/match results, Date, String/Number/Boolean objects, arrays, object literals with accessors, null-prototype objects, objects inheriting from an Error instance, property descriptors, bridged Go maps/slices/arrays/structs/functions — × every own property name × 18 operations outside any try block (describe, JSON of the descriptor, read, inherited read through Object.create at 1 and 2 levels and through a constructor's prototype, inherited write / compound write / call, the descriptor transplanted onto a plain object, an array, a function, an error and through Object.create(proto, descriptors), hasOwnProperty/propertyIsEnumerable/in, with-scoped read, a getter installed on Number.prototype and read from a primitive) + Go-side Object.Get / inherited Get+Set / Keys / KeysByParent + for every ACCESSOR half found: getter.call(R), setter.call(R, R) and the accessor transplanted onto R for every receiver kind R of facet builtin-surface; finally redefine, write and delete of every name. One case = one object on one runtime in a worker subprocess; oracle: every operation returns a value or an error, no Go panic crosses, the worker survives. Per-operation counters in property-sweep/calls; non-trivial = the object has own properties; distinct by (object path, operation index)",
	Check: checkSweep,
})

func TestPropertySweep(t *testing.T) {
	harness.SetRule(sweepCallsFacet, "the individual operations made by facet property-sweep (see there)")
	if harness.Shard() != 0 {
		return // a finite enumeration: one shard does it
	}
	paths, errText := discoverObjects()
	if errText != "" {
		t.Fatalf("HARNESS-ERROR %s", errText)
	}
	harness.SetExtra("objects_swept", len(paths))
	if len(paths) < 250 {
		t.Fatalf("HARNESS-ERROR only %d objects discovered: the walk is broken", len(paths))
	}
	var cases []sweepCase
	for _, p := range paths {
		cases = append(cases, sweepCase{Obj: p, Only: -1})
	}
	harness.SetExhaustive("property-sweep")
	// several workers in the quick tier (the cache only saves time: Check stays a function of the case)
	outs := make([]harness.Outcome, len(cases))
	var wg sync.WaitGroup
	next := make(chan int, len(cases))
	for i := range cases {
		next <- i
	}
	close(next)
	for w := 0; w < 4; w++ {
		wg.Add(1)
		go func() {
			defer wg.Done()
			for i := range next {
				outs[i] = checkSweep(cases[i])
			}
		}()
	}
	wg.Wait()
	idx := map[string]int{}
	for i, c := range cases {
		idx[c.Obj] = i
	}
	orig := sweepFacet.Check
	sweepFacet.Check = func(c sweepCase) harness.Outcome {
		if i, ok := idx[c.Obj]; ok && c.Only == -1 {
			return outs[i]
		}
		return orig(c)
	}
	defer func() { sweepFacet.Check = orig }()
	sweepFacet.Each(t, cases)
}
