package c02

import (
	"fmt"
	"regexp"
	"strings"
	"time"

	"github.com/robertkrimen/otto"
	"github.com/robertkrimen/otto/ast"
	"github.com/robertkrimen/otto/parser"

	"verif/lib/harness"
)

// Known findings of C02: one id per ROOT CAUSE (the fix that removes the crashers), a witness that is
// executed in a worker subprocess at the start of every run (several of them kill the process), and
// an exclusion class as narrow as the root cause allows, active only while the witness still fails.

type finding struct {
	ID      string
	Witness func() string // runs inside the worker; "" = behaves (returns a value or an error); may not return at all
}

// w runs one API call under guard and describes an escaping Go panic ("" = none).
func w(fn func()) string {
	p, _, text := guard(fn)
	if p {
		return "Go panic crossed the API: " + text
	}
	return ""
}

func wRun(src string) string {
	vm := newVM(64, 100_000)
	prepareVM(vm)
	return w(func() { _, _ = vm.Run(src) })
}

// wCallAtRest: Value.Call from Go while no script is running.
func wCallAtRest(fnExpr, thisExpr string, argExprs ...string) string {
	vm := newVM(64, 100_000)
	prepareVM(vm)
	f, _ := vm.Run("(" + fnExpr + ")")
	this, _ := vm.Run("(" + thisExpr + ")")
	var args []interface{}
	for _, a := range argExprs {
		v, _ := vm.Run("(" + a + ")")
		args = append(args, v)
	}
	return w(func() { _, _ = f.Call(this, args...) })
}

var findings = []finding{
	{"C02-THROW-UNPRINTABLE", func() string { return wRun(`throw {toString:function(){throw 1}}`) }},
	{"C02-OTTOCALL-EMPTY-BODY", func() string {
		vm := newVM(64, 100_000)
		return w(func() { _, _ = vm.Call("// a comment", nil) })
	}},
	{"C02-PARSER-DUP-LABEL", func() string {
		_, err := parser.ParseFile(nil, "", strings.Repeat("a:", 120)+";", 0)
		if el, ok := err.(*parser.ErrorList); ok && el != nil && len(*el) > 1000 {
			return fmt.Sprintf("120 nested labels `a:` produce %d syntax errors (quadratic; each costs O(offset)): 5000 levels = 15 KB of source take minutes and gigabytes", len(*el))
		}
		return ""
	}},
	{"C02-PARSEFUNCTION-WRAPPER", func() string { return wRun(`Function("", "}) + (function(){")`) }},
	{"C02-REGEXP-PROTOTYPE-NIL", func() string { return wRun(`RegExp.prototype.test("x")`) }},
	{"C02-TOLOCALESTRING-TAG", func() string { return wRun(`(1).toLocaleString("not a tag")`) }},
	{"C02-OBJECT-ASSIGN-PRIMITIVE", func() string { return wRun(`Object.assign(1, {a:1})`) }},
	{"C02-REPLACE-INVALID-UTF8", func() string { return wRun(`"abc".replace(__gobad, "x")`) }},
	{"C02-NATIVE-RECURSION-AT-REST", func() string {
		return wCallAtRest(`Array.prototype.join`, `(function(){var a=[1];a[1]=a;return a})()`)
	}},
	{"C02-JSON-STRINGIFY-DEPTH", func() string { return wRun(`JSON.stringify(1, Array)`) }},
	{"C02-GOSLICE-DEFINE-DESCRIPTOR", func() string {
		return wRun(`Object.defineProperty(__goslice, "0", {get: function(){ return 1 }})`)
	}},
	{"C02-ARRAY-SHRINK-LINEAR", func() string {
		vm := newVM(64, 100_000)
		_, _ = vm.Run(`var a=[1]; a.length=20000000`)
		start := time.Now()
		res := w(func() { _, _ = vm.Run(`a.length=1`) })
		if res != "" {
			return res
		}
		if d := time.Since(start); d > 150*time.Millisecond {
			return fmt.Sprintf("shrinking an empty array from length 2e7 to 1 took %v (one delete per index, no polling point): from 2^32-1 it is minutes that no interrupt can end", d.Round(10*time.Millisecond))
		}
		return ""
	}},
	{"C02-NIL-OBJECT-POINTER", func() string {
		vm := newVM(64, 100_000)
		return w(func() { _ = vm.Set("o", (*otto.Object)(nil)) })
	}},
	{"C02-NIL-GO-FUNC", func() string {
		vm := newVM(64, 100_000)
		_ = vm.Set("nf", (func())(nil))
		return w(func() { _, _ = vm.Run(`typeof nf === "function" ? nf() : 0`) })
	}},
	{"C02-APPLY-HUGE-LENGTH", func() string {
		// 2^32-1 Values would be 100 GB: the allocation fails at once (or the heap guard ends the worker)
		return wRun(`(function(){}).apply(null, {length: 4294967295})`)
	}},
	{"C02-GOMAP-NIL", func() string { return wRun(`__gonilmap.a = 1`) }},
	{"C02-EXPORT-UNGUARDED", func() string {
		vm := newVM(64, 100_000)
		v, _ := vm.Run(`({get a(){throw new Error("g")}})`)
		return w(func() { _, _ = v.Export() })
	}},
	{"C02-EXPORT-CYCLE", func() string {
		vm := newVM(64, 100_000)
		v, _ := vm.Run(`(function(){var o={};o.self=o;return o})()`)
		return w(func() { _, _ = v.Export() })
	}},
}

var allFindingIDs = func() []string {
	var out []string
	for _, f := range findings {
		out = append(out, f.ID)
	}
	return out
}()

func runWitness(id string) (res jobResult) {
	for _, f := range findings {
		if f.ID == id {
			res.Note = f.Witness()
			return res
		}
	}
	res.Note = "unknown witness " + id
	return res
}

func registerWitnesses() {
	for _, f := range findings {
		id := f.ID
		harness.RegisterWitness(id, func() (bool, string) {
			wk := pool.get()
			defer pool.put(wk)
			resp, st, detail := wk.w.Do(job{Kind: "witness", Witness: id}, watchdog)
			switch st {
			case harness.WorkerDied:
				if h := crashHead(wk.stderr); h != "" {
					detail = h
				}
				return true, "worker process died: " + detail
			case harness.WorkerTimeout:
				return true, "worker stopped answering: " + detail
			}
			var r jobResult
			if err := jsonUnmarshal(resp, &r); err != nil {
				return true, "undecodable witness answer"
			}
			if r.Note == "" {
				return false, "returns a value or an error"
			}
			return true, r.Note
		})
	}
}

// ---- exclusion classes --------------------------------------------------------------------------------------

func isOneOf(s string, set ...string) bool {
	for _, x := range set {
		if s == x {
			return true
		}
	}
	return false
}

// cyclicKind: values whose enumerable own-property graph has a cycle or never ends.
func cyclicKind(k kind) bool {
	return isOneOf(k.Name, "cyclic-object", "array-cyclic", "error-hostile", "getter-returns-self", "getter-makes-new")
}

var arrayMutators = []string{"Array.prototype.pop", "Array.prototype.push", "Array.prototype.shift", "Array.prototype.unshift", "Array.prototype.splice", "Array.prototype.reverse", "Array.prototype.sort"}
var arg0Writers = []string{"Object.assign", "Object.defineProperty", "Object.defineProperties", "Object.freeze", "Object.seal", "Object.preventExtensions"}

// exportsIntoBridgedContainer: the call stores its arguments into a bridged Go map[string]interface{} or
// []interface{} (receiver of an Array.prototype mutator, first argument of Object.assign/defineProperty…):
// every stored value is converted with Value.export, which has no visited set (C02-EXPORT-CYCLE). Whether an
// argument is cyclic does not only depend on its kind: earlier calls of the batch can have made every array
// cyclic (Array.prototype.push(a) pollutes Array.prototype[1], then a[1] === a for every a with a hole), or
// stored a container into itself. While the finding stands such calls therefore run on a FRESH runtime (no
// history); they are not skipped.
func exportsIntoBridgedContainer(fn fnEntry, recv kind, ap argPlan, ks []kind, way int) bool {
	if !known("C02-EXPORT-CYCLE") {
		return false
	}
	bridgedAny := func(name string) bool { return isOneOf(name, "go-map", "go-slice-any") }
	if isOneOf(fn.Path, arrayMutators...) {
		switch way {
		case 0, 2:
			return bridgedAny(recv.Name)
		case 3:
			return recv.Name != "undefined" && bridgedAny(recv.Name)
		}
		return false
	}
	if isOneOf(fn.Path, arg0Writers...) && len(ap.Kinds) > 0 && ap.Reenter != 0 {
		return bridgedAny(ks[ap.Kinds[0]].Name)
	}
	return false
}

// excludedCall: the (function, receiver, arguments, way) classes steered around in facet builtin-surface.
func excludedCall(fn fnEntry, recv kind, ap argPlan, ks []kind, way int) string {
	arg := func(i int) (kind, bool) {
		if i < len(ap.Kinds) {
			if ap.Reenter == i {
				return kind{Name: "reentrant-callback", Home: "function", Hostile: true}, true
			}
			return ks[ap.Kinds[i]], true
		}
		return kind{}, false
	}
	a0, has0 := arg(0)
	// the receiver the function actually sees
	this := recv
	switch way {
	case 1: // new f(...): a fresh object
		this = kind{Name: "new-object"}
	case 3:
		if recv.Name == "undefined" { // Otto.Call(path, nil): a method call on the owner
			this = kind{Name: fn.Owner}
		}
	case 4:
		this = kind{Name: fn.Owner}
	}
	anyArg := func(pred func(kind) bool) bool {
		for i := range ap.Kinds {
			if k, ok := arg(i); ok && pred(k) {
				return true
			}
		}
		return false
	}
	if known("C02-REGEXP-PROTOTYPE-NIL") {
		if isOneOf(fn.Path, "RegExp.prototype.exec", "RegExp.prototype.test") && this.Name == "RegExp.prototype" && way != 1 {
			return "C02-REGEXP-PROTOTYPE-NIL"
		}
		if isOneOf(fn.Path, "String.prototype.match", "String.prototype.replace", "String.prototype.search", "String.prototype.split") && has0 && a0.Name == "RegExp.prototype" {
			return "C02-REGEXP-PROTOTYPE-NIL"
		}
	}
	if known("C02-TOLOCALESTRING-TAG") && fn.Path == "Number.prototype.toLocaleString" && has0 && a0.Name != "undefined" && !isOneOf(a0.Name, "locale-en-US", "locale-de") {
		return "C02-TOLOCALESTRING-TAG"
	}
	if known("C02-OBJECT-ASSIGN-PRIMITIVE") && fn.Path == "Object.assign" && has0 && a0.Prim {
		return "C02-OBJECT-ASSIGN-PRIMITIVE"
	}
	if known("C02-REPLACE-INVALID-UTF8") && fn.Path == "String.prototype.replace" && has0 && a0.Name == "invalid-utf8" {
		return "C02-REPLACE-INVALID-UTF8"
	}
	if known("C02-NATIVE-RECURSION-AT-REST") && (way == 2 || way == 4) {
		// Value.Call / Object.Call while no script runs: native → native recursion enters no scope,
		// so the stack depth limit never fires; the cyclic array is the value that recurses natively
		cyc := func(k kind) bool { return k.Name == "array-cyclic" }
		if cyc(this) || anyArg(cyc) {
			return "C02-NATIVE-RECURSION-AT-REST"
		}
	}
	if known("C02-JSON-STRINGIFY-DEPTH") && fn.Path == "JSON.stringify" {
		// a replacer that answers every call with a fresh object makes the native walk descend for ever;
		// steered around: every callable second argument except the ones known to return primitives
		if a1, ok := arg(1); ok && a1.Home == "function" && !isOneOf(a1.Name, "function", "function-throws", "function-throws-primitive", "function-compare", "function-inconsistent", "native-fn", "ctor-Date", "ctor-Function", "ctor-RegExp", "eval-fn", "go-func") {
			return "C02-JSON-STRINGIFY-DEPTH"
		}
	}
	// bridged Go containers written through built-ins
	writesThis := isOneOf(fn.Path, arrayMutators...)
	writesArg0 := isOneOf(fn.Path, arg0Writers...)
	target := func(pred func(kind) bool) bool {
		return (writesThis && pred(this)) || (writesArg0 && has0 && pred(a0))
	}
	if known("C02-GOMAP-NIL") && target(func(k kind) bool { return k.Name == "go-nil-map" }) {
		return "C02-GOMAP-NIL"
	}
	if known("C02-GOSLICE-DEFINE-DESCRIPTOR") && isOneOf(fn.Path, "Object.assign", "Object.defineProperty", "Object.defineProperties") && has0 && isOneOf(a0.Name, "go-slice", "go-slice-any", "go-array") {
		return "C02-GOSLICE-DEFINE-DESCRIPTOR"
	}
	if known("C02-EXPORT-CYCLE") && target(func(k kind) bool { return isOneOf(k.Name, "go-map", "go-slice-any") }) && (anyArg(cyclicKind) || cyclicKind(this) || anyArg(func(k kind) bool { return k.Name == "reentrant-callback" })) {
		return "C02-EXPORT-CYCLE" // a value stored into map[string]interface{} is exported first
	}
	return ""
}

func excludedAccess(accessor string, k kind) string {
	if known("C02-NIL-GO-FUNC") && strings.HasPrefix(accessor, "nil Go value") && strings.Contains(accessor, "(func") && strings.Contains(accessor, "Value.Call argument") {
		return "C02-NIL-GO-FUNC" // a nil Go func becomes a callable object; Value.Call hands it to functions that may call it
	}
	if known("C02-NIL-OBJECT-POINTER") && strings.HasPrefix(accessor, "nil Go value") && strings.Contains(accessor, "otto.Object") {
		return "C02-NIL-OBJECT-POINTER" // a nil *otto.Object, bare or inside a slice / map / struct that is converted
	}
	if isOneOf(accessor, "Value.Export", "Otto.Set(exported)") {
		if known("C02-EXPORT-CYCLE") && (cyclicKind(k) || (k.Name == "global" && accessor == "Otto.Set(exported)")) {
			// (the earlier accessor call Otto.Set("__v", global) has made the global object cyclic)
			return "C02-EXPORT-CYCLE"
		}
		if known("C02-EXPORT-UNGUARDED") && isOneOf(k.Name, "throwing-getters", "arraylike-throwlen", "array-with-getter-element", "getter-recursive", "conv-throws-unprintable") {
			return "C02-EXPORT-UNGUARDED"
		}
	}
	if known("C02-NATIVE-RECURSION-AT-REST") && isOneOf(k.Name, "array-cyclic") &&
		(strings.HasPrefix(accessor, "Value.String") || strings.HasPrefix(accessor, "fmt.") || isOneOf(accessor, "Value.ToString", "Value.ToFloat", "Value.ToInteger", "Value.IsNaN", "Object.Value") || strings.HasPrefix(accessor, "Value.Call(") || strings.HasPrefix(accessor, "Object.Call(")) {
		return "C02-NATIVE-RECURSION-AT-REST"
	}
	if strings.HasPrefix(accessor, "Object.Set(") {
		if known("C02-GOMAP-NIL") && k.Name == "go-nil-map" {
			return "C02-GOMAP-NIL"
		}
	}
	return ""
}

func excludedRecur(c recurCase) string { return "" }

// excludedSource: a piece that contains a label and is repeated more than 100 times
// (C02-PARSER-DUP-LABEL: n equal nested labels cost n²/2 errors and cubic time).
func excludedSource(c sourceCase) string {
	if known("C02-PARSER-DUP-LABEL") {
		for _, p := range c.Pieces {
			if p.N > 100 && labelRe.MatchString(p.T) {
				return "C02-PARSER-DUP-LABEL"
			}
		}
	}
	return ""
}

var labelRe = regexp.MustCompile(`(^|[{};\s])[A-Za-z_$][\w$]*\s*:`)

// skipOttoCallNil: Otto.Call(src, nil) indexes body[0] of the program parsed from src+"()"; when that
// program has no statement (src ends in a line comment that swallows the parentheses, …) it panics.
func skipOttoCallNil(src string) bool {
	if !known("C02-OTTOCALL-EMPTY-BODY") {
		return false
	}
	var empty bool
	guard(func() {
		p, err := parser.ParseFile(nil, "", src+"()", 0)
		empty = err == nil && p != nil && len(p.Body) == 0
	})
	return empty
}

// breaksFunctionWrapper: parser.ParseFunction wraps its arguments as (function(PARAMS) {\nBODY\n}) and
// type-asserts the result; a text that closes the wrapper early parses to something else and the
// assertion panics (C02-PARSEFUNCTION-WRAPPER). The same parser decides membership of the class.
func breaksFunctionWrapper(params, body string) bool {
	if !known("C02-PARSEFUNCTION-WRAPPER") {
		return false
	}
	var breaks bool
	guard(func() {
		p, err := parser.ParseFile(nil, "", "(function("+params+") {\n"+body+"\n})", 0)
		if err != nil || p == nil {
			return
		}
		breaks = true
		if len(p.Body) == 1 {
			if st, ok := p.Body[0].(*ast.ExpressionStatement); ok {
				if _, ok := st.Expression.(*ast.FunctionLiteral); ok {
					breaks = false
				}
			}
		}
	})
	return breaks
}

func knownSourcePanic(p escaped) string { return "" }

var _ = otto.New
