package c02

// Known findings of C02: one id per root cause, an exclusion class as narrow as the root cause
// allows, active only while the witness still fails (harness.Known).

var allFindingIDs = []string{}

func registerWitnesses() {}

// excludedCall: the (function, receiver, arguments, way) classes steered around in facet builtin-surface.
func excludedCall(fn fnEntry, recv kind, ap argPlan, ks []kind, way int) string { return "" }

func excludedAccess(accessor string, k kind) string { return "" }

func excludedRecur(c recurCase) string { return "" }

func knownSourcePanic(p escaped) string { return "" }
