package c02

// Known findings of C02: one id per root cause, an exclusion class as narrow as the root cause
// allows, active only while the witness still fails (harness.Known).

var allFindingIDs = []string{}

func registerWitnesses() {}

// excludedCall: the (function, receiver, arguments, way) classes steered around in facet builtin-surface.
func excludedCall(fn fnEntry, recv kind, ap argPlan, ks []kind, way int) string { return "" }

func excludedAccess(accessor string, k kind) string { return "" }

func excludedRecur(c recurCase) string { return "" }

func knownSourcePanic(p escaped) string { return "" }

// excludedSource: nesting of one label deeper than 300 (see C02-PARSER-DUP-LABEL).
func excludedSource(c sourceCase) string {
	if known("C02-PARSER-DUP-LABEL") || true {
		for _, p := range c.Pieces {
			if p.N > 300 && labelOpener(p.T) {
				return "C02-PARSER-DUP-LABEL"
			}
		}
	}
	return ""
}

func labelOpener(t string) bool {
	return t == "{a:" || t == "a:" || t == "{a:{"
}
