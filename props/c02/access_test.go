package c02

import (
	"encoding/json"
	"fmt"
	"os"
	"path/filepath"
	"strings"
	"testing"

	"github.com/robertkrimen/otto"

	"verif/lib/harness"
)

// accessKinds: value kinds used only by the accessor facet, on top of the shared ones.
var accessKinds = []kind{
	{Name: "deep-array", Expr: `(function(){var a=[];for(var i=0;i<3000;i++)a=[a];return a})()`, Hostile: true},
	{Name: "deep-object", Expr: `(function(){var o={};for(var i=0;i<3000;i++)o={o:o};return o})()`, Hostile: true},
	{Name: "wide-array", Expr: `(function(){var a=[];for(var i=0;i<5000;i++)a[i]=i%7?i:{i:i};return a})()`},
	{Name: "array-with-getter-element", Expr: `(function(){var a=[1,2];Object.defineProperty(a,"0",{get:function(){throw new Error("el")},enumerable:true});return a})()`, Hostile: true},
	{Name: "array-length-1e4", Expr: `(function(){var a=[1];a.length=10000;return a})()`, Hostile: true},
	{Name: "object-toJSON-throws", Expr: `({toJSON:function(){throw new Error("tj")}})`, Hostile: true},
	{Name: "object-toJSON-self", Expr: `(function(){var o={};o.toJSON=function(){return o};return o})()`, Hostile: true},
	{Name: "object-toJSON-recursive", Expr: `(function(){var o={};o.toJSON=function(){return JSON.stringify(o)};return o})()`, Hostile: true},
	{Name: "getter-returns-self", Expr: `(function(){var o={};Object.defineProperty(o,"me",{get:function(){return o},enumerable:true});return o})()`, Hostile: true},
	{Name: "getter-recursive", Expr: `(function(){var o={get g(){return o.g}};return o})()`, Hostile: true},
	{Name: "getter-makes-new", Expr: `(function(){function mk(){return {get next(){return mk()}}}return mk()})()`, Hostile: true},
	{Name: "mixed-type-array", Expr: `[1,"a",null,undefined,[2],{b:3},function(){},new Date(0),/r/]`},
	{Name: "array-of-maps", Expr: `[{a:1},{a:2}]`},
	{Name: "array-of-arrays", Expr: `[[1],[2,3],[]]`},
	{Name: "array-of-undefined", Expr: `[undefined,undefined]`},
	{Name: "array-of-null", Expr: `[null,null]`},
	{Name: "array-of-nan", Expr: `[NaN,Infinity,-0]`},
	{Name: "array-of-go", Expr: `[__gomap,__goslice,__gostruct,__gofunc]`, Hostile: true},
	{Name: "number-object-nan", Expr: `new Number(NaN)`},
	{Name: "date-object-nan-proto", Expr: `Object.create(Date.prototype)`, Hostile: true},
	{Name: "eval-result-reference", Expr: `(function(){return eval("arguments")})(1)`, Hostile: true},
	{Name: "caught-rangeerror", Expr: `(function(){try{(function f(){f()})()}catch(e){return e}})()`, Hostile: true},
	{Name: "caught-syntaxerror", Expr: `(function(){try{eval("(")}catch(e){return e}})()`},
	{Name: "thrown-go-error", Expr: `(function(){try{__gofail()}catch(e){return e}})()`, Hostile: true},
}

func allAccessKinds() []kind { return append(append([]kind{}, kindList()...), accessKinds...) }

type accessCase struct {
	Kind string `json:"kind"` // name of the value kind
	Only int    `json:"only"` // -1 all accessors; k only accessor call k (fresh runtime)
}

var accessKeys = []string{"a", "length", "0", "toString", "__proto__", "", "self", "me", "g", "\U0001F600", "a\xffb", "constructor", "4294967295", "-1", "P", "Method"}

// accessorCalls is the fixed list of public accessor calls made on each value.
type accessorCall struct {
	Name string
	Run  func(vm *otto.Otto, v otto.Value, o *otto.Object) error
}

func buildAccessorCalls() []accessorCall {
	var out []accessorCall
	add := func(name string, fn func(vm *otto.Otto, v otto.Value, o *otto.Object) error) {
		out = append(out, accessorCall{name, fn})
	}
	add("Value.String", func(vm *otto.Otto, v otto.Value, o *otto.Object) error { _ = v.String(); return nil })
	add("fmt.Sprint(Value)", func(vm *otto.Otto, v otto.Value, o *otto.Object) error { _ = fmt.Sprint(v); return nil })
	add("fmt.Sprintf(%#v %+v, Value)", func(vm *otto.Otto, v otto.Value, o *otto.Object) error {
		_ = fmt.Sprintf("%+v %s %d", v, v, v)
		return nil
	})
	add("Value.ToString", func(vm *otto.Otto, v otto.Value, o *otto.Object) error { _, err := v.ToString(); return err })
	add("Value.ToInteger", func(vm *otto.Otto, v otto.Value, o *otto.Object) error { _, err := v.ToInteger(); return err })
	add("Value.ToFloat", func(vm *otto.Otto, v otto.Value, o *otto.Object) error { _, err := v.ToFloat(); return err })
	add("Value.ToBoolean", func(vm *otto.Otto, v otto.Value, o *otto.Object) error { _, err := v.ToBoolean(); return err })
	add("Value.Export", func(vm *otto.Otto, v otto.Value, o *otto.Object) error { _, err := v.Export(); return err })
	add("Value.MarshalJSON", func(vm *otto.Otto, v otto.Value, o *otto.Object) error { _, err := v.MarshalJSON(); return err })
	add("json.Marshal(Value)", func(vm *otto.Otto, v otto.Value, o *otto.Object) error { _, err := json.Marshal(v); return err })
	add("json.Marshal([]Value)", func(vm *otto.Otto, v otto.Value, o *otto.Object) error {
		_, err := json.Marshal(map[string]interface{}{"v": []otto.Value{v, v}})
		return err
	})
	add("Value.IsNaN", func(vm *otto.Otto, v otto.Value, o *otto.Object) error { _ = v.IsNaN(); return nil })
	add("Value.Is*", func(vm *otto.Otto, v otto.Value, o *otto.Object) error {
		_ = v.IsDefined() || v.IsUndefined() || v.IsNull() || v.IsPrimitive() || v.IsBoolean() || v.IsNumber() || v.IsString() || v.IsObject() || v.IsFunction()
		return nil
	})
	add("Value.Class", func(vm *otto.Otto, v otto.Value, o *otto.Object) error { _ = v.Class(); return nil })
	add("Value.Object", func(vm *otto.Otto, v otto.Value, o *otto.Object) error { _ = v.Object(); return nil })
	add("Value.Call(undefined)", func(vm *otto.Otto, v otto.Value, o *otto.Object) error {
		_, err := v.Call(otto.UndefinedValue())
		return err
	})
	add("Value.Call(self, self, native args)", func(vm *otto.Otto, v otto.Value, o *otto.Object) error {
		_, err := v.Call(v, v, 1, "s", nil, []int{1}, map[string]int{"k": 1}, struct{ X int }{1}, 2.5, otto.NullValue())
		return err
	})
	add("Value.Call(zero Value)", func(vm *otto.Otto, v otto.Value, o *otto.Object) error {
		_, err := v.Call(otto.Value{}, otto.Value{})
		return err
	})
	add("Otto.ToValue(Value)", func(vm *otto.Otto, v otto.Value, o *otto.Object) error { _, err := vm.ToValue(v); return err })
	add("Otto.ToValue(&Value)", func(vm *otto.Otto, v otto.Value, o *otto.Object) error { _, err := vm.ToValue(&v); return err })
	add("Otto.ToValue([]Value)", func(vm *otto.Otto, v otto.Value, o *otto.Object) error {
		_, err := vm.ToValue([]otto.Value{v})
		return err
	})
	add("Otto.Set(name, Value)+Get", func(vm *otto.Otto, v otto.Value, o *otto.Object) error {
		if err := vm.Set("__v", v); err != nil {
			return err
		}
		_, err := vm.Get("__v")
		return err
	})
	add("Otto.Set(exported)", func(vm *otto.Otto, v otto.Value, o *otto.Object) error {
		x, _ := v.Export()
		return vm.Set("__x", x)
	})
	add("Otto.Call(fn, Value this, Value)", func(vm *otto.Otto, v otto.Value, o *otto.Object) error {
		_, err := vm.Call("Object.prototype.toString", v, v)
		return err
	})
	add("Otto.Call(String, nil, Value)", func(vm *otto.Otto, v otto.Value, o *otto.Object) error {
		_, err := vm.Call("String", nil, v)
		return err
	})
	add("Otto.Call(JSON.stringify, nil, Value)", func(vm *otto.Otto, v otto.Value, o *otto.Object) error {
		_, err := vm.Call("JSON.stringify", nil, v, nil, v)
		return err
	})
	// Object methods (only when the value is an object)
	obj := func(name string, fn func(vm *otto.Otto, v otto.Value, o *otto.Object) error) {
		add(name, func(vm *otto.Otto, v otto.Value, o *otto.Object) error {
			if o == nil {
				return errNotObject
			}
			return fn(vm, v, o)
		})
	}
	obj("Object.Keys", func(vm *otto.Otto, v otto.Value, o *otto.Object) error { _ = o.Keys(); return nil })
	obj("Object.KeysByParent", func(vm *otto.Otto, v otto.Value, o *otto.Object) error { _ = o.KeysByParent(); return nil })
	obj("Object.Class", func(vm *otto.Otto, v otto.Value, o *otto.Object) error { _ = o.Class(); return nil })
	obj("Object.Value", func(vm *otto.Otto, v otto.Value, o *otto.Object) error { _ = o.Value().String(); return nil })
	obj("Object.MarshalJSON", func(vm *otto.Otto, v otto.Value, o *otto.Object) error { _, err := o.MarshalJSON(); return err })
	obj("json.Marshal(*Object)", func(vm *otto.Otto, v otto.Value, o *otto.Object) error { _, err := json.Marshal(o); return err })
	obj("Object.Get(every key from Keys)", func(vm *otto.Otto, v otto.Value, o *otto.Object) error {
		var first error
		for i, k := range o.Keys() {
			if i > 50 {
				break
			}
			if _, err := o.Get(k); err != nil && first == nil {
				first = err
			}
		}
		return first
	})
	for _, key := range accessKeys {
		key := key
		obj(fmt.Sprintf("Object.Get(%q)", key), func(vm *otto.Otto, v otto.Value, o *otto.Object) error { _, err := o.Get(key); return err })
		obj(fmt.Sprintf("Object.Set(%q, 1)", key), func(vm *otto.Otto, v otto.Value, o *otto.Object) error { return o.Set(key, 1) })
		obj(fmt.Sprintf("Object.Call(%q)", key), func(vm *otto.Otto, v otto.Value, o *otto.Object) error {
			_, err := o.Call(key, v, "x", 3)
			return err
		})
	}
	obj(`Object.Set("length", -1)`, func(vm *otto.Otto, v otto.Value, o *otto.Object) error { return o.Set("length", -1) })
	obj(`Object.Set("length", 2)`, func(vm *otto.Otto, v otto.Value, o *otto.Object) error { return o.Set("length", 2) })
	obj(`Object.Set("0", self)`, func(vm *otto.Otto, v otto.Value, o *otto.Object) error { return o.Set("0", v) })
	for _, gv := range goSetValues {
		gv := gv
		obj(fmt.Sprintf(`Object.Set("k", %s)`, gv.name), func(vm *otto.Otto, v otto.Value, o *otto.Object) error { return o.Set("k", gv.v) })
	}
	for _, gv := range nilGoValues {
		gv := gv
		add(fmt.Sprintf(`nil Go value %s: Otto.Set / ToValue`, gv.name), func(vm *otto.Otto, v otto.Value, o *otto.Object) error {
			if err := vm.Set("__nil", gv.v); err != nil {
				return err
			}
			if _, err := vm.Run(`[typeof __nil, String(__nil), JSON.stringify(__nil)].join()`); err != nil {
				return err
			}
			_, err := vm.ToValue(gv.v)
			return err
		})
		add(fmt.Sprintf(`nil Go value %s: Value.Call argument and this`, gv.name), func(vm *otto.Otto, v otto.Value, o *otto.Object) error {
			if _, err := v.Call(v, gv.v, 1); err != nil {
				return err
			}
			if _, err := vm.Call("Object.prototype.toString", gv.v, gv.v); err != nil {
				return err
			}
			_, err := vm.Call("String", nil, gv.v)
			return err
		})
		obj(fmt.Sprintf(`nil Go value %s: Object.Set / Object.Call argument`, gv.name), func(vm *otto.Otto, v otto.Value, o *otto.Object) error {
			if err := o.Set("k", gv.v); err != nil {
				return err
			}
			_, err := o.Call("toString", gv.v)
			return err
		})
	}
	return out
}

var errNotObject = fmt.Errorf("not an object")

// nilGoValues: typed nil pointers, nil funcs/maps/slices and zero handles a host can hand to Set / ToValue / Call.
var nilGoValues = []struct {
	name string
	v    interface{}
}{
	{"(*otto.Object)(nil)", (*otto.Object)(nil)}, {"(*otto.Otto)(nil)", (*otto.Otto)(nil)}, {"(*otto.Value)(nil)", (*otto.Value)(nil)}, {"(*otto.Script)(nil)", (*otto.Script)(nil)},
	{"(*hostStruct)(nil)", (*hostStruct)(nil)}, {"(*int)(nil)", (*int)(nil)}, {"(*string)(nil)", (*string)(nil)}, {"(**int)(nil)", (**int)(nil)}, {"(*[]int)(nil)", (*[]int)(nil)}, {"(*map[string]int)(nil)", (*map[string]int)(nil)},
	{"(func())(nil)", (func())(nil)}, {"(func(otto.FunctionCall) otto.Value)(nil)", (func(otto.FunctionCall) otto.Value)(nil)}, {"(func(int) (int, error))(nil)", (func(int) (int, error))(nil)},
	{"map[string]int(nil)", map[string]int(nil)}, {"map[string]interface{}(nil)", map[string]interface{}(nil)}, {"[]int(nil)", []int(nil)}, {"[]interface{}(nil)", []interface{}(nil)}, {"[]otto.Value(nil)", []otto.Value(nil)},
	{"(chan int)(nil)", (chan int)(nil)}, {"error(nil) in []error", []error{nil}}, {"[]*otto.Object{nil}", []*otto.Object{nil}}, {"map[string]*otto.Object{k:nil}", map[string]*otto.Object{"k": nil}},
	{"struct{O *otto.Object}{}", struct{ O *otto.Object }{}}, {"&struct{V otto.Value; F func()}{}", &struct {
		V otto.Value
		F func()
	}{}},
	{"[]interface{}{(*otto.Object)(nil), (func())(nil)}", []interface{}{(*otto.Object)(nil), (func())(nil)}}, {"otto.Value{}", otto.Value{}},
}

var goSetValues = []struct {
	name string
	v    interface{}
}{
	{"nil", nil}, {"map[string]interface{}", map[string]interface{}{"m": []int{1}}}, {"[]string", []string{"a"}}, {"*struct", &hostStruct{}},
	{"func()", func() {}}, {"chan int", make(chan int)}, {"complex128", complex(1, 2)}, {"uintptr", uintptr(1)}, {"[2]bool", [2]bool{}}, {"struct{}", struct{}{}},
	{"(*int)(nil)", (*int)(nil)}, {"error", fmt.Errorf("e")}, {"otto.Value{}", otto.Value{}}, {"map[int]interface{}{1:nil}", map[int]interface{}{1: nil}},
	{"[]interface{}{nil}", []interface{}{nil, []interface{}{nil}}}, {"time-like struct with unexported fields", struct{ a, B int }{1, 2}},
}

var accessorCalls = buildAccessorCalls()

func runAccess(c accessCase, jr *journal) (res jobResult) {
	var k *kind
	for _, x := range allAccessKinds() {
		if x.Name == c.Kind {
			x := x
			k = &x
		}
	}
	if k == nil {
		res.Note = "unknown kind " + c.Kind
		return res
	}
	var vm *otto.Otto
	var v otto.Value
	var o *otto.Object
	fresh := func() bool {
		vm = newVM(64, 200_000)
		res.Panics = append(res.Panics, prepareVM(vm)...)
		_ = vm.Set("__gofail", func() (int, error) { return 0, fmt.Errorf("go error") })
		var err error
		p, b, text := guard(func() { v, err = vm.Run("(" + k.Expr + ")") })
		if p {
			res.Panics = append(res.Panics, escaped{Where: "Run(" + k.Expr + ")", Text: text, Sub: -1})
			return false
		}
		if b || err != nil {
			res.Note = fmt.Sprintf("value expression did not evaluate: %v", err)
			return false
		}
		o = v.Object()
		return true
	}
	if !fresh() {
		return res
	}
	for i, ac := range accessorCalls {
		if c.Only >= 0 && i != c.Only {
			continue
		}
		rec := callRecord{Sub: i, Recv: k.Name, Way: ac.Name, NT: k.Hostile || o != nil}
		if id := excludedAccess(ac.Name, *k); id != "" {
			rec.Out = "excluded:" + id
			res.Calls = append(res.Calls, rec)
			continue
		}
		jr.mark(i)
		harness.Arm(vm, 200_000)
		var err error
		p, b, text := guard(func() { err = ac.Run(vm, v, o) })
		switch {
		case p:
			rec.Out = "panic"
			res.Panics = append(res.Panics, escaped{Where: fmt.Sprintf("#%d %s on (%s)", i, ac.Name, k.Expr), Text: text, Sub: i})
			res.Calls = append(res.Calls, rec)
			if !fresh() {
				return res
			}
			continue
		case err == errNotObject:
			continue
		default:
			rec.Out = describeOutcome(err, b)
		}
		res.Calls = append(res.Calls, rec)
	}
	return res
}

const accessCallsFacet = "accessors/calls"

func checkAccess(c accessCase) harness.Outcome {
	out := harness.Outcome{}
	jpath := filepath.Join(os.TempDir(), fmt.Sprintf("c02-journal-a-%d-%x", os.Getpid(), harness.Hash64(fmt.Sprint(c))))
	defer os.Remove(jpath)
	res, fatal := dispatch(job{Kind: "access", Access: &c, Journal: jpath})
	expr := ""
	for _, k := range allAccessKinds() {
		if k.Name == c.Kind {
			expr = k.Expr
		}
	}
	if fatal != "" {
		i := readJournal(jpath)
		name := "?"
		if i >= 0 && i < len(accessorCalls) {
			name = accessorCalls[i].Name
		}
		out.Nontrivial = true
		triageFatal(fmt.Sprintf("%s on the value of (%s): %s", name, expr, oneLine(fatal, 700)))
		out.Fail = fmt.Sprintf("%s on the value of (%s): %s (replay alone with \"only\":%d)\n(property C02: the Value/Object accessors return a value or an error)", name, expr, oneLine(fatal, 700), i)
		return out
	}
	if res.Note != "" {
		out.Fail = "worker: " + res.Note + " for " + expr
		return out
	}
	for _, r := range res.Calls {
		if strings.HasPrefix(r.Out, "excluded:") {
			id := strings.TrimPrefix(r.Out, "excluded:")
			out.Excluded = append(out.Excluded, id)
			harness.CountExcluded(accessCallsFacet, id)
			continue
		}
		out.Nontrivial = out.Nontrivial || r.NT
		name := r.Way
		if i := strings.Index(name, "("); i > 0 && strings.HasPrefix(name, "Object.") {
			name = name[:i]
		}
		harness.Count(accessCallsFacet, r.NT, r.Recv+"|"+r.Way, "accessor:"+name, "outcome:"+r.Out)
	}
	if len(res.Panics) > 0 {
		p := res.Panics[0]
		out.Fail = fmt.Sprintf("a Go panic crossed the public API: %s\n  in %s\n  (%d escaping panics over %d accessor calls on this value; replay one alone with \"only\":%d)\n(property C02: the Value/Object accessors return a value or an error)", p.Text, p.Where, len(res.Panics), len(res.Calls), p.Sub)
		if os.Getenv("C02_TRIAGE") != "" {
			triage(res.Panics)
		}
	}
	return out
}

var accessFacet = harness.Register(&harness.Facet[accessCase]{
	Name:  "accessors",
	Rule:  "enumeration: every value kind of facet builtin-surface plus accessor-specific ones (3000-deep arrays/objects, arrays with throwing getter elements, toJSON that throws / returns itself / recurses, getters returning the object itself or a fresh object for ever, arrays of bridged Go values, caught RangeError/SyntaxError/Go errors …) × every public accessor: Value.String/ToString/ToInteger/ToFloat/ToBoolean/Export/MarshalJSON/IsNaN/Is*/Class/Object/Call (three argument shapes incl. zero Values and native Go arguments), fmt and encoding/json on Values, Otto.ToValue/Set/Get/Call with the value, Object.Keys/KeysByParent/Class/Value/MarshalJSON, Object.Get/Set/Call over 16 property names (incl. empty, astral, invalid UTF-8, index-like) and Object.Set with 16 kinds of Go values. One case = one value on a fresh runtime (stack depth limit 64, poll budget) in a worker subprocess; oracle: each call returns, no Go panic crosses, the worker survives and answers. Per-call counters are in facet accessors/calls: non-trivial = the value is an object or hostile; distinct by (value kind, accessor call)",
	Check: checkAccess,
})

func TestAccessors(t *testing.T) {
	harness.SetRule(accessCallsFacet, "the individual accessor calls made by facet accessors (see there)")
	var cases []accessCase
	for _, k := range allAccessKinds() {
		cases = append(cases, accessCase{Kind: k.Name, Only: -1})
	}
	if harness.Shard() != 0 {
		return // a finite enumeration: one shard does it
	}
	harness.SetExhaustive("accessors")
	accessFacet.Each(t, cases)
}
