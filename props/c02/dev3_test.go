package c02

import (
	"fmt"
	"os"
	"runtime/debug"
	"testing"

	"github.com/robertkrimen/otto"
)

func TestDevExportGlobal(t *testing.T) {
	if os.Getenv("C02_DEV") != "exportglobal" {
		t.Skip()
	}
	debug.SetMaxStack(32 << 20)
	vm := otto.New()
	v, _ := vm.Run(os.Getenv("C02_JS"))
	x, err := v.Export()
	fmt.Printf("%.300v %v\n", x, err)
}
