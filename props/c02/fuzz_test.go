package c02

import (
	"flag"
	"os"
	"path/filepath"
	"regexp"
	"strings"
	"testing"

	"verif/lib/harness"
)

// FuzzSource is the native coverage-guided companion of facet source-bytes (DESIGN §2.2: it can only
// ever ADD findings; a campaign without crashers is not evidence and nothing registered runs it).
//
//	cd /verif && GOFLAGS=-mod=mod go test -tags verif -vet=off -run '^$' -fuzz FuzzSource -fuzztime 60s ./props/c02
//
// The corpus is seeded with the back-quoted and double-quoted snippets of otto's own *_test.go files
// (VERIF_REPO or /repo), the hostile one-liners and the literal soup. A crasher is written by the Go
// fuzzing engine to testdata/fuzz/FuzzSource/<hash>; turn it into a replay file with
//
//	{"property":"C02","facet":"source-bytes","case":{"pieces":[{"x":"<hex of the bytes>"}],"sep":"","limit":64,"mode":"fuzz"}}
//
// Escaping panics that belong to a listed known finding (matched by construction where the class is
// decidable on the text, otherwise by the frame that panics) are ignored while that finding stands,
// otherwise the engine would stop at the first rediscovery.
func FuzzSource(f *testing.F) {
	fuzzing := false
	if fl := flag.Lookup("test.fuzz"); fl != nil && fl.Value.String() != "" {
		fuzzing = true
	}
	if fl := flag.Lookup("test.fuzzworker"); fl != nil && fl.Value.String() == "true" {
		fuzzing = true
	}
	if !fuzzing {
		f.Skip("native fuzz target: run with -fuzz FuzzSource (see NOTES.md); the registered tiers do not depend on it")
	}
	for _, s := range fuzzSeeds() {
		f.Add([]byte(s))
	}
	f.Fuzz(func(t *testing.T, data []byte) {
		if len(data) > 20000 {
			return
		}
		src := string(data)
		if harness.Known("C02-PARSER-DUP-LABEL") && len(labelRe.FindAllStringIndex(src, 101)) > 100 {
			return
		}
		l, _ := runSourceText(src, 64)
		for _, p := range l.panics {
			if id := fuzzKnownFrame(p); id != "" && harness.Known(id) {
				continue
			}
			t.Fatalf("a Go panic crossed %s: %s\nsource: %q", p.Where, p.Text, src)
		}
	})
}

// fuzzKnownFrame maps the panicking frame to a known finding (fuzz target only: the generated
// facets exclude by construction).
func fuzzKnownFrame(p escaped) string {
	switch {
	case strings.Contains(p.Text, "*otto.exception") && strings.Contains(p.Text, "cmplEvaluateNodeStatement"):
		return "C02-THROW-UNPRINTABLE"
	case strings.Contains(p.Text, "execRegExp"), strings.Contains(p.Text, "nil pointer") && strings.Contains(p.Text, "builtinString"):
		return "C02-REGEXP-PROTOTYPE-NIL"
	case strings.Contains(p.Text, "ParseFunction"):
		return "C02-PARSEFUNCTION-WRAPPER"
	case strings.Contains(p.Text, "builtinNumberToLocaleString"):
		return "C02-TOLOCALESTRING-TAG"
	case strings.Contains(p.Text, "builtinObjectAssign"), strings.Contains(p.Text, "(*object).put") || strings.Contains(p.Text, "(*object).defineOwnProperty"):
		return "C02-OBJECT-ASSIGN-PRIMITIVE"
	case strings.Contains(p.Text, ".Otto.Call") && strings.Contains(p.Text, "index out of range [0]"):
		return "C02-OTTOCALL-EMPTY-BODY"
	}
	return ""
}

var quoted = regexp.MustCompile("(?s)`([^`]+)`")

func fuzzSeeds() []string {
	seeds := append([]string{}, hostileSnippets...)
	seeds = append(seeds, soupLiterals...)
	repo := os.Getenv("VERIF_REPO")
	if repo == "" {
		repo = "/repo"
	}
	files, _ := filepath.Glob(filepath.Join(repo, "*_test.go"))
	more, _ := filepath.Glob(filepath.Join(repo, "parser", "*_test.go"))
	n := 0
	for _, fn := range append(files, more...) {
		b, err := os.ReadFile(fn)
		if err != nil {
			continue
		}
		for _, m := range quoted.FindAllStringSubmatch(string(b), -1) {
			if n++; n%3 == 0 && len(seeds) < 1500 && len(m[1]) < 2000 { // every third snippet: enough variety, quick start-up
				seeds = append(seeds, m[1])
			}
		}
	}
	return seeds
}
